-- Root of the `RedactVerif` library.
import RedactVerif.Model.Bytes
import RedactVerif.Model.Markers
import RedactVerif.Model.Utf8
import RedactVerif.Model.Escape
import RedactVerif.Model.Buffer
import RedactVerif.Model.Writer
import RedactVerif.Model.Format
import RedactVerif.Props.C01
import RedactVerif.Props.C03
import RedactVerif.Props.C07
import RedactVerif.Props.C10
import RedactVerif.Props.C13
import RedactVerif.Props.C14
import RedactVerif.Model.Printer
