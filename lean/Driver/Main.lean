import Driver.Proto
import Driver.PParse
import RedactVerif.Model.Format
/-
Line-protocol driver: one case per input line, one answer per output line.
Imports the executable model only (core Lean, no Mathlib), so it links as a
native executable.
-/
open Redact Redact.Proto

def bad : String := "bad-case"

def runOps (kind : String) (p0 : PPB) (toks : List String) : String := Id.run do
  let mut p := p0
  let mut out : Array String := #[]
  for t in toks do
    match parseAnyOp t with
    | none => return bad
    | some (.op o) =>
      let res := opResult p.buf o
      let (b', _) := p.buf.step o
      p := { p with buf := b' }
      out := out.push (stateStr p.buf ++ res)
    | some (.w o) =>
      if kind == "bld" then
        p := { p with buf := p.buf.run (builderOps o) }
      else if kind == "adp" then
        p := adapterStep p o
      else return bad
      out := out.push (stateStr p.buf)
  out := out.push ("out:" ++ toHex p.buf.redactableBytes)
  return " ".intercalate out.toList

def parseOverride (s : String) : Option Override :=
  match s with
  | "n" => some .no
  | "s" => some .ovSafe
  | "u" => some .ovUnsafe
  | _ => none

def optNat (s : String) : Option (Option Nat) :=
  if s == "-" then some none else s.toNat?.map some

def fstateStr (s : FState) : String :=
  let o := fun (x : Option Nat) => match x with | some n => toString n | none => "-"
  s!"{boolStr s.plus}{boolStr s.minus}{boolStr s.sharp}{boolStr s.space}{boolStr s.zero} {o s.wid} {o s.prec} {s.verb}"

def answer (line : String) : String :=
  match (line.splitOn " ").filter (· ≠ "") with
  | ["strip", h] => match fromHex h with | some l => toHex (stripMarkers l) | none => bad
  | ["redact", h] => match fromHex h with | some l => toHex (redact l) | none => bad
  | ["escm", h] => match fromHex h with | some l => toHex (escapeMarkers l) | none => bad
  | ["dropenv", h] => match fromHex h with | some l => toHex (dropEnv l) | none => bad
  | ["wfl", h] => match fromHex h with | some l => boolStr (wfl l) | none => bad
  | ["tailbad", h] => match fromHex h with | some l => boolStr (tailBad l) | none => bad
  | ["escbytes", h] => match fromHex h with | some l => toHex (escapeBytes l) | none => bad
  | ["esc", sl, nl, st, h] =>
    match sl.toNat?, parseBool nl, parseBool st, fromHex h with
    | some sl, some nl, some st, some l =>
      if sl ≤ l.length then toHex (escapeBytesAt l sl nl st) else bad
    | _, _, _, _ => bad
  | ["mf", fl, w, p, v] =>
    match fromHex fl, optNat w, optNat p, v.toNat? with
    | some fl, some w, some p, some v =>
      let st : FState := { plus := fl.contains 0x2B, minus := fl.contains 0x2D, sharp := fl.contains 0x23,
                           space := fl.contains 0x20, zero := fl.contains 0x30, wid := w, prec := p, verb := v }
      let (jv, f) := makeFormat st
      boolStr jv ++ " " ++ toHex f
    | _, _, _, _ => bad
  | ["pd", rule, h] =>
    match parseBool rule, fromHex h with
    | some rule, some f => match parseDirective rule f with
      | some st => fstateStr st
      | none => "none"
    | _, _ => bad
  | "pr" :: toks => answerPrinter toks
  | "buf" :: toks => runOps "buf" {} toks
  | "bld" :: toks => runOps "bld" {} toks
  | "adp" :: ov :: md :: toks =>
    match parseOverride ov, parseMode md with
    | some ov, some md => runOps "adp" { buf := Buffer.init.setMode md, override := ov } toks
    | _, _ => bad
  | _ => bad

partial def loop (hin hout : IO.FS.Stream) : IO Unit := do
  let line ← hin.getLine
  if line.isEmpty then return ()
  let l := (line.dropEndWhile (fun c => c == '\n' || c == '\r')).toString
  if l == "#flush" then hout.flush else hout.putStrLn (answer l)
  loop hin hout

def main : IO Unit := do
  let hin ← IO.getStdin
  let hout ← IO.getStdout
  loop hin hout
  hout.flush
