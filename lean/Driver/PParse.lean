import Driver.Proto
import RedactVerif.Model.Printer
/-
Parser for printer cases (prefix notation, see harness/pmodel.go).
-/
namespace Redact.Proto

abbrev Toks := List String

def pBool (s : String) : Option Bool := parseBool s

def pKind (s : String) : Option BK :=
  match s with
  | "b" => some .bool | "i" => some .sint | "u" => some .uint | "f" => some .float | "s" => some .str | "p" => some .ptr
  | _ => none

def pMethods (s : String) : Option Methods :=
  match s.toList with
  | [a, b, c, d, e, f] =>
    let g := fun (ch : Char) => ch == '1'
    some { safeFormatter := g a, safeMessager := g b, isError := g c, formatter := g d, goStringer := g e, stringer := g f }
  | _ => none

mutual
partial def pVal : Toks → Option (Val × Toks)
  | "N" :: r => some (.nil, r)
  | "L" :: id :: k :: ty :: iv :: sv :: reg :: r => do
    let id ← id.toNat?
    let k ← pKind k
    let ty ← fromHex ty
    let iv : Option Int ← (if iv == "-" then some none else iv.toInt?.map some)
    let sv ← pBool sv
    let reg ← pBool reg
    pure (.leaf id k ty iv sv reg, r)
  | "S" :: r => do let (v, r) ← pVal r; pure (.safeW v, r)
  | "U" :: r => do let (v, r) ← pVal r; pure (.unsafeW v, r)
  | "R" :: c :: ty :: r => do pure (.redactable (← fromHex c) (← fromHex ty), r)
  | "M" :: ms :: ty :: sv :: reg :: nr :: ret :: r => do
    let ms ← pMethods ms
    let ty ← fromHex ty
    let sv ← pBool sv
    let reg ← pBool reg
    let nr ← pBool nr
    let ret ← ret.toNat?
    let (sc, r) ← pScript r
    let (under, r) ← pVal r
    pure (.meth ms ty sv reg nr ret sc under, r)
  | "A" :: ty :: isNil :: iface :: n :: r => do
    let (vs, r) ← pVals (← n.toNat?) r
    pure (.slice (← fromHex ty) (← pBool isNil) (← pBool iface) (Vals.ofList vs), r)
  | "P" :: ty :: isNil :: ik :: iv :: n :: r => do
    let n ← n.toNat?
    let (ks, r) ← pVals n r
    let (vs, r) ← pVals n r
    pure (.map (← fromHex ty) (← pBool isNil) (← pBool ik) (← pBool iv) (Vals.ofList ks) (Vals.ofList vs), r)
  | "T" :: ty :: reg :: n :: r => do
    let (fs, r) ← pFields (← n.toNat?) r
    pure (.struct (← fromHex ty) (← pBool reg) fs, r)
  | "Q" :: ty :: r => do let (v, r) ← pVal r; pure (.ptrTo (← fromHex ty) v, r)
  | _ => none

partial def pVals : Nat → Toks → Option (List Val × Toks)
  | 0, r => some ([], r)
  | n + 1, r => do
    let (v, r) ← pVal r
    let (vs, r) ← pVals n r
    pure (v :: vs, r)

partial def pFields : Nat → Toks → Option (Fields × Toks)
  | 0, r => some (.nil, r)
  | n + 1, name :: ex :: it :: r => do
    let (v, r) ← pVal r
    let (fs, r) ← pFields n r
    pure (.cons (← fromHex name) (← pBool ex) (← pBool it) v fs, r)
  | _, _ => none

partial def pScript : Toks → Option (Script × Toks)
  | "d" :: r => some (.done, r)
  | "ss" :: h :: r => do let (k, r) ← pScript r; pure (.safeString (← fromHex h) k, r)
  | "us" :: h :: r => do let (k, r) ← pScript r; pure (.unsafeString (← fromHex h) k, r)
  | "sr" :: n :: r => do let (k, r) ← pScript r; pure (.safeRune (← n.toInt?) k, r)
  | "wr" :: h :: r => do let (k, r) ← pScript r; pure (.write (← fromHex h) k, r)
  | "pr" :: n :: r => do
    let (vs, r) ← pVals (← n.toNat?) r
    let (k, r) ← pScript r
    pure (.print (Vals.ofList vs) k, r)
  | "pf" :: f :: n :: r => do
    let (vs, r) ← pVals (← n.toNat?) r
    let (k, r) ← pScript r
    pure (.printf (← fromHex f) (Vals.ofList vs) k, r)
  | "ip" :: r => do let (k, r) ← pScript r; pure (.indep k, r)
  | "pa" :: r => do let (v, r) ← pVal r; pure (.panic v, r)
  | _ => none
end

/-- The oracle table: `id dir-hex bytes-hex` triples. -/
def pTable : Toks → Option (List (Nat × List Byte × List Byte))
  | [] => some []
  | id :: d :: b :: r => do
    let rest ← pTable r
    pure ((← id.toNat?, ← fromHex d, ← fromHex b) :: rest)
  | _ => none

def lookupTable (t : List (Nat × List Byte × List Byte)) (id : Nat) (d : List Byte) : Option (List Byte) :=
  match t.find? (fun e => e.1 == id && e.2.1 == d) with
  | some e => some e.2.2
  | none => none

/-- The test hook of the harness: `HOOK[` + unsafe error text + safe verb + `]`. -/
def testHook (ret verb : Nat) : Script :=
  .safeString ([0x48, 0x4F, 0x4F, 0x4B, 0x5B] /- "HOOK[" -/ : List UInt8) (.unsafeLeaf ret (.safeRune (Int.ofNat verb) (.safeString ([0x5D] /- "]" -/ : List UInt8) .done)))

/-- Result of an unclassified run: the raw text accumulated in the buffer. -/
def plainStr (r : Res) : String :=
  match r with
  | .ok p => "ok " ++ toHex p.buf.buf
  | .panic _ _ => "panic"
  | .fuel => "fuel"
  | .unsupported => "unsupported"

def resStr (r : Res) (withErr : Bool) : String :=
  match r with
  | .ok p =>
    "ok " ++ toHex p.buf.redactableBytes ++
      (if withErr then " " ++ (match p.wrappedErr with | some i => toString i | none => "-") else "")
  | .panic _ _ => "panic"
  | .fuel => "fuel"
  | .unsupported => "unsupported"

/-- `pr <route> <hook> <fmt-hex> <n> <vals…> | <table…>` -/
def answerPrinter (toks : Toks) : String :=
  match toks with
  | route :: hook :: f :: n :: rest =>
    match n.toNat?, fromHex f, pBool hook with
    | some n, some f, some hook =>
      match pVals n rest with
      | some (args, "|" :: tab) =>
        match pTable tab with
        | some table =>
          let env : Env := { render := lookupTable table, hook := if hook then some testHook else none }
          match route with
          | "sprint" => resStr (sprint env args) false
          | "sprintf" => resStr (sprintf env f args) false
          | "errorf" => resStr (helperForErrorf env f args) true
          | "plain" => plainStr (plainSprint env args)
          | "plainf" => plainStr (plainSprintf env f args)
          | _ => "bad-case"
        | none => "bad-case"
      | _ => "bad-case"
    | _, _, _ => "bad-case"
  | _ => "bad-case"

end Redact.Proto
