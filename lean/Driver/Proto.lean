import RedactVerif.Model.Writer
/-
Line protocol helpers: hex encoding of byte strings, token parsing.
-/
namespace Redact.Proto

def hexDigit (n : Nat) : Char :=
  if n < 10 then Char.ofNat (48 + n) else Char.ofNat (87 + n)

def toHex (l : List Byte) : String :=
  if l.isEmpty then "-" else
  String.ofList (l.flatMap fun b => [hexDigit (b.toNat / 16), hexDigit (b.toNat % 16)])

def hexVal (c : Char) : Option Nat :=
  if '0' ≤ c ∧ c ≤ '9' then some (c.toNat - 48)
  else if 'a' ≤ c ∧ c ≤ 'f' then some (c.toNat - 87)
  else if 'A' ≤ c ∧ c ≤ 'F' then some (c.toNat - 55)
  else none

def fromHexChars : List Char → Option (List Byte)
  | [] => some []
  | a :: b :: r => do
    let x ← hexVal a
    let y ← hexVal b
    let rest ← fromHexChars r
    pure (UInt8.ofNat (x * 16 + y) :: rest)
  | _ => none

def fromHex (s : String) : Option (List Byte) :=
  if s == "-" then some [] else fromHexChars s.toList

def parseMode (s : String) : Option Mode :=
  match s with
  | "0" => some .unsafeEsc
  | "1" => some .safeEsc
  | "2" => some .raw
  | _ => none

def modeStr : Mode → String
  | .unsafeEsc => "0"
  | .safeEsc => "1"
  | .raw => "2"

def parseBool (s : String) : Option Bool :=
  match s with
  | "0" => some false
  | "1" => some true
  | _ => none

def boolStr (b : Bool) : String := if b then "1" else "0"

/-- Either a buffer-level op or a SafeWriter-level call. -/
inductive AnyOp where
  | op (o : Op)
  | w (o : WOp)

def splitTag (s : String) : String × String :=
  match s.splitOn ":" with
  | [a] => (a, "")
  | a :: b :: _ => (a, b)
  | [] => ("", "")

def parseAnyOp (s : String) : Option AnyOp :=
  let (tag, arg) := splitTag s
  match tag with
  | "m" => (parseMode arg).map fun m => .op (.setMode m)
  | "w" => (fromHex arg).map fun p => .op (.write p)
  | "b" => (fromHex arg).bind fun p => match p with | [x] => some (.op (.writeByte x)) | _ => none
  | "r" => arg.toInt?.map fun r => .op (.writeRune r)
  | "reset" => some (.op .reset)
  | "take" => some (.op .take)
  | "g" => arg.toNat?.map fun n => .op (.grow n)
  | "len" => some (.op .accLen)
  | "str" => some (.op .accString)
  | "rs" => some (.op .accRedactable)
  | "mode" => some (.op .accMode)
  | "ss" => (fromHex arg).map fun p => .w (.safeString p)
  | "sb" => (fromHex arg).bind fun p => match p with | [x] => some (.w (.safeByte x)) | _ => none
  | "sr" => arg.toInt?.map fun r => .w (.safeRune r)
  | "sn" => (fromHex arg).map fun p => .w (.safeNum p)
  | "us" => (fromHex arg).map fun p => .w (.unsafeString p)
  | "ub" => (fromHex arg).bind fun p => match p with | [x] => some (.w (.unsafeByte x)) | _ => none
  | "ur" => arg.toInt?.map fun r => .w (.unsafeRune r)
  | "pr" => (fromHex arg).map fun p => .w (.print p)
  | _ => none

def stateStr (b : Buffer) : String :=
  s!"S{b.validUntil}/{boolStr b.markerOpen}/{modeStr b.mode}/{b.buf.length}"

/-- Result text of an accessor-like op, evaluated on the state *before* it. -/
def opResult (b : Buffer) : Op → String
  | .take => "=" ++ toHex b.take.1
  | .accLen => s!"={b.len}"
  | .accString => "=" ++ toHex b.string
  | .accRedactable => "=" ++ toHex b.redactableBytes
  | .accMode => "=" ++ modeStr b.mode
  | _ => ""

end Redact.Proto
