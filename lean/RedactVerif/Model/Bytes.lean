/-
L0: bytes, marker constants, tokens.

Mirrors `internal/markers/constants.go`: Start = '‹' (E2 80 B9), End = '›'
(E2 80 BA), EscapeMark = '?', RedactedS = "‹×›" (× = C3 97).
The constants are re-checked against the values the *current* code computes
in `Generated/Consts.lean` (see `Props/Facts.lean`).
-/
namespace Redact

abbrev Byte := UInt8

def startB : List Byte := [0xE2, 0x80, 0xB9]
def endB : List Byte := [0xE2, 0x80, 0xBA]
def escB : List Byte := [0x3F]
def crossB : List Byte := [0xC3, 0x97]
def redactedB : List Byte := startB ++ crossB ++ endB
def LF : Byte := 0x0A

/-- Tokens: start marker, end marker, any other byte. -/
inductive Tok where
  | s
  | e
  | b (x : Byte)
deriving DecidableEq, Repr, Inhabited

/-- Greedy left-to-right tokenisation with 3 bytes of look-ahead. -/
def tokenize : List Byte → List Tok
  | 0xE2 :: 0x80 :: 0xB9 :: r => .s :: tokenize r
  | 0xE2 :: 0x80 :: 0xBA :: r => .e :: tokenize r
  | x :: r => .b x :: tokenize r
  | [] => []

def Tok.bytes : Tok → List Byte
  | .s => startB
  | .e => endB
  | .b x => [x]

def untok : List Tok → List Byte
  | [] => []
  | t :: r => t.bytes ++ untok r

def Tok.isMarker : Tok → Bool
  | .s => true
  | .e => true
  | .b _ => false

/-- `l` ends in a proper, non-empty prefix of a marker. -/
def Dangling (l : List Byte) : Prop := [0xE2] <:+ l ∨ [0xE2, 0x80] <:+ l

instance (l : List Byte) : Decidable (Dangling l) := by unfold Dangling; infer_instance

/-- Boolean form of `Dangling`, by inspection of the last two bytes. -/
def dangB (l : List Byte) : Bool :=
  match l.reverse with
  | 0xE2 :: _ => true
  | 0x80 :: 0xE2 :: _ => true
  | _ => false

/-- Does `l` start with a byte that could complete a dangling marker prefix? -/
def startsCont : List Byte → Bool
  | 0x80 :: _ => true
  | 0xB9 :: _ => true
  | 0xBA :: _ => true
  | _ => false

end Redact
