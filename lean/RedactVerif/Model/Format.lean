import RedactVerif.Model.Utf8
/-
L2 (part): formatting directives.

* `FState`: what a `fmt.State` reports (`Flag`, `Width`, `Precision`) plus the verb.
* `makeFormat`: `internal/fmtforward/make_format.go`.
* `parsenum`, flag loop, `parseDirective`: the directive parser of `doPrintf`
  (`internal/rfmt/print.go`), restricted to the syntax `MakeFormat` can emit
  (flags, width digits, `.` precision digits, verb — no `*`, no `[n]`),
  in two variants: the fork's rule for the `0` flag (`zero = !minus`, `-`
  clears `zero`) and Go ≥ 1.22's (`zero = true`).
-/
namespace Redact

structure FState where
  plus : Bool := false
  minus : Bool := false
  sharp : Bool := false
  space : Bool := false
  zero : Bool := false
  wid : Option Nat := none
  prec : Option Nat := none
  verb : Nat := 118        -- rune
deriving DecidableEq, Repr, Inhabited

/-- Decimal digits of `n`, most significant first (`strconv.Itoa` for `n ≥ 0`). -/
def digitsAux : Nat → Nat → List Byte → List Byte
  | 0, _, acc => acc
  | fuel + 1, n, acc =>
    let acc' := UInt8.ofNat (48 + n % 10) :: acc
    if n < 10 then acc' else digitsAux fuel (n / 10) acc'

def itoa (n : Nat) : List Byte := digitsAux (n + 1) n []

/-- `strings.Builder.WriteRune`. -/
def runeBytes (r : Nat) : List Byte := encodeRune (Int.ofNat r)

def noFlags (s : FState) : Bool :=
  !s.plus && !s.minus && !s.sharp && !s.space && !s.zero && s.wid.isNone && s.prec.isNone

/-- `MakeFormat(s, verb)`: `(justV, format)`. -/
def makeFormat (s : FState) : Bool × List Byte :=
  if noFlags s && s.verb = 118 then (true, [0x25, 118])
  else if noFlags s && s.verb = 115 then (false, [0x25, 115])
  else if noFlags s && s.verb = 100 then (false, [0x25, 100])
  else
    (false,
      [0x25]
      ++ (if s.plus then [0x2B] else [])
      ++ (if s.minus then [0x2D] else [])
      ++ (if s.sharp then [0x23] else [])
      ++ (if s.space then [0x20] else [])
      ++ (if s.zero then [0x30] else [])
      ++ (match s.wid with | some w => itoa w | none => [])
      ++ (match s.prec with | some p => 0x2E :: itoa p | none => [])
      ++ runeBytes s.verb)

def tooLarge (x : Nat) : Bool := x > 1000000

def isDigit (c : Byte) : Bool := 0x30 ≤ c && c ≤ 0x39

/-- `parsenum`: `(num, isnum, rest)`; on overflow Go returns `(0,false,end)`,
i.e. the whole remaining format is consumed. -/
def parsenumAux : Nat → Bool → List Byte → Nat × Bool × List Byte
  | num, isnum, [] => (num, isnum, [])
  | num, isnum, c :: r =>
    if isDigit c then
      if tooLarge num then (0, false, [])
      else parsenumAux (num * 10 + (c.toNat - 48)) true r
    else (num, isnum, c :: r)

def parsenum (s : List Byte) : Nat × Bool × List Byte := parsenumAux 0 false s

/-- The flag loop of `doPrintf` (`forkRule = true`: redact's fork / Go ≤ 1.21). -/
def parseFlags (forkRule : Bool) : FState → List Byte → FState × List Byte
  | st, [] => (st, [])
  | st, c :: r =>
    if c = 0x23 then parseFlags forkRule { st with sharp := true } r
    else if c = 0x30 then parseFlags forkRule { st with zero := if forkRule then !st.minus else true } r
    else if c = 0x2B then parseFlags forkRule { st with plus := true } r
    else if c = 0x2D then parseFlags forkRule { st with minus := true, zero := if forkRule then false else st.zero } r
    else if c = 0x20 then parseFlags forkRule { st with space := true } r
    else (st, c :: r)

/-- Decode the verb at the head of the remaining format: ASCII fast path or
`utf8.DecodeRuneInString`. Only what `MakeFormat` can emit is needed: a valid
encoding. Returns the rune and the rest. -/
def decodeVerb : List Byte → Option (Nat × List Byte)
  | [] => none
  | c :: r =>
    if c < 0x80 then some (c.toNat, r)
    else match decodeRune (c :: r) with
      | (false, 2) => match r with
        | b1 :: r' => some (((c.toNat &&& 0x1F) <<< 6) ||| (b1.toNat &&& 0x3F), r')
        | _ => none
      | (false, 3) => match r with
        | b1 :: b2 :: r' => some (((c.toNat &&& 0x0F) <<< 12) ||| ((b1.toNat &&& 0x3F) <<< 6) ||| (b2.toNat &&& 0x3F), r')
        | _ => none
      | (false, 4) => match r with
        | b1 :: b2 :: b3 :: r' =>
          some (((c.toNat &&& 0x07) <<< 18) ||| ((b1.toNat &&& 0x3F) <<< 12) ||| ((b2.toNat &&& 0x3F) <<< 6) ||| (b3.toNat &&& 0x3F), r')
        | _ => none
      | _ => some (0xFFFD, r)

/-- The precision part of a directive: `.` followed by digits (possibly none:
`%.v` means precision 0); Go requires at least one more byte after the dot
(`if i+1 < end && format[i] == '.'`). -/
def parsePrec (st : FState) : List Byte → FState × List Byte
  | 0x2E :: c :: r' =>
    let (p, _, r'') := parsenum (c :: r')
    ({ st with prec := some p }, r'')
  | r => (st, r)

/-- One directive `%…verb` occupying the whole string (what `MakeFormat`
produces); the state seen by the formatter of the operand. -/
def parseDirective (forkRule : Bool) (f : List Byte) : Option FState :=
  match f with
  | 0x25 :: r =>
    let (st, r) := parseFlags forkRule {} r
    let (w, wp, r) := parsenum r
    let st := { st with wid := if wp then some w else none }
    let (st, r) := parsePrec st r
    match decodeVerb r with
    | some (v, []) => some { st with verb := v }
    | _ => none
  | _ => none

end Redact
