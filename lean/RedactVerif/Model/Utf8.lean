import RedactVerif.Model.Bytes
/-
L0: the parts of Go's `unicode/utf8` the library depends on, transcribed:
`DecodeRune` (only validity and size are needed), `DecodeLastRune`,
`RuneLen`/`EncodeRune`. Transcription, not verified against the Go standard
library other than by the correspondence check.
-/
namespace Redact

/-- Class of a leading byte: the `first` table of utf8.go.
`none` = invalid (xx); `some (0, _, _)` is not used; ASCII is handled apart.
Result: `(size, lo, hi)` with `lo..hi` the accepted range of the second byte. -/
def leadInfo (p0 : Byte) : Option (Nat × Byte × Byte) :=
  if p0 < 0xC2 then none
  else if p0 ≤ 0xDF then some (2, 0x80, 0xBF)
  else if p0 = 0xE0 then some (3, 0xA0, 0xBF)
  else if p0 ≤ 0xEC then some (3, 0x80, 0xBF)
  else if p0 = 0xED then some (3, 0x80, 0x9F)
  else if p0 ≤ 0xEF then some (3, 0x80, 0xBF)
  else if p0 = 0xF0 then some (4, 0x90, 0xBF)
  else if p0 ≤ 0xF3 then some (4, 0x80, 0xBF)
  else if p0 = 0xF4 then some (4, 0x80, 0x8F)
  else none

def isCont (x : Byte) : Bool := 0x80 ≤ x && x ≤ 0xBF

/-- `utf8.DecodeRune p`, reduced to `(isRuneError1, size)`:
`(true, 1)` stands for `(RuneError, 1)`, `(true, 0)` for the empty input,
`(false, n)` for a successfully decoded rune of `n` bytes. -/
def decodeRune (p : List Byte) : Bool × Nat :=
  match p with
  | [] => (true, 0)
  | p0 :: rest =>
    if p0 < 0x80 then (false, 1)
    else match leadInfo p0 with
      | none => (true, 1)
      | some (sz, lo, hi) =>
        if p.length < sz then (true, 1)
        else match rest with
          | [] => (true, 1)
          | b1 :: rest2 =>
            if b1 < lo || hi < b1 then (true, 1)
            else if sz ≤ 2 then (false, 2)
            else match rest2 with
              | [] => (true, 1)
              | b2 :: rest3 =>
                if !isCont b2 then (true, 1)
                else if sz ≤ 3 then (false, 3)
                else match rest3 with
                  | [] => (true, 1)
                  | b3 :: _ =>
                    if !isCont b3 then (true, 1) else (false, 4)

def runeStart (x : Byte) : Bool := (x &&& 0xC0) != 0x80

/-- The backwards search of `DecodeLastRune`: `rev` is the reversed input
*without* its last byte; we look at up to `fuel` bytes for a rune start and
return how many bytes before the last one the decode window begins.
Go: `for start--; start >= lim; start-- { if RuneStart(p[start]) break }`. -/
def backScan : Nat → List Byte → Nat → Nat
  | 0, _, k => k + 1            -- ran past `lim`: start = lim - 1
  | _, [], k => k               -- ran past index 0: start = -1, clamped to 0
  | fuel + 1, x :: r, k => if runeStart x then k + 1 else backScan fuel r (k + 1)

/-- `r, s := utf8.DecodeLastRune(l); s == 1 && r == utf8.RuneError`. -/
def tailBad (l : List Byte) : Bool :=
  match l.reverse with
  | [] => false
  | last :: rev =>
    if last < 0x80 then false
    else
      -- lim = max(0, end-4): at most 3 bytes before the last one are examined
      let back := backScan 3 rev 0          -- number of bytes before `last` in the window
      let back := if back > rev.length then rev.length else back
      let window := (rev.take back).reverse ++ [last]
      let (_, size) := decodeRune window
      -- `if start+size != end { return RuneError, 1 }`
      if size != window.length then true
      else
        -- full-window decode: RuneError with size 1 only if window is one invalid byte
        let (err, sz) := decodeRune window
        err && sz == 1

/-- `utf8.RuneLen`, −1 as `none`. -/
def runeLen (r : Int) : Option Nat :=
  if r < 0 then none
  else if r ≤ 0x7F then some 1
  else if r ≤ 0x7FF then some 2
  else if 0xD800 ≤ r && r ≤ 0xDFFF then none
  else if r ≤ 0xFFFF then some 3
  else if r ≤ 0x10FFFF then some 4
  else none

def runeErrorB : List Byte := [0xEF, 0xBF, 0xBD]

/-- `utf8.EncodeRune` (invalid runes encode `RuneError`). -/
def encodeRune (r : Int) : List Byte :=
  match runeLen r with
  | none => runeErrorB
  | some 1 => [UInt8.ofNat r.toNat]
  | some 2 =>
    let n := r.toNat
    [UInt8.ofNat (0xC0 ||| (n >>> 6)), UInt8.ofNat (0x80 ||| (n &&& 0x3F))]
  | some 3 =>
    let n := r.toNat
    [UInt8.ofNat (0xE0 ||| (n >>> 12)), UInt8.ofNat (0x80 ||| ((n >>> 6) &&& 0x3F)),
     UInt8.ofNat (0x80 ||| (n &&& 0x3F))]
  | some _ =>
    let n := r.toNat
    [UInt8.ofNat (0xF0 ||| (n >>> 18)), UInt8.ofNat (0x80 ||| ((n >>> 12) &&& 0x3F)),
     UInt8.ofNat (0x80 ||| ((n >>> 6) &&& 0x3F)), UInt8.ofNat (0x80 ||| (n &&& 0x3F))]

end Redact
