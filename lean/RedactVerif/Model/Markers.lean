import RedactVerif.Model.Bytes
/-
L0: `internal/markers/markers.go` — Redact, StripMarkers, EscapeMarkers.

The Go code uses two regular expressions,
  ReStripSensitive = ‹[^‹›]*›      (ReplaceAll with ‹×›)
  ReStripMarkers   = [‹›]          (ReplaceAll with "" or "?")
Here they are token-level functions (leftmost, non-overlapping matches, which
is Go's ReplaceAll semantics). That Go's rune-based regexp engine sees the
same marker occurrences as `tokenize` is validated by the correspondence
check, not proved (trusted base).
-/
namespace Redact

/-- StripMarkers: delete every marker token. -/
def stripT : List Tok → List Tok
  | [] => []
  | .s :: r => stripT r
  | .e :: r => stripT r
  | .b x :: r => .b x :: stripT r

/-- EscapeMarkers: every marker token becomes `?`. -/
def escT : List Tok → List Tok
  | [] => []
  | .s :: r => .b 0x3F :: escT r
  | .e :: r => .b 0x3F :: escT r
  | .b x :: r => .b x :: escT r

def crossT : List Tok := [.b 0xC3, .b 0x97]

/--
Redact, as a one-pass transducer. `pend = some acc` means: an `s` was seen and
`acc` holds (reversed) the non-marker tokens since; they are emitted unchanged
if the candidate match fails (another `s`, or end of input) and replaced by
`×` if an `e` arrives.
-/
def redactAux : Option (List Tok) → List Tok → List Tok
  | none, [] => []
  | some acc, [] => .s :: acc.reverse
  | none, .s :: r => redactAux (some []) r
  | none, t :: r => t :: redactAux none r
  | some acc, .b x :: r => redactAux (some (.b x :: acc)) r
  | some _, .e :: r => .s :: (crossT ++ .e :: redactAux none r)
  | some acc, .s :: r => .s :: (acc.reverse ++ redactAux (some []) r)

def redactT (t : List Tok) : List Tok := redactAux none t

/-- Delete every complete envelope with its content (what remains is the safe text). -/
def dropEnvAux : Option (List Tok) → List Tok → List Tok
  | none, [] => []
  | some acc, [] => .s :: acc.reverse
  | none, .s :: r => dropEnvAux (some []) r
  | none, t :: r => t :: dropEnvAux none r
  | some acc, .b x :: r => dropEnvAux (some (.b x :: acc)) r
  | some _, .e :: r => dropEnvAux none r
  | some acc, .s :: r => .s :: (acc.reverse ++ dropEnvAux (some []) r)

def dropEnvT (t : List Tok) : List Tok := dropEnvAux none t

/-- Well-formedness scanner: `none` = ill-formed, `some open` = a well-formed
prefix whose last envelope is open iff `open`. Line feeds are forbidden inside
envelopes (line safety is folded in). -/
def scanFrom : Bool → List Tok → Option Bool
  | o, [] => some o
  | false, .s :: r => scanFrom true r
  | true, .s :: _ => none
  | true, .e :: r => scanFrom false r
  | false, .e :: _ => none
  | true, .b x :: r => if x = LF then none else scanFrom true r
  | false, .b _ :: r => scanFrom false r

def scan (t : List Tok) : Option Bool := scanFrom false t

/-- Same without the line-feed restriction (plain strict alternation). -/
def scanWFFrom : Bool → List Tok → Option Bool
  | o, [] => some o
  | false, .s :: r => scanWFFrom true r
  | true, .s :: _ => none
  | true, .e :: r => scanWFFrom false r
  | false, .e :: _ => none
  | o, .b _ :: r => scanWFFrom o r

/-- Well-formed and line-safe redactable (closed at the end). -/
def WFL (t : List Tok) : Prop := scan t = some false
/-- Well-formed redactable (closed at the end), line feeds unrestricted. -/
def WF (t : List Tok) : Prop := scanWFFrom false t = some false

instance (t : List Tok) : Decidable (WFL t) := by unfold WFL; infer_instance
instance (t : List Tok) : Decidable (WF t) := by unfold WF; infer_instance

/-- The token list ends with `b E2` or `b E2, b 80` (a proper marker prefix). -/
def dangT (t : List Tok) : Bool :=
  match t.reverse with
  | .b 0xE2 :: _ => true
  | .b 0x80 :: .b 0xE2 :: _ => true
  | _ => false

/-- `t` without its trailing marker tokens. -/
def coreT (t : List Tok) : List Tok := (t.reverse.dropWhile Tok.isMarker).reverse

/-- After removing any trailing marker tokens, what remains does not end in a
proper marker prefix: appending bytes, or eliding a trailing delimiter, can
never assemble a marker across the boundary. -/
def goodT (t : List Tok) : Bool := !dangT (coreT t)

/-- What the library hands out as a redactable (and accepts back in raw mode):
well-formed, line-safe, closed, with a solid end. Every output of the model
is `Obtainable` (`Props/C01`). -/
def Obtainable (p : List Byte) : Prop :=
  goodT (tokenize p) = true ∧ scan (tokenize p) = some false

instance (p : List Byte) : Decidable (Obtainable p) := by unfold Obtainable; infer_instance

/-! Byte-level functions: conjugation with `tokenize`/`untok`. -/

def stripMarkers (l : List Byte) : List Byte := untok (stripT (tokenize l))
def escapeMarkers (l : List Byte) : List Byte := untok (escT (tokenize l))
def redact (l : List Byte) : List Byte := untok (redactT (tokenize l))
def dropEnv (l : List Byte) : List Byte := untok (dropEnvT (tokenize l))
def wfl (l : List Byte) : Bool := decide (WFL (tokenize l))

end Redact
