import RedactVerif.Model.Buffer
import RedactVerif.Model.Format
/-
What the Go -> Lean translator (/verif/extract/translate.go) emits code against: Go's `int` is
`Int`, `byte` is `UInt8`, `string`/`[]byte` are `List UInt8`; the standard-library functions the
translated code calls are given here by their models (trusted: that `strconv.Itoa`,
`utf8.EncodeRune`, `bytes.HasSuffix`, `fmt.State` behave as modelled).
-/
namespace Redact

/-- What a `fmt.State` reports. -/
structure GoFmtState where
  Flag : Int → Bool
  Width : Int × Bool
  Precision : Int × Bool

/-- `strconv.Itoa`. -/
def goItoa (n : Int) : List UInt8 := if n < 0 then 0x2D :: itoa n.natAbs else itoa n.toNat

/-- `strings.Builder.WriteRune` / `utf8.EncodeRune`. -/
def goEncodeRune (r : Int) : List UInt8 := encodeRune r

def goLen (l : List UInt8) : Int := l.length

def goHasSuffix (l suf : List UInt8) : Bool := hasSuffix l suf

end Redact
