import RedactVerif.Model.Buffer
import RedactVerif.Model.Format
/-
What the Go -> Lean translator (/verif/extract/translate.go) emits code against: Go's `int` is
`Int`, `byte` is `UInt8`, `string`/`[]byte` are `List UInt8`; the standard-library functions the
translated code calls are given here by their models (trusted: that `strconv.Itoa`,
`utf8.EncodeRune`, `bytes.HasSuffix`, `fmt.State` behave as modelled).
-/
namespace Redact

/-- What a `fmt.State` reports. -/
structure GoFmtState where
  Flag : Int → Bool
  Width : Int × Bool
  Precision : Int × Bool

/-- `strconv.Itoa`. -/
def goItoa (n : Int) : List UInt8 := if n < 0 then 0x2D :: itoa n.natAbs else itoa n.toNat

/-- `strings.Builder.WriteRune` / `utf8.EncodeRune`. -/
def goEncodeRune (r : Int) : List UInt8 := encodeRune r

def goLen (l : List UInt8) : Int := l.length

def goHasSuffix (l suf : List UInt8) : Bool := hasSuffix l suf

end Redact

namespace Redact

/-- `buffer.Buffer` as the translated code sees it: the bytes of `b.buf` (capacity is not
translated: the `tryGrowByReslice`/`grow` idiom becomes `goExtend`), and the three scalar fields
with Go's types. -/
structure GoBuffer where
  buf : List UInt8 := []
  validUntil : Int := 0
  mode : Int := 0
  markerOpen : Bool := false
deriving DecidableEq, Repr, Inhabited

/-- The printer as the translated brackets of helpers.go see it: its buffer and its override (`noOverride`,
`overrideSafe`, `overrideUnsafe` by their iota values). -/
structure GoPP where
  buf : GoBuffer := {}
  override : Int := 0
deriving DecidableEq, Repr, Inhabited

/-- `restorer` without its pointer to the printer (the printer is threaded through). -/
structure GoRestorer where
  prevMode : Int
  prevOverride : Int
deriving DecidableEq, Repr, Inhabited

/-- What an out-of-range slice expression evaluates to here (Go panics): a value no model
function produces, so that an equality with the model has to show the bounds are respected. -/
def goPanicBytes : List UInt8 := [0xDE, 0xAD, 0xBE, 0xEF, 0xDE, 0xAD]

/-- `m, ok := b.tryGrowByReslice(n); if !ok { m = b.grow(n) }`: the slice is extended by `n` bytes
whose content is unspecified (zero here; they are overwritten by the `copy` that follows). -/
def goExtend (l : List UInt8) (n : Int) : List UInt8 := l ++ List.replicate n.toNat 0

/-- `copy(l[m:], src)`. -/
def goCopyAt (l : List UInt8) (m : Int) (src : List UInt8) : List UInt8 :=
  if 0 ≤ m ∧ m.toNat ≤ l.length then
    let k := min (l.length - m.toNat) src.length
    l.take m.toNat ++ src.take k ++ l.drop (m.toNat + k)
  else goPanicBytes

def goCopyN (l : List UInt8) (m : Int) (src : List UInt8) : Int :=
  (min (l.length - m.toNat) src.length : Nat)

/-- `l[m] = x`. -/
def goSetAt (l : List UInt8) (m : Int) (x : UInt8) : List UInt8 :=
  if 0 ≤ m ∧ m.toNat < l.length then l.set m.toNat x else goPanicBytes

/-- `l[:k]` (within the length: extending into the capacity is `goExtend`). -/
def goSliceTo (l : List UInt8) (k : Int) : List UInt8 :=
  if 0 ≤ k ∧ k.toNat ≤ l.length then l.take k.toNat else goPanicBytes

def goSliceFrom (l : List UInt8) (k : Int) : List UInt8 :=
  if 0 ≤ k ∧ k.toNat ≤ l.length then l.drop k.toNat else goPanicBytes

def goSlice (l : List UInt8) (a b : Int) : List UInt8 :=
  if 0 ≤ a ∧ a ≤ b ∧ b.toNat ≤ l.length then (l.take b.toNat).drop a.toNat else goPanicBytes

def goIndex (l : List UInt8) (i : Int) : UInt8 := l.getD i.toNat 0

/-- `utf8.RuneLen`. -/
def goRuneLen (r : Int) : Int :=
  if r < 0 then -1 else if r < 0x80 then 1 else if r < 0x800 then 2
  else if 0xD800 ≤ r ∧ r ≤ 0xDFFF then -1 else if r < 0x10000 then 3 else if r ≤ 0x10FFFF then 4 else -1

/-- `escape.InternalEscapeBytes` (modelled in Model/Escape.lean; proved against its token-level
specification in Proofs/Escape.lean; tied to the code by the exhaustive E streams). -/
def goInternalEscapeBytes (l : List UInt8) (startLoc : Int) (nl strip : Bool) : List UInt8 :=
  escapeBytesAt l startLoc.toNat nl strip

def goStripMarkers (l : List UInt8) : List UInt8 := stripMarkers l

/-- `regexp.MustCompile("[‹›]").ReplaceAll(l, r)` / `ReplaceAllString`: every marker occurrence replaced by `r`
(leftmost, non-overlapping; `r` without `$`). The regexp's source text is a regenerated fact (Props/FactsConsts.lean);
that Go's engine finds the occurrences `tokenize` finds is the M stream's business. -/
def replMarkersT (r : List UInt8) : List Tok → List UInt8
  | [] => []
  | .s :: t => r ++ replMarkersT r t
  | .e :: t => r ++ replMarkersT r t
  | .b x :: t => x :: replMarkersT r t

def goReplaceMarkers (l r : List UInt8) : List UInt8 := replMarkersT r (tokenize l)

/-- `regexp.MustCompile("‹[^‹›]*›").ReplaceAll(l, r)`: every complete envelope (a start marker, then no marker, then
an end marker; leftmost) replaced by `r`; an unmatched start marker and what follows it stay. -/
def replEnvAux (r : List UInt8) : Option (List Tok) → List Tok → List UInt8
  | none, [] => []
  | some acc, [] => untok (.s :: acc.reverse)
  | none, .s :: t => replEnvAux r (some []) t
  | none, .e :: t => untok [.e] ++ replEnvAux r none t
  | none, .b x :: t => x :: replEnvAux r none t
  | some acc, .b x :: t => replEnvAux r (some (.b x :: acc)) t
  | some _, .e :: t => r ++ replEnvAux r none t
  | some acc, .s :: t => untok (.s :: acc.reverse) ++ replEnvAux r (some []) t

def goReplaceEnvelopes (l r : List UInt8) : List UInt8 := replEnvAux r none (tokenize l)

end Redact

namespace Redact

/-- Assertion that the next statement's expressions are defined (no Go panic). -/
def goGuard (c : Bool) : Option Unit := if c then some () else none

/-- `l[i]` is defined. -/
def goInRange (l : List UInt8) (i : Int) : Bool := decide (0 ≤ i) && decide (i.toNat < l.length)

/-- `l[lo:hi]` is defined (within the length). -/
def goSliceOK (l : List UInt8) (lo hi : Int) : Bool := decide (0 ≤ lo) && decide (lo ≤ hi) && decide (hi.toNat ≤ l.length)

/-- `utf8.DecodeLastRune`, modelled as far as the scanner's test `s == 1 && r == utf8.RuneError`
needs: `(RuneError, 0)` for the empty input, `(RuneError, 1)` exactly when the transcription
`tailBad` (Model/Utf8.lean, validated against Go on all short byte strings: stream T) says so. -/
def goDecodeLastRune (l : List UInt8) : Int × Int :=
  if l.isEmpty then (0xFFFD, 0) else if tailBad l then (0xFFFD, 1) else (0x61, 1)

end Redact
