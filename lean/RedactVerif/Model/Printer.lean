import RedactVerif.Model.Writer
import RedactVerif.Model.Format
/-
L2: the printer — `internal/rfmt/print.go` (doPrintf / doPrint / printArg /
printValue / handleMethods / badVerb / catchPanic and the leaf formatters'
verb tables and classification), `helpers.go` (restorers,
handleSpecialValues), `printer_adapter.go` (SafePrinter methods, nested
printers), over a value universe `Val` whose user methods are finite scripts.

What `strconv`/`fmt` render for a basic value under a directive is an oracle
(`Env.render`): every theorem about this model holds for all oracles; in the
correspondence it is instantiated with Go's own `fmt`.

All functions take fuel (structural recursion over formats, values, scripts
and nested printers at once is avoided); running out of fuel is a separate
result that no theorem confuses with success.
-/
namespace Redact

/-- Basic kinds printed without reflection (or by `printValue`'s kind switch). -/
inductive BK where
  | bool | sint | uint | float | str | ptr
deriving DecidableEq, Repr, Inhabited

/-- Which formatting interfaces a value's dynamic type implements. -/
structure Methods where
  safeFormatter : Bool := false
  safeMessager : Bool := false
  isError : Bool := false
  formatter : Bool := false
  goStringer : Bool := false
  stringer : Bool := false
deriving DecidableEq, Repr, Inhabited

mutual
/-- The value universe. Type names are what `reflect.Type.String()` returns. -/
inductive Val where
  | nil
  /-- basic-kind value `id` (oracle key); `ival` is its value when it can serve as `*` operand;
      `safeV`: its type has a `SafeValue()` method; `reg`: its type is a registered safe type -/
  | leaf (id : Nat) (k : BK) (ty : List Byte) (ival : Option Int) (safeV reg : Bool)
  | safeW (v : Val)
  | unsafeW (v : Val)
  /-- RedactableString / RedactableBytes -/
  | redactable (content : List Byte) (ty : List Byte)
  /-- a value with formatting methods. `ret`: leaf id of the string its
      String/Error/GoString/SafeMessage returns; `sc`: what Format/SafeFormat does;
      `nilRecv`: nil pointer whose methods dereference it; `under`: its reflection view -/
  | meth (ms : Methods) (ty : List Byte) (safeV reg nilRecv : Bool) (ret : Nat) (sc : Script) (under : Val)
  /-- slice or array; `iface`: the element type is an interface type -/
  | slice (ty : List Byte) (isNil iface : Bool) (elems : Vals)
  /-- map with keys in fmtsort order; `ifaceK`/`ifaceV`: key / value type is an interface type -/
  | map (ty : List Byte) (isNil ifaceK ifaceV : Bool) (keys vals : Vals)
  | struct (ty : List Byte) (reg : Bool) (fields : Fields)
  /-- non-nil pointer to a struct, slice, array or map (printed as `&…` at depth 0) -/
  | ptrTo (ty : List Byte) (to : Val)
inductive Vals where
  | nil
  | cons (v : Val) (r : Vals)
inductive Fields where
  | nil
  | cons (name : List Byte) (exported ifaceTyped : Bool) (v : Val) (r : Fields)
/-- What a user method does with the SafePrinter / fmt.State it is handed. -/
inductive Script where
  | done
  | safeString (p : List Byte) (k : Script)
  | unsafeString (p : List Byte) (k : Script)
  | safeRune (r : Int) (k : Script)
  | write (p : List Byte) (k : Script)           -- fmt.State.Write / io.WriteString
  | unsafeLeaf (id : Nat) (k : Script)           -- UnsafeString of the text of leaf `id` (error hooks)
  | print (args : Vals) (k : Script)             -- SafePrinter.Print
  | printf (f : List Byte) (args : Vals) (k : Script)
  | indep (k : Script)                           -- an unrelated print call made by the method (its own printer from the pool)
  | panic (payload : Val)
end

instance : Inhabited Val := ⟨.nil⟩
instance : Inhabited Vals := ⟨.nil⟩
instance : Inhabited Script := ⟨.done⟩

def Vals.toList : Vals → List Val
  | .nil => []
  | .cons v r => v :: r.toList

def Vals.ofList : List Val → Vals
  | [] => .nil
  | v :: r => .cons v (Vals.ofList r)

/-- `p.fmt`: flags, width, precision. -/
structure FmtS where
  wid : Nat := 0
  widPresent : Bool := false
  prec : Nat := 0
  precPresent : Bool := false
  minus : Bool := false
  plus : Bool := false
  sharp : Bool := false
  space : Bool := false
  zero : Bool := false
  plusV : Bool := false
  sharpV : Bool := false
deriving DecidableEq, Repr, Inhabited

/-- `clearflags` (after the D7 fix: width and precision are forgotten too). -/
def FmtS.clear (_ : FmtS) : FmtS := {}

/-- `p.fmt.fmtFlags = oldFlags`: the flag struct (incl. widPresent/precPresent) is restored, `wid`/`prec` are not. -/
def FmtS.restoreFlags (cur old : FmtS) : FmtS := { old with wid := cur.wid, prec := cur.prec }

/-- The printer state `pp` (the fields that influence output). -/
structure PP where
  buf : Buffer := {}
  override : Override := .no
  f : FmtS := {}
  erroring : Bool := false
  panicking : Bool := false
  wrapErrs : Bool := false
  wrappedErr : Option Nat := none
  reordered : Bool := false
  goodArgNum : Bool := false
deriving Repr, Inhabited

/-- The error hook's rendering, as a script over the error's text and the verb. -/
structure Env where
  /-- `fmt.Sprintf(directive, leaf)`; `none` = not supplied (the case is then unsupported) -/
  render : Nat → List Byte → Option (List Byte)
  /-- `RegisterRedactErrorFn`: given the leaf id of the error text and the verb -/
  hook : Option (Nat → Nat → Script)

inductive Res where
  | ok (p : PP)
  /-- a panic propagates out of the call: `b` is the buffer as the deferred restorers have left
      it so far, `payload` the value being raised (what an enclosing `catchPanic` will print) -/
  | panic (b : Buffer) (payload : Val)
  | fuel
  | unsupported      -- a leaf rendering the oracle table does not contain
deriving Inhabited

def Res.bind (r : Res) (f : PP → Res) : Res :=
  match r with
  | .ok p => f p
  | .panic b pl => .panic b pl
  | .fuel => .fuel
  | .unsupported => .unsupported

/-- Outcome of running a user method: finished, or panicked with a payload. -/
inductive SRes where
  | ok (p : PP)
  | raised (p : PP) (payload : Val)
  | abort (r : Res)

namespace PP

def w (p : PP) (s : List Byte) : PP := { p with buf := p.buf.write s }
def wb (p : PP) (c : Byte) : PP := { p with buf := p.buf.writeByte c }
def wr (p : PP) (r : Int) : PP := { p with buf := p.buf.writeRune r }

structure Restorer where
  prevMode : Mode
  prevOverride : Override

def restore (p : PP) (r : Restorer) : PP :=
  { p with buf := p.buf.setMode r.prevMode, override := r.prevOverride }

def startUnsafe (p : PP) : PP × Restorer :=
  (if p.override ≠ .ovSafe then { p with buf := p.buf.setMode .unsafeEsc } else p, ⟨p.buf.mode, p.override⟩)

def startPreRedactable (p : PP) : PP × Restorer :=
  (if p.override ≠ .ovUnsafe then { p with buf := p.buf.setMode .raw } else p, ⟨p.buf.mode, p.override⟩)

def startSafeOverride (p : PP) : PP × Restorer :=
  (if p.override = .no then { p with buf := p.buf.setMode .safeEsc, override := .ovSafe } else p, ⟨p.buf.mode, p.override⟩)

def startUnsafeOverride (p : PP) : PP × Restorer :=
  (if p.override = .no then { p with buf := p.buf.setMode .unsafeEsc, override := .ovUnsafe } else p, ⟨p.buf.mode, p.override⟩)

end PP

/-- `defer p.startX().restore()` around `body`. When `body` panics the restorer still runs
while the panic unwinds: the buffer carried by the propagating panic has its mode restored. -/
def bracket (start : PP → PP × PP.Restorer) (p : PP) (body : PP → Res) : Res :=
  let (q, r) := start p
  match body q with
  | .ok q' => .ok (q'.restore r)
  | .panic b pl => .panic (b.setMode r.prevMode) pl   -- the deferred restore runs while unwinding
  | x => x

/-! ### Directive strings (oracle keys) and padding -/

def natBytes (n : Nat) : List Byte := itoa n

/-- The public directive equivalent to the internal flag state for `verb`;
`none` when the state cannot be written as a directive (a `v` verb with `+`/`#`
that were not turned into plusV/sharpV: only inside bad-verb reports). -/
def directive (f : FmtS) (verb : Nat) : Option (List Byte) :=
  if verb = 118 ∧ ((f.plus ∧ ¬ f.plusV) ∨ (f.sharp ∧ ¬ f.sharpV)) then none
  else some (
    [0x25]
    ++ (if f.plus || f.plusV then [0x2B] else [])
    ++ (if f.minus then [0x2D] else [])
    ++ (if f.sharp || f.sharpV then [0x23] else [])
    ++ (if f.space then [0x20] else [])
    ++ (if f.zero then [0x30] else [])
    ++ (if f.widPresent then natBytes f.wid else [])
    ++ (if f.precPresent then 0x2E :: natBytes f.prec else [])
    ++ runeBytes verb)

/-- `writePadding` bytes. -/
def padding (f : FmtS) (n : Int) : List Byte :=
  if n ≤ 0 then [] else List.replicate n.toNat (if f.zero then 0x30 else 0x20)

/-- `padString` for an ASCII string (rune count = length). -/
def padStr (f : FmtS) (s : List Byte) : List Byte :=
  if !f.widPresent || f.wid == 0 then s
  else
    let width : Int := (f.wid : Int) - s.length
    if !f.minus then padding f width ++ s else s ++ padding f width

/-- `fmtS` for an ASCII string: truncate to the precision, then pad. -/
def fmtSAscii (f : FmtS) (s : List Byte) : List Byte :=
  padStr f (if f.precPresent then s.take f.prec else s)

def nilAngle : List Byte := ([0x3C, 0x6E, 0x69, 0x6C, 0x3E] /- "<nil>" -/ : List UInt8)
def percentBang : List Byte := ([0x25, 0x21] /- "%!" -/ : List UInt8)

/-! ### Verb tables of the leaf formatters -/

def verbOkFor (k : BK) (verb : Nat) : Bool :=
  match k with
  | .bool => verb = 116 || verb = 118                                    -- t v
  | .sint | .uint =>
    verb = 118 || verb = 100 || verb = 98 || verb = 111 || verb = 79 || verb = 120 || verb = 88
      || verb = 99 || verb = 113 || verb = 85                            -- v d b o O x X c q U
  | .float =>
    verb = 118 || verb = 98 || verb = 103 || verb = 71 || verb = 120 || verb = 88
      || verb = 102 || verb = 70 || verb = 101 || verb = 69             -- v b g G x X f F e E
  | .str => verb = 118 || verb = 115 || verb = 120 || verb = 88 || verb = 113  -- v s x X q
  | .ptr => verb = 118 || verb = 112 || verb = 98 || verb = 111 || verb = 100 || verb = 120 || verb = 88  -- v p b o d x X (fmtPointer)

/-- One oracle-rendered write in unsafe mode: `defer p.startUnsafe().restore(); p.fmt.fmtX(...)`. -/
def leafWrite1 (env : Env) (p : PP) (id : Nat) (verb : Nat) : Res :=
  match directive p.f verb with
  | none => .unsupported
  | some d =>
    match env.render id d with
    | none => .unsupported
    | some bytes => bracket PP.startUnsafe p fun q => .ok (q.w bytes)

/-- A basic-kind value under a valid verb. Pointer leaves are nil pointers:
under `%#v` `fmtPointer` writes `(type)(nil)` as structure, in the ambient mode. -/
def leafWrite (env : Env) (p : PP) (id : Nat) (verb : Nat) (k : BK := .str) (ty : List Byte := []) : Res :=
  if k = .ptr ∧ verb = 118 ∧ p.f.sharpV then
    .ok (p.w ([0x28] ++ ty ++ ([0x29, 0x28, 0x6E, 0x69, 0x6C, 0x29] /- ")(nil)" -/ : List UInt8)))
  else leafWrite1 env p id verb

/-! ### Argument-number and width parsing of doPrintf -/

def tooLargeI (x : Int) : Bool := x > 1000000 || x < -1000000

/-- `intFromArg`. -/
def intFromArg (args : List Val) (argNum : Nat) : Int × Bool × Nat :=
  match args[argNum]? with
  | none => (0, false, argNum)
  | some v =>
    let (num, isInt) : Int × Bool :=
      match v with
      | .leaf _ k _ (some n) _ _ => if k = .sint ∨ k = .uint then (n, true) else (0, false)
      | _ => (0, false)
    if tooLargeI num then (0, false, argNum + 1) else (num, isInt, argNum + 1)

/-- Find the closing bracket: returns the bytes strictly between `[` and `]`
and the number of bytes consumed including both brackets. -/
def scanBracket : List Byte → Nat → Option (List Byte × Nat)
  | [], _ => none
  | c :: r, n => if c = 0x5D then some ([], n + 1) else
      match scanBracket r (n + 1) with
      | some (inner, k) => some (c :: inner, k)
      | none => none

/-- `parseArgNumber(format[i:])` where the format starts with `[`: `(index, wid, ok)`. -/
def parseArgNumber (f : List Byte) : Nat × Nat × Bool :=
  if f.length < 3 then (0, 1, false)
  else match f with
    | _ :: rest =>
      match scanBracket rest 1 with
      | none => (0, 1, false)
      | some (inner, consumed) =>
        let (width, ok, rem) := parsenum inner
        if !ok || !rem.isEmpty then (0, consumed, false)
        else (width - 1, consumed, true)   -- width ≥ 1 is checked by the caller through `0 ≤ index`
    | [] => (0, 1, false)

/-- `argNumber`: `(newArgNum, rest, found)` and the updated reordered/goodArgNum flags. -/
def argNumber (p : PP) (argNum : Nat) (f : List Byte) (numArgs : Nat) : PP × Nat × List Byte × Bool :=
  match f with
  | 0x5B :: _ =>
    let p := { p with reordered := true }
    let (inner?, consumed) : Option (List Byte) × Nat :=
      if f.length < 3 then (none, 1) else
      match scanBracket (f.drop 1) 1 with
      | none => (none, 1)
      | some (inner, c) => (some inner, c)
    match inner? with
    | none => ({ p with goodArgNum := false }, argNum, f.drop consumed, false)
    | some inner =>
      let (width, ok, rem) := parsenum inner
      if ok && rem.isEmpty then
        -- index = width - 1; `0 <= index && index < numArgs`
        if 1 ≤ width ∧ width - 1 < numArgs then (p, width - 1, f.drop consumed, true)
        else ({ p with goodArgNum := false }, argNum, f.drop consumed, true)
      else ({ p with goodArgNum := false }, argNum, f.drop consumed, false)
  | _ => (p, argNum, f, false)

def typeName : Val → List Byte
  | .nil => []
  | .leaf _ _ ty _ _ _ => ty
  | .safeW _ => ([0x72, 0x65, 0x64, 0x61, 0x63, 0x74, 0x2E, 0x73, 0x61, 0x66, 0x65, 0x57, 0x72, 0x61, 0x70, 0x70, 0x65, 0x72] /- "redact.safeWrapper" -/ : List UInt8)
  | .unsafeW _ => ([0x72, 0x65, 0x64, 0x61, 0x63, 0x74, 0x2E, 0x75, 0x6E, 0x73, 0x61, 0x66, 0x65, 0x57, 0x72, 0x61, 0x70] /- "redact.unsafeWrap" -/ : List UInt8)
  | .redactable _ ty => ty
  | .meth _ ty _ _ _ _ _ _ => ty
  | .slice ty _ _ _ => ty
  | .map ty _ _ _ _ _ => ty
  | .struct ty _ _ => ty
  | .ptrTo ty _ => ty

/-- `reflect.TypeOf(arg).Kind() == reflect.String` (doPrint's spacing rule). -/
def isStringKind : Val → Bool
  | .leaf _ .str _ _ _ _ => true
  | .redactable _ ty => ty = ([0x6D, 0x61, 0x72, 0x6B, 0x65, 0x72, 0x73, 0x2E, 0x52, 0x65, 0x64, 0x61, 0x63, 0x74, 0x61, 0x62, 0x6C, 0x65, 0x53, 0x74, 0x72, 0x69, 0x6E, 0x67] /- "markers.RedactableString" -/ : List UInt8)
  | _ => false

def isSafeValue : Val → Bool
  | .leaf _ _ _ _ sv _ => sv
  | .safeW _ => true          -- safeWrapper implements SafeValue
  | .meth _ _ sv _ _ _ _ _ => sv
  | _ => false

def isRegistered : Val → Bool
  | .leaf _ _ _ _ _ reg => reg
  | .meth _ _ _ reg _ _ _ _ => reg
  | .struct _ reg _ => reg
  | _ => false

/-- The width part of a directive: `*` takes the next operand, digits are parsed. -/
def widthStage (p : PP) (args : List Val) (argNum : Nat) (r : List Byte) (afterIndex : Bool) :
    PP × Nat × List Byte × Bool :=
  match r with
  | 0x2A :: r' =>
    let (num, isInt, newArg) := intFromArg args argNum
    let p := { p with f := { p.f with wid := num.toNat, widPresent := isInt } }
    let p := if !isInt then p.w ([0x25, 0x21, 0x28, 0x42, 0x41, 0x44, 0x57, 0x49, 0x44, 0x54, 0x48, 0x29] /- "%!(BADWIDTH)" -/ : List UInt8) else p
    let p := if num < 0 then { p with f := { p.f with wid := (-num).toNat, minus := true, zero := false } } else p
    (p, newArg, r', false)
  | _ =>
    let (w, wp, r') := parsenum r
    let p := { p with f := { p.f with wid := w, widPresent := wp } }
    let p := if afterIndex ∧ wp then { p with goodArgNum := false } else p
    (p, argNum, r', afterIndex)

/-- The precision part of a directive: `.` then `*`, an argument index, or digits. -/
def precStage (p : PP) (args : List Val) (argNum : Nat) (r : List Byte) (afterIndex : Bool) :
    PP × Nat × List Byte × Bool :=
  match r with
  | 0x2E :: c :: r'' =>
    let r' := c :: r''
    let p := if afterIndex then { p with goodArgNum := false } else p
    let (p, argNum, r', afterIndex) := argNumber p argNum r' args.length
    match r' with
    | 0x2A :: r3 =>
      let (num, isInt, newArg) := intFromArg args argNum
      let (prec, precPresent) : Nat × Bool := if num < 0 then (0, false) else (num.toNat, isInt)
      let p := { p with f := { p.f with prec := prec, precPresent := precPresent } }
      let p := if !precPresent then p.w ([0x25, 0x21, 0x28, 0x42, 0x41, 0x44, 0x50, 0x52, 0x45, 0x43, 0x29] /- "%!(BADPREC)" -/ : List UInt8) else p
      (p, newArg, r3, false)
    | _ =>
      let (pr, pp, r3) := parsenum r'
      let p := { p with f := { p.f with prec := if pp then pr else 0, precPresent := true } }
      (p, argNum, r3, afterIndex)
  | _ => (p, argNum, r, afterIndex)

/-- The types `printArg` handles in its type switch without looking for methods. -/
def isPredeclared (ty : List Byte) : Bool :=
  ["bool", "int", "int8", "int16", "int32", "int64", "uint", "uint8", "uint16", "uint32", "uint64",
   "uintptr", "float32", "float64", "string"].any (fun n => n.toUTF8.toList == ty)

/-- Outcome of a method that returns a string (String/Error/GoString/SafeMessage):
it dereferences a nil receiver, or panics before returning (its script is a
`panic`), or its result is formatted (`r`). -/
def retOut (nilRecv : Bool) (p : PP) (sc : Script) (r : Res) : SRes :=
  if nilRecv then .raised p .nil
  else match sc with
    | .panic payload => .raised p payload
    | _ => .abort r

/-! ### The printer proper -/

mutual

/-- `printArg`. -/
def printArg (env : Env) : Nat → PP → Val → Nat → Res
  | 0, _, _, _ => .fuel
  | fuel + 1, p, arg, verb =>
    match arg with
    | .safeW v => bracket PP.startSafeOverride p fun q => printArg env fuel q v verb
    | .unsafeW v => bracket PP.startUnsafeOverride p fun q => printArg env fuel q v verb
    | _ =>
      let body1 := fun (q : PP) =>
        if isSafeValue arg then bracket PP.startSafeOverride q fun q2 => printArgBody env fuel q2 arg verb
        else printArgBody env fuel q arg verb
      if isRegistered arg then bracket PP.startSafeOverride p body1 else body1 p

/-- The part of `printArg` after the classification prologue. -/
def printArgBody (env : Env) : Nat → PP → Val → Nat → Res
  | 0, _, _, _ => .fuel
  | fuel + 1, p, arg, verb =>
    match arg with
    | .nil =>
      if verb = 84 ∨ verb = 118 then .ok (p.w (padStr p.f nilAngle))
      else badVerb env fuel p arg verb
    | _ =>
      if verb = 84 then .ok (p.w (fmtSAscii p.f (typeName arg)))       -- %T
      else if verb = 112 then                                            -- %p
        match arg with
        | .leaf id .ptr ty _ _ _ => leafWrite env p id verb .ptr ty
        | .ptrTo _ _ => .unsupported
        | .slice _ _ _ _ => .unsupported
        | .map _ _ _ _ _ _ => .unsupported
        | _ => badVerb env fuel p arg verb
      else
        match arg with
        | .leaf id k ty _ _ _ =>
          if verb = 119 ∧ !isPredeclared ty then
            -- a named type reaches handleMethods: `%w` of a non-error cancels the capture
            badVerb env fuel { p with wrappedErr := none, wrapErrs := false } arg verb
          else if verbOkFor k verb then leafWrite env p id verb k ty
          else badVerb env fuel p arg verb (!isPredeclared ty)
        | .redactable content _ =>
          bracket PP.startPreRedactable p fun q => .ok (q.w content)
        | _ =>
          -- default: methods first, then reflection
          match handleMethods env fuel p arg verb with
          | (true, r) => r
          | (false, _) => printValue env fuel p arg verb 0 false

/-- `badVerb`. `viaValue`: the operand is held as a `reflect.Value` (`p.arg == nil`,
set by `printValue`), so it is re-printed by `printValue(p.value, 'v', 0)` without
the classification prologue of `printArg`. -/
def badVerb (env : Env) : Nat → PP → Val → Nat → (viaValue : Bool := false) → Res
  | 0, _, _, _, _ => .fuel
  | fuel + 1, p, arg, verb, viaValue =>
    let p := { p with erroring := true }
    let p := (p.w percentBang).wr verb
    let p := p.wb 0x28
    let r : Res :=
      match arg with
      | .nil => .ok (p.w nilAngle)
      | _ =>
        let p := (p.w (typeName arg)).wb 0x3D
        if viaValue then printValue env fuel p arg 118 0 true
        else printArg env fuel p arg 118
    r.bind fun p => .ok { (p.wb 0x29) with erroring := false }

/-- `handleMethods`: `(handled, result)`. -/
def handleMethods (env : Env) : Nat → PP → Val → Nat → Bool × Res
  | 0, _, _, _ => (true, .fuel)
  | fuel + 1, p, arg, verb =>
    if p.erroring then (false, .ok p) else
    match arg with
    | .meth ms _ _ _ nilRecv ret sc _ =>
      if verb = 119 then
        -- %w: capture once; any misuse cancels the capture and is a bad verb
        if !ms.isError || !p.wrapErrs || p.wrappedErr.isSome then
          (true, badVerb env fuel { p with wrappedErr := none, wrapErrs := false } arg verb)
        else methDispatch env fuel { p with wrappedErr := some ret } arg ms nilRecv ret sc 118
      else methDispatch env fuel p arg ms nilRecv ret sc verb
    | _ =>
      -- values without methods: `%w` is still examined here (`p.arg.(error)` fails)
      if verb = 119 then
        (true, badVerb env fuel { p with wrappedErr := none, wrapErrs := false } arg verb)
      else (false, .ok p)

/-- The dispatch order of `handleMethods` after the `%w` prologue: SafeFormatter,
SafeMessager, error hook (all three skipped under overrideUnsafe), Formatter,
GoStringer under `%#v`, error, Stringer. Every call is wrapped in `catchPanic`. -/
def methDispatch (env : Env) : Nat → PP → Val → Methods → Bool → Nat → Script → Nat → Bool × Res
  | 0, _, _, _, _, _, _, _ => (true, .fuel)
  | fuel + 1, p, arg, ms, nilRecv, ret, sc, verb =>
    if p.override ≠ .ovUnsafe ∧ ms.safeFormatter then
      (true, catchPanic env fuel p arg verb ([0x53, 0x61, 0x66, 0x65, 0x46, 0x6F, 0x72, 0x6D, 0x61, 0x74] /- "SafeFormat" -/ : List UInt8) nilRecv
        (if nilRecv then .raised p .nil else runScript env fuel p sc))
    else if p.override ≠ .ovUnsafe ∧ ms.safeMessager then
      (true, catchPanic env fuel p arg verb ([0x53, 0x61, 0x66, 0x65, 0x4D, 0x65, 0x73, 0x73, 0x61, 0x67, 0x65, 0x72] /- "SafeMessager" -/ : List UInt8) nilRecv
        (retOut nilRecv p sc
          -- (after the D10 fix) the override covers only the verbs that print the message itself
          (if verbOkFor .str verb then bracket PP.startSafeOverride p fun q2 => fmtString env fuel q2 arg ret verb
           else fmtString env fuel p arg ret verb)))
    else if p.override ≠ .ovUnsafe ∧ ms.isError ∧ env.hook.isSome then
      match env.hook with
      | some h =>
        (true, catchPanic env fuel p arg verb ([0x53, 0x61, 0x66, 0x65, 0x46, 0x6F, 0x72, 0x6D, 0x61, 0x74, 0x74, 0x65, 0x72] /- "SafeFormatter" -/ : List UInt8) nilRecv
          (if nilRecv then .raised p .nil else runScript env fuel p (h ret verb)))
      | none => (false, .ok p)
    else if ms.formatter then
      (true, catchPanic env fuel p arg verb ([0x46, 0x6F, 0x72, 0x6D, 0x61, 0x74] /- "Format" -/ : List UInt8) nilRecv
        (if nilRecv then .raised p .nil else runScript env fuel p sc))
    else if p.f.sharpV then
      if ms.goStringer then
        -- `defer startUnsafe; p.fmt.fmtS(stringer.GoString())`: like %s with the current width/precision
        (true, catchPanic env fuel p arg verb ([0x47, 0x6F, 0x53, 0x74, 0x72, 0x69, 0x6E, 0x67] /- "GoString" -/ : List UInt8) nilRecv
          (retOut nilRecv p sc
            ((leafWrite env { p with f := { p.f with sharpV := false, sharp := false, plusV := false, plus := false } } ret 115).bind
              fun q' => .ok { q' with f := p.f })))
      else (false, .ok p)
    else if verb = 118 ∨ verb = 115 ∨ verb = 120 ∨ verb = 88 ∨ verb = 113 then
      if ms.isError then
        (true, catchPanic env fuel p arg verb ([0x45, 0x72, 0x72, 0x6F, 0x72] /- "Error" -/ : List UInt8) nilRecv
          (retOut nilRecv p sc (fmtString env fuel p arg ret verb)))
      else if ms.stringer then
        (true, catchPanic env fuel p arg verb ([0x53, 0x74, 0x72, 0x69, 0x6E, 0x67] /- "String" -/ : List UInt8) nilRecv
          (retOut nilRecv p sc (fmtString env fuel p arg ret verb)))
      else (false, .ok p)
    else (false, .ok p)

/-- `fmtString(v, verb)` for the string a method returned (leaf `ret`). -/
def fmtString (env : Env) : Nat → PP → Val → Nat → Nat → Res
  | 0, _, _, _, _ => .fuel
  | fuel + 1, p, arg, ret, verb =>
    if verbOkFor .str verb then leafWrite env p ret verb else badVerb env fuel p arg verb

/-- `catchPanic` applied to the outcome of a user method. -/
def catchPanic (env : Env) : Nat → PP → Val → Nat → List Byte → Bool → SRes → Res
  | 0, _, _, _, _, _, _ => .fuel
  | fuel + 1, p0, _arg, verb, method, nilRecv, out =>
    match out with
    | .ok p => .ok p
    | .abort r => r
    | .raised p payload =>
      if nilRecv then .ok (p.w nilAngle)
      else if p.panicking then .panic p.buf payload
      else
        let old := p.f
        let p := { p with f := p.f.clear }
        let p := (p.w percentBang).wr verb
        let p := p.w ([0x28, 0x50, 0x41, 0x4E, 0x49, 0x43, 0x3D] /- "(PANIC=" -/ : List UInt8)
        let p := p.w method
        let p := p.w ([0x20, 0x6D, 0x65, 0x74, 0x68, 0x6F, 0x64, 0x3A, 0x20] /- " method: " -/ : List UInt8)
        let p := { p with panicking := true }
        (printArg env fuel p payload 118).bind fun p =>
          let p := { p with panicking := false }
          let p := p.wb 0x29
          let _ := p0
          .ok { p with f := p.f.restoreFlags old }

/-- A user method's calls on the SafePrinter / fmt.State (printer_adapter.go). -/
def runScript (env : Env) : Nat → PP → Script → SRes
  | 0, _, _ => .abort .fuel
  | fuel + 1, p, sc =>
    match sc with
    | .done => .ok p
    | .panic payload => .raised p payload
    | .indep k => runScript env fuel p k
    | .safeString s k =>
      let (q, r) := p.startSafeOverride
      runScript env fuel ((q.w s).restore r) k
    | .safeRune x k =>
      let (q, r) := p.startSafeOverride
      runScript env fuel ((q.wr x).restore r) k
    | .unsafeString s k =>
      let (q, r) := p.startUnsafe
      runScript env fuel ((q.w s).restore r) k
    | .write s k =>
      let (q, r) := p.startUnsafe
      runScript env fuel ((q.w s).restore r) k
    | .unsafeLeaf id k =>
      match env.render id [0x25, 0x73] with
      | none => .abort .unsupported
      | some s =>
        let (q, r) := p.startUnsafe
        runScript env fuel ((q.w s).restore r) k
    | .print args k =>
      -- nested printer: shares the buffer, inherits the override, fresh flags
      let np : PP := { buf := p.buf, override := p.override }
      match doPrint env fuel np args.toList with
      | .ok np' => runScript env fuel { p with buf := np'.buf.setMode p.buf.mode } k
      -- a panic propagating out of the nested printer (raised while a panic value was being
      -- printed): the deferred hand-back and mode restore run (D11), and the panic continues
      -- as a panic of the calling method
      | .panic b pl => .raised { p with buf := b.setMode p.buf.mode } pl
      | r => .abort r
    | .printf f args k =>
      let np : PP := { buf := p.buf, override := p.override }
      match doPrintf env fuel np f args.toList with
      | .ok np' => runScript env fuel { p with buf := np'.buf.setMode p.buf.mode } k
      | .panic b pl => .raised { p with buf := b.setMode p.buf.mode } pl
      | r => .abort r

/-- `printValue`. `depth` as in Go. -/
def printValue (env : Env) : Nat → PP → Val → Nat → Nat → Bool → Res
  | 0, _, _, _, _, _ => .fuel
  | fuel + 1, p, v, verb, depth, ro =>
    match v with
    | .nil => .ok (p.w nilAngle)   -- reflect.Invalid at depth > 0 with %v; other verbs: badVerb (not generated)
    | .leaf id k ty _ _ _ =>
      if verbOkFor k verb then leafWrite env p id verb k ty else badVerb env fuel p v verb true
    | .meth _ _ _ _ _ _ _ under => printValue env fuel p under verb depth ro
    | .struct ty _ fields =>
      let p := if p.f.sharpV then p.w ty else p
      let p := p.wb 0x7B
      (printFields env fuel p fields verb depth ro true).bind fun p => .ok (p.wb 0x7D)
    | .slice ty isNil iface elems =>
      if p.f.sharpV then
        let p := p.w ty
        if isNil then .ok (p.w ([0x28, 0x6E, 0x69, 0x6C, 0x29] /- "(nil)" -/ : List UInt8))
        else (printElems env fuel (p.wb 0x7B) elems verb depth iface ro true).bind fun p => .ok (p.wb 0x7D)
      else
        (printElems env fuel (p.wb 0x5B) elems verb depth iface ro true).bind fun p => .ok (p.wb 0x5D)
    | .map ty isNil ifaceK ifaceV keys vals =>
      if p.f.sharpV ∧ isNil then .ok ((p.w ty).w ([0x28, 0x6E, 0x69, 0x6C, 0x29] /- "(nil)" -/ : List UInt8))
      else
        let p := if p.f.sharpV then (p.w ty).wb 0x7B else p.w ([0x6D, 0x61, 0x70, 0x5B] /- "map[" -/ : List UInt8)
        (printPairs env fuel p keys vals verb depth ifaceK ifaceV ro true).bind fun p =>
          .ok (p.wb (if p.f.sharpV then 0x7D else 0x5D))
    | .ptrTo _ to =>
      -- `p.printValue(a, verb, depth+1)`: the pointee goes through the depth>0 prologue
      -- (by-type special cases, registered type, SafeValue, methods) like any slot
      if depth = 0 then printSlot env fuel (p.wb 0x26) to verb (depth + 1) false ro
      else .unsupported
    | .safeW _ => .unsupported
    | .unsafeW _ => .unsupported
    | .redactable _ _ => .unsupported

/-- One element / field / key / value slot of a container (printValue at depth+1):
the prologue of `printValue` for `depth > 0`. `iface`: the slot's static type
is an interface type (methods are found through the interface first). -/
def printSlot (env : Env) : Nat → PP → Val → Nat → Nat → Bool → Bool → Res
  | 0, _, _, _, _, _, _ => .fuel
  | fuel + 1, p, v, verb, depth, iface, ro =>
    match v with
    | .nil =>
      -- nil interface (reflect.Interface case with an invalid Elem): any verb
      if p.f.sharpV then .ok (p.w ([0x69, 0x6E, 0x74, 0x65, 0x72, 0x66, 0x61, 0x63, 0x65, 0x20, 0x7B, 0x7D, 0x28, 0x6E, 0x69, 0x6C, 0x29] /- "interface {}(nil)" -/ : List UInt8)) else .ok (p.w nilAngle)
    | _ =>
      -- handleSpecialValues looks at the slot's *static* type: wrappers and redactables are
      -- recognised by type only when the slot is concretely typed. The wrapper's field is
      -- unexported (read-only) and interface-typed.
      let special : Option Res :=
        if iface then none else
        match v with
        | .safeW inner => some (bracket PP.startSafeOverride p fun q => printSlot env fuel q inner verb (depth + 1) true true)
        | .unsafeW inner => some (bracket PP.startUnsafeOverride p fun q => printSlot env fuel q inner verb (depth + 1) true true)
        | .redactable content _ => some (bracket PP.startPreRedactable p fun q => .ok (q.w content))
        | _ => none
      match special with
      | some r => r
      | none =>
        let body := fun (q : PP) =>
          let afterMethods := fun (q2 : PP) =>
            let noMethod := fun (q3 : PP) =>
              if iface then
                -- reflect.Interface case: descend to the concrete value at depth+1
                printSlot env fuel q3 v verb (depth + 1) false ro
              else printValue env fuel q3 v verb depth ro
            if !ro then
              match slotMethods env fuel q2 v verb with
              | (true, r) => r
              | (false, _) => noMethod q2
            else noMethod q2
          if !ro ∧ isSafeValue v then bracket PP.startSafeOverride q afterMethods else afterMethods q
        if !iface ∧ isRegistered v then bracket PP.startSafeOverride p body else body p

/-- Method dispatch for a value found in a container slot: wrappers and
redactables are reached through their own methods there. -/
def slotMethods (env : Env) : Nat → PP → Val → Nat → Bool × Res
  | 0, _, _, _ => (true, .fuel)
  | fuel + 1, p, v, verb =>
    if p.erroring then (false, .ok p) else
    match v with
    | .redactable content _ =>
      -- RedactableString/Bytes implement SafeFormatter: `sp.Print(s)`
      if p.override ≠ .ovUnsafe then
        (true, match runScript env fuel p (.print (.cons v .nil) .done) with
          | .ok q => .ok q
          | .raised q pl => .panic q.buf pl
          | .abort r => r)
      else
        let _ := content
        (false, .ok p)
    | .safeW _ => (true, .unsupported)     -- SafeMessager path of the wrapper (fmt.Sprintf of the inner value)
    | .unsafeW _ => (true, .unsupported)   -- Formatter path of the wrapper (standard fmt into p.Write)
    | _ => handleMethods env fuel p v verb

def printFields (env : Env) : Nat → PP → Fields → Nat → Nat → Bool → Bool → Res
  | 0, _, _, _, _, _, _ => .fuel
  | fuel + 1, p, fs, verb, depth, ro, first =>
    match fs with
    | .nil => .ok p
    | .cons name exported _ifaceTyped v rest =>
      let p := if first then p else (if p.f.sharpV then p.w ([0x2C, 0x20] /- ", " -/ : List UInt8) else p.wb 0x20)
      let p := if p.f.plusV ∨ p.f.sharpV then (p.w name).wb 0x3A else p
      -- getField unwraps interface-typed fields: the slot is concretely typed
      (printSlot env fuel p v verb (depth + 1) false (ro || !exported)).bind fun p =>
        printFields env fuel p rest verb depth ro false

def printElems (env : Env) : Nat → PP → Vals → Nat → Nat → Bool → Bool → Bool → Res
  | 0, _, _, _, _, _, _, _ => .fuel
  | fuel + 1, p, vs, verb, depth, iface, ro, first =>
    match vs with
    | .nil => .ok p
    | .cons v rest =>
      let p := if first then p else (if p.f.sharpV then p.w ([0x2C, 0x20] /- ", " -/ : List UInt8) else p.wb 0x20)
      (printSlot env fuel p v verb (depth + 1) iface ro).bind fun p =>
        printElems env fuel p rest verb depth iface ro false

def printPairs (env : Env) : Nat → PP → Vals → Vals → Nat → Nat → Bool → Bool → Bool → Bool → Res
  | 0, _, _, _, _, _, _, _, _, _ => .fuel
  | fuel + 1, p, ks, vs, verb, depth, ifaceK, ifaceV, ro, first =>
    match ks, vs with
    | .cons k kr, .cons v vr =>
      let p := if first then p else (if p.f.sharpV then p.w ([0x2C, 0x20] /- ", " -/ : List UInt8) else p.wb 0x20)
      (printSlot env fuel p k verb (depth + 1) ifaceK ro).bind fun p =>
        (printSlot env fuel (p.wb 0x3A) v verb (depth + 1) ifaceV ro).bind fun p =>
          printPairs env fuel p kr vr verb depth ifaceK ifaceV ro false
    | _, _ => .ok p

/-- `doPrint`. -/
def doPrint (env : Env) : Nat → PP → List Val → Res
  | 0, _, _ => .fuel
  | fuel + 1, p, args =>
    let p := if p.override ≠ .ovUnsafe then { p with buf := p.buf.setMode .safeEsc } else p
    doPrintLoop env fuel p args 0 false

def doPrintLoop (env : Env) : Nat → PP → List Val → Nat → Bool → Res
  | 0, _, _, _, _ => .fuel
  | fuel + 1, p, args, argNum, prevString =>
    match args with
    | [] => .ok p
    | arg :: rest =>
      let isString := isStringKind arg
      let p := if argNum > 0 ∧ !isString ∧ !prevString then p.wb 0x20 else p
      (printArg env fuel p arg 118).bind fun p => doPrintLoop env fuel p rest (argNum + 1) isString

/-- `doPrintf`. -/
def doPrintf (env : Env) : Nat → PP → List Byte → List Val → Res
  | 0, _, _, _ => .fuel
  | fuel + 1, p, format, args =>
    let p := if p.override ≠ .ovUnsafe then { p with buf := p.buf.setMode .safeEsc } else p
    let p := { p with reordered := false }
    (fmtLoop env fuel p format args 0 false).bind fun p => .ok p

/-- The `formatLoop` of doPrintf; `afterIndex` is carried between directives only
inside one directive, so each iteration starts with it false… except that Go
keeps the variable across iterations; it is re-assigned before use. -/
def fmtLoop (env : Env) : Nat → PP → List Byte → List Val → Nat → Bool → Res
  | 0, _, _, _, _, _ => .fuel
  | fuel + 1, p, format, args, argNum, afterIndex0 =>
    let p := { p with goodArgNum := true }
    -- literal text up to the next '%'
    let lit := format.takeWhile (· ≠ 0x25)
    let rest := format.dropWhile (· ≠ 0x25)
    let p := if lit.isEmpty then p else p.w lit
    match rest with
    | [] => finishPrintf env fuel p args argNum
    | _ :: r0 =>
      -- flags
      let p := { p with f := p.f.clear }
      let (fs, r1) := parseFlags true {} r0
      let p := { p with f := { p.f with plus := fs.plus, minus := fs.minus, sharp := fs.sharp, space := fs.space, zero := fs.zero } }
      -- fast path: a lower-case ASCII verb right after the flags
      match r1 with
      | c :: r2 =>
        if 0x61 ≤ c ∧ c ≤ 0x7A ∧ argNum < args.length then
          let p := if c = 0x76 then
              { p with f := { p.f with sharpV := p.f.sharp, sharp := false, plusV := p.f.plus, plus := false } }
            else p
          match args[argNum]? with
          | some a => (printArg env fuel p a c.toNat).bind fun p => fmtLoop env fuel p r2 args (argNum + 1) afterIndex0
          | none => .ok p
        else directiveTail env fuel p r1 args argNum afterIndex0
      | [] => directiveTail env fuel p r1 args argNum afterIndex0

/-- The slow path of one directive: argument index, width, precision, verb. -/
def directiveTail (env : Env) : Nat → PP → List Byte → List Val → Nat → Bool → Res
  | 0, _, _, _, _, _ => .fuel
  | fuel + 1, p, r1, args, argNum, _afterIndex0 =>
    let numArgs := args.length
    -- explicit argument index?
    let (p, argNum, r, afterIndex) := argNumber p argNum r1 numArgs
    -- width, then precision
    let (p, argNum, r, afterIndex) := widthStage p args argNum r afterIndex
    let (p, argNum, r, afterIndex) := precStage p args argNum r afterIndex
    let (p, argNum, r, _afterIndex) : PP × Nat × List Byte × Bool :=
      if !afterIndex then argNumber p argNum r numArgs else (p, argNum, r, afterIndex)
    match decodeVerb r with
    | none => .ok (p.w ([0x25, 0x21, 0x28, 0x4E, 0x4F, 0x56, 0x45, 0x52, 0x42, 0x29] /- "%!(NOVERB)" -/ : List UInt8))
    | some (verb, r') =>
      if verb = 0x25 then fmtLoop env fuel (p.wb 0x25) r' args argNum false
      else if !p.goodArgNum then
        fmtLoop env fuel (((p.w percentBang).wr verb).w ([0x28, 0x42, 0x41, 0x44, 0x49, 0x4E, 0x44, 0x45, 0x58, 0x29] /- "(BADINDEX)" -/ : List UInt8)) r' args argNum false
      else if argNum ≥ numArgs then
        fmtLoop env fuel (((p.w percentBang).wr verb).w ([0x28, 0x4D, 0x49, 0x53, 0x53, 0x49, 0x4E, 0x47, 0x29] /- "(MISSING)" -/ : List UInt8)) r' args argNum false
      else
        let p := if verb = 118 then
            { p with f := { p.f with sharpV := p.f.sharp, sharp := false, plusV := p.f.plus, plus := false } }
          else p
        match args[argNum]? with
        | some a => (printArg env fuel p a verb).bind fun p => fmtLoop env fuel p r' args (argNum + 1) false
        | none => .ok p

/-- After the format is exhausted: the `%!(EXTRA …)` report. -/
def finishPrintf (env : Env) : Nat → PP → List Val → Nat → Res
  | 0, _, _, _ => .fuel
  | fuel + 1, p, args, argNum =>
    if !p.reordered ∧ argNum < args.length then
      let p := { p with f := p.f.clear }
      let p := p.w ([0x25, 0x21, 0x28, 0x45, 0x58, 0x54, 0x52, 0x41, 0x20] /- "%!(EXTRA " -/ : List UInt8)
      (extraLoop env fuel p (args.drop argNum) true).bind fun p => .ok (p.wb 0x29)
    else .ok p

def extraLoop (env : Env) : Nat → PP → List Val → Bool → Res
  | 0, _, _, _ => .fuel
  | fuel + 1, p, args, first =>
    match args with
    | [] => .ok p
    | a :: rest =>
      let p := if first then p else p.w ([0x2C, 0x20] /- ", " -/ : List UInt8)
      let r : Res :=
        match a with
        | .nil => .ok (p.w nilAngle)
        | _ => printArg env fuel ((p.w (typeName a)).wb 0x3D) a 118
      r.bind fun p => extraLoop env fuel p rest false

end

/-! ### Entry points -/

def defaultFuel : Nat := 100000

/-- `newPrinter()` on a fresh printer. -/
def newPP : PP := {}

/-- `Sprintf` / `Fprintf`: `some bytes`, or `none` for a propagating panic. -/
def sprintf (env : Env) (format : List Byte) (args : List Val) : Res :=
  doPrintf env defaultFuel newPP format args

def sprint (env : Env) (args : List Val) : Res :=
  doPrint env defaultFuel newPP args

/-- `HelperForErrorf`. -/
def helperForErrorf (env : Env) (format : List Byte) (args : List Val) : Res :=
  doPrintf env defaultFuel { newPP with wrapErrs := true } format args

/-! ### The unclassified run (C04's reference text)

A printer on which nothing is classified: safe mode, safe override, empty buffer. Under the safe
override every `start*()` bracket is the identity and every write is appended verbatim to the
pending bytes (`Props/C04.lean`), so after the run `buf.buf` is the text written, unescaped and
without envelopes: the model's reading of what `fmt` prints. -/
def plainPP : PP := { newPP with buf := newPP.buf.setMode .safeEsc, override := .ovSafe }

def plainSprintf (env : Env) (f : List Byte) (args : List Val) : Res := doPrintf env defaultFuel plainPP f args
def plainSprint (env : Env) (args : List Val) : Res := doPrint env defaultFuel plainPP args
def plainErrorf (env : Env) (f : List Byte) (args : List Val) : Res :=
  doPrintf env defaultFuel { plainPP with wrapErrs := true } f args

def Res.output : Res → Option (List Byte)
  | .ok p => some p.buf.redactableBytes
  | _ => none

end Redact
