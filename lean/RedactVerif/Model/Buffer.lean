import RedactVerif.Model.Escape
import RedactVerif.Model.Markers
/-
L1: `internal/buffer/buffer.go`. One Lean function per Go method, same order
of effects. Capacity is not modelled (see DESIGN §3.4): `Grow n` with `n ≥ 0`
is the identity on the observable state, `Cap` is never compared.
`WriteRune` is modelled as the code is after the D1 fix (invalid runes encode
U+FFFD).
-/
namespace Redact

inductive Mode where
  | unsafeEsc
  | safeEsc
  | raw
deriving DecidableEq, Repr, Inhabited

structure Buffer where
  buf : List Byte := []
  validUntil : Nat := 0
  mode : Mode := .unsafeEsc
  markerOpen : Bool := false
deriving DecidableEq, Repr, Inhabited

namespace Buffer

def init : Buffer := {}

def escapeToEnd (b : Buffer) (nl : Bool) : Buffer :=
  let r := escapeBytesAt b.buf b.validUntil nl false
  { b with buf := r, validUntil := r.length }

def endRedactable (b : Buffer) : Buffer :=
  if b.buf.isEmpty then b
  else if hasSuffix b.buf startB then
    { b with buf := dropLast 3 b.buf, markerOpen := false }
  else
    { b with buf := b.buf ++ endB, markerOpen := false }

def startRedactable (b : Buffer) : Buffer :=
  if hasSuffix b.buf endB then
    { b with buf := dropLast 3 b.buf, markerOpen := true }
  else
    { b with buf := b.buf ++ startB, markerOpen := true }

def startWrite (b : Buffer) : Buffer :=
  if b.mode = .unsafeEsc ∧ b.markerOpen = false then
    let b' := b.startRedactable
    { b' with validUntil := b'.buf.length }
  else b

/-- `copy(b.buf[m:], p)` after growing by `len(p)`. -/
def append (b : Buffer) (p : List Byte) : Buffer := { b with buf := b.buf ++ p }

/-- `Write` / `WriteString`. -/
def write (b : Buffer) (p : List Byte) : Buffer := b.startWrite.append p

def writeByte (b : Buffer) (x : Byte) : Buffer :=
  let b := b.startWrite
  if b.mode = .unsafeEsc ∧ x ≥ 0x80 then
    b.write escB
  else
    b.append [x]

def writeRune (b : Buffer) (r : Int) : Buffer := b.startWrite.append (encodeRune r)

def finalize (b : Buffer) : Buffer :=
  let b := if b.mode = .raw then { b with validUntil := b.buf.length }
           else b.escapeToEnd (b.mode = .unsafeEsc)
  if b.markerOpen then
    let b := b.endRedactable
    { b with validUntil := b.buf.length }
  else b

def setMode (b : Buffer) (m : Mode) : Buffer :=
  if b.mode = m then b
  else
    let b := if b.mode = .unsafeEsc ∨ b.mode = .safeEsc then b.escapeToEnd (b.mode = .unsafeEsc) else b
    let b := if b.markerOpen then b.endRedactable else b
    { b with validUntil := b.buf.length, mode := m }

def reset (_ : Buffer) : Buffer := init

/-- `RedactableString` / `RedactableBytes`: finalize a copy. -/
def redactableBytes (b : Buffer) : List Byte := b.finalize.buf

/-- `String()`. -/
def string (b : Buffer) : List Byte := stripMarkers b.finalize.buf

def len (b : Buffer) : Nat := b.finalize.buf.length

/-- `TakeRedactableString` / `TakeRedactableBytes`: result and new state. -/
def take (b : Buffer) : List Byte × Buffer :=
  let f := b.finalize
  (f.buf, { buf := [], validUntil := 0, mode := .unsafeEsc, markerOpen := f.markerOpen })

end Buffer

/-- The buffer-level operation language (C09's alphabet, at `Buffer` level). -/
inductive Op where
  | setMode (m : Mode)
  | write (p : List Byte)
  | writeByte (x : Byte)
  | writeRune (r : Int)
  | reset
  | take
  | grow (n : Nat)
  | accLen
  | accString
  | accRedactable
  | accMode
deriving Repr, Inhabited

/-- One step: new state and what the call returns (as bytes; empty when the
Go call returns nothing of interest). -/
def Buffer.step (b : Buffer) : Op → Buffer × List Byte
  | .setMode m => (b.setMode m, [])
  | .write p => (b.write p, [])
  | .writeByte x => (b.writeByte x, [])
  | .writeRune r => (b.writeRune r, [])
  | .reset => (b.reset, [])
  | .take => let (r, b') := b.take; (b', r)
  | .grow _ => (b, [])
  | .accLen => (b, [])           -- numeric result reported separately by the driver
  | .accString => (b, b.string)
  | .accRedactable => (b, b.redactableBytes)
  | .accMode => (b, [])

def Buffer.run (b : Buffer) (ops : List Op) : Buffer :=
  ops.foldl (fun b op => (b.step op).1) b

end Redact
