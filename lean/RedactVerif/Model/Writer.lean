import RedactVerif.Model.Buffer
/-
L1: the SafeWriter call alphabet and its three implementations:
`builder.StringBuilder` (builder/builder.go), the printer's adapter
(`internal/rfmt/printer_adapter.go`, restorers of helpers.go) and the raw
`Buffer` API (ManualBuffer).

Numeric safe calls (`SafeInt/SafeUint/SafeFloat`) carry their rendering as
payload (an oracle leaf: digits come from strconv); `print r` carries the
finished redactable that the inner print call produces (builder route: the
inner printer's output is written in raw mode).
-/
namespace Redact

inductive WOp where
  | safeString (p : List Byte)     -- SafeString, SafeBytes
  | safeByte (x : Byte)
  | safeRune (r : Int)
  | safeNum (p : List Byte)        -- SafeInt / SafeUint / SafeFloat, rendered
  | unsafeString (p : List Byte)   -- UnsafeString, UnsafeBytes, Write, WriteString
  | unsafeByte (x : Byte)          -- UnsafeByte, WriteByte
  | unsafeRune (r : Int)           -- UnsafeRune, WriteRune
  | print (r : List Byte)          -- Print / Printf whose inner result is `r`
deriving Repr, Inhabited

/-- builder.StringBuilder: set the mode, then delegate. -/
def builderOps : WOp → List Op
  | .safeString p => [.setMode .safeEsc, .write p]
  | .safeByte x => [.setMode .safeEsc, .writeByte x]
  | .safeRune r => [.setMode .safeEsc, .writeRune r]
  | .safeNum p => [.setMode .safeEsc, .write p]
  | .unsafeString p => [.setMode .unsafeEsc, .write p]
  | .unsafeByte x => [.setMode .unsafeEsc, .writeByte x]
  | .unsafeRune r => [.setMode .unsafeEsc, .writeRune r]
  | .print r => [.setMode .raw, .write r]

def builderRun (b : Buffer) (ws : List WOp) : Buffer :=
  b.run (ws.flatMap builderOps)

inductive Override where
  | no
  | ovSafe
  | ovUnsafe
deriving DecidableEq, Repr, Inhabited

/-- The part of `pp` the adapter touches. -/
structure PPB where
  buf : Buffer := {}
  override : Override := .no
deriving Repr, Inhabited

namespace PPB

/-- `restorer`: previous mode and previous override. -/
structure Restorer where
  prevMode : Mode
  prevOverride : Override

def restore (p : PPB) (r : Restorer) : PPB :=
  { buf := p.buf.setMode r.prevMode, override := r.prevOverride }

def startUnsafe (p : PPB) : PPB × Restorer :=
  let r := { prevMode := p.buf.mode, prevOverride := p.override }
  (if p.override ≠ .ovSafe then { p with buf := p.buf.setMode .unsafeEsc } else p, r)

def startPreRedactable (p : PPB) : PPB × Restorer :=
  let r := { prevMode := p.buf.mode, prevOverride := p.override }
  (if p.override ≠ .ovUnsafe then { p with buf := p.buf.setMode .raw } else p, r)

def startSafeOverride (p : PPB) : PPB × Restorer :=
  let r := { prevMode := p.buf.mode, prevOverride := p.override }
  (if p.override = .no then { buf := p.buf.setMode .safeEsc, override := .ovSafe } else p, r)

def startUnsafeOverride (p : PPB) : PPB × Restorer :=
  let r := { prevMode := p.buf.mode, prevOverride := p.override }
  (if p.override = .no then { buf := p.buf.setMode .unsafeEsc, override := .ovUnsafe } else p, r)

def onBuf (p : PPB) (f : Buffer → Buffer) : PPB := { p with buf := f p.buf }

end PPB

/-- printer_adapter.go: each call is bracketed by a `start*` and its `restore`.
`print r` is not interpreted here (nested printers belong to the printer
model, L2). -/
def adapterStep (p : PPB) : WOp → PPB
  | .safeString s => let (q, r) := p.startSafeOverride; (q.onBuf (·.write s)).restore r
  | .safeByte x => let (q, r) := p.startSafeOverride; (q.onBuf (·.writeByte x)).restore r
  | .safeRune x => let (q, r) := p.startSafeOverride; (q.onBuf (·.writeRune x)).restore r
  | .safeNum s =>
    -- SafeInt: startSafeOverride, then fmtInteger → startUnsafe (no effect under overrideSafe)
    let (q, r) := p.startSafeOverride
    let (q2, r2) := q.startUnsafe
    ((q2.onBuf (·.write s)).restore r2).restore r
  | .unsafeString s => let (q, r) := p.startUnsafe; (q.onBuf (·.write s)).restore r
  | .unsafeByte x => let (q, r) := p.startUnsafe; (q.onBuf (·.writeByte x)).restore r
  | .unsafeRune x => let (q, r) := p.startUnsafe; (q.onBuf (·.writeRune x)).restore r
  | .print _ => p

def adapterRun (p : PPB) (ws : List WOp) : PPB := ws.foldl adapterStep p

end Redact
