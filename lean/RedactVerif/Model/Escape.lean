import RedactVerif.Model.Bytes
import RedactVerif.Model.Utf8
/-
L1: `internal/escape/escape.go`, `InternalEscapeBytes(b, startLoc, breakNewLines, strip)`.

`escGo` is the Go loop with the lazy-copy bookkeeping (`k`, `copied`) removed:
the Go loop maintains "effective output so far = res ++ b[k:i]"; here that is
the accumulator `out`. A run of line feeds is processed one line feed at a
time, which yields the same bytes as Go's whole-run treatment (the second line
feed of a run finds the start marker just appended, drops it, and re-appends it
after itself). `Model/EscapeLoop.lean` has the index-level transcription.
-/
namespace Redact

def hasSuffix (l suf : List Byte) : Bool := suf.isSuffixOf l

def dropLast (n : Nat) (l : List Byte) : List Byte := l.take (l.length - n)

/-- The scanner, byte level. `out` = output so far (initially the already
validated prefix), second argument = the not yet escaped bytes. -/
def escGo (nl : Bool) : List Byte → List Byte → List Byte
  | out, [] => out
  | out, 0xE2 :: 0x80 :: 0xB9 :: r => escGo nl (out ++ escB) r
  | out, 0xE2 :: 0x80 :: 0xBA :: r => escGo nl (out ++ escB) r
  | out, x :: r =>
    if nl && x == LF then
      let out' := if hasSuffix out startB then dropLast 3 out else out ++ endB
      escGo nl (out' ++ [LF] ++ startB) r
    else escGo nl (out ++ [x]) r

/-- Token-level specification of the scanner: marker tokens become `?`; with
`nl`, each line feed closes the envelope before it (or drops a start marker
that immediately precedes it) and reopens it afterwards. -/
def escTok (nl : Bool) : List Tok → List Tok → List Tok
  | out, [] => out
  | out, .s :: r => escTok nl (out ++ [.b 0x3F]) r
  | out, .e :: r => escTok nl (out ++ [.b 0x3F]) r
  | out, .b x :: r =>
    if nl && x == LF then
      let out' := if out.getLast? = some .s then out.dropLast else out ++ [.e]
      escTok nl (out' ++ [.b LF, .s]) r
    else escTok nl (out ++ [.b x]) r

/-- A marker would be formed across the boundary between `a` and `b`. -/
def straddles (a b : List Byte) : Bool :=
  match a.reverse, b with
  | 0xE2 :: _, 0x80 :: 0xB9 :: _ => true
  | 0xE2 :: _, 0x80 :: 0xBA :: _ => true
  | 0x80 :: 0xE2 :: _, 0xB9 :: _ => true
  | 0x80 :: 0xE2 :: _, 0xBA :: _ => true
  | _, _ => false

/-- Trailing line feeds and spaces removed, never reaching below `startLoc`. -/
def trimTail (b : List Byte) (startLoc : Nat) : List Byte :=
  let pre := b.take startLoc
  let suf := b.drop startLoc
  pre ++ (suf.reverse.dropWhile (fun x => x == LF || x == 0x20)).reverse

/-- `InternalEscapeBytes`. Precondition of the Go code: `startLoc ≤ len(b)`
(otherwise Go panics or misbehaves; the model then treats the whole input as
prefix). -/
def escapeBytesAt (b : List Byte) (startLoc : Nat) (nl strip : Bool) : List Byte :=
  let b := if strip then trimTail b startLoc else b
  let out := escGo nl (b.take startLoc) (b.drop startLoc)
  if tailBad b then out ++ escB else out

/-- `rfmt.EscapeBytes` (helpers.go). -/
def escapeBytes (s : List Byte) : List Byte :=
  escapeBytesAt (startB ++ s) 3 true false ++ endB

end Redact
