import RedactVerif.Proofs.Clean
/-
Two runs of the printer on the same format and operands that differ in the *classification state*
they run under (override in force, buffer mode, where envelopes were opened) read the same once
markers are stripped. By induction on the fuel over all 21 functions, following the shape shared by
the two runs (as in `Equivar.lean`), with `KInv` (Proofs/Plain.lean) supplying what each buffer reads
as: the relation is "both buffers are clean and have the same stripped reading".

Instantiated with a second run that starts under a safe override, in which every write is appended
verbatim to the pending bytes (Proofs/S), this says: with markers stripped, the output is the text
the same printer writes when nothing is classified, with markers replaced by `?` — C04 on the model.

THIS FILE is the variant for fmt-only values *with* `Unsafe(…)` wrappers (derived from Erase.lean by
hand): the relation no longer constrains the overrides at all — one run may be under an unsafe
override while the other is not — and in exchange the operands have no redact-specific dispatch
(no SafeFormatter, no SafeMessager, no error hook, no RedactableString/Bytes), so that the two runs
still execute the same program. Hypotheses are otherwise those of `Clean.lean` (valid UTF-8 format, renderings and payloads ending in complete
characters) plus: no `Unsafe(…)` wrapper among the operands (under it the redact-specific dispatch is
skipped, so the two runs would not execute the same program).
-/
namespace Redact
namespace ErU

/-- Both buffers are clean and read the same with markers stripped. -/
def BR (b b' : Buffer) : Prop := ∃ acc d d', KInv b acc d ∧ KInv b' acc d'

theorem BR.setMode {b b' : Buffer} (h : BR b b') (m m' : Mode) : BR (b.setMode m) (b'.setMode m') := by
  obtain ⟨a, d, d', k, k'⟩ := h
  exact ⟨a, d, d', setMode_K b m a d k, setMode_K b' m' a d' k'⟩

theorem pendPlainT_esc {m : Mode} (hm : m ≠ .raw) (s : List Byte) : pendPlainT m s = escT (tokenize s) := by
  unfold pendPlainT; rw [if_neg hm]

theorem BR.write {b b' : Buffer} (h : BR b b') (hm : b.mode ≠ .raw) (hm' : b'.mode ≠ .raw) {s : List Byte}
    (hs : EndsRune s) : BR (b.write s) (b'.write s) := by
  obtain ⟨a, d, d', k, k'⟩ := h
  have k1 := write_K b s a d k (fun h => absurd h hm) (fun _ => hs)
  have k2 := write_K b' s a d' k' (fun h => absurd h hm') (fun _ => hs)
  rw [pendPlainT_esc hm] at k1
  rw [pendPlainT_esc hm'] at k2
  exact ⟨_, _, _, k1, k2⟩

theorem BR.writeRaw {b b' : Buffer} (h : BR b b') (hm : b.mode = .raw) (hm' : b'.mode = .raw) {s : List Byte}
    (hs : Obtainable s ∧ RuneEnd (tokenize s)) : BR (b.write s) (b'.write s) := by
  obtain ⟨a, d, d', k, k'⟩ := h
  have k1 := write_K b s a d k (fun _ => hs) (fun h => absurd hm h)
  have k2 := write_K b' s a d' k' (fun _ => hs) (fun h => absurd hm' h)
  have e1 : pendPlainT b.mode s = stripT (tokenize s) := by unfold pendPlainT; rw [if_pos hm]
  have e2 : pendPlainT b'.mode s = stripT (tokenize s) := by unfold pendPlainT; rw [if_pos hm']
  rw [e1] at k1
  rw [e2] at k2
  exact ⟨_, _, _, k1, k2⟩

/-- The two printers agree on everything the program looks at except the override and the buffer;
neither is under an unsafe override; both buffers are clean, in an escaping mode, and read the same
with markers stripped. -/
structure ER (p p' : PP) : Prop where
  f : p'.f = p.f
  erroring : p'.erroring = p.erroring
  panicking : p'.panicking = p.panicking
  wrapErrs : p'.wrapErrs = p.wrapErrs
  wrappedErr : p'.wrappedErr = p.wrappedErr
  reordered : p'.reordered = p.reordered
  goodArgNum : p'.goodArgNum = p.goodArgNum
  mode : p.buf.mode ≠ .raw
  mode' : p'.buf.mode ≠ .raw
  br : BR p.buf p'.buf

theorem ER.w {p p' : PP} (h : ER p p') {s : List Byte} (hs : EndsRune s) : ER (p.w s) (p'.w s) :=
  { h with
    mode := by show (p.buf.write s).mode ≠ _; rw [write_mode]; exact h.mode
    mode' := by show (p'.buf.write s).mode ≠ _; rw [write_mode]; exact h.mode'
    br := h.br.write h.mode h.mode' hs }

theorem ER.wa {p p' : PP} (h : ER p p') {s : List Byte} (hs : Asc s) : ER (p.w s) (p'.w s) := h.w (endsRune_of_asc hs)

theorem ER.wr {p p' : PP} (h : ER p p') (r : Int) : ER (p.wr r) (p'.wr r) := by
  have e : p.wr r = p.w (encodeRune r) := rfl
  have e' : p'.wr r = p'.w (encodeRune r) := rfl
  rw [e, e']; exact h.w (endsRune_encodeRune r)

theorem ER.wb {p p' : PP} (h : ER p p') {c : Byte} (hc : c < 0x80) : ER (p.wb c) (p'.wb c) := by
  obtain ⟨a, d, d', k, k'⟩ := h.br
  have e : p.wb c = p.w [c] := by
    show ({ p with buf := p.buf.writeByte c } : PP) = { p with buf := p.buf.write [c] }
    rw [writeByte_ascii' p.buf c k.inv hc]
  have e' : p'.wb c = p'.w [c] := by
    show ({ p' with buf := p'.buf.writeByte c } : PP) = { p' with buf := p'.buf.write [c] }
    rw [writeByte_ascii' p'.buf c k'.inv hc]
  rw [e, e']
  exact h.w (endsRune_of_asc (fun x hx => by simp only [List.mem_singleton] at hx; rw [hx]; exact hc))

theorem ER.setErroring {p p' : PP} (h : ER p p') (e : Bool) : ER { p with erroring := e } { p' with erroring := e } :=
  { h with erroring := rfl }
theorem ER.setF {p p' : PP} (h : ER p p') (g : FmtS) : ER { p with f := g } { p' with f := g } :=
  { h with f := rfl }
theorem ER.setPanicking {p p' : PP} (h : ER p p') (e : Bool) : ER { p with panicking := e } { p' with panicking := e } :=
  { h with panicking := rfl }
theorem ER.setWrapped {p p' : PP} (h : ER p p') (w : Option Nat) (e : Bool) :
    ER { p with wrappedErr := w, wrapErrs := e } { p' with wrappedErr := w, wrapErrs := e } :=
  { h with wrappedErr := rfl, wrapErrs := rfl }
theorem ER.setWrappedErr {p p' : PP} (h : ER p p') (w : Option Nat) :
    ER { p with wrappedErr := w } { p' with wrappedErr := w } :=
  { h with wrappedErr := rfl }
theorem ER.setReordered {p p' : PP} (h : ER p p') (e : Bool) : ER { p with reordered := e } { p' with reordered := e } :=
  { h with reordered := rfl }
theorem ER.setGood {p p' : PP} (h : ER p p') (e : Bool) : ER { p with goodArgNum := e } { p' with goodArgNum := e } :=
  { h with goodArgNum := rfl }
theorem er_ite {c : Prop} [Decidable c] {a b a' b' : PP} (ha : ER a a') (hb : ER b b') :
    ER (if c then a else b) (if c then a' else b') := by
  split <;> assumption

/-- The nested printer of `SafePrinter.Print/Printf`: a fresh printer sharing buffer and override. -/
theorem ER.nested {p p' : PP} (h : ER p p') :
    ER ({ buf := p.buf, override := p.override } : PP) ({ buf := p'.buf, override := p'.override } : PP) :=
  ⟨rfl, rfl, rfl, rfl, rfl, rfl, rfl, h.mode, h.mode', h.br⟩

/-- The nested printer hands the buffer back. -/
theorem ER.handBack {p p' : PP} (h : ER p p') {b b' : Buffer} (hb : BR b b') :
    ER { p with buf := b.setMode p.buf.mode } { p' with buf := b'.setMode p'.buf.mode } :=
  { h with
    mode := by show (b.setMode p.buf.mode).mode ≠ _; rw [setMode_mode]; exact h.mode
    mode' := by show (b'.setMode p'.buf.mode).mode ≠ _; rw [setMode_mode]; exact h.mode'
    br := hb.setMode _ _ }

/-- `doPrint`/`doPrintf` select safe mode (neither run is under an unsafe override). -/
theorem er_setSafe {p p' : PP} (h : ER p p') :
    ER (if p.override ≠ .ovUnsafe then { p with buf := p.buf.setMode .safeEsc } else p)
      (if p'.override ≠ .ovUnsafe then { p' with buf := p'.buf.setMode .safeEsc } else p') := by
  have hm : ∀ (q : PP), (q.buf.setMode .safeEsc).mode ≠ .raw := fun q => by rw [setMode_mode]; decide
  by_cases h1 : p.override ≠ .ovUnsafe <;> by_cases h2 : p'.override ≠ .ovUnsafe
  · rw [if_pos h1, if_pos h2]; exact { h with mode := hm p, mode' := hm p', br := h.br.setMode _ _ }
  · rw [if_pos h1, if_neg h2]; exact { h with mode := hm p, br := by have := h.br.setMode .safeEsc p'.buf.mode; rwa [setMode_same _ _ rfl] at this }
  · rw [if_neg h1, if_pos h2]; exact { h with mode' := hm p', br := by have := h.br.setMode p.buf.mode .safeEsc; rwa [setMode_same _ _ rfl] at this }
  · rw [if_neg h1, if_neg h2]; exact h

/-! ### Values without an `Unsafe(…)` wrapper, otherwise clean as in `Clean.lean` -/

mutual
def ValE : Val → Prop
  | .nil => True
  | .leaf _ _ ty _ _ _ => Asc ty
  | .safeW v => ValE v
  | .unsafeW v => ValE v
  | .redactable _ _ => False
  | .meth ms ty _ _ _ _ sc under => (Asc ty ∧ ms.safeFormatter = false ∧ ms.safeMessager = false) ∧ ScriptE sc ∧ ValE under
  | .slice ty _ _ es => Asc ty ∧ ValsE es
  | .map ty _ _ _ ks vs => Asc ty ∧ ValsE ks ∧ ValsE vs
  | .struct ty _ fs => Asc ty ∧ FieldsE fs
  | .ptrTo ty v => Asc ty ∧ ValE v
def ValsE : Vals → Prop
  | .nil => True
  | .cons v r => ValE v ∧ ValsE r
def FieldsE : Fields → Prop
  | .nil => True
  | .cons name _ _ v r => EndsRune name ∧ ValE v ∧ FieldsE r
def ScriptE : Script → Prop
  | .done => True
  | .safeString s k => EndsRune s ∧ ScriptE k
  | .unsafeString s k => EndsRune s ∧ ScriptE k
  | .safeRune _ k => ScriptE k
  | .write s k => EndsRune s ∧ ScriptE k
  | .unsafeLeaf _ k => ScriptE k
  | .print args k => ValsE args ∧ ScriptE k
  | .printf f args k => FmtCl f ∧ ValsE args ∧ ScriptE k
  | .indep k => ScriptE k
  | .panic payload => ValE payload
end

def ListE (l : List Val) : Prop := ∀ v ∈ l, ValE v

theorem listE_of_valsE : (vs : Vals) → ValsE vs → ListE vs.toList
  | .nil, _ => by intro v hv; simp [Vals.toList] at hv
  | .cons x r, h => by
    intro v hv
    simp only [Vals.toList, List.mem_cons] at hv
    rcases hv with rfl | hv
    · exact h.1
    · exact listE_of_valsE r h.2 v hv

theorem listE_tail {a : Val} {l : List Val} (h : ListE (a :: l)) : ValE a ∧ ListE l :=
  ⟨h a (by simp), fun v hv => h v (by simp [hv])⟩
theorem listE_drop {l : List Val} (h : ListE l) (k : Nat) : ListE (l.drop k) :=
  fun v hv => h v (List.mem_of_mem_drop hv)
theorem listE_get {args : List Val} (ha : ListE args) {k : Nat} {a : Val} (h : args[k]? = some a) : ValE a :=
  ha a (List.mem_of_getElem? h)

structure EnvE (env : Env) : Prop where
  render : ∀ id d s, env.render id d = some s → EndsRune s
  hook : env.hook = none

theorem asc_typeNameE : (v : Val) → ValE v → Asc (typeName v)
  | .nil, _ => asc_nil
  | .leaf _ _ ty _ _ _, h => h
  | .safeW _, _ => by simp only [typeName]; exact asc_of_all (by decide)
  | .unsafeW _, _ => by simp only [typeName]; exact asc_of_all (by decide)
  | .redactable _ _, h => h.elim
  | .meth _ ty _ _ _ _ _ _, h => h.1.1
  | .slice ty _ _ _, h => h.1
  | .map ty _ _ _ _ _, h => h.1
  | .struct ty _ _, h => h.1
  | .ptrTo ty _, h => h.1

/-! ### Results -/

inductive RelR : Res → Res → Prop
  | ok {q q' : PP} : ER q q' → RelR (.ok q) (.ok q')
  | panic {b b' : Buffer} {pl : Val} : BR b b' → ValE pl → RelR (.panic b pl) (.panic b' pl)
  | fuel : RelR .fuel .fuel
  | unsupported : RelR .unsupported .unsupported

inductive RelS : SRes → SRes → Prop
  | ok {q q' : PP} : ER q q' → RelS (.ok q) (.ok q')
  | raised {q q' : PP} {pl : Val} : ER q q' → ValE pl → RelS (.raised q pl) (.raised q' pl)
  | abort {r r' : Res} : RelR r r' → RelS (.abort r) (.abort r')

structure RelH (a a' : Bool × Res) : Prop where
  fst : a'.1 = a.1
  snd : RelR a.2 a'.2

theorem rel_ok {q q' : PP} (h : ER q q') : RelR (.ok q) (.ok q') := .ok h
theorem relH_mk {b : Bool} {r r' : Res} (h : RelR r r') : RelH (b, r) (b, r') := ⟨rfl, h⟩
theorem relH_tt {r r' : Res} (h : RelH (true, r) (true, r')) : RelR r r' := h.snd
theorem relH_ne {b b' : Bool} {r r' : Res} (h : RelH (b, r) (b', r')) (hne : b' ≠ b) : False := hne h.fst

theorem rel_bind {a a' : Res} {k k' : PP → Res} (h : RelR a a') (hk : ∀ q q', ER q q' → RelR (k q) (k' q')) :
    RelR (a.bind k) (a'.bind k') := by
  cases h with
  | ok hq => exact hk _ _ hq
  | panic hb hpl => exact .panic hb hpl
  | fuel => exact .fuel
  | unsupported => exact .unsupported

theorem rel_ite {c : Prop} [Decidable c] {a b a' b' : Res} (ha : RelR a a') (hb : RelR b b') :
    RelR (if c then a else b) (if c then a' else b') := by
  split <;> assumption
theorem rel_ite_h {c : Prop} [Decidable c] {a b a' b' : Bool × Res} (ha : RelH a a') (hb : RelH b b') :
    RelH (if c then a else b) (if c then a' else b') := by
  split <;> assumption
theorem rel_ite_s {c : Prop} [Decidable c] {a b a' b' : SRes} (ha : RelS a a') (hb : RelS b b') :
    RelS (if c then a else b) (if c then a' else b') := by
  split <;> assumption

/-- What the three restorers that select an escaping mode do to a related pair. -/
structure StartER (start : PP → PP × PP.Restorer) : Prop where
  st : ∀ p p', ER p p' → ER (start p).1 (start p').1 ∧
    (start p).2 = ⟨p.buf.mode, p.override⟩ ∧ (start p').2 = ⟨p'.buf.mode, p'.override⟩

theorem ER.restore {p p' q q' : PP} (h : ER p p') (hq : ER q q') :
    ER (q.restore ⟨p.buf.mode, p.override⟩) (q'.restore ⟨p'.buf.mode, p'.override⟩) :=
  { hq with
    mode := by show (q.buf.setMode p.buf.mode).mode ≠ _; rw [setMode_mode]; exact h.mode
    mode' := by show (q'.buf.setMode p'.buf.mode).mode ≠ _; rw [setMode_mode]; exact h.mode'
    br := hq.br.setMode _ _ }

theorem rel_bracket {start : PP → PP × PP.Restorer} (hs : StartER start) {p p' : PP} (h : ER p p')
    {body body' : PP → Res} (hb : ∀ q q', ER q q' → RelR (body q) (body' q')) :
    RelR (bracket start p body) (bracket start p' body') := by
  unfold bracket
  have ⟨h1, h2, h3⟩ := hs.st p p' h
  generalize start p = sp at h1 h2
  generalize start p' = sp' at h1 h3
  obtain ⟨q0, r⟩ := sp
  obtain ⟨q0', r'⟩ := sp'
  simp only at h1 h2 h3 ⊢
  subst h2 h3
  have := hb q0 q0' h1
  generalize body q0 = x at this
  generalize body' q0' = x' at this
  cases this with
  | ok hq => exact .ok (h.restore hq)
  | panic hbb hpl => exact .panic (hbb.setMode _ _) hpl
  | fuel => exact .fuel
  | unsupported => exact .unsupported

theorem startER_safeOverride : StartER PP.startSafeOverride := by
  constructor
  intro p p' h
  unfold PP.startSafeOverride
  refine ⟨?_, rfl, rfl⟩
  have hm : ∀ (q : PP), (q.buf.setMode .safeEsc).mode ≠ .raw := fun q => by rw [setMode_mode]; decide
  by_cases h1 : p.override = .no <;> by_cases h2 : p'.override = .no <;> simp only [h1, h2, if_true, if_false]
  · exact { h with mode := hm p, mode' := hm p', br := h.br.setMode _ _ }
  · exact { h with mode := hm p, br := by have := h.br.setMode .safeEsc p'.buf.mode; rwa [setMode_same _ _ rfl] at this }
  · exact { h with mode' := hm p', br := by have := h.br.setMode p.buf.mode .safeEsc; rwa [setMode_same _ _ rfl] at this }
  · exact h

theorem startER_unsafe : StartER PP.startUnsafe := by
  constructor
  intro p p' h
  unfold PP.startUnsafe
  refine ⟨?_, rfl, rfl⟩
  have hm : ∀ (q : PP), (q.buf.setMode .unsafeEsc).mode ≠ .raw := fun q => by rw [setMode_mode]; decide
  by_cases h1 : p.override = .ovSafe <;> by_cases h2 : p'.override = .ovSafe <;>
    simp only [h1, h2, ne_eq, not_true_eq_false, not_false_eq_true, if_true, if_false]
  · exact h
  · exact { h with mode' := hm p', br := by have := h.br.setMode p.buf.mode .unsafeEsc; rwa [setMode_same _ _ rfl] at this }
  · exact { h with mode := hm p, br := by have := h.br.setMode .unsafeEsc p'.buf.mode; rwa [setMode_same _ _ rfl] at this }
  · exact { h with mode := hm p, mode' := hm p', br := h.br.setMode _ _ }

theorem startER_unsafeOverride : StartER PP.startUnsafeOverride := by
  constructor
  intro p p' h
  unfold PP.startUnsafeOverride
  refine ⟨?_, rfl, rfl⟩
  have hm : ∀ (q : PP), (q.buf.setMode .unsafeEsc).mode ≠ .raw := fun q => by rw [setMode_mode]; decide
  by_cases h1 : p.override = .no <;> by_cases h2 : p'.override = .no <;> simp only [h1, h2, if_true, if_false]
  · exact { h with mode := hm p, mode' := hm p', br := h.br.setMode _ _ }
  · exact { h with mode := hm p, br := by have := h.br.setMode .unsafeEsc p'.buf.mode; rwa [setMode_same _ _ rfl] at this }
  · exact { h with mode' := hm p', br := by have := h.br.setMode p.buf.mode .unsafeEsc; rwa [setMode_same _ _ rfl] at this }
  · exact h


/-- Same buffers and overrides as in `h`; the other fields agree by `rfl` or by `h`. -/
macro "erc " h:ident : tactic => `(tactic| exact ER.mk
  (by first | rfl | exact ($h).f) (by first | rfl | exact ($h).erroring) (by first | rfl | exact ($h).panicking)
  (by first | rfl | exact ($h).wrapErrs) (by first | rfl | exact ($h).wrappedErr) (by first | rfl | exact ($h).reordered)
  (by first | rfl | exact ($h).goodArgNum) ($h).mode ($h).mode' ($h).br)

theorem argNumber_er {p p' : PP} (h : ER p p') (k : Nat) (f : List Byte) (n : Nat) :
    ER (argNumber p k f n).1 (argNumber p' k f n).1 ∧ (argNumber p' k f n).2 = (argNumber p k f n).2 := by
  unfold argNumber
  repeat' split
  all_goals first
    | exact ⟨h, rfl⟩
    | exact ⟨h.setReordered true, rfl⟩
    | exact ⟨(h.setReordered true).setGood false, rfl⟩

theorem widthStage_er {p p' : PP} (h : ER p p') (args : List Val) (k : Nat) (r : List Byte) (ai : Bool) :
    ER (widthStage p args k r ai).1 (widthStage p' args k r ai).1 ∧ (widthStage p' args k r ai).2 = (widthStage p args k r ai).2 := by
  unfold widthStage
  split
  · dsimp only
    generalize intFromArg args k = ifa
    obtain ⟨num, isInt, newArg⟩ := ifa
    dsimp only
    refine ⟨?_, rfl⟩
    rw [h.f]
    have h1 : ER ({ p with f := { p.f with wid := num.toNat, widPresent := isInt } } : PP)
        ({ p' with f := { p.f with wid := num.toNat, widPresent := isInt } } : PP) := h.setF _
    have h2 : ER (if (!isInt) = true then ({ p with f := { p.f with wid := num.toNat, widPresent := isInt } } : PP).w
        ([0x25, 0x21, 0x28, 0x42, 0x41, 0x44, 0x57, 0x49, 0x44, 0x54, 0x48, 0x29] /- "%!(BADWIDTH)" -/ : List UInt8)
        else { p with f := { p.f with wid := num.toNat, widPresent := isInt } })
        (if (!isInt) = true then ({ p' with f := { p.f with wid := num.toNat, widPresent := isInt } } : PP).w
        ([0x25, 0x21, 0x28, 0x42, 0x41, 0x44, 0x57, 0x49, 0x44, 0x54, 0x48, 0x29] /- "%!(BADWIDTH)" -/ : List UInt8)
        else { p' with f := { p.f with wid := num.toNat, widPresent := isInt } }) :=
      er_ite (h1.wa (asc_of_all (by decide))) h1
    generalize (if (!isInt) = true then ({ p with f := { p.f with wid := num.toNat, widPresent := isInt } } : PP).w
        ([0x25, 0x21, 0x28, 0x42, 0x41, 0x44, 0x57, 0x49, 0x44, 0x54, 0x48, 0x29] /- "%!(BADWIDTH)" -/ : List UInt8)
        else { p with f := { p.f with wid := num.toNat, widPresent := isInt } }) = q at h2 ⊢
    generalize (if (!isInt) = true then ({ p' with f := { p.f with wid := num.toNat, widPresent := isInt } } : PP).w
        ([0x25, 0x21, 0x28, 0x42, 0x41, 0x44, 0x57, 0x49, 0x44, 0x54, 0x48, 0x29] /- "%!(BADWIDTH)" -/ : List UInt8)
        else { p' with f := { p.f with wid := num.toNat, widPresent := isInt } }) = q' at h2 ⊢
    rw [h2.f]
    exact er_ite (h2.setF _) h2
  · dsimp only
    rw [h.f]
    refine ⟨?_, rfl⟩
    split <;> erc h

theorem precStage_er {p p' : PP} (h : ER p p') (args : List Val) (k : Nat) (r : List Byte) (ai : Bool) :
    ER (precStage p args k r ai).1 (precStage p' args k r ai).1 ∧ (precStage p' args k r ai).2 = (precStage p args k r ai).2 := by
  unfold precStage
  split
  · rename_i c r''
    dsimp only
    have g1 : ER (if ai = true then { p with goodArgNum := false } else p) (if ai = true then { p' with goodArgNum := false } else p') := by
      split
      · erc h
      · exact h
    generalize (if ai = true then { p with goodArgNum := false } else p) = px at g1 ⊢
    generalize (if ai = true then { p' with goodArgNum := false } else p') = px' at g1 ⊢
    have ⟨g2, g3⟩ := argNumber_er g1 k (c :: r'') args.length
    generalize argNumber px k (c :: r'') args.length = an at g2 g3 ⊢
    generalize argNumber px' k (c :: r'') args.length = an' at g2 g3 ⊢
    obtain ⟨py, ky, ry, aiy⟩ := an
    obtain ⟨py', ky', ry', aiy'⟩ := an'
    simp only [Prod.mk.injEq] at g2 g3
    obtain ⟨rfl, rfl, rfl⟩ := g3
    dsimp only
    split
    · dsimp only
      generalize intFromArg args ky' = ifa
      obtain ⟨num, isInt, newArg⟩ := ifa
      dsimp only
      generalize (if num < 0 then ((0 : Nat), false) else (num.toNat, isInt)) = pp
      obtain ⟨prec, precPresent⟩ := pp
      dsimp only
      refine ⟨?_, rfl⟩
      rw [g2.f]
      have h1 : ER ({ py with f := { py.f with prec := prec, precPresent := precPresent } } : PP)
          ({ py' with f := { py.f with prec := prec, precPresent := precPresent } } : PP) := by erc g2
      exact er_ite (h1.wa (asc_of_all (by decide))) h1
    · dsimp only
      generalize parsenum ry' = pn
      obtain ⟨pr, ppres, r3⟩ := pn
      dsimp only
      refine ⟨?_, rfl⟩
      rw [g2.f]
      erc g2
  · exact ⟨h, rfl⟩


theorem rel_leafWrite {env : Env} (he : EnvE env) {p p' : PP} (h : ER p p') (id verb : Nat) (k : BK) {ty : List Byte} (hty : Asc ty) :
    RelR (leafWrite env p id verb k ty) (leafWrite env p' id verb k ty) := by
  unfold leafWrite leafWrite1
  rw [h.f]
  split
  · exact rel_ok (h.wa (asc_append (asc_append (asc_of_all (by decide)) hty) (asc_of_all (by decide))))
  · split
    · exact .unsupported
    · split
      · exact .unsupported
      · rename_i d _ bytes hb
        exact rel_bracket startER_unsafe h (fun q q' hq => rel_ok (hq.w (he.render _ _ _ hb)))

theorem rel_retOut (nr : Bool) {p p' : PP} (hp : ER p p') (sc : Script) (hsc : ScriptE sc) {r r' : Res} (h : RelR r r') :
    RelS (retOut nr p sc r) (retOut nr p' sc r') := by
  unfold retOut
  split
  · exact .raised hp trivial
  · split
    · exact .raised hp (by simpa [ScriptE] using hsc)
    · exact .abort h

theorem rel_raised_or {nr : Bool} {p p' : PP} (hp : ER p p') {a a' : SRes} (h : RelS a a') :
    RelS (if nr = true then SRes.raised p .nil else a) (if nr = true then SRes.raised p' .nil else a') := by
  split
  · exact .raised hp trivial
  · exact h

/-! ### Through the printer -/

structure ESpec (env : Env) (n : Nat) : Prop where
  printArg : ∀ p p' v verb, ER p p' → ValE v → RelR (printArg env n p v verb) (printArg env n p' v verb)
  printArgBody : ∀ p p' v verb, ER p p' → ValE v → RelR (printArgBody env n p v verb) (printArgBody env n p' v verb)
  badVerb : ∀ p p' v verb via, ER p p' → ValE v → RelR (badVerb env n p v verb via) (badVerb env n p' v verb via)
  handleMethods : ∀ p p' v verb, ER p p' → ValE v → RelH (handleMethods env n p v verb) (handleMethods env n p' v verb)
  methDispatch : ∀ p p' v ms nr ret sc verb, ER p p' → ValE v → ScriptE sc → ms.safeFormatter = false → ms.safeMessager = false →
    RelH (methDispatch env n p v ms nr ret sc verb) (methDispatch env n p' v ms nr ret sc verb)
  fmtString : ∀ p p' v ret verb, ER p p' → ValE v → RelR (fmtString env n p v ret verb) (fmtString env n p' v ret verb)
  catchPanic : ∀ (p0 p0' : PP) (arg : Val) (verb : Nat) (m : List Byte) (nr : Bool) (out out' : SRes), Asc m → RelS out out' →
    RelR (catchPanic env n p0 arg verb m nr out) (catchPanic env n p0' arg verb m nr out')
  runScript : ∀ p p' sc, ER p p' → ScriptE sc → RelS (runScript env n p sc) (runScript env n p' sc)
  printValue : ∀ p p' v verb d ro, ER p p' → ValE v → RelR (printValue env n p v verb d ro) (printValue env n p' v verb d ro)
  printSlot : ∀ p p' v verb d i ro, ER p p' → ValE v → RelR (printSlot env n p v verb d i ro) (printSlot env n p' v verb d i ro)
  slotMethods : ∀ p p' v verb, ER p p' → ValE v → RelH (slotMethods env n p v verb) (slotMethods env n p' v verb)
  printFields : ∀ p p' fs verb d ro f, ER p p' → FieldsE fs →
    RelR (printFields env n p fs verb d ro f) (printFields env n p' fs verb d ro f)
  printElems : ∀ p p' vs verb d i ro f, ER p p' → ValsE vs →
    RelR (printElems env n p vs verb d i ro f) (printElems env n p' vs verb d i ro f)
  printPairs : ∀ p p' ks vs verb d ik iv ro f, ER p p' → ValsE ks → ValsE vs →
    RelR (printPairs env n p ks vs verb d ik iv ro f) (printPairs env n p' ks vs verb d ik iv ro f)
  doPrint : ∀ p p' args, ER p p' → ListE args → RelR (doPrint env n p args) (doPrint env n p' args)
  doPrintLoop : ∀ p p' args k ps, ER p p' → ListE args → RelR (doPrintLoop env n p args k ps) (doPrintLoop env n p' args k ps)
  doPrintf : ∀ p p' f args, ER p p' → FmtCl f → ListE args → RelR (doPrintf env n p f args) (doPrintf env n p' f args)
  fmtLoop : ∀ p p' f args k ai, ER p p' → FmtCl f → ListE args → RelR (fmtLoop env n p f args k ai) (fmtLoop env n p' f args k ai)
  directiveTail : ∀ p p' f args k ai, ER p p' → FmtCl f → ListE args →
    RelR (directiveTail env n p f args k ai) (directiveTail env n p' f args k ai)
  finishPrintf : ∀ p p' args k, ER p p' → ListE args → RelR (finishPrintf env n p args k) (finishPrintf env n p' args k)
  extraLoop : ∀ p p' args f, ER p p' → ListE args → RelR (extraLoop env n p args f) (extraLoop env n p' args f)

theorem espec_zero (env : Env) : ESpec env 0 := by
  constructor <;> intros <;> simp only [printArg, printArgBody, badVerb, handleMethods, methDispatch, fmtString, catchPanic,
    runScript, printValue, printSlot, slotMethods, printFields, printElems, printPairs, doPrint, doPrintLoop,
    doPrintf, fmtLoop, directiveTail, finishPrintf, extraLoop]
  all_goals first
    | exact .fuel
    | exact ⟨rfl, .fuel⟩
    | exact .abort .fuel

variable {env : Env} {n : Nat}

/-- Rewrite the second printer's fields into the first's. -/
macro "eprep " h:ident : tactic => `(tactic|
  try simp only [($h).f, ($h).erroring, ($h).panicking, ($h).wrapErrs, ($h).wrappedErr, ($h).reordered, ($h).goodArgNum])

set_option hygiene false in
/-- Follow the shape shared by the two runs; discharge the side conditions on what is written. -/
macro "rmono" : tactic => `(tactic| repeat' (first
  | exact RelR.fuel
  | exact RelR.unsupported
  | with_reducible assumption
  | with_reducible exact hv.1
  | with_reducible exact hv.2
  | with_reducible exact hv.2.1
  | with_reducible exact hv.2.2
  | with_reducible exact hv.2.2.1
  | with_reducible exact hv.2.2.2
  | with_reducible exact hv.1.1
  | with_reducible exact hv.1.2.1
  | with_reducible exact hv.1.2.2
  | exact asc_of_all (by decide)
  | (show (_ : Byte) < 0x80; decide)
  | (split <;> decide)
  | with_reducible apply rel_ok
  | with_reducible apply ER.wa
  | with_reducible apply ER.wb
  | with_reducible apply ER.wr
  | with_reducible apply er_ite
  | with_reducible apply ER.setErroring
  | with_reducible apply ER.setF
  | with_reducible apply ER.setPanicking
  | with_reducible apply ER.setWrapped
  | with_reducible apply ER.setWrappedErr
  | erc hq
  | erc h
  | with_reducible apply asc_padStr
  | with_reducible apply asc_fmtSAscii
  | with_reducible apply asc_typeNameE
  | with_reducible apply rel_leafWrite he
  | with_reducible apply E.printArg
  | with_reducible apply E.printArgBody
  | with_reducible apply E.badVerb
  | with_reducible apply E.handleMethods
  | with_reducible apply E.methDispatch
  | with_reducible apply E.fmtString
  | with_reducible apply E.printValue
  | with_reducible apply E.printSlot
  | with_reducible apply E.slotMethods
  | with_reducible apply E.printFields
  | with_reducible apply E.printElems
  | with_reducible apply E.printPairs
  | with_reducible apply E.doPrint
  | with_reducible apply E.doPrintLoop
  | with_reducible apply E.finishPrintf
  | with_reducible apply E.extraLoop
  | with_reducible apply rel_ite
  | with_reducible apply rel_ite_h
  | with_reducible apply relH_mk
  | with_reducible apply rel_bracket startER_safeOverride
  | with_reducible apply rel_bracket startER_unsafe
  | with_reducible apply rel_bracket startER_unsafeOverride
  | with_reducible apply rel_bind
  | (simp only [ValE, ValsE, FieldsE, ScriptE] at hv ⊢ <;> first | trivial | exact hv | exact hv.1 | exact hv.2 | exact hv.2.1 | exact hv.2.2 | exact hv.1.1 | exact hv.1.2.1 | exact hv.1.2.2)
  | (intro q q' hq; eprep hq)
  | (dsimp only)))

-- `match x with | (true, r) => r | (false, _) => k` on both sides, `RelH x x'` known as `hh`
set_option hygiene false in
macro "ehandled " e:term:max e':term:max : tactic => `(tactic| (
  generalize $e = x at hh ⊢
  generalize $e' = x' at hh ⊢
  obtain ⟨b, r⟩ := x
  obtain ⟨b', r'⟩ := x'
  cases b <;> cases b' <;> dsimp only <;>
    first | exact (relH_ne hh (by decide)).elim | exact relH_tt hh | skip))

theorem estep_printArg (he : EnvE env) (E : ESpec env n) : ∀ p p' v verb, ER p p' → ValE v →
    RelR (printArg env (n + 1) p v verb) (printArg env (n + 1) p' v verb) := by
  intro p p' v verb h hv
  cases v <;> simp only [printArg] <;> rmono

theorem estep_fmtString (he : EnvE env) (E : ESpec env n) : ∀ p p' v ret verb, ER p p' → ValE v →
    RelR (fmtString env (n + 1) p v ret verb) (fmtString env (n + 1) p' v ret verb) := by
  intro p p' v ret verb h hv
  simp only [fmtString]
  rmono

theorem estep_badVerb (he : EnvE env) (E : ESpec env n) : ∀ p p' v verb via, ER p p' → ValE v →
    RelR (badVerb env (n + 1) p v verb via) (badVerb env (n + 1) p' v verb via) := by
  intro p p' v verb via h hv
  unfold badVerb
  apply rel_bind
  · cases v <;> simp only <;> rmono
  · rmono


theorem estep_printArgBody (he : EnvE env) (E : ESpec env n) : ∀ p p' v verb, ER p p' → ValE v →
    RelR (printArgBody env (n + 1) p v verb) (printArgBody env (n + 1) p' v verb) := by
  intro p p' v verb h hv
  have hh := E.handleMethods p p' v verb h hv
  unfold printArgBody
  eprep h
  cases v with
  | leaf id k ty iv sv reg => cases k <;> simp only <;> rmono
  | nil => simp only; rmono
  | redactable c ty => exact hv.elim
  | _ =>
    simp only
    rmono
    all_goals (ehandled (handleMethods env n p _ verb) (handleMethods env n p' _ verb); rmono)

theorem estep_handleMethods (he : EnvE env) (E : ESpec env n) : ∀ p p' v verb, ER p p' → ValE v →
    RelH (handleMethods env (n + 1) p v verb) (handleMethods env (n + 1) p' v verb) := by
  intro p p' v verb h hv
  unfold handleMethods
  eprep h
  cases v <;> simp only <;> rmono

theorem estep_methDispatch (he : EnvE env) (E : ESpec env n) : ∀ p p' v ms nr ret sc verb, ER p p' → ValE v → ScriptE sc →
    ms.safeFormatter = false → ms.safeMessager = false →
    RelH (methDispatch env (n + 1) p v ms nr ret sc verb) (methDispatch env (n + 1) p' v ms nr ret sc verb) := by
  intro p p' v ms nr ret sc verb h hv hsc hsf hsm
  have cp := E.catchPanic
  have rs : RelS (if nr = true then SRes.raised p .nil else runScript env n p sc)
      (if nr = true then SRes.raised p' .nil else runScript env n p' sc) := rel_raised_or h (E.runScript p p' sc h hsc)
  unfold methDispatch
  eprep h
  simp only [hsf, hsm, he.hook, Option.isSome_none, Bool.false_eq_true, and_false, if_false]
  rmono
  all_goals first
    | (apply cp _ _ _ _ _ _ _ _ (asc_of_all (by decide)); exact rs)
    | (apply cp _ _ _ _ _ _ _ _ (asc_of_all (by decide)); apply rel_retOut _ h _ hsc; rmono)

theorem estep_catchPanic (he : EnvE env) (E : ESpec env n) : ∀ (p0 p0' : PP) (arg : Val) (verb : Nat) (m : List Byte) (nr : Bool) (out out' : SRes),
    Asc m → RelS out out' → RelR (catchPanic env (n + 1) p0 arg verb m nr out) (catchPanic env (n + 1) p0' arg verb m nr out') := by
  intro p0 p0' arg verb m nr out out' hm h
  unfold catchPanic
  cases h with
  | ok hq => exact .ok hq
  | abort hr => exact hr
  | raised hq hv =>
    rename_i q q' pl
    simp only
    eprep hq
    split
    · exact .ok (hq.wa (asc_of_all (by decide)))
    · split
      · exact .panic hq.br hv
      · have h : ER q q' := hq
        rmono
        all_goals (have h1 := ((hq.setPanicking false).wb (c := 0x29) (by decide)); erc h1)


/-- One SafeWriter call of a user method: `start…(); write; restore`. -/
theorem er_call {start : PP → PP × PP.Restorer} (hs : StartER start) {p p' : PP} (h : ER p p')
    (wr wr' : PP → PP) (hw : ∀ q q', ER q q' → ER (wr q) (wr' q')) :
    ER ((wr (start p).1).restore (start p).2) ((wr' (start p').1).restore (start p').2) := by
  have ⟨h1, h2, h3⟩ := hs.st p p' h
  rw [h2, h3]
  exact h.restore (hw _ _ h1)

theorem estep_runScript (he : EnvE env) (E : ESpec env n) : ∀ p p' sc, ER p p' → ScriptE sc →
    RelS (runScript env (n + 1) p sc) (runScript env (n + 1) p' sc) := by
  intro p p' sc h hv
  unfold runScript
  cases sc with
  | done => exact .ok h
  | panic pl => exact .raised h (by simpa [ScriptE] using hv)
  | print args k =>
    simp only [ScriptE] at hv
    simp only
    have hd := E.doPrint _ _ args.toList h.nested (listE_of_valsE _ hv.1)
    generalize doPrint env n ({ buf := p.buf, override := p.override } : PP) args.toList = r at hd ⊢
    generalize doPrint env n ({ buf := p'.buf, override := p'.override } : PP) args.toList = r' at hd ⊢
    cases hd with
    | ok hq => exact E.runScript _ _ _ (h.handBack hq.br) hv.2
    | panic hb hpl => exact .raised (h.handBack hb) hpl
    | fuel => exact .abort .fuel
    | unsupported => exact .abort .unsupported
  | printf f args k =>
    simp only [ScriptE] at hv
    simp only
    have hd := E.doPrintf _ _ f args.toList h.nested hv.1 (listE_of_valsE _ hv.2.1)
    generalize doPrintf env n ({ buf := p.buf, override := p.override } : PP) f args.toList = r at hd ⊢
    generalize doPrintf env n ({ buf := p'.buf, override := p'.override } : PP) f args.toList = r' at hd ⊢
    cases hd with
    | ok hq => exact E.runScript _ _ _ (h.handBack hq.br) hv.2.2
    | panic hb hpl => exact .raised (h.handBack hb) hpl
    | fuel => exact .abort .fuel
    | unsupported => exact .abort .unsupported
  | unsafeLeaf id k =>
    simp only
    split
    · exact .abort .unsupported
    · rename_i s hs
      exact E.runScript _ _ _ (er_call startER_unsafe h (·.w s) (·.w s) (fun q q' hq => hq.w (he.render _ _ _ hs)))
        (by simpa [ScriptE] using hv)
  | indep k => simp only; exact E.runScript _ _ _ h (by simpa [ScriptE] using hv)
  | safeString s k =>
    simp only [ScriptE] at hv
    simp only
    exact E.runScript _ _ _ (er_call startER_safeOverride h (·.w s) (·.w s) (fun q q' hq => hq.w hv.1)) hv.2
  | safeRune x k =>
    simp only
    exact E.runScript _ _ _ (er_call startER_safeOverride h (·.wr x) (·.wr x) (fun q q' hq => hq.wr x)) (by simpa [ScriptE] using hv)
  | unsafeString s k =>
    simp only [ScriptE] at hv
    simp only
    exact E.runScript _ _ _ (er_call startER_unsafe h (·.w s) (·.w s) (fun q q' hq => hq.w hv.1)) hv.2
  | write s k =>
    simp only [ScriptE] at hv
    simp only
    exact E.runScript _ _ _ (er_call startER_unsafe h (·.w s) (·.w s) (fun q q' hq => hq.w hv.1)) hv.2

theorem estep_printValue (he : EnvE env) (E : ESpec env n) : ∀ p p' v verb d ro, ER p p' → ValE v →
    RelR (printValue env (n + 1) p v verb d ro) (printValue env (n + 1) p' v verb d ro) := by
  intro p p' v verb d ro h hv
  unfold printValue
  eprep h
  cases v <;> simp only <;> rmono

theorem estep_slotMethods (he : EnvE env) (E : ESpec env n) : ∀ p p' v verb, ER p p' → ValE v →
    RelH (slotMethods env (n + 1) p v verb) (slotMethods env (n + 1) p' v verb) := by
  intro p p' v verb h hv
  unfold slotMethods
  eprep h
  cases v with
  | redactable c ty => exact hv.elim
  | _ => simp only <;> rmono

theorem estep_printFields (he : EnvE env) (E : ESpec env n) : ∀ p p' fs verb d ro f, ER p p' → FieldsE fs →
    RelR (printFields env (n + 1) p fs verb d ro f) (printFields env (n + 1) p' fs verb d ro f) := by
  intro p p' fs verb d ro f h hv
  unfold printFields
  eprep h
  cases fs with
  | nil => exact .ok h
  | cons name exported it v rest =>
    simp only [FieldsE] at hv
    simp only
    have g1 : ER (if f = true then p else if p.f.sharpV = true then p.w ([0x2C, 0x20] /- ", " -/ : List UInt8) else p.wb 0x20)
        (if f = true then p' else if p.f.sharpV = true then p'.w ([0x2C, 0x20] /- ", " -/ : List UInt8) else p'.wb 0x20) := by rmono
    generalize (if f = true then p else if p.f.sharpV = true then p.w ([0x2C, 0x20] /- ", " -/ : List UInt8) else p.wb 0x20) = p1 at g1 ⊢
    generalize (if f = true then p' else if p.f.sharpV = true then p'.w ([0x2C, 0x20] /- ", " -/ : List UInt8) else p'.wb 0x20) = p1' at g1 ⊢
    eprep g1
    have g2 : ER (if p1.f.plusV = true ∨ p1.f.sharpV = true then (p1.w name).wb 0x3A else p1)
        (if p1.f.plusV = true ∨ p1.f.sharpV = true then (p1'.w name).wb 0x3A else p1') :=
      er_ite ((g1.w hv.1).wb (by decide)) g1
    apply rel_bind (E.printSlot _ _ _ _ _ _ _ g2 hv.2.1)
    intro q q' hq
    exact E.printFields _ _ _ _ _ _ _ hq hv.2.2

theorem estep_printElems (he : EnvE env) (E : ESpec env n) : ∀ p p' vs verb d i ro f, ER p p' → ValsE vs →
    RelR (printElems env (n + 1) p vs verb d i ro f) (printElems env (n + 1) p' vs verb d i ro f) := by
  intro p p' vs verb d i ro f h hv
  unfold printElems
  eprep h
  cases vs <;> simp only <;> rmono

theorem estep_printPairs (he : EnvE env) (E : ESpec env n) : ∀ p p' ks vs verb d ik iv ro f, ER p p' → ValsE ks → ValsE vs →
    RelR (printPairs env (n + 1) p ks vs verb d ik iv ro f) (printPairs env (n + 1) p' ks vs verb d ik iv ro f) := by
  intro p p' ks vs verb d ik iv ro f h hk hv
  unfold printPairs
  eprep h
  cases ks with
  | nil => cases vs <;> simp only <;> rmono
  | cons k kr =>
    cases vs with
    | nil => simp only; rmono
    | cons v vr =>
      simp only [ValsE] at hk hv
      simp only
      apply rel_bind (E.printSlot _ _ _ _ _ _ _ (by rmono) hk.1)
      intro q q' hq
      apply rel_bind (E.printSlot _ _ _ _ _ _ _ (hq.wb (by decide)) hv.1)
      intro q2 q2' hq2
      exact E.printPairs _ _ _ _ _ _ _ _ _ _ hq2 hk.2 hv.2

theorem estep_doPrint (he : EnvE env) (E : ESpec env n) : ∀ p p' args, ER p p' → ListE args →
    RelR (doPrint env (n + 1) p args) (doPrint env (n + 1) p' args) := by
  intro p p' args h hv
  unfold doPrint
  dsimp only
  exact E.doPrintLoop _ _ _ _ _ (er_setSafe h) hv

theorem estep_doPrintLoop (he : EnvE env) (E : ESpec env n) : ∀ p p' args k ps, ER p p' → ListE args →
    RelR (doPrintLoop env (n + 1) p args k ps) (doPrintLoop env (n + 1) p' args k ps) := by
  intro p p' args k ps h hl
  unfold doPrintLoop
  cases args with
  | nil => exact .ok h
  | cons a rest =>
    have hv := listE_tail hl
    simp only
    rmono


theorem estep_doPrintf (he : EnvE env) (E : ESpec env n) : ∀ p p' f args, ER p p' → FmtCl f → ListE args →
    RelR (doPrintf env (n + 1) p f args) (doPrintf env (n + 1) p' f args) := by
  intro p p' f args h hf hv
  unfold doPrintf
  dsimp only
  have h1 := er_setSafe h
  generalize (if p.override ≠ .ovUnsafe then { p with buf := p.buf.setMode .safeEsc } else p) = p1 at h1 ⊢
  generalize (if p'.override ≠ .ovUnsafe then { p' with buf := p'.buf.setMode .safeEsc } else p') = p1' at h1 ⊢
  apply rel_bind (E.fmtLoop ({ p1 with reordered := false } : PP) ({ p1' with reordered := false } : PP) _ _ _ _ (h1.setReordered false) hf hv)
  intro q q' hq
  exact .ok hq

theorem estep_extraLoop (he : EnvE env) (E : ESpec env n) : ∀ p p' args f, ER p p' → ListE args →
    RelR (extraLoop env (n + 1) p args f) (extraLoop env (n + 1) p' args f) := by
  intro p p' args f h hl
  unfold extraLoop
  cases args with
  | nil => exact .ok h
  | cons a rest =>
    have hv := listE_tail hl
    simp only
    apply rel_bind _ (fun q q' hq => E.extraLoop _ _ _ _ hq hv.2)
    cases a <;> simp only <;> rmono

theorem estep_finishPrintf (he : EnvE env) (E : ESpec env n) : ∀ p p' args k, ER p p' → ListE args →
    RelR (finishPrintf env (n + 1) p args k) (finishPrintf env (n + 1) p' args k) := by
  intro p p' args k h hl
  have hv := listE_drop hl k
  unfold finishPrintf
  eprep h
  rmono

theorem estep_fmtLoop (he : EnvE env) (E : ESpec env n) : ∀ p p' f args k ai, ER p p' → FmtCl f → ListE args →
    RelR (fmtLoop env (n + 1) p f args k ai) (fmtLoop env (n + 1) p' f args k ai) := by
  intro p p' f args k ai h hf hv
  unfold fmtLoop
  dsimp only
  have h0 : ER ({ p with goodArgNum := true } : PP) ({ p' with goodArgNum := true } : PP) := h.setGood true
  have h1 : ER (if (f.takeWhile (· ≠ 0x25)).isEmpty = true then ({ p with goodArgNum := true } : PP)
      else ({ p with goodArgNum := true } : PP).w (f.takeWhile (· ≠ 0x25)))
      (if (f.takeWhile (· ≠ 0x25)).isEmpty = true then ({ p' with goodArgNum := true } : PP)
      else ({ p' with goodArgNum := true } : PP).w (f.takeWhile (· ≠ 0x25))) := er_ite h0 (h0.w hf.lit)
  generalize (if (f.takeWhile (· ≠ 0x25)).isEmpty = true then ({ p with goodArgNum := true } : PP)
      else ({ p with goodArgNum := true } : PP).w (f.takeWhile (· ≠ 0x25))) = p1 at h1 ⊢
  generalize (if (f.takeWhile (· ≠ 0x25)).isEmpty = true then ({ p' with goodArgNum := true } : PP)
      else ({ p' with goodArgNum := true } : PP).w (f.takeWhile (· ≠ 0x25))) = p1' at h1 ⊢
  have hrest : Utf8 (f.dropWhile (· ≠ 0x25)) := (utf8_split_percent f hf).2
  split
  · exact E.finishPrintf _ _ _ _ h1 hv
  · rename_i c r0 heq
    have hc : c = 0x25 := by
      have := dropWhile_head (fun x => decide (x ≠ 0x25)) f c r0 heq
      simpa using this
    have hr0 : Utf8 r0 := by rw [heq] at hrest; exact utf8_tail_ascii hrest (by rw [hc]; decide)
    have hpf := parseFlags_utf8 true {} r0 hr0
    generalize parseFlags true {} r0 = pf at hpf
    obtain ⟨fs, r1⟩ := pf
    dsimp only at hpf ⊢
    eprep h1
    split
    · rename_i c2 r2
      split
      · rename_i hfast
        have hr2 : Utf8 r2 := utf8_tail_ascii hpf (by
          have := hfast.2.1
          exact Nat.lt_of_le_of_lt (UInt8.le_iff_toNat_le.mp this) (by decide))
        split
        · rename_i a ha2
          have hva := listE_get hv ha2
          apply rel_bind
          · apply E.printArg _ _ _ _ _ hva
            split <;> erc h1
          · intro q q' hq
            exact E.fmtLoop _ _ _ _ _ _ hq hr2 hv
        · apply rel_ok
          split <;> erc h1
      · exact E.directiveTail _ _ _ _ _ _ (by erc h1) hpf hv
    · exact E.directiveTail _ _ _ _ _ _ (by erc h1) hpf hv

theorem estep_directiveTail (he : EnvE env) (E : ESpec env n) : ∀ p p' f args k ai, ER p p' → FmtCl f → ListE args →
    RelR (directiveTail env (n + 1) p f args k ai) (directiveTail env (n + 1) p' f args k ai) := by
  intro p p' f args k ai h hf hv
  unfold directiveTail
  dsimp only
  have ⟨c1, e1⟩ := argNumber_er h k f args.length
  have s1 := argNumber_utf8 p k f args.length hf
  generalize argNumber p k f args.length = an at c1 e1 s1
  generalize argNumber p' k f args.length = an' at c1 e1
  obtain ⟨p1, k1, r1, ai1⟩ := an
  obtain ⟨p1', k1', r1', ai1'⟩ := an'
  simp only [Prod.mk.injEq] at c1 e1 s1
  obtain ⟨rfl, rfl, rfl⟩ := e1
  dsimp only
  have ⟨c2, e2⟩ := widthStage_er c1 args k1' r1' ai1'
  have s2 := widthStage_utf8 p1 args k1' r1' ai1' s1
  generalize widthStage p1 args k1' r1' ai1' = ws at c2 e2 s2
  generalize widthStage p1' args k1' r1' ai1' = ws' at c2 e2
  obtain ⟨p2, k2, r2, ai2⟩ := ws
  obtain ⟨p2', k2', r2', ai2'⟩ := ws'
  simp only [Prod.mk.injEq] at c2 e2 s2
  obtain ⟨rfl, rfl, rfl⟩ := e2
  dsimp only
  have ⟨c3, e3⟩ := precStage_er c2 args k2' r2' ai2'
  have s3 := precStage_utf8 p2 args k2' r2' ai2' s2
  generalize precStage p2 args k2' r2' ai2' = ps at c3 e3 s3
  generalize precStage p2' args k2' r2' ai2' = ps' at c3 e3
  obtain ⟨p3, k3, r3, ai3⟩ := ps
  obtain ⟨p3', k3', r3', ai3'⟩ := ps'
  simp only [Prod.mk.injEq] at c3 e3 s3
  obtain ⟨rfl, rfl, rfl⟩ := e3
  dsimp only
  have c4 : ER (if (!ai3') = true then argNumber p3 k3' r3' args.length else (p3, k3', r3', ai3')).1
      (if (!ai3') = true then argNumber p3' k3' r3' args.length else (p3', k3', r3', ai3')).1 ∧
      (if (!ai3') = true then argNumber p3' k3' r3' args.length else (p3', k3', r3', ai3')).2 =
      (if (!ai3') = true then argNumber p3 k3' r3' args.length else (p3, k3', r3', ai3')).2 := by
    split
    · exact argNumber_er c3 _ _ _
    · exact ⟨c3, rfl⟩
  have s4 : Utf8 (if (!ai3') = true then argNumber p3 k3' r3' args.length else (p3, k3', r3', ai3')).2.2.1 := by
    split
    · exact argNumber_utf8 _ _ _ _ s3
    · exact s3
  generalize (if (!ai3') = true then argNumber p3 k3' r3' args.length else (p3, k3', r3', ai3')) = an4 at c4 s4
  generalize (if (!ai3') = true then argNumber p3' k3' r3' args.length else (p3', k3', r3', ai3')) = an4' at c4
  obtain ⟨p4, k4, r4, ai4⟩ := an4
  obtain ⟨p4', k4', r4', ai4'⟩ := an4'
  simp only [Prod.mk.injEq] at c4 s4
  obtain ⟨c4, rfl, rfl, rfl⟩ := c4
  dsimp only
  eprep c4
  split
  · exact .ok (c4.wa (asc_of_all (by decide)))
  · rename_i verb r' hdv
    have hf' : FmtCl r' := decodeVerb_utf8 _ s4 _ _ hdv
    have wbang : ER ((p4.w percentBang).wr verb) ((p4'.w percentBang).wr verb) := (c4.wa (asc_of_all (by decide))).wr _
    split
    · exact E.fmtLoop _ _ _ _ _ _ (c4.wb (by decide)) hf' hv
    · split
      · exact E.fmtLoop _ _ _ _ _ _ (wbang.wa (asc_of_all (by decide))) hf' hv
      · split
        · exact E.fmtLoop _ _ _ _ _ _ (wbang.wa (asc_of_all (by decide))) hf' hv
        · split
          · rename_i a ha2
            apply rel_bind
            · apply E.printArg _ _ _ _ _ (listE_get hv ha2)
              split <;> erc c4
            · intro q q' hq
              exact E.fmtLoop _ _ _ _ _ _ hq hf' hv
          · apply rel_ok
            split <;> erc c4


theorem estep_printSlot (he : EnvE env) (E : ESpec env n) : ∀ p p' v verb d i ro, ER p p' → ValE v →
    RelR (printSlot env (n + 1) p v verb d i ro) (printSlot env (n + 1) p' v verb d i ro) := by
  intro p p' v verb d i ro h hv
  have noMethod : ∀ q3 q3', ER q3 q3' →
      RelR (if i = true then printSlot env n q3 v verb (d + 1) false ro else printValue env n q3 v verb d ro)
        (if i = true then printSlot env n q3' v verb (d + 1) false ro else printValue env n q3' v verb d ro) := by
    intro q3 q3' h3; rmono
  have afterMethods : ∀ q2 q2', ER q2 q2' →
      RelR (if (!ro) = true then
        match slotMethods env n q2 v verb with
        | (true, r) => r
        | (false, _) => (if i = true then printSlot env n q2 v verb (d + 1) false ro else printValue env n q2 v verb d ro)
      else (if i = true then printSlot env n q2 v verb (d + 1) false ro else printValue env n q2 v verb d ro))
      (if (!ro) = true then
        match slotMethods env n q2' v verb with
        | (true, r) => r
        | (false, _) => (if i = true then printSlot env n q2' v verb (d + 1) false ro else printValue env n q2' v verb d ro)
      else (if i = true then printSlot env n q2' v verb (d + 1) false ro else printValue env n q2' v verb d ro)) := by
    intro q2 q2' h2
    apply rel_ite _ (noMethod q2 q2' h2)
    have hh := E.slotMethods q2 q2' v verb h2 hv
    ehandled (slotMethods env n q2 v verb) (slotMethods env n q2' v verb)
    exact noMethod q2 q2' h2
  have body : ∀ q q', ER q q' →
      RelR (if (!ro) = true ∧ isSafeValue v = true then bracket PP.startSafeOverride q (fun q2 =>
          if (!ro) = true then
            match slotMethods env n q2 v verb with
            | (true, r) => r
            | (false, _) => (if i = true then printSlot env n q2 v verb (d + 1) false ro else printValue env n q2 v verb d ro)
          else (if i = true then printSlot env n q2 v verb (d + 1) false ro else printValue env n q2 v verb d ro))
       else
          if (!ro) = true then
            match slotMethods env n q v verb with
            | (true, r) => r
            | (false, _) => (if i = true then printSlot env n q v verb (d + 1) false ro else printValue env n q v verb d ro)
          else (if i = true then printSlot env n q v verb (d + 1) false ro else printValue env n q v verb d ro))
      (if (!ro) = true ∧ isSafeValue v = true then bracket PP.startSafeOverride q' (fun q2 =>
          if (!ro) = true then
            match slotMethods env n q2 v verb with
            | (true, r) => r
            | (false, _) => (if i = true then printSlot env n q2 v verb (d + 1) false ro else printValue env n q2 v verb d ro)
          else (if i = true then printSlot env n q2 v verb (d + 1) false ro else printValue env n q2 v verb d ro))
       else
          if (!ro) = true then
            match slotMethods env n q' v verb with
            | (true, r) => r
            | (false, _) => (if i = true then printSlot env n q' v verb (d + 1) false ro else printValue env n q' v verb d ro)
          else (if i = true then printSlot env n q' v verb (d + 1) false ro else printValue env n q' v verb d ro)) := by
    intro q q' hq
    exact rel_ite (rel_bracket startER_safeOverride hq afterMethods) (afterMethods q q' hq)
  have wrap := rel_ite (c := (!i) = true ∧ isRegistered v = true) (rel_bracket startER_safeOverride h body) (body p p' h)
  unfold printSlot
  eprep h
  cases v with
  | nil => simp only; rmono
  | safeW w =>
    cases i <;> simp only [Bool.false_eq_true, if_false, if_true]
    · rmono
    · exact wrap
  | unsafeW w =>
    cases i <;> simp only [Bool.false_eq_true, if_false, if_true]
    · rmono
    · exact wrap
  | redactable c ty => exact hv.elim
  | _ =>
    simp only
    split
    · rename_i r hspecial
      split at hspecial <;> cases hspecial
    · exact wrap

/-- **Two runs that differ only in the classification state they start from read the same with
markers stripped**, through all 21 functions of the printer, at every fuel. -/
theorem espec_all (env : Env) (he : EnvE env) : ∀ n, ESpec env n := by
  intro n
  induction n with
  | zero => exact espec_zero env
  | succ n ih =>
    exact {
      printArg := estep_printArg he ih
      printArgBody := estep_printArgBody he ih
      badVerb := estep_badVerb he ih
      handleMethods := estep_handleMethods he ih
      methDispatch := estep_methDispatch he ih
      fmtString := estep_fmtString he ih
      catchPanic := estep_catchPanic he ih
      runScript := estep_runScript he ih
      printValue := estep_printValue he ih
      printSlot := estep_printSlot he ih
      slotMethods := estep_slotMethods he ih
      printFields := estep_printFields he ih
      printElems := estep_printElems he ih
      printPairs := estep_printPairs he ih
      doPrint := estep_doPrint he ih
      doPrintLoop := estep_doPrintLoop he ih
      doPrintf := estep_doPrintf he ih
      fmtLoop := estep_fmtLoop he ih
      directiveTail := estep_directiveTail he ih
      finishPrintf := estep_finishPrintf he ih
      extraLoop := estep_extraLoop he ih }

end ErU
end Redact
