import RedactVerif.Proofs.BufferInv
import RedactVerif.Props.C07
/-
Non-interference at the buffer level (C02, C05's counting half): two runs whose
operations differ only in the content of unsafe payloads (same emptiness, same
line-feed structure) produce redactables with the same public skeleton, hence
the same `Redact()`.
-/
namespace Redact

/-! Skeleton of a token list: what `Redact` keeps. `blank` is defined in Props/C07. -/

theorem blank_append (o : Bool) (a b : List Tok) (o' : Bool) (h : scanWFFrom o a = some o') :
    blank o (a ++ b) = blank o a ++ blank o' b := by
  induction a generalizing o with
  | nil => simp [scanWFFrom] at h; subst h; simp [blank]
  | cons t r ih =>
    cases t with
    | s =>
      cases o with
      | false => simp only [scanWFFrom] at h; simp [blank, ih true h]
      | true => simp [scanWFFrom] at h
    | e =>
      cases o with
      | false => simp [scanWFFrom] at h
      | true => simp only [scanWFFrom] at h; simp [blank, ih false h]
    | b x =>
      cases o with
      | false => simp only [scanWFFrom] at h; simp [blank, ih false h]
      | true => simp only [scanWFFrom] at h; simp [blank, ih true h]

/-- The line-safe scanner refines the plain one. -/
theorem scanWF_of_scan (o : Bool) (t : List Tok) (o' : Bool) (h : scanFrom o t = some o') : scanWFFrom o t = some o' := by
  induction t generalizing o with
  | nil => simpa [scanFrom, scanWFFrom] using h
  | cons x r ih =>
    cases x with
    | s => cases o <;> simp_all [scanFrom, scanWFFrom]
    | e => cases o <;> simp_all [scanFrom, scanWFFrom]
    | b y =>
      cases o
      · simp only [scanFrom] at h; simp [scanWFFrom, ih false h]
      · simp only [scanFrom] at h
        split at h
        · cases h
        · simp [scanWFFrom, ih true h]

/-- `Redact` of a well-formed line-safe redactable is its skeleton. -/
theorem redactT_eq_blank_of_wfl (t : List Tok) (h : WFL t) : redactT t = blank false t :=
  redactT_exact t (scanWF_of_scan false t false h)


/-! ### The public skeleton of a token list

`abs` keeps everything outside envelopes, the delimiters, and one bit per
envelope (empty or not): this is exactly what two low-equivalent runs share. -/

inductive St where
  | closed | openEmpty | openFull
deriving DecidableEq, Repr

inductive Ev where
  | out (x : Byte)    -- a byte outside any envelope
  | opn               -- start marker
  | full              -- the open envelope received its first content token
  | cls               -- end marker
deriving DecidableEq, Repr

def stStep : St → Tok → St
  | _, .s => .openEmpty
  | _, .e => .closed
  | .closed, .b _ => .closed
  | _, .b _ => .openFull

def stAfter : St → List Tok → St
  | st, [] => st
  | st, t :: r => stAfter (stStep st t) r

def absTok : St → Tok → List Ev
  | _, .s => [.opn]
  | _, .e => [.cls]
  | .closed, .b x => [.out x]
  | .openEmpty, .b _ => [.full]
  | .openFull, .b _ => []

def abs : St → List Tok → List Ev
  | _, [] => []
  | st, t :: r => absTok st t ++ abs (stStep st t) r

theorem stAfter_append (st : St) (a b : List Tok) : stAfter st (a ++ b) = stAfter (stAfter st a) b := by
  induction a generalizing st with
  | nil => rfl
  | cons t r ih => simp [stAfter, ih]

theorem abs_append (st : St) (a b : List Tok) : abs st (a ++ b) = abs st a ++ abs (stAfter st a) b := by
  induction a generalizing st with
  | nil => simp [abs, stAfter]
  | cons t r ih => simp [abs, stAfter, ih]

/-- The state is a function of the events. -/
def evStep : St → Ev → St
  | st, .out _ => st
  | _, .opn => .openEmpty
  | _, .full => .openFull
  | _, .cls => .closed

def evState : St → List Ev → St
  | st, [] => st
  | st, e :: r => evState (evStep st e) r

theorem evState_append (st : St) (a b : List Ev) : evState st (a ++ b) = evState (evState st a) b := by
  induction a generalizing st with
  | nil => rfl
  | cons t r ih => simp [evState, ih]

theorem stAfter_eq_evState (st : St) (t : List Tok) : stAfter st t = evState st (abs st t) := by
  induction t generalizing st with
  | nil => rfl
  | cons x r ih =>
    simp only [stAfter, abs, evState_append]
    rw [ih]
    congr 1
    cases st <;> cases x <;> rfl

/-- What `Redact` prints, from the events: every envelope becomes `‹×›`. -/
def render : List Ev → List Tok
  | [] => []
  | .out x :: r => .b x :: render r
  | .opn :: r => .s :: (crossT ++ render r)
  | .full :: r => render r
  | .cls :: r => .e :: render r

theorem render_append (a b : List Ev) : render (a ++ b) = render a ++ render b := by
  induction a with
  | nil => rfl
  | cons x r ih => cases x <;> simp [render, ih]

theorem blank_eq_render (t : List Tok) :
    (scanWFFrom false t = some false → blank false t = render (abs .closed t)) ∧
    (scanWFFrom true t = some false → .e :: blank true t = render (abs .openEmpty t)) ∧
    (scanWFFrom true t = some false → .e :: blank true t = render (abs .openFull t)) := by
  induction t with
  | nil => simp [scanWFFrom, blank, abs, render]
  | cons x r ih =>
    refine ⟨?_, ?_, ?_⟩
    · intro h
      cases x with
      | s =>
        simp only [scanWFFrom] at h
        simp only [blank, abs, absTok, stStep, render, List.singleton_append, List.cons.injEq, true_and]
        rw [← ih.2.1 h]
      | e => simp [scanWFFrom] at h
      | b y => simp only [scanWFFrom] at h; simp [blank, abs, absTok, stStep, render, ih.1 h]
    · intro h
      cases x with
      | s => simp [scanWFFrom] at h
      | e => simp only [scanWFFrom] at h; simp [blank, abs, absTok, stStep, render, ih.1 h]
      | b y => simp only [scanWFFrom] at h; simp [blank, abs, absTok, stStep, render, ih.2.2 h]
    · intro h
      cases x with
      | s => simp [scanWFFrom] at h
      | e => simp only [scanWFFrom] at h; simp [blank, abs, absTok, stStep, render, ih.1 h]
      | b y => simp only [scanWFFrom] at h; simp [blank, abs, absTok, stStep, render, ih.2.2 h]

/-- Two well-formed line-safe redactables with the same events redact to the same bytes. -/
theorem redactT_eq_of_abs (t1 t2 : List Tok) (h1 : WFL t1) (h2 : WFL t2) (h : abs .closed t1 = abs .closed t2) :
    redactT t1 = redactT t2 := by
  rw [redactT_eq_blank_of_wfl t1 h1, redactT_eq_blank_of_wfl t2 h2,
    (blank_eq_render t1).1 (scanWF_of_scan _ _ _ h1), (blank_eq_render t2).1 (scanWF_of_scan _ _ _ h2), h]


/-! ### States and the scanner -/

def St.isOpen : St → Bool
  | .closed => false
  | _ => true

theorem isOpen_stAfter (st : St) (t : List Tok) (o : Bool) (h : scanFrom st.isOpen t = some o) :
    (stAfter st t).isOpen = o := by
  induction t generalizing st with
  | nil => simpa [scanFrom, stAfter] using h
  | cons x r ih =>
    cases x with
    | s =>
      cases st <;> simp only [St.isOpen, scanFrom] at h <;> first | (exact ih _ h) | cases h
    | e =>
      cases st <;> simp only [St.isOpen, scanFrom] at h <;> first | (exact ih _ h) | cases h
    | b y =>
      cases st
      · simp only [St.isOpen, scanFrom] at h; exact ih _ h
      · simp only [St.isOpen, scanFrom] at h
        split at h
        · cases h
        · exact ih .openFull h
      · simp only [St.isOpen, scanFrom] at h
        split at h
        · cases h
        · exact ih .openFull h

theorem closed_of_scan_false {t : List Tok} (h : scan t = some false) : stAfter .closed t = .closed := by
  have := isOpen_stAfter .closed t false h
  cases hs : stAfter .closed t <;> simp_all [St.isOpen]

theorem open_of_scan_true {t : List Tok} (h : scan t = some true) : stAfter .closed t ≠ .closed := by
  have := isOpen_stAfter .closed t true h
  intro hs; rw [hs] at this; cases this

/-- The envelope is open and still empty exactly when the last token is the start marker. -/
theorem openEmpty_iff_last_s (st : St) (t : List Tok) (hne : t ≠ []) :
    stAfter st t = .openEmpty ↔ t.getLast? = some .s := by
  induction t generalizing st with
  | nil => exact absurd rfl hne
  | cons x r ih =>
    cases r with
    | nil => cases st <;> cases x <;> simp [stAfter, stStep]
    | cons y r' =>
      rw [stAfter, ih _ (by simp)]
      simp [List.getLast?_cons_cons]

theorem snoc_of_getLast {t : List Tok} {x : Tok} (h : t.getLast? = some x) : t = t.dropLast ++ [x] :=
  eq_dropLast_append_of_getLast h

/-- The event list of a validated prefix. -/
def evT (t : List Tok) : List Ev := abs .closed t

theorem stAfter_eq_of_evT {t1 t2 : List Tok} (h : evT t1 = evT t2) : stAfter .closed t1 = stAfter .closed t2 := by
  rw [stAfter_eq_evState, stAfter_eq_evState]; unfold evT at h; rw [h]

theorem evT_snoc_s (t : List Tok) : evT (t ++ [.s]) = evT t ++ [.opn] := by
  unfold evT; rw [abs_append]; cases stAfter .closed t <;> rfl

theorem evT_snoc_e (t : List Tok) : evT (t ++ [.e]) = evT t ++ [.cls] := by
  unfold evT; rw [abs_append]; cases stAfter .closed t <;> rfl

theorem evT_snoc_content (t : List Tok) (x : Byte) :
    evT (t ++ [.b x]) = evT t ++ absTok (stAfter .closed t) (.b x) := by
  unfold evT; rw [abs_append]; simp [abs]

/-- Outside text appended to a closed prefix. -/
def outEv : List Tok → List Ev
  | [] => []
  | .b x :: r => .out x :: outEv r
  | _ :: r => outEv r

theorem abs_closed_plain (r : List Tok) (h : ∀ x ∈ r, x.isMarker = false) : abs .closed r = outEv r := by
  induction r with
  | nil => rfl
  | cons x r ih =>
    cases x with
    | s => have := h .s (by simp); simp [Tok.isMarker] at this
    | e => have := h .e (by simp); simp [Tok.isMarker] at this
    | b y => simp only [abs, absTok, stStep, outEv, List.singleton_append]; rw [ih (fun x hx => h x (by simp [hx]))]

/-! ### Unsafe-mode escaping, seen through events -/

def isLFt : Tok → Bool
  | .b x => x == LF
  | _ => false

def gEv (evs : List Ev) : List Ev :=
  if evState .closed evs = .openEmpty then evs ++ [.full] else evs

def hEv (evs : List Ev) : List Ev :=
  (if evState .closed evs = .openEmpty then evs.dropLast else evs ++ [.cls]) ++ [.out LF, .opn]

theorem gEv_idem (evs : List Ev) : gEv (gEv evs) = gEv evs := by
  unfold gEv
  split
  · rename_i h
    simp [evState_append, h, evState, evStep]
  · rename_i h; simp [h]

def foldEv : List Ev → List Tok → List Ev
  | evs, [] => evs
  | evs, t :: r => foldEv (if isLFt t then hEv evs else gEv evs) r

theorem evState_evT (t : List Tok) : evState .closed (evT t) = stAfter .closed t := by
  unfold evT; rw [← stAfter_eq_evState]

/-- Appending one content token to an open prefix. -/
theorem evT_snoc_open (t : List Tok) (x : Byte) (h : scan t = some true) :
    evT (t ++ [.b x]) = gEv (evT t) := by
  rw [evT_snoc_content]
  unfold gEv
  rw [evState_evT]
  have := open_of_scan_true h
  cases hs : stAfter .closed t <;> simp_all [absTok]

theorem scan_snoc_content {t : List Tok} {x : Byte} (h : scan t = some true) (hx : x ≠ LF) :
    scan (t ++ [.b x]) = some true := by
  rw [scan_append, h]; simp [scanFrom, hx]

theorem scan_lf_step {out : List Tok} (h : scan out = some true) :
    scan ((if out.getLast? = some .s then out.dropLast else out ++ [.e]) ++ [.b LF, .s]) = some true := by
  split
  · rename_i hl
    have := snoc_of_getLast hl
    have h2 : scan out.dropLast = some false := scan_of_snoc_s (by rw [← this]; exact h)
    rw [scan_append, h2]; simp [scanFrom]
  · rw [scan_append, scan_append, h]; simp [scanFrom]

theorem evT_lf_step {out : List Tok} (h : scan out = some true) :
    evT ((if out.getLast? = some .s then out.dropLast else out ++ [.e]) ++ [.b LF, .s]) = hEv (evT out) := by
  have hne : out ≠ [] := tokens_ne_nil_of_scan_true h
  unfold hEv
  rw [evState_evT]
  split
  · rename_i hl
    have hsn := snoc_of_getLast hl
    have h2 : scan out.dropLast = some false := scan_of_snoc_s (by rw [← hsn]; exact h)
    have hst : stAfter .closed out = .openEmpty := (openEmpty_iff_last_s _ _ hne).2 hl
    simp only [hst, if_true]
    have e1 : evT out = evT out.dropLast ++ [.opn] := by
      conv => lhs; rw [hsn]
      exact evT_snoc_s _
    rw [e1, List.dropLast_concat]
    have : out.dropLast ++ [Tok.b LF, .s] = (out.dropLast ++ [.b LF]) ++ [.s] := by simp
    rw [this, evT_snoc_s, evT_snoc_content, closed_of_scan_false h2]
    simp [absTok]
  · rename_i hl
    have hst : stAfter .closed out ≠ .openEmpty := fun hh => hl ((openEmpty_iff_last_s _ _ hne).1 hh)
    simp only [hst, if_false]
    have : out ++ [.e] ++ [Tok.b LF, .s] = ((out ++ [.e]) ++ [.b LF]) ++ [.s] := by simp
    rw [this, evT_snoc_s, evT_snoc_content, evT_snoc_e]
    have h2 : scan (out ++ [.e]) = some false := by rw [scan_append, h]; simp [scanFrom]
    rw [closed_of_scan_false h2]
    simp [absTok]

/-- Events of the token-level unsafe escape. -/
theorem evT_escTok_open (out rest : List Tok) (h : scan out = some true) :
    evT (escTok true out rest) = foldEv (evT out) rest := by
  induction rest generalizing out with
  | nil => simp [escTok, foldEv]
  | cons t r ih =>
    cases t with
    | s =>
      simp only [escTok, foldEv, isLFt]
      rw [ih _ (scan_snoc_content h (by decide)), evT_snoc_open _ _ h]; rfl
    | e =>
      simp only [escTok, foldEv, isLFt]
      rw [ih _ (scan_snoc_content h (by decide)), evT_snoc_open _ _ h]; rfl
    | b x =>
      by_cases hx : x = LF
      · subst hx
        simp only [escTok, foldEv, isLFt, Bool.true_and, beq_self_eq_true, if_true]
        rw [ih _ (scan_lf_step h), evT_lf_step h]
      · have hb : (x == LF) = false := by simpa using hx
        simp only [escTok, foldEv, isLFt, hb, Bool.and_false, Bool.false_eq_true, if_false]
        rw [ih _ (scan_snoc_content h hx), evT_snoc_open _ _ h]


/-! ### Shapes: line-feed structure and segment emptiness -/

/-- Put a "non-empty segment" mark in front, unless one is already there. -/
def cF : List Bool → List Bool
  | false :: c => false :: c
  | c => false :: c

theorem cF_idem (c : List Bool) : cF (cF c) = cF c := by
  cases c with
  | nil => rfl
  | cons x r => cases x <;> rfl

def canonT : List Tok → List Bool
  | [] => []
  | t :: r => if isLFt t then true :: canonT r else cF (canonT r)

/-- The shape of a byte string: its line feeds, and between them whether anything was written. -/
def canonB : List Byte → List Bool
  | [] => []
  | x :: r => if x == LF then true :: canonB r else cF (canonB r)

def glue : List Bool → List Bool → List Bool
  | [], c => c
  | true :: a, c => true :: glue a c
  | false :: a, c => cF (glue a c)

theorem glue_cF (c d : List Bool) : glue (cF c) d = cF (glue c d) := by
  cases c with
  | nil => rfl
  | cons x r =>
    cases x
    · show cF (glue r d) = cF (cF (glue r d))
      rw [cF_idem]
    · rfl

theorem canonB_append (a b : List Byte) : canonB (a ++ b) = glue (canonB a) (canonB b) := by
  induction a with
  | nil => rfl
  | cons x r ih =>
    simp only [List.cons_append, canonB]
    split
    · simp [glue, ih]
    · rw [ih, glue_cF]

theorem canonT_tokenize (l : List Byte) : canonT (tokenize l) = canonB l := by
  fun_induction tokenize l with
  | case1 r ih => simp [canonT, isLFt, canonB, LF, ih, cF_idem]
  | case2 r ih => simp [canonT, isLFt, canonB, LF, ih, cF_idem]
  | case3 x r h1 h2 ih => simp [canonT, isLFt, canonB, ih]
  | case4 => rfl

def foldC : List Ev → List Bool → List Ev
  | evs, [] => evs
  | evs, true :: c => foldC (hEv evs) c
  | evs, false :: c => foldC (gEv evs) c

theorem foldC_cF (evs : List Ev) (c : List Bool) : foldC evs (cF c) = foldC (gEv evs) c := by
  cases c with
  | nil => rfl
  | cons x r =>
    cases x
    · show foldC (gEv evs) r = foldC (gEv (gEv evs)) r
      rw [gEv_idem]
    · rfl

theorem foldEv_eq_foldC (evs : List Ev) (t : List Tok) : foldEv evs t = foldC evs (canonT t) := by
  induction t generalizing evs with
  | nil => rfl
  | cons x r ih =>
    simp only [foldEv, canonT]
    split
    · simp [foldC, ih]
    · rw [foldC_cF, ih]

/-- Two unsafe pending strings of the same shape leave the same events. -/
theorem evT_escTok_shape (out1 out2 : List Tok) (p1 p2 : List Byte)
    (h1 : scan out1 = some true) (h2 : scan out2 = some true)
    (hev : evT out1 = evT out2) (hsh : canonB p1 = canonB p2) :
    evT (escTok true out1 (tokenize p1)) = evT (escTok true out2 (tokenize p2)) := by
  rw [evT_escTok_open _ _ h1, evT_escTok_open _ _ h2, foldEv_eq_foldC, foldEv_eq_foldC,
    canonT_tokenize, canonT_tokenize, hev, hsh]


/-! ### Relational lemmas on fully validated buffers -/

def evB (l : List Byte) : List Ev := evT (tokenize l)

theorem last_e_iff {t : List Tok} (h : scan t = some false) :
    t.getLast? = some .e ↔ (evT t).getLast? = some .cls := by
  by_cases hne : t = []
  · subst hne; simp [evT, abs]
  · obtain ⟨u, x, rfl⟩ : ∃ u x, t = u ++ [x] := ⟨t.dropLast, t.getLast hne, (List.dropLast_concat_getLast hne).symm⟩
    cases x with
    | s =>
      rw [scan_append] at h
      cases hu : scan u with
      | none => simp [hu] at h
      | some o => cases o <;> simp [hu, scanFrom] at h
    | e => simp [evT_snoc_e]
    | b y =>
      have hu : scan u = some false := by
        rw [scan_append] at h
        cases hu : scan u with
        | none => simp [hu] at h
        | some o =>
          cases o
          · rfl
          · simp only [hu, Option.bind] at h
            simp only [scanFrom] at h
            split at h <;> cases h
      rw [evT_snoc_content, closed_of_scan_false hu]
      simp [absTok]

/-- (B) closing the envelope in two related, fully validated buffers. -/
theorem endRedactable_rel (b1 b2 : Buffer) (h1 : FullOK b1 true) (h2 : FullOK b2 true)
    (hev : evB b1.buf = evB b2.buf) : evB b1.endRedactable.buf = evB b2.endRedactable.buf := by
  have hne1 : tokenize b1.buf ≠ [] := tokens_ne_nil_of_scan_true h1.sc
  have hne2 : tokenize b2.buf ≠ [] := tokens_ne_nil_of_scan_true h2.sc
  have hb1 : b1.buf.isEmpty = false := by
    cases hb : b1.buf with
    | nil => rw [hb] at hne1; simp at hne1
    | cons _ _ => rfl
  have hb2 : b2.buf.isEmpty = false := by
    cases hb : b2.buf with
    | nil => rw [hb] at hne2; simp at hne2
    | cons _ _ => rfl
  have hst := stAfter_eq_of_evT hev
  have hiff : hasSuffix b1.buf startB = true ↔ hasSuffix b2.buf startB = true := by
    rw [hasSuffix_iff, hasSuffix_iff, ← getLast_tokenize_start, ← getLast_tokenize_start,
      ← openEmpty_iff_last_s .closed _ hne1, ← openEmpty_iff_last_s .closed _ hne2]
    unfold evB at hev
    rw [hst]
  by_cases hs : hasSuffix b1.buf startB = true
  · have hs2 := hiff.1 hs
    have e1 : b1.endRedactable.buf = dropLast 3 b1.buf := by simp [Buffer.endRedactable, hb1, hs]
    have e2 : b2.endRedactable.buf = dropLast 3 b2.buf := by simp [Buffer.endRedactable, hb2, hs2]
    have hs' := (hasSuffix_iff _ _).1 hs
    have hs2' := (hasSuffix_iff _ _).1 hs2
    rw [e1, e2]
    unfold evB
    rw [tokenize_dropLast_start _ hs', tokenize_dropLast_start _ hs2']
    have l1 := snoc_of_getLast ((getLast_tokenize_start b1.buf).2 hs')
    have l2 := snoc_of_getLast ((getLast_tokenize_start b2.buf).2 hs2')
    unfold evB at hev
    rw [l1, l2, evT_snoc_s, evT_snoc_s] at hev
    exact List.append_cancel_right hev
  · have hs1 : hasSuffix b1.buf startB = false := by simpa using hs
    have hs2 : hasSuffix b2.buf startB = false := by
      cases hh : hasSuffix b2.buf startB with
      | false => rfl
      | true => exact absurd (hiff.2 hh) hs
    have e1 : b1.endRedactable.buf = b1.buf ++ endB := by simp [Buffer.endRedactable, hb1, hs1]
    have e2 : b2.endRedactable.buf = b2.buf ++ endB := by simp [Buffer.endRedactable, hb2, hs2]
    rw [e1, e2]
    unfold evB at hev ⊢
    rw [tokenize_append_endB, tokenize_append_endB, evT_snoc_e, evT_snoc_e, hev]

/-- (C) opening an envelope in two related, fully validated buffers. -/
theorem startRedactable_rel (b1 b2 : Buffer) (h1 : FullOK b1 false) (h2 : FullOK b2 false)
    (hev : evB b1.buf = evB b2.buf) : evB b1.startRedactable.buf = evB b2.startRedactable.buf := by
  have hiff : hasSuffix b1.buf endB = true ↔ hasSuffix b2.buf endB = true := by
    rw [hasSuffix_iff, hasSuffix_iff, ← getLast_tokenize_end, ← getLast_tokenize_end,
      last_e_iff h1.sc, last_e_iff h2.sc]
    unfold evB at hev
    rw [hev]
  by_cases hs : hasSuffix b1.buf endB = true
  · have hs2 := hiff.1 hs
    have e1 : b1.startRedactable.buf = dropLast 3 b1.buf := by simp [Buffer.startRedactable, hs]
    have e2 : b2.startRedactable.buf = dropLast 3 b2.buf := by simp [Buffer.startRedactable, hs2]
    have hs' := (hasSuffix_iff _ _).1 hs
    have hs2' := (hasSuffix_iff _ _).1 hs2
    rw [e1, e2]
    unfold evB
    rw [tokenize_dropLast_end _ hs', tokenize_dropLast_end _ hs2']
    have l1 := snoc_of_getLast ((getLast_tokenize_end b1.buf).2 hs')
    have l2 := snoc_of_getLast ((getLast_tokenize_end b2.buf).2 hs2')
    unfold evB at hev
    rw [l1, l2, evT_snoc_e, evT_snoc_e] at hev
    exact List.append_cancel_right hev
  · have hs1 : hasSuffix b1.buf endB = false := by simpa using hs
    have hs2 : hasSuffix b2.buf endB = false := by
      cases hh : hasSuffix b2.buf endB with
      | false => rfl
      | true => exact absurd (hiff.2 hh) hs
    have e1 : b1.startRedactable.buf = b1.buf ++ startB := by simp [Buffer.startRedactable, hs1]
    have e2 : b2.startRedactable.buf = b2.buf ++ startB := by simp [Buffer.startRedactable, hs2]
    rw [e1, e2]
    unfold evB at hev ⊢
    rw [tokenize_append_startB, tokenize_append_startB, evT_snoc_s, evT_snoc_s, hev]


/-! ### The tail test is public -/

/-- `tailBad` on the reversed list. -/
def tbR : List Byte → Bool
  | [] => false
  | last :: rev =>
    if last < 0x80 then false
    else
      let back := backScan 3 rev 0
      let back := if back > rev.length then rev.length else back
      let window := (rev.take back).reverse ++ [last]
      let (_, size) := decodeRune window
      if size != window.length then true
      else
        let (err, sz) := decodeRune window
        err && sz == 1

theorem tailBad_eq_tbR (l : List Byte) : tailBad l = tbR l.reverse := by
  unfold tailBad tbR
  cases l.reverse <;> rfl

/-- The tail test looks at the last five bytes at most. -/
theorem tbR_append (a b c d e : Byte) (r x : List Byte) :
    tbR (a :: b :: c :: d :: e :: (r ++ x)) = tbR (a :: b :: c :: d :: e :: r) := by
  have n1 : ∀ k, k ≤ 4 → ¬ (r.length + x.length + 1 + 1 + 1 + 1 < k) := by intro k hk; omega
  have n2 : ∀ k, k ≤ 4 → ¬ (r.length + 1 + 1 + 1 + 1 < k) := by intro k hk; omega
  unfold tbR
  by_cases hb : runeStart b = true
  · simp [backScan, hb]
  · by_cases hc : runeStart c = true
    · simp [backScan, hb, hc, n1 2 (by omega), n2 2 (by omega)]
    · by_cases hd : runeStart d = true
      · simp [backScan, hb, hc, hd, n1 3 (by omega), n2 3 (by omega)]
      · simp [backScan, hb, hc, hd, n1 4 (by omega), n2 4 (by omega)]


theorem tbR_append' (r x : List Byte) (h : 5 ≤ r.length) : tbR (r ++ x) = tbR r := by
  match r, h with
  | a :: b :: c :: d :: e :: r', _ => exact tbR_append a b c d e r' x

theorem runeStart_BA : runeStart 0xBA = false := by decide
theorem runeStart_80 : runeStart 0x80 = false := by decide

/-- An end marker shields the tail test from everything before it. -/
theorem tailBad_shield (A w : List Byte) : tailBad (A ++ (endB ++ w)) = tailBad (endB ++ w) := by
  rw [tailBad_eq_tbR, tailBad_eq_tbR]
  simp only [List.reverse_append]
  have he : endB.reverse = [0xBA, 0x80, 0xE2] := rfl
  rw [he]
  match hw : w.reverse with
  | [] =>
    simp only [List.nil_append]
    have n : ¬ (A.length + 1 + 1 < 2) := by omega
    unfold tbR
    simp [backScan, runeStart_BA, runeStart_80, runeStart_E2, n]
  | [a] =>
    have n : ¬ (A.length + 1 + 1 + 1 < 3) := by omega
    unfold tbR
    simp [backScan, runeStart_BA, runeStart_80, runeStart_E2, n]
  | a :: b :: rest =>
    exact tbR_append' _ _ (by simp)


theorem tailBad_startB (x : List Byte) : tailBad (x ++ startB) = false := by
  rw [tailBad_eq_tbR]
  simp only [List.reverse_append]
  have he : startB.reverse = [0xB9, 0x80, 0xE2] := rfl
  rw [he]
  have n : ¬ (x.length + 1 + 1 < 2) := by omega
  unfold tbR
  simp [backScan, runeStart_80, runeStart_E2, n]
  decide

theorem tailBad_lf (x : List Byte) : tailBad (x ++ [LF]) = false := by
  rw [tailBad_eq_tbR]
  simp [tbR, LF]

/-- The bytes after (and including) the last end marker, or everything when there is none:
a function of the public events. -/
def tailE : List Byte → List Ev → List Byte
  | acc, [] => acc
  | _, .cls :: r => tailE endB r
  | acc, .out x :: r => tailE (acc ++ [x]) r
  | _, .opn :: r => tailE [] r
  | _, .full :: r => tailE [] r

theorem pubTail (T : List Tok) : ∀ (st : St) (acc done : List Byte),
    (st = .closed → ∃ A, done = A ++ acc ∧ (A = [] ∨ endB <+: acc)) →
    stAfter st T = .closed →
    ∃ A, done ++ untok T = A ++ tailE acc (abs st T) ∧ (A = [] ∨ endB <+: tailE acc (abs st T)) := by
  induction T with
  | nil =>
    intro st acc done hP hst
    simp only [stAfter] at hst
    simpa [abs, tailE] using hP hst
  | cons t r ih =>
    intro st acc done hP hst
    simp only [stAfter] at hst
    cases t with
    | e =>
      have := ih .closed endB (done ++ endB) (fun _ => ⟨done, rfl, Or.inr (List.prefix_refl _)⟩)
        (by cases st <;> exact hst)
      obtain ⟨A, hA, hB⟩ := this
      refine ⟨A, ?_, ?_⟩
      · simp only [untok_cons, Tok.bytes, ← List.append_assoc]
        rw [hA]; cases st <;> rfl
      · cases st <;> exact hB
    | s =>
      have := ih .openEmpty [] (done ++ startB) (fun h => by cases h) (by cases st <;> exact hst)
      obtain ⟨A, hA, hB⟩ := this
      refine ⟨A, ?_, ?_⟩
      · simp only [untok_cons, Tok.bytes, ← List.append_assoc]
        rw [hA]; cases st <;> rfl
      · cases st <;> exact hB
    | b x =>
      cases st with
      | closed =>
        obtain ⟨A0, h0, h0'⟩ := hP rfl
        have := ih .closed (acc ++ [x]) (done ++ [x])
          (fun _ => ⟨A0, by rw [h0, List.append_assoc], h0'.imp id (fun h => h.trans (List.prefix_append _ _))⟩) hst
        obtain ⟨A, hA, hB⟩ := this
        refine ⟨A, ?_, hB⟩
        simp only [untok_cons, Tok.bytes, ← List.append_assoc]
        rw [hA]; rfl
      | openEmpty =>
        have := ih .openFull [] (done ++ [x]) (fun h => by cases h) hst
        obtain ⟨A, hA, hB⟩ := this
        refine ⟨A, ?_, hB⟩
        simp only [untok_cons, Tok.bytes, ← List.append_assoc]
        rw [hA]; rfl
      | openFull =>
        have := ih .openFull acc (done ++ [x]) (fun h => by cases h) hst
        obtain ⟨A, hA, hB⟩ := this
        refine ⟨A, ?_, hB⟩
        simp only [untok_cons, Tok.bytes, ← List.append_assoc]
        rw [hA]; rfl

/-- The tail test of a closed buffer plus public pending bytes is public. -/
theorem tailBad_public (p1 p2 suf : List Byte)
    (h1 : scan (tokenize p1) = some false) (h2 : scan (tokenize p2) = some false)
    (hev : evB p1 = evB p2) : tailBad (p1 ++ suf) = tailBad (p2 ++ suf) := by
  obtain ⟨A1, e1, c1⟩ := pubTail (tokenize p1) .closed [] [] (fun _ => ⟨[], rfl, Or.inl rfl⟩) (closed_of_scan_false h1)
  obtain ⟨A2, e2, c2⟩ := pubTail (tokenize p2) .closed [] [] (fun _ => ⟨[], rfl, Or.inl rfl⟩) (closed_of_scan_false h2)
  simp only [List.nil_append, untok_tokenize] at e1 e2
  have hc : tailE [] (abs .closed (tokenize p1)) = tailE [] (abs .closed (tokenize p2)) := by
    unfold evB evT at hev; rw [hev]
  rw [hc] at e1 c1
  generalize tailE [] (abs .closed (tokenize p2)) = c at e1 e2 c1 c2
  by_cases hp : endB <+: c
  · obtain ⟨w, rfl⟩ := hp
    rw [e1, e2, List.append_assoc, List.append_assoc, List.append_assoc, List.append_assoc,
      tailBad_shield, tailBad_shield]
  · have a1 : A1 = [] := c1.resolve_right hp
    have a2 : A2 = [] := c2.resolve_right hp
    rw [e1, e2, a1, a2]


/-! ### `escapeToEnd` on related buffers -/

/-- Relation between what two runs have pending, by mode: unsafe bytes need only have the
same shape; safe bytes are equal; pre-redactable fragments have the same public events. -/
def PendRel (m : Mode) (s1 s2 : List Byte) : Prop :=
  if m = .unsafeEsc then canonB s1 = canonB s2 else if m = .raw then evB s1 = evB s2 else s1 = s2

/-- Two buffer states a low observer cannot tell apart. -/
structure BRel (b1 b2 : Buffer) : Prop where
  i1 : Inv b1
  i2 : Inv b2
  mode : b1.mode = b2.mode
  mo : b1.markerOpen = b2.markerOpen
  ev : evB b1.pre = evB b2.pre
  pend : PendRel b1.mode b1.suf b2.suf

theorem escTok_last_s (out rest : List Tok) (h : (escTok true out rest).getLast? = some .s) :
    (rest = [] ∧ out.getLast? = some .s) ∨ rest.getLast? = some (.b LF) := by
  induction rest generalizing out with
  | nil => exact Or.inl ⟨rfl, by simpa [escTok] using h⟩
  | cons t r ih =>
    have key : ∀ out', escTok true out (t :: r) = escTok true out' r →
        (out'.getLast? = some .s → t = .b LF) → (t :: r).getLast? = some (.b LF) := by
      intro out' he hl
      rw [he] at h
      rcases ih out' h with ⟨rfl, h2⟩ | h2
      · simp [hl h2]
      · cases r with
        | nil => simp at h2
        | cons y r' => simpa [List.getLast?_cons_cons] using h2
    right
    cases t with
    | s => exact key (out ++ [.b 0x3F]) (by simp [escTok]) (by simp)
    | e => exact key (out ++ [.b 0x3F]) (by simp [escTok]) (by simp)
    | b x =>
      by_cases hx : x = LF
      · subst hx
        exact key ((if out.getLast? = some .s then out.dropLast else out ++ [.e]) ++ [.b LF, .s])
          (by simp [escTok]) (fun _ => rfl)
      · have hb : (x == LF) = false := by simpa using hx
        exact key (out ++ [.b x]) (by simp [escTok, hb]) (by simp)

theorem tokenize_eq_nil {l : List Byte} (h : tokenize l = []) : l = [] := by
  have := untok_tokenize l; rw [h] at this; simpa using this.symm

theorem buf_eq_pre_suf (b : Buffer) : b.buf = b.pre ++ b.suf := by simp [Buffer.pre, Buffer.suf]

/-- A bad tail is never reported right after a start marker. -/
theorem not_openEmpty_of_tailBad (b : Buffer) (hsc : scan (tokenize b.pre) = some true)
    (htb : tailBad b.buf = true) :
    stAfter .closed (escTok true (tokenize b.pre) (tokenize b.suf)) ≠ .openEmpty := by
  intro hst
  have hR : scan (escTok true (tokenize b.pre) (tokenize b.suf)) = some true := scan_escTok_open _ _ hsc
  have hne := tokens_ne_nil_of_scan_true hR
  have hl := (openEmpty_iff_last_s .closed _ hne).1 hst
  rcases escTok_last_s _ _ hl with ⟨h1, h2⟩ | h2
  · have hs : b.suf = [] := tokenize_eq_nil h1
    have hp : startB <:+ b.pre := (getLast_tokenize_start _).1 h2
    obtain ⟨x, hx⟩ := hp
    rw [buf_eq_pre_suf, hs, List.append_nil, ← hx, tailBad_startB] at htb
    cases htb
  · have hsn := snoc_of_getLast h2
    have : b.suf = untok (tokenize b.suf).dropLast ++ [LF] := by
      conv => lhs; rw [← untok_tokenize b.suf, hsn, untok_append]
      rfl
    rw [buf_eq_pre_suf, this, ← List.append_assoc, tailBad_lf] at htb
    cases htb

theorem escapeToEnd_rel (b1 b2 : Buffer) (h : BRel b1 b2) (hm : b1.mode ≠ .raw) :
    evB (b1.escapeToEnd (decide (b1.mode = .unsafeEsc))).buf =
    evB (b2.escapeToEnd (decide (b2.mode = .unsafeEsc))).buf := by
  have s1 := (escapeBytesAt_spec b1.buf b1.validUntil (decide (b1.mode = .unsafeEsc)) h.i1.good).1
  have s2 := (escapeBytesAt_spec b2.buf b2.validUntil (decide (b2.mode = .unsafeEsc)) h.i2.good).1
  have hb1 : (b1.escapeToEnd (decide (b1.mode = .unsafeEsc))).buf = escapeBytesAt b1.buf b1.validUntil (decide (b1.mode = .unsafeEsc)) false := rfl
  have hb2 : (b2.escapeToEnd (decide (b2.mode = .unsafeEsc))).buf = escapeBytesAt b2.buf b2.validUntil (decide (b2.mode = .unsafeEsc)) false := rfl
  unfold evB
  rw [hb1, hb2, s1, s2]
  have hsc1 := h.i1.sc
  have hsc2 := h.i2.sc
  have hev := h.ev
  unfold evB at hev
  change scan (tokenize b1.pre) = _ at hsc1
  change scan (tokenize b2.pre) = _ at hsc2
  show evT (if tailBad b1.buf = true then escTok _ (tokenize b1.pre) (tokenize b1.suf) ++ [.b 0x3F] else escTok _ (tokenize b1.pre) (tokenize b1.suf))
     = evT (if tailBad b2.buf = true then escTok _ (tokenize b2.pre) (tokenize b2.suf) ++ [.b 0x3F] else escTok _ (tokenize b2.pre) (tokenize b2.suf))
  cases ho : b1.markerOpen with
  | true =>
    have ho2 : b2.markerOpen = true := by rw [← h.mo, ho]
    have hu1 := h.i1.openMode ho
    have hu2 := h.i2.openMode ho2
    rw [ho] at hsc1; rw [ho2] at hsc2
    have hp : canonB b1.suf = canonB b2.suf := by have := h.pend; simpa [PendRel, hu1] using this
    simp only [hu1, hu2, decide_true]
    have hR := evT_escTok_shape _ _ b1.suf b2.suf hsc1 hsc2 hev hp
    have q : ∀ (b : Buffer), scan (tokenize b.pre) = some true →
        evT (if tailBad b.buf = true then escTok true (tokenize b.pre) (tokenize b.suf) ++ [.b 0x3F]
          else escTok true (tokenize b.pre) (tokenize b.suf)) = evT (escTok true (tokenize b.pre) (tokenize b.suf)) := by
      intro b hsc
      split
      · rename_i htb
        rw [evT_snoc_open _ _ (scan_escTok_open _ _ hsc)]
        unfold gEv
        rw [evState_evT, if_neg (not_openEmpty_of_tailBad b hsc htb)]
      · rfl
    rw [q b1 hsc1, q b2 hsc2, hR]
  | false =>
    have ho2 : b2.markerOpen = false := by rw [← h.mo, ho]
    rw [ho] at hsc1; rw [ho2] at hsc2
    have hsuf : b1.suf = b2.suf := by
      by_cases hu : b1.mode = .unsafeEsc
      · rw [h.i1.closedEmpty hu ho, h.i2.closedEmpty (h.mode ▸ hu) ho2]
      · have := h.pend; simpa [PendRel, hu, hm] using this
    have htb : tailBad b1.buf = tailBad b2.buf := by
      rw [buf_eq_pre_suf b1, buf_eq_pre_suf b2, hsuf]
      exact tailBad_public _ _ _ hsc1 hsc2 h.ev
    have hR : evT (escTok (decide (b1.mode = .unsafeEsc)) (tokenize b1.pre) (tokenize b1.suf))
        = evT (escTok (decide (b2.mode = .unsafeEsc)) (tokenize b2.pre) (tokenize b2.suf)) := by
      by_cases hu : b1.mode = .unsafeEsc
      · have hu2 : b2.mode = .unsafeEsc := h.mode ▸ hu
        rw [h.i1.closedEmpty hu ho, h.i2.closedEmpty hu2 ho2]
        simpa [escTok] using hev
      · have hu2 : ¬ b2.mode = .unsafeEsc := fun hh => hu (h.mode ▸ hh)
        simp only [hu, hu2, decide_false]
        rw [escTok_false_eq, escTok_false_eq, hsuf]
        unfold evT
        rw [abs_append, abs_append, closed_of_scan_false hsc1, closed_of_scan_false hsc2]
        unfold evT at hev
        rw [hev]
    have hsR1 : scan (escTok (decide (b1.mode = .unsafeEsc)) (tokenize b1.pre) (tokenize b1.suf)) = some false := by
      by_cases hu : b1.mode = .unsafeEsc
      · rw [h.i1.closedEmpty hu ho]; simpa [escTok] using hsc1
      · simp only [hu, decide_false]; exact scan_escTok_closed _ _ hsc1
    have hsR2 : scan (escTok (decide (b2.mode = .unsafeEsc)) (tokenize b2.pre) (tokenize b2.suf)) = some false := by
      by_cases hu : b2.mode = .unsafeEsc
      · rw [h.i2.closedEmpty hu ho2]; simpa [escTok] using hsc2
      · simp only [hu, decide_false]; exact scan_escTok_closed _ _ hsc2
    rw [htb]
    split
    · rw [evT_snoc_content, evT_snoc_content, closed_of_scan_false hsR1, closed_of_scan_false hsR2, hR]
    · exact hR


/-! ### Operations on related buffers -/

theorem pendRel_nil (m : Mode) : PendRel m [] [] := by
  unfold PendRel
  split
  · rfl
  · split <;> rfl

theorem brel_of_full (b1 b2 : Buffer) (h1 : FullOK b1 false) (h2 : FullOK b2 false)
    (hm : b1.mode = b2.mode) (o1 : b1.markerOpen = false) (o2 : b2.markerOpen = false)
    (hev : evB b1.buf = evB b2.buf) : BRel b1 b2 := by
  refine ⟨inv_of_full_closed _ h1 o1, inv_of_full_closed _ h2 o2, hm, by rw [o1, o2], ?_, ?_⟩
  · rw [pre_of_full h1.full, pre_of_full h2.full]; exact hev
  · rw [suf_of_full h1.full, suf_of_full h2.full]; exact pendRel_nil _

theorem finalize_rel (b1 b2 : Buffer) (h : BRel b1 b2) : evB b1.finalize.buf = evB b2.finalize.buf := by
  by_cases hm : b1.mode = .raw
  · have hm2 : b2.mode = .raw := h.mode ▸ hm
    have ⟨_, o1⟩ := full_of_raw b1 h.i1 hm
    have ⟨_, o2⟩ := full_of_raw b2 h.i2 hm2
    rw [finalize_raw b1 hm o1, finalize_raw b2 hm2 o2]
    show evB b1.buf = evB b2.buf
    have hs : evB b1.suf = evB b2.suf := by have := h.pend; simpa [PendRel, hm] using this
    unfold evB evT at hs
    have t1 : tokenize b1.buf = tokenize b1.pre ++ tokenize b1.suf := by
      rw [buf_eq_pre_suf b1]; exact tokenize_append_of_not_straddles _ _ (not_straddles_of_goodT _ _ h.i1.good)
    have t2 : tokenize b2.buf = tokenize b2.pre ++ tokenize b2.suf := by
      rw [buf_eq_pre_suf b2]; exact tokenize_append_of_not_straddles _ _ (not_straddles_of_goodT _ _ h.i2.good)
    have c1 := h.i1.sc; have c2 := h.i2.sc
    rw [o1] at c1; rw [o2] at c2
    unfold evB evT
    rw [t1, t2, abs_append, abs_append, closed_of_scan_false c1, closed_of_scan_false c2, hs]
    have := h.ev; unfold evB evT at this; rw [this]
  · have hm2 : b2.mode ≠ .raw := fun hh => hm (h.mode ▸ hh)
    have hE := escapeToEnd_rel b1 b2 h hm
    cases ho : b1.markerOpen with
    | false =>
      have ho2 : b2.markerOpen = false := by rw [← h.mo, ho]
      rw [finalize_esc_closed b1 hm ho, finalize_esc_closed b2 hm2 ho2]; exact hE
    | true =>
      have ho2 : b2.markerOpen = true := by rw [← h.mo, ho]
      rw [finalize_esc_open b1 hm ho, finalize_esc_open b2 hm2 ho2]
      have ⟨f1, _, _⟩ := escapeToEnd_full b1 h.i1
      have ⟨f2, _, _⟩ := escapeToEnd_full b2 h.i2
      rw [ho] at f1; rw [ho2] at f2
      exact endRedactable_rel _ _ f1 f2 hE

/-- `SetMode` to a different mode leaves the bytes `finalize` would leave. -/
theorem setMode_buf (b : Buffer) (m : Mode) (hi : Inv b) (hne : b.mode ≠ m) :
    (b.setMode m).buf = b.finalize.buf ∧ (b.setMode m).validUntil = (b.setMode m).buf.length
      ∧ (b.setMode m).markerOpen = false := by
  by_cases hm : b.mode = .raw
  · have ⟨_, ho⟩ := full_of_raw b hi hm
    rw [setMode_raw b m hne hm ho, finalize_raw b hm ho]
    exact ⟨rfl, rfl, ho⟩
  · cases ho : b.markerOpen with
    | false =>
      rw [setMode_esc_closed b m hne hm ho, finalize_esc_closed b hm ho]
      exact ⟨rfl, rfl, by simp [escapeToEnd_markerOpen, ho]⟩
    | true =>
      rw [setMode_esc_open b m hne hm ho, finalize_esc_open b hm ho]
      have ⟨hf, _, _⟩ := escapeToEnd_full b hi
      rw [ho] at hf
      have ⟨_, _, hmo, _⟩ := endRedactable_full _ hf
      exact ⟨rfl, rfl, hmo⟩

theorem setMode_rel (b1 b2 : Buffer) (m : Mode) (h : BRel b1 b2) : BRel (b1.setMode m) (b2.setMode m) := by
  by_cases hsame : b1.mode = m
  · rw [setMode_same b1 m hsame, setMode_same b2 m (h.mode ▸ hsame)]; exact h
  · have hsame2 : b2.mode ≠ m := fun hh => hsame (h.mode ▸ hh)
    have ⟨e1, v1, o1⟩ := setMode_buf b1 m h.i1 hsame
    have ⟨e2, v2, o2⟩ := setMode_buf b2 m h.i2 hsame2
    have ⟨f1, _, _⟩ := finalize_full b1 h.i1
    have ⟨f2, _, _⟩ := finalize_full b2 h.i2
    refine brel_of_full _ _ ⟨v1, by rw [e1]; exact f1.good, by rw [e1]; exact f1.sc⟩
      ⟨v2, by rw [e2]; exact f2.good, by rw [e2]; exact f2.sc⟩
      (by rw [setMode_mode, setMode_mode]) o1 o2 ?_
    rw [e1, e2]; exact finalize_rel b1 b2 h

theorem startWrite_rel (b1 b2 : Buffer) (h : BRel b1 b2) : BRel b1.startWrite b2.startWrite := by
  by_cases hc : b1.mode = .unsafeEsc ∧ b1.markerOpen = false
  · have hc2 : b2.mode = .unsafeEsc ∧ b2.markerOpen = false := ⟨h.mode ▸ hc.1, h.mo ▸ hc.2⟩
    have ⟨j1, m1, _, _⟩ := inv_startWrite b1 h.i1
    have ⟨j2, m2, _, _⟩ := inv_startWrite b2 h.i2
    have hf1 := full_of_suf_nil h.i1.le (h.i1.closedEmpty hc.1 hc.2)
    have hf2 := full_of_suf_nil h.i2.le (h.i2.closedEmpty hc2.1 hc2.2)
    have F1 : FullOK b1 false := ⟨hf1, by have := h.i1.good; rwa [pre_of_full hf1] at this,
      by have := h.i1.sc; rwa [pre_of_full hf1, hc.2] at this⟩
    have F2 : FullOK b2 false := ⟨hf2, by have := h.i2.good; rwa [pre_of_full hf2] at this,
      by have := h.i2.sc; rwa [pre_of_full hf2, hc2.2] at this⟩
    have hev : evB b1.buf = evB b2.buf := by
      have := h.ev; rwa [pre_of_full hf1, pre_of_full hf2] at this
    have hS := startRedactable_rel b1 b2 F1 F2 hev
    have ⟨_, _, mo1, _⟩ := startRedactable_full b1 F1
    have ⟨_, _, mo2, _⟩ := startRedactable_full b2 F2
    refine ⟨j1, j2, by rw [m1, m2, h.mode], ?_, ?_, ?_⟩
    · rw [startWrite_open b1 hc, startWrite_open b2 hc2]; show b1.startRedactable.markerOpen = b2.startRedactable.markerOpen
      rw [mo1, mo2]
    · rw [startWrite_open b1 hc, startWrite_open b2 hc2]
      show evB (List.take b1.startRedactable.buf.length b1.startRedactable.buf) = evB (List.take b2.startRedactable.buf.length b2.startRedactable.buf)
      simpa using hS
    · rw [startWrite_open b1 hc, startWrite_open b2 hc2]
      show PendRel _ (List.drop b1.startRedactable.buf.length b1.startRedactable.buf) (List.drop b2.startRedactable.buf.length b2.startRedactable.buf)
      simpa using pendRel_nil _
  · have hc2 : ¬ (b2.mode = .unsafeEsc ∧ b2.markerOpen = false) := fun hh => hc ⟨h.mode ▸ hh.1, h.mo ▸ hh.2⟩
    rw [startWrite_noop b1 hc, startWrite_noop b2 hc2]; exact h

theorem append_rel (b1 b2 : Buffer) (p1 p2 : List Byte) (h : BRel b1 b2)
    (hc : ¬ (b1.mode = .unsafeEsc ∧ b1.markerOpen = false))
    (hp : PendRel b1.mode p1 p2) (hr1 : b1.mode = .raw → Obtainable p1) (hr2 : b1.mode = .raw → Obtainable p2) :
    BRel (b1.append p1) (b2.append p2) := by
  have hc2 : ¬ (b2.mode = .unsafeEsc ∧ b2.markerOpen = false) := fun hh => hc ⟨h.mode ▸ hh.1, h.mo ▸ hh.2⟩
  have j1 := inv_append b1 p1 h.i1 hc hr1
  have j2 := inv_append b2 p2 h.i2 hc2 (fun hh => hr2 (h.mode ▸ hh))
  have hpre1 : (b1.append p1).pre = b1.pre := by
    simp [Buffer.append, Buffer.pre, List.take_append_of_le_length h.i1.le]
  have hpre2 : (b2.append p2).pre = b2.pre := by
    simp [Buffer.append, Buffer.pre, List.take_append_of_le_length h.i2.le]
  have hsuf1 : (b1.append p1).suf = b1.suf ++ p1 := by
    simp [Buffer.append, Buffer.suf, List.drop_append_of_le_length h.i1.le]
  have hsuf2 : (b2.append p2).suf = b2.suf ++ p2 := by
    simp [Buffer.append, Buffer.suf, List.drop_append_of_le_length h.i2.le]
  refine ⟨j1, j2, h.mode, h.mo, by rw [hpre1, hpre2]; exact h.ev, ?_⟩
  rw [hsuf1, hsuf2]
  show PendRel b1.mode _ _
  have := h.pend
  unfold PendRel at this hp ⊢
  split
  · rename_i hu
    rw [if_pos hu] at this hp
    rw [canonB_append, canonB_append, this, hp]
  · rename_i hu
    rw [if_neg hu] at this hp
    split
    · rename_i hraw
      rw [if_pos hraw] at this hp
      have o1 := h.i1.raw hraw
      have o2 := h.i2.raw (h.mode ▸ hraw)
      have t1 := tokenize_append_of_not_straddles b1.suf p1 (not_straddles_of_goodT _ _ o1.1)
      have t2 := tokenize_append_of_not_straddles b2.suf p2 (not_straddles_of_goodT _ _ o2.1)
      unfold evB evT at this hp ⊢
      rw [t1, t2, abs_append, abs_append, closed_of_scan_false o1.2, closed_of_scan_false o2.2, this, hp]
    · rename_i hraw
      rw [if_neg hraw] at this hp
      rw [this, hp]

theorem write_rel (b1 b2 : Buffer) (p1 p2 : List Byte) (h : BRel b1 b2)
    (hp : PendRel b1.mode p1 p2) (hr1 : b1.mode = .raw → Obtainable p1) (hr2 : b1.mode = .raw → Obtainable p2) :
    BRel (b1.write p1) (b2.write p2) := by
  have ⟨_, m1, hc, _⟩ := inv_startWrite b1 h.i1
  exact append_rel _ _ p1 p2 (startWrite_rel b1 b2 h) hc (m1 ▸ hp) (fun hh => hr1 (m1 ▸ hh)) (fun hh => hr2 (m1 ▸ hh))


/-! ### Shapes of single bytes and runes -/

theorem ofNat_ne_LF_of_ge (v : Nat) (h1 : 128 ≤ v) (h2 : v < 256) : UInt8.ofNat v ≠ LF := by
  intro h
  have := congrArg UInt8.toNat h
  simp [LF, UInt8.toNat_ofNat'] at this
  omega

theorem or_ne_LF (K m : Nat) (h1 : 128 ≤ K) (hK : K < 256) (hm : m < 256) : UInt8.ofNat (K ||| m) ≠ LF :=
  ofNat_ne_LF_of_ge _ (Nat.le_trans h1 Nat.left_le_or) (Nat.or_lt_two_pow (n := 8) hK hm)

theorem and3F_lt (n : Nat) : n &&& 0x3F < 256 := Nat.lt_of_le_of_lt Nat.and_le_right (by decide)

theorem encodeRune_no_LF (r : Int) (hr : r ≠ 10) : ∀ x ∈ encodeRune r, x ≠ LF := by
  unfold encodeRune runeLen
  split
  · intro x hx
    simp [runeErrorB] at hx
    rcases hx with rfl | rfl | rfl <;> decide
  · rename_i h
    have h0 : 0 ≤ r ∧ r ≤ 127 := by
      split at h; · cases h
      split at h; · constructor <;> omega
      split at h; · cases h
      split at h; · cases h
      split at h; · cases h
      split at h <;> cases h
    intro x hx
    simp at hx
    subst hx
    intro hh
    have := congrArg UInt8.toNat hh
    simp [LF, UInt8.toNat_ofNat'] at this
    omega
  · rename_i h
    have h0 : 0 ≤ r ∧ r ≤ 2047 := by
      split at h; · cases h
      split at h; · cases h
      split at h; · constructor <;> omega
      split at h; · cases h
      split at h; · cases h
      split at h <;> cases h
    intro x hx
    have hn : r.toNat >>> 6 < 256 := by
      rw [Nat.shiftRight_eq_div_pow]; omega
    simp only [List.mem_cons, List.not_mem_nil, or_false] at hx
    rcases hx with rfl | rfl
    · refine or_ne_LF _ _ ?_ ?_ hn <;> decide
    · refine or_ne_LF _ _ ?_ ?_ (and3F_lt _) <;> decide
  · rename_i h
    have h0 : 0 ≤ r ∧ r ≤ 65535 := by
      split at h; · cases h
      split at h; · cases h
      split at h; · cases h
      split at h; · cases h
      split at h; · constructor <;> omega
      split at h <;> cases h
    intro x hx
    have hn : r.toNat >>> 12 < 256 := by
      rw [Nat.shiftRight_eq_div_pow]; omega
    simp only [List.mem_cons, List.not_mem_nil, or_false] at hx
    rcases hx with rfl | rfl | rfl
    · refine or_ne_LF _ _ ?_ ?_ hn <;> decide
    · refine or_ne_LF _ _ ?_ ?_ (and3F_lt _) <;> decide
    · refine or_ne_LF _ _ ?_ ?_ (and3F_lt _) <;> decide
  · rename_i _ _ _ h
    have h0 : 0 ≤ r ∧ r ≤ 1114111 := by
      split at h; · cases h
      split at h; · constructor <;> omega
      split at h; · constructor <;> omega
      split at h; · cases h
      split at h; · constructor <;> omega
      split at h
      · constructor <;> omega
      · cases h
    intro x hx
    have hn : r.toNat >>> 18 < 256 := by
      rw [Nat.shiftRight_eq_div_pow]; omega
    simp only [List.mem_cons, List.not_mem_nil, or_false] at hx
    rcases hx with rfl | rfl | rfl | rfl
    · refine or_ne_LF _ _ ?_ ?_ hn <;> decide
    · refine or_ne_LF _ _ ?_ ?_ (and3F_lt _) <;> decide
    · refine or_ne_LF _ _ ?_ ?_ (and3F_lt _) <;> decide
    · refine or_ne_LF _ _ ?_ ?_ (and3F_lt _) <;> decide


theorem canonB_no_LF (l : List Byte) (hne : l ≠ []) (h : ∀ x ∈ l, x ≠ LF) : canonB l = [false] := by
  induction l with
  | nil => exact absurd rfl hne
  | cons x r ih =>
    have hx : (x == LF) = false := by simpa using h x (by simp)
    simp only [canonB, hx, Bool.false_eq_true, if_false]
    cases r with
    | nil => rfl
    | cons y r' => rw [ih (by simp) (fun z hz => h z (by simp [hz]))]; rfl

theorem encodeRune_ne_nil (r : Int) : encodeRune r ≠ [] := by
  unfold encodeRune
  split <;> simp [runeErrorB]

theorem encodeRune_LF : encodeRune 10 = [LF] := by decide

/-- The shape of an encoded rune: a line feed or one non-empty segment. -/
theorem canonB_encodeRune (r : Int) : canonB (encodeRune r) = if r = 10 then [true] else [false] := by
  split
  · rename_i h; subst h; rw [encodeRune_LF]; rfl
  · rename_i h; exact canonB_no_LF _ (encodeRune_ne_nil r) (encodeRune_no_LF r h)

theorem startWrite_idem (b : Buffer) (hi : Inv b) : b.startWrite.startWrite = b.startWrite := by
  have ⟨_, _, hc, _⟩ := inv_startWrite b hi
  exact startWrite_noop _ hc

/-- What `WriteByte` appends. -/
def byteEff (m : Mode) (x : Byte) : List Byte := if m = .unsafeEsc ∧ x ≥ 0x80 then escB else [x]

theorem writeByte_eq (b : Buffer) (x : Byte) (hi : Inv b) :
    b.writeByte x = b.startWrite.append (byteEff b.mode x) := by
  have ⟨_, hm, _, _⟩ := inv_startWrite b hi
  unfold Buffer.writeByte byteEff
  simp only [hm]
  split
  · unfold Buffer.write; rw [startWrite_idem b hi]
  · rfl

theorem canonB_byteEff_unsafe (x : Byte) : canonB (byteEff .unsafeEsc x) = if x = LF then [true] else [false] := by
  unfold byteEff
  by_cases hx : x ≥ 0x80
  · have : x ≠ LF := by
      intro h; subst h; revert hx; decide
    rw [if_pos ⟨rfl, hx⟩, if_neg this]; rfl
  · by_cases hl : x = LF
    · simp [hx, hl, canonB, LF]
    · have hb : (x == LF) = false := by simpa using hl
      simp [hx, hl, canonB, hb, cF]


theorem writeByte_rel (b1 b2 : Buffer) (x1 x2 : Byte) (h : BRel b1 b2)
    (hr : if b1.mode = .unsafeEsc then (x1 = LF ↔ x2 = LF) else x1 = x2)
    (k1 : b1.mode = .raw → Obtainable [x1]) (k2 : b1.mode = .raw → Obtainable [x2]) :
    BRel (b1.writeByte x1) (b2.writeByte x2) := by
  rw [writeByte_eq b1 x1 h.i1, writeByte_eq b2 x2 h.i2]
  have ⟨_, m1, hc, _⟩ := inv_startWrite b1 h.i1
  have hm := h.mode
  refine append_rel _ _ _ _ (startWrite_rel b1 b2 h) hc ?_ ?_ ?_
  · rw [m1]
    unfold PendRel
    split
    · rename_i hu
      rw [if_pos hu] at hr
      rw [← hm, hu, canonB_byteEff_unsafe, canonB_byteEff_unsafe]
      by_cases h1 : x1 = LF
      · simp [h1, hr.1 h1]
      · have : ¬ x2 = LF := fun h2 => h1 (hr.2 h2)
        simp [h1, this]
    · rename_i hu
      rw [if_neg hu] at hr
      rw [← hm, hr]
      split <;> rfl
  · intro hh
    rw [m1] at hh
    have : byteEff b1.mode x1 = [x1] := by simp [byteEff, hh]
    rw [this]; exact k1 hh
  · intro hh
    rw [m1] at hh
    have : byteEff b2.mode x2 = [x2] := by simp [byteEff, ← hm, hh]
    rw [this]; exact k2 hh

theorem writeRune_rel (b1 b2 : Buffer) (r1 r2 : Int) (h : BRel b1 b2)
    (hr : if b1.mode = .unsafeEsc then (r1 = 10 ↔ r2 = 10) else r1 = r2)
    (k1 : b1.mode = .raw → Obtainable (encodeRune r1)) (k2 : b1.mode = .raw → Obtainable (encodeRune r2)) :
    BRel (b1.writeRune r1) (b2.writeRune r2) := by
  show BRel (b1.write (encodeRune r1)) (b2.write (encodeRune r2))
  refine write_rel _ _ _ _ h ?_ k1 k2
  unfold PendRel
  split
  · rename_i hu
    rw [if_pos hu] at hr
    rw [canonB_encodeRune, canonB_encodeRune]
    by_cases h1 : r1 = 10
    · simp [h1, hr.1 h1]
    · have : ¬ r2 = 10 := fun h2 => h1 (hr.2 h2)
      simp [h1, this]
  · rename_i hu
    rw [if_neg hu] at hr
    rw [hr]
    split <;> rfl

/-- The same payload written by both runs in an escaping mode. -/
theorem pendRel_refl {m : Mode} (hm : m ≠ .raw) (s : List Byte) : PendRel m s s := by
  unfold PendRel
  split
  · rfl
  · first | rfl | (rw [if_neg hm])

theorem write_rel_same (b1 b2 : Buffer) (s : List Byte) (h : BRel b1 b2) (hm : b1.mode ≠ .raw) :
    BRel (b1.write s) (b2.write s) :=
  write_rel _ _ _ _ h (pendRel_refl hm s) (fun hh => absurd hh hm) (fun hh => absurd hh hm)

theorem writeByte_rel_same (b1 b2 : Buffer) (x : Byte) (h : BRel b1 b2) (hm : b1.mode ≠ .raw) :
    BRel (b1.writeByte x) (b2.writeByte x) :=
  writeByte_rel _ _ _ _ h (by split <;> simp) (fun hh => absurd hh hm) (fun hh => absurd hh hm)

theorem writeRune_rel_same (b1 b2 : Buffer) (r : Int) (h : BRel b1 b2) (hm : b1.mode ≠ .raw) :
    BRel (b1.writeRune r) (b2.writeRune r) :=
  writeRune_rel _ _ _ _ h (by split <;> simp) (fun hh => absurd hh hm) (fun hh => absurd hh hm)


theorem brel_init : BRel Buffer.init Buffer.init :=
  ⟨inv_init, inv_init, rfl, rfl, rfl, pendRel_nil _⟩


/-! ### The text outside envelopes is public too -/

/-- The text outside envelopes, from the events. -/
def safeText : List Ev → List Tok
  | [] => []
  | .out x :: r => .b x :: safeText r
  | _ :: r => safeText r

theorem dropEnv_eq_safeText (t : List Tok) :
    (scanWFFrom false t = some false → dropEnvAux none t = safeText (abs .closed t)) ∧
    (∀ acc, scanWFFrom true t = some false → dropEnvAux (some acc) t = safeText (abs .openEmpty t)) ∧
    (∀ acc, scanWFFrom true t = some false → dropEnvAux (some acc) t = safeText (abs .openFull t)) := by
  induction t with
  | nil => simp [scanWFFrom, dropEnvAux, abs, safeText]
  | cons x r ih =>
    refine ⟨?_, ?_, ?_⟩
    · intro h
      cases x with
      | s => simp only [scanWFFrom] at h; simp [dropEnvAux, abs, absTok, stStep, safeText, ih.2.1 [] h]
      | e => simp [scanWFFrom] at h
      | b y => simp only [scanWFFrom] at h; simp [dropEnvAux, abs, absTok, stStep, safeText, ih.1 h]
    · intro acc h
      cases x with
      | s => simp [scanWFFrom] at h
      | e => simp only [scanWFFrom] at h; simp [dropEnvAux, abs, absTok, stStep, safeText, ih.1 h]
      | b y => simp only [scanWFFrom] at h; simp [dropEnvAux, abs, absTok, stStep, safeText, ih.2.2 _ h]
    · intro acc h
      cases x with
      | s => simp [scanWFFrom] at h
      | e => simp only [scanWFFrom] at h; simp [dropEnvAux, abs, absTok, stStep, safeText, ih.1 h]
      | b y => simp only [scanWFFrom] at h; simp [dropEnvAux, abs, absTok, stStep, safeText, ih.2.2 _ h]

/-- Two well-formed redactables with the same events have the same text outside envelopes. -/
theorem dropEnv_eq_of_brel (b1 b2 : Buffer) (h : BRel b1 b2) :
    dropEnv b1.redactableBytes = dropEnv b2.redactableBytes := by
  have ⟨f1, _, _⟩ := finalize_full b1 h.i1
  have ⟨f2, _, _⟩ := finalize_full b2 h.i2
  have e := finalize_rel b1 b2 h
  unfold dropEnv Buffer.redactableBytes dropEnvT
  rw [(dropEnv_eq_safeText _).1 (scanWF_of_scan _ _ _ f1.sc), (dropEnv_eq_safeText _).1 (scanWF_of_scan _ _ _ f2.sc)]
  unfold evB evT at e
  rw [e]

end Redact
