import RedactVerif.Model.Escape
import RedactVerif.Proofs.Tokens
/-
The refinement between the byte-level scanner `escGo` (the Go loop) and its
token-level specification `escTok`, under the condition that no marker
straddles the boundary between the validated prefix and the suffix being
escaped. All byte-offset reasoning about escaping lives in this file.
-/
namespace Redact

theorem hasSuffix_iff (l suf : List Byte) : hasSuffix l suf = true ↔ suf <:+ l := by
  simp [hasSuffix]

theorem dropLast_append_three (x : List Byte) (a b c : Byte) : dropLast 3 (x ++ [a, b, c]) = x := by
  simp [dropLast]

/-- The last token is `s` exactly when the bytes end with the start marker. -/
theorem getLast_tokenize_start (l : List Byte) :
    (tokenize l).getLast? = some .s ↔ startB <:+ l := by
  constructor
  · intro h
    -- the last token's bytes are a suffix of `untok (tokenize l) = l`
    obtain ⟨t, ht⟩ : ∃ t, tokenize l = t ++ [.s] := by
      cases hl : (tokenize l).reverse with
      | nil => simp [List.getLast?_eq_head?_reverse, hl] at h
      | cons y ys =>
        rw [List.getLast?_eq_head?_reverse, hl] at h
        simp at h
        refine ⟨ys.reverse, ?_⟩
        have := congrArg List.reverse hl
        simp at this
        rw [this, h]
    have := untok_tokenize l
    rw [ht, untok_append] at this
    exact ⟨untok t, by simpa [Tok.bytes] using this⟩
  · rintro ⟨x, rfl⟩
    have := tokenize_append_start x []
    simp at this
    rw [this]
    simp

theorem getLast_tokenize_end (l : List Byte) :
    (tokenize l).getLast? = some .e ↔ endB <:+ l := by
  constructor
  · intro h
    obtain ⟨t, ht⟩ : ∃ t, tokenize l = t ++ [.e] := by
      cases hl : (tokenize l).reverse with
      | nil => simp [List.getLast?_eq_head?_reverse, hl] at h
      | cons y ys =>
        rw [List.getLast?_eq_head?_reverse, hl] at h
        simp at h
        refine ⟨ys.reverse, ?_⟩
        have := congrArg List.reverse hl
        simp at this
        rw [this, h]
    have := untok_tokenize l
    rw [ht, untok_append] at this
    exact ⟨untok t, by simpa [Tok.bytes] using this⟩
  · rintro ⟨x, rfl⟩
    have := tokenize_append_end x []
    simp at this
    rw [this]
    simp

theorem tokenize_dropLast_start (l : List Byte) (h : startB <:+ l) :
    tokenize (dropLast 3 l) = (tokenize l).dropLast := by
  obtain ⟨x, rfl⟩ := h
  have := tokenize_append_start x []
  simp at this
  rw [this]
  simp [startB, dropLast_append_three]

theorem tokenize_dropLast_end (l : List Byte) (h : endB <:+ l) :
    tokenize (dropLast 3 l) = (tokenize l).dropLast := by
  obtain ⟨x, rfl⟩ := h
  have := tokenize_append_end x []
  simp at this
  rw [this]
  simp [endB, dropLast_append_three]

theorem tokenize_append_startB (l : List Byte) : tokenize (l ++ startB) = tokenize l ++ [.s] := by
  have := tokenize_append_start l []
  simpa using this

theorem tokenize_append_endB (l : List Byte) : tokenize (l ++ endB) = tokenize l ++ [.e] := by
  have := tokenize_append_end l []
  simpa using this

theorem straddles_snoc_q (out r : List Byte) : straddles (out ++ [0x3F]) r = false := by
  simp [straddles]

theorem straddles_start (out r : List Byte) : straddles (out ++ startB) r = false := by
  simp [straddles, startB]

theorem straddles_nil (out : List Byte) : straddles out [] = false := by
  unfold straddles; split <;> simp_all

/-- Stepping over a plain byte keeps the boundary free of straddling markers. -/
theorem straddles_step (out : List Byte) (x : Byte) (r : List Byte)
    (h : straddles out (x :: r) = false)
    (h1 : ∀ r', x = 0xE2 → r = 0x80 :: 0xB9 :: r' → False)
    (h2 : ∀ r', x = 0xE2 → r = 0x80 :: 0xBA :: r' → False) :
    straddles (out ++ [x]) r = false := by
  unfold straddles at *
  simp only [List.reverse_append, List.reverse_cons, List.reverse_nil, List.nil_append, List.singleton_append] at *
  split
  · rename_i heq; simp at heq; exact (h1 _ heq.1 rfl).elim
  · rename_i heq; simp at heq; exact (h2 _ heq.1 rfl).elim
  · rename_i heq; simp at heq; obtain ⟨hx, ht⟩ := heq; subst hx; rw [ht] at h; simp at h
  · rename_i heq; simp at heq; obtain ⟨hx, ht⟩ := heq; subst hx; rw [ht] at h; simp at h
  · rfl

theorem snoc_ok_of_not_straddles (out : List Byte) (x : Byte) (r : List Byte)
    (h : straddles out (x :: r) = false) :
    ¬ ((∃ t, out.reverse = 0x80 :: 0xE2 :: t) ∧ (x = 0xB9 ∨ x = 0xBA)) := by
  rintro ⟨⟨t, ht⟩, hx⟩
  unfold straddles at h
  rw [ht] at h
  rcases hx with rfl | rfl <;> simp at h

/-- **Refinement**: on inputs without a marker straddling the boundary, the
byte-level scanner computes the token-level specification. -/
theorem escGo_refines (nl : Bool) (out rest : List Byte) (h : straddles out rest = false) :
    tokenize (escGo nl out rest) = escTok nl (tokenize out) (tokenize rest) := by
  fun_induction escGo nl out rest with
  | case1 out => simp [escTok]
  | case2 out r ih =>
    rw [ih (by simpa [escB] using straddles_snoc_q out r)]
    simp only [tokenize_start, escTok, escB]
    rw [tokenize_snoc out 0x3F (by simp)]
  | case3 out r ih =>
    rw [ih (by simpa [escB] using straddles_snoc_q out r)]
    simp only [tokenize_end, escTok, escB]
    rw [tokenize_snoc out 0x3F (by simp)]
  | case4 out x r h1 h2 hnl out' ih =>
    -- line feed with line breaking
    have hx : x = LF := by simp at hnl; exact hnl.2
    subst hx
    rw [tokenize_plain LF r h1 h2]
    simp only [escTok, hnl, if_true]
    rw [ih (straddles_start _ r)]
    congr 1
    show tokenize ((if hasSuffix out startB = true then dropLast 3 out else out ++ endB) ++ [LF] ++ startB) = _
    rw [tokenize_append_startB]
    by_cases hs : hasSuffix out startB = true
    · have hs' : startB <:+ out := (hasSuffix_iff _ _).1 hs
      have hl : (tokenize out).getLast? = some .s := (getLast_tokenize_start out).2 hs'
      simp only [hs, hl, if_true]
      rw [tokenize_snoc _ LF (by simp [LF]), tokenize_dropLast_start out hs']
      simp
    · have hs' : ¬ startB <:+ out := fun hh => hs ((hasSuffix_iff _ _).2 hh)
      have hl : (tokenize out).getLast? ≠ some .s := fun hh => hs' ((getLast_tokenize_start out).1 hh)
      have hs2 : hasSuffix out startB = false := by simpa using hs
      simp only [hs2, hl, if_false, Bool.false_eq_true]
      rw [tokenize_snoc _ LF (by simp [LF]), tokenize_append_endB]
      simp
  | case5 out x r h1 h2 hnl ih =>
    rw [tokenize_plain x r h1 h2]
    simp only [escTok]
    rw [if_neg (by simpa using hnl)]
    rw [ih (straddles_step out x r h h1 h2), tokenize_snoc out x (snoc_ok_of_not_straddles out x r h)]

end Redact
