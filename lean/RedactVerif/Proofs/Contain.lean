import RedactVerif.Proofs.FuelMono
/-
Containment of user-method panics, globally (C11). Level A: values whose methods never panic
(`ValPF`: no `panic` script anywhere) never make any function of the printer return a propagating
panic, whatever the `panicking` flag. Level B (below): values whose panic *payloads* are of level A
never make a function entered with `panicking = false` return one — the only panics that
propagate are those raised while a panic payload is being printed.
-/
namespace Redact

mutual
def ValPF : Val → Prop
  | .nil => True
  | .leaf _ _ _ _ _ _ => True
  | .safeW v => ValPF v
  | .unsafeW v => ValPF v
  | .redactable _ _ => True
  | .meth _ _ _ _ _ _ sc under => ScriptPF sc ∧ ValPF under
  | .slice _ _ _ es => ValsPF es
  | .map _ _ _ _ ks vs => ValsPF ks ∧ ValsPF vs
  | .struct _ _ fs => FieldsPF fs
  | .ptrTo _ v => ValPF v
def ValsPF : Vals → Prop
  | .nil => True
  | .cons v r => ValPF v ∧ ValsPF r
def FieldsPF : Fields → Prop
  | .nil => True
  | .cons _ _ _ v r => ValPF v ∧ FieldsPF r
def ScriptPF : Script → Prop
  | .done => True
  | .safeString _ k => ScriptPF k
  | .unsafeString _ k => ScriptPF k
  | .safeRune _ k => ScriptPF k
  | .write _ k => ScriptPF k
  | .unsafeLeaf _ k => ScriptPF k
  | .print args k => ValsPF args ∧ ScriptPF k
  | .printf _ args k => ValsPF args ∧ ScriptPF k
  | .indep k => ScriptPF k
  | .panic _ => False
end

def ListPF (l : List Val) : Prop := ∀ v ∈ l, ValPF v

theorem listPF_of_valsPF : (vs : Vals) → ValsPF vs → ListPF vs.toList
  | .nil, _ => by intro v hv; simp [Vals.toList] at hv
  | .cons x r, h => by
    intro v hv
    simp only [Vals.toList, List.mem_cons] at hv
    rcases hv with rfl | hv
    · exact h.1
    · exact listPF_of_valsPF r h.2 v hv

/-- The error hook's scripts never panic. -/
def EnvPF (env : Env) : Prop := ∀ h, env.hook = some h → ∀ r v, ScriptPF (h r v)

inductive NoPanic : Res → Prop
  | ok (q : PP) : NoPanic (.ok q)
  | fuel : NoPanic .fuel
  | unsupported : NoPanic .unsupported

/-- The outcome of a user method that cannot panic: a `raised` only stands for a nil receiver. -/
inductive OkS (nr : Bool) : SRes → Prop
  | ok (q : PP) : OkS nr (.ok q)
  | raised (q : PP) (pl : Val) : nr = true → OkS nr (.raised q pl)
  | abort {r : Res} : NoPanic r → OkS nr (.abort r)

def NoPanicH (a : Bool × Res) : Prop := NoPanic a.2

theorem np_bind {a : Res} {k : PP → Res} (h : NoPanic a) (hk : ∀ q, NoPanic (k q)) : NoPanic (a.bind k) := by
  cases h with
  | ok q => exact hk q
  | fuel => exact .fuel
  | unsupported => exact .unsupported

theorem np_bracket (start : PP → PP × PP.Restorer) (p : PP) {body : PP → Res} (h : ∀ q, NoPanic (body q)) :
    NoPanic (bracket start p body) := by
  unfold bracket
  generalize start p = sp
  obtain ⟨q0, r⟩ := sp
  simp only
  have := h q0
  generalize body q0 = x at this
  cases this with
  | ok q => exact .ok _
  | fuel => exact .fuel
  | unsupported => exact .unsupported

theorem np_ite {c : Prop} [Decidable c] {a b : Res} (ha : NoPanic a) (hb : NoPanic b) : NoPanic (if c then a else b) := by
  split <;> assumption
theorem np_ite_h {c : Prop} [Decidable c] {a b : Bool × Res} (ha : NoPanicH a) (hb : NoPanicH b) : NoPanicH (if c then a else b) := by
  split <;> assumption
theorem np_mk {b : Bool} {r : Res} (h : NoPanic r) : NoPanicH (b, r) := h

theorem np_leafWrite (env : Env) (p : PP) (id verb : Nat) (k : BK) (ty : List Byte) : NoPanic (leafWrite env p id verb k ty) := by
  unfold leafWrite leafWrite1
  split
  · exact .ok _
  · split
    · exact .unsupported
    · split
      · exact .unsupported
      · exact np_bracket _ _ (fun q => .ok _)

theorem okS_retOut (nr : Bool) (p : PP) (sc : Script) (hsc : ScriptPF sc) {r : Res} (h : NoPanic r) : OkS nr (retOut nr p sc r) := by
  unfold retOut
  split
  · rename_i hnr; exact .raised _ _ hnr
  · split
    · simp [ScriptPF] at hsc
    · exact .abort h

structure ASpec (env : Env) (n : Nat) : Prop where
  printArg : ∀ p v verb, ValPF v → NoPanic (printArg env n p v verb)
  printArgBody : ∀ p v verb, ValPF v → NoPanic (printArgBody env n p v verb)
  badVerb : ∀ p v verb via, ValPF v → NoPanic (badVerb env n p v verb via)
  handleMethods : ∀ p v verb, ValPF v → NoPanicH (handleMethods env n p v verb)
  methDispatch : ∀ p v ms nr ret sc verb, ValPF v → ScriptPF sc → NoPanicH (methDispatch env n p v ms nr ret sc verb)
  fmtString : ∀ p v ret verb, ValPF v → NoPanic (fmtString env n p v ret verb)
  catchPanic : ∀ (p0 : PP) (arg : Val) (verb : Nat) (m : List Byte) (nr : Bool) (out : SRes), OkS nr out →
    NoPanic (catchPanic env n p0 arg verb m nr out)
  runScript : ∀ p sc, ScriptPF sc → OkS false (runScript env n p sc)
  printValue : ∀ p v verb d ro, ValPF v → NoPanic (printValue env n p v verb d ro)
  printSlot : ∀ p v verb d i ro, ValPF v → NoPanic (printSlot env n p v verb d i ro)
  slotMethods : ∀ p v verb, ValPF v → NoPanicH (slotMethods env n p v verb)
  printFields : ∀ p fs verb d ro f, FieldsPF fs → NoPanic (printFields env n p fs verb d ro f)
  printElems : ∀ p vs verb d i ro f, ValsPF vs → NoPanic (printElems env n p vs verb d i ro f)
  printPairs : ∀ p ks vs verb d ik iv ro f, ValsPF ks → ValsPF vs → NoPanic (printPairs env n p ks vs verb d ik iv ro f)
  doPrint : ∀ p args, ListPF args → NoPanic (doPrint env n p args)
  doPrintLoop : ∀ p args k ps, ListPF args → NoPanic (doPrintLoop env n p args k ps)
  doPrintf : ∀ p f args, ListPF args → NoPanic (doPrintf env n p f args)
  fmtLoop : ∀ p f args k ai, ListPF args → NoPanic (fmtLoop env n p f args k ai)
  directiveTail : ∀ p f args k ai, ListPF args → NoPanic (directiveTail env n p f args k ai)
  finishPrintf : ∀ p args k, ListPF args → NoPanic (finishPrintf env n p args k)
  extraLoop : ∀ p args f, ListPF args → NoPanic (extraLoop env n p args f)

theorem aspec_zero (env : Env) : ASpec env 0 := by
  constructor <;> intros <;> simp only [printArg, printArgBody, badVerb, handleMethods, methDispatch, fmtString, catchPanic,
    runScript, printValue, printSlot, slotMethods, printFields, printElems, printPairs, doPrint, doPrintLoop,
    doPrintf, fmtLoop, directiveTail, finishPrintf, extraLoop]
  all_goals first
    | exact .fuel
    | exact NoPanic.fuel
    | exact OkS.abort .fuel

variable {env : Env} {n : Nat}

set_option hygiene false in
macro "pmono" : tactic => `(tactic| repeat' (first
  | exact NoPanic.ok _
  | exact NoPanic.fuel
  | exact NoPanic.unsupported
  | with_reducible assumption
  | with_reducible exact hv.1
  | with_reducible exact hv.2
  | with_reducible exact hv.2.1
  | with_reducible exact hv.2.2
  | (simp only [ValPF, ValsPF, FieldsPF, ScriptPF] at hv ⊢ <;> first | trivial | exact hv | exact hv.1 | exact hv.2)
  | with_reducible apply np_leafWrite
  | with_reducible apply A.printArg
  | with_reducible apply A.printArgBody
  | with_reducible apply A.badVerb
  | with_reducible apply A.handleMethods
  | with_reducible apply A.methDispatch
  | with_reducible apply A.fmtString
  | with_reducible apply A.printValue
  | with_reducible apply A.printSlot
  | with_reducible apply A.slotMethods
  | with_reducible apply A.printFields
  | with_reducible apply A.printElems
  | with_reducible apply A.printPairs
  | with_reducible apply A.doPrint
  | with_reducible apply A.doPrintLoop
  | with_reducible apply A.doPrintf
  | with_reducible apply A.fmtLoop
  | with_reducible apply A.directiveTail
  | with_reducible apply A.finishPrintf
  | with_reducible apply A.extraLoop
  | with_reducible apply np_ite
  | with_reducible apply np_ite_h
  | with_reducible apply np_mk
  | (with_reducible apply np_bracket; intro _)
  | (with_reducible apply np_bind)
  | (intro _)
  | (dsimp only)))

theorem astep_printArg (A : ASpec env n) : ∀ p v verb, ValPF v → NoPanic (printArg env (n + 1) p v verb) := by
  intro p v verb hv
  cases v <;> simp only [printArg] <;> pmono

theorem astep_fmtString (A : ASpec env n) : ∀ p v ret verb, ValPF v → NoPanic (fmtString env (n + 1) p v ret verb) := by
  intro p v ret verb hv
  simp only [fmtString]
  pmono

theorem astep_badVerb (A : ASpec env n) : ∀ p v verb via, ValPF v → NoPanic (badVerb env (n + 1) p v verb via) := by
  intro p v verb via hv
  unfold badVerb
  apply np_bind
  · cases v <;> simp only <;> pmono
  · pmono

theorem np_handled {x : Bool × Res} {k : Res} (hx : NoPanicH x) (hk : NoPanic k) :
    NoPanic (match x with | (true, r) => r | (false, _) => k) := by
  obtain ⟨b, r⟩ := x
  cases b
  · exact hk
  · exact hx

-- `match x with | (true, r) => r | (false, _) => k`, `NoPanicH x` known as `hh`
set_option hygiene false in
macro "phandled " e:term:max : tactic => `(tactic| (
  generalize $e = x at hh ⊢
  obtain ⟨b, r⟩ := x
  cases b <;> dsimp only <;> first | exact hh | skip))

theorem astep_printArgBody (A : ASpec env n) : ∀ p v verb, ValPF v → NoPanic (printArgBody env (n + 1) p v verb) := by
  intro p v verb hv
  have hh := A.handleMethods p v verb hv
  unfold printArgBody
  cases v with
  | leaf id k ty iv sv reg => cases k <;> simp only <;> pmono
  | nil => simp only; pmono
  | redactable c ty => simp only; pmono
  | _ =>
    simp only
    pmono
    all_goals (phandled (handleMethods env n p _ verb); pmono)

theorem astep_handleMethods (A : ASpec env n) : ∀ p v verb, ValPF v → NoPanicH (handleMethods env (n + 1) p v verb) := by
  intro p v verb hv
  unfold handleMethods
  cases v <;> simp only <;> pmono

theorem okS_raised_or {nr : Bool} {p : PP} {a : SRes} (h : OkS nr a) : OkS nr (if nr = true then SRes.raised p .nil else a) := by
  split
  · rename_i hnr; exact .raised _ _ hnr
  · exact h

theorem okS_of_false {nr : Bool} {a : SRes} (h : OkS false a) : OkS nr a := by
  cases h with
  | ok q => exact .ok q
  | raised q pl h => cases h
  | abort h => exact .abort h

theorem astep_methDispatch (he : EnvPF env) (A : ASpec env n) : ∀ p v ms nr ret sc verb, ValPF v → ScriptPF sc →
    NoPanicH (methDispatch env (n + 1) p v ms nr ret sc verb) := by
  intro p v ms nr ret sc verb hv hsc
  have cp := A.catchPanic
  have rs : ∀ q, OkS nr (if nr = true then SRes.raised q .nil else runScript env n q sc) :=
    fun q => okS_raised_or (okS_of_false (A.runScript q sc hsc))
  unfold methDispatch
  pmono
  all_goals first
    | (apply cp; exact rs _)
    | (apply cp; apply okS_retOut _ _ _ hsc; pmono)
    | (split
       · rename_i h heq
         apply np_mk; apply cp
         exact okS_raised_or (okS_of_false (A.runScript _ _ (he h heq _ _)))
       · exact np_mk (.ok _))

theorem astep_catchPanic (A : ASpec env n) : ∀ (p0 : PP) (arg : Val) (verb : Nat) (m : List Byte) (nr : Bool) (out : SRes),
    OkS nr out → NoPanic (catchPanic env (n + 1) p0 arg verb m nr out) := by
  intro p0 arg verb m nr out h
  unfold catchPanic
  cases h with
  | ok q => exact .ok q
  | abort hr => exact hr
  | raised q pl hnr => simp only [hnr, if_true]; exact .ok _

theorem astep_runScript (A : ASpec env n) : ∀ p sc, ScriptPF sc → OkS false (runScript env (n + 1) p sc) := by
  intro p sc hv
  unfold runScript
  cases sc with
  | done => exact .ok _
  | panic pl => simp [ScriptPF] at hv
  | print args k =>
    simp only [ScriptPF] at hv
    simp only
    have hd := A.doPrint ({ buf := p.buf, override := p.override } : PP) args.toList (listPF_of_valsPF _ hv.1)
    generalize doPrint env n ({ buf := p.buf, override := p.override } : PP) args.toList = r at hd ⊢
    cases hd with
    | ok q => exact A.runScript _ _ hv.2
    | fuel => exact .abort .fuel
    | unsupported => exact .abort .unsupported
  | printf f args k =>
    simp only [ScriptPF] at hv
    simp only
    have hd := A.doPrintf ({ buf := p.buf, override := p.override } : PP) f args.toList (listPF_of_valsPF _ hv.1)
    generalize doPrintf env n ({ buf := p.buf, override := p.override } : PP) f args.toList = r at hd ⊢
    cases hd with
    | ok q => exact A.runScript _ _ hv.2
    | fuel => exact .abort .fuel
    | unsupported => exact .abort .unsupported
  | unsafeLeaf id k =>
    simp only
    split
    · exact .abort .unsupported
    · exact A.runScript _ _ (by simpa [ScriptPF] using hv)
  | _ => simp only; exact A.runScript _ _ (by simpa [ScriptPF] using hv)

theorem astep_printValue (A : ASpec env n) : ∀ p v verb d ro, ValPF v → NoPanic (printValue env (n + 1) p v verb d ro) := by
  intro p v verb d ro hv
  unfold printValue
  cases v <;> simp only <;> pmono

theorem astep_slotMethods (A : ASpec env n) : ∀ p v verb, ValPF v → NoPanicH (slotMethods env (n + 1) p v verb) := by
  intro p v verb hv
  unfold slotMethods
  cases v with
  | redactable c ty =>
    simp only
    pmono
    have hr := A.runScript p (.print (.cons (.redactable c ty) .nil) .done) (by simp [ScriptPF, ValsPF, ValPF])
    generalize runScript env n p (.print (.cons (.redactable c ty) .nil) .done) = r at hr ⊢
    cases hr with
    | ok q => exact .ok _
    | raised q pl h => cases h
    | abort h => exact h
  | _ => simp only <;> pmono

theorem astep_printFields (A : ASpec env n) : ∀ p fs verb d ro f, FieldsPF fs → NoPanic (printFields env (n + 1) p fs verb d ro f) := by
  intro p fs verb d ro f hv
  unfold printFields
  cases fs <;> simp only <;> pmono

theorem astep_printElems (A : ASpec env n) : ∀ p vs verb d i ro f, ValsPF vs → NoPanic (printElems env (n + 1) p vs verb d i ro f) := by
  intro p vs verb d i ro f hv
  unfold printElems
  cases vs <;> simp only <;> pmono

theorem astep_printPairs (A : ASpec env n) : ∀ p ks vs verb d ik iv ro f, ValsPF ks → ValsPF vs →
    NoPanic (printPairs env (n + 1) p ks vs verb d ik iv ro f) := by
  intro p ks vs verb d ik iv ro f hk hv
  unfold printPairs
  cases ks with
  | nil => cases vs <;> simp only <;> pmono
  | cons k kr =>
    cases vs with
    | nil => simp only; pmono
    | cons v vr =>
      simp only [ValsPF] at hk hv
      simp only
      apply np_bind (A.printSlot _ _ _ _ _ _ hk.1)
      intro q
      apply np_bind (A.printSlot _ _ _ _ _ _ hv.1)
      intro q2
      exact A.printPairs _ _ _ _ _ _ _ _ _ hk.2 hv.2

theorem listPF_tail {a : Val} {l : List Val} (h : ListPF (a :: l)) : ValPF a ∧ ListPF l :=
  ⟨h a (by simp), fun v hv => h v (by simp [hv])⟩

theorem astep_doPrint (A : ASpec env n) : ∀ p args, ListPF args → NoPanic (doPrint env (n + 1) p args) := by
  intro p args hv
  unfold doPrint
  pmono

theorem astep_doPrintLoop (A : ASpec env n) : ∀ p args k ps, ListPF args → NoPanic (doPrintLoop env (n + 1) p args k ps) := by
  intro p args k ps hl
  unfold doPrintLoop
  cases args with
  | nil => exact .ok _
  | cons a rest =>
    have hv := listPF_tail hl
    simp only
    pmono

theorem astep_doPrintf (A : ASpec env n) : ∀ p f args, ListPF args → NoPanic (doPrintf env (n + 1) p f args) := by
  intro p f args hv
  unfold doPrintf
  pmono

theorem astep_extraLoop (A : ASpec env n) : ∀ p args f, ListPF args → NoPanic (extraLoop env (n + 1) p args f) := by
  intro p args f hl
  unfold extraLoop
  cases args with
  | nil => exact .ok _
  | cons a rest =>
    have hv := listPF_tail hl
    simp only
    apply np_bind _ (fun q => A.extraLoop _ _ _ hv.2)
    cases a <;> simp only <;> pmono

theorem listPF_drop {l : List Val} (h : ListPF l) (k : Nat) : ListPF (l.drop k) :=
  fun v hv => h v (List.mem_of_mem_drop hv)

theorem astep_finishPrintf (A : ASpec env n) : ∀ p args k, ListPF args → NoPanic (finishPrintf env (n + 1) p args k) := by
  intro p args k hl
  have hv := listPF_drop hl k
  unfold finishPrintf
  pmono

theorem listPF_get {args : List Val} (ha : ListPF args) {k : Nat} {a : Val} (h : args[k]? = some a) : ValPF a :=
  ha a (List.mem_of_getElem? h)

theorem astep_fmtLoop (A : ASpec env n) : ∀ p f args k ai, ListPF args → NoPanic (fmtLoop env (n + 1) p f args k ai) := by
  intro p f args k ai hv
  unfold fmtLoop
  dsimp only
  split
  · pmono
  · rename_i c r0 _
    generalize parseFlags true {} r0 = pf
    obtain ⟨fs, r1⟩ := pf
    dsimp only
    split
    · pmono
      split
      · rename_i a ha2
        have := listPF_get hv ha2
        pmono
      · pmono
    · pmono

theorem astep_directiveTail (A : ASpec env n) : ∀ p f args k ai, ListPF args → NoPanic (directiveTail env (n + 1) p f args k ai) := by
  intro p f args k ai hv
  unfold directiveTail
  dsimp only
  generalize argNumber p k f args.length = an
  obtain ⟨p1, k1, r1, ai1⟩ := an
  dsimp only
  generalize widthStage p1 args k1 r1 ai1 = ws
  obtain ⟨p2, k2, r2, ai2⟩ := ws
  dsimp only
  generalize precStage p2 args k2 r2 ai2 = ps
  obtain ⟨p3, k3, r3, ai3⟩ := ps
  dsimp only
  generalize (if (!ai3) = true then argNumber p3 k3 r3 args.length else (p3, k3, r3, ai3)) = an4
  obtain ⟨p4, k4, r4, ai4⟩ := an4
  dsimp only
  split
  · exact .ok _
  · pmono
    split
    · rename_i a ha2
      have := listPF_get hv ha2
      pmono
    · pmono

theorem astep_printSlot (A : ASpec env n) : ∀ p v verb d i ro, ValPF v → NoPanic (printSlot env (n + 1) p v verb d i ro) := by
  intro p v verb d i ro hv
  have noMethod : ∀ q3, NoPanic (if i = true then printSlot env n q3 v verb (d + 1) false ro else printValue env n q3 v verb d ro) := by
    intro q3; pmono
  have afterMethods : ∀ q2, NoPanic
      (if (!ro) = true then
        match slotMethods env n q2 v verb with
        | (true, r) => r
        | (false, _) => (if i = true then printSlot env n q2 v verb (d + 1) false ro else printValue env n q2 v verb d ro)
      else (if i = true then printSlot env n q2 v verb (d + 1) false ro else printValue env n q2 v verb d ro)) := by
    intro q2
    apply np_ite _ (noMethod q2)
    have hh := A.slotMethods q2 v verb hv
    phandled (slotMethods env n q2 v verb)
    exact noMethod q2
  have body : ∀ q, NoPanic
      (if (!ro) = true ∧ isSafeValue v = true then bracket PP.startSafeOverride q (fun q2 =>
          if (!ro) = true then
            match slotMethods env n q2 v verb with
            | (true, r) => r
            | (false, _) => (if i = true then printSlot env n q2 v verb (d + 1) false ro else printValue env n q2 v verb d ro)
          else (if i = true then printSlot env n q2 v verb (d + 1) false ro else printValue env n q2 v verb d ro))
       else
          if (!ro) = true then
            match slotMethods env n q v verb with
            | (true, r) => r
            | (false, _) => (if i = true then printSlot env n q v verb (d + 1) false ro else printValue env n q v verb d ro)
          else (if i = true then printSlot env n q v verb (d + 1) false ro else printValue env n q v verb d ro)) := by
    intro q
    exact np_ite (np_bracket _ _ afterMethods) (afterMethods q)
  unfold printSlot
  cases v with
  | nil => simp only; pmono
  | safeW w =>
    cases i <;> simp only [Bool.false_eq_true, if_false, if_true]
    · pmono
    · exact np_ite (np_bracket _ _ body) (body p)
  | unsafeW w =>
    cases i <;> simp only [Bool.false_eq_true, if_false, if_true]
    · pmono
    · exact np_ite (np_bracket _ _ body) (body p)
  | redactable c ty =>
    cases i <;> simp only [Bool.false_eq_true, if_false, if_true]
    · pmono
    · exact np_ite (np_bracket _ _ body) (body p)
  | _ =>
    simp only
    split
    · rename_i r hspecial
      split at hspecial <;> cases hspecial
    · exact np_ite (np_bracket _ _ body) (body p)

/-- **Level A**: values whose methods never panic never make the printer return a propagating panic. -/
theorem aspec_all (env : Env) (he : EnvPF env) : ∀ n, ASpec env n := by
  intro n
  induction n with
  | zero => exact aspec_zero env
  | succ n ih =>
    exact {
      printArg := astep_printArg ih
      printArgBody := astep_printArgBody ih
      badVerb := astep_badVerb ih
      handleMethods := astep_handleMethods ih
      methDispatch := astep_methDispatch he ih
      fmtString := astep_fmtString ih
      catchPanic := astep_catchPanic ih
      runScript := astep_runScript ih
      printValue := astep_printValue ih
      printSlot := astep_printSlot ih
      slotMethods := astep_slotMethods ih
      printFields := astep_printFields ih
      printElems := astep_printElems ih
      printPairs := astep_printPairs ih
      doPrint := astep_doPrint ih
      doPrintLoop := astep_doPrintLoop ih
      doPrintf := astep_doPrintf ih
      fmtLoop := astep_fmtLoop ih
      directiveTail := astep_directiveTail ih
      finishPrintf := astep_finishPrintf ih
      extraLoop := astep_extraLoop ih }



/-! ### Level B: the payloads of panics are of level A -/

mutual
def ValPB : Val → Prop
  | .nil => True
  | .leaf _ _ _ _ _ _ => True
  | .safeW v => ValPB v
  | .unsafeW v => ValPB v
  | .redactable _ _ => True
  | .meth _ _ _ _ _ _ sc under => ScriptPB sc ∧ ValPB under
  | .slice _ _ _ es => ValsPB es
  | .map _ _ _ _ ks vs => ValsPB ks ∧ ValsPB vs
  | .struct _ _ fs => FieldsPB fs
  | .ptrTo _ v => ValPB v
def ValsPB : Vals → Prop
  | .nil => True
  | .cons v r => ValPB v ∧ ValsPB r
def FieldsPB : Fields → Prop
  | .nil => True
  | .cons _ _ _ v r => ValPB v ∧ FieldsPB r
def ScriptPB : Script → Prop
  | .done => True
  | .safeString _ k => ScriptPB k
  | .unsafeString _ k => ScriptPB k
  | .safeRune _ k => ScriptPB k
  | .write _ k => ScriptPB k
  | .unsafeLeaf _ k => ScriptPB k
  | .print args k => ValsPB args ∧ ScriptPB k
  | .printf _ args k => ValsPB args ∧ ScriptPB k
  | .indep k => ScriptPB k
  | .panic payload => ValPF payload
end

def ListPB (l : List Val) : Prop := ∀ v ∈ l, ValPB v

theorem listPB_of_valsPB : (vs : Vals) → ValsPB vs → ListPB vs.toList
  | .nil, _ => by intro v hv; simp [Vals.toList] at hv
  | .cons x r, h => by
    intro v hv
    simp only [Vals.toList, List.mem_cons] at hv
    rcases hv with rfl | hv
    · exact h.1
    · exact listPB_of_valsPB r h.2 v hv

def EnvPB (env : Env) : Prop := ∀ h, env.hook = some h → ∀ r v, ScriptPB (h r v)

/-- Not printing a panic payload. -/
def PK (p : PP) : Prop := p.panicking = false

theorem PK.w {p : PP} (h : PK p) (s : List Byte) : PK (p.w s) := h
theorem PK.wb {p : PP} (h : PK p) (c : Byte) : PK (p.wb c) := h
theorem PK.wr {p : PP} (h : PK p) (r : Int) : PK (p.wr r) := h
theorem PK.restore {p : PP} (h : PK p) (r : PP.Restorer) : PK (p.restore r) := h
theorem PK.setErroring {p : PP} (h : PK p) (e : Bool) : PK { p with erroring := e } := h
theorem PK.setF {p : PP} (h : PK p) (g : FmtS) : PK { p with f := g } := h
theorem PK.setWrapped {p : PP} (h : PK p) (w : Option Nat) (e : Bool) : PK { p with wrappedErr := w, wrapErrs := e } := h
theorem PK.setWrappedErr {p : PP} (h : PK p) (w : Option Nat) : PK { p with wrappedErr := w } := h
theorem PK.setBuf {p : PP} (h : PK p) (b : Buffer) : PK { p with buf := b } := h
theorem PK.setReordered {p : PP} (h : PK p) (e : Bool) : PK { p with reordered := e } := h
theorem PK.setGood {p : PP} (h : PK p) (e : Bool) : PK { p with goodArgNum := e } := h
theorem PK.ite {c : Prop} [Decidable c] {a b : PP} (ha : PK a) (hb : PK b) : PK (if c then a else b) := by
  split <;> assumption
theorem PK.fresh (b : Buffer) (o : Override) : PK ({ buf := b, override := o } : PP) := rfl

theorem PK.start_safeOverride {p : PP} (h : PK p) : PK p.startSafeOverride.1 := by
  unfold PP.startSafeOverride; split <;> exact h
theorem PK.start_unsafeOverride {p : PP} (h : PK p) : PK p.startUnsafeOverride.1 := by
  unfold PP.startUnsafeOverride; split <;> exact h
theorem PK.start_unsafe {p : PP} (h : PK p) : PK p.startUnsafe.1 := by
  unfold PP.startUnsafe; split <;> exact h
theorem PK.start_preRedactable {p : PP} (h : PK p) : PK p.startPreRedactable.1 := by
  unfold PP.startPreRedactable; split <;> exact h

/-- The call returned (or ran out of fuel), and the printer it returns is not in the middle of a panic report. -/
inductive NB : Res → Prop
  | ok {q : PP} : PK q → NB (.ok q)
  | fuel : NB .fuel
  | unsupported : NB .unsupported

inductive OkB (nr : Bool) : SRes → Prop
  | ok {q : PP} : PK q → OkB nr (.ok q)
  | raised {q : PP} (pl : Val) : PK q → (nr = true ∨ ValPF pl) → OkB nr (.raised q pl)
  | abort {r : Res} : NB r → OkB nr (.abort r)

def NBH (a : Bool × Res) : Prop := NB a.2

theorem nb_bind {a : Res} {k : PP → Res} (h : NB a) (hk : ∀ q, PK q → NB (k q)) : NB (a.bind k) := by
  cases h with
  | ok hq => exact hk _ hq
  | fuel => exact .fuel
  | unsupported => exact .unsupported

theorem nb_bracket {start : PP → PP × PP.Restorer} (hs : ∀ p, PK p → PK (start p).1) {p : PP} (hp : PK p)
    {body : PP → Res} (h : ∀ q, PK q → NB (body q)) : NB (bracket start p body) := by
  unfold bracket
  have h0 := hs p hp
  generalize start p = sp at h0
  obtain ⟨q0, r⟩ := sp
  simp only at h0 ⊢
  have := h q0 h0
  generalize body q0 = x at this
  cases this with
  | ok hq => exact .ok (hq.restore _)
  | fuel => exact .fuel
  | unsupported => exact .unsupported

theorem nb_ite {c : Prop} [Decidable c] {a b : Res} (ha : NB a) (hb : NB b) : NB (if c then a else b) := by
  split <;> assumption
theorem nb_ite_h {c : Prop} [Decidable c] {a b : Bool × Res} (ha : NBH a) (hb : NBH b) : NBH (if c then a else b) := by
  split <;> assumption
theorem nb_mk {b : Bool} {r : Res} (h : NB r) : NBH (b, r) := h
theorem nb_ok {q : PP} (h : PK q) : NB (.ok q) := .ok h

theorem nb_leafWrite (env : Env) {p : PP} (hp : PK p) (id verb : Nat) (k : BK) (ty : List Byte) : NB (leafWrite env p id verb k ty) := by
  unfold leafWrite leafWrite1
  split
  · exact .ok (hp.w _)
  · split
    · exact .unsupported
    · split
      · exact .unsupported
      · exact nb_bracket (fun _ h => h.start_unsafe) hp (fun q hq => .ok (hq.w _))

theorem okB_retOut (nr : Bool) {p : PP} (hp : PK p) (sc : Script) (hsc : ScriptPB sc) {r : Res} (h : NB r) : OkB nr (retOut nr p sc r) := by
  unfold retOut
  split
  · rename_i hnr; exact .raised _ hp (Or.inl hnr)
  · split
    · rename_i pl; exact .raised _ hp (Or.inr (by simpa [ScriptPB] using hsc))
    · exact .abort h

structure BSpec (env : Env) (n : Nat) : Prop where
  printArg : ∀ p v verb, PK p → ValPB v → NB (printArg env n p v verb)
  printArgBody : ∀ p v verb, PK p → ValPB v → NB (printArgBody env n p v verb)
  badVerb : ∀ p v verb via, PK p → ValPB v → NB (badVerb env n p v verb via)
  handleMethods : ∀ p v verb, PK p → ValPB v → NBH (handleMethods env n p v verb)
  methDispatch : ∀ p v ms nr ret sc verb, PK p → ValPB v → ScriptPB sc → NBH (methDispatch env n p v ms nr ret sc verb)
  fmtString : ∀ p v ret verb, PK p → ValPB v → NB (fmtString env n p v ret verb)
  catchPanic : ∀ (p0 : PP) (arg : Val) (verb : Nat) (m : List Byte) (nr : Bool) (out : SRes), OkB nr out →
    NB (catchPanic env n p0 arg verb m nr out)
  runScript : ∀ p sc, PK p → ScriptPB sc → OkB false (runScript env n p sc)
  printValue : ∀ p v verb d ro, PK p → ValPB v → NB (printValue env n p v verb d ro)
  printSlot : ∀ p v verb d i ro, PK p → ValPB v → NB (printSlot env n p v verb d i ro)
  slotMethods : ∀ p v verb, PK p → ValPB v → NBH (slotMethods env n p v verb)
  printFields : ∀ p fs verb d ro f, PK p → FieldsPB fs → NB (printFields env n p fs verb d ro f)
  printElems : ∀ p vs verb d i ro f, PK p → ValsPB vs → NB (printElems env n p vs verb d i ro f)
  printPairs : ∀ p ks vs verb d ik iv ro f, PK p → ValsPB ks → ValsPB vs → NB (printPairs env n p ks vs verb d ik iv ro f)
  doPrint : ∀ p args, PK p → ListPB args → NB (doPrint env n p args)
  doPrintLoop : ∀ p args k ps, PK p → ListPB args → NB (doPrintLoop env n p args k ps)
  doPrintf : ∀ p f args, PK p → ListPB args → NB (doPrintf env n p f args)
  fmtLoop : ∀ p f args k ai, PK p → ListPB args → NB (fmtLoop env n p f args k ai)
  directiveTail : ∀ p f args k ai, PK p → ListPB args → NB (directiveTail env n p f args k ai)
  finishPrintf : ∀ p args k, PK p → ListPB args → NB (finishPrintf env n p args k)
  extraLoop : ∀ p args f, PK p → ListPB args → NB (extraLoop env n p args f)

theorem bspec_zero (env : Env) : BSpec env 0 := by
  constructor <;> intros <;> simp only [printArg, printArgBody, badVerb, handleMethods, methDispatch, fmtString, catchPanic,
    runScript, printValue, printSlot, slotMethods, printFields, printElems, printPairs, doPrint, doPrintLoop,
    doPrintf, fmtLoop, directiveTail, finishPrintf, extraLoop]
  all_goals first
    | exact NB.fuel
    | exact OkB.abort .fuel

variable {env : Env} {n : Nat}

set_option hygiene false in
macro "bmono" : tactic => `(tactic| repeat' (first
  | exact NB.fuel
  | exact NB.unsupported
  | with_reducible assumption
  | with_reducible exact hv.1
  | with_reducible exact hv.2
  | with_reducible exact hv.2.1
  | with_reducible exact hv.2.2
  | with_reducible apply nb_ok
  | with_reducible apply PK.w
  | with_reducible apply PK.wb
  | with_reducible apply PK.wr
  | with_reducible apply PK.restore
  | with_reducible apply PK.ite
  | with_reducible apply PK.setErroring
  | with_reducible apply PK.setF
  | with_reducible apply PK.setWrapped
  | with_reducible apply PK.setWrappedErr
  | with_reducible apply PK.setBuf
  | with_reducible apply PK.setReordered
  | with_reducible apply PK.setGood
  | with_reducible apply nb_leafWrite
  | with_reducible apply B.printArg
  | with_reducible apply B.printArgBody
  | with_reducible apply B.badVerb
  | with_reducible apply B.handleMethods
  | with_reducible apply B.methDispatch
  | with_reducible apply B.fmtString
  | with_reducible apply B.printValue
  | with_reducible apply B.printSlot
  | with_reducible apply B.slotMethods
  | with_reducible apply B.printFields
  | with_reducible apply B.printElems
  | with_reducible apply B.printPairs
  | with_reducible apply B.doPrint
  | with_reducible apply B.doPrintLoop
  | with_reducible apply B.doPrintf
  | with_reducible apply B.fmtLoop
  | with_reducible apply B.directiveTail
  | with_reducible apply B.finishPrintf
  | with_reducible apply B.extraLoop
  | with_reducible apply nb_ite
  | with_reducible apply nb_ite_h
  | with_reducible apply nb_mk
  | with_reducible apply nb_bracket (fun _ h => PK.start_safeOverride h)
  | with_reducible apply nb_bracket (fun _ h => PK.start_unsafeOverride h)
  | with_reducible apply nb_bracket (fun _ h => PK.start_unsafe h)
  | with_reducible apply nb_bracket (fun _ h => PK.start_preRedactable h)
  | with_reducible apply nb_bind
  | (simp only [ValPB, ValsPB, FieldsPB, ScriptPB] at hv ⊢ <;> first | trivial | exact hv | exact hv.1 | exact hv.2)
  | (intro q hq)
  | (dsimp only)))

theorem bstep_printArg (B : BSpec env n) : ∀ p v verb, PK p → ValPB v → NB (printArg env (n + 1) p v verb) := by
  intro p v verb hp hv
  cases v <;> simp only [printArg] <;> bmono

theorem bstep_fmtString (B : BSpec env n) : ∀ p v ret verb, PK p → ValPB v → NB (fmtString env (n + 1) p v ret verb) := by
  intro p v ret verb hp hv
  simp only [fmtString]
  bmono

theorem bstep_badVerb (B : BSpec env n) : ∀ p v verb via, PK p → ValPB v → NB (badVerb env (n + 1) p v verb via) := by
  intro p v verb via hp hv
  unfold badVerb
  apply nb_bind
  · cases v <;> simp only <;> bmono
  · bmono

-- `match x with | (true, r) => r | (false, _) => k`, `NBH x` known as `hh`
set_option hygiene false in
macro "bhandled " e:term:max : tactic => `(tactic| (
  generalize $e = x at hh ⊢
  obtain ⟨b, r⟩ := x
  cases b <;> dsimp only <;> first | exact hh | skip))

theorem bstep_printArgBody (B : BSpec env n) : ∀ p v verb, PK p → ValPB v → NB (printArgBody env (n + 1) p v verb) := by
  intro p v verb hp hv
  have hh := B.handleMethods p v verb hp hv
  unfold printArgBody
  cases v with
  | leaf id k ty iv sv reg => cases k <;> simp only <;> bmono
  | nil => simp only; bmono
  | redactable c ty => simp only; bmono
  | _ =>
    simp only
    bmono
    all_goals (bhandled (handleMethods env n p _ verb); bmono)

theorem bstep_handleMethods (B : BSpec env n) : ∀ p v verb, PK p → ValPB v → NBH (handleMethods env (n + 1) p v verb) := by
  intro p v verb hp hv
  unfold handleMethods
  cases v <;> simp only <;> bmono

theorem okB_raised_or {nr : Bool} {p : PP} (hp : PK p) {a : SRes} (h : OkB nr a) :
    OkB nr (if nr = true then SRes.raised p .nil else a) := by
  split
  · rename_i hnr; exact .raised _ hp (Or.inl hnr)
  · exact h

theorem okB_of_false {nr : Bool} {a : SRes} (h : OkB false a) : OkB nr a := by
  cases h with
  | ok hq => exact .ok hq
  | raised pl hq h =>
    rcases h with h | h
    · cases h
    · exact .raised _ hq (Or.inr h)
  | abort h => exact .abort h

theorem bstep_methDispatch (he : EnvPB env) (B : BSpec env n) : ∀ p v ms nr ret sc verb, PK p → ValPB v → ScriptPB sc →
    NBH (methDispatch env (n + 1) p v ms nr ret sc verb) := by
  intro p v ms nr ret sc verb hp hv hsc
  have cp := B.catchPanic
  have rs : OkB nr (if nr = true then SRes.raised p .nil else runScript env n p sc) :=
    okB_raised_or hp (okB_of_false (B.runScript p sc hp hsc))
  unfold methDispatch
  bmono
  all_goals first
    | (apply cp; exact rs)
    | (apply cp; apply okB_retOut _ hp _ hsc; bmono)
    | (split
       · rename_i h heq
         apply nb_mk; apply cp
         exact okB_raised_or hp (okB_of_false (B.runScript _ _ hp (he h heq _ _)))
       · exact nb_mk (.ok hp))

theorem nb_bind_np {a : Res} {k : PP → Res} (h : NoPanic a) (hk : ∀ q, NB (k q)) : NB (a.bind k) := by
  cases h with
  | ok q => exact hk q
  | fuel => exact .fuel
  | unsupported => exact .unsupported

theorem bstep_catchPanic (hf : EnvPF env) (B : BSpec env n) : ∀ (p0 : PP) (arg : Val) (verb : Nat) (m : List Byte) (nr : Bool) (out : SRes),
    OkB nr out → NB (catchPanic env (n + 1) p0 arg verb m nr out) := by
  intro p0 arg verb m nr out h
  unfold catchPanic
  cases h with
  | ok hq => exact .ok hq
  | abort hr => exact hr
  | raised pl hq hor =>
    rename_i q
    simp only
    split
    · exact .ok (hq.w _)
    · rename_i hnr
      have hpf : ValPF pl := hor.resolve_left hnr
      have hqk : q.panicking = false := hq
      simp only [hqk, Bool.false_eq_true, if_false]
      -- the payload is printed with `panicking` set: level A
      apply nb_bind_np ((aspec_all env hf n).printArg _ pl 118 hpf)
      intro q2
      exact .ok rfl

theorem bstep_runScript (B : BSpec env n) : ∀ p sc, PK p → ScriptPB sc → OkB false (runScript env (n + 1) p sc) := by
  intro p sc hp hv
  unfold runScript
  cases sc with
  | done => exact .ok hp
  | panic pl => exact .raised _ hp (Or.inr (by simpa [ScriptPB] using hv))
  | print args k =>
    simp only [ScriptPB] at hv
    simp only
    have hd := B.doPrint ({ buf := p.buf, override := p.override } : PP) args.toList rfl (listPB_of_valsPB _ hv.1)
    generalize doPrint env n ({ buf := p.buf, override := p.override } : PP) args.toList = r at hd ⊢
    cases hd with
    | ok hq => exact B.runScript _ _ hp hv.2
    | fuel => exact .abort .fuel
    | unsupported => exact .abort .unsupported
  | printf f args k =>
    simp only [ScriptPB] at hv
    simp only
    have hd := B.doPrintf ({ buf := p.buf, override := p.override } : PP) f args.toList rfl (listPB_of_valsPB _ hv.1)
    generalize doPrintf env n ({ buf := p.buf, override := p.override } : PP) f args.toList = r at hd ⊢
    cases hd with
    | ok hq => exact B.runScript _ _ hp hv.2
    | fuel => exact .abort .fuel
    | unsupported => exact .abort .unsupported
  | unsafeLeaf id k =>
    simp only
    split
    · exact .abort .unsupported
    · exact B.runScript _ _ ((hp.start_unsafe.w _).restore _) (by simpa [ScriptPB] using hv)
  | indep k => simp only; exact B.runScript _ _ hp (by simpa [ScriptPB] using hv)
  | safeString s k => simp only; exact B.runScript _ _ ((hp.start_safeOverride.w _).restore _) (by simpa [ScriptPB] using hv)
  | safeRune x k => simp only; exact B.runScript _ _ ((hp.start_safeOverride.wr _).restore _) (by simpa [ScriptPB] using hv)
  | unsafeString s k => simp only; exact B.runScript _ _ ((hp.start_unsafe.w _).restore _) (by simpa [ScriptPB] using hv)
  | write s k => simp only; exact B.runScript _ _ ((hp.start_unsafe.w _).restore _) (by simpa [ScriptPB] using hv)

theorem bstep_printValue (B : BSpec env n) : ∀ p v verb d ro, PK p → ValPB v → NB (printValue env (n + 1) p v verb d ro) := by
  intro p v verb d ro hp hv
  unfold printValue
  cases v <;> simp only <;> bmono

/-- Printing a redactable never panics (no user method is involved). -/
theorem doPrint_redactable_np (env : Env) (hf : EnvPF env) (m : Nat) (p : PP) (c ty : List Byte) :
    NoPanic (doPrint env m p [.redactable c ty]) :=
  (aspec_all env hf m).doPrint p _ (fun v hv => by simp only [List.mem_singleton] at hv; subst hv; simp [ValPF])

theorem runScript_redactable_not_raised (env : Env) (hf : EnvPF env) (n : Nat) (p : PP) (c ty : List Byte) (q : PP) (pl : Val) :
    runScript env n p (.print (.cons (.redactable c ty) .nil) .done) ≠ .raised q pl := by
  match n with
  | 0 => simp [runScript]
  | m + 1 =>
    simp only [runScript, Vals.toList]
    have hd := doPrint_redactable_np env hf m ({ buf := p.buf, override := p.override } : PP) c ty
    generalize doPrint env m ({ buf := p.buf, override := p.override } : PP) [.redactable c ty] = r at hd ⊢
    cases hd with
    | ok q2 =>
      simp only
      match m with
      | 0 => simp [runScript]
      | j + 1 => simp [runScript]
    | fuel => simp
    | unsupported => simp

theorem bstep_slotMethods (hf : EnvPF env) (B : BSpec env n) : ∀ p v verb, PK p → ValPB v → NBH (slotMethods env (n + 1) p v verb) := by
  intro p v verb hp hv
  unfold slotMethods
  cases v with
  | redactable c ty =>
    simp only
    bmono
    have hr := B.runScript p (.print (.cons (.redactable c ty) .nil) .done) hp (by simp [ScriptPB, ValsPB, ValPB])
    have hnr := runScript_redactable_not_raised env hf n p c ty
    generalize runScript env n p (.print (.cons (.redactable c ty) .nil) .done) = r at hr hnr ⊢
    cases hr with
    | ok hq => exact .ok hq
    | raised pl hq h => exact absurd rfl (hnr _ pl)
    | abort h => exact h
  | _ => simp only <;> bmono

theorem bstep_printFields (B : BSpec env n) : ∀ p fs verb d ro f, PK p → FieldsPB fs → NB (printFields env (n + 1) p fs verb d ro f) := by
  intro p fs verb d ro f hp hv
  unfold printFields
  cases fs <;> simp only <;> bmono

theorem bstep_printElems (B : BSpec env n) : ∀ p vs verb d i ro f, PK p → ValsPB vs → NB (printElems env (n + 1) p vs verb d i ro f) := by
  intro p vs verb d i ro f hp hv
  unfold printElems
  cases vs <;> simp only <;> bmono

theorem bstep_printPairs (B : BSpec env n) : ∀ p ks vs verb d ik iv ro f, PK p → ValsPB ks → ValsPB vs →
    NB (printPairs env (n + 1) p ks vs verb d ik iv ro f) := by
  intro p ks vs verb d ik iv ro f hp hk hv
  unfold printPairs
  cases ks with
  | nil => cases vs <;> simp only <;> bmono
  | cons k kr =>
    cases vs with
    | nil => simp only; bmono
    | cons v vr =>
      simp only [ValsPB] at hk hv
      simp only
      apply nb_bind (B.printSlot _ _ _ _ _ _ (by bmono) hk.1)
      intro q hq
      apply nb_bind (B.printSlot _ _ _ _ _ _ (hq.wb _) hv.1)
      intro q2 hq2
      exact B.printPairs _ _ _ _ _ _ _ _ _ hq2 hk.2 hv.2

theorem listPB_tail {a : Val} {l : List Val} (h : ListPB (a :: l)) : ValPB a ∧ ListPB l :=
  ⟨h a (by simp), fun v hv => h v (by simp [hv])⟩
theorem listPB_drop {l : List Val} (h : ListPB l) (k : Nat) : ListPB (l.drop k) :=
  fun v hv => h v (List.mem_of_mem_drop hv)
theorem listPB_get {args : List Val} (ha : ListPB args) {k : Nat} {a : Val} (h : args[k]? = some a) : ValPB a :=
  ha a (List.mem_of_getElem? h)

theorem bstep_doPrint (B : BSpec env n) : ∀ p args, PK p → ListPB args → NB (doPrint env (n + 1) p args) := by
  intro p args hp hv
  unfold doPrint
  bmono

theorem bstep_doPrintLoop (B : BSpec env n) : ∀ p args k ps, PK p → ListPB args → NB (doPrintLoop env (n + 1) p args k ps) := by
  intro p args k ps hp hl
  unfold doPrintLoop
  cases args with
  | nil => exact .ok hp
  | cons a rest =>
    have hv := listPB_tail hl
    simp only
    bmono

theorem bstep_doPrintf (B : BSpec env n) : ∀ p f args, PK p → ListPB args → NB (doPrintf env (n + 1) p f args) := by
  intro p f args hp hv
  unfold doPrintf
  bmono

theorem bstep_extraLoop (B : BSpec env n) : ∀ p args f, PK p → ListPB args → NB (extraLoop env (n + 1) p args f) := by
  intro p args f hp hl
  unfold extraLoop
  cases args with
  | nil => exact .ok hp
  | cons a rest =>
    have hv := listPB_tail hl
    simp only
    apply nb_bind _ (fun q hq => B.extraLoop _ _ _ hq hv.2)
    cases a <;> simp only <;> bmono

theorem bstep_finishPrintf (B : BSpec env n) : ∀ p args k, PK p → ListPB args → NB (finishPrintf env (n + 1) p args k) := by
  intro p args k hp hl
  have hv := listPB_drop hl k
  unfold finishPrintf
  bmono

theorem bstep_fmtLoop (B : BSpec env n) : ∀ p f args k ai, PK p → ListPB args → NB (fmtLoop env (n + 1) p f args k ai) := by
  intro p f args k ai hp hv
  unfold fmtLoop
  dsimp only
  split
  · bmono
  · rename_i c r0 _
    generalize parseFlags true {} r0 = pf
    obtain ⟨fs, r1⟩ := pf
    dsimp only
    split
    · bmono
      split
      · rename_i a ha2
        have := listPB_get hv ha2
        bmono
      · bmono
    · bmono

theorem bstep_directiveTail (B : BSpec env n) : ∀ p f args k ai, PK p → ListPB args → NB (directiveTail env (n + 1) p f args k ai) := by
  intro p f args k ai hp hv
  unfold directiveTail
  dsimp only
  have h1 : PK (argNumber p k f args.length).1 := by
    unfold argNumber; repeat' split
    all_goals exact hp
  generalize argNumber p k f args.length = an at h1
  obtain ⟨p1, k1, r1, ai1⟩ := an
  dsimp only at h1 ⊢
  have h2 : PK (widthStage p1 args k1 r1 ai1).1 := by
    unfold widthStage
    split
    · dsimp only
      generalize intFromArg args k1 = ifa
      obtain ⟨num, isInt, newArg⟩ := ifa
      dsimp only
      repeat' split
      all_goals exact h1
    · dsimp only
      generalize parsenum r1 = pn
      obtain ⟨w, wp, r'⟩ := pn
      dsimp only
      split <;> exact h1
  generalize widthStage p1 args k1 r1 ai1 = ws at h2
  obtain ⟨p2, k2, r2, ai2⟩ := ws
  dsimp only at h2 ⊢
  have h3 : PK (precStage p2 args k2 r2 ai2).1 := by
    unfold precStage
    split
    · rename_i c r''
      dsimp only
      have g1 : PK (if ai2 = true then { p2 with goodArgNum := false } else p2) := by split <;> exact h2
      generalize (if ai2 = true then { p2 with goodArgNum := false } else p2) = px at g1 ⊢
      have g2 : PK (argNumber px k2 (c :: r'') args.length).1 := by
        unfold argNumber; repeat' split
        all_goals exact g1
      generalize argNumber px k2 (c :: r'') args.length = an at g2 ⊢
      obtain ⟨py, ky, ry, aiy⟩ := an
      dsimp only at g2 ⊢
      split
      · dsimp only
        generalize intFromArg args ky = ifa
        obtain ⟨num, isInt, newArg⟩ := ifa
        dsimp only
        generalize (if num < 0 then ((0 : Nat), false) else (num.toNat, isInt)) = pp
        obtain ⟨prec, precPresent⟩ := pp
        dsimp only
        split <;> exact g2
      · dsimp only
        generalize parsenum ry = pn
        obtain ⟨pr, ppres, r3⟩ := pn
        dsimp only
        exact g2
    · exact h2
  generalize precStage p2 args k2 r2 ai2 = ps at h3
  obtain ⟨p3, k3, r3, ai3⟩ := ps
  dsimp only at h3 ⊢
  have h4 : PK (if (!ai3) = true then argNumber p3 k3 r3 args.length else (p3, k3, r3, ai3)).1 := by
    split
    · unfold argNumber; repeat' split
      all_goals exact h3
    · exact h3
  generalize (if (!ai3) = true then argNumber p3 k3 r3 args.length else (p3, k3, r3, ai3)) = an4 at h4
  obtain ⟨p4, k4, r4, ai4⟩ := an4
  dsimp only at h4 ⊢
  split
  · exact .ok (h4.w _)
  · bmono
    split
    · rename_i a ha2
      have := listPB_get hv ha2
      bmono
    · bmono

theorem bstep_printSlot (B : BSpec env n) : ∀ p v verb d i ro, PK p → ValPB v → NB (printSlot env (n + 1) p v verb d i ro) := by
  intro p v verb d i ro hp hv
  have noMethod : ∀ q3, PK q3 → NB (if i = true then printSlot env n q3 v verb (d + 1) false ro else printValue env n q3 v verb d ro) := by
    intro q3 hq3; bmono
  have afterMethods : ∀ q2, PK q2 → NB
      (if (!ro) = true then
        match slotMethods env n q2 v verb with
        | (true, r) => r
        | (false, _) => (if i = true then printSlot env n q2 v verb (d + 1) false ro else printValue env n q2 v verb d ro)
      else (if i = true then printSlot env n q2 v verb (d + 1) false ro else printValue env n q2 v verb d ro)) := by
    intro q2 hq2
    apply nb_ite _ (noMethod q2 hq2)
    have hh := B.slotMethods q2 v verb hq2 hv
    bhandled (slotMethods env n q2 v verb)
    exact noMethod q2 hq2
  have body : ∀ q, PK q → NB
      (if (!ro) = true ∧ isSafeValue v = true then bracket PP.startSafeOverride q (fun q2 =>
          if (!ro) = true then
            match slotMethods env n q2 v verb with
            | (true, r) => r
            | (false, _) => (if i = true then printSlot env n q2 v verb (d + 1) false ro else printValue env n q2 v verb d ro)
          else (if i = true then printSlot env n q2 v verb (d + 1) false ro else printValue env n q2 v verb d ro))
       else
          if (!ro) = true then
            match slotMethods env n q v verb with
            | (true, r) => r
            | (false, _) => (if i = true then printSlot env n q v verb (d + 1) false ro else printValue env n q v verb d ro)
          else (if i = true then printSlot env n q v verb (d + 1) false ro else printValue env n q v verb d ro)) := by
    intro q hq
    exact nb_ite (nb_bracket (fun _ h => h.start_safeOverride) hq afterMethods) (afterMethods q hq)
  have wrap : NB (if (!i) = true ∧ isRegistered v = true then bracket PP.startSafeOverride p (fun q =>
      if (!ro) = true ∧ isSafeValue v = true then bracket PP.startSafeOverride q (fun q2 =>
          if (!ro) = true then
            match slotMethods env n q2 v verb with
            | (true, r) => r
            | (false, _) => (if i = true then printSlot env n q2 v verb (d + 1) false ro else printValue env n q2 v verb d ro)
          else (if i = true then printSlot env n q2 v verb (d + 1) false ro else printValue env n q2 v verb d ro))
       else
          if (!ro) = true then
            match slotMethods env n q v verb with
            | (true, r) => r
            | (false, _) => (if i = true then printSlot env n q v verb (d + 1) false ro else printValue env n q v verb d ro)
          else (if i = true then printSlot env n q v verb (d + 1) false ro else printValue env n q v verb d ro))
     else
      (if (!ro) = true ∧ isSafeValue v = true then bracket PP.startSafeOverride p (fun q2 =>
          if (!ro) = true then
            match slotMethods env n q2 v verb with
            | (true, r) => r
            | (false, _) => (if i = true then printSlot env n q2 v verb (d + 1) false ro else printValue env n q2 v verb d ro)
          else (if i = true then printSlot env n q2 v verb (d + 1) false ro else printValue env n q2 v verb d ro))
       else
          if (!ro) = true then
            match slotMethods env n p v verb with
            | (true, r) => r
            | (false, _) => (if i = true then printSlot env n p v verb (d + 1) false ro else printValue env n p v verb d ro)
          else (if i = true then printSlot env n p v verb (d + 1) false ro else printValue env n p v verb d ro))) :=
    nb_ite (nb_bracket (fun _ h => h.start_safeOverride) hp body) (body p hp)
  unfold printSlot
  cases v with
  | nil => simp only; bmono
  | safeW w =>
    cases i <;> simp only [Bool.false_eq_true, if_false, if_true]
    · bmono
    · exact wrap
  | unsafeW w =>
    cases i <;> simp only [Bool.false_eq_true, if_false, if_true]
    · bmono
    · exact wrap
  | redactable c ty =>
    cases i <;> simp only [Bool.false_eq_true, if_false, if_true]
    · bmono
    · exact wrap
  | _ =>
    simp only
    split
    · rename_i r hspecial
      split at hspecial <;> cases hspecial
    · exact wrap

mutual
/-- PF implies PB. -/
theorem pb_of_pf : (v : Val) → ValPF v → ValPB v
  | .nil, _ => trivial
  | .leaf _ _ _ _ _ _, _ => trivial
  | .safeW v, h => by simp only [ValPF] at h; simp only [ValPB]; exact pb_of_pf v h
  | .unsafeW v, h => by simp only [ValPF] at h; simp only [ValPB]; exact pb_of_pf v h
  | .redactable _ _, _ => trivial
  | .meth _ _ _ _ _ _ sc under, h => by
    simp only [ValPF] at h; simp only [ValPB]; exact ⟨spb_of_spf sc h.1, pb_of_pf under h.2⟩
  | .slice _ _ _ es, h => by simp only [ValPF] at h; simp only [ValPB]; exact vpb_of_vpf es h
  | .map _ _ _ _ ks vs, h => by simp only [ValPF] at h; simp only [ValPB]; exact ⟨vpb_of_vpf ks h.1, vpb_of_vpf vs h.2⟩
  | .struct _ _ fs, h => by simp only [ValPF] at h; simp only [ValPB]; exact fpb_of_fpf fs h
  | .ptrTo _ v, h => by simp only [ValPF] at h; simp only [ValPB]; exact pb_of_pf v h
theorem vpb_of_vpf : (vs : Vals) → ValsPF vs → ValsPB vs
  | .nil, _ => trivial
  | .cons v r, h => by simp only [ValsPF] at h; simp only [ValsPB]; exact ⟨pb_of_pf v h.1, vpb_of_vpf r h.2⟩
theorem fpb_of_fpf : (fs : Fields) → FieldsPF fs → FieldsPB fs
  | .nil, _ => trivial
  | .cons _ _ _ v r, h => by simp only [FieldsPF] at h; simp only [FieldsPB]; exact ⟨pb_of_pf v h.1, fpb_of_fpf r h.2⟩
theorem spb_of_spf : (sc : Script) → ScriptPF sc → ScriptPB sc
  | .done, _ => trivial
  | .safeString _ k, h => by simp only [ScriptPF] at h; simp only [ScriptPB]; exact spb_of_spf k h
  | .unsafeString _ k, h => by simp only [ScriptPF] at h; simp only [ScriptPB]; exact spb_of_spf k h
  | .safeRune _ k, h => by simp only [ScriptPF] at h; simp only [ScriptPB]; exact spb_of_spf k h
  | .write _ k, h => by simp only [ScriptPF] at h; simp only [ScriptPB]; exact spb_of_spf k h
  | .unsafeLeaf _ k, h => by simp only [ScriptPF] at h; simp only [ScriptPB]; exact spb_of_spf k h
  | .print args k, h => by simp only [ScriptPF] at h; simp only [ScriptPB]; exact ⟨vpb_of_vpf args h.1, spb_of_spf k h.2⟩
  | .printf _ args k, h => by simp only [ScriptPF] at h; simp only [ScriptPB]; exact ⟨vpb_of_vpf args h.1, spb_of_spf k h.2⟩
  | .indep k, h => by simp only [ScriptPF] at h; simp only [ScriptPB]; exact spb_of_spf k h
  | .panic _, h => by simp [ScriptPF] at h
end

theorem envPB_of_envPF {env : Env} (h : EnvPF env) : EnvPB env := fun hk heq r v => spb_of_spf _ (h hk heq r v)

/-- **Level B**: with an error hook that does not panic, values whose panic payloads are of level A
never make a function entered outside a panic report return a propagating panic — and the printer
they return is again outside a panic report. -/
theorem bspec_all (env : Env) (hf : EnvPF env) : ∀ n, BSpec env n := by
  intro n
  induction n with
  | zero => exact bspec_zero env
  | succ n ih =>
    exact {
      printArg := bstep_printArg ih
      printArgBody := bstep_printArgBody ih
      badVerb := bstep_badVerb ih
      handleMethods := bstep_handleMethods ih
      methDispatch := bstep_methDispatch (envPB_of_envPF hf) ih
      fmtString := bstep_fmtString ih
      catchPanic := bstep_catchPanic hf ih
      runScript := bstep_runScript ih
      printValue := bstep_printValue ih
      printSlot := bstep_printSlot ih
      slotMethods := bstep_slotMethods hf ih
      printFields := bstep_printFields ih
      printElems := bstep_printElems ih
      printPairs := bstep_printPairs ih
      doPrint := bstep_doPrint ih
      doPrintLoop := bstep_doPrintLoop ih
      doPrintf := bstep_doPrintf ih
      fmtLoop := bstep_fmtLoop ih
      directiveTail := bstep_directiveTail ih
      finishPrintf := bstep_finishPrintf ih
      extraLoop := bstep_extraLoop ih }

end Redact
