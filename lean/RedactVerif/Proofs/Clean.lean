import RedactVerif.Proofs.Plain
import RedactVerif.Proofs.FuelMono
/-
Clean inputs give clean outputs (the truncated-UTF-8 tail fix never fires): if every payload the
printer writes — oracle renderings, type and field names, the payloads of user methods' calls,
embedded redactables — ends in a complete character, then so does the buffer at every point
(`KInv` of `Plain.lean`, existentially quantified), through all functions reachable from `doPrint`.
-/
namespace Redact

/-- All bytes ASCII. -/
def Asc (s : List Byte) : Prop := ∀ c ∈ s, c < 0x80

theorem asc_of_all {s : List Byte} (h : s.all (· < 0x80) = true) : Asc s := by
  intro c hc
  have := List.all_eq_true.mp h c hc
  simpa using this

theorem asc_nil : Asc [] := fun _ h => by simp at h
theorem asc_append {a b : List Byte} (ha : Asc a) (hb : Asc b) : Asc (a ++ b) := by
  intro c hc
  simp only [List.mem_append] at hc
  rcases hc with h | h
  · exact ha c h
  · exact hb c h
theorem asc_take {a : List Byte} (ha : Asc a) (n : Nat) : Asc (a.take n) := fun c hc => ha c (List.mem_of_mem_take hc)
theorem asc_replicate (n : Nat) (x : Byte) (hx : x < 0x80) : Asc (List.replicate n x) := by
  intro c hc
  rw [List.mem_replicate] at hc
  rw [hc.2]; exact hx

theorem endsRune_of_asc {s : List Byte} (h : Asc s) : EndsRune s := by
  by_cases hs : s = []
  · exact Or.inl hs
  · refine Or.inr ⟨s.dropLast, [s.getLast hs], (List.dropLast_concat_getLast hs).symm, ?_⟩
    have := h (s.getLast hs) (List.getLast_mem hs)
    simpa [validRuneB] using this

theorem asc_padding (f : FmtS) (n : Int) : Asc (padding f n) := by
  unfold padding
  split
  · exact asc_nil
  · split
    · exact asc_replicate _ _ (by decide)
    · exact asc_replicate _ _ (by decide)

theorem asc_padStr (f : FmtS) {s : List Byte} (h : Asc s) : Asc (padStr f s) := by
  unfold padStr
  split
  · exact h
  · dsimp only
    split
    · exact asc_append (asc_padding _ _) h
    · exact asc_append h (asc_padding _ _)

theorem asc_fmtSAscii (f : FmtS) {s : List Byte} (h : Asc s) : Asc (fmtSAscii f s) := by
  unfold fmtSAscii
  apply asc_padStr
  split
  · exact asc_take h _
  · exact h

/-- The buffer's bytes end, markers aside, in a complete character: the tail fix will not fire. -/
def Clean (b : Buffer) : Prop := ∃ acc dacc, KInv b acc dacc

/-- Clean, and in an escaping mode. -/
structure CI (p : PP) : Prop where
  clean : Clean p.buf
  mode : p.buf.mode ≠ .raw

theorem clean_setMode {b : Buffer} (h : Clean b) (m : Mode) : Clean (b.setMode m) := by
  obtain ⟨a, d, k⟩ := h
  exact ⟨a, d, setMode_K b m a d k⟩

theorem clean_write {b : Buffer} (h : Clean b) (s : List Byte) (hr : b.mode = .raw → Obtainable s ∧ RuneEnd (tokenize s))
    (he : b.mode ≠ .raw → EndsRune s) : Clean (b.write s) := by
  obtain ⟨a, d, k⟩ := h
  exact ⟨_, _, write_K b s a d k hr he⟩

theorem CI.w {p : PP} (h : CI p) {s : List Byte} (hs : EndsRune s) : CI (p.w s) :=
  ⟨clean_write h.clean s (fun hr => absurd hr h.mode) (fun _ => hs), by show (p.buf.write s).mode ≠ _; rw [write_mode]; exact h.mode⟩

theorem CI.wa {p : PP} (h : CI p) {s : List Byte} (hs : Asc s) : CI (p.w s) := h.w (endsRune_of_asc hs)

theorem CI.wr {p : PP} (h : CI p) (r : Int) : CI (p.wr r) := by
  have : p.wr r = p.w (encodeRune r) := rfl
  rw [this]; exact h.w (endsRune_encodeRune r)

theorem writeByte_ascii' (b : Buffer) (x : Byte) (hi : Inv b) (hx : x < 0x80) : b.writeByte x = b.write [x] := by
  rw [writeByte_eq b x hi]
  have : byteEff b.mode x = [x] := by
    unfold byteEff
    have : ¬ x ≥ 0x80 := by
      intro h; exact absurd hx (by simpa using h)
    simp [this]
  rw [this]; rfl

theorem CI.wb {p : PP} (h : CI p) {c : Byte} (hc : c < 0x80) : CI (p.wb c) := by
  obtain ⟨a, d, k⟩ := h.clean
  have e : p.wb c = p.w [c] := by
    show ({ p with buf := p.buf.writeByte c } : PP) = { p with buf := p.buf.write [c] }
    rw [writeByte_ascii' p.buf c k.inv hc]
  rw [e]
  exact h.w (endsRune_of_asc (fun x hx => by simp only [List.mem_singleton] at hx; rw [hx]; exact hc))

theorem CI.restore {q : PP} (h : Clean q.buf) (r : PP.Restorer) (hm : r.prevMode ≠ .raw) : CI (q.restore r) :=
  ⟨clean_setMode h _, by show (q.buf.setMode r.prevMode).mode ≠ _; rw [setMode_mode]; exact hm⟩

theorem CI.congr {p p' : PP} (h : CI p) (hb : p'.buf = p.buf) : CI p' := ⟨by rw [hb]; exact h.clean, by rw [hb]; exact h.mode⟩

theorem CI.setErroring {p : PP} (h : CI p) (e : Bool) : CI { p with erroring := e } := ⟨h.clean, h.mode⟩
theorem CI.setF {p : PP} (h : CI p) (g : FmtS) : CI { p with f := g } := ⟨h.clean, h.mode⟩
theorem CI.setPanicking {p : PP} (h : CI p) (e : Bool) : CI { p with panicking := e } := ⟨h.clean, h.mode⟩
theorem CI.setWrapped {p : PP} (h : CI p) (w : Option Nat) (e : Bool) : CI { p with wrappedErr := w, wrapErrs := e } := ⟨h.clean, h.mode⟩
theorem CI.setWrappedErr {p : PP} (h : CI p) (w : Option Nat) : CI { p with wrappedErr := w } := ⟨h.clean, h.mode⟩
theorem CI.ite {c : Prop} [Decidable c] {a b : PP} (ha : CI a) (hb : CI b) : CI (if c then a else b) := by
  split <;> assumption
theorem CI.nested {p : PP} (h : CI p) : CI ({ buf := p.buf, override := p.override } : PP) := ⟨h.clean, h.mode⟩
theorem CI.handBack {p : PP} (h : CI p) {b : Buffer} (hb : Clean b) : CI { p with buf := b.setMode p.buf.mode } :=
  ⟨clean_setMode hb _, by show (b.setMode p.buf.mode).mode ≠ _; rw [setMode_mode]; exact h.mode⟩

/-! ### Valid UTF-8 formats: every parse position is a character boundary -/


theorem not_ascii_of_lead : ∀ c : Byte, c < 0x80 → c ≥ 0xC2 → False := by
  apply byte_forall; decide +kernel
theorem not_ascii_of_cont : ∀ c : Byte, c < 0x80 → 0x80 ≤ c → False := by
  apply byte_forall; decide +kernel

/-- A complete character that starts with an ASCII byte is that byte. -/
theorem valid_head_ascii {c : Byte} {t : List Byte} (h : validRuneB (c :: t) = true) (hc : c < 0x80) : t = [] := by
  rcases valid_cases h with ⟨a, he⟩ | ⟨a, b, he⟩ | ⟨a, b, c', he⟩ | ⟨a, b, c', d, he⟩
  · cases he; rfl
  · cases he; exact (not_ascii_of_lead _ hc (valid2 h).1).elim
  · cases he; exact (not_ascii_of_lead _ hc (valid3 h).1).elim
  · cases he; exact (not_ascii_of_lead _ hc (valid4 h).1).elim

/-- No byte of a multi-byte character is ASCII. -/
theorem valid_no_ascii {r : List Byte} (h : validRuneB r = true) (h2 : 2 ≤ r.length) : ∀ b ∈ r, ¬ b < 0x80 := by
  rcases valid_cases h with ⟨a, he⟩ | ⟨a, b, he⟩ | ⟨a, b, c', he⟩ | ⟨a, b, c', d, he⟩
  · subst he; simp at h2
  · subst he
    obtain ⟨ha, hb, _, _⟩ := valid2 h
    intro x hx hlt
    simp only [List.mem_cons, List.mem_nil_iff, or_false] at hx
    rcases hx with rfl | rfl
    · exact not_ascii_of_lead _ hlt ha
    · exact not_ascii_of_cont _ hlt hb
  · subst he
    obtain ⟨ha, hb, _, hc, _, _⟩ := valid3 h
    intro x hx hlt
    simp only [List.mem_cons, List.mem_nil_iff, or_false] at hx
    rcases hx with rfl | rfl | rfl
    · exact not_ascii_of_lead _ hlt ha
    · exact not_ascii_of_cont _ hlt hb
    · exact not_ascii_of_cont _ hlt hc
  · subst he
    obtain ⟨ha, hb, _, hc, _, hd, _, _⟩ := valid4 h
    intro x hx hlt
    simp only [List.mem_cons, List.mem_nil_iff, or_false] at hx
    rcases hx with rfl | rfl | rfl | rfl
    · exact not_ascii_of_lead _ hlt ha
    · exact not_ascii_of_cont _ hlt hb
    · exact not_ascii_of_cont _ hlt hc
    · exact not_ascii_of_cont _ hlt hd

/-- **What follows an ASCII byte in a valid UTF-8 string is valid UTF-8.** -/
theorem utf8_after_ascii : ∀ (l : List Byte), Utf8 l → ∀ (a : List Byte) (c : Byte) (b : List Byte),
    l = a ++ c :: b → c < 0x80 → Utf8 b := by
  intro l h
  induction h with
  | nil => intro a c b he; simp at he
  | cons r p hr hp ih =>
    intro a c b he hc
    -- where does the split fall?
    rcases List.append_eq_append_iff.mp he with ⟨a', h1, h2⟩ | ⟨c', h1, h2⟩
    · -- r ++ a' = a, p = a' ++ c :: b : the ASCII byte is in p
      exact ih a' c b h2 hc
    · -- a ++ c' = r, c :: b = c' ++ p : the ASCII byte is in r or starts p
      cases c' with
      | nil =>
        simp only [List.nil_append] at h2
        exact ih [] c b (by simpa using h2.symm) hc
      | cons x xs =>
        simp only [List.cons_append, List.cons.injEq] at h2
        obtain ⟨rfl, hb⟩ := h2
        -- r = a ++ c :: xs is a complete character containing the ASCII byte c
        have hr' : validRuneB (a ++ c :: xs) = true := by rw [← h1]; exact hr
        by_cases hl : 2 ≤ (a ++ c :: xs).length
        · exact absurd hc (valid_no_ascii hr' hl c (by simp))
        · have : a = [] ∧ xs = [] := by
            cases a <;> cases xs <;> simp_all <;> omega
          obtain ⟨rfl, rfl⟩ := this
          simp only [List.nil_append] at hb
          rw [hb]; exact hp

theorem utf8_tail_ascii {c : Byte} {r : List Byte} (h : Utf8 (c :: r)) (hc : c < 0x80) : Utf8 r :=
  utf8_after_ascii _ h [] c r rfl hc



theorem decodeRune_prefix2 {a b : Byte} (h : validRuneB [a, b] = true) (p : List Byte) : decodeRune (a :: b :: p) = (false, 2) := by
  simp only [validRuneB, Bool.and_eq_true, decide_eq_true_eq] at h
  obtain ⟨ha, h2⟩ := h
  split at h2
  · rename_i lo hi hl
    simp only [Bool.and_eq_true, decide_eq_true_eq] at h2
    have hna : ¬ a < 0x80 := by simpa using ha
    have n1 : ¬ (p.length + 1 + 1 < 2) := by omega
    have n2 : ¬ (b < lo ∨ hi < b) := by
      intro h; rcases h with h | h
      · exact absurd h (UInt8.not_lt.mpr h2.1)
      · exact absurd h (UInt8.not_lt.mpr h2.2)
    simp [decodeRune, hna, hl, n1, n2]
  · cases h2

theorem decodeRune_prefix3 {a b c : Byte} (h : validRuneB [a, b, c] = true) (p : List Byte) : decodeRune (a :: b :: c :: p) = (false, 3) := by
  simp only [validRuneB, Bool.and_eq_true, decide_eq_true_eq] at h
  obtain ⟨ha, h2⟩ := h
  split at h2
  · rename_i lo hi hl
    simp only [Bool.and_eq_true, decide_eq_true_eq] at h2
    obtain ⟨⟨h21, h22⟩, hc⟩ := h2
    have hna : ¬ a < 0x80 := by simpa using ha
    have n1 : ¬ (p.length + 1 + 1 + 1 < 3) := by omega
    have n2 : ¬ (b < lo ∨ hi < b) := by
      intro h; rcases h with h | h
      · exact absurd h (UInt8.not_lt.mpr h21)
      · exact absurd h (UInt8.not_lt.mpr h22)
    simp [decodeRune, hna, hl, n1, n2, hc]
  · cases h2

theorem decodeRune_prefix4 {a b c d : Byte} (h : validRuneB [a, b, c, d] = true) (p : List Byte) :
    decodeRune (a :: b :: c :: d :: p) = (false, 4) := by
  simp only [validRuneB, Bool.and_eq_true, decide_eq_true_eq] at h
  obtain ⟨ha, h2⟩ := h
  split at h2
  · rename_i lo hi hl
    simp only [Bool.and_eq_true, decide_eq_true_eq] at h2
    obtain ⟨⟨⟨h21, h22⟩, hc⟩, hd⟩ := h2
    have hna : ¬ a < 0x80 := by simpa using ha
    have n1 : ¬ (p.length + 1 + 1 + 1 + 1 < 4) := by omega
    have n2 : ¬ (b < lo ∨ hi < b) := by
      intro h; rcases h with h | h
      · exact absurd h (UInt8.not_lt.mpr h21)
      · exact absurd h (UInt8.not_lt.mpr h22)
    simp [decodeRune, hna, hl, n1, n2, hc, hd]
  · cases h2

/-- The verb decoder consumes exactly one character of a valid UTF-8 string. -/
theorem decodeVerb_utf8 : ∀ (s : List Byte), Utf8 s → ∀ (v : Nat) (r' : List Byte), decodeVerb s = some (v, r') → Utf8 r' := by
  intro s h
  cases h with
  | nil => intro v r' hd; simp [decodeVerb] at hd
  | cons r p hr hp =>
    intro v r' hd
    rcases valid_cases hr with ⟨a, rfl⟩ | ⟨a, b, rfl⟩ | ⟨a, b, c, rfl⟩ | ⟨a, b, c, d, rfl⟩
    · have ha : a < 0x80 := by simpa [validRuneB] using hr
      simp only [List.cons_append, List.nil_append, decodeVerb, ha, if_true, Option.some.injEq, Prod.mk.injEq] at hd
      rw [← hd.2]; exact hp
    · have hna : ¬ a < 0x80 := fun hlt => not_ascii_of_lead _ hlt (valid2 hr).1
      simp only [List.cons_append, List.nil_append, decodeVerb, hna, if_false, decodeRune_prefix2 hr p,
        Option.some.injEq, Prod.mk.injEq] at hd
      rw [← hd.2]; exact hp
    · have hna : ¬ a < 0x80 := fun hlt => not_ascii_of_lead _ hlt (valid3 hr).1
      simp only [List.cons_append, List.nil_append, decodeVerb, hna, if_false, decodeRune_prefix3 hr p,
        Option.some.injEq, Prod.mk.injEq] at hd
      rw [← hd.2]; exact hp
    · have hna : ¬ a < 0x80 := fun hlt => not_ascii_of_lead _ hlt (valid4 hr).1
      simp only [List.cons_append, List.nil_append, decodeVerb, hna, if_false, decodeRune_prefix4 hr p,
        Option.some.injEq, Prod.mk.injEq] at hd
      rw [← hd.2]; exact hp

theorem takeWhile_append_all {α : Type} (pr : α → Bool) (r p : List α) (h : ∀ b ∈ r, pr b = true) :
    (r ++ p).takeWhile pr = r ++ p.takeWhile pr ∧ (r ++ p).dropWhile pr = p.dropWhile pr := by
  induction r with
  | nil => simp
  | cons x xs ih =>
    have hx := h x (by simp)
    have := ih (fun b hb => h b (by simp [hb]))
    simp [List.takeWhile, List.dropWhile, hx, this.1, this.2]

/-- Splitting a valid UTF-8 string at the first `%` gives two valid UTF-8 strings. -/
theorem utf8_split_percent : ∀ (f : List Byte), Utf8 f → Utf8 (f.takeWhile (· ≠ 0x25)) ∧ Utf8 (f.dropWhile (· ≠ 0x25)) := by
  intro f h
  induction h with
  | nil => exact ⟨.nil, .nil⟩
  | cons r p hr hp ih =>
    by_cases hmem : (0x25 : Byte) ∈ r
    · -- some byte of `r` is `%`: `r` is that single ASCII byte
      have hb := hmem
      have hlen : ¬ 2 ≤ r.length := fun h2 => valid_no_ascii hr h2 _ hb (by decide)
      have hr1 : r = [0x25] := by
        match r, hb, hlen with
        | [x], hb, _ => simp at hb; rw [hb]
        | [], hb, _ => simp at hb
        | _ :: _ :: _, _, hl => simp at hl
      subst hr1
      simp only [List.cons_append, List.nil_append, List.takeWhile, List.dropWhile, ne_eq, not_true_eq_false, decide_false]
      exact ⟨.nil, Utf8.cons [0x25] p hr hp⟩
    · have hall : ∀ b ∈ r, (decide (b ≠ 0x25)) = true := by
        intro b hb
        simp only [ne_eq, decide_not, Bool.not_eq_eq_eq_not, Bool.not_true, decide_eq_false_iff_not]
        intro he; subst he; exact hmem hb
      have ⟨e1, e2⟩ := takeWhile_append_all (fun b => decide (b ≠ 0x25)) r p hall
      rw [e1, e2]
      exact ⟨.cons r _ hr ih.1, ih.2⟩



theorem isDigit_ascii {c : Byte} (h : isDigit c = true) : c < 0x80 := by
  revert h; revert c; apply byte_forall; decide +kernel

theorem parsenumAux_utf8 (num : Nat) (isnum : Bool) (s : List Byte) (h : Utf8 s) : Utf8 (parsenumAux num isnum s).2.2 := by
  induction s generalizing num isnum with
  | nil => simpa [parsenumAux] using h
  | cons c r ih =>
    unfold parsenumAux
    split
    · rename_i hd
      split
      · exact .nil
      · exact ih _ _ (utf8_tail_ascii h (isDigit_ascii hd))
    · exact h

theorem parsenum_utf8 (s : List Byte) (h : Utf8 s) : Utf8 (parsenum s).2.2 := parsenumAux_utf8 0 false s h

theorem parseFlags_utf8 (fr : Bool) (st : FState) (s : List Byte) (h : Utf8 s) : Utf8 (parseFlags fr st s).2 := by
  induction s generalizing st with
  | nil => simpa [parseFlags] using h
  | cons c r ih =>
    unfold parseFlags
    by_cases h1 : c = 0x23
    · subst h1; simp only [if_true]; exact ih _ (utf8_tail_ascii h (by decide))
    · simp only [h1, if_false]
      by_cases h2 : c = 0x30
      · subst h2; simp only [if_true]; exact ih _ (utf8_tail_ascii h (by decide))
      · simp only [h2, if_false]
        by_cases h3 : c = 0x2B
        · subst h3; simp only [if_true]; exact ih _ (utf8_tail_ascii h (by decide))
        · simp only [h3, if_false]
          by_cases h4 : c = 0x2D
          · subst h4; simp only [if_true]; exact ih _ (utf8_tail_ascii h (by decide))
          · simp only [h4, if_false]
            by_cases h5 : c = 0x20
            · subst h5; simp only [if_true]; exact ih _ (utf8_tail_ascii h (by decide))
            · simp only [h5, if_false]; exact h

theorem scanBracket_spec : ∀ (r : List Byte) (n : Nat) (inner : List Byte) (k : Nat), scanBracket r n = some (inner, k) →
    ∃ r', r = inner ++ 0x5D :: r' ∧ k = n + inner.length + 1 := by
  intro r
  induction r with
  | nil => intro n inner k h; simp [scanBracket] at h
  | cons c t ih =>
    intro n inner k h
    unfold scanBracket at h
    split at h
    · rename_i hc
      simp only [Option.some.injEq, Prod.mk.injEq] at h
      obtain ⟨rfl, rfl⟩ := h
      exact ⟨t, by simp [hc], by simp⟩
    · split at h
      · rename_i inner' k' heq
        simp only [Option.some.injEq, Prod.mk.injEq] at h
        obtain ⟨rfl, rfl⟩ := h
        obtain ⟨r', e1, e2⟩ := ih (n + 1) inner' k' heq
        exact ⟨r', by simp [e1], by simp [e2]; omega⟩
      · cases h

theorem argNumber_utf8 (p : PP) (k : Nat) (f : List Byte) (n : Nat) (h : Utf8 f) : Utf8 (argNumber p k f n).2.2.1 := by
  unfold argNumber
  split
  · rename_i rest
    have htail : Utf8 rest := utf8_tail_ascii h (by decide)
    have hdrop1 : (0x5B :: rest : List Byte).drop 1 = rest := rfl
    dsimp only
    by_cases hl : (0x5B :: rest : List Byte).length < 3
    · simp only [hl, if_true]
      exact htail
    · simp only [hl, if_false]
      cases hs : scanBracket ((0x5B :: rest : List Byte).drop 1) 1 with
      | none => simp only; exact htail
      | some ic =>
        obtain ⟨inner, c⟩ := ic
        obtain ⟨r', e1, e2⟩ := scanBracket_spec _ _ _ _ hs
        rw [hdrop1] at e1
        have hdrop : (0x5B :: rest : List Byte).drop c = r' := by
          rw [e1, e2]
          have : 1 + inner.length + 1 = (0x5B :: inner ++ [0x5D]).length := by simp; omega
          rw [this]
          have : (0x5B :: (inner ++ 0x5D :: r') : List Byte) = (0x5B :: inner ++ [0x5D]) ++ r' := by simp
          rw [this, List.drop_left]
        have hr' : Utf8 r' := utf8_after_ascii _ h (0x5B :: inner) 0x5D r' (by rw [e1]; simp) (by decide)
        simp only
        generalize parsenum inner = pn
        obtain ⟨width, ok, rem⟩ := pn
        dsimp only
        repeat' split
        all_goals (rw [hdrop]; exact hr')
  · exact h

theorem widthStage_utf8 (p : PP) (args : List Val) (k : Nat) (r : List Byte) (ai : Bool) (h : Utf8 r) :
    Utf8 (widthStage p args k r ai).2.2.1 := by
  unfold widthStage
  split
  · exact utf8_tail_ascii h (by decide)
  · exact parsenum_utf8 _ h

theorem precStage_utf8 (p : PP) (args : List Val) (k : Nat) (r : List Byte) (ai : Bool) (h : Utf8 r) :
    Utf8 (precStage p args k r ai).2.2.1 := by
  unfold precStage
  split
  · rename_i c r''
    dsimp only
    have h0 : Utf8 (c :: r'') := utf8_tail_ascii h (by decide)
    have h1 := argNumber_utf8 (if ai = true then { p with goodArgNum := false } else p) k (c :: r'') args.length h0
    generalize argNumber (if ai = true then { p with goodArgNum := false } else p) k (c :: r'') args.length = an at h1
    obtain ⟨py, ky, ry, aiy⟩ := an
    dsimp only at h1 ⊢
    split
    · rename_i r3
      exact utf8_tail_ascii h1 (by decide)
    · exact parsenum_utf8 _ h1
  · exact h


/-- A clean format: valid UTF-8. -/
def FmtCl (f : List Byte) : Prop := Utf8 f

theorem FmtCl.lit {f : List Byte} (h : FmtCl f) : EndsRune (f.takeWhile (· ≠ 0x25)) := endsRune_of_utf8 (utf8_split_percent f h).1

/-! ### Clean values -/

mutual
def ValCl : Val → Prop
  | .nil => True
  | .leaf _ _ ty _ _ _ => Asc ty
  | .safeW v => ValCl v
  | .unsafeW v => ValCl v
  | .redactable c ty => (Obtainable c ∧ RuneEnd (tokenize c) ∧ EndsRune c) ∧ Asc ty
  | .meth _ ty _ _ _ _ sc under => Asc ty ∧ ScriptCl sc ∧ ValCl under
  | .slice ty _ _ es => Asc ty ∧ ValsCl es
  | .map ty _ _ _ ks vs => Asc ty ∧ ValsCl ks ∧ ValsCl vs
  | .struct ty _ fs => Asc ty ∧ FieldsCl fs
  | .ptrTo ty v => Asc ty ∧ ValCl v
def ValsCl : Vals → Prop
  | .nil => True
  | .cons v r => ValCl v ∧ ValsCl r
def FieldsCl : Fields → Prop
  | .nil => True
  | .cons name _ _ v r => EndsRune name ∧ ValCl v ∧ FieldsCl r
def ScriptCl : Script → Prop
  | .done => True
  | .safeString s k => EndsRune s ∧ ScriptCl k
  | .unsafeString s k => EndsRune s ∧ ScriptCl k
  | .safeRune _ k => ScriptCl k
  | .write s k => EndsRune s ∧ ScriptCl k
  | .unsafeLeaf _ k => ScriptCl k
  | .print args k => ValsCl args ∧ ScriptCl k
  | .printf f args k => FmtCl f ∧ ValsCl args ∧ ScriptCl k
  | .indep k => ScriptCl k
  | .panic payload => ValCl payload
end

def ListCl (l : List Val) : Prop := ∀ v ∈ l, ValCl v

theorem listCl_of_valsCl : (vs : Vals) → ValsCl vs → ListCl vs.toList
  | .nil, _ => by intro v hv; simp [Vals.toList] at hv
  | .cons x r, h => by
    intro v hv
    simp only [Vals.toList, List.mem_cons] at hv
    rcases hv with rfl | hv
    · exact h.1
    · exact listCl_of_valsCl r h.2 v hv

/-- The oracle's renderings end in complete characters; the error hook's scripts are clean. -/
structure EnvCl (env : Env) : Prop where
  render : ∀ id d s, env.render id d = some s → EndsRune s
  hook : ∀ h, env.hook = some h → ∀ r v, ScriptCl (h r v)

theorem asc_typeName : (v : Val) → ValCl v → Asc (typeName v)
  | .nil, _ => asc_nil
  | .leaf _ _ ty _ _ _, h => h
  | .safeW _, _ => by simp only [typeName]; exact asc_of_all (by decide)
  | .unsafeW _, _ => by simp only [typeName]; exact asc_of_all (by decide)
  | .redactable _ ty, h => h.2
  | .meth _ ty _ _ _ _ _ _, h => h.1
  | .slice ty _ _ _, h => h.1
  | .map ty _ _ _ _ _, h => h.1
  | .struct ty _ _, h => h.1
  | .ptrTo ty _, h => h.1

/-! ### Results -/

inductive CR : Res → Prop
  | ok {q : PP} : CI q → CR (.ok q)
  | panic {b : Buffer} {pl : Val} : Clean b → ValCl pl → CR (.panic b pl)
  | fuel : CR .fuel
  | unsupported : CR .unsupported

inductive CS : SRes → Prop
  | ok {q : PP} : CI q → CS (.ok q)
  | raised {q : PP} {pl : Val} : CI q → ValCl pl → CS (.raised q pl)
  | abort {r : Res} : CR r → CS (.abort r)

def CRH (a : Bool × Res) : Prop := CR a.2

theorem cr_ok {q : PP} (h : CI q) : CR (.ok q) := .ok h
theorem crh_mk {b : Bool} {r : Res} (h : CR r) : CRH (b, r) := h

theorem cr_bind {a : Res} {k : PP → Res} (h : CR a) (hk : ∀ q, CI q → CR (k q)) : CR (a.bind k) := by
  cases h with
  | ok hq => exact hk _ hq
  | panic hb hpl => exact .panic hb hpl
  | fuel => exact .fuel
  | unsupported => exact .unsupported

theorem cr_ite {c : Prop} [Decidable c] {a b : Res} (ha : CR a) (hb : CR b) : CR (if c then a else b) := by
  split <;> assumption
theorem cr_ite_h {c : Prop} [Decidable c] {a b : Bool × Res} (ha : CRH a) (hb : CRH b) : CRH (if c then a else b) := by
  split <;> assumption

/-- `defer p.startX().restore()` for the three restorers that select an escaping mode. -/
theorem cr_bracket {start : PP → PP × PP.Restorer}
    (hs : ∀ p, CI p → CI (start p).1 ∧ (start p).2.prevMode = p.buf.mode) {p : PP} (hp : CI p)
    {body : PP → Res} (h : ∀ q, CI q → CR (body q)) : CR (bracket start p body) := by
  unfold bracket
  have ⟨h0, h1⟩ := hs p hp
  generalize start p = sp at h0 h1
  obtain ⟨q0, r⟩ := sp
  simp only at h0 h1 ⊢
  have := h q0 h0
  generalize body q0 = x at this
  cases this with
  | ok hq => exact .ok (CI.restore hq.clean r (by rw [h1]; exact hp.mode))
  | panic hb hpl => exact .panic (clean_setMode hb _) hpl
  | fuel => exact .fuel
  | unsupported => exact .unsupported

theorem start_safeOverride_ci (p : PP) (hp : CI p) :
    CI p.startSafeOverride.1 ∧ p.startSafeOverride.2.prevMode = p.buf.mode := by
  unfold PP.startSafeOverride
  refine ⟨?_, rfl⟩
  split
  · exact ⟨clean_setMode hp.clean _, by show (p.buf.setMode .safeEsc).mode ≠ _; rw [setMode_mode]; decide⟩
  · exact hp
theorem start_unsafeOverride_ci (p : PP) (hp : CI p) :
    CI p.startUnsafeOverride.1 ∧ p.startUnsafeOverride.2.prevMode = p.buf.mode := by
  unfold PP.startUnsafeOverride
  refine ⟨?_, rfl⟩
  split
  · exact ⟨clean_setMode hp.clean _, by show (p.buf.setMode .unsafeEsc).mode ≠ _; rw [setMode_mode]; decide⟩
  · exact hp
theorem start_unsafe_ci (p : PP) (hp : CI p) :
    CI p.startUnsafe.1 ∧ p.startUnsafe.2.prevMode = p.buf.mode := by
  unfold PP.startUnsafe
  refine ⟨?_, rfl⟩
  split
  · exact ⟨clean_setMode hp.clean _, by show (p.buf.setMode .unsafeEsc).mode ≠ _; rw [setMode_mode]; decide⟩
  · exact hp

/-- A finished, clean redactable copied raw (or escaped, under an unsafe override). -/
theorem cr_preRedactable {p : PP} (hp : CI p) {c : List Byte} (hc : Obtainable c ∧ RuneEnd (tokenize c) ∧ EndsRune c) :
    CR (bracket PP.startPreRedactable p fun q => .ok (q.w c)) := by
  unfold bracket PP.startPreRedactable
  by_cases ho : p.override ≠ .ovUnsafe
  · rw [if_pos ho]
    apply cr_ok
    have c1 := clean_setMode hp.clean .raw
    have c2 := clean_write c1 c (fun _ => ⟨hc.1, hc.2.1⟩) (fun h => absurd (setMode_mode _ _) h)
    exact CI.restore c2 _ hp.mode
  · rw [if_neg ho]
    apply cr_ok
    exact CI.restore (hp.w hc.2.2).clean _ hp.mode

theorem cr_leafWrite {env : Env} (he : EnvCl env) {p : PP} (hp : CI p) (id verb : Nat) (k : BK) {ty : List Byte} (hty : Asc ty) :
    CR (leafWrite env p id verb k ty) := by
  unfold leafWrite leafWrite1
  split
  · exact .ok (hp.wa (asc_append (asc_append (asc_of_all (by decide)) hty) (asc_of_all (by decide))))
  · split
    · exact .unsupported
    · split
      · exact .unsupported
      · rename_i d _ bytes hb
        exact cr_bracket start_unsafe_ci hp (fun q hq => .ok (hq.w (he.render _ _ _ hb)))

theorem cs_retOut (nr : Bool) {p : PP} (hp : CI p) (sc : Script) (hsc : ScriptCl sc) {r : Res} (h : CR r) : CS (retOut nr p sc r) := by
  unfold retOut
  split
  · exact .raised hp trivial
  · split
    · exact .raised hp (by simpa [ScriptCl] using hsc)
    · exact .abort h

/-! ### The directive parser only drops prefixes, and keeps the buffer clean -/


theorem parsenumAux_suffix (num : Nat) (isnum : Bool) (s : List Byte) : (parsenumAux num isnum s).2.2 <:+ s := by
  induction s generalizing num isnum with
  | nil => simp [parsenumAux]
  | cons c r ih =>
    unfold parsenumAux
    split
    · split
      · exact List.nil_suffix
      · exact List.IsSuffix.trans (ih _ _) (List.suffix_cons _ _)
    · exact List.suffix_refl _

theorem parsenum_suffix (s : List Byte) : (parsenum s).2.2 <:+ s := parsenumAux_suffix 0 false s

theorem parseFlags_suffix (fr : Bool) (st : FState) (s : List Byte) : (parseFlags fr st s).2 <:+ s := by
  induction s generalizing st with
  | nil => simp [parseFlags]
  | cons c r ih =>
    unfold parseFlags
    repeat' split
    all_goals first
      | exact List.IsSuffix.trans (ih _) (List.suffix_cons _ _)
      | exact List.suffix_refl _

theorem decodeVerb_suffix (s : List Byte) (v : Nat) (r : List Byte) (h : decodeVerb s = some (v, r)) : r <:+ s := by
  unfold decodeVerb at h
  repeat' split at h
  all_goals first
    | (simp only [Option.some.injEq, Prod.mk.injEq] at h; obtain ⟨_, rfl⟩ := h
       first
        | exact List.suffix_cons _ _
        | exact ⟨[_, _], rfl⟩
        | exact ⟨[_, _, _], rfl⟩
        | exact ⟨[_, _, _, _], rfl⟩)
    | cases h

theorem argNumber_suffix (p : PP) (k : Nat) (f : List Byte) (n : Nat) : (argNumber p k f n).2.2.1 <:+ f := by
  unfold argNumber
  repeat' split
  all_goals first
    | exact List.drop_suffix _ _
    | exact List.suffix_refl _

theorem argNumber_ci {p : PP} (h : CI p) (k : Nat) (f : List Byte) (n : Nat) : CI (argNumber p k f n).1 := by
  unfold argNumber
  repeat' split
  all_goals exact ⟨h.clean, h.mode⟩

theorem widthStage_suffix (p : PP) (args : List Val) (k : Nat) (r : List Byte) (ai : Bool) : (widthStage p args k r ai).2.2.1 <:+ r := by
  unfold widthStage
  split
  · exact List.suffix_cons _ _
  · exact parsenum_suffix _

theorem widthStage_ci {p : PP} (h : CI p) (args : List Val) (k : Nat) (r : List Byte) (ai : Bool) : CI (widthStage p args k r ai).1 := by
  unfold widthStage
  split
  · dsimp only
    generalize intFromArg args k = ifa
    obtain ⟨num, isInt, newArg⟩ := ifa
    dsimp only
    have h1 : CI ({ p with f := { p.f with wid := num.toNat, widPresent := isInt } } : PP) := ⟨h.clean, h.mode⟩
    have h2 : CI (if (!isInt) = true then ({ p with f := { p.f with wid := num.toNat, widPresent := isInt } } : PP).w
        ([0x25, 0x21, 0x28, 0x42, 0x41, 0x44, 0x57, 0x49, 0x44, 0x54, 0x48, 0x29] /- "%!(BADWIDTH)" -/ : List UInt8)
        else { p with f := { p.f with wid := num.toNat, widPresent := isInt } }) := by
      split
      · exact h1.wa (asc_of_all (by decide))
      · exact h1
    split
    · exact ⟨h2.clean, h2.mode⟩
    · exact h2
  · dsimp only
    split <;> exact ⟨h.clean, h.mode⟩

theorem precStage_suffix (p : PP) (args : List Val) (k : Nat) (r : List Byte) (ai : Bool) : (precStage p args k r ai).2.2.1 <:+ r := by
  unfold precStage
  split
  · rename_i c r''
    dsimp only
    have h1 := argNumber_suffix (if ai = true then { p with goodArgNum := false } else p) k (c :: r'') args.length
    generalize argNumber (if ai = true then { p with goodArgNum := false } else p) k (c :: r'') args.length = an at h1
    obtain ⟨py, ky, ry, aiy⟩ := an
    dsimp only at h1 ⊢
    have h2 : ry <:+ 0x2E :: c :: r'' := List.IsSuffix.trans h1 (List.suffix_cons _ _)
    split
    · rename_i r3
      exact List.IsSuffix.trans (List.suffix_cons _ _) h2
    · exact List.IsSuffix.trans (parsenum_suffix _) h2
  · exact List.suffix_refl _

theorem precStage_ci {p : PP} (h : CI p) (args : List Val) (k : Nat) (r : List Byte) (ai : Bool) : CI (precStage p args k r ai).1 := by
  unfold precStage
  split
  · rename_i c r''
    dsimp only
    have g1 : CI (if ai = true then { p with goodArgNum := false } else p) := by split <;> exact ⟨h.clean, h.mode⟩
    generalize (if ai = true then { p with goodArgNum := false } else p) = px at g1 ⊢
    have g2 := argNumber_ci g1 k (c :: r'') args.length
    generalize argNumber px k (c :: r'') args.length = an at g2 ⊢
    obtain ⟨py, ky, ry, aiy⟩ := an
    dsimp only at g2 ⊢
    split
    · dsimp only
      generalize intFromArg args ky = ifa
      obtain ⟨num, isInt, newArg⟩ := ifa
      dsimp only
      generalize (if num < 0 then ((0 : Nat), false) else (num.toNat, isInt)) = pp
      obtain ⟨prec, precPresent⟩ := pp
      dsimp only
      have h1 : CI ({ py with f := { py.f with prec := prec, precPresent := precPresent } } : PP) := ⟨g2.clean, g2.mode⟩
      split
      · exact h1.wa (asc_of_all (by decide))
      · exact h1
    · dsimp only
      generalize parsenum ry = pn
      obtain ⟨pr, ppres, r3⟩ := pn
      dsimp only
      exact ⟨g2.clean, g2.mode⟩
  · exact h


/-! ### Through the printer -/


structure KSpec (env : Env) (n : Nat) : Prop where
  printArg : ∀ p v verb, CI p → ValCl v → CR (printArg env n p v verb)
  printArgBody : ∀ p v verb, CI p → ValCl v → CR (printArgBody env n p v verb)
  badVerb : ∀ p v verb via, CI p → ValCl v → CR (badVerb env n p v verb via)
  handleMethods : ∀ p v verb, CI p → ValCl v → CRH (handleMethods env n p v verb)
  methDispatch : ∀ p v ms nr ret sc verb, CI p → ValCl v → ScriptCl sc → CRH (methDispatch env n p v ms nr ret sc verb)
  fmtString : ∀ p v ret verb, CI p → ValCl v → CR (fmtString env n p v ret verb)
  catchPanic : ∀ (p0 : PP) (arg : Val) (verb : Nat) (m : List Byte) (nr : Bool) (out : SRes), Asc m → CS out →
    CR (catchPanic env n p0 arg verb m nr out)
  runScript : ∀ p sc, CI p → ScriptCl sc → CS (runScript env n p sc)
  printValue : ∀ p v verb d ro, CI p → ValCl v → CR (printValue env n p v verb d ro)
  printSlot : ∀ p v verb d i ro, CI p → ValCl v → CR (printSlot env n p v verb d i ro)
  slotMethods : ∀ p v verb, CI p → ValCl v → CRH (slotMethods env n p v verb)
  printFields : ∀ p fs verb d ro f, CI p → FieldsCl fs → CR (printFields env n p fs verb d ro f)
  printElems : ∀ p vs verb d i ro f, CI p → ValsCl vs → CR (printElems env n p vs verb d i ro f)
  printPairs : ∀ p ks vs verb d ik iv ro f, CI p → ValsCl ks → ValsCl vs → CR (printPairs env n p ks vs verb d ik iv ro f)
  doPrint : ∀ p args, CI p → ListCl args → CR (doPrint env n p args)
  doPrintLoop : ∀ p args k ps, CI p → ListCl args → CR (doPrintLoop env n p args k ps)
  doPrintf : ∀ p f args, CI p → FmtCl f → ListCl args → CR (doPrintf env n p f args)
  fmtLoop : ∀ p f args k ai, CI p → FmtCl f → ListCl args → CR (fmtLoop env n p f args k ai)
  directiveTail : ∀ p f args k ai, CI p → FmtCl f → ListCl args → CR (directiveTail env n p f args k ai)
  finishPrintf : ∀ p args k, CI p → ListCl args → CR (finishPrintf env n p args k)
  extraLoop : ∀ p args f, CI p → ListCl args → CR (extraLoop env n p args f)

theorem kspec_zero (env : Env) : KSpec env 0 := by
  constructor <;> intros <;> simp only [printArg, printArgBody, badVerb, handleMethods, methDispatch, fmtString, catchPanic,
    runScript, printValue, printSlot, slotMethods, printFields, printElems, printPairs, doPrint, doPrintLoop,
    doPrintf, fmtLoop, directiveTail, finishPrintf, extraLoop]
  all_goals first
    | exact CR.fuel
    | exact CS.abort .fuel

variable {env : Env} {n : Nat}

set_option hygiene false in
macro "kmono" : tactic => `(tactic| repeat' (first
  | exact CR.fuel
  | exact CR.unsupported
  | with_reducible assumption
  | with_reducible exact hv.1
  | with_reducible exact hv.2
  | with_reducible exact hv.2.1
  | with_reducible exact hv.2.2
  | with_reducible exact hv.2.2.1
  | with_reducible exact hv.2.2.2
  | exact asc_of_all (by decide)
  | (show (_ : Byte) < 0x80; decide)
  | (split <;> decide)
  | with_reducible apply cr_ok
  | with_reducible apply CI.wa
  | with_reducible apply CI.wb
  | with_reducible apply CI.wr
  | with_reducible apply CI.ite
  | with_reducible apply CI.setErroring
  | with_reducible apply CI.setF
  | with_reducible apply CI.setPanicking
  | with_reducible apply CI.setWrapped
  | with_reducible apply CI.setWrappedErr
  | with_reducible apply asc_padStr
  | with_reducible apply asc_fmtSAscii
  | with_reducible apply asc_typeName
  | with_reducible apply cr_leafWrite he
  | with_reducible apply cr_preRedactable
  | with_reducible apply K.printArg
  | with_reducible apply K.printArgBody
  | with_reducible apply K.badVerb
  | with_reducible apply K.handleMethods
  | with_reducible apply K.methDispatch
  | with_reducible apply K.fmtString
  | with_reducible apply K.printValue
  | with_reducible apply K.printSlot
  | with_reducible apply K.slotMethods
  | with_reducible apply K.printFields
  | with_reducible apply K.printElems
  | with_reducible apply K.printPairs
  | with_reducible apply K.doPrint
  | with_reducible apply K.doPrintLoop
  | with_reducible apply K.finishPrintf
  | with_reducible apply K.extraLoop
  | with_reducible apply cr_ite
  | with_reducible apply cr_ite_h
  | with_reducible apply crh_mk
  | with_reducible apply cr_bracket start_safeOverride_ci
  | with_reducible apply cr_bracket start_unsafeOverride_ci
  | with_reducible apply cr_bracket start_unsafe_ci
  | with_reducible apply cr_bind
  | (simp only [ValCl, ValsCl, FieldsCl, ScriptCl] at hv ⊢ <;> first | trivial | exact hv | exact hv.1 | exact hv.2 | exact hv.2.1 | exact hv.2.2)
  | (intro q hq)
  | (dsimp only)))

theorem kstep_printArg (he : EnvCl env) (K : KSpec env n) : ∀ p v verb, CI p → ValCl v → CR (printArg env (n + 1) p v verb) := by
  intro p v verb hp hv
  cases v <;> simp only [printArg] <;> kmono

theorem kstep_fmtString (he : EnvCl env) (K : KSpec env n) : ∀ p v ret verb, CI p → ValCl v → CR (fmtString env (n + 1) p v ret verb) := by
  intro p v ret verb hp hv
  simp only [fmtString]
  kmono

theorem kstep_badVerb (he : EnvCl env) (K : KSpec env n) : ∀ p v verb via, CI p → ValCl v → CR (badVerb env (n + 1) p v verb via) := by
  intro p v verb via hp hv
  unfold badVerb
  apply cr_bind
  · cases v <;> simp only <;> kmono
  · kmono

set_option hygiene false in
macro "khandled " e:term:max : tactic => `(tactic| (
  generalize $e = x at hh ⊢
  obtain ⟨b, r⟩ := x
  cases b <;> dsimp only <;> first | exact hh | skip))

theorem kstep_printArgBody (he : EnvCl env) (K : KSpec env n) : ∀ p v verb, CI p → ValCl v → CR (printArgBody env (n + 1) p v verb) := by
  intro p v verb hp hv
  have hh := K.handleMethods p v verb hp hv
  unfold printArgBody
  cases v with
  | leaf id k ty iv sv reg => cases k <;> simp only <;> kmono
  | nil => simp only; kmono
  | redactable c ty => simp only; kmono
  | _ =>
    simp only
    kmono
    all_goals (khandled (handleMethods env n p _ verb); kmono)

theorem kstep_handleMethods (he : EnvCl env) (K : KSpec env n) : ∀ p v verb, CI p → ValCl v → CRH (handleMethods env (n + 1) p v verb) := by
  intro p v verb hp hv
  unfold handleMethods
  cases v <;> simp only <;> kmono

theorem cs_raised_or {nr : Bool} {p : PP} (hp : CI p) {a : SRes} (h : CS a) :
    CS (if nr = true then SRes.raised p .nil else a) := by
  split
  · exact .raised hp trivial
  · exact h

theorem kstep_methDispatch (he : EnvCl env) (K : KSpec env n) : ∀ p v ms nr ret sc verb, CI p → ValCl v → ScriptCl sc →
    CRH (methDispatch env (n + 1) p v ms nr ret sc verb) := by
  intro p v ms nr ret sc verb hp hv hsc
  have cp := K.catchPanic
  have rs : CS (if nr = true then SRes.raised p .nil else runScript env n p sc) := cs_raised_or hp (K.runScript p sc hp hsc)
  unfold methDispatch
  kmono
  all_goals first
    | (apply cp _ _ _ _ _ _ (asc_of_all (by decide)); exact rs)
    | (apply cp _ _ _ _ _ _ (asc_of_all (by decide)); apply cs_retOut _ hp _ hsc; kmono)
    | (split
       · rename_i h heq
         apply crh_mk; apply cp _ _ _ _ _ _ (asc_of_all (by decide))
         exact cs_raised_or hp (K.runScript _ _ hp (he.hook h heq _ _))
       · exact crh_mk (.ok hp))

theorem kstep_catchPanic (he : EnvCl env) (K : KSpec env n) : ∀ (p0 : PP) (arg : Val) (verb : Nat) (m : List Byte) (nr : Bool) (out : SRes),
    Asc m → CS out → CR (catchPanic env (n + 1) p0 arg verb m nr out) := by
  intro p0 arg verb m nr out hm h
  unfold catchPanic
  cases h with
  | ok hq => exact .ok hq
  | abort hr => exact hr
  | raised hq hv =>
    rename_i q pl
    simp only
    split
    · exact .ok (hq.wa (asc_of_all (by decide)))
    · split
      · exact .panic hq.clean hv
      · have hp : CI q := hq
        kmono

theorem kstep_runScript (he : EnvCl env) (K : KSpec env n) : ∀ p sc, CI p → ScriptCl sc → CS (runScript env (n + 1) p sc) := by
  intro p sc hp hv
  unfold runScript
  cases sc with
  | done => exact .ok hp
  | panic pl => exact .raised hp (by simpa [ScriptCl] using hv)
  | print args k =>
    simp only [ScriptCl] at hv
    simp only
    have hd := K.doPrint ({ buf := p.buf, override := p.override } : PP) args.toList hp.nested (listCl_of_valsCl _ hv.1)
    generalize doPrint env n ({ buf := p.buf, override := p.override } : PP) args.toList = r at hd ⊢
    cases hd with
    | ok hq => exact K.runScript _ _ (hp.handBack hq.clean) hv.2
    | panic hb hpl => exact .raised (hp.handBack hb) hpl
    | fuel => exact .abort .fuel
    | unsupported => exact .abort .unsupported
  | printf f args k =>
    simp only [ScriptCl] at hv
    simp only
    have hd := K.doPrintf ({ buf := p.buf, override := p.override } : PP) f args.toList hp.nested hv.1 (listCl_of_valsCl _ hv.2.1)
    generalize doPrintf env n ({ buf := p.buf, override := p.override } : PP) f args.toList = r at hd ⊢
    cases hd with
    | ok hq => exact K.runScript _ _ (hp.handBack hq.clean) hv.2.2
    | panic hb hpl => exact .raised (hp.handBack hb) hpl
    | fuel => exact .abort .fuel
    | unsupported => exact .abort .unsupported
  | unsafeLeaf id k =>
    simp only
    split
    · exact .abort .unsupported
    · rename_i s hs
      have h1 := start_unsafe_ci p hp
      exact K.runScript _ _ (CI.restore (h1.1.w (he.render _ _ _ hs)).clean _ (by rw [h1.2]; exact hp.mode)) (by simpa [ScriptCl] using hv)
  | indep k => simp only; exact K.runScript _ _ hp (by simpa [ScriptCl] using hv)
  | safeString s k =>
    simp only [ScriptCl] at hv
    simp only
    have h1 := start_safeOverride_ci p hp
    exact K.runScript _ _ (CI.restore (h1.1.w hv.1).clean _ (by rw [h1.2]; exact hp.mode)) hv.2
  | safeRune x k =>
    simp only
    have h1 := start_safeOverride_ci p hp
    exact K.runScript _ _ (CI.restore (h1.1.wr _).clean _ (by rw [h1.2]; exact hp.mode)) (by simpa [ScriptCl] using hv)
  | unsafeString s k =>
    simp only [ScriptCl] at hv
    simp only
    have h1 := start_unsafe_ci p hp
    exact K.runScript _ _ (CI.restore (h1.1.w hv.1).clean _ (by rw [h1.2]; exact hp.mode)) hv.2
  | write s k =>
    simp only [ScriptCl] at hv
    simp only
    have h1 := start_unsafe_ci p hp
    exact K.runScript _ _ (CI.restore (h1.1.w hv.1).clean _ (by rw [h1.2]; exact hp.mode)) hv.2

theorem kstep_printValue (he : EnvCl env) (K : KSpec env n) : ∀ p v verb d ro, CI p → ValCl v → CR (printValue env (n + 1) p v verb d ro) := by
  intro p v verb d ro hp hv
  unfold printValue
  cases v <;> simp only <;> kmono

theorem kstep_slotMethods (he : EnvCl env) (K : KSpec env n) : ∀ p v verb, CI p → ValCl v → CRH (slotMethods env (n + 1) p v verb) := by
  intro p v verb hp hv
  unfold slotMethods
  cases v with
  | redactable c ty =>
    simp only
    kmono
    have hr := K.runScript p (.print (.cons (.redactable c ty) .nil) .done) hp (by simp only [ScriptCl, ValsCl]; exact ⟨⟨hv, trivial⟩, trivial⟩)
    generalize runScript env n p (.print (.cons (.redactable c ty) .nil) .done) = r at hr ⊢
    cases hr with
    | ok hq => exact .ok hq
    | raised hq hpl => exact .panic hq.clean hpl
    | abort h => exact h
  | _ => simp only <;> kmono

theorem kstep_printFields (he : EnvCl env) (K : KSpec env n) : ∀ p fs verb d ro f, CI p → FieldsCl fs → CR (printFields env (n + 1) p fs verb d ro f) := by
  intro p fs verb d ro f hp hv
  unfold printFields
  cases fs with
  | nil => exact .ok hp
  | cons name exported it v rest =>
    simp only [FieldsCl] at hv
    simp only
    have g1 : CI (if f = true then p else if p.f.sharpV = true then p.w ([0x2C, 0x20] /- ", " -/ : List UInt8) else p.wb 0x20) := by kmono
    generalize (if f = true then p else if p.f.sharpV = true then p.w ([0x2C, 0x20] /- ", " -/ : List UInt8) else p.wb 0x20) = p1 at g1 ⊢
    have g2 : CI (if p1.f.plusV = true ∨ p1.f.sharpV = true then (p1.w name).wb 0x3A else p1) := by
      split
      · exact (g1.w hv.1).wb (by decide)
      · exact g1
    apply cr_bind (K.printSlot _ _ _ _ _ _ g2 hv.2.1)
    intro q hq
    exact K.printFields _ _ _ _ _ _ hq hv.2.2

theorem kstep_printElems (he : EnvCl env) (K : KSpec env n) : ∀ p vs verb d i ro f, CI p → ValsCl vs → CR (printElems env (n + 1) p vs verb d i ro f) := by
  intro p vs verb d i ro f hp hv
  unfold printElems
  cases vs <;> simp only <;> kmono

theorem kstep_printPairs (he : EnvCl env) (K : KSpec env n) : ∀ p ks vs verb d ik iv ro f, CI p → ValsCl ks → ValsCl vs →
    CR (printPairs env (n + 1) p ks vs verb d ik iv ro f) := by
  intro p ks vs verb d ik iv ro f hp hk hv
  unfold printPairs
  cases ks with
  | nil => cases vs <;> simp only <;> kmono
  | cons k kr =>
    cases vs with
    | nil => simp only; kmono
    | cons v vr =>
      simp only [ValsCl] at hk hv
      simp only
      apply cr_bind (K.printSlot _ _ _ _ _ _ (by kmono) hk.1)
      intro q hq
      apply cr_bind (K.printSlot _ _ _ _ _ _ (hq.wb (by decide)) hv.1)
      intro q2 hq2
      exact K.printPairs _ _ _ _ _ _ _ _ _ hq2 hk.2 hv.2

theorem listCl_tail {a : Val} {l : List Val} (h : ListCl (a :: l)) : ValCl a ∧ ListCl l :=
  ⟨h a (by simp), fun v hv => h v (by simp [hv])⟩

theorem kstep_doPrint (he : EnvCl env) (K : KSpec env n) : ∀ p args, CI p → ListCl args → CR (doPrint env (n + 1) p args) := by
  intro p args hp hv
  unfold doPrint
  dsimp only
  apply K.doPrintLoop _ _ _ _ _ hv
  split
  · exact ⟨clean_setMode hp.clean _, by show (p.buf.setMode .safeEsc).mode ≠ _; rw [setMode_mode]; decide⟩
  · exact hp

theorem kstep_doPrintLoop (he : EnvCl env) (K : KSpec env n) : ∀ p args k ps, CI p → ListCl args → CR (doPrintLoop env (n + 1) p args k ps) := by
  intro p args k ps hp hl
  unfold doPrintLoop
  cases args with
  | nil => exact .ok hp
  | cons a rest =>
    have hv := listCl_tail hl
    simp only
    kmono

theorem listCl_drop {l : List Val} (h : ListCl l) (k : Nat) : ListCl (l.drop k) :=
  fun v hv => h v (List.mem_of_mem_drop hv)
theorem listCl_get {args : List Val} (ha : ListCl args) {k : Nat} {a : Val} (h : args[k]? = some a) : ValCl a :=
  ha a (List.mem_of_getElem? h)

theorem ci_setSafe {p : PP} (hp : CI p) : CI (if p.override ≠ .ovUnsafe then { p with buf := p.buf.setMode .safeEsc } else p) := by
  split
  · exact ⟨clean_setMode hp.clean _, by show (p.buf.setMode .safeEsc).mode ≠ _; rw [setMode_mode]; decide⟩
  · exact hp

theorem kstep_doPrintf (he : EnvCl env) (K : KSpec env n) : ∀ p f args, CI p → FmtCl f → ListCl args → CR (doPrintf env (n + 1) p f args) := by
  intro p f args hp hf hv
  unfold doPrintf
  dsimp only
  have h1 := ci_setSafe hp
  generalize (if p.override ≠ .ovUnsafe then { p with buf := p.buf.setMode .safeEsc } else p) = p1 at h1 ⊢
  apply cr_bind (K.fmtLoop ({ p1 with reordered := false } : PP) _ _ _ _ ⟨h1.clean, h1.mode⟩ hf hv)
  intro q hq
  exact .ok hq

theorem kstep_extraLoop (he : EnvCl env) (K : KSpec env n) : ∀ p args f, CI p → ListCl args → CR (extraLoop env (n + 1) p args f) := by
  intro p args f hp hl
  unfold extraLoop
  cases args with
  | nil => exact .ok hp
  | cons a rest =>
    have hv := listCl_tail hl
    simp only
    apply cr_bind _ (fun q hq => K.extraLoop _ _ _ hq hv.2)
    cases a <;> simp only <;> kmono

theorem kstep_finishPrintf (he : EnvCl env) (K : KSpec env n) : ∀ p args k, CI p → ListCl args → CR (finishPrintf env (n + 1) p args k) := by
  intro p args k hp hl
  have hv := listCl_drop hl k
  unfold finishPrintf
  kmono

theorem dropWhile_head {α : Type} (pr : α → Bool) : ∀ (l : List α) (c : α) (r : List α), l.dropWhile pr = c :: r → pr c = false := by
  intro l
  induction l with
  | nil => intro c r h; simp at h
  | cons x xs ih =>
    intro c r h
    simp only [List.dropWhile] at h
    split at h
    · exact ih c r h
    · rename_i hx
      simp only [List.cons.injEq] at h
      rw [← h.1]; simpa using hx

theorem kstep_fmtLoop (he : EnvCl env) (K : KSpec env n) : ∀ p f args k ai, CI p → FmtCl f → ListCl args →
    CR (fmtLoop env (n + 1) p f args k ai) := by
  intro p f args k ai hp hf hv
  unfold fmtLoop
  dsimp only
  have h0 : CI ({ p with goodArgNum := true } : PP) := ⟨hp.clean, hp.mode⟩
  have h1 : CI (if (f.takeWhile (· ≠ 0x25)).isEmpty = true then ({ p with goodArgNum := true } : PP)
      else ({ p with goodArgNum := true } : PP).w (f.takeWhile (· ≠ 0x25))) := by
    split
    · exact h0
    · exact h0.w hf.lit
  generalize (if (f.takeWhile (· ≠ 0x25)).isEmpty = true then ({ p with goodArgNum := true } : PP)
      else ({ p with goodArgNum := true } : PP).w (f.takeWhile (· ≠ 0x25))) = p1 at h1 ⊢
  have hrest : Utf8 (f.dropWhile (· ≠ 0x25)) := (utf8_split_percent f hf).2
  split
  · exact K.finishPrintf _ _ _ h1 hv
  · rename_i c r0 heq
    -- the byte dropWhile stopped at is `%`
    have hc : c = 0x25 := by
      have := dropWhile_head (fun x => decide (x ≠ 0x25)) f c r0 heq
      simpa using this
    have hr0 : Utf8 r0 := by rw [heq] at hrest; exact utf8_tail_ascii hrest (by rw [hc]; decide)
    have hpf := parseFlags_utf8 true {} r0 hr0
    generalize parseFlags true {} r0 = pf at hpf
    obtain ⟨fs, r1⟩ := pf
    dsimp only at hpf ⊢
    have h2 : CI ({ { p1 with f := p1.f.clear } with f := { p1.f.clear with plus := fs.plus, minus := fs.minus, sharp := fs.sharp, space := fs.space, zero := fs.zero } } : PP) :=
      ⟨h1.clean, h1.mode⟩
    split
    · rename_i c2 r2
      split
      · rename_i hfast
        have hr2 : Utf8 r2 := utf8_tail_ascii hpf (by
          have := hfast.2.1
          exact Nat.lt_of_le_of_lt (UInt8.le_iff_toNat_le.mp this) (by decide))
        split
        · rename_i a ha2
          have hva := listCl_get hv ha2
          apply cr_bind
          · apply K.printArg _ _ _ _ hva
            split
            · exact ⟨h2.clean, h2.mode⟩
            · exact h2
          · intro q hq
            exact K.fmtLoop _ _ _ _ _ hq hr2 hv
        · apply cr_ok
          split
          · exact ⟨h2.clean, h2.mode⟩
          · exact h2
      · exact K.directiveTail _ _ _ _ _ h2 hpf hv
    · exact K.directiveTail _ _ _ _ _ h2 hpf hv

theorem kstep_directiveTail (he : EnvCl env) (K : KSpec env n) : ∀ p f args k ai, CI p → FmtCl f → ListCl args →
    CR (directiveTail env (n + 1) p f args k ai) := by
  intro p f args k ai hp hf hv
  unfold directiveTail
  dsimp only
  have c1 := argNumber_ci hp k f args.length
  have s1 := argNumber_utf8 p k f args.length hf
  generalize argNumber p k f args.length = an at c1 s1
  obtain ⟨p1, k1, r1, ai1⟩ := an
  dsimp only at c1 s1 ⊢
  have c2 := widthStage_ci c1 args k1 r1 ai1
  have s2 := widthStage_utf8 p1 args k1 r1 ai1 s1
  generalize widthStage p1 args k1 r1 ai1 = ws at c2 s2
  obtain ⟨p2, k2, r2, ai2⟩ := ws
  dsimp only at c2 s2 ⊢
  have c3 := precStage_ci c2 args k2 r2 ai2
  have s3 := precStage_utf8 p2 args k2 r2 ai2 s2
  generalize precStage p2 args k2 r2 ai2 = ps at c3 s3
  obtain ⟨p3, k3, r3, ai3⟩ := ps
  dsimp only at c3 s3 ⊢
  have c4 : CI (if (!ai3) = true then argNumber p3 k3 r3 args.length else (p3, k3, r3, ai3)).1 := by
    split
    · exact argNumber_ci c3 _ _ _
    · exact c3
  have s4 : Utf8 (if (!ai3) = true then argNumber p3 k3 r3 args.length else (p3, k3, r3, ai3)).2.2.1 := by
    split
    · exact argNumber_utf8 _ _ _ _ s3
    · exact s3
  generalize (if (!ai3) = true then argNumber p3 k3 r3 args.length else (p3, k3, r3, ai3)) = an4 at c4 s4
  obtain ⟨p4, k4, r4, ai4⟩ := an4
  dsimp only at c4 s4 ⊢
  split
  · exact .ok (c4.wa (asc_of_all (by decide)))
  · rename_i verb r' hdv
    have hf' : FmtCl r' := decodeVerb_utf8 _ s4 _ _ hdv
    have wbang : CI ((p4.w percentBang).wr verb) := (c4.wa (asc_of_all (by decide))).wr _
    split
    · exact K.fmtLoop _ _ _ _ _ (c4.wb (by decide)) hf' hv
    · split
      · exact K.fmtLoop _ _ _ _ _ (wbang.wa (asc_of_all (by decide))) hf' hv
      · split
        · exact K.fmtLoop _ _ _ _ _ (wbang.wa (asc_of_all (by decide))) hf' hv
        · have h5 : CI (if verb = 118 then ({ p4 with f := { p4.f with sharpV := p4.f.sharp, sharp := false, plusV := p4.f.plus, plus := false } } : PP) else p4) := by
            split
            · exact ⟨c4.clean, c4.mode⟩
            · exact c4
          split
          · rename_i a ha2
            apply cr_bind (K.printArg _ _ _ h5 (listCl_get hv ha2))
            intro q hq
            exact K.fmtLoop _ _ _ _ _ hq hf' hv
          · exact .ok h5

theorem kstep_printSlot (he : EnvCl env) (K : KSpec env n) : ∀ p v verb d i ro, CI p → ValCl v → CR (printSlot env (n + 1) p v verb d i ro) := by
  intro p v verb d i ro hp hv
  have noMethod : ∀ q3, CI q3 → CR (if i = true then printSlot env n q3 v verb (d + 1) false ro else printValue env n q3 v verb d ro) := by
    intro q3 hq3; kmono
  have afterMethods : ∀ q2, CI q2 → CR
      (if (!ro) = true then
        match slotMethods env n q2 v verb with
        | (true, r) => r
        | (false, _) => (if i = true then printSlot env n q2 v verb (d + 1) false ro else printValue env n q2 v verb d ro)
      else (if i = true then printSlot env n q2 v verb (d + 1) false ro else printValue env n q2 v verb d ro)) := by
    intro q2 hq2
    apply cr_ite _ (noMethod q2 hq2)
    have hh := K.slotMethods q2 v verb hq2 hv
    khandled (slotMethods env n q2 v verb)
    exact noMethod q2 hq2
  have body : ∀ q, CI q → CR
      (if (!ro) = true ∧ isSafeValue v = true then bracket PP.startSafeOverride q (fun q2 =>
          if (!ro) = true then
            match slotMethods env n q2 v verb with
            | (true, r) => r
            | (false, _) => (if i = true then printSlot env n q2 v verb (d + 1) false ro else printValue env n q2 v verb d ro)
          else (if i = true then printSlot env n q2 v verb (d + 1) false ro else printValue env n q2 v verb d ro))
       else
          if (!ro) = true then
            match slotMethods env n q v verb with
            | (true, r) => r
            | (false, _) => (if i = true then printSlot env n q v verb (d + 1) false ro else printValue env n q v verb d ro)
          else (if i = true then printSlot env n q v verb (d + 1) false ro else printValue env n q v verb d ro)) := by
    intro q hq
    exact cr_ite (cr_bracket start_safeOverride_ci hq afterMethods) (afterMethods q hq)
  have wrap := cr_ite (c := (!i) = true ∧ isRegistered v = true) (cr_bracket start_safeOverride_ci hp body) (body p hp)
  unfold printSlot
  cases v with
  | nil => simp only; kmono
  | safeW w =>
    cases i <;> simp only [Bool.false_eq_true, if_false, if_true]
    · kmono
    · exact wrap
  | unsafeW w =>
    cases i <;> simp only [Bool.false_eq_true, if_false, if_true]
    · kmono
    · exact wrap
  | redactable c ty =>
    cases i <;> simp only [Bool.false_eq_true, if_false, if_true]
    · kmono
    · exact wrap
  | _ =>
    simp only
    split
    · rename_i r hspecial
      split at hspecial <;> cases hspecial
    · exact wrap

/-- **Clean inputs keep the buffer clean**, through all 21 functions of the printer, at every fuel. -/
theorem kspec_all (env : Env) (he : EnvCl env) : ∀ n, KSpec env n := by
  intro n
  induction n with
  | zero => exact kspec_zero env
  | succ n ih =>
    exact {
      printArg := kstep_printArg he ih
      printArgBody := kstep_printArgBody he ih
      badVerb := kstep_badVerb he ih
      handleMethods := kstep_handleMethods he ih
      methDispatch := kstep_methDispatch he ih
      fmtString := kstep_fmtString he ih
      catchPanic := kstep_catchPanic he ih
      runScript := kstep_runScript he ih
      printValue := kstep_printValue he ih
      printSlot := kstep_printSlot he ih
      slotMethods := kstep_slotMethods he ih
      printFields := kstep_printFields he ih
      printElems := kstep_printElems he ih
      printPairs := kstep_printPairs he ih
      doPrint := kstep_doPrint he ih
      doPrintLoop := kstep_doPrintLoop he ih
      doPrintf := kstep_doPrintf he ih
      fmtLoop := kstep_fmtLoop he ih
      directiveTail := kstep_directiveTail he ih
      finishPrintf := kstep_finishPrintf he ih
      extraLoop := kstep_extraLoop he ih }

theorem clean_init : Clean Buffer.init := ⟨[], [], inv_init, runeEnd_nil, fun _ => runeEnd_nil, fun _ => Or.inl rfl, rfl, rfl⟩

theorem ci_newPP : CI newPP := ⟨clean_init, by decide⟩

/-- **The output of `Sprint` on clean inputs ends in a complete character**: the truncated-UTF-8 tail
fix never fires, and printing the output again will not add to it. -/
theorem doPrint_output_clean (env : Env) (he : EnvCl env) (n : Nat) (args : List Val) (ha : ListCl args) (q : PP)
    (h : doPrint env n newPP args = .ok q) :
    RuneEnd (tokenize q.buf.redactableBytes) ∧ tailBad q.buf.redactableBytes = false := by
  have hr := (kspec_all env he n).doPrint newPP args ci_newPP ha
  rw [h] at hr
  cases hr with
  | ok hq =>
    obtain ⟨a, d, k⟩ := hq.clean
    have ⟨c, _, _⟩ := finalize_K _ _ _ k
    exact ⟨c, tailBad_of_runeEnd _ c⟩

theorem sprint_output_clean (env : Env) (he : EnvCl env) (args : List Val) (ha : ListCl args) (q : PP)
    (h : sprint env args = .ok q) :
    RuneEnd (tokenize q.buf.redactableBytes) ∧ tailBad q.buf.redactableBytes = false :=
  doPrint_output_clean env he defaultFuel args ha q h

theorem doPrintf_output_clean (env : Env) (he : EnvCl env) (n : Nat) (p : PP) (hp : CI p) (f : List Byte) (hf : FmtCl f)
    (args : List Val) (ha : ListCl args) (q : PP) (h : doPrintf env n p f args = .ok q) :
    RuneEnd (tokenize q.buf.redactableBytes) ∧ tailBad q.buf.redactableBytes = false := by
  have hr := (kspec_all env he n).doPrintf p f args hp hf ha
  rw [h] at hr
  cases hr with
  | ok hq =>
    obtain ⟨a, d, k⟩ := hq.clean
    have ⟨c, _, _⟩ := finalize_K _ _ _ k
    exact ⟨c, tailBad_of_runeEnd _ c⟩

/-- **The output of `Sprintf` on a clean format and clean operands ends in a complete character.** -/
theorem sprintf_output_clean (env : Env) (he : EnvCl env) (f : List Byte) (hf : FmtCl f) (args : List Val) (ha : ListCl args)
    (q : PP) (h : sprintf env f args = .ok q) :
    RuneEnd (tokenize q.buf.redactableBytes) ∧ tailBad q.buf.redactableBytes = false :=
  doPrintf_output_clean env he defaultFuel newPP ci_newPP f hf args ha q h

end Redact
