import RedactVerif.Proofs.PrinterInv
import RedactVerif.Props.C10
/-
The vocabulary of `PrinterBasics.lean` re-read for printing under a `Safe` override: the same
names with the same shapes, so that the induction of `PrinterInv.lean` can be repeated on them.
Under the override the printer stays in safe mode and never touches the validated prefix of the
buffer: no envelope is opened. The one operand that would open envelopes of its own — a
RedactableString/RedactableBytes, which is copied as it is — is excluded (`ValOk` here says:
no such operand anywhere in the value, its methods' arguments or their panic payloads):
that is the property's "x without a classification of its own".
-/
namespace Redact.S

mutual
def ValOk : Val → Prop
  | .nil => True
  | .leaf _ _ _ _ _ _ => True
  | .safeW v => ValOk v
  | .unsafeW v => ValOk v
  | .redactable _ _ => False
  | .meth _ _ _ _ _ _ sc under => ScriptOk sc ∧ ValOk under
  | .slice _ _ _ es => ValsOk es
  | .map _ _ _ _ ks vs => ValsOk ks ∧ ValsOk vs
  | .struct _ _ fs => FieldsOk fs
  | .ptrTo _ v => ValOk v
def ValsOk : Vals → Prop
  | .nil => True
  | .cons v r => ValOk v ∧ ValsOk r
def FieldsOk : Fields → Prop
  | .nil => True
  | .cons _ _ _ v r => ValOk v ∧ FieldsOk r
def ScriptOk : Script → Prop
  | .done => True
  | .safeString _ k => ScriptOk k
  | .unsafeString _ k => ScriptOk k
  | .safeRune _ k => ScriptOk k
  | .write _ k => ScriptOk k
  | .unsafeLeaf _ k => ScriptOk k
  | .print args k => ValsOk args ∧ ScriptOk k
  | .printf _ args k => ValsOk args ∧ ScriptOk k
  | .indep k => ScriptOk k
  | .panic payload => ValOk payload
end

def ListOk (l : List Val) : Prop := ∀ v ∈ l, ValOk v

theorem listOk_of_valsOk : (vs : Vals) → ValsOk vs → ListOk vs.toList
  | .nil, _ => by intro v hv; simp [Vals.toList] at hv
  | .cons x r, h => by
    intro v hv
    simp only [Vals.toList, List.mem_cons] at hv
    rcases hv with rfl | hv
    · exact h.1
    · exact listOk_of_valsOk r h.2 v hv

def EnvOk (env : Env) : Prop := ∀ h, env.hook = some h → ∀ r v, ScriptOk (h r v)

/-- `b` was reached from `b0` by writes made under a `Safe` override: safe mode, and the
validated prefix (where all the envelopes are) is what it was. -/
structure BS (b0 b : Buffer) : Prop where
  inv : Inv b
  mode : b.mode = .safeEsc
  pre : b.pre = b0.pre

theorem BS.trans {a b c : Buffer} (h1 : BS a b) (h2 : BS b c) : BS a c := ⟨h2.inv, h2.mode, h2.pre.trans h1.pre⟩

theorem BS_append {b0 b : Buffer} (h : BS b0 b) (s : List Byte) : BS b0 (b.append s) := by
  have j := inv_append b s h.inv (fun hc => by rw [h.mode] at hc; cases hc.1) (fun hr => by rw [h.mode] at hr; cases hr)
  have hpre : (b.append s).pre = b.pre := by
    simp [Buffer.append, Buffer.pre, List.take_append_of_le_length h.inv.le]
  exact ⟨j, h.mode, hpre.trans h.pre⟩

theorem startWrite_safe {b : Buffer} (hm : b.mode = .safeEsc) : b.startWrite = b :=
  startWrite_noop b (fun hc => by rw [hm] at hc; cases hc.1)

theorem BS_write {b0 b : Buffer} (h : BS b0 b) (s : List Byte) : BS b0 (b.write s) := by
  unfold Buffer.write; rw [startWrite_safe h.mode]; exact BS_append h s

theorem BS_writeRune {b0 b : Buffer} (h : BS b0 b) (r : Int) : BS b0 (b.writeRune r) := by
  unfold Buffer.writeRune; rw [startWrite_safe h.mode]; exact BS_append h _

theorem BS_writeByte {b0 b : Buffer} (h : BS b0 b) (x : Byte) : BS b0 (b.writeByte x) := by
  unfold Buffer.writeByte
  rw [startWrite_safe h.mode]
  have : ¬ (b.mode = .unsafeEsc ∧ x ≥ 0x80) := fun hc => by rw [h.mode] at hc; cases hc.1
  simp only [this, if_false]
  exact BS_append h _

/-- Under a `Safe(…)` wrapper: safe mode, `overrideSafe`. -/
def Pre (p : PP) : Prop := Inv p.buf ∧ p.buf.mode = .safeEsc ∧ p.override = .ovSafe

def G (p q : PP) : Prop := BS p.buf q.buf ∧ q.override = p.override

theorem Pre.bs {p : PP} (h : Pre p) : BS p.buf p.buf := ⟨h.1, h.2.1, rfl⟩
theorem G.refl {p : PP} (h : Pre p) : G p p := ⟨h.bs, rfl⟩
theorem G.trans {p q r : PP} (h1 : G p q) (h2 : G q r) : G p r := ⟨BS.trans h1.1 h2.1, h2.2.trans h1.2⟩
theorem G.pre {p q : PP} (hp : Pre p) (h : G p q) : Pre q := ⟨h.1.inv, h.1.mode, by rw [h.2]; exact hp.2.2⟩

def GR (p : PP) (r : Res) : Prop :=
  (∀ q, r = .ok q → G p q) ∧ (∀ b pl, r = .panic b pl → BS p.buf b ∧ ValOk pl)

theorem G_w {p : PP} (hp : Pre p) (s : List Byte) : G p (p.w s) := ⟨BS_write hp.bs s, rfl⟩
theorem G_wb {p : PP} (hp : Pre p) (c : Byte) : G p (p.wb c) := ⟨BS_writeByte hp.bs c, rfl⟩
theorem G_wr {p : PP} (hp : Pre p) (r : Int) : G p (p.wr r) := ⟨BS_writeRune hp.bs r, rfl⟩

theorem G_same {p q : PP} (hp : Pre p) (hb : q.buf = p.buf) (ho : q.override = p.override) : G p q :=
  ⟨by rw [hb]; exact hp.bs, ho⟩

theorem GR_bind {p : PP} {r : Res} {f : PP → Res} (h1 : GR p r) (h2 : ∀ q, G p q → GR q (f q)) : GR p (r.bind f) := by
  cases r with
  | ok q1 =>
    have g1 := h1.1 q1 rfl
    exact ⟨fun q hq => G.trans g1 ((h2 q1 g1).1 q hq), fun b pl hq =>
      ⟨BS.trans g1.1 ((h2 q1 g1).2 b pl hq).1, ((h2 q1 g1).2 b pl hq).2⟩⟩
  | panic b pl => exact ⟨fun q hq => (by simp [Res.bind] at hq), fun b' pl' hq => (by
      simp only [Res.bind, Res.panic.injEq] at hq; obtain ⟨rfl, rfl⟩ := hq; exact h1.2 _ _ rfl)⟩
  | fuel => exact ⟨fun q hq => (by simp [Res.bind] at hq), fun b pl hq => (by simp [Res.bind] at hq)⟩
  | unsupported => exact ⟨fun q hq => (by simp [Res.bind] at hq), fun b pl hq => (by simp [Res.bind] at hq)⟩

/-- Under the override every `startX` met leaves the printer as it is, and its restorer restores what is already there. -/
theorem GR_bracket (start : PP → PP × PP.Restorer) (p : PP) (body : PP → Res) (hp : Pre p)
    (hstart : Pre (start p).1 ∧ (start p).2 = ⟨p.buf.mode, p.override⟩ ∧ (start p).1 = p)
    (hbody : GR (start p).1 (body (start p).1)) : GR p (bracket start p body) := by
  unfold bracket
  generalize hs : start p = sp at hstart hbody
  obtain ⟨q0, r⟩ := sp
  simp only at hstart hbody ⊢
  obtain ⟨_, hr, rfl⟩ := hstart
  subst hr
  cases hb : body q0 with
  | ok q1 =>
    rw [hb] at hbody
    have g := hbody.1 q1 rfl
    refine ⟨fun q hq => ?_, fun b pl hq => (by cases hq)⟩
    simp only [Res.ok.injEq] at hq
    subst hq
    have : q1.buf.setMode q0.buf.mode = q1.buf := setMode_same _ _ (by rw [g.1.mode, hp.2.1])
    exact ⟨by simp only [PP.restore]; rw [this]; exact g.1, rfl⟩
  | panic b pl =>
    rw [hb] at hbody
    have g := hbody.2 b pl rfl
    refine ⟨fun q hq => (by cases hq), fun b' pl' hq => ?_⟩
    simp only [Res.panic.injEq] at hq
    obtain ⟨rfl, rfl⟩ := hq
    have : b.setMode q0.buf.mode = b := setMode_same _ _ (by rw [g.1.mode, hp.2.1])
    rw [this]
    exact g
  | fuel => exact ⟨fun q hq => (by cases hq), fun b pl hq => (by cases hq)⟩
  | unsupported => exact ⟨fun q hq => (by cases hq), fun b pl hq => (by cases hq)⟩

theorem start_safeOverride {p : PP} (hp : Pre p) :
    Pre p.startSafeOverride.1 ∧ p.startSafeOverride.2 = ⟨p.buf.mode, p.override⟩ ∧ p.startSafeOverride.1 = p := by
  unfold PP.startSafeOverride
  have : ¬ (p.override = .no) := by rw [hp.2.2]; decide
  simp only [this, if_false]
  exact ⟨hp, trivial, trivial⟩

theorem start_unsafeOverride {p : PP} (hp : Pre p) :
    Pre p.startUnsafeOverride.1 ∧ p.startUnsafeOverride.2 = ⟨p.buf.mode, p.override⟩ ∧ p.startUnsafeOverride.1 = p := by
  unfold PP.startUnsafeOverride
  have : ¬ (p.override = .no) := by rw [hp.2.2]; decide
  simp only [this, if_false]
  exact ⟨hp, trivial, trivial⟩

/-- `UnsafeString` & co. under `Safe(…)`: the mode is left alone. -/
theorem start_unsafe {p : PP} (hp : Pre p) :
    Pre p.startUnsafe.1 ∧ p.startUnsafe.2 = ⟨p.buf.mode, p.override⟩ ∧ p.startUnsafe.1 = p := by
  unfold PP.startUnsafe
  have : ¬ (p.override ≠ .ovSafe) := by rw [hp.2.2]; decide
  simp only [this, if_false]
  exact ⟨hp, trivial, trivial⟩

theorem GR_ok {p q : PP} (h : G p q) : GR p (.ok q) :=
  ⟨fun q' hq => (by cases hq; exact h), fun b pl hq => (by cases hq)⟩

/-- Excluded: a value under `Safe(…)` here has no redactable operand. -/
theorem GR_preRedactable (p : PP) (content : List Byte) (_hp : Pre p) (hc : False) :
    GR p (bracket PP.startPreRedactable p fun q => .ok (q.w content)) := hc.elim

theorem GR_none (p : PP) {r : Res} (h1 : ∀ q, r ≠ .ok q) (h2 : ∀ b pl, r ≠ .panic b pl) : GR p r :=
  ⟨fun q hq => absurd hq (h1 q), fun b pl hq => absurd hq (h2 b pl)⟩

theorem GR_leafWrite (env : Env) (p : PP) (id verb : Nat) (k : BK) (ty : List Byte) (hp : Pre p) :
    GR p (leafWrite env p id verb k ty) := by
  unfold leafWrite
  split
  · exact GR_ok (G_w hp _)
  · unfold leafWrite1
    split
    · exact GR_none _ (fun _ h => by cases h) (fun _ _ h => by cases h)
    · split
      · exact GR_none _ (fun _ h => by cases h) (fun _ _ h => by cases h)
      · apply GR_bracket _ _ _ hp (start_unsafe hp)
        exact GR_ok (G_w (start_unsafe hp).1 _)

end Redact.S
