import RedactVerif.Proofs.S.Inv
namespace Redact.S

/-- **`Safe(x)` as an operand, anywhere** (`x` without a redactable operand): the printing of
the operand happens in safe mode and leaves the validated prefix of the buffer — every envelope
written so far — as it was; the operand's bytes are pending safe text. Whatever `x` is:
`Unsafe(…)` wrappers inside it, unsafe leaves, formatters calling `UnsafeString`, errors,
panicking methods. -/
theorem safe_operand (env : Env) (he : EnvOk env) (n : Nat) (p : PP) (v : Val) (verb : Nat)
    (hp : Redact.Pre p) (ho : p.override = .no) (hm : p.buf.mode = .safeEsc) (hv : ValOk v) (q : PP)
    (h : printArg env (n + 1) p (.safeW v) verb = .ok q) :
    Inv q.buf ∧ q.buf.mode = .safeEsc ∧ q.override = .no ∧ q.buf.pre = p.buf.pre := by
  simp only [printArg] at h
  unfold bracket PP.startSafeOverride at h
  simp only [ho, if_true] at h
  have e : p.buf.setMode .safeEsc = p.buf := setMode_same _ _ hm
  rw [e] at h
  have hp' : Pre ({ p with buf := p.buf, override := .ovSafe } : PP) := ⟨hp.1, hm, rfl⟩
  have S := (spec_all env he n).printArg _ v verb hp' hv
  split at h
  · rename_i q' heq
    have g := S.1 q' heq
    simp only [Res.ok.injEq] at h
    subst h
    have : q'.buf.setMode p.buf.mode = q'.buf := setMode_same _ _ (by rw [g.1.mode, hm])
    refine ⟨?_, ?_, rfl, ?_⟩
    · show Inv (q'.buf.setMode p.buf.mode); rw [this]; exact g.1.inv
    · show (q'.buf.setMode p.buf.mode).mode = _; rw [this]; exact g.1.mode
    · show (q'.buf.setMode p.buf.mode).pre = _; rw [this]; exact g.1.pre
  · cases h
  · rename_i x _ _
    cases x <;> simp_all

/-- **`Sprint(Safe(x))` contains no marker at all** (`x` without a redactable operand):
no envelope is opened, and any marker character `x` prints is escaped. -/
theorem sprint_safe_no_envelope (env : Env) (he : EnvOk env) (v : Val) (hv : ValOk v) (n : Nat) (q : PP)
    (h : doPrint env n newPP [.safeW v] = .ok q) :
    ∀ t ∈ tokenize q.buf.redactableBytes, t.isMarker = false := by
  match n, h with
  | 0, h => simp [doPrint] at h
  | 1, h => simp [doPrint, doPrintLoop] at h
  | k + 2, h =>
    simp only [doPrint, doPrintLoop] at h
    have hov : newPP.override ≠ .ovUnsafe := by decide
    simp only [hov, if_true, ne_eq, not_false_eq_true, Nat.lt_irrefl, false_and, if_false, gt_iff_lt] at h
    generalize hp1 : ({ newPP with buf := newPP.buf.setMode .safeEsc } : PP) = p1 at h
    have e1 : p1.buf = { buf := [], validUntil := 0, mode := .safeEsc, markerOpen := false } := by
      rw [← hp1]; decide
    have hp : Redact.Pre p1 := by
      rw [← hp1]; exact ⟨inv_setMode newPP.buf .safeEsc inv_init, by simp [setMode_mode]⟩
    cases k with
    | zero => simp [printArg, Res.bind] at h
    | succ k =>
      cases hr : printArg env (k + 1) p1 (.safeW v) 118 with
      | ok q' =>
        rw [hr] at h
        simp only [Res.bind, doPrintLoop, Res.ok.injEq] at h
        subst h
        have ⟨i, m, _, hpre⟩ := safe_operand env he k p1 v 118 hp (by rw [← hp1]; rfl) (by rw [e1]) hv q' hr
        have hpre0 : q'.buf.pre = [] := by rw [hpre, e1]; rfl
        have hm : q'.buf.mode ≠ .raw := by rw [m]; decide
        have hdec : decide (q'.buf.mode = .unsafeEsc) = false := by rw [m]; decide
        have oo : q'.buf.markerOpen = false := by
          cases ho : q'.buf.markerOpen with
          | false => rfl
          | true => have := i.openMode ho; rw [m] at this; cases this
        unfold Buffer.redactableBytes
        rw [finalize_esc_closed _ hm oo, hdec]
        have hbuf : (q'.buf.escapeToEnd false).buf = escapeBytesAt q'.buf.buf q'.buf.validUntil false false := rfl
        rw [hbuf, (escapeBytesAt_spec q'.buf.buf q'.buf.validUntil false i.good).1]
        change ∀ t ∈ (if tailBad q'.buf.buf = true then escTok false (tokenize q'.buf.pre) (tokenize q'.buf.suf) ++ [.b 0x3F]
          else escTok false (tokenize q'.buf.pre) (tokenize q'.buf.suf)), t.isMarker = false
        rw [hpre0, escTok_false_eq]
        have hE := escT_no_marker (tokenize q'.buf.suf)
        intro t ht
        split at ht
        · simp only [tokenize_nil, List.nil_append, List.mem_append, List.mem_singleton] at ht
          rcases ht with ht | rfl
          · exact hE t ht
          · rfl
        · simp only [tokenize_nil, List.nil_append] at ht
          exact hE t ht
      | panic b pl => rw [hr] at h; simp [Res.bind] at h
      | fuel => rw [hr] at h; simp [Res.bind] at h
      | unsupported => rw [hr] at h; simp [Res.bind] at h

end Redact.S
