import RedactVerif.Model.Markers
/-
Helper lemmas about `tokenize` / `untok`: round trip, synchronisation at
markers, append under the no-dangling condition.
-/
namespace Redact

@[simp] theorem untok_nil : untok [] = [] := rfl
@[simp] theorem untok_cons (t : Tok) (r : List Tok) : untok (t :: r) = t.bytes ++ untok r := rfl

theorem untok_append (a b : List Tok) : untok (a ++ b) = untok a ++ untok b := by
  induction a with
  | nil => simp
  | cons t r ih => simp [ih]

/-- Tokenisation loses nothing. -/
theorem untok_tokenize (l : List Byte) : untok (tokenize l) = l := by
  fun_induction tokenize l <;> simp_all [Tok.bytes, startB, endB]

theorem tokenize_injective {a b : List Byte} (h : tokenize a = tokenize b) : a = b := by
  rw [← untok_tokenize a, ← untok_tokenize b, h]

@[simp] theorem tokenize_nil : tokenize [] = [] := by simp [tokenize]

@[simp] theorem tokenize_start (r : List Byte) : tokenize (0xE2 :: 0x80 :: 0xB9 :: r) = .s :: tokenize r := by
  simp [tokenize]

@[simp] theorem tokenize_end (r : List Byte) : tokenize (0xE2 :: 0x80 :: 0xBA :: r) = .e :: tokenize r := by
  simp [tokenize]

/-- The fall-through equation of `tokenize`. -/
theorem tokenize_plain (x : Byte) (r : List Byte)
    (h1 : ∀ r', x = 0xE2 → r = 0x80 :: 0xB9 :: r' → False)
    (h2 : ∀ r', x = 0xE2 → r = 0x80 :: 0xBA :: r' → False) :
    tokenize (x :: r) = .b x :: tokenize r := by
  rw [tokenize.eq_3 x r h1 h2]

theorem tokenize_plain_ne (x : Byte) (r : List Byte) (hx : x ≠ 0xE2) :
    tokenize (x :: r) = .b x :: tokenize r :=
  tokenize_plain x r (fun _ h _ => hx h) (fun _ h _ => hx h)

/-- A marker in the input is always found, whatever precedes it: `E2` occurs
only as the first byte of a marker, so no earlier match can swallow it. -/
theorem tokenize_append_start (a c : List Byte) :
    tokenize (a ++ (startB ++ c)) = tokenize a ++ .s :: tokenize c := by
  fun_induction tokenize a with
  | case1 r ih => simp [ih]
  | case2 r ih => simp [ih]
  | case3 x r h1 h2 ih =>
    rw [List.cons_append, tokenize_plain x (r ++ (startB ++ c)), ih]
    · rfl
    · intro r' hx hr
      match r, hr with
      | [], hr => simp [startB] at hr
      | [y], hr => simp [startB] at hr
      | y :: z :: r'', hr =>
        simp at hr
        exact h1 r'' hx (by simp [hr.1, hr.2.1])
    · intro r' hx hr
      match r, hr with
      | [], hr => simp [startB] at hr
      | [y], hr => simp [startB] at hr
      | y :: z :: r'', hr =>
        simp at hr
        exact h2 r'' hx (by simp [hr.1, hr.2.1])
  | case4 => simp [startB]

theorem tokenize_append_end (a c : List Byte) :
    tokenize (a ++ (endB ++ c)) = tokenize a ++ .e :: tokenize c := by
  fun_induction tokenize a with
  | case1 r ih => simp [ih]
  | case2 r ih => simp [ih]
  | case3 x r h1 h2 ih =>
    rw [List.cons_append, tokenize_plain x (r ++ (endB ++ c)), ih]
    · rfl
    · intro r' hx hr
      match r, hr with
      | [], hr => simp [endB] at hr
      | [y], hr => simp [endB] at hr
      | y :: z :: r'', hr =>
        simp at hr
        exact h1 r'' hx (by simp [hr.1, hr.2.1])
    · intro r' hx hr
      match r, hr with
      | [], hr => simp [endB] at hr
      | [y], hr => simp [endB] at hr
      | y :: z :: r'', hr =>
        simp at hr
        exact h2 r'' hx (by simp [hr.1, hr.2.1])
  | case4 => simp [endB]

/-- Appending one byte appends one plain token, unless the byte completes a
marker whose first two bytes end `a`. -/
theorem tokenize_snoc (a : List Byte) (x : Byte)
    (h : ¬ ((∃ t, a.reverse = 0x80 :: 0xE2 :: t) ∧ (x = 0xB9 ∨ x = 0xBA))) :
    tokenize (a ++ [x]) = tokenize a ++ [.b x] := by
  fun_induction tokenize a with
  | case1 r ih =>
    have : ¬ ((∃ t, r.reverse = 0x80 :: 0xE2 :: t) ∧ (x = 0xB9 ∨ x = 0xBA)) := by
      intro ⟨⟨t, ht⟩, hx⟩
      exact h ⟨⟨t ++ [0xB9, 0x80, 0xE2], by simp [ht]⟩, hx⟩
    simp [ih this]
  | case2 r ih =>
    have : ¬ ((∃ t, r.reverse = 0x80 :: 0xE2 :: t) ∧ (x = 0xB9 ∨ x = 0xBA)) := by
      intro ⟨⟨t, ht⟩, hx⟩
      exact h ⟨⟨t ++ [0xBA, 0x80, 0xE2], by simp [ht]⟩, hx⟩
    simp [ih this]
  | case3 y r h1 h2 ih =>
    have hr : ¬ ((∃ t, r.reverse = 0x80 :: 0xE2 :: t) ∧ (x = 0xB9 ∨ x = 0xBA)) := by
      intro ⟨⟨t, ht⟩, hx⟩
      exact h ⟨⟨t ++ [y], by simp [ht]⟩, hx⟩
    rw [List.cons_append, tokenize_plain y (r ++ [x]), ih hr]
    · rfl
    · intro r' hy hrr
      match r, hrr with
      | [], hrr => simp at hrr
      | [z], hrr =>
        simp at hrr
        exact h ⟨⟨[], by simp [hy, hrr.1]⟩, Or.inl hrr.2.1⟩
      | z :: w :: r'', hrr =>
        simp at hrr
        exact h1 r'' hy (by simp [hrr.1, hrr.2.1])
    · intro r' hy hrr
      match r, hrr with
      | [], hrr => simp at hrr
      | [z], hrr =>
        simp at hrr
        exact h ⟨⟨[], by simp [hy, hrr.1]⟩, Or.inr hrr.2.1⟩
      | z :: w :: r'', hrr =>
        simp at hrr
        exact h2 r'' hy (by simp [hrr.1, hrr.2.1])
  | case4 => simp [tokenize_plain]

end Redact
