import RedactVerif.Model.Markers
import RedactVerif.Proofs.Tokens
/-
Canonical token lists: the token readings of byte strings. `untok ∘ tokenize = id` holds for every byte string
(`untok_tokenize`); the converse `tokenize (untok t) = t` holds exactly when no three consecutive byte tokens spell
a marker. Every `tokenize l` is canonical, and `redactT` keeps token lists canonical — which is what lets the
token-level theorems of Props/C07.lean compose at the level of byte strings (`Redact(Redact(s))`), where the
functions of the library live. (`stripT` does not keep them canonical: that is known finding D4.)
-/
namespace Redact

/-- Three byte tokens at the head that spell a marker. -/
def badAt : List Tok → Bool
  | .b x :: .b y :: .b z :: _ => x == 0xE2 && y == 0x80 && (z == 0xB9 || z == 0xBA)
  | _ => false

def Canon : List Tok → Bool
  | [] => true
  | t :: r => !badAt (t :: r) && Canon r

@[simp] theorem badAt_s (r : List Tok) : badAt (.s :: r) = false := rfl
@[simp] theorem badAt_e (r : List Tok) : badAt (.e :: r) = false := rfl
@[simp] theorem badAt_bs (x : Byte) (r : List Tok) : badAt (.b x :: .s :: r) = false := rfl
@[simp] theorem badAt_be (x : Byte) (r : List Tok) : badAt (.b x :: .e :: r) = false := rfl
@[simp] theorem badAt_bbs (x y : Byte) (r : List Tok) : badAt (.b x :: .b y :: .s :: r) = false := rfl
@[simp] theorem badAt_bbe (x y : Byte) (r : List Tok) : badAt (.b x :: .b y :: .e :: r) = false := rfl
@[simp] theorem badAt_b1 (x : Byte) : badAt [.b x] = false := rfl
@[simp] theorem badAt_b2 (x y : Byte) : badAt [.b x, .b y] = false := rfl
@[simp] theorem badAt_nil : badAt [] = false := rfl
@[simp] theorem badAt_bbb (x y z : Byte) (r : List Tok) :
    badAt (.b x :: .b y :: .b z :: r) = (x == 0xE2 && y == 0x80 && (z == 0xB9 || z == 0xBA)) := rfl

@[simp] theorem Canon_nil : Canon [] = true := rfl
@[simp] theorem Canon_s (r : List Tok) : Canon (.s :: r) = Canon r := by simp [Canon]
@[simp] theorem Canon_e (r : List Tok) : Canon (.e :: r) = Canon r := by simp [Canon]

theorem Canon_tail {t : Tok} {r : List Tok} (h : Canon (t :: r) = true) : Canon r = true := by
  simp only [Canon, Bool.and_eq_true] at h; exact h.2

/-- A canonical token list is the token reading of its bytes. -/
theorem tokenize_untok_of_canon (t : List Tok) (h : Canon t = true) : tokenize (untok t) = t := by
  induction t with
  | nil => rfl
  | cons tok r ih =>
    have hr := ih (Canon_tail h)
    cases tok with
    | s => simp only [untok_cons, Tok.bytes, startB, List.cons_append, List.nil_append]; rw [tokenize.eq_1, hr]
    | e => simp only [untok_cons, Tok.bytes, endB, List.cons_append, List.nil_append]; rw [tokenize.eq_2, hr]
    | b x =>
      simp only [untok_cons, Tok.bytes, List.cons_append, List.nil_append]
      have hb : badAt (.b x :: r) = false := by
        simp only [Canon, Bool.and_eq_true, Bool.not_eq_true'] at h; exact h.1
      have key : ∀ z r', (z = 0xB9 ∨ z = 0xBA) → x = 0xE2 → untok r = 0x80 :: z :: r' → False := by
        intro z r' hz hx hu
        cases r with
        | nil => simp at hu
        | cons t1 r1 =>
          cases t1 with
          | s => simp [Tok.bytes, startB] at hu
          | e => simp [Tok.bytes, endB] at hu
          | b y =>
            simp only [untok_cons, Tok.bytes, List.cons_append, List.nil_append, List.cons.injEq] at hu
            obtain ⟨hy, hu⟩ := hu
            cases r1 with
            | nil => simp at hu
            | cons t2 r2 =>
              cases t2 with
              | s => simp only [untok_cons, Tok.bytes, startB, List.cons_append, List.cons.injEq] at hu
                     rcases hz with hz | hz <;> (rw [hz] at hu; exact absurd hu.1 (by decide))
              | e => simp only [untok_cons, Tok.bytes, endB, List.cons_append, List.cons.injEq] at hu
                     rcases hz with hz | hz <;> (rw [hz] at hu; exact absurd hu.1 (by decide))
              | b w =>
                simp only [untok_cons, Tok.bytes, List.cons_append, List.nil_append, List.cons.injEq] at hu
                obtain ⟨hw, _⟩ := hu
                subst hx hy hw
                rcases hz with hz | hz <;> (subst hz; simp at hb)
      rw [tokenize.eq_3 x (untok r) (fun r' hx hu => key 0xB9 r' (Or.inl rfl) hx hu)
        (fun r' hx hu => key 0xBA r' (Or.inr rfl) hx hu), hr]

/-- Token readings are canonical. -/
theorem canon_tokenize (l : List Byte) : Canon (tokenize l) = true := by
  fun_induction tokenize l with
  | case1 r ih => simpa using ih
  | case2 r ih => simpa using ih
  | case3 x r h1 h2 ih =>
    simp only [Canon, Bool.and_eq_true, Bool.not_eq_true', ih, and_true]
    cases ht : tokenize r with
    | nil => rfl
    | cons t1 r1 =>
      cases t1 with
      | s => rfl
      | e => rfl
      | b y =>
        cases r1 with
        | nil => rfl
        | cons t2 r2 =>
          cases t2 with
          | s => rfl
          | e => rfl
          | b z =>
            have hu : r = y :: z :: untok r2 := by
              have := untok_tokenize r
              rw [ht] at this
              simpa [Tok.bytes] using this.symm
            simp only [badAt_bbb]
            by_cases hx : x = 0xE2
            · by_cases hy : y = 0x80
              · by_cases hz : z = 0xB9
                · exact absurd (by rw [hu, hy, hz]) (h1 (untok r2) hx)
                · by_cases hz' : z = 0xBA
                  · exact absurd (by rw [hu, hy, hz']) (h2 (untok r2) hx)
                  · simp [hz, hz']
              · simp [hy]
            · simp [hx]
  | case4 => rfl

/-- `badAt` looks at three tokens only. -/
theorem badAt_append_marker (a b : List Tok) (m : Tok) (hm : m.isMarker = true) (t : Tok) :
    badAt (t :: (a ++ m :: b)) = badAt (t :: a) := by
  cases m with
  | b _ => simp [Tok.isMarker] at hm
  | s =>
    cases t <;> try rfl
    cases a with
    | nil => rfl
    | cons t1 a1 =>
      cases t1 <;> try rfl
      cases a1 with
      | nil => rfl
      | cons t2 a2 => cases t2 <;> rfl
  | e =>
    cases t <;> try rfl
    cases a with
    | nil => rfl
    | cons t1 a1 =>
      cases t1 <;> try rfl
      cases a1 with
      | nil => rfl
      | cons t2 a2 => cases t2 <;> rfl

/-- A marker token separates: no window of three byte tokens spans it. -/
theorem Canon_append_marker (a b : List Tok) (m : Tok) (hm : m.isMarker = true) :
    Canon (a ++ m :: b) = (Canon a && Canon b) := by
  induction a with
  | nil => cases m <;> simp_all [Tok.isMarker]
  | cons t a ih =>
    simp only [List.cons_append, Canon, badAt_append_marker a b m hm t, ih, Bool.and_assoc]

theorem redactAux_some_head (acc r : List Tok) : ∃ R, redactAux (some acc) r = .s :: R := by
  induction r generalizing acc with
  | nil => exact ⟨_, rfl⟩
  | cons t r ih =>
    cases t with
    | s => exact ⟨_, rfl⟩
    | e => exact ⟨_, rfl⟩
    | b x => rw [redactAux]; exact ih _

theorem badAt_redact (x : Byte) (r : List Tok) : badAt (.b x :: redactAux none r) = badAt (.b x :: r) := by
  cases r with
  | nil => rfl
  | cons t1 r1 =>
    cases t1 with
    | s =>
      obtain ⟨R, hR⟩ := redactAux_some_head [] r1
      rw [redactAux, hR]; rfl
    | e => rfl
    | b y =>
      rw [redactAux]
      cases r1 with
      | nil => rfl
      | cons t2 r2 =>
        cases t2 with
        | s =>
          obtain ⟨R, hR⟩ := redactAux_some_head [] r2
          rw [redactAux, hR]; rfl
        | e => rfl
        | b z => rfl
      all_goals (intro h; cases h)
      all_goals (intro h; cases h)

def allB : List Tok → Bool
  | [] => true
  | .b _ :: r => allB r
  | _ :: _ => false

/-- `redactT` keeps token lists canonical. -/
theorem canon_redactAux (o : Option (List Tok)) (t : List Tok) :
    (match o with
      | none => Canon t = true
      | some acc => Canon (acc.reverse ++ t) = true) → Canon (redactAux o t) = true := by
  fun_induction redactAux o t with
  | case1 => intro _; rfl
  | case2 acc => intro h; simpa using h
  | case3 r ih => intro h; exact ih (by simpa using h)
  | case4 t r hne ih =>
    intro h
    cases t with
    | s => exact absurd rfl hne
    | e => simp only [Canon_e] at h ⊢; exact ih h
    | b x =>
      simp only [Canon, Bool.and_eq_true, Bool.not_eq_true'] at h ⊢
      exact ⟨by rw [badAt_redact]; exact h.1, ih h.2⟩
  | case5 acc x r ih =>
    intro h
    apply ih
    simpa using h
  | case6 acc r ih =>
    intro h
    simp only at h
    rw [Canon_append_marker _ _ .e rfl, Bool.and_eq_true] at h
    simp only [Canon_s]
    have : Canon (crossT ++ .e :: redactAux none r) = (Canon crossT && Canon (redactAux none r)) :=
      Canon_append_marker crossT _ .e rfl
    rw [this, ih h.2]
    rfl
  | case7 acc r ih =>
    intro h
    simp only at h
    rw [Canon_append_marker _ _ .s rfl, Bool.and_eq_true] at h
    obtain ⟨R, hR⟩ := redactAux_some_head [] r
    simp only [Canon_s]
    have ih' := ih (by simpa using h.2)
    rw [hR] at ih' ⊢
    rw [Canon_append_marker _ _ .s rfl, h.1]
    simpa using ih'

theorem canon_redactT (t : List Tok) (h : Canon t = true) : Canon (redactT t) = true :=
  canon_redactAux none t h

/-- The token reading of `Redact(l)` is `redactT` of the token reading of `l`. -/
theorem tokenize_redact (l : List Byte) : tokenize (redact l) = redactT (tokenize l) :=
  tokenize_untok_of_canon _ (canon_redactT _ (canon_tokenize l))

end Redact
