import RedactVerif.Model.Printer
/-
Fuel is a proof device: every function of the printer model, given more fuel, returns what it
returned with less — unless the smaller amount ran out. (`fuel_mono`, by induction on the fuel, one
step lemma per function; the order `≤` has `.fuel` as its least element.)
-/
namespace Redact

def Res.le (a b : Res) : Prop := a = .fuel ∨ a = b
def SRes.le (a b : SRes) : Prop := a = .abort .fuel ∨ a = b
/-- Results of the dispatch functions: when the fuel ran out the value counts as handled. -/
def BR.le (a b : Bool × Res) : Prop := (a.2 = .fuel ∧ a.1 = true) ∨ a = b

scoped infix:50 " ⊑ " => Res.le
scoped infix:50 " ⊑ₛ " => SRes.le
scoped infix:50 " ⊑ₕ " => BR.le

theorem Res.le_refl (a : Res) : a ⊑ a := Or.inr rfl
theorem Res.fuel_le (a : Res) : Res.fuel ⊑ a := Or.inl rfl
theorem SRes.le_refl (a : SRes) : a ⊑ₛ a := Or.inr rfl
theorem BR.le_refl (a : Bool × Res) : a ⊑ₕ a := Or.inr rfl

theorem le_bind {a a' : Res} {k k' : PP → Res} (h : a ⊑ a') (hk : ∀ q, k q ⊑ k' q) : a.bind k ⊑ a'.bind k' := by
  rcases h with rfl | rfl
  · exact Or.inl rfl
  · cases a with
    | ok q => exact hk q
    | panic b pl => exact Or.inr rfl
    | fuel => exact Or.inl rfl
    | unsupported => exact Or.inr rfl

theorem le_bracket (start : PP → PP × PP.Restorer) (p : PP) {body body' : PP → Res} (h : ∀ q, body q ⊑ body' q) :
    bracket start p body ⊑ bracket start p body' := by
  unfold bracket
  generalize start p = sp
  obtain ⟨q0, r⟩ := sp
  simp only
  rcases h q0 with h | h
  · left; rw [h]
  · right; rw [h]

theorem le_ite {c : Prop} [Decidable c] {a b a' b' : Res} (ha : a ⊑ a') (hb : b ⊑ b') :
    (if c then a else b) ⊑ (if c then a' else b') := by
  split <;> assumption

theorem le_ite_h {c : Prop} [Decidable c] {a b a' b' : Bool × Res} (ha : a ⊑ₕ a') (hb : b ⊑ₕ b') :
    (if c then a else b) ⊑ₕ (if c then a' else b') := by
  split <;> assumption

theorem le_ite_s {c : Prop} [Decidable c] {a b a' b' : SRes} (ha : a ⊑ₛ a') (hb : b ⊑ₛ b') :
    (if c then a else b) ⊑ₛ (if c then a' else b') := by
  split <;> assumption

/-- `match x with | (true, r) => r | (false, _) => k`. -/
theorem le_handled {x x' : Bool × Res} {k k' : Res} (hx : x ⊑ₕ x') (hk : k ⊑ k') :
    (match x with | (true, r) => r | (false, _) => k) ⊑ (match x' with | (true, r) => r | (false, _) => k') := by
  rcases hx with ⟨h2, h1⟩ | rfl
  · obtain ⟨b, r⟩ := x
    simp only at h1 h2
    subst h1 h2
    exact Or.inl rfl
  · obtain ⟨b, r⟩ := x
    cases b
    · exact hk
    · exact Or.inr rfl

theorem le_handled_mk {r r' : Res} (h : r ⊑ r') : ((true, r) : Bool × Res) ⊑ₕ (true, r') := by
  rcases h with rfl | rfl
  · exact Or.inl ⟨rfl, rfl⟩
  · exact Or.inr rfl

theorem le_retOut (nr : Bool) (p : PP) (sc : Script) {r r' : Res} (h : r ⊑ r') : retOut nr p sc r ⊑ₛ retOut nr p sc r' := by
  unfold retOut
  split
  · exact Or.inr rfl
  · split
    · exact Or.inr rfl
    · rcases h with rfl | rfl
      · exact Or.inl rfl
      · exact Or.inr rfl

/-- What is known at fuel `n`: one more unit changes nothing that had been computed. -/
structure MSpec (env : Env) (n : Nat) : Prop where
  printArg : ∀ p v verb, printArg env n p v verb ⊑ printArg env (n + 1) p v verb
  printArgBody : ∀ p v verb, printArgBody env n p v verb ⊑ printArgBody env (n + 1) p v verb
  badVerb : ∀ p v verb via, badVerb env n p v verb via ⊑ badVerb env (n + 1) p v verb via
  handleMethods : ∀ p v verb, handleMethods env n p v verb ⊑ₕ handleMethods env (n + 1) p v verb
  methDispatch : ∀ p v ms nr ret sc verb, methDispatch env n p v ms nr ret sc verb ⊑ₕ methDispatch env (n + 1) p v ms nr ret sc verb
  fmtString : ∀ p v ret verb, fmtString env n p v ret verb ⊑ fmtString env (n + 1) p v ret verb
  catchPanic : ∀ (p0 : PP) (arg : Val) (verb : Nat) (m : List Byte) (nr : Bool) (out out' : SRes), out ⊑ₛ out' →
    catchPanic env n p0 arg verb m nr out ⊑ catchPanic env (n + 1) p0 arg verb m nr out'
  runScript : ∀ p sc, runScript env n p sc ⊑ₛ runScript env (n + 1) p sc
  printValue : ∀ p v verb d ro, printValue env n p v verb d ro ⊑ printValue env (n + 1) p v verb d ro
  printSlot : ∀ p v verb d i ro, printSlot env n p v verb d i ro ⊑ printSlot env (n + 1) p v verb d i ro
  slotMethods : ∀ p v verb, slotMethods env n p v verb ⊑ₕ slotMethods env (n + 1) p v verb
  printFields : ∀ p fs verb d ro f, printFields env n p fs verb d ro f ⊑ printFields env (n + 1) p fs verb d ro f
  printElems : ∀ p vs verb d i ro f, printElems env n p vs verb d i ro f ⊑ printElems env (n + 1) p vs verb d i ro f
  printPairs : ∀ p ks vs verb d ik iv ro f, printPairs env n p ks vs verb d ik iv ro f ⊑ printPairs env (n + 1) p ks vs verb d ik iv ro f
  doPrint : ∀ p args, doPrint env n p args ⊑ doPrint env (n + 1) p args
  doPrintLoop : ∀ p args k ps, doPrintLoop env n p args k ps ⊑ doPrintLoop env (n + 1) p args k ps
  doPrintf : ∀ p f args, doPrintf env n p f args ⊑ doPrintf env (n + 1) p f args
  fmtLoop : ∀ p f args k ai, fmtLoop env n p f args k ai ⊑ fmtLoop env (n + 1) p f args k ai
  directiveTail : ∀ p f args k ai, directiveTail env n p f args k ai ⊑ directiveTail env (n + 1) p f args k ai
  finishPrintf : ∀ p args k, finishPrintf env n p args k ⊑ finishPrintf env (n + 1) p args k
  extraLoop : ∀ p args f, extraLoop env n p args f ⊑ extraLoop env (n + 1) p args f

theorem mspec_zero (env : Env) : MSpec env 0 := by
  constructor <;> intros <;> simp only [printArg, printArgBody, badVerb, handleMethods, methDispatch, fmtString, catchPanic,
    runScript, printValue, printSlot, slotMethods, printFields, printElems, printPairs, doPrint, doPrintLoop,
    doPrintf, fmtLoop, directiveTail, finishPrintf, extraLoop]
  all_goals first
    | exact Or.inl rfl
    | exact Or.inl ⟨rfl, rfl⟩

variable {env : Env} {n : Nat}

theorem mstep_printArg (M : MSpec env n) : ∀ p v verb, printArg env (n + 1) p v verb ⊑ printArg env (n + 2) p v verb := by
  intro p v verb
  have body1 : ∀ q,
      (if isSafeValue v then bracket PP.startSafeOverride q fun q2 => printArgBody env n q2 v verb
       else printArgBody env n q v verb) ⊑
      (if isSafeValue v then bracket PP.startSafeOverride q fun q2 => printArgBody env (n + 1) q2 v verb
       else printArgBody env (n + 1) q v verb) :=
    fun q => le_ite (le_bracket _ _ (fun q2 => M.printArgBody _ _ _)) (M.printArgBody _ _ _)
  cases v with
  | safeW w => simp only [printArg]; exact le_bracket _ _ (fun q => M.printArg _ _ _)
  | unsafeW w => simp only [printArg]; exact le_bracket _ _ (fun q => M.printArg _ _ _)
  | _ => simp only [printArg]; exact le_ite (le_bracket _ _ body1) (body1 p)

theorem mstep_fmtString (M : MSpec env n) : ∀ p v ret verb, fmtString env (n + 1) p v ret verb ⊑ fmtString env (n + 2) p v ret verb := by
  intro p v ret verb
  simp only [fmtString]
  exact le_ite (Res.le_refl _) (M.badVerb _ _ _ _)

theorem mstep_badVerb (M : MSpec env n) : ∀ p v verb via, badVerb env (n + 1) p v verb via ⊑ badVerb env (n + 2) p v verb via := by
  intro p v verb via
  unfold badVerb
  apply le_bind _ (fun q => Res.le_refl _)
  split
  · exact Res.le_refl _
  · exact le_ite (M.printValue _ _ _ _ _) (M.printArg _ _ _)

set_option hygiene false in
/-- Follow the shape shared by both sides. -/
macro "mono" : tactic => `(tactic| repeat' (first
  | exact Res.le_refl _
  | exact SRes.le_refl _
  | exact BR.le_refl _
  | exact M.printArg _ _ _
  | exact M.printArgBody _ _ _
  | exact M.badVerb _ _ _ _
  | exact M.handleMethods _ _ _
  | exact M.methDispatch _ _ _ _ _ _ _
  | exact M.fmtString _ _ _ _
  | exact M.runScript _ _
  | exact M.printValue _ _ _ _ _
  | exact M.printSlot _ _ _ _ _ _
  | exact M.slotMethods _ _ _
  | exact M.printFields _ _ _ _ _ _
  | exact M.printElems _ _ _ _ _ _ _
  | exact M.printPairs _ _ _ _ _ _ _ _ _
  | exact M.doPrint _ _
  | exact M.doPrintLoop _ _ _ _
  | exact M.doPrintf _ _ _
  | exact M.fmtLoop _ _ _ _ _
  | exact M.directiveTail _ _ _ _ _
  | exact M.finishPrintf _ _ _
  | exact M.extraLoop _ _ _
  | apply le_retOut
  | apply le_ite
  | apply le_ite_h
  | apply le_ite_s
  | apply le_handled_mk
  | (apply le_bracket; intro _)
  | (apply le_bind _ (fun _ => _))
  | (intro _)
  | (dsimp only)))

theorem le_h_tt {r r' : Res} (h : ((true, r) : Bool × Res) ⊑ₕ (true, r')) : r ⊑ r' := by
  rcases h with ⟨h2, _⟩ | h
  · exact Or.inl h2
  · cases h; exact Or.inr rfl
theorem le_h_tf {r r' k : Res} (h : ((true, r) : Bool × Res) ⊑ₕ (false, r')) : r ⊑ k := by
  rcases h with ⟨h2, _⟩ | h
  · exact Or.inl h2
  · cases h
theorem le_h_ft {r r' : Res} (h : ((false, r) : Bool × Res) ⊑ₕ (true, r')) : False := by
  rcases h with ⟨_, h1⟩ | h
  · cases h1
  · cases h

-- `match x with | (true, r) => r | (false, _) => k` on both sides, `x ⊑ₕ x'` known as `hh`:
-- `handled e e'` where `e`, `e'` are the two dispatch calls; leaves the not-handled case.
set_option hygiene false in
macro "handled " e:term:max e':term:max : tactic => `(tactic| (
  generalize $e = x at hh ⊢
  generalize $e' = x' at hh ⊢
  obtain ⟨b, r⟩ := x
  obtain ⟨b', r'⟩ := x'
  cases b <;> cases b' <;> dsimp only <;>
    first | exact (le_h_ft hh).elim | exact le_h_tf hh | exact le_h_tt hh | skip))

theorem mstep_printArgBody (M : MSpec env n) : ∀ p v verb, printArgBody env (n + 1) p v verb ⊑ printArgBody env (n + 2) p v verb := by
  intro p v verb
  have hh := M.handleMethods p v verb
  unfold printArgBody
  cases v with
  | leaf id k ty iv sv reg => cases k <;> simp only <;> mono
  | nil => simp only; mono
  | redactable c ty => simp only; mono
  | _ =>
    simp only
    mono
    all_goals (handled (handleMethods env n p _ verb) (handleMethods env (n + 1) p _ verb); mono)

theorem mstep_handleMethods (M : MSpec env n) : ∀ p v verb, handleMethods env (n + 1) p v verb ⊑ₕ handleMethods env (n + 2) p v verb := by
  intro p v verb
  unfold handleMethods
  cases v <;> simp only <;> mono

theorem le_raised_or {c : Bool} {p : PP} {a a' : SRes} (h : a ⊑ₛ a') :
    (if c = true then SRes.raised p .nil else a) ⊑ₛ (if c = true then SRes.raised p .nil else a') := le_ite_s (SRes.le_refl _) h

theorem mstep_methDispatch (M : MSpec env n) : ∀ p v ms nr ret sc verb,
    methDispatch env (n + 1) p v ms nr ret sc verb ⊑ₕ methDispatch env (n + 2) p v ms nr ret sc verb := by
  intro p v ms nr ret sc verb
  have cp := M.catchPanic
  unfold methDispatch
  mono
  all_goals first
    | (apply cp; mono)
    | (split <;> mono <;> (apply cp; mono))

theorem mstep_catchPanic (M : MSpec env n) : ∀ (p0 : PP) (arg : Val) (verb : Nat) (m : List Byte) (nr : Bool) (out out' : SRes),
    out ⊑ₛ out' → catchPanic env (n + 1) p0 arg verb m nr out ⊑ catchPanic env (n + 2) p0 arg verb m nr out' := by
  intro p0 arg verb m nr out out' h
  rcases h with rfl | rfl
  · exact Or.inl (by simp [catchPanic])
  · unfold catchPanic
    cases out with
    | ok p => exact Or.inr rfl
    | abort r => exact Or.inr rfl
    | raised p pl => simp only; mono

theorem mstep_runScript (M : MSpec env n) : ∀ p sc, runScript env (n + 1) p sc ⊑ₛ runScript env (n + 2) p sc := by
  intro p sc
  unfold runScript
  cases sc with
  | print args k =>
    simp only
    have hd := M.doPrint ({ buf := p.buf, override := p.override } : PP) args.toList
    generalize doPrint env n ({ buf := p.buf, override := p.override } : PP) args.toList = r at hd ⊢
    generalize doPrint env (n + 1) ({ buf := p.buf, override := p.override } : PP) args.toList = r' at hd ⊢
    rcases hd with rfl | rfl
    · exact Or.inl rfl
    · cases r <;> simp only <;> mono
  | printf f args k =>
    simp only
    have hd := M.doPrintf ({ buf := p.buf, override := p.override } : PP) f args.toList
    generalize doPrintf env n ({ buf := p.buf, override := p.override } : PP) f args.toList = r at hd ⊢
    generalize doPrintf env (n + 1) ({ buf := p.buf, override := p.override } : PP) f args.toList = r' at hd ⊢
    rcases hd with rfl | rfl
    · exact Or.inl rfl
    · cases r <;> simp only <;> mono
  | unsafeLeaf id k => simp only; split <;> mono
  | _ => simp only; mono

theorem mstep_printValue (M : MSpec env n) : ∀ p v verb d ro, printValue env (n + 1) p v verb d ro ⊑ printValue env (n + 2) p v verb d ro := by
  intro p v verb d ro
  unfold printValue
  cases v <;> simp only <;> mono

theorem mstep_slotMethods (M : MSpec env n) : ∀ p v verb, slotMethods env (n + 1) p v verb ⊑ₕ slotMethods env (n + 2) p v verb := by
  intro p v verb
  unfold slotMethods
  cases v with
  | redactable c ty =>
    simp only
    mono
    have hr := M.runScript p (.print (.cons (.redactable c ty) .nil) .done)
    generalize runScript env n p (.print (.cons (.redactable c ty) .nil) .done) = r at hr ⊢
    generalize runScript env (n + 1) p (.print (.cons (.redactable c ty) .nil) .done) = r' at hr ⊢
    rcases hr with rfl | rfl
    · exact Or.inl rfl
    · exact Or.inr rfl
  | _ => simp only <;> mono

theorem mstep_printFields (M : MSpec env n) : ∀ p fs verb d ro f, printFields env (n + 1) p fs verb d ro f ⊑ printFields env (n + 2) p fs verb d ro f := by
  intro p fs verb d ro f
  unfold printFields
  cases fs <;> simp only <;> mono

theorem mstep_printElems (M : MSpec env n) : ∀ p vs verb d i ro f, printElems env (n + 1) p vs verb d i ro f ⊑ printElems env (n + 2) p vs verb d i ro f := by
  intro p vs verb d i ro f
  unfold printElems
  cases vs <;> simp only <;> mono

theorem mstep_printPairs (M : MSpec env n) : ∀ p ks vs verb d ik iv ro f,
    printPairs env (n + 1) p ks vs verb d ik iv ro f ⊑ printPairs env (n + 2) p ks vs verb d ik iv ro f := by
  intro p ks vs verb d ik iv ro f
  unfold printPairs
  cases ks <;> cases vs <;> simp only <;> mono

theorem mstep_doPrint (M : MSpec env n) : ∀ p args, doPrint env (n + 1) p args ⊑ doPrint env (n + 2) p args := by
  intro p args
  unfold doPrint
  mono

theorem mstep_doPrintLoop (M : MSpec env n) : ∀ p args k ps, doPrintLoop env (n + 1) p args k ps ⊑ doPrintLoop env (n + 2) p args k ps := by
  intro p args k ps
  unfold doPrintLoop
  cases args <;> simp only <;> mono

theorem mstep_doPrintf (M : MSpec env n) : ∀ p f args, doPrintf env (n + 1) p f args ⊑ doPrintf env (n + 2) p f args := by
  intro p f args
  unfold doPrintf
  mono

theorem mstep_extraLoop (M : MSpec env n) : ∀ p args f, extraLoop env (n + 1) p args f ⊑ extraLoop env (n + 2) p args f := by
  intro p args f
  unfold extraLoop
  cases args with
  | nil => exact Or.inr rfl
  | cons a rest =>
    simp only
    apply le_bind _ (fun q => M.extraLoop _ _ _)
    cases a <;> simp only <;> mono

theorem mstep_finishPrintf (M : MSpec env n) : ∀ p args k, finishPrintf env (n + 1) p args k ⊑ finishPrintf env (n + 2) p args k := by
  intro p args k
  unfold finishPrintf
  mono

theorem mstep_fmtLoop (M : MSpec env n) : ∀ p f args k ai, fmtLoop env (n + 1) p f args k ai ⊑ fmtLoop env (n + 2) p f args k ai := by
  intro p f args k ai
  unfold fmtLoop
  dsimp only
  split
  · mono
  · rename_i c r0 _
    generalize parseFlags true {} r0 = pf
    obtain ⟨fs, r1⟩ := pf
    dsimp only
    split
    · mono
      split <;> mono
    · mono

theorem mstep_directiveTail (M : MSpec env n) : ∀ p f args k ai, directiveTail env (n + 1) p f args k ai ⊑ directiveTail env (n + 2) p f args k ai := by
  intro p f args k ai
  unfold directiveTail
  dsimp only
  generalize argNumber p k f args.length = an
  obtain ⟨p1, k1, r1, ai1⟩ := an
  dsimp only
  generalize widthStage p1 args k1 r1 ai1 = ws
  obtain ⟨p2, k2, r2, ai2⟩ := ws
  dsimp only
  generalize precStage p2 args k2 r2 ai2 = ps
  obtain ⟨p3, k3, r3, ai3⟩ := ps
  dsimp only
  generalize (if (!ai3) = true then argNumber p3 k3 r3 args.length else (p3, k3, r3, ai3)) = an4
  obtain ⟨p4, k4, r4, ai4⟩ := an4
  dsimp only
  split
  · exact Or.inr rfl
  · mono
    split <;> mono

theorem mstep_printSlot (M : MSpec env n) : ∀ p v verb d i ro, printSlot env (n + 1) p v verb d i ro ⊑ printSlot env (n + 2) p v verb d i ro := by
  intro p v verb d i ro
  have noMethod : ∀ q3, (if i = true then printSlot env n q3 v verb (d + 1) false ro else printValue env n q3 v verb d ro) ⊑
      (if i = true then printSlot env (n + 1) q3 v verb (d + 1) false ro else printValue env (n + 1) q3 v verb d ro) := by
    intro q3; mono
  have afterMethods : ∀ q2,
      (if (!ro) = true then
        match slotMethods env n q2 v verb with
        | (true, r) => r
        | (false, _) => (if i = true then printSlot env n q2 v verb (d + 1) false ro else printValue env n q2 v verb d ro)
      else (if i = true then printSlot env n q2 v verb (d + 1) false ro else printValue env n q2 v verb d ro)) ⊑
      (if (!ro) = true then
        match slotMethods env (n + 1) q2 v verb with
        | (true, r) => r
        | (false, _) => (if i = true then printSlot env (n + 1) q2 v verb (d + 1) false ro else printValue env (n + 1) q2 v verb d ro)
      else (if i = true then printSlot env (n + 1) q2 v verb (d + 1) false ro else printValue env (n + 1) q2 v verb d ro)) := by
    intro q2
    apply le_ite _ (noMethod q2)
    have hh := M.slotMethods q2 v verb
    handled (slotMethods env n q2 v verb) (slotMethods env (n + 1) q2 v verb)
    exact noMethod q2
  have body : ∀ q,
      (if (!ro) = true ∧ isSafeValue v = true then bracket PP.startSafeOverride q (fun q2 =>
          if (!ro) = true then
            match slotMethods env n q2 v verb with
            | (true, r) => r
            | (false, _) => (if i = true then printSlot env n q2 v verb (d + 1) false ro else printValue env n q2 v verb d ro)
          else (if i = true then printSlot env n q2 v verb (d + 1) false ro else printValue env n q2 v verb d ro))
       else
          if (!ro) = true then
            match slotMethods env n q v verb with
            | (true, r) => r
            | (false, _) => (if i = true then printSlot env n q v verb (d + 1) false ro else printValue env n q v verb d ro)
          else (if i = true then printSlot env n q v verb (d + 1) false ro else printValue env n q v verb d ro)) ⊑
      (if (!ro) = true ∧ isSafeValue v = true then bracket PP.startSafeOverride q (fun q2 =>
          if (!ro) = true then
            match slotMethods env (n + 1) q2 v verb with
            | (true, r) => r
            | (false, _) => (if i = true then printSlot env (n + 1) q2 v verb (d + 1) false ro else printValue env (n + 1) q2 v verb d ro)
          else (if i = true then printSlot env (n + 1) q2 v verb (d + 1) false ro else printValue env (n + 1) q2 v verb d ro))
       else
          if (!ro) = true then
            match slotMethods env (n + 1) q v verb with
            | (true, r) => r
            | (false, _) => (if i = true then printSlot env (n + 1) q v verb (d + 1) false ro else printValue env (n + 1) q v verb d ro)
          else (if i = true then printSlot env (n + 1) q v verb (d + 1) false ro else printValue env (n + 1) q v verb d ro)) := by
    intro q
    exact le_ite (le_bracket _ _ afterMethods) (afterMethods q)
  unfold printSlot
  cases v with
  | nil => simp only; mono
  | safeW w =>
    cases i <;> simp only [Bool.false_eq_true, if_false, if_true]
    · mono
    · exact le_ite (le_bracket _ _ body) (body p)
  | unsafeW w =>
    cases i <;> simp only [Bool.false_eq_true, if_false, if_true]
    · mono
    · exact le_ite (le_bracket _ _ body) (body p)
  | redactable c ty =>
    cases i <;> simp only [Bool.false_eq_true, if_false, if_true]
    · mono
    · exact le_ite (le_bracket _ _ body) (body p)
  | _ =>
    simp only
    split
    · rename_i r hspecial
      split at hspecial <;> cases hspecial
    · exact le_ite (le_bracket _ _ body) (body p)

/-- **Fuel monotonicity**, for all 21 functions at once. -/
theorem mspec_all (env : Env) : ∀ n, MSpec env n := by
  intro n
  induction n with
  | zero => exact mspec_zero env
  | succ n ih =>
    exact {
      printArg := mstep_printArg ih
      printArgBody := mstep_printArgBody ih
      badVerb := mstep_badVerb ih
      handleMethods := mstep_handleMethods ih
      methDispatch := mstep_methDispatch ih
      fmtString := mstep_fmtString ih
      catchPanic := mstep_catchPanic ih
      runScript := mstep_runScript ih
      printValue := mstep_printValue ih
      printSlot := mstep_printSlot ih
      slotMethods := mstep_slotMethods ih
      printFields := mstep_printFields ih
      printElems := mstep_printElems ih
      printPairs := mstep_printPairs ih
      doPrint := mstep_doPrint ih
      doPrintLoop := mstep_doPrintLoop ih
      doPrintf := mstep_doPrintf ih
      fmtLoop := mstep_fmtLoop ih
      directiveTail := mstep_directiveTail ih
      finishPrintf := mstep_finishPrintf ih
      extraLoop := mstep_extraLoop ih }

theorem Res.le_trans {a b c : Res} (h1 : a ⊑ b) (h2 : b ⊑ c) : a ⊑ c := by
  rcases h1 with rfl | rfl
  · exact Or.inl rfl
  · exact h2

/-- **A result that is not "out of fuel" does not depend on the fuel**: `doPrint` (Sprint, Fprint, nested Print). -/
theorem doPrint_fuel (env : Env) (n : Nat) (p : PP) (args : List Val) (r : Res) (h : doPrint env n p args = r) (hr : r ≠ .fuel) :
    ∀ k, doPrint env (n + k) p args = r := by
  intro k
  induction k with
  | zero => exact h
  | succ k ih =>
    rcases (mspec_all env (n + k)).doPrint p args with hf | he
    · rw [ih] at hf; exact absurd hf hr
    · rw [← Nat.add_assoc] at *; rw [← he]; exact ih

/-- The same for `doPrintf` (Sprintf, Fprintf, HelperForErrorf, nested Printf). -/
theorem doPrintf_fuel (env : Env) (n : Nat) (p : PP) (f : List Byte) (args : List Val) (r : Res)
    (h : doPrintf env n p f args = r) (hr : r ≠ .fuel) : ∀ k, doPrintf env (n + k) p f args = r := by
  intro k
  induction k with
  | zero => exact h
  | succ k ih =>
    rcases (mspec_all env (n + k)).doPrintf p f args with hf | he
    · rw [ih] at hf; exact absurd hf hr
    · rw [← Nat.add_assoc] at *; rw [← he]; exact ih

theorem doPrintLoop_fuel (env : Env) (n : Nat) (p : PP) (args : List Val) (a : Nat) (b : Bool) (r : Res)
    (h : doPrintLoop env n p args a b = r) (hr : r ≠ .fuel) : ∀ k, doPrintLoop env (n + k) p args a b = r := by
  intro k
  induction k with
  | zero => exact h
  | succ k ih =>
    rcases (mspec_all env (n + k)).doPrintLoop p args a b with hf | he
    · rw [ih] at hf; exact absurd hf hr
    · rw [← Nat.add_assoc] at *; rw [← he]; exact ih

end Redact
