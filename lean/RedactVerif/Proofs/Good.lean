import RedactVerif.Proofs.Escape
import RedactVerif.Proofs.Scan
import RedactVerif.Proofs.Utf8
/-
Dangling-ness of scanner output (D1), the `goodT` end condition and how it rules out straddling markers.
-/
namespace Redact

/-- `dangB` only looks at the last two bytes: two lists that end with the same
suffix after a "neutral" byte (neither `E2` nor `80`) agree. -/
theorem dangB_neutral (a a' : List Byte) (p q : Byte) (r : List Byte)
    (hp : p ≠ 0xE2 ∧ p ≠ 0x80) (hq : q ≠ 0xE2 ∧ q ≠ 0x80) :
    dangB (a ++ p :: r) = dangB (a' ++ q :: r) := by
  unfold dangB
  simp only [List.reverse_append, List.reverse_cons]
  cases hr : r.reverse with
  | nil =>
    simp
    split <;> split <;> simp_all
  | cons y t =>
    cases t with
    | nil => simp; split <;> split <;> simp_all
    | cons z t' => simp; split <;> split <;> simp_all

/-- (D1) If the scanner's output ends in a proper marker prefix, so does its input. -/
theorem dangB_escGo (nl : Bool) (out rest : List Byte) (h : dangB (escGo nl out rest) = true) :
    dangB (out ++ rest) = true := by
  fun_induction escGo nl out rest with
  | case1 out => simpa using h
  | case2 out r ih =>
    have := ih h
    rw [escB, List.append_assoc, List.singleton_append] at this
    rw [← this]
    have e := dangB_neutral (out ++ [0xE2, 0x80]) out 0xB9 0x3F r (by decide) (by decide)
    simpa using e
  | case3 out r ih =>
    have := ih h
    rw [escB, List.append_assoc, List.singleton_append] at this
    rw [← this]
    have e := dangB_neutral (out ++ [0xE2, 0x80]) out 0xBA 0x3F r (by decide) (by decide)
    simpa using e
  | case4 out x r h1 h2 hnl out' ih =>
    have hx : x = LF := by simp at hnl; exact hnl.2
    subst hx
    have := ih h
    rw [← this]
    have e := dangB_neutral (out' ++ [LF] ++ [0xE2, 0x80]) out 0xB9 LF r (by decide) (by decide)
    simpa [startB] using e.symm
  | case5 out x r h1 h2 hnl ih => simpa using ih h

theorem coreT_snoc_marker (t : List Tok) (m : Tok) (hm : m.isMarker = true) : coreT (t ++ [m]) = coreT t := by
  simp [coreT, List.dropWhile, hm]

theorem coreT_snoc_plain (t : List Tok) (x : Byte) : coreT (t ++ [.b x]) = t ++ [.b x] := by
  simp [coreT, List.dropWhile, Tok.isMarker]

theorem goodT_snoc_marker (t : List Tok) (m : Tok) (hm : m.isMarker = true) : goodT (t ++ [m]) = goodT t := by
  simp [goodT, coreT_snoc_marker t m hm]

theorem goodT_snoc_plain (t : List Tok) (x : Byte) : goodT (t ++ [.b x]) = !dangT (t ++ [.b x]) := by
  simp [goodT, coreT_snoc_plain]

theorem goodT_nil : goodT [] = true := by decide

theorem goodT_snoc_s (t : List Tok) : goodT (t ++ [.s]) = goodT t := goodT_snoc_marker t .s rfl
theorem goodT_snoc_e (t : List Tok) : goodT (t ++ [.e]) = goodT t := goodT_snoc_marker t .e rfl

/-- Dropping a trailing marker token preserves `goodT`. -/
theorem goodT_dropLast_of_marker {t : List Tok} {m : Tok} (hl : t.getLast? = some m) (hm : m.isMarker = true)
    (h : goodT t = true) : goodT t.dropLast = true := by
  have := eq_dropLast_append_of_getLast hl
  rw [this, goodT_snoc_marker _ m hm] at h
  exact h

theorem dangT_snoc_q (t : List Tok) : dangT (t ++ [.b 0x3F]) = false := by
  simp [dangT]

theorem dangT_snoc_lf_s (t : List Tok) : goodT (t ++ [.b LF, .s]) = true := by
  have : t ++ [.b LF, .s] = (t ++ [.b LF]) ++ [.s] := by simp
  rw [this, goodT_snoc_s, goodT_snoc_plain]
  simp [dangT, LF]

/-- Token-level dangling implies byte-level dangling. -/
theorem dangB_of_dangT (l : List Byte) (h : dangT (tokenize l) = true) : dangB l = true := by
  unfold dangT at h
  split at h
  · rename_i t ht
    have h1 : tokenize l = t.reverse ++ [.b 0xE2] := by
      have := congrArg List.reverse ht; simpa using this
    have h2 := untok_tokenize l
    rw [h1, untok_append] at h2
    rw [← h2]; simp [dangB, Tok.bytes]
  · rename_i t ht
    have h1 : tokenize l = t.reverse ++ [.b 0xE2, .b 0x80] := by
      have := congrArg List.reverse ht; simpa using this
    have h2 := untok_tokenize l
    rw [h1, untok_append] at h2
    rw [← h2]; simp [dangB, Tok.bytes]
  · simp at h

/-- Byte-level dangling implies token-level dangling. -/
theorem dangT_of_dangB (l : List Byte) (h : dangB l = true) : dangT (tokenize l) = true := by
  unfold dangB at h
  split at h
  · rename_i t ht
    have h1 : l = t.reverse ++ [0xE2] := by
      have := congrArg List.reverse ht; simpa using this
    rw [h1, tokenize_snoc _ _ (by simp)]
    simp [dangT]
  · rename_i t ht
    have h1 : l = t.reverse ++ [0xE2] ++ [0x80] := by
      have := congrArg List.reverse ht; simpa using this
    rw [h1, tokenize_snoc _ _ (by simp), tokenize_snoc _ _ (by simp)]
    simp [dangT]
  · simp at h

/-- A validated prefix with a solid end cannot form a marker with whatever follows. -/
theorem not_straddles_of_goodT (a b : List Byte) (h : goodT (tokenize a) = true) : straddles a b = false := by
  have hd : dangB a = false := by
    cases hda : dangB a with
    | false => rfl
    | true =>
      exfalso
      -- the last token is plain, so the core is the whole list
      unfold dangB at hda
      split at hda
      · rename_i t ht
        have h1 : a = t.reverse ++ [0xE2] := by
          have := congrArg List.reverse ht; simpa using this
        rw [h1, tokenize_snoc _ _ (by simp), goodT_snoc_plain] at h
        simp [dangT] at h
      · rename_i t ht
        have h1 : a = t.reverse ++ [0xE2] ++ [0x80] := by
          have := congrArg List.reverse ht; simpa using this
        rw [h1, tokenize_snoc _ _ (by simp), tokenize_snoc _ _ (by simp), goodT_snoc_plain] at h
        simp [dangT] at h
      · simp at hda
  unfold straddles
  unfold dangB at hd
  split <;> simp_all

/-- If the last token is a marker, the end is solid. -/
def Qt (out : List Tok) : Prop := ∀ m, out.getLast? = some m → m.isMarker = true → goodT out = true

theorem Qt_snoc_plain (t : List Tok) (x : Byte) : Qt (t ++ [.b x]) := by
  intro m hm hmk
  simp at hm
  subst hm
  simp [Tok.isMarker] at hmk

theorem Qt_escTok (nl : Bool) (out rest : List Tok) (h : Qt out) : Qt (escTok nl out rest) := by
  induction rest generalizing out with
  | nil => simpa [escTok]
  | cons t r ih =>
    cases t with
    | s => simp only [escTok]; exact ih _ (Qt_snoc_plain _ _)
    | e => simp only [escTok]; exact ih _ (Qt_snoc_plain _ _)
    | b x =>
      simp only [escTok]
      split
      · apply ih
        intro m _ _
        exact dangT_snoc_lf_s _
      · exact ih _ (Qt_snoc_plain _ _)

theorem goodT_of_Qt (R : List Tok) (hq : Qt R) (hd : dangT R = false) : goodT R = true := by
  cases hl : R.getLast? with
  | none =>
    have : R = [] := by simpa using hl
    subst this; decide
  | some m =>
    cases hm : m.isMarker with
    | true => exact hq m hl hm
    | false =>
      have := eq_dropLast_append_of_getLast hl
      cases m with
      | s => simp [Tok.isMarker] at hm
      | e => simp [Tok.isMarker] at hm
      | b x => rw [this, goodT_snoc_plain, ← this, hd]; rfl

/-- The validated prefix produced by `escapeToEnd` (escape plus tail test):
its tokens are the token-level specification (plus `?` after a bad tail) and
its end is solid. -/
theorem escapeBytesAt_spec (buf : List Byte) (vu : Nat) (nl : Bool)
    (hg : goodT (tokenize (buf.take vu)) = true) :
    let E := escapeBytesAt buf vu nl false
    let R := escTok nl (tokenize (buf.take vu)) (tokenize (buf.drop vu))
    tokenize E = (if tailBad buf then R ++ [.b 0x3F] else R) ∧ goodT (tokenize E) = true := by
  intro E R
  have hns := not_straddles_of_goodT (buf.take vu) (buf.drop vu) hg
  have href := escGo_refines nl (buf.take vu) (buf.drop vu) hns
  have hE : E = (if tailBad buf then escGo nl (buf.take vu) (buf.drop vu) ++ escB else escGo nl (buf.take vu) (buf.drop vu)) := by
    simp [E, escapeBytesAt]
  have hQ : Qt R := Qt_escTok nl _ _ (fun m _ _ => hg)
  by_cases htb : tailBad buf = true
  · simp only [htb, if_true] at hE ⊢
    have : tokenize E = R ++ [.b 0x3F] := by
      rw [hE, escB, tokenize_snoc _ _ (by simp), href]
    refine ⟨this, ?_⟩
    rw [this, goodT_snoc_plain, dangT_snoc_q]; rfl
  · have htb' : tailBad buf = false := by simpa using htb
    simp only [htb', Bool.false_eq_true, if_false] at hE ⊢
    have : tokenize E = R := by rw [hE, href]
    refine ⟨this, ?_⟩
    rw [this]
    apply goodT_of_Qt R hQ
    -- a dangling end would have triggered the tail test
    cases hd : dangT R with
    | false => rfl
    | true =>
      exfalso
      have h1 : dangB (escGo nl (buf.take vu) (buf.drop vu)) = true := by
        apply dangB_of_dangT; rw [href]; exact hd
      have h2 := dangB_escGo nl _ _ h1
      rw [List.take_append_drop] at h2
      have := tailBad_of_dangB buf h2
      rw [htb'] at this
      exact Bool.false_ne_true this

/-- General append law: tokenisation splits at any boundary that no marker straddles. -/
theorem tokenize_append_of_not_straddles (a b : List Byte) (h : straddles a b = false) :
    tokenize (a ++ b) = tokenize a ++ tokenize b := by
  fun_induction tokenize b generalizing a with
  | case1 r ih =>
    have := tokenize_append_start a r
    simpa [startB] using this
  | case2 r ih =>
    have := tokenize_append_end a r
    simpa [endB] using this
  | case3 x r h1 h2 ih =>
    have e : a ++ x :: r = (a ++ [x]) ++ r := by simp
    rw [e, ih (a ++ [x]) (straddles_step a x r h h1 h2), tokenize_snoc a x (snoc_ok_of_not_straddles a x r h)]
    simp
  | case4 => simp

/-- `goodT` on reversed lists. -/
def dangR : List Tok → Bool
  | .b 0xE2 :: _ => true
  | .b 0x80 :: .b 0xE2 :: _ => true
  | _ => false

theorem dangT_eq (t : List Tok) : dangT t = dangR t.reverse := by
  unfold dangT dangR; split <;> simp_all

def goodR (r : List Tok) : Bool := !dangR (r.dropWhile Tok.isMarker)

theorem goodT_eq (t : List Tok) : goodT t = goodR t.reverse := by
  simp [goodT, coreT, dangT_eq, goodR]

theorem goodR_append (br ar : List Tok) (ha : goodR ar = true) (hb : goodR br = true) :
    goodR (br ++ ar) = true := by
  induction br with
  | nil => simpa using ha
  | cons m br' ih =>
    cases m with
    | s => simp only [goodR, List.cons_append, List.dropWhile, Tok.isMarker] at *; exact ih hb
    | e => simp only [goodR, List.cons_append, List.dropWhile, Tok.isMarker] at *; exact ih hb
    | b x =>
      simp only [goodR, List.cons_append, List.dropWhile, Tok.isMarker] at hb ⊢
      cases br' with
      | nil =>
        simp only [List.nil_append]
        -- the next token is the head of `ar`
        cases ar with
        | nil => simpa using hb
        | cons y ar' =>
          cases y with
          | s => unfold dangR at hb ⊢; split at hb <;> simp_all
          | e => unfold dangR at hb ⊢; split at hb <;> simp_all
          | b z =>
            simp only [goodR, List.dropWhile, Tok.isMarker] at ha
            unfold dangR at hb ha ⊢
            split <;> simp_all
      | cons y br'' =>
        unfold dangR at hb ⊢
        split at hb <;> simp_all

theorem goodT_append (a b : List Tok) (ha : goodT a = true) (hb : goodT b = true) : goodT (a ++ b) = true := by
  rw [goodT_eq] at *
  rw [List.reverse_append]
  exact goodR_append _ _ ha hb

end Redact
