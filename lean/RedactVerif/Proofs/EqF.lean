import RedactVerif.Proofs.EqW
/-
The frame of the capture bit: under a verb other than `w` every function of the printer leaves `wrapErrs` and
`wrappedErr` as it found them. Obtained from a two-run relation with the second run's fields pinned — "the second
printer is the first with `wrapErrs := xa`, `wrappedErr := xb`" is preserved by every function (same derivation as
Proofs/EqW.lean, the relation strengthened by the two equations); instantiating `xa`, `xb` with the printer's own
fields gives the one-run statement. Hence: for a format without a `%w` directive `HelperForErrorf` returns no error.
-/
namespace Redact.EqF
open Redact.EqW (NoW setW argNumber_setW widthStage_setW precStage_setW parseFlags_suffix parsenum_suffix argNumber_suffix widthStage_suffix precStage_suffix decodeVerb_suffix verb_of_ascii)

variable {xa : Bool} {xb : Option Nat}


/-- The second printer is the first with `wrapErrs := xa`, `wrappedErr := xb`. -/
structure Eqv (xa : Bool) (xb : Option Nat) (p p' : PP) : Prop where
  buf : p'.buf = p.buf
  override : p'.override = p.override
  f : p'.f = p.f
  erroring : p'.erroring = p.erroring
  panicking : p'.panicking = p.panicking
  reordered : p'.reordered = p.reordered
  goodArgNum : p'.goodArgNum = p.goodArgNum
  we : p'.wrapErrs = xa
  wd : p'.wrappedErr = xb

inductive RelR (xa : Bool) (xb : Option Nat) : Res → Res → Prop
  | ok {q q' : PP} : Eqv xa xb q q' → RelR xa xb (.ok q) (.ok q')
  | panic (b : Buffer) (pl : Val) : RelR xa xb (.panic b pl) (.panic b pl)
  | fuel : RelR xa xb .fuel .fuel
  | unsupported : RelR xa xb .unsupported .unsupported

inductive RelS (xa : Bool) (xb : Option Nat) : SRes → SRes → Prop
  | ok {q q' : PP} : Eqv xa xb q q' → RelS xa xb (.ok q) (.ok q')
  | raised {q q' : PP} (pl : Val) : Eqv xa xb q q' → RelS xa xb (.raised q pl) (.raised q' pl)
  | abort {r r' : Res} : RelR xa xb r r' → RelS xa xb (.abort r) (.abort r')

structure RelH (xa : Bool) (xb : Option Nat) (a a' : Bool × Res) : Prop where
  fst : a'.1 = a.1
  snd : RelR xa xb a.2 a'.2

theorem rel_ok {q q' : PP} (h : Eqv xa xb q q') : RelR xa xb (.ok q) (.ok q') := .ok h

theorem rel_bind {a a' : Res} {k k' : PP → Res} (h : RelR xa xb a a') (hk : ∀ q q', Eqv xa xb q q' → RelR xa xb (k q) (k' q')) :
    RelR xa xb (a.bind k) (a'.bind k') := by
  cases h with
  | ok hq => exact hk _ _ hq
  | panic b pl => exact .panic b pl
  | fuel => exact .fuel
  | unsupported => exact .unsupported

theorem rel_ite {c : Prop} [Decidable c] {a b a' b' : Res} (ha : RelR xa xb a a') (hb : RelR xa xb b b') :
    RelR xa xb (if c then a else b) (if c then a' else b') := by
  split <;> assumption
theorem rel_ite_h {c : Prop} [Decidable c] {a b a' b' : Bool × Res} (ha : RelH xa xb a a') (hb : RelH xa xb b b') :
    RelH xa xb (if c then a else b) (if c then a' else b') := by
  split <;> assumption
theorem rel_ite_s {c : Prop} [Decidable c] {a b a' b' : SRes} (ha : RelS xa xb a a') (hb : RelS xa xb b b') :
    RelS xa xb (if c then a else b) (if c then a' else b') := by
  split <;> assumption
theorem eqv_ite {c : Prop} [Decidable c] {a b a' b' : PP} (ha : Eqv xa xb a a') (hb : Eqv xa xb b b') :
    Eqv xa xb (if c then a else b) (if c then a' else b') := by
  split <;> assumption

theorem Eqv.w {p p' : PP} (h : Eqv xa xb p p') (s : List Byte) : Eqv xa xb (p.w s) (p'.w s) :=
  ⟨by simp [PP.w, h.buf], h.override, h.f, h.erroring, h.panicking, h.reordered, h.goodArgNum, h.we, h.wd⟩
theorem Eqv.wb {p p' : PP} (h : Eqv xa xb p p') (c : Byte) : Eqv xa xb (p.wb c) (p'.wb c) :=
  ⟨by simp [PP.wb, h.buf], h.override, h.f, h.erroring, h.panicking, h.reordered, h.goodArgNum, h.we, h.wd⟩
theorem Eqv.wr {p p' : PP} (h : Eqv xa xb p p') (r : Int) : Eqv xa xb (p.wr r) (p'.wr r) :=
  ⟨by simp [PP.wr, h.buf], h.override, h.f, h.erroring, h.panicking, h.reordered, h.goodArgNum, h.we, h.wd⟩

theorem Eqv.setErroring {p p' : PP} (h : Eqv xa xb p p') (e : Bool) : Eqv xa xb { p with erroring := e } { p' with erroring := e } :=
  ⟨h.buf, h.override, h.f, rfl, h.panicking, h.reordered, h.goodArgNum, h.we, h.wd⟩
theorem Eqv.setF {p p' : PP} (h : Eqv xa xb p p') (g : FmtS) : Eqv xa xb { p with f := g } { p' with f := g } :=
  ⟨h.buf, h.override, rfl, h.erroring, h.panicking, h.reordered, h.goodArgNum, h.we, h.wd⟩
theorem Eqv.setPanicking {p p' : PP} (h : Eqv xa xb p p') (e : Bool) : Eqv xa xb { p with panicking := e } { p' with panicking := e } :=
  ⟨h.buf, h.override, h.f, h.erroring, rfl, h.reordered, h.goodArgNum, h.we, h.wd⟩
theorem Eqv.setReordered {p p' : PP} (h : Eqv xa xb p p') (e : Bool) : Eqv xa xb { p with reordered := e } { p' with reordered := e } :=
  ⟨h.buf, h.override, h.f, h.erroring, h.panicking, rfl, h.goodArgNum, h.we, h.wd⟩
theorem Eqv.setGood {p p' : PP} (h : Eqv xa xb p p') (e : Bool) : Eqv xa xb { p with goodArgNum := e } { p' with goodArgNum := e } :=
  ⟨h.buf, h.override, h.f, h.erroring, h.panicking, h.reordered, rfl, h.we, h.wd⟩
theorem Eqv.setBuf {p p' : PP} (h : Eqv xa xb p p') (b : Buffer) : Eqv xa xb { p with buf := b } { p' with buf := b } :=
  ⟨rfl, h.override, h.f, h.erroring, h.panicking, h.reordered, h.goodArgNum, h.we, h.wd⟩
/-- The nested printer of `SafePrinter.Print/Printf`: a fresh printer sharing buffer and override. -/
theorem Eqv.nested {p p' : PP} (h : Eqv xa xb p p') :
    ({ buf := p'.buf, override := p'.override } : PP) = { buf := p.buf, override := p.override } := by
  rw [h.buf, h.override]

/-- The four `start*()`: related printers give related printers and the same restorer. -/
structure StartEqv (xa : Bool) (xb : Option Nat) (start : PP → PP × PP.Restorer) : Prop where
  st : ∀ p p', Eqv xa xb p p' → Eqv xa xb (start p).1 (start p').1 ∧ (start p').2 = (start p).2

theorem Eqv.restore {q q' : PP} (h : Eqv xa xb q q') (r : PP.Restorer) : Eqv xa xb (q.restore r) (q'.restore r) :=
  ⟨by simp [PP.restore, h.buf], rfl, h.f, h.erroring, h.panicking, h.reordered, h.goodArgNum, h.we, h.wd⟩

theorem rel_bracket {start : PP → PP × PP.Restorer} (hs : StartEqv xa xb start) {p p' : PP} (h : Eqv xa xb p p')
    {body body' : PP → Res} (hb : ∀ q q', Eqv xa xb q q' → RelR xa xb (body q) (body' q')) :
    RelR xa xb (bracket start p body) (bracket start p' body') := by
  unfold bracket
  have ⟨h1, h2⟩ := hs.st p p' h
  generalize start p = sp at h1 h2
  generalize start p' = sp' at h1 h2
  obtain ⟨q0, r⟩ := sp
  obtain ⟨q0', r'⟩ := sp'
  simp only at h1 h2 ⊢
  subst h2
  have := hb q0 q0' h1
  generalize body q0 = x at this
  generalize body' q0' = x' at this
  cases this with
  | ok hq => exact .ok (hq.restore _)
  | panic b pl => exact .panic _ _
  | fuel => exact .fuel
  | unsupported => exact .unsupported

theorem startEqv_safeOverride : StartEqv xa xb PP.startSafeOverride := by
  constructor
  intro p p' h
  unfold PP.startSafeOverride
  rw [h.override, h.buf]
  refine ⟨?_, rfl⟩
  split
  · exact ⟨rfl, rfl, h.f, h.erroring, h.panicking, h.reordered, h.goodArgNum, h.we, h.wd⟩
  · exact h
theorem startEqv_unsafeOverride : StartEqv xa xb PP.startUnsafeOverride := by
  constructor
  intro p p' h
  unfold PP.startUnsafeOverride
  rw [h.override, h.buf]
  refine ⟨?_, rfl⟩
  split
  · exact ⟨rfl, rfl, h.f, h.erroring, h.panicking, h.reordered, h.goodArgNum, h.we, h.wd⟩
  · exact h
theorem startEqv_unsafe : StartEqv xa xb PP.startUnsafe := by
  constructor
  intro p p' h
  unfold PP.startUnsafe
  rw [h.override, h.buf]
  refine ⟨?_, rfl⟩
  split
  · exact ⟨rfl, rfl, h.f, h.erroring, h.panicking, h.reordered, h.goodArgNum, h.we, h.wd⟩
  · exact h
theorem startEqv_preRedactable : StartEqv xa xb PP.startPreRedactable := by
  constructor
  intro p p' h
  unfold PP.startPreRedactable
  rw [h.override, h.buf]
  refine ⟨?_, rfl⟩
  split
  · exact ⟨rfl, rfl, h.f, h.erroring, h.panicking, h.reordered, h.goodArgNum, h.we, h.wd⟩
  · exact h

theorem relH_mk {b : Bool} {r r' : Res} (h : RelR xa xb r r') : RelH xa xb (b, r) (b, r') := ⟨rfl, h⟩

theorem rel_retOut (nr : Bool) {p p' : PP} (hp : Eqv xa xb p p') (sc : Script) {r r' : Res} (h : RelR xa xb r r') :
    RelS xa xb (retOut nr p sc r) (retOut nr p' sc r') := by
  unfold retOut
  split
  · exact .raised _ hp
  · split
    · exact .raised _ hp
    · exact .abort h

theorem eq_setW {p p' : PP} (h : Eqv xa xb p p') : p' = setW p xa xb := by
  obtain ⟨b, o, f, e, pa, w, we, r, g⟩ := p
  obtain ⟨b', o', f', e', pa', w', we', r', g'⟩ := p'
  obtain ⟨h1, h2, h3, h4, h5, h6, h7, h8, h9⟩ := h
  simp only at h1 h2 h3 h4 h5 h6 h7 h8 h9
  subst h1 h2 h3 h4 h5 h6 h7 h8 h9
  rfl

theorem eqv_setW (p : PP) : Eqv xa xb p (setW p xa xb) := ⟨rfl, rfl, rfl, rfl, rfl, rfl, rfl, rfl, rfl⟩

/-- What is known at fuel `n` about the functions reachable from `doPrint`. -/
structure ESpec (xa : Bool) (xb : Option Nat) (env : Env) (n : Nat) : Prop where
  printArg : ∀ p p' v verb, Eqv xa xb p p' → verb ≠ 119 → RelR xa xb (printArg env n p v verb) (printArg env n p' v verb)
  printArgBody : ∀ p p' v verb, Eqv xa xb p p' → verb ≠ 119 → RelR xa xb (printArgBody env n p v verb) (printArgBody env n p' v verb)
  badVerb : ∀ p p' v verb via, Eqv xa xb p p' → verb ≠ 119 → RelR xa xb (badVerb env n p v verb via) (badVerb env n p' v verb via)
  handleMethods : ∀ p p' v verb, Eqv xa xb p p' → verb ≠ 119 → RelH xa xb (handleMethods env n p v verb) (handleMethods env n p' v verb)
  methDispatch : ∀ p p' v ms nr ret sc verb, Eqv xa xb p p' → verb ≠ 119 →
    RelH xa xb (methDispatch env n p v ms nr ret sc verb) (methDispatch env n p' v ms nr ret sc verb)
  fmtString : ∀ p p' v ret verb, Eqv xa xb p p' → verb ≠ 119 → RelR xa xb (fmtString env n p v ret verb) (fmtString env n p' v ret verb)
  catchPanic : ∀ (p0 p0' : PP) (arg : Val) (verb : Nat) (m : List Byte) (nr : Bool) (out out' : SRes), RelS xa xb out out' → verb ≠ 119 →
    RelR xa xb (catchPanic env n p0 arg verb m nr out) (catchPanic env n p0' arg verb m nr out')
  runScript : ∀ p p' sc, Eqv xa xb p p' → RelS xa xb (runScript env n p sc) (runScript env n p' sc)
  printValue : ∀ p p' v verb d ro, Eqv xa xb p p' → verb ≠ 119 → RelR xa xb (printValue env n p v verb d ro) (printValue env n p' v verb d ro)
  printSlot : ∀ p p' v verb d i ro, Eqv xa xb p p' → verb ≠ 119 → RelR xa xb (printSlot env n p v verb d i ro) (printSlot env n p' v verb d i ro)
  slotMethods : ∀ p p' v verb, Eqv xa xb p p' → verb ≠ 119 → RelH xa xb (slotMethods env n p v verb) (slotMethods env n p' v verb)
  printFields : ∀ p p' fs verb d ro f, Eqv xa xb p p' → verb ≠ 119 → RelR xa xb (printFields env n p fs verb d ro f) (printFields env n p' fs verb d ro f)
  printElems : ∀ p p' vs verb d i ro f, Eqv xa xb p p' → verb ≠ 119 → RelR xa xb (printElems env n p vs verb d i ro f) (printElems env n p' vs verb d i ro f)
  printPairs : ∀ p p' ks vs verb d ik iv ro f, Eqv xa xb p p' → verb ≠ 119 →
    RelR xa xb (printPairs env n p ks vs verb d ik iv ro f) (printPairs env n p' ks vs verb d ik iv ro f)
  doPrint : ∀ p p' args, Eqv xa xb p p' → RelR xa xb (doPrint env n p args) (doPrint env n p' args)
  doPrintLoop : ∀ p p' args k ps, Eqv xa xb p p' → RelR xa xb (doPrintLoop env n p args k ps) (doPrintLoop env n p' args k ps)
  doPrintf : ∀ p p' f args, Eqv xa xb p p' → NoW f → RelR xa xb (doPrintf env n p f args) (doPrintf env n p' f args)
  fmtLoop : ∀ p p' f args k ai, Eqv xa xb p p' → NoW f → RelR xa xb (fmtLoop env n p f args k ai) (fmtLoop env n p' f args k ai)
  directiveTail : ∀ p p' f args k ai, Eqv xa xb p p' → NoW f →
    RelR xa xb (directiveTail env n p f args k ai) (directiveTail env n p' f args k ai)
  finishPrintf : ∀ p p' args k, Eqv xa xb p p' → RelR xa xb (finishPrintf env n p args k) (finishPrintf env n p' args k)
  extraLoop : ∀ p p' args f, Eqv xa xb p p' → RelR xa xb (extraLoop env n p args f) (extraLoop env n p' args f)

theorem espec_zero (env : Env) : ESpec xa xb env 0 := by
  constructor <;> intros <;> simp only [printArg, printArgBody, badVerb, handleMethods, methDispatch, fmtString, catchPanic,
    runScript, printValue, printSlot, slotMethods, printFields, printElems, printPairs, doPrint, doPrintLoop,
    doPrintf, fmtLoop, directiveTail, finishPrintf, extraLoop]
  all_goals first
    | exact .fuel
    | exact ⟨rfl, .fuel⟩
    | exact .abort .fuel

variable {env : Env} {n : Nat}

set_option hygiene false in
/-- Follow the shape shared by the two runs. -/
macro "emono" : tactic => `(tactic| repeat' (first
  | with_reducible assumption
  | with_reducible exact RelR.unsupported
  | with_reducible exact RelR.fuel
  | with_reducible exact RelR.panic _ _
  | with_reducible apply Eqv.w
  | with_reducible apply Eqv.wb
  | with_reducible apply Eqv.wr
  | with_reducible apply Eqv.restore
  | with_reducible apply eqv_ite
  | with_reducible apply rel_ok
  | with_reducible apply E.printArg
  | with_reducible apply E.printArgBody
  | with_reducible apply E.badVerb
  | with_reducible apply E.handleMethods
  | with_reducible apply E.methDispatch
  | with_reducible apply E.fmtString
  | with_reducible apply E.runScript
  | with_reducible apply E.printValue
  | with_reducible apply E.printSlot
  | with_reducible apply E.slotMethods
  | with_reducible apply E.printFields
  | with_reducible apply E.printElems
  | with_reducible apply E.printPairs
  | with_reducible apply E.doPrint
  | with_reducible apply E.doPrintLoop
  | with_reducible apply E.doPrintf
  | with_reducible apply E.fmtLoop
  | with_reducible apply E.directiveTail
  | with_reducible apply E.finishPrintf
  | with_reducible apply E.extraLoop
  | with_reducible apply rel_retOut
  | with_reducible apply RelS.raised
  | with_reducible apply rel_leafWrite
  | with_reducible apply rel_ite
  | with_reducible apply rel_ite_h
  | with_reducible apply rel_ite_s
  | with_reducible apply relH_mk
  | with_reducible apply rel_bracket startEqv_safeOverride
  | with_reducible apply rel_bracket startEqv_unsafeOverride
  | with_reducible apply rel_bracket startEqv_unsafe
  | with_reducible apply rel_bracket startEqv_preRedactable
  | with_reducible apply rel_bind
  | with_reducible exact Eqv.mk rfl rfl rfl rfl rfl rfl rfl rfl rfl
  | (show (_ : Nat) ≠ 119; decide)
  | with_reducible apply Eqv.setReordered
  | with_reducible apply Eqv.setGood
  | with_reducible apply Eqv.setErroring
  | with_reducible apply Eqv.setF
  | with_reducible apply Eqv.setPanicking
  | with_reducible apply Eqv.setBuf
  | with_reducible apply Eqv.nested
  | (intro q q' hq; try simp only [hq.buf, hq.override, hq.f, hq.erroring, hq.panicking, hq.reordered, hq.goodArgNum, hq.we, hq.wd])
  | (dsimp only)))

/-- Rewrite the second printer's fields into the first's. -/
macro "eprep" h:ident : tactic => `(tactic|
  try simp only [($h).buf, ($h).override, ($h).f, ($h).erroring, ($h).panicking, ($h).reordered, ($h).goodArgNum, ($h).we, ($h).wd])

theorem rel_leafWrite (env : Env) {p p' : PP} (h : Eqv xa xb p p') (id verb : Nat) (k : BK) (ty : List Byte) :
    RelR xa xb (leafWrite env p id verb k ty) (leafWrite env p' id verb k ty) := by
  unfold leafWrite leafWrite1
  rw [h.f]
  split
  · exact rel_ok (h.w _)
  · split
    · exact .unsupported
    · split
      · exact .unsupported
      · exact rel_bracket startEqv_unsafe h (fun q q' hq => rel_ok (hq.w _))

theorem estep_printArg (E : ESpec xa xb env n) : ∀ p p' v verb, Eqv xa xb p p' → verb ≠ 119 →
    RelR xa xb (printArg env (n + 1) p v verb) (printArg env (n + 1) p' v verb) := by
  intro p p' v verb h hv
  cases v <;> simp only [printArg] <;> emono

theorem estep_fmtString (E : ESpec xa xb env n) : ∀ p p' v ret verb, Eqv xa xb p p' → verb ≠ 119 →
    RelR xa xb (fmtString env (n + 1) p v ret verb) (fmtString env (n + 1) p' v ret verb) := by
  intro p p' v ret verb h hv
  simp only [fmtString]
  emono

theorem relH_tt {r r' : Res} (h : RelH xa xb (true, r) (true, r')) : RelR xa xb r r' := h.snd
theorem relH_ne {b b' : Bool} {r r' : Res} (h : RelH xa xb (b, r) (b', r')) (hne : b' ≠ b) : False := hne h.fst

-- `match x with | (true, r) => r | (false, _) => k` on both sides, `RelH xa xb x x'` known as `hh`
set_option hygiene false in
macro "ehandled " e:term:max e':term:max : tactic => `(tactic| (
  generalize $e = x at hh ⊢
  generalize $e' = x' at hh ⊢
  obtain ⟨b, r⟩ := x
  obtain ⟨b', r'⟩ := x'
  cases b <;> cases b' <;> dsimp only <;>
    first | exact (relH_ne hh (by decide)).elim | exact relH_tt hh | skip))

theorem estep_badVerb (E : ESpec xa xb env n) : ∀ p p' v verb via, Eqv xa xb p p' → verb ≠ 119 →
    RelR xa xb (badVerb env (n + 1) p v verb via) (badVerb env (n + 1) p' v verb via) := by
  intro p p' v verb via h hv
  unfold badVerb
  eprep h
  apply rel_bind
  · cases v <;> simp only <;> emono
  · emono

theorem estep_printArgBody (E : ESpec xa xb env n) : ∀ p p' v verb, Eqv xa xb p p' → verb ≠ 119 →
    RelR xa xb (printArgBody env (n + 1) p v verb) (printArgBody env (n + 1) p' v verb) := by
  intro p p' v verb h hv
  have hh := E.handleMethods p p' v verb h hv
  unfold printArgBody
  eprep h
  cases v with
  | leaf id k ty iv sv reg => cases k <;> simp only [hv, false_and, if_false] <;> emono
  | nil => simp only; emono
  | redactable c ty => simp only; emono
  | _ =>
    simp only
    emono
    all_goals (ehandled (handleMethods env n p _ verb) (handleMethods env n p' _ verb); emono)

theorem estep_handleMethods (E : ESpec xa xb env n) : ∀ p p' v verb, Eqv xa xb p p' → verb ≠ 119 →
    RelH xa xb (handleMethods env (n + 1) p v verb) (handleMethods env (n + 1) p' v verb) := by
  intro p p' v verb h hv
  unfold handleMethods
  eprep h
  cases v <;> simp only [hv, if_false] <;> emono

theorem estep_methDispatch (E : ESpec xa xb env n) : ∀ p p' v ms nr ret sc verb, Eqv xa xb p p' → verb ≠ 119 →
    RelH xa xb (methDispatch env (n + 1) p v ms nr ret sc verb) (methDispatch env (n + 1) p' v ms nr ret sc verb) := by
  intro p p' v ms nr ret sc verb h hv
  have cp := E.catchPanic
  unfold methDispatch
  eprep h
  emono
  all_goals first
    | (apply cp; emono)
    | (split <;> emono <;> (apply cp; emono))

theorem estep_catchPanic (E : ESpec xa xb env n) : ∀ (p0 p0' : PP) (arg : Val) (verb : Nat) (m : List Byte) (nr : Bool) (out out' : SRes),
    RelS xa xb out out' → verb ≠ 119 → RelR xa xb (catchPanic env (n + 1) p0 arg verb m nr out) (catchPanic env (n + 1) p0' arg verb m nr out') := by
  intro p0 p0' arg verb m nr out out' h hv
  unfold catchPanic
  cases h with
  | ok hq => exact .ok hq
  | abort hr => exact hr
  | raised pl hq =>
    rename_i q q'
    simp only
    eprep hq
    emono

theorem estep_runScript (E : ESpec xa xb env n) : ∀ p p' sc, Eqv xa xb p p' → RelS xa xb (runScript env (n + 1) p sc) (runScript env (n + 1) p' sc) := by
  intro p p' sc h
  unfold runScript
  cases sc with
  | done => exact .ok h
  | panic pl => exact .raised _ h
  | print args k =>
    simp only
    eprep h
    generalize doPrint env n ({ buf := p.buf, override := p.override } : PP) args.toList = r
    cases r <;> simp only
    · apply E.runScript; emono
    · exact .raised _ (by emono)
    · exact .abort .fuel
    · exact .abort .unsupported
  | printf f args k =>
    simp only
    eprep h
    generalize doPrintf env n ({ buf := p.buf, override := p.override } : PP) f args.toList = r
    cases r <;> simp only
    · apply E.runScript; emono
    · exact .raised _ (by emono)
    · exact .abort .fuel
    · exact .abort .unsupported
  | unsafeLeaf id k =>
    simp only
    split
    · exact .abort .unsupported
    · apply E.runScript
      have hs := (startEqv_unsafe.st p p' h)
      rw [hs.2]
      exact (hs.1.w _).restore _
  | indep k => simp only; exact E.runScript _ _ _ h
  | safeString s k =>
    simp only
    apply E.runScript
    have hs := (startEqv_safeOverride.st p p' h)
    rw [hs.2]
    exact (hs.1.w _).restore _
  | safeRune x k =>
    simp only
    apply E.runScript
    have hs := (startEqv_safeOverride.st p p' h)
    rw [hs.2]
    exact (hs.1.wr _).restore _
  | unsafeString s k =>
    simp only
    apply E.runScript
    have hs := (startEqv_unsafe.st p p' h)
    rw [hs.2]
    exact (hs.1.w _).restore _
  | write s k =>
    simp only
    apply E.runScript
    have hs := (startEqv_unsafe.st p p' h)
    rw [hs.2]
    exact (hs.1.w _).restore _

theorem estep_printValue (E : ESpec xa xb env n) : ∀ p p' v verb d ro, Eqv xa xb p p' → verb ≠ 119 →
    RelR xa xb (printValue env (n + 1) p v verb d ro) (printValue env (n + 1) p' v verb d ro) := by
  intro p p' v verb d ro h hv
  unfold printValue
  eprep h
  cases v <;> simp only <;> emono

theorem estep_slotMethods (E : ESpec xa xb env n) : ∀ p p' v verb, Eqv xa xb p p' → verb ≠ 119 →
    RelH xa xb (slotMethods env (n + 1) p v verb) (slotMethods env (n + 1) p' v verb) := by
  intro p p' v verb h hv
  unfold slotMethods
  eprep h
  cases v with
  | redactable c ty =>
    simp only
    emono
    have hr := E.runScript p p' (.print (.cons (.redactable c ty) .nil) .done) h
    generalize runScript env n p (.print (.cons (.redactable c ty) .nil) .done) = r at hr ⊢
    generalize runScript env n p' (.print (.cons (.redactable c ty) .nil) .done) = r' at hr ⊢
    cases hr with
    | ok hq => exact .ok hq
    | raised pl hq => simp only; rw [hq.buf]; exact .panic _ _
    | abort hr => exact hr
  | _ => simp only <;> emono

theorem estep_printFields (E : ESpec xa xb env n) : ∀ p p' fs verb d ro f, Eqv xa xb p p' → verb ≠ 119 →
    RelR xa xb (printFields env (n + 1) p fs verb d ro f) (printFields env (n + 1) p' fs verb d ro f) := by
  intro p p' fs verb d ro f h hv
  unfold printFields
  eprep h
  cases fs with
  | nil => simp only; emono
  | cons name exported it v rest =>
    simp only
    have g1 : Eqv xa xb (if f = true then p else if p.f.sharpV = true then p.w ([0x2C, 0x20] /- ", " -/ : List UInt8) else p.wb 0x20)
        (if f = true then p' else if p.f.sharpV = true then p'.w ([0x2C, 0x20] /- ", " -/ : List UInt8) else p'.wb 0x20) := by emono
    generalize (if f = true then p else if p.f.sharpV = true then p.w ([0x2C, 0x20] /- ", " -/ : List UInt8) else p.wb 0x20) = p1 at g1 ⊢
    generalize (if f = true then p' else if p.f.sharpV = true then p'.w ([0x2C, 0x20] /- ", " -/ : List UInt8) else p'.wb 0x20) = p1' at g1 ⊢
    eprep g1
    emono

theorem estep_printElems (E : ESpec xa xb env n) : ∀ p p' vs verb d i ro f, Eqv xa xb p p' → verb ≠ 119 →
    RelR xa xb (printElems env (n + 1) p vs verb d i ro f) (printElems env (n + 1) p' vs verb d i ro f) := by
  intro p p' vs verb d i ro f h hv
  unfold printElems
  eprep h
  cases vs <;> simp only <;> emono

theorem estep_printPairs (E : ESpec xa xb env n) : ∀ p p' ks vs verb d ik iv ro f, Eqv xa xb p p' → verb ≠ 119 →
    RelR xa xb (printPairs env (n + 1) p ks vs verb d ik iv ro f) (printPairs env (n + 1) p' ks vs verb d ik iv ro f) := by
  intro p p' ks vs verb d ik iv ro f h hv
  unfold printPairs
  eprep h
  cases ks <;> cases vs <;> simp only <;> emono

theorem estep_doPrint (E : ESpec xa xb env n) : ∀ p p' args, Eqv xa xb p p' → RelR xa xb (doPrint env (n + 1) p args) (doPrint env (n + 1) p' args) := by
  intro p p' args h
  unfold doPrint
  eprep h
  emono

theorem estep_doPrintLoop (E : ESpec xa xb env n) : ∀ p p' args k ps, Eqv xa xb p p' →
    RelR xa xb (doPrintLoop env (n + 1) p args k ps) (doPrintLoop env (n + 1) p' args k ps) := by
  intro p p' args k ps h
  unfold doPrintLoop
  eprep h
  cases args <;> simp only <;> emono

theorem estep_printSlot (E : ESpec xa xb env n) : ∀ p p' v verb d i ro, Eqv xa xb p p' → verb ≠ 119 →
    RelR xa xb (printSlot env (n + 1) p v verb d i ro) (printSlot env (n + 1) p' v verb d i ro) := by
  intro p p' v verb d i ro h hv
  have noMethod : ∀ q3 q3', Eqv xa xb q3 q3' →
      RelR xa xb (if i = true then printSlot env n q3 v verb (d + 1) false ro else printValue env n q3 v verb d ro)
        (if i = true then printSlot env n q3' v verb (d + 1) false ro else printValue env n q3' v verb d ro) := by
    intro q3 q3' h3; emono
  have afterMethods : ∀ q2 q2', Eqv xa xb q2 q2' →
      RelR xa xb (if (!ro) = true then
        match slotMethods env n q2 v verb with
        | (true, r) => r
        | (false, _) => (if i = true then printSlot env n q2 v verb (d + 1) false ro else printValue env n q2 v verb d ro)
      else (if i = true then printSlot env n q2 v verb (d + 1) false ro else printValue env n q2 v verb d ro))
      (if (!ro) = true then
        match slotMethods env n q2' v verb with
        | (true, r) => r
        | (false, _) => (if i = true then printSlot env n q2' v verb (d + 1) false ro else printValue env n q2' v verb d ro)
      else (if i = true then printSlot env n q2' v verb (d + 1) false ro else printValue env n q2' v verb d ro)) := by
    intro q2 q2' h2
    apply rel_ite _ (noMethod q2 q2' h2)
    have hh := E.slotMethods q2 q2' v verb h2 hv
    ehandled (slotMethods env n q2 v verb) (slotMethods env n q2' v verb)
    exact noMethod q2 q2' h2
  have body : ∀ q q', Eqv xa xb q q' →
      RelR xa xb (if (!ro) = true ∧ isSafeValue v = true then bracket PP.startSafeOverride q (fun q2 =>
          if (!ro) = true then
            match slotMethods env n q2 v verb with
            | (true, r) => r
            | (false, _) => (if i = true then printSlot env n q2 v verb (d + 1) false ro else printValue env n q2 v verb d ro)
          else (if i = true then printSlot env n q2 v verb (d + 1) false ro else printValue env n q2 v verb d ro))
       else
          if (!ro) = true then
            match slotMethods env n q v verb with
            | (true, r) => r
            | (false, _) => (if i = true then printSlot env n q v verb (d + 1) false ro else printValue env n q v verb d ro)
          else (if i = true then printSlot env n q v verb (d + 1) false ro else printValue env n q v verb d ro))
      (if (!ro) = true ∧ isSafeValue v = true then bracket PP.startSafeOverride q' (fun q2 =>
          if (!ro) = true then
            match slotMethods env n q2 v verb with
            | (true, r) => r
            | (false, _) => (if i = true then printSlot env n q2 v verb (d + 1) false ro else printValue env n q2 v verb d ro)
          else (if i = true then printSlot env n q2 v verb (d + 1) false ro else printValue env n q2 v verb d ro))
       else
          if (!ro) = true then
            match slotMethods env n q' v verb with
            | (true, r) => r
            | (false, _) => (if i = true then printSlot env n q' v verb (d + 1) false ro else printValue env n q' v verb d ro)
          else (if i = true then printSlot env n q' v verb (d + 1) false ro else printValue env n q' v verb d ro)) := by
    intro q q' hq
    exact rel_ite (rel_bracket startEqv_safeOverride hq afterMethods) (afterMethods q q' hq)
  unfold printSlot
  eprep h
  cases v with
  | nil => simp only; emono
  | safeW w =>
    cases i <;> simp only [Bool.false_eq_true, if_false, if_true]
    · emono
    · exact rel_ite (rel_bracket startEqv_safeOverride h body) (body p p' h)
  | unsafeW w =>
    cases i <;> simp only [Bool.false_eq_true, if_false, if_true]
    · emono
    · exact rel_ite (rel_bracket startEqv_safeOverride h body) (body p p' h)
  | redactable c ty =>
    cases i <;> simp only [Bool.false_eq_true, if_false, if_true]
    · emono
    · exact rel_ite (rel_bracket startEqv_safeOverride h body) (body p p' h)
  | _ =>
    simp only
    split
    · rename_i r hspecial
      split at hspecial <;> cases hspecial
    · exact rel_ite (rel_bracket startEqv_safeOverride h body) (body p p' h)

theorem estep_doPrintf (E : ESpec xa xb env n) : ∀ p p' f args, Eqv xa xb p p' → NoW f →
    RelR xa xb (doPrintf env (n + 1) p f args) (doPrintf env (n + 1) p' f args) := by
  intro p p' f args h hf
  unfold doPrintf
  eprep h
  emono

theorem estep_finishPrintf (E : ESpec xa xb env n) : ∀ p p' args k, Eqv xa xb p p' →
    RelR xa xb (finishPrintf env (n + 1) p args k) (finishPrintf env (n + 1) p' args k) := by
  intro p p' args k h
  unfold finishPrintf
  eprep h
  emono

theorem estep_extraLoop (E : ESpec xa xb env n) : ∀ p p' args f, Eqv xa xb p p' →
    RelR xa xb (extraLoop env (n + 1) p args f) (extraLoop env (n + 1) p' args f) := by
  intro p p' args f h
  unfold extraLoop
  cases args with
  | nil => exact rel_ok h
  | cons a rest =>
    simp only
    apply rel_bind _ (fun q q' hq => E.extraLoop _ _ _ _ hq)
    cases a <;> simp only <;> emono

theorem estep_fmtLoop (E : ESpec xa xb env n) : ∀ p p' f args k ai, Eqv xa xb p p' → NoW f →
    RelR xa xb (fmtLoop env (n + 1) p f args k ai) (fmtLoop env (n + 1) p' f args k ai) := by
  intro p p' f args k ai h hf
  unfold fmtLoop
  dsimp only
  eprep h
  have hrest : (f.dropWhile (· ≠ 0x25)) <:+ f := List.dropWhile_suffix _
  by_cases hl : (List.takeWhile (fun x => decide (x ≠ 37)) f).isEmpty = true
  all_goals simp only [hl, if_true, if_false, Bool.false_eq_true]
  all_goals split
  all_goals first
    | (emono; done)
    | (rename_i c r0 heq
       have hr0 : NoW r0 := hf.suffix ((List.suffix_cons _ _).trans (heq ▸ hrest))
       have hpf := parseFlags_suffix true {} r0
       generalize parseFlags true {} r0 = pf at hpf
       obtain ⟨fs, r1⟩ := pf
       dsimp only at hpf ⊢
       have hr1 : NoW r1 := hr0.suffix hpf
       split
       · rename_i c2 r2
         have hr2 : NoW r2 := hr1.suffix (List.suffix_cons _ _)
         split
         · rename_i hcond
           have hv : c2.toNat ≠ 119 := verb_of_ascii hr1 rfl hcond.2.1
           emono
           split <;> emono
         · emono
       · emono)

theorem estep_directiveTail (E : ESpec xa xb env n) : ∀ p p' f args k ai, Eqv xa xb p p' → NoW f →
    RelR xa xb (directiveTail env (n + 1) p f args k ai) (directiveTail env (n + 1) p' f args k ai) := by
  intro p p' f args k ai h hf
  rw [eq_setW h]
  unfold directiveTail
  dsimp only
  rw [argNumber_setW]
  have s1 := argNumber_suffix p k f args.length
  rcases han : argNumber p k f args.length with ⟨p1, k1, r1, ai1⟩
  rw [han] at s1
  dsimp only at s1 ⊢
  rw [widthStage_setW]
  have s2 := widthStage_suffix p1 args k1 r1 ai1
  rcases hws : widthStage p1 args k1 r1 ai1 with ⟨p2, k2, r2, ai2⟩
  rw [hws] at s2
  dsimp only at s2 ⊢
  rw [precStage_setW]
  have s3 := precStage_suffix p2 args k2 r2 ai2
  rcases hps : precStage p2 args k2 r2 ai2 with ⟨p3, k3, r3, ai3⟩
  rw [hps] at s3
  dsimp only at s3 ⊢
  have h4 : (if (!ai3) = true then argNumber (setW p3 xa xb) k3 r3 args.length else (setW p3 xa xb, k3, r3, ai3)) =
      (setW (if (!ai3) = true then argNumber p3 k3 r3 args.length else (p3, k3, r3, ai3)).1 xa xb,
        (if (!ai3) = true then argNumber p3 k3 r3 args.length else (p3, k3, r3, ai3)).2) := by
    cases ai3
    · simp only [Bool.not_false, if_true]; exact argNumber_setW _ _ _ _ _ _
    · rfl
  rw [h4]
  have s4 : (if (!ai3) = true then argNumber p3 k3 r3 args.length else (p3, k3, r3, ai3)).2.2.1 <:+ r3 := by
    cases ai3
    · simp only [Bool.not_false, if_true]; exact argNumber_suffix _ _ _ _
    · exact List.suffix_refl _
  rcases h5 : (if (!ai3) = true then argNumber p3 k3 r3 args.length else (p3, k3, r3, ai3)) with ⟨p4, k4, r4, ai4⟩
  rw [h5] at s4
  dsimp only at s4 ⊢
  have hr4 : NoW r4 := hf.suffix (((s4.trans s3).trans s2).trans s1)
  have hq : Eqv xa xb p4 (setW p4 xa xb) := eqv_setW p4
  generalize setW p4 xa xb = p4' at hq
  eprep hq
  split
  · emono
  · rename_i verb r' hd
    have hv : verb ≠ 119 := hr4 r4 verb r' (List.suffix_refl _) hd
    have hr' : NoW r' := hr4.suffix (decodeVerb_suffix hd)
    emono
    split <;> emono

/-- **Every function of the printer commutes with pinning `wrapErrs` and `wrappedErr`, unless it is given the verb `w`**, at every fuel. -/
theorem espec_all (env : Env) : ∀ n, ESpec xa xb env n := by
  intro n
  induction n with
  | zero => exact espec_zero env
  | succ n ih =>
    exact {
      printArg := estep_printArg ih
      printArgBody := estep_printArgBody ih
      badVerb := estep_badVerb ih
      handleMethods := estep_handleMethods ih
      methDispatch := estep_methDispatch ih
      fmtString := estep_fmtString ih
      catchPanic := estep_catchPanic ih
      runScript := estep_runScript ih
      printValue := estep_printValue ih
      printSlot := estep_printSlot ih
      slotMethods := estep_slotMethods ih
      printFields := estep_printFields ih
      printElems := estep_printElems ih
      printPairs := estep_printPairs ih
      doPrint := estep_doPrint ih
      doPrintLoop := estep_doPrintLoop ih
      doPrintf := estep_doPrintf ih
      fmtLoop := estep_fmtLoop ih
      directiveTail := estep_directiveTail ih
      finishPrintf := estep_finishPrintf ih
      extraLoop := estep_extraLoop ih }

theorem eqv_self (p : PP) : Eqv p.wrapErrs p.wrappedErr p p := ⟨rfl, rfl, rfl, rfl, rfl, rfl, rfl, rfl, rfl⟩

theorem ok_of_rel {r : Res} {q : PP} (h : RelR xa xb r r) (hr : r = .ok q) : q.wrapErrs = xa ∧ q.wrappedErr = xb := by
  subst hr
  cases h with
  | ok hq => exact ⟨hq.we, hq.wd⟩

/-- **The frame of the capture bit**: an operand printed under a verb other than `w` leaves `wrapErrs` and
`wrappedErr` as they were. -/
theorem printArg_keeps_capture (env : Env) (n : Nat) (p : PP) (v : Val) (verb : Nat) (hv : verb ≠ 119) (q : PP)
    (h : printArg env n p v verb = .ok q) : q.wrapErrs = p.wrapErrs ∧ q.wrappedErr = p.wrappedErr :=
  ok_of_rel ((espec_all env n).printArg p p v verb (eqv_self p) hv) h

/-- … and so does a whole `Printf` whose format has no `%w` directive. -/
theorem doPrintf_keeps_capture (env : Env) (n : Nat) (p : PP) (f : List Byte) (args : List Val) (hf : NoW f) (q : PP)
    (h : doPrintf env n p f args = .ok q) : q.wrapErrs = p.wrapErrs ∧ q.wrappedErr = p.wrappedErr :=
  ok_of_rel ((espec_all env n).doPrintf p p f args (eqv_self p) hf) h

end Redact.EqF
