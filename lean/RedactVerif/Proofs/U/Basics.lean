import RedactVerif.Proofs.U.Buffer
/-
The vocabulary of `PrinterBasics.lean` re-read for printing under an `Unsafe` override: the same
names with the same shapes, so that the induction of `PrinterInv.lean` can be repeated on them.
-/
namespace Redact.U

/-- Under an `Unsafe(…)` wrapper: unsafe mode, `overrideUnsafe`. -/
def Pre (p : PP) : Prop :=
  Inv p.buf ∧ p.buf.mode = .unsafeEsc ∧ p.override = .ovUnsafe ∧ (p.buf.markerOpen = false → tailBad p.buf.buf = false)

def G (p q : PP) : Prop := BU p.buf q.buf ∧ q.override = p.override

theorem G.refl {p : PP} (h : Pre p) : G p p := ⟨BU.refl h.1 h.2.1 h.2.2.2, rfl⟩
theorem G.trans {p q r : PP} (h1 : G p q) (h2 : G q r) : G p r := ⟨BU.trans h1.1 h2.1, h2.2.trans h1.2⟩
theorem G.pre {p q : PP} (hp : Pre p) (h : G p q) : Pre q := ⟨h.1.inv, h.1.mode, by rw [h.2]; exact hp.2.2.1, h.1.ct⟩

theorem Pre.bu {p : PP} (h : Pre p) : BU p.buf p.buf := BU.refl h.1 h.2.1 h.2.2.2

def GR (p : PP) (r : Res) : Prop :=
  (∀ q, r = .ok q → G p q) ∧ (∀ b pl, r = .panic b pl → BU p.buf b ∧ ValOk pl)

theorem G_w {p : PP} (hp : Pre p) (s : List Byte) : G p (p.w s) := ⟨BU_write hp.bu s, rfl⟩
theorem G_wb {p : PP} (hp : Pre p) (c : Byte) : G p (p.wb c) := ⟨BU_writeByte hp.bu c, rfl⟩
theorem G_wr {p : PP} (hp : Pre p) (r : Int) : G p (p.wr r) := ⟨BU_writeRune hp.bu r, rfl⟩

theorem G_same {p q : PP} (hp : Pre p) (hb : q.buf = p.buf) (ho : q.override = p.override) : G p q :=
  ⟨by rw [hb]; exact hp.bu, ho⟩

theorem GR_bind {p : PP} {r : Res} {f : PP → Res} (h1 : GR p r) (h2 : ∀ q, G p q → GR q (f q)) : GR p (r.bind f) := by
  cases r with
  | ok q1 =>
    have g1 := h1.1 q1 rfl
    exact ⟨fun q hq => G.trans g1 ((h2 q1 g1).1 q hq), fun b pl hq =>
      ⟨BU.trans g1.1 ((h2 q1 g1).2 b pl hq).1, ((h2 q1 g1).2 b pl hq).2⟩⟩
  | panic b pl => exact ⟨fun q hq => (by simp [Res.bind] at hq), fun b' pl' hq => (by
      simp only [Res.bind, Res.panic.injEq] at hq; obtain ⟨rfl, rfl⟩ := hq; exact h1.2 _ _ rfl)⟩
  | fuel => exact ⟨fun q hq => (by simp [Res.bind] at hq), fun b pl hq => (by simp [Res.bind] at hq)⟩
  | unsupported => exact ⟨fun q hq => (by simp [Res.bind] at hq), fun b pl hq => (by simp [Res.bind] at hq)⟩

/-- Under the override every `startX` leaves the printer as it is, and its restorer restores what is already there. -/
theorem GR_bracket (start : PP → PP × PP.Restorer) (p : PP) (body : PP → Res) (hp : Pre p)
    (hstart : Pre (start p).1 ∧ (start p).2 = ⟨p.buf.mode, p.override⟩ ∧ (start p).1 = p)
    (hbody : GR (start p).1 (body (start p).1)) : GR p (bracket start p body) := by
  unfold bracket
  generalize hs : start p = sp at hstart hbody
  obtain ⟨q0, r⟩ := sp
  simp only at hstart hbody ⊢
  obtain ⟨_, hr, rfl⟩ := hstart
  subst hr
  cases hb : body q0 with
  | ok q1 =>
    rw [hb] at hbody
    have g := hbody.1 q1 rfl
    refine ⟨fun q hq => ?_, fun b pl hq => (by cases hq)⟩
    simp only [Res.ok.injEq] at hq
    subst hq
    have : q1.buf.setMode q0.buf.mode = q1.buf := setMode_same _ _ (by rw [g.1.mode, hp.2.1])
    exact ⟨by simp only [PP.restore]; rw [this]; exact g.1, rfl⟩
  | panic b pl =>
    rw [hb] at hbody
    have g := hbody.2 b pl rfl
    refine ⟨fun q hq => (by cases hq), fun b' pl' hq => ?_⟩
    simp only [Res.panic.injEq] at hq
    obtain ⟨rfl, rfl⟩ := hq
    have : b.setMode q0.buf.mode = b := setMode_same _ _ (by rw [g.1.mode, hp.2.1])
    rw [this]
    exact g
  | fuel => exact ⟨fun q hq => (by cases hq), fun b pl hq => (by cases hq)⟩
  | unsupported => exact ⟨fun q hq => (by cases hq), fun b pl hq => (by cases hq)⟩

theorem start_safeOverride {p : PP} (hp : Pre p) :
    Pre p.startSafeOverride.1 ∧ p.startSafeOverride.2 = ⟨p.buf.mode, p.override⟩ ∧ p.startSafeOverride.1 = p := by
  unfold PP.startSafeOverride
  have : ¬ (p.override = .no) := by rw [hp.2.2.1]; decide
  simp only [this, if_false]
  exact ⟨hp, trivial, trivial⟩

theorem start_unsafeOverride {p : PP} (hp : Pre p) :
    Pre p.startUnsafeOverride.1 ∧ p.startUnsafeOverride.2 = ⟨p.buf.mode, p.override⟩ ∧ p.startUnsafeOverride.1 = p := by
  unfold PP.startUnsafeOverride
  have : ¬ (p.override = .no) := by rw [hp.2.2.1]; decide
  simp only [this, if_false]
  exact ⟨hp, trivial, trivial⟩

theorem start_unsafe {p : PP} (hp : Pre p) :
    Pre p.startUnsafe.1 ∧ p.startUnsafe.2 = ⟨p.buf.mode, p.override⟩ ∧ p.startUnsafe.1 = p := by
  unfold PP.startUnsafe
  have : p.override ≠ .ovSafe := by rw [hp.2.2.1]; decide
  simp only [this, if_true, ne_eq, not_false_eq_true]
  have e : p.buf.setMode .unsafeEsc = p.buf := setMode_same _ _ hp.2.1
  rw [e]
  exact ⟨hp, trivial, rfl⟩

theorem start_preRedactable {p : PP} (hp : Pre p) :
    Pre p.startPreRedactable.1 ∧ p.startPreRedactable.2 = ⟨p.buf.mode, p.override⟩ ∧ p.startPreRedactable.1 = p := by
  unfold PP.startPreRedactable
  have : ¬ (p.override ≠ .ovUnsafe) := by rw [hp.2.2.1]; decide
  simp only [this, if_false]
  exact ⟨hp, trivial, trivial⟩

theorem GR_ok {p q : PP} (h : G p q) : GR p (.ok q) :=
  ⟨fun q' hq => (by cases hq; exact h), fun b pl hq => (by cases hq)⟩

/-- A finished redactable under the override: written like any other unsafe bytes. -/
theorem GR_preRedactable (p : PP) (content : List Byte) (hp : Pre p) (_hc : Obtainable content) :
    GR p (bracket PP.startPreRedactable p fun q => .ok (q.w content)) :=
  GR_bracket _ _ _ hp (start_preRedactable hp) (GR_ok (G_w (start_preRedactable hp).1 _))

theorem GR_none (p : PP) {r : Res} (h1 : ∀ q, r ≠ .ok q) (h2 : ∀ b pl, r ≠ .panic b pl) : GR p r :=
  ⟨fun q hq => absurd hq (h1 q), fun b pl hq => absurd hq (h2 b pl)⟩

theorem GR_leafWrite (env : Env) (p : PP) (id verb : Nat) (k : BK) (ty : List Byte) (hp : Pre p) :
    GR p (leafWrite env p id verb k ty) := by
  unfold leafWrite
  split
  · exact GR_ok (G_w hp _)
  · unfold leafWrite1
    split
    · exact GR_none _ (fun _ h => by cases h) (fun _ _ h => by cases h)
    · split
      · exact GR_none _ (fun _ h => by cases h) (fun _ _ h => by cases h)
      · apply GR_bracket _ _ _ hp (start_unsafe hp)
        exact GR_ok (G_w (start_unsafe hp).1 _)

end Redact.U
