import RedactVerif.Proofs.U.Inv
namespace Redact.U

/-- The text outside envelopes of a fully validated buffer. -/
def fT (b : Buffer) : List Tok := safeText (evT (tokenize b.buf))

/-- Closing the envelope of a fully validated open buffer leaves the outside text as it is. -/
theorem fT_endRedactable (b : Buffer) (h : FullOK b true) : fT b.endRedactable = fT b := by
  have hne : tokenize b.buf ≠ [] := tokens_ne_nil_of_scan_true h.sc
  have hb : b.buf.isEmpty = false := by
    cases hbb : b.buf with
    | nil => rw [hbb] at hne; simp at hne
    | cons _ _ => rfl
  unfold fT
  by_cases hs : hasSuffix b.buf startB = true
  · have hs' := (hasSuffix_iff _ _).1 hs
    have e1 : b.endRedactable.buf = dropLast 3 b.buf := by simp [Buffer.endRedactable, hb, hs]
    have hl := (getLast_tokenize_start b.buf).2 hs'
    have hsn := snoc_of_getLast hl
    rw [e1, tokenize_dropLast_start _ hs']
    conv => rhs; rw [hsn, safeText_evT_snoc_s]
  · have hs1 : hasSuffix b.buf startB = false := by simpa using hs
    have e1 : b.endRedactable.buf = b.buf ++ endB := by simp [Buffer.endRedactable, hb, hs1]
    rw [e1, tokenize_append_endB, safeText_evT_snoc_e]

/-- Leaving unsafe mode: the pending bytes are escaped inside the envelope (line feeds break it),
and the envelope is closed. Outside envelopes only line feeds have been added. -/
theorem BU_exit {b0 b : Buffer} (h : BU b0 b) (m : Mode) (hm : m ≠ .unsafeEsc) :
    Inv (b.setMode m) ∧ (b.setMode m).validUntil = (b.setMode m).buf.length ∧ (b.setMode m).markerOpen = false ∧
    ∃ l, OnlyLFs l ∧ fT (b.setMode m) = sT b0 ++ l := by
  have hne : b.mode ≠ m := by rw [h.mode]; exact fun e => hm e.symm
  have hnr : b.mode ≠ .raw := by rw [h.mode]; decide
  have ⟨_, v1, o1⟩ := setMode_buf b m h.inv hne
  refine ⟨inv_setMode _ _ h.inv, v1, o1, ?_⟩
  obtain ⟨l, ol, el⟩ := h.lf
  have hdec : decide (b.mode = .unsafeEsc) = true := by simp [h.mode]
  have hspec := (escapeBytesAt_spec b.buf b.validUntil true h.inv.good).1
  have hsc := h.inv.sc
  change scan (tokenize b.pre) = _ at hsc
  have hbuf : (b.escapeToEnd true).buf = escapeBytesAt b.buf b.validUntil true false := rfl
  cases ho : b.markerOpen with
  | false =>
    rw [setMode_esc_closed b m hne hnr ho, hdec]
    have hsuf := h.inv.closedEmpty h.mode ho
    refine ⟨l, ol, ?_⟩
    show safeText (evT (tokenize (b.escapeToEnd true).buf)) = _
    rw [hbuf, hspec, h.ct ho]
    simp only [Bool.false_eq_true, if_false]
    change safeText (evT (escTok true (tokenize b.pre) (tokenize b.suf))) = _
    rw [hsuf]
    simpa [escTok, sT] using el
  | true =>
    rw [setMode_esc_open b m hne hnr ho, hdec]
    have ⟨hf, _, _⟩ := escapeToEnd_full b h.inv
    rw [hdec, ho] at hf
    refine ⟨l ++ lfT (tokenize b.suf), onlyLFs_append ol (onlyLFs_lfT _), ?_⟩
    show fT (b.escapeToEnd true).endRedactable = _
    rw [fT_endRedactable _ hf]
    unfold fT
    rw [hbuf, hspec]
    rw [ho] at hsc
    have hR : safeText (evT (escTok true (tokenize b.pre) (tokenize b.suf))) = sT b0 ++ (l ++ lfT (tokenize b.suf)) := by
      rw [safeText_escTok_open _ _ hsc, ← List.append_assoc, ← el]; rfl
    change safeText (evT (if tailBad b.buf = true then escTok true (tokenize b.pre) (tokenize b.suf) ++ [.b 0x3F]
      else escTok true (tokenize b.pre) (tokenize b.suf))) = _
    split
    · rw [safeText_evT_snoc_open _ _ (scan_escTok_open _ _ hsc)]; exact hR
    · exact hR

end Redact.U

namespace Redact.U

/-- **`Unsafe(x)` as an operand, anywhere**: whatever `x` is (safe values, `Safe(…)` wrappers,
redactable strings, formatters, errors, panicking methods inside it), when its printing returns
the buffer is closed and fully validated again, and outside envelopes nothing but line feeds was
added to what the output would have been without the operand.
The hypothesis `hT` says that the text before the operand does not end in a truncated character. -/
theorem unsafe_operand (env : Env) (he : EnvOk env) (n : Nat) (p : PP) (v : Val) (verb : Nat)
    (hp : Redact.Pre p) (ho : p.override = .no) (hm : p.buf.mode ≠ .unsafeEsc)
    (hT : tailBad p.buf.finalize.buf = false) (hv : ValOk v) (q : PP)
    (h : printArg env (n + 1) p (.unsafeW v) verb = .ok q) :
    Inv q.buf ∧ q.buf.mode = p.buf.mode ∧ q.override = .no ∧ q.buf.validUntil = q.buf.buf.length ∧
      q.buf.markerOpen = false ∧ ∃ l, OnlyLFs l ∧ fT q.buf = fT p.buf.finalize ++ l := by
  simp only [printArg] at h
  unfold bracket PP.startUnsafeOverride at h
  simp only [ho, if_true] at h
  have ⟨e1, v1, o1⟩ := setMode_buf p.buf .unsafeEsc hp.1 hm
  have hp' : Pre ({ p with buf := p.buf.setMode .unsafeEsc, override := .ovUnsafe } : PP) :=
    ⟨inv_setMode _ _ hp.1, setMode_mode _ _, rfl, fun _ => by show tailBad (p.buf.setMode .unsafeEsc).buf = false; rw [e1]; exact hT⟩
  have S := (spec_all env he n).printArg _ v verb hp' hv
  split at h
  · rename_i q' heq
    have g := S.1 q' heq
    simp only [Res.ok.injEq] at h
    subst h
    have hmm : p.buf.mode ≠ .unsafeEsc := hm
    have ⟨i, vv, oo, l, ol, el⟩ := BU_exit g.1 p.buf.mode hmm
    refine ⟨i, setMode_mode _ _, rfl, vv, oo, l, ol, ?_⟩
    show fT (q'.buf.setMode p.buf.mode) = _
    rw [el]
    congr 1
    show safeText (evT (tokenize (p.buf.setMode .unsafeEsc).pre)) = _
    rw [pre_of_full v1, e1]
    rfl
  · cases h
  · rename_i x _ _
    cases x <;> simp_all

end Redact.U

namespace Redact.U

/-- A closed, well-formed byte string whose outside text is only line feeds ends with an end
marker or a line feed (or is empty): its tail is a complete character. -/
theorem tail_of_onlyLFs (l : List Byte) (hs : scan (tokenize l) = some false)
    (h : OnlyLFs (safeText (evT (tokenize l)))) : tailBad l = false := by
  by_cases hne : tokenize l = []
  · have : l = [] := tokenize_eq_nil hne
    subst this; decide
  · obtain ⟨u0, x, hux⟩ : ∃ u x, tokenize l = u ++ [x] :=
      ⟨(tokenize l).dropLast, (tokenize l).getLast hne, (List.dropLast_concat_getLast hne).symm⟩
    have hl : l = untok u0 ++ x.bytes := by
      have := untok_tokenize l
      rw [hux, untok_append] at this
      simpa using this.symm
    rw [hux] at hs h
    cases x with
    | s => rw [hl]; exact tailBad_startB _
    | e => rw [hl]; exact tailBad_endB _
    | b c =>
      have hu : scan u0 = some false := by
        rw [scan_append] at hs
        cases hsu : scan u0 with
        | none => simp [hsu] at hs
        | some o =>
          cases o with
          | false => rfl
          | true => rw [hsu] at hs; simp only [Option.bind_some, scanFrom] at hs; split at hs <;> cases hs
      have hc := closed_of_scan_false hu
      rw [evT_snoc_content, hc, safeText_append] at h
      have := h (.b c) (by simp [absTok, safeText])
      injection this with hcc
      subst hcc
      rw [hl]
      exact tailBad_lf _

/-- **`Sprint(Unsafe(x))`: everything is inside envelopes** — what remains of the output when the
envelopes are dropped consists of line feeds (each line's envelope is closed before the line
feed and reopened after it). For every `x` — safe values, `Safe(…)`, redactable strings (their
own markers are escaped), formatters, errors, panicking methods inside it included — and every fuel. -/
theorem sprint_unsafe_enveloped (env : Env) (he : EnvOk env) (v : Val) (hv : ValOk v) (n : Nat) (q : PP)
    (h : doPrint env n newPP [.unsafeW v] = .ok q) :
    OnlyLFs (safeText (evT (tokenize q.buf.redactableBytes))) := by
  match n, h with
  | 0, h => simp [doPrint] at h
  | 1, h => simp [doPrint, doPrintLoop] at h
  | k + 2, h =>
    simp only [doPrint, doPrintLoop] at h
    have hov : newPP.override ≠ .ovUnsafe := by decide
    simp only [hov, if_true, ne_eq, not_false_eq_true, Nat.lt_irrefl, false_and, if_false, gt_iff_lt] at h
    generalize hp1 : ({ newPP with buf := newPP.buf.setMode .safeEsc } : PP) = p1 at h
    have e1 : p1.buf = { buf := [], validUntil := 0, mode := .safeEsc, markerOpen := false } := by
      rw [← hp1]; decide
    have hp : Redact.Pre p1 := by
      rw [← hp1]; exact ⟨inv_setMode newPP.buf .safeEsc inv_init, by simp [setMode_mode]⟩
    cases k with
    | zero => simp [printArg, Res.bind] at h
    | succ k =>
      cases hr : printArg env (k + 1) p1 (.unsafeW v) 118 with
      | ok q' =>
        rw [hr] at h
        simp only [Res.bind, doPrintLoop, Res.ok.injEq] at h
        subst h
        have hfin : p1.buf.finalize.buf = [] := by rw [e1]; decide
        have ⟨i, m, _, vv, oo, l, ol, el⟩ := unsafe_operand env he k p1 v 118 hp (by rw [← hp1]; rfl)
          (by rw [e1]; decide) (by rw [hfin]; decide) hv q' hr
        have hm : q'.buf.mode ≠ .raw := by rw [m, e1]; decide
        have hdec : decide (q'.buf.mode = .unsafeEsc) = false := by rw [m, e1]; decide
        have hpre := pre_of_full vv
        have hsuf := suf_of_full vv
        have hsc : scan (tokenize q'.buf.buf) = some false := by have := i.sc; rwa [hpre, oo] at this
        have hfT : fT q'.buf = l := by rw [el]; unfold fT; rw [hfin]; rfl
        have hl : OnlyLFs (safeText (evT (tokenize q'.buf.buf))) := by
          change OnlyLFs (fT q'.buf); rw [hfT]; exact ol
        unfold Buffer.redactableBytes
        rw [finalize_esc_closed _ hm oo, hdec]
        have hbuf : (q'.buf.escapeToEnd false).buf = escapeBytesAt q'.buf.buf q'.buf.validUntil false false := rfl
        rw [hbuf, (escapeBytesAt_spec q'.buf.buf q'.buf.validUntil false i.good).1, tail_of_onlyLFs _ hsc hl]
        simp only [Bool.false_eq_true, if_false]
        change OnlyLFs (safeText (evT (escTok false (tokenize q'.buf.pre) (tokenize q'.buf.suf))))
        rw [hpre, hsuf]
        simpa [escTok] using hl
      | panic b pl => rw [hr] at h; simp [Res.bind] at h
      | fuel => rw [hr] at h; simp [Res.bind] at h
      | unsupported => rw [hr] at h; simp [Res.bind] at h

end Redact.U
