import RedactVerif.Proofs.Plain
import RedactVerif.Proofs.PrinterInv
namespace Redact

/-! ### Everything written under `Unsafe(…)` is inside envelopes: buffer level -/

def OnlyLFs (l : List Tok) : Prop := ∀ t ∈ l, t = .b LF

theorem onlyLFs_nil : OnlyLFs [] := fun _ h => by simp at h
theorem onlyLFs_append {a b : List Tok} (ha : OnlyLFs a) (hb : OnlyLFs b) : OnlyLFs (a ++ b) := by
  intro t ht
  simp only [List.mem_append] at ht
  rcases ht with h | h
  · exact ha t h
  · exact hb t h

theorem onlyLFs_lfT (x : List Tok) : OnlyLFs (lfT x) := by
  induction x with
  | nil => exact onlyLFs_nil
  | cons t r ih =>
    cases t with
    | s => simpa [lfT] using ih
    | e => simpa [lfT] using ih
    | b y =>
      simp only [lfT]
      split
      · intro t ht
        simp only [List.mem_cons] at ht
        rcases ht with rfl | ht
        · rfl
        · exact ih t ht
      · exact ih

/-- The text outside envelopes in the validated part of the buffer. -/
def sT (b : Buffer) : List Tok := safeText (evT (tokenize b.pre))

/-- `b` was reached from `b0` by writes made under an `Unsafe` override: still in unsafe mode,
and what was added outside envelopes (so far: in the validated part) consists of line feeds. -/
structure BU (b0 b : Buffer) : Prop where
  inv : Inv b
  mode : b.mode = .unsafeEsc
  ct : b.markerOpen = false → tailBad b.buf = false
  lf : ∃ l, OnlyLFs l ∧ sT b = sT b0 ++ l

theorem BU.refl {b : Buffer} (hi : Inv b) (hm : b.mode = .unsafeEsc) (hc : b.markerOpen = false → tailBad b.buf = false) :
    BU b b := ⟨hi, hm, hc, [], onlyLFs_nil, by simp⟩

theorem BU.trans {a b c : Buffer} (h1 : BU a b) (h2 : BU b c) : BU a c := by
  obtain ⟨l1, o1, e1⟩ := h1.lf
  obtain ⟨l2, o2, e2⟩ := h2.lf
  exact ⟨h2.inv, h2.mode, h2.ct, l1 ++ l2, onlyLFs_append o1 o2, by rw [e2, e1, List.append_assoc]⟩

theorem sT_startWrite (b : Buffer) (hi : Inv b) (hm : b.mode = .unsafeEsc) :
    sT b.startWrite = sT b ∧ b.startWrite.markerOpen = true := by
  by_cases hc : b.mode = .unsafeEsc ∧ b.markerOpen = false
  · have hfull := full_of_suf_nil hi.le (hi.closedEmpty hc.1 hc.2)
    have hpre := pre_of_full hfull
    have F : FullOK b false := ⟨hfull, by have := hi.good; rwa [hpre] at this,
      by have := hi.sc; rwa [hpre, hc.2] at this⟩
    have ⟨_, _, hmo, _⟩ := startRedactable_full b F
    have e : b.startWrite = { b.startRedactable with validUntil := b.startRedactable.buf.length } := startWrite_open b hc
    have hpre' : b.startWrite.pre = b.startRedactable.buf := by rw [e]; simp [Buffer.pre]
    refine ⟨?_, by rw [e]; exact hmo⟩
    unfold sT
    rw [hpre', hpre]
    by_cases hs : hasSuffix b.buf endB = true
    · have hs' := (hasSuffix_iff _ _).1 hs
      have e1 : b.startRedactable.buf = dropLast 3 b.buf := by simp [Buffer.startRedactable, hs]
      have hl := (getLast_tokenize_end b.buf).2 hs'
      have hsn := snoc_of_getLast hl
      rw [e1, tokenize_dropLast_end _ hs']
      conv => rhs; rw [hsn, safeText_evT_snoc_e]
    · have hs1 : hasSuffix b.buf endB = false := by simpa using hs
      have e1 : b.startRedactable.buf = b.buf ++ startB := by simp [Buffer.startRedactable, hs1]
      rw [e1, tokenize_append_startB, safeText_evT_snoc_s]
  · rw [startWrite_noop b hc]
    refine ⟨rfl, ?_⟩
    cases ho : b.markerOpen with
    | true => rfl
    | false => exact absurd ⟨hm, ho⟩ hc

theorem BU_startWrite {b0 b : Buffer} (h : BU b0 b) : BU b0 b.startWrite ∧ b.startWrite.markerOpen = true := by
  have ⟨j, m, _, _⟩ := inv_startWrite b h.inv
  have ⟨e, o⟩ := sT_startWrite b h.inv h.mode
  obtain ⟨l, ol, el⟩ := h.lf
  exact ⟨⟨j, by rw [m]; exact h.mode, fun hc => (by rw [o] at hc; cases hc), l, ol, by rw [e, el]⟩, o⟩

theorem BU_append {b0 b : Buffer} (h : BU b0 b) (ho : b.markerOpen = true) (s : List Byte) : BU b0 (b.append s) := by
  have j := inv_append b s h.inv (fun hc => by rw [ho] at hc; cases hc.2) (fun hr => by rw [h.mode] at hr; cases hr)
  have hpre : (b.append s).pre = b.pre := by
    simp [Buffer.append, Buffer.pre, List.take_append_of_le_length h.inv.le]
  obtain ⟨l, ol, el⟩ := h.lf
  exact ⟨j, h.mode, fun hc => (by change b.markerOpen = false at hc; rw [ho] at hc; cases hc), l, ol,
    by unfold sT at el ⊢; rw [hpre, el]⟩

theorem BU_write {b0 b : Buffer} (h : BU b0 b) (s : List Byte) : BU b0 (b.write s) :=
  BU_append (BU_startWrite h).1 (BU_startWrite h).2 s

theorem BU_writeRune {b0 b : Buffer} (h : BU b0 b) (r : Int) : BU b0 (b.writeRune r) :=
  BU_append (BU_startWrite h).1 (BU_startWrite h).2 _

theorem BU_writeByte {b0 b : Buffer} (h : BU b0 b) (x : Byte) : BU b0 (b.writeByte x) := by
  unfold Buffer.writeByte
  have ⟨h1, o1⟩ := BU_startWrite h
  simp only
  split
  · exact BU_write h1 _
  · exact BU_append h1 o1 _

end Redact
