import RedactVerif.Model.Buffer
import RedactVerif.Proofs.Good
/-
The buffer invariant `Inv` and its preservation by every operation of
`internal/buffer/buffer.go` (as modelled in `Model/Buffer.lean`).
-/
namespace Redact

namespace Buffer
/-- The already validated prefix `b.buf[:validUntil]`. -/
def pre (b : Buffer) : List Byte := b.buf.take b.validUntil
/-- The pending, not yet escaped bytes `b.buf[validUntil:]`. -/
def suf (b : Buffer) : List Byte := b.buf.drop b.validUntil
end Buffer

structure Inv (b : Buffer) : Prop where
  le : b.validUntil ≤ b.buf.length
  good : goodT (tokenize b.pre) = true
  sc : scan (tokenize b.pre) = some b.markerOpen
  openMode : b.markerOpen = true → b.mode = .unsafeEsc
  closedEmpty : b.mode = .unsafeEsc → b.markerOpen = false → b.suf = []
  raw : b.mode = .raw → Obtainable b.suf

theorem obtainable_nil : Obtainable [] := by decide

theorem inv_init : Inv Buffer.init := by
  constructor <;> simp [Buffer.init, Buffer.pre, Buffer.suf, scan, scanFrom, goodT_nil]

theorem scanFrom_q (o : Bool) : scanFrom o [.b 0x3F] = some o := by
  cases o <;> simp [scanFrom, LF]

/-- Concatenation of obtainable fragments is obtainable. -/
theorem obtainable_append {a b : List Byte} (ha : Obtainable a) (hb : Obtainable b) : Obtainable (a ++ b) := by
  have hs := not_straddles_of_goodT a b ha.1
  rw [Obtainable, tokenize_append_of_not_straddles a b hs]
  exact ⟨goodT_append _ _ ha.1 hb.1, by rw [scan_append, ha.2]; exact hb.2⟩

/-- A state whose whole buffer is validated. -/
structure FullOK (b : Buffer) (o : Bool) : Prop where
  full : b.validUntil = b.buf.length
  good : goodT (tokenize b.buf) = true
  sc : scan (tokenize b.buf) = some o

theorem pre_of_full {b : Buffer} (h : b.validUntil = b.buf.length) : b.pre = b.buf := by
  simp [Buffer.pre, h]

theorem suf_of_full {b : Buffer} (h : b.validUntil = b.buf.length) : b.suf = [] := by
  simp [Buffer.suf, h]

theorem full_of_suf_nil {b : Buffer} (hle : b.validUntil ≤ b.buf.length) (h : b.suf = []) :
    b.validUntil = b.buf.length := by
  simp [Buffer.suf] at h
  omega

/-- (A) `escapeToEnd` in an escaping mode validates the whole buffer and keeps the envelope state. -/
theorem escapeToEnd_full (b : Buffer) (hi : Inv b) :
    let b' := b.escapeToEnd (b.mode = .unsafeEsc)
    FullOK b' b.markerOpen ∧ b'.mode = b.mode ∧ b'.markerOpen = b.markerOpen := by
  intro b'
  have hspec := escapeBytesAt_spec b.buf b.validUntil (decide (b.mode = .unsafeEsc)) hi.good
  simp only at hspec
  obtain ⟨htok, hgood⟩ := hspec
  refine ⟨⟨by simp [b', Buffer.escapeToEnd], by simpa [b', Buffer.escapeToEnd] using hgood, ?_⟩, by simp [b', Buffer.escapeToEnd], by simp [b', Buffer.escapeToEnd]⟩
  show scan (tokenize (escapeBytesAt b.buf b.validUntil (decide (b.mode = .unsafeEsc)) false)) = some b.markerOpen
  rw [htok]
  -- the scan state of the token-level result
  have hR : scan (escTok (decide (b.mode = .unsafeEsc)) (tokenize (b.buf.take b.validUntil)) (tokenize (b.buf.drop b.validUntil))) = some b.markerOpen := by
    by_cases hu : b.mode = .unsafeEsc
    · simp only [hu, decide_true]
      cases ho : b.markerOpen with
      | true => exact scan_escTok_open _ _ (by have := hi.sc; rw [ho] at this; exact this)
      | false =>
        have hs := hi.closedEmpty hu ho
        simp only [Buffer.suf] at hs
        rw [hs]
        simp only [tokenize_nil, escTok]
        have := hi.sc; rw [ho] at this; exact this
    · simp only [hu, decide_false]
      have ho : b.markerOpen = false := by
        cases h : b.markerOpen with
        | false => rfl
        | true => exact absurd (hi.openMode h) hu
      rw [ho]
      exact scan_escTok_closed _ _ (by have := hi.sc; rw [ho] at this; exact this)
  split
  · rw [scan_append, hR]; simp [scanFrom_q]
  · exact hR

theorem tokens_ne_nil_of_scan_true {t : List Tok} (h : scan t = some true) : t ≠ [] := by
  intro ht; subst ht; simp [scan, scanFrom] at h

/-- (B) closing the envelope of a fully validated buffer. -/
theorem endRedactable_full (b : Buffer) (h : FullOK b true) :
    let b' := b.endRedactable
    goodT (tokenize b'.buf) = true ∧ scan (tokenize b'.buf) = some false ∧ b'.markerOpen = false ∧ b'.mode = b.mode := by
  intro b'
  have hne : b.buf ≠ [] := by
    intro hb
    have := tokens_ne_nil_of_scan_true h.sc
    rw [hb] at this; simp at this
  have hemp : b.buf.isEmpty = false := by simpa using hne
  by_cases hs : hasSuffix b.buf startB = true
  · have hs' : startB <:+ b.buf := (hasSuffix_iff _ _).1 hs
    have hl := (getLast_tokenize_start b.buf).2 hs'
    have hb' : b' = { b with buf := dropLast 3 b.buf, markerOpen := false } := by
      simp [b', Buffer.endRedactable, hemp, hs]
    rw [hb']
    simp only
    rw [tokenize_dropLast_start _ hs']
    refine ⟨goodT_dropLast_of_marker hl rfl h.good, ?_, by trivial, by trivial⟩
    have := eq_dropLast_append_of_getLast hl
    exact scan_of_snoc_s (by rw [← this]; exact h.sc)
  · have hs2 : hasSuffix b.buf startB = false := by simpa using hs
    have hb' : b' = { b with buf := b.buf ++ endB, markerOpen := false } := by
      simp [b', Buffer.endRedactable, hemp, hs2]
    rw [hb']
    simp only
    rw [tokenize_append_endB]
    refine ⟨by rw [goodT_snoc_e]; exact h.good, ?_, by trivial, by trivial⟩
    rw [scan_append, h.sc]; simp [scanFrom]

/-- (C) opening an envelope at the end of a fully validated buffer. -/
theorem startRedactable_full (b : Buffer) (h : FullOK b false) :
    let b' := b.startRedactable
    goodT (tokenize b'.buf) = true ∧ scan (tokenize b'.buf) = some true ∧ b'.markerOpen = true ∧ b'.mode = b.mode := by
  intro b'
  by_cases hs : hasSuffix b.buf endB = true
  · have hs' : endB <:+ b.buf := (hasSuffix_iff _ _).1 hs
    have hl := (getLast_tokenize_end b.buf).2 hs'
    have hb' : b' = { b with buf := dropLast 3 b.buf, markerOpen := true } := by
      simp [b', Buffer.startRedactable, hs]
    rw [hb']
    simp only
    rw [tokenize_dropLast_end _ hs']
    refine ⟨goodT_dropLast_of_marker hl rfl h.good, ?_, by trivial, by trivial⟩
    have := eq_dropLast_append_of_getLast hl
    exact scan_of_snoc_e (by rw [← this]; exact h.sc)
  · have hs2 : hasSuffix b.buf endB = false := by simpa using hs
    have hb' : b' = { b with buf := b.buf ++ startB, markerOpen := true } := by
      simp [b', Buffer.startRedactable, hs2]
    rw [hb']
    simp only
    rw [tokenize_append_startB]
    refine ⟨by rw [goodT_snoc_s]; exact h.good, ?_, by trivial, by trivial⟩
    rw [scan_append, h.sc]; simp [scanFrom]

/-- A fully validated closed buffer satisfies the invariant in any mode. -/
theorem inv_of_full_closed (b : Buffer) (h : FullOK b false) (ho : b.markerOpen = false) : Inv b := by
  refine ⟨by rw [h.full]; exact Nat.le_refl _, by rw [pre_of_full h.full]; exact h.good,
    by rw [pre_of_full h.full, ho]; exact h.sc, by simp [ho], fun _ _ => suf_of_full h.full,
    fun _ => by rw [suf_of_full h.full]; exact obtainable_nil⟩

/-- Leaving raw mode (or finalising in it): the pending fragments join the validated prefix. -/
theorem full_of_raw (b : Buffer) (hi : Inv b) (hm : b.mode = .raw) :
    FullOK { b with validUntil := b.buf.length } false ∧ b.markerOpen = false := by
  have ho : b.markerOpen = false := by
    cases h : b.markerOpen with
    | false => rfl
    | true => have := hi.openMode h; rw [hm] at this; cases this
  have hob := hi.raw hm
  have hsplit : b.buf = b.pre ++ b.suf := by simp [Buffer.pre, Buffer.suf]
  have hs := not_straddles_of_goodT b.pre b.suf hi.good
  have htok : tokenize b.buf = tokenize b.pre ++ tokenize b.suf := by
    rw [hsplit]; exact tokenize_append_of_not_straddles _ _ hs
  refine ⟨⟨rfl, ?_, ?_⟩, ho⟩
  · show goodT (tokenize b.buf) = true
    rw [htok]; exact goodT_append _ _ hi.good hob.1
  · show scan (tokenize b.buf) = some false
    rw [htok, scan_append, hi.sc, ho]; exact hob.2

theorem escapeToEnd_markerOpen (b : Buffer) (nl : Bool) : (b.escapeToEnd nl).markerOpen = b.markerOpen := rfl
theorem escapeToEnd_mode (b : Buffer) (nl : Bool) : (b.escapeToEnd nl).mode = b.mode := rfl

theorem finalize_raw (b : Buffer) (hm : b.mode = .raw) (ho : b.markerOpen = false) :
    b.finalize = { b with validUntil := b.buf.length } := by
  simp [Buffer.finalize, hm, ho]

theorem finalize_esc_closed (b : Buffer) (hm : b.mode ≠ .raw) (ho : b.markerOpen = false) :
    b.finalize = b.escapeToEnd (decide (b.mode = .unsafeEsc)) := by
  simp [Buffer.finalize, hm, escapeToEnd_markerOpen, ho]

theorem finalize_esc_open (b : Buffer) (hm : b.mode ≠ .raw) (ho : b.markerOpen = true) :
    b.finalize = { (b.escapeToEnd (decide (b.mode = .unsafeEsc))).endRedactable with
      validUntil := (b.escapeToEnd (decide (b.mode = .unsafeEsc))).endRedactable.buf.length } := by
  simp [Buffer.finalize, hm, escapeToEnd_markerOpen, ho]

/-- `finalize`: the result is fully validated, closed, and its bytes are an obtainable redactable. -/
theorem finalize_full (b : Buffer) (hi : Inv b) :
    FullOK b.finalize false ∧ b.finalize.markerOpen = false ∧ b.finalize.mode = b.mode := by
  by_cases hm : b.mode = .raw
  · have ⟨hf, ho⟩ := full_of_raw b hi hm
    rw [finalize_raw b hm ho]
    exact ⟨hf, ho, rfl⟩
  · have ⟨hf, hmode, hopen⟩ := escapeToEnd_full b hi
    cases ho : b.markerOpen with
    | false =>
      rw [finalize_esc_closed b hm ho]
      rw [ho] at hf hopen
      exact ⟨hf, hopen, hmode⟩
    | true =>
      rw [finalize_esc_open b hm ho]
      rw [ho] at hf
      have ⟨hg, hs, hmo, hmd⟩ := endRedactable_full _ hf
      exact ⟨⟨rfl, hg, hs⟩, hmo, by show (Buffer.endRedactable _).mode = b.mode; rw [hmd, hmode]⟩

theorem inv_finalize (b : Buffer) (hi : Inv b) : Inv b.finalize := by
  have ⟨hf, ho, _⟩ := finalize_full b hi
  exact inv_of_full_closed _ hf ho

/-- Every string handed out by the buffer is an obtainable redactable. -/
theorem obtainable_finalize (b : Buffer) (hi : Inv b) : Obtainable b.finalize.buf :=
  let ⟨hf, _, _⟩ := finalize_full b hi
  ⟨hf.good, hf.sc⟩

theorem setMode_same (b : Buffer) (m : Mode) (h : b.mode = m) : b.setMode m = b := by
  simp [Buffer.setMode, h]

theorem setMode_raw (b : Buffer) (m : Mode) (hne : b.mode ≠ m) (hm : b.mode = .raw) (ho : b.markerOpen = false) :
    b.setMode m = { b with validUntil := b.buf.length, mode := m } := by
  have : ¬ (Mode.raw = m) := by rw [← hm]; exact hne
  simp [Buffer.setMode, hm, ho, this]

theorem setMode_esc_closed (b : Buffer) (m : Mode) (hne : b.mode ≠ m) (hm : b.mode ≠ .raw) (ho : b.markerOpen = false) :
    b.setMode m = { b.escapeToEnd (decide (b.mode = .unsafeEsc)) with
      validUntil := (b.escapeToEnd (decide (b.mode = .unsafeEsc))).buf.length, mode := m } := by
  have hesc : b.mode = .unsafeEsc ∨ b.mode = .safeEsc := by
    cases hmm : b.mode <;> simp_all
  simp [Buffer.setMode, hne, hesc, escapeToEnd_markerOpen, ho]

theorem setMode_esc_open (b : Buffer) (m : Mode) (hne : b.mode ≠ m) (hm : b.mode ≠ .raw) (ho : b.markerOpen = true) :
    b.setMode m = { (b.escapeToEnd (decide (b.mode = .unsafeEsc))).endRedactable with
      validUntil := (b.escapeToEnd (decide (b.mode = .unsafeEsc))).endRedactable.buf.length, mode := m } := by
  have hesc : b.mode = .unsafeEsc ∨ b.mode = .safeEsc := by
    cases hmm : b.mode <;> simp_all
  simp [Buffer.setMode, hne, hesc, escapeToEnd_markerOpen, ho]

theorem inv_setMode (b : Buffer) (m : Mode) (hi : Inv b) : Inv (b.setMode m) := by
  by_cases hsame : b.mode = m
  · rw [setMode_same b m hsame]; exact hi
  · by_cases hm : b.mode = .raw
    · have ⟨hf, ho⟩ := full_of_raw b hi hm
      rw [setMode_raw b m hsame hm ho]
      exact inv_of_full_closed _ ⟨rfl, hf.good, hf.sc⟩ ho
    · have ⟨hf, hmode, hopen⟩ := escapeToEnd_full b hi
      cases ho : b.markerOpen with
      | false =>
        rw [setMode_esc_closed b m hsame hm ho]
        rw [ho] at hf hopen
        exact inv_of_full_closed _ ⟨rfl, hf.good, hf.sc⟩ hopen
      | true =>
        rw [setMode_esc_open b m hsame hm ho]
        rw [ho] at hf
        have ⟨hg, hs, hmo, _⟩ := endRedactable_full _ hf
        exact inv_of_full_closed _ ⟨rfl, hg, hs⟩ hmo

theorem startWrite_open (b : Buffer) (hc : b.mode = .unsafeEsc ∧ b.markerOpen = false) :
    b.startWrite = { b.startRedactable with validUntil := b.startRedactable.buf.length } := by
  simp [Buffer.startWrite, hc]

theorem startWrite_noop (b : Buffer) (hc : ¬ (b.mode = .unsafeEsc ∧ b.markerOpen = false)) :
    b.startWrite = b := by
  simp only [Buffer.startWrite, hc, if_false]

/-- `startWrite` opens an envelope when needed; afterwards pending bytes may be appended. -/
theorem inv_startWrite (b : Buffer) (hi : Inv b) :
    Inv b.startWrite ∧ b.startWrite.mode = b.mode ∧ ¬ (b.startWrite.mode = .unsafeEsc ∧ b.startWrite.markerOpen = false)
      ∧ (b.mode = .raw → b.startWrite = b) := by
  by_cases hc : b.mode = .unsafeEsc ∧ b.markerOpen = false
  · rw [startWrite_open b hc]
    have hfull := full_of_suf_nil hi.le (hi.closedEmpty hc.1 hc.2)
    have hF : FullOK b false := ⟨hfull, by have := hi.good; rwa [pre_of_full hfull] at this,
      by have := hi.sc; rwa [pre_of_full hfull, hc.2] at this⟩
    have ⟨hg, hs, hmo, hmd⟩ := startRedactable_full b hF
    refine ⟨?_, hmd, ?_, ?_⟩
    · refine ⟨Nat.le_refl _, ?_, ?_, fun _ => by show b.startRedactable.mode = _; rw [hmd]; exact hc.1,
        fun _ h => ?_, fun h => ?_⟩
      · show goodT (tokenize (List.take b.startRedactable.buf.length b.startRedactable.buf)) = true
        simpa using hg
      · show scan (tokenize (List.take b.startRedactable.buf.length b.startRedactable.buf)) = some b.startRedactable.markerOpen
        rw [hmo]; simpa using hs
      · have : b.startRedactable.markerOpen = false := h
        rw [hmo] at this; cases this
      · have : b.startRedactable.mode = .raw := h
        rw [hmd, hc.1] at this; cases this
    · intro h
      have : b.startRedactable.markerOpen = false := h.2
      rw [hmo] at this; cases this
    · intro h; rw [hc.1] at h; cases h
  · rw [startWrite_noop b hc]
    exact ⟨hi, rfl, hc, fun _ => rfl⟩

/-- Appending pending bytes. In raw mode they must be an obtainable fragment. -/
theorem inv_append (b : Buffer) (p : List Byte) (hi : Inv b)
    (hc : ¬ (b.mode = .unsafeEsc ∧ b.markerOpen = false))
    (hr : b.mode = .raw → Obtainable p) : Inv (b.append p) := by
  have hpre : (b.append p).pre = b.pre := by
    simp [Buffer.append, Buffer.pre, List.take_append_of_le_length hi.le]
  have hsuf : (b.append p).suf = b.suf ++ p := by
    simp [Buffer.append, Buffer.suf, List.drop_append_of_le_length hi.le]
  refine ⟨by simp [Buffer.append]; have := hi.le; omega, by rw [hpre]; exact hi.good,
    by rw [hpre]; exact hi.sc, hi.openMode, fun h1 h2 => absurd ⟨h1, h2⟩ hc, fun h => ?_⟩
  rw [hsuf]
  exact obtainable_append (hi.raw h) (hr h)

theorem inv_write (b : Buffer) (p : List Byte) (hi : Inv b) (hr : b.mode = .raw → Obtainable p) :
    Inv (b.write p) := by
  have ⟨h1, hm, hc, _⟩ := inv_startWrite b hi
  exact inv_append _ p h1 hc (fun h => hr (hm ▸ h))

theorem inv_writeRune (b : Buffer) (r : Int) (hi : Inv b) (hr : b.mode = .raw → Obtainable (encodeRune r)) :
    Inv (b.writeRune r) := inv_write b _ hi hr

theorem inv_writeByte (b : Buffer) (x : Byte) (hi : Inv b) (hr : b.mode = .raw → Obtainable [x]) :
    Inv (b.writeByte x) := by
  unfold Buffer.writeByte
  have ⟨h1, hm, hc, _⟩ := inv_startWrite b hi
  simp only
  split
  · rename_i hcond
    exact inv_write _ _ h1 (fun h => by rw [hcond.1] at h; cases h)
  · exact inv_append _ _ h1 hc (fun h => hr (hm ▸ h))

theorem inv_take (b : Buffer) (hi : Inv b) : Inv b.take.2 := by
  have ⟨_, ho, _⟩ := finalize_full b hi
  simp only [Buffer.take]
  rw [ho]
  exact inv_init

theorem setMode_mode (b : Buffer) (m : Mode) : (b.setMode m).mode = m := by
  by_cases h : b.mode = m
  · rw [setMode_same b m h]; exact h
  · unfold Buffer.setMode; simp [h]

theorem inv_write_nr (b : Buffer) (p : List Byte) (hi : Inv b) (hm : b.mode ≠ .raw) : Inv (b.write p) :=
  inv_write b p hi (fun h => absurd h hm)
theorem inv_writeByte_nr (b : Buffer) (x : Byte) (hi : Inv b) (hm : b.mode ≠ .raw) : Inv (b.writeByte x) :=
  inv_writeByte b x hi (fun h => absurd h hm)
theorem inv_writeRune_nr (b : Buffer) (r : Int) (hi : Inv b) (hm : b.mode ≠ .raw) : Inv (b.writeRune r) :=
  inv_writeRune b r hi (fun h => absurd h hm)

theorem write_mode (b : Buffer) (p : List Byte) : (b.write p).mode = b.mode := by
  unfold Buffer.write Buffer.append Buffer.startWrite
  split
  · simp only [Buffer.startRedactable]; split <;> rfl
  · rfl

theorem writeRune_mode (b : Buffer) (r : Int) : (b.writeRune r).mode = b.mode := write_mode b _

theorem writeByte_mode (b : Buffer) (x : Byte) : (b.writeByte x).mode = b.mode := by
  have hs : b.startWrite.mode = b.mode := by
    unfold Buffer.startWrite
    split
    · simp only [Buffer.startRedactable]; split <;> rfl
    · rfl
  unfold Buffer.writeByte
  simp only
  split
  · rw [write_mode, hs]
  · simp [Buffer.append, hs]

end Redact
