import RedactVerif.Proofs.PrinterInv
import RedactVerif.Proofs.NI
/-
Non-interference for the whole printer model (C02, printer level): two runs of
any function of `Model/Printer.lean` on the same format and the same value
tree, under two rendering oracles that agree on every leaf declared public and
give same-shape renderings for every other leaf, end in buffers a low observer
cannot tell apart (`BRel`), with all other printer state equal.

The proof mirrors the frame theorem (`spec_all`): induction on the fuel, one
relational step lemma per function.
-/
namespace Redact

/-! ### Which leaves must be public -/

section Sec
variable (pub : Nat → Prop)

mutual
/-- Every leaf rendering reachable in the value is public. -/
def AllPubV : Val → Prop
  | .nil => True
  | .leaf id _ _ _ _ _ => pub id
  | .safeW v => AllPubV v
  | .unsafeW v => AllPubV v
  | .redactable _ _ => True
  | .meth _ _ _ _ _ ret sc under => pub ret ∧ AllPubS sc ∧ AllPubV under
  | .slice _ _ _ es => AllPubVs es
  | .map _ _ _ _ ks vs => AllPubVs ks ∧ AllPubVs vs
  | .struct _ _ fs => AllPubFs fs
  | .ptrTo _ v => AllPubV v
def AllPubVs : Vals → Prop
  | .nil => True
  | .cons v r => AllPubV v ∧ AllPubVs r
def AllPubFs : Fields → Prop
  | .nil => True
  | .cons _ _ _ v r => AllPubV v ∧ AllPubFs r
def AllPubS : Script → Prop
  | .done => True
  | .safeString _ k => AllPubS k
  | .unsafeString _ k => AllPubS k
  | .safeRune _ k => AllPubS k
  | .write _ k => AllPubS k
  | .unsafeLeaf id k => pub id ∧ AllPubS k
  | .print args k => AllPubVs args ∧ AllPubS k
  | .printf _ args k => AllPubVs args ∧ AllPubS k
  | .indep k => AllPubS k
  | .panic payload => AllPubV payload
end

mutual
/-- What is declared safe is public: leaves of `SafeValue`/registered types, everything
inside `Safe(…)`, inside values of registered or `SafeValue` types, and the text a
`SafeMessager` returns (also underneath an `Unsafe(…)` wrapper: a declaration of safety
does not depend on where the value is printed). Nothing else is constrained. -/
def SecV : Val → Prop
  | .nil => True
  | .leaf id _ _ _ sv reg => (sv = true ∨ reg = true) → pub id
  | .safeW v => AllPubV pub v
  | .unsafeW v => SecV v
  | .redactable _ _ => True
  | .meth ms _ sv reg _ ret sc under =>
    ((sv = true ∨ reg = true) → pub ret ∧ AllPubS pub sc ∧ AllPubV pub under) ∧
    (ms.safeMessager = true → pub ret) ∧ SecS sc ∧ SecV under
  | .slice _ _ _ es => SecVs es
  | .map _ _ _ _ ks vs => SecVs ks ∧ SecVs vs
  | .struct _ reg fs => (reg = true → AllPubFs pub fs) ∧ SecFs fs
  | .ptrTo _ v => SecV v
def SecVs : Vals → Prop
  | .nil => True
  | .cons v r => SecV v ∧ SecVs r
def SecFs : Fields → Prop
  | .nil => True
  | .cons _ _ _ v r => SecV v ∧ SecFs r
def SecS : Script → Prop
  | .done => True
  | .safeString _ k => SecS k
  | .unsafeString _ k => SecS k
  | .safeRune _ k => SecS k
  | .write _ k => SecS k
  | .unsafeLeaf _ k => SecS k
  | .print args k => SecVs args ∧ SecS k
  | .printf _ args k => SecVs args ∧ SecS k
  | .indep k => SecS k
  | .panic payload => SecV payload
end

/-- The requirement on a value printed under override `ov`. -/
def SecAt (ov : Override) (v : Val) : Prop :=
  match ov with
  | .ovSafe => AllPubV pub v
  | .no => SecV pub v
  | .ovUnsafe => SecV pub v

def SecAtS (ov : Override) (sc : Script) : Prop :=
  match ov with
  | .ovSafe => AllPubS pub sc
  | .no => SecS pub sc
  | .ovUnsafe => SecS pub sc

def SecAtVs (ov : Override) (vs : Vals) : Prop :=
  match ov with
  | .ovSafe => AllPubVs pub vs
  | .no => SecVs pub vs
  | .ovUnsafe => SecVs pub vs

def SecAtFs (ov : Override) (fs : Fields) : Prop :=
  match ov with
  | .ovSafe => AllPubFs pub fs
  | .no => SecFs pub fs
  | .ovUnsafe => SecFs pub fs

def SecAtL (ov : Override) (l : List Val) : Prop := ∀ v ∈ l, SecAt pub ov v

end Sec

/-- The two rendering oracles: public leaves render identically, the others with the same shape. -/
def RenderRel (pub : Nat → Prop) (r1 r2 : Nat → List Byte → Option (List Byte)) : Prop :=
  ∀ id d, match r1 id d, r2 id d with
    | none, none => True
    | some a, some b => canonB a = canonB b ∧ (pub id → a = b)
    | _, _ => False

/-- The error hook treats its operand's text as unsafe. -/
def HookSec (pub : Nat → Prop) (h : Option (Nat → Nat → Script)) : Prop :=
  ∀ f, h = some f → ∀ ret verb, SecS pub (f ret verb) ∧ (pub ret → AllPubS pub (f ret verb))


mutual
theorem sec_of_allPubV (pub : Nat → Prop) : (v : Val) → AllPubV pub v → SecV pub v
  | .nil, _ => trivial
  | .leaf _ _ _ _ _ _, h => fun _ => h
  | .safeW _, h => h
  | .unsafeW v, h => sec_of_allPubV pub v h
  | .redactable _ _, _ => trivial
  | .meth _ _ _ _ _ _ sc under, h =>
    ⟨fun _ => h, fun _ => h.1, secS_of_allPubS pub sc h.2.1, sec_of_allPubV pub under h.2.2⟩
  | .slice _ _ _ es, h => sec_of_allPubVs pub es h
  | .map _ _ _ _ ks vs, h => ⟨sec_of_allPubVs pub ks h.1, sec_of_allPubVs pub vs h.2⟩
  | .struct _ _ fs, h => ⟨fun _ => h, sec_of_allPubFs pub fs h⟩
  | .ptrTo _ v, h => sec_of_allPubV pub v h
theorem sec_of_allPubVs (pub : Nat → Prop) : (vs : Vals) → AllPubVs pub vs → SecVs pub vs
  | .nil, _ => trivial
  | .cons v r, h => ⟨sec_of_allPubV pub v h.1, sec_of_allPubVs pub r h.2⟩
theorem sec_of_allPubFs (pub : Nat → Prop) : (fs : Fields) → AllPubFs pub fs → SecFs pub fs
  | .nil, _ => trivial
  | .cons _ _ _ v r, h => ⟨sec_of_allPubV pub v h.1, sec_of_allPubFs pub r h.2⟩
theorem secS_of_allPubS (pub : Nat → Prop) : (sc : Script) → AllPubS pub sc → SecS pub sc
  | .done, _ => trivial
  | .safeString _ k, h => secS_of_allPubS pub k h
  | .unsafeString _ k, h => secS_of_allPubS pub k h
  | .safeRune _ k, h => secS_of_allPubS pub k h
  | .write _ k, h => secS_of_allPubS pub k h
  | .unsafeLeaf _ k, h => secS_of_allPubS pub k h.2
  | .print args k, h => ⟨sec_of_allPubVs pub args h.1, secS_of_allPubS pub k h.2⟩
  | .printf _ args k, h => ⟨sec_of_allPubVs pub args h.1, secS_of_allPubS pub k h.2⟩
  | .indep k, h => secS_of_allPubS pub k h
  | .panic payload, h => sec_of_allPubV pub payload h
end


/-! ### Related printer states and results -/

/-- Two printer states that differ at most in what a low observer cannot see of the buffer. -/
structure PRel (p1 p2 : PP) : Prop where
  b : BRel p1.buf p2.buf
  nr : p1.buf.mode ≠ .raw
  ov : p2.override = p1.override
  f : p2.f = p1.f
  er : p2.erroring = p1.erroring
  pa : p2.panicking = p1.panicking
  we : p2.wrapErrs = p1.wrapErrs
  wd : p2.wrappedErr = p1.wrappedErr
  ro : p2.reordered = p1.reordered
  ga : p2.goodArgNum = p1.goodArgNum

/-- Related results; on success the override is the one the call started with (`ov0`); when a
panic propagates, the buffers it carries are related and the payload is the same value. -/
def RR (pub : Nat → Prop) (ov0 : Override) (r1 r2 : Res) : Prop :=
  match r1, r2 with
  | .ok q1, .ok q2 => PRel q1 q2 ∧ q1.override = ov0
  | .panic b1 pl1, .panic b2 pl2 => BRel b1 b2 ∧ pl2 = pl1 ∧ ValOk pl1 ∧ SecAt pub ov0 pl1
  | .fuel, .fuel => True
  | .unsupported, .unsupported => True
  | _, _ => False

variable {pub : Nat → Prop}

theorem PRel.mode2 {p1 p2 : PP} (h : PRel p1 p2) : p2.buf.mode = p1.buf.mode := h.b.mode.symm

theorem RR_ok {ov0 : Override} {q1 q2 : PP} (h : PRel q1 q2) (ho : q1.override = ov0) : RR pub ov0 (.ok q1) (.ok q2) := ⟨h, ho⟩
theorem RR_fuel (ov0 : Override) : RR pub ov0 .fuel .fuel := trivial
theorem RR_panic {ov0 : Override} {b1 b2 : Buffer} {pl : Val} (hb : BRel b1 b2) (hv : ValOk pl) (hs : SecAt pub ov0 pl) :
    RR pub ov0 (.panic b1 pl) (.panic b2 pl) := ⟨hb, rfl, hv, hs⟩
theorem RR_unsupported (ov0 : Override) : RR pub ov0 .unsupported .unsupported := trivial

theorem RR_bind {ov0 : Override} {r1 r2 : Res} {f1 f2 : PP → Res} (h : RR pub ov0 r1 r2)
    (hf : ∀ q1 q2, PRel q1 q2 → q1.override = ov0 → RR pub ov0 (f1 q1) (f2 q2)) : RR pub ov0 (r1.bind f1) (r2.bind f2) := by
  cases r1 <;> cases r2 <;> simp only [RR] at h <;> try (exact h.elim)
  · exact hf _ _ h.1 h.2
  all_goals trivial

theorem P_w {p1 p2 : PP} (h : PRel p1 p2) (s : List Byte) : PRel (p1.w s) (p2.w s) :=
  ⟨write_rel_same _ _ s h.b h.nr, by show (p1.buf.write s).mode ≠ _; rw [write_mode]; exact h.nr,
    h.ov, h.f, h.er, h.pa, h.we, h.wd, h.ro, h.ga⟩
theorem P_wb {p1 p2 : PP} (h : PRel p1 p2) (c : Byte) : PRel (p1.wb c) (p2.wb c) :=
  ⟨writeByte_rel_same _ _ c h.b h.nr, by show (p1.buf.writeByte c).mode ≠ _; rw [writeByte_mode]; exact h.nr,
    h.ov, h.f, h.er, h.pa, h.we, h.wd, h.ro, h.ga⟩
theorem P_wr {p1 p2 : PP} (h : PRel p1 p2) (r : Int) : PRel (p1.wr r) (p2.wr r) :=
  ⟨writeRune_rel_same _ _ r h.b h.nr, by show (p1.buf.writeRune r).mode ≠ _; rw [writeRune_mode]; exact h.nr,
    h.ov, h.f, h.er, h.pa, h.we, h.wd, h.ro, h.ga⟩

theorem P_ite {c : Prop} [Decidable c] {a1 b1 a2 b2 : PP} (ha : PRel a1 a2) (hb : PRel b1 b2) :
    PRel (if c then a1 else b1) (if c then a2 else b2) := by
  split <;> assumption

theorem RR_ite {ov0 : Override} {c : Prop} [Decidable c] {a1 b1 a2 b2 : Res} (ha : RR pub ov0 a1 a2) (hb : RR pub ov0 b1 b2) :
    RR pub ov0 (if c then a1 else b1) (if c then a2 else b2) := by
  split <;> assumption

/-- Mode switch of both runs (to an escaping mode). -/
theorem P_setMode {p1 p2 : PP} (h : PRel p1 p2) (m : Mode) (hm : m ≠ .raw) :
    PRel { p1 with buf := p1.buf.setMode m } { p2 with buf := p2.buf.setMode m } :=
  ⟨setMode_rel _ _ m h.b, by show (p1.buf.setMode m).mode ≠ _; rw [setMode_mode]; exact hm,
    h.ov, h.f, h.er, h.pa, h.we, h.wd, h.ro, h.ga⟩

/-! ### Brackets -/

/-- A `start…` function of the printer: what it does to a related pair. -/
structure StartOk (start : PP → PP × PP.Restorer) : Prop where
  rel : ∀ p1 p2, PRel p1 p2 → PRel (start p1).1 (start p2).1
  rest1 : ∀ p, (start p).2 = ⟨p.buf.mode, p.override⟩
  /-- what is public enough inside the bracket is public enough outside it -/
  mono : ∀ (pub : Nat → Prop) p v, SecAt pub (start p).1.override v → SecAt pub p.override v

theorem RR_bracket {ov0 : Override} (start : PP → PP × PP.Restorer) (hs : StartOk start)
    {p1 p2 : PP} (h : PRel p1 p2) (ho : p1.override = ov0) (body1 body2 : PP → Res)
    (hb : RR pub (start p1).1.override (body1 (start p1).1) (body2 (start p2).1)) :
    RR pub ov0 (bracket start p1 body1) (bracket start p2 body2) := by
  unfold bracket
  have e1 := hs.rest1 p1
  have e2 := hs.rest1 p2
  have hm := hs.mono pub p1
  generalize start p1 = sp1 at hb e1 hm
  generalize start p2 = sp2 at hb e2
  obtain ⟨q1, r1⟩ := sp1
  obtain ⟨q2, r2⟩ := sp2
  simp only at hb e1 e2 ⊢
  subst e1 e2
  cases hr1 : body1 q1 <;> cases hr2 : body2 q2 <;> rw [hr1, hr2] at hb <;> simp only [RR] at hb <;> try (exact hb.elim)
  · rename_i x1 x2
    simp only [Res.bind, RR, PP.restore]
    refine ⟨⟨?_, ?_, h.ov, hb.1.f, hb.1.er, hb.1.pa, hb.1.we, hb.1.wd, hb.1.ro, hb.1.ga⟩, ho⟩
    · show BRel (x1.buf.setMode p1.buf.mode) (x2.buf.setMode p2.buf.mode)
      rw [h.mode2]; exact setMode_rel _ _ _ hb.1.b
    · show (x1.buf.setMode p1.buf.mode).mode ≠ _
      rw [setMode_mode]; exact h.nr
  · rename_i b1 pl1 b2 pl2
    obtain ⟨hbr, rfl, hv, hsec⟩ := hb
    exact RR_panic (by rw [h.mode2]; exact setMode_rel _ _ _ hbr) hv (ho ▸ hm _ hsec)
  all_goals trivial

theorem secAt_mono_safe (pub : Nat → Prop) (ov : Override) (v : Val)
    (h : SecAt pub (if ov = .no then .ovSafe else ov) v) : SecAt pub ov v := by
  cases ov
  · exact sec_of_allPubV pub v h
  · exact h
  · exact h

theorem secAt_mono_unsafe (pub : Nat → Prop) (ov : Override) (v : Val)
    (h : SecAt pub (if ov = .no then .ovUnsafe else ov) v) : SecAt pub ov v := by
  cases ov <;> exact h

theorem startOk_safeOverride : StartOk PP.startSafeOverride := by
  refine ⟨fun p1 p2 h => ?_, fun p => rfl, fun pub p v hv => ?_⟩
  rotate_left
  · apply secAt_mono_safe
    have : p.startSafeOverride.1.override = (if p.override = .no then .ovSafe else p.override) := by
      unfold PP.startSafeOverride; split <;> simp_all
    rw [← this]; exact hv
  unfold PP.startSafeOverride
  by_cases hc : p1.override = .no
  · have hc2 : p2.override = .no := by rw [h.ov]; exact hc
    rw [if_pos hc, if_pos hc2]
    exact ⟨setMode_rel _ _ _ h.b, by show (p1.buf.setMode _).mode ≠ _; rw [setMode_mode]; decide,
      rfl, h.f, h.er, h.pa, h.we, h.wd, h.ro, h.ga⟩
  · have hc2 : ¬ p2.override = .no := by rw [h.ov]; exact hc
    rw [if_neg hc, if_neg hc2]; exact h

theorem startOk_unsafeOverride : StartOk PP.startUnsafeOverride := by
  refine ⟨fun p1 p2 h => ?_, fun p => rfl, fun pub p v hv => ?_⟩
  rotate_left
  · apply secAt_mono_unsafe
    have : p.startUnsafeOverride.1.override = (if p.override = .no then .ovUnsafe else p.override) := by
      unfold PP.startUnsafeOverride; split <;> simp_all
    rw [← this]; exact hv
  unfold PP.startUnsafeOverride
  by_cases hc : p1.override = .no
  · have hc2 : p2.override = .no := by rw [h.ov]; exact hc
    rw [if_pos hc, if_pos hc2]
    exact ⟨setMode_rel _ _ _ h.b, by show (p1.buf.setMode _).mode ≠ _; rw [setMode_mode]; decide,
      rfl, h.f, h.er, h.pa, h.we, h.wd, h.ro, h.ga⟩
  · have hc2 : ¬ p2.override = .no := by rw [h.ov]; exact hc
    rw [if_neg hc, if_neg hc2]; exact h

theorem startOk_unsafe : StartOk PP.startUnsafe := by
  refine ⟨fun p1 p2 h => ?_, fun p => rfl, fun pub p v hv => ?_⟩
  rotate_left
  · have : p.startUnsafe.1.override = p.override := by unfold PP.startUnsafe; split <;> rfl
    rw [← this]; exact hv
  unfold PP.startUnsafe
  by_cases hc : p1.override ≠ .ovSafe
  · have hc2 : p2.override ≠ .ovSafe := by rw [h.ov]; exact hc
    rw [if_pos hc, if_pos hc2]
    exact P_setMode h .unsafeEsc (by decide)
  · have hc2 : ¬ p2.override ≠ .ovSafe := by rw [h.ov]; exact hc
    rw [if_neg hc, if_neg hc2]; exact h

theorem start_safeOverride_ov (p : PP) :
    p.startSafeOverride.1.override = (if p.override = .no then .ovSafe else p.override) := by
  unfold PP.startSafeOverride; split <;> simp_all

theorem start_unsafeOverride_ov (p : PP) :
    p.startUnsafeOverride.1.override = (if p.override = .no then .ovUnsafe else p.override) := by
  unfold PP.startUnsafeOverride; split <;> simp_all

theorem start_unsafe_ov (p : PP) : p.startUnsafe.1.override = p.override := by
  unfold PP.startUnsafe; split <;> rfl


/-! ### Leaves -/

structure EnvRel (pub : Nat → Prop) (env1 env2 : Env) : Prop where
  hook : env2.hook = env1.hook
  render : RenderRel pub env1.render env2.render
  hsec : HookSec pub env1.hook
  hok : EnvOk env1

theorem P_w2 {p1 p2 : PP} (h : PRel p1 p2) (a b : List Byte)
    (hab : if p1.buf.mode = .unsafeEsc then canonB a = canonB b else a = b) : PRel (p1.w a) (p2.w b) := by
  refine ⟨write_rel _ _ _ _ h.b ?_ (fun hh => absurd hh h.nr) (fun hh => absurd hh h.nr),
    by show (p1.buf.write a).mode ≠ _; rw [write_mode]; exact h.nr,
    h.ov, h.f, h.er, h.pa, h.we, h.wd, h.ro, h.ga⟩
  unfold PendRel
  split
  · rename_i hu; rw [if_pos hu] at hab; exact hab
  · rename_i hu; rw [if_neg hu] at hab; rw [if_neg h.nr]; exact hab

/-- One oracle-rendered write: unsafe unless an enclosing `Safe` override is active, in which
case the leaf must be public. -/
theorem RR_unsafeWrite {pub : Nat → Prop} {ov0 : Override} {p1 p2 : PP} (h : PRel p1 p2) (ho : p1.override = ov0)
    (a b : List Byte) (hab : canonB a = canonB b) (hpub : ov0 = .ovSafe → a = b) :
    RR pub ov0 (bracket PP.startUnsafe p1 fun q => .ok (q.w a)) (bracket PP.startUnsafe p2 fun q => .ok (q.w b)) := by
  have _ := pub
  apply RR_bracket _ startOk_unsafe h ho
  have hs := startOk_unsafe.rel p1 p2 h
  refine ⟨P_w2 hs a b ?_, rfl⟩
  by_cases hc : p1.override ≠ .ovSafe
  · have : p1.startUnsafe.1.buf.mode = .unsafeEsc := by
      unfold PP.startUnsafe; rw [if_pos hc]; exact setMode_mode _ _
    rw [if_pos this]; exact hab
  · have hc' : p1.override = .ovSafe := by simpa using hc
    rw [hpub (ho ▸ hc')]
    split <;> rfl

theorem RR_leafWrite1 {pub : Nat → Prop} {env1 env2 : Env} (he : EnvRel pub env1 env2) {ov0 : Override}
    {p1 p2 : PP} (h : PRel p1 p2) (ho : p1.override = ov0) (id verb : Nat) (hpub : ov0 = .ovSafe → pub id) :
    RR pub ov0 (leafWrite1 env1 p1 id verb) (leafWrite1 env2 p2 id verb) := by
  unfold leafWrite1
  rw [h.f]
  cases hd : directive p1.f verb with
  | none => exact RR_unsupported _
  | some d =>
    simp only
    have hr := he.render id d
    cases h1 : env1.render id d <;> cases h2 : env2.render id d <;> rw [h1, h2] at hr <;> simp only at hr ⊢
    · exact RR_unsupported _
    · rename_i a b
      exact RR_unsafeWrite (pub := pub) h ho a b hr.1 (fun hh => hr.2 (hpub hh))

theorem RR_leafWrite {pub : Nat → Prop} {env1 env2 : Env} (he : EnvRel pub env1 env2) {ov0 : Override}
    {p1 p2 : PP} (h : PRel p1 p2) (ho : p1.override = ov0) (id verb : Nat) (k : BK) (ty : List Byte)
    (hpub : ov0 = .ovSafe → pub id) :
    RR pub ov0 (leafWrite env1 p1 id verb k ty) (leafWrite env2 p2 id verb k ty) := by
  unfold leafWrite
  rw [h.f]
  split
  · exact RR_ok (P_w h _) ho
  · exact RR_leafWrite1 he h ho id verb hpub

/-- A finished redactable operand: the same bytes in both runs, written raw. -/
theorem RR_preRedactable {ov0 : Override} {p1 p2 : PP} (h : PRel p1 p2) (ho : p1.override = ov0)
    (content : List Byte) (hc : Obtainable content) :
    RR pub ov0 (bracket PP.startPreRedactable p1 fun q => .ok (q.w content))
           (bracket PP.startPreRedactable p2 fun q => .ok (q.w content)) := by
  unfold bracket PP.startPreRedactable
  by_cases hu : p1.override ≠ .ovUnsafe
  · have hu2 : p2.override ≠ .ovUnsafe := by rw [h.ov]; exact hu
    rw [if_pos hu, if_pos hu2]
    simp only [Res.bind, RR, PP.restore, PP.w]
    have b1 := setMode_rel _ _ .raw h.b
    have m1 : (p1.buf.setMode .raw).mode = .raw := setMode_mode _ _
    have b2 := write_rel _ _ content content b1 (by rw [m1]; unfold PendRel; simp) (fun _ => hc) (fun _ => hc)
    refine ⟨⟨?_, ?_, h.ov, h.f, h.er, h.pa, h.we, h.wd, h.ro, h.ga⟩, ho⟩
    · show BRel (((p1.buf.setMode .raw).write content).setMode p1.buf.mode) (((p2.buf.setMode .raw).write content).setMode p2.buf.mode)
      rw [h.mode2]; exact setMode_rel _ _ _ b2
    · show (((p1.buf.setMode .raw).write content).setMode p1.buf.mode).mode ≠ _
      rw [setMode_mode]; exact h.nr
  · have hu2 : ¬ p2.override ≠ .ovUnsafe := by rw [h.ov]; exact hu
    rw [if_neg hu, if_neg hu2]
    simp only [Res.bind, RR, PP.restore]
    have hw := P_w h content
    refine ⟨⟨?_, ?_, h.ov, h.f, h.er, h.pa, h.we, h.wd, h.ro, h.ga⟩, ho⟩
    · show BRel ((p1.buf.write content).setMode p1.buf.mode) ((p2.buf.write content).setMode p2.buf.mode)
      rw [h.mode2]; exact setMode_rel _ _ _ hw.b
    · show ((p1.buf.write content).setMode p1.buf.mode).mode ≠ _
      rw [setMode_mode]; exact h.nr


/-! ### The relational specification of every function of the printer -/

/-- Related outcomes of a user method. -/
def SR (pub : Nat → Prop) (ov0 : Override) (o1 o2 : SRes) : Prop :=
  match o1, o2 with
  | .ok q1, .ok q2 => PRel q1 q2 ∧ q1.override = ov0
  | .raised q1 pl1, .raised q2 pl2 => PRel q1 q2 ∧ q1.override = ov0 ∧ pl2 = pl1 ∧ ValOk pl1 ∧ SecAt pub ov0 pl1
  | .abort r1, .abort r2 => RR pub ov0 r1 r2
  | _, _ => False

/-- `(handled, result)` pairs. -/
def RB (pub : Nat → Prop) (ov0 : Override) (x1 x2 : Bool × Res) : Prop := x1.1 = x2.1 ∧ RR pub ov0 x1.2 x2.2

/-- What method dispatch needs to know about a value with methods under override `ov`. -/
def MSec (pub : Nat → Prop) (ov : Override) (ms : Methods) (ret : Nat) (sc : Script) : Prop :=
  SecAtS pub ov sc ∧ (ov = .ovSafe → pub ret) ∧ (ov = .no → ms.safeMessager = true → pub ret)

structure RSpec (pub : Nat → Prop) (env1 env2 : Env) (n : Nat) : Prop where
  printArg : ∀ ov0 p1 p2 v verb, PRel p1 p2 → p1.override = ov0 → ValOk v → SecAt pub ov0 v →
    RR pub ov0 (printArg env1 n p1 v verb) (printArg env2 n p2 v verb)
  printArgBody : ∀ ov0 p1 p2 v verb, PRel p1 p2 → p1.override = ov0 → ValOk v → SecAt pub ov0 v →
    RR pub ov0 (printArgBody env1 n p1 v verb) (printArgBody env2 n p2 v verb)
  badVerb : ∀ ov0 p1 p2 v verb via, PRel p1 p2 → p1.override = ov0 → ValOk v → SecAt pub ov0 v →
    RR pub ov0 (badVerb env1 n p1 v verb via) (badVerb env2 n p2 v verb via)
  handleMethods : ∀ ov0 p1 p2 v verb, PRel p1 p2 → p1.override = ov0 → ValOk v → SecAt pub ov0 v →
    RB pub ov0 (handleMethods env1 n p1 v verb) (handleMethods env2 n p2 v verb)
  methDispatch : ∀ ov0 p1 p2 v ms nr ret sc verb, PRel p1 p2 → p1.override = ov0 → ValOk v → ScriptOk sc → SecAt pub ov0 v →
    MSec pub ov0 ms ret sc →
    RB pub ov0 (methDispatch env1 n p1 v ms nr ret sc verb) (methDispatch env2 n p2 v ms nr ret sc verb)
  fmtString : ∀ ov0 p1 p2 v ret verb, PRel p1 p2 → p1.override = ov0 → ValOk v → (verbOkFor .str verb = false → SecAt pub ov0 v) →
    (ov0 = .ovSafe → pub ret) →
    RR pub ov0 (fmtString env1 n p1 v ret verb) (fmtString env2 n p2 v ret verb)
  catchPanic : ∀ p01 p02 ov0 arg verb m nr out1 out2, SR pub ov0 out1 out2 →
    RR pub ov0 (catchPanic env1 n p01 arg verb m nr out1) (catchPanic env2 n p02 arg verb m nr out2)
  runScript : ∀ ov0 p1 p2 sc, PRel p1 p2 → p1.override = ov0 → ScriptOk sc → SecAtS pub ov0 sc →
    SR pub ov0 (runScript env1 n p1 sc) (runScript env2 n p2 sc)
  printValue : ∀ ov0 p1 p2 v verb d ro, PRel p1 p2 → p1.override = ov0 → ValOk v → SecAt pub ov0 v →
    RR pub ov0 (printValue env1 n p1 v verb d ro) (printValue env2 n p2 v verb d ro)
  printSlot : ∀ ov0 p1 p2 v verb d i ro, PRel p1 p2 → p1.override = ov0 → ValOk v → SecAt pub ov0 v →
    RR pub ov0 (printSlot env1 n p1 v verb d i ro) (printSlot env2 n p2 v verb d i ro)
  slotMethods : ∀ ov0 p1 p2 v verb, PRel p1 p2 → p1.override = ov0 → ValOk v → SecAt pub ov0 v →
    RB pub ov0 (slotMethods env1 n p1 v verb) (slotMethods env2 n p2 v verb)
  printFields : ∀ ov0 p1 p2 fs verb d ro f, PRel p1 p2 → p1.override = ov0 → FieldsOk fs → SecAtFs pub ov0 fs →
    RR pub ov0 (printFields env1 n p1 fs verb d ro f) (printFields env2 n p2 fs verb d ro f)
  printElems : ∀ ov0 p1 p2 vs verb d i ro f, PRel p1 p2 → p1.override = ov0 → ValsOk vs → SecAtVs pub ov0 vs →
    RR pub ov0 (printElems env1 n p1 vs verb d i ro f) (printElems env2 n p2 vs verb d i ro f)
  printPairs : ∀ ov0 p1 p2 ks vs verb d ik iv ro f, PRel p1 p2 → p1.override = ov0 → ValsOk ks → ValsOk vs →
    SecAtVs pub ov0 ks → SecAtVs pub ov0 vs →
    RR pub ov0 (printPairs env1 n p1 ks vs verb d ik iv ro f) (printPairs env2 n p2 ks vs verb d ik iv ro f)
  doPrint : ∀ ov0 p1 p2 args, PRel p1 p2 → p1.override = ov0 → ListOk args → SecAtL pub ov0 args →
    RR pub ov0 (doPrint env1 n p1 args) (doPrint env2 n p2 args)
  doPrintLoop : ∀ ov0 p1 p2 args k ps, PRel p1 p2 → p1.override = ov0 → ListOk args → SecAtL pub ov0 args →
    RR pub ov0 (doPrintLoop env1 n p1 args k ps) (doPrintLoop env2 n p2 args k ps)
  doPrintf : ∀ ov0 p1 p2 f args, PRel p1 p2 → p1.override = ov0 → ListOk args → SecAtL pub ov0 args →
    RR pub ov0 (doPrintf env1 n p1 f args) (doPrintf env2 n p2 f args)
  fmtLoop : ∀ ov0 p1 p2 f args k ai, PRel p1 p2 → p1.override = ov0 → ListOk args → SecAtL pub ov0 args →
    RR pub ov0 (fmtLoop env1 n p1 f args k ai) (fmtLoop env2 n p2 f args k ai)
  directiveTail : ∀ ov0 p1 p2 f args k ai, PRel p1 p2 → p1.override = ov0 → ListOk args → SecAtL pub ov0 args →
    RR pub ov0 (directiveTail env1 n p1 f args k ai) (directiveTail env2 n p2 f args k ai)
  finishPrintf : ∀ ov0 p1 p2 args k, PRel p1 p2 → p1.override = ov0 → ListOk args → SecAtL pub ov0 args →
    RR pub ov0 (finishPrintf env1 n p1 args k) (finishPrintf env2 n p2 args k)
  extraLoop : ∀ ov0 p1 p2 args f, PRel p1 p2 → p1.override = ov0 → ListOk args → SecAtL pub ov0 args →
    RR pub ov0 (extraLoop env1 n p1 args f) (extraLoop env2 n p2 args f)

theorem rspec_zero (pub : Nat → Prop) (env1 env2 : Env) : RSpec pub env1 env2 0 := by
  constructor <;> intros <;> simp only [printArg, printArgBody, badVerb, handleMethods, methDispatch, fmtString, catchPanic,
    runScript, printValue, printSlot, slotMethods, printFields, printElems, printPairs, doPrint, doPrintLoop,
    doPrintf, fmtLoop, directiveTail, finishPrintf, extraLoop]
  all_goals first
    | exact RR_fuel _
    | exact ⟨rfl, RR_fuel _⟩
    | (show RR pub _ .fuel .fuel; trivial)
    | trivial


/-! ### Step lemmas -/

variable {env1 env2 : Env} {n : Nat}

theorem secAt_safeW {ov : Override} {v : Val} (h : SecAt pub ov (.safeW v)) :
    SecAt pub (if ov = .no then .ovSafe else ov) v := by
  cases ov
  · simpa [SecAt, SecV, AllPubV] using h
  · simpa [SecAt, SecV, AllPubV] using h
  · have : AllPubV pub v := by simpa [SecAt, SecV] using h
    exact sec_of_allPubV pub v this

theorem secAt_unsafeW {ov : Override} {v : Val} (h : SecAt pub ov (.unsafeW v)) :
    SecAt pub (if ov = .no then .ovUnsafe else ov) v := by
  cases ov
  · simpa [SecAt, SecV] using h
  · simpa [SecAt, AllPubV] using h
  · simpa [SecAt, SecV] using h

/-- A value of a registered or `SafeValue` type is public throughout. -/
theorem secV_flagged {v : Val} (h : SecV pub v) (hf : isRegistered v = true ∨ isSafeValue v = true) : AllPubV pub v := by
  cases v <;> simp only [isRegistered, isSafeValue, Bool.false_eq_true, or_self, or_false, false_or] at hf
  · -- leaf
    simp only [SecV] at h
    simp only [AllPubV]
    exact h (hf.symm)
  · simpa [SecV, AllPubV] using h
  · simp only [SecV] at h
    simp only [AllPubV]
    exact h.1 hf.symm
  · simp only [SecV] at h
    simp only [AllPubV]
    exact h.1 hf

theorem secAt_flagged {ov : Override} {v : Val} (h : SecAt pub ov v) (hf : isRegistered v = true ∨ isSafeValue v = true) :
    SecAt pub (if ov = .no then .ovSafe else ov) v := by
  cases ov
  · exact secV_flagged h hf
  · exact h
  · exact h

/-- Both runs update bookkeeping fields (not the buffer) in the same way. -/
syntax "prel_upd " term : tactic
macro_rules
  | `(tactic| prel_upd $h) => `(tactic|
    exact ⟨($h).b, ($h).nr,
      by first | exact ($h).ov | rfl,
      by first | exact ($h).f | rfl | (simp only []; rw [($h).f]) | simp [($h).f],
      by first | exact ($h).er | rfl,
      by first | exact ($h).pa | rfl,
      by first | exact ($h).we | rfl,
      by first | exact ($h).wd | rfl,
      by first | exact ($h).ro | rfl,
      by first | exact ($h).ga | rfl⟩)

theorem RR_from {ov0 : Override} {r1 r2 : Res} (h : RR pub ov0 r1 r2) {ov1 : Override} (e : ov0 = ov1) : RR pub ov1 r1 r2 := e ▸ h

/-- Related states whose (common) override is `ov0`. -/
def PO (ov0 : Override) (p1 p2 : PP) : Prop := PRel p1 p2 ∧ p1.override = ov0

theorem PO.w {ov0 : Override} {p1 p2 : PP} (h : PO ov0 p1 p2) (s : List Byte) : PO ov0 (p1.w s) (p2.w s) := ⟨P_w h.1 s, h.2⟩
theorem PO.wb {ov0 : Override} {p1 p2 : PP} (h : PO ov0 p1 p2) (c : Byte) : PO ov0 (p1.wb c) (p2.wb c) := ⟨P_wb h.1 c, h.2⟩
theorem PO.wr {ov0 : Override} {p1 p2 : PP} (h : PO ov0 p1 p2) (r : Int) : PO ov0 (p1.wr r) (p2.wr r) := ⟨P_wr h.1 r, h.2⟩
theorem PO.ite {ov0 : Override} {c : Prop} [Decidable c] {a1 b1 a2 b2 : PP} (ha : PO ov0 a1 a2) (hb : PO ov0 b1 b2) :
    PO ov0 (if c then a1 else b1) (if c then a2 else b2) := by
  split <;> assumption
theorem PO.ok {ov0 : Override} {q1 q2 : PP} (h : PO ov0 q1 q2) : RR pub ov0 (.ok q1) (.ok q2) := h

theorem ov_if_no_safe {p : PP} {ov0 : Override} (ho : p.override = ov0) :
    p.startSafeOverride.1.override = (if ov0 = .no then .ovSafe else ov0) := by
  rw [start_safeOverride_ov, ho]

theorem ov_if_no_unsafe {p : PP} {ov0 : Override} (ho : p.override = ov0) :
    p.startUnsafeOverride.1.override = (if ov0 = .no then .ovUnsafe else ov0) := by
  rw [start_unsafeOverride_ov, ho]

theorem rstep_printArg (S : RSpec pub env1 env2 n) :
    ∀ ov0 p1 p2 v verb, PRel p1 p2 → p1.override = ov0 → ValOk v → SecAt pub ov0 v →
    RR pub ov0 (printArg env1 (n + 1) p1 v verb) (printArg env2 (n + 1) p2 v verb) := by
  intro ov0 p1 p2 v verb hp ho hv hs
  have body1 : ∀ ov q1 q2, PRel q1 q2 → q1.override = ov → SecAt pub ov v → RR pub ov
      (if isSafeValue v then bracket PP.startSafeOverride q1 fun q => printArgBody env1 n q v verb
       else printArgBody env1 n q1 v verb)
      (if isSafeValue v then bracket PP.startSafeOverride q2 fun q => printArgBody env2 n q v verb
       else printArgBody env2 n q2 v verb) := by
    intro ov q1 q2 hq hoq hsq
    split
    · rename_i hsv
      apply RR_bracket _ startOk_safeOverride hq hoq
      exact S.printArgBody _ _ _ _ _ (startOk_safeOverride.rel _ _ hq) (ov_if_no_safe hoq) hv
        (secAt_flagged hsq (Or.inr hsv)) |> fun h => RR_from h (ov_if_no_safe hoq).symm
    · exact S.printArgBody _ _ _ _ _ hq hoq hv hsq
  cases v with
  | safeW w =>
    simp only [printArg]
    apply RR_bracket _ startOk_safeOverride hp ho
    exact RR_from (S.printArg _ _ _ _ _ (startOk_safeOverride.rel _ _ hp) (ov_if_no_safe ho) (valOk_safeW hv) (secAt_safeW hs))
      (ov_if_no_safe ho).symm
  | unsafeW w =>
    simp only [printArg]
    apply RR_bracket _ startOk_unsafeOverride hp ho
    exact RR_from (S.printArg _ _ _ _ _ (startOk_unsafeOverride.rel _ _ hp) (ov_if_no_unsafe ho) (valOk_unsafeW hv) (secAt_unsafeW hs))
      (ov_if_no_unsafe ho).symm
  | _ =>
    simp only [printArg]
    split
    · rename_i hreg
      apply RR_bracket _ startOk_safeOverride hp ho
      exact RR_from (body1 _ _ _ (startOk_safeOverride.rel _ _ hp) (ov_if_no_safe ho) (secAt_flagged hs (Or.inl hreg)))
        (ov_if_no_safe ho).symm
    · exact body1 _ p1 p2 hp ho hs

theorem rstep_fmtString (he : EnvRel pub env1 env2) (S : RSpec pub env1 env2 n) :
    ∀ ov0 p1 p2 v ret verb, PRel p1 p2 → p1.override = ov0 → ValOk v → (verbOkFor .str verb = false → SecAt pub ov0 v) →
    (ov0 = .ovSafe → pub ret) →
    RR pub ov0 (fmtString env1 (n + 1) p1 v ret verb) (fmtString env2 (n + 1) p2 v ret verb) := by
  intro ov0 p1 p2 v ret verb hp ho hv hs hr
  simp only [fmtString]
  split
  · exact RR_leafWrite he hp ho _ _ _ _ hr
  · rename_i hvb
    exact S.badVerb _ _ _ _ _ _ hp ho hv (hs (by simpa using hvb))

theorem rstep_badVerb (S : RSpec pub env1 env2 n) :
    ∀ ov0 p1 p2 v verb via, PRel p1 p2 → p1.override = ov0 → ValOk v → SecAt pub ov0 v →
    RR pub ov0 (badVerb env1 (n + 1) p1 v verb via) (badVerb env2 (n + 1) p2 v verb via) := by
  intro ov0 p1 p2 v verb via hp ho hv hs
  unfold badVerb
  have h1 : PO ov0 { p1 with erroring := true } { p2 with erroring := true } := ⟨by prel_upd hp, ho⟩
  have h2 := ((h1.w percentBang).wr verb).wb 0x28
  apply RR_bind (ov0 := ov0)
  · split
    · exact (h2.w _).ok
    · have h3 := (h2.w (typeName v)).wb 0x3D
      split
      · exact S.printValue _ _ _ _ _ _ _ h3.1 h3.2 hv hs
      · exact S.printArg _ _ _ _ _ h3.1 h3.2 hv hs
  · intro q1 q2 hq hoq
    refine RR_ok ?_ hoq
    have := P_wb hq 0x29
    prel_upd this


theorem secAt_leaf {ov0 : Override} {id : Nat} {k : BK} {ty : List Byte} {iv : Option Int} {sv reg : Bool}
    (h : SecAt pub ov0 (.leaf id k ty iv sv reg)) : ov0 = .ovSafe → pub id := by
  intro ho; subst ho; simpa [SecAt, AllPubV] using h

/-- Consume a `(handled, result)` pair of both runs. -/
theorem RR_handled {ov0 : Override} (x1 x2 : Bool × Res) (k1 k2 : Res) : RB pub ov0 x1 x2 → RR pub ov0 k1 k2 →
    RR pub ov0 (match x1 with | (true, r) => r | (false, _) => k1) (match x2 with | (true, r) => r | (false, _) => k2) := by
  intro h hk
  obtain ⟨b1, r1⟩ := x1
  obtain ⟨b2, r2⟩ := x2
  obtain ⟨hb, hr⟩ := h
  simp only at hb hr
  subst hb
  cases b1
  · exact hk
  · exact hr

/-- Destructure the related pair `p1 p2` (hypothesis `hp`): all fields but the buffer become shared variables. -/
syntax "prel_cases" : tactic
set_option hygiene false in
macro_rules
  | `(tactic| prel_cases) => `(tactic| (
    obtain ⟨b1, o1, f1, e1, pa1, we1, wd1, ro1, ga1⟩ := p1
    obtain ⟨b2, o, f, e, pa, we, wd, ro, ga⟩ := p2
    have h1 := hp.ov; have h2 := hp.f; have h3 := hp.er; have h4 := hp.pa; have h5 := hp.we; have h6 := hp.wd
    have h7 := hp.ro; have h8 := hp.ga
    simp only at h1 h2 h3 h4 h5 h6 h7 h8
    subst h1 h2 h3 h4 h5 h6 h7 h8))

theorem rstep_printArgBody (he : EnvRel pub env1 env2) (S : RSpec pub env1 env2 n) :
    ∀ ov0 p1 p2 v verb, PRel p1 p2 → p1.override = ov0 → ValOk v → SecAt pub ov0 v →
    RR pub ov0 (printArgBody env1 (n + 1) p1 v verb) (printArgBody env2 (n + 1) p2 v verb) := by
  intro ov0 p1 p2 v verb hp ho hv hs
  prel_cases
  simp only at ho
  have hpo : PO ov0 _ _ := ⟨hp, ho⟩
  have hw : PO ov0 ({ buf := b1, override := o, f := f, erroring := e, panicking := pa, wrapErrs := false, wrappedErr := none, reordered := ro, goodArgNum := ga } : PP)
      { buf := b2, override := o, f := f, erroring := e, panicking := pa, wrapErrs := false, wrappedErr := none, reordered := ro, goodArgNum := ga } :=
    ⟨by prel_upd hp, ho⟩
  unfold printArgBody
  simp only
  split
  · split
    · exact (hpo.w _).ok
    · exact S.badVerb _ _ _ _ _ _ hp ho hv hs
  · split
    · exact (hpo.w _).ok
    · split
      · split
        · exact RR_leafWrite he hp ho _ _ _ _ (secAt_leaf hs)
        · exact RR_unsupported _
        · exact RR_unsupported _
        · exact RR_unsupported _
        · exact S.badVerb _ _ _ _ _ _ hp ho hv hs
      · split
        · split
          · exact S.badVerb _ _ _ _ _ _ hw.1 hw.2 hv hs
          · split
            · exact RR_leafWrite he hp ho _ _ _ _ (secAt_leaf hs)
            · exact S.badVerb _ _ _ _ _ _ hp ho hv hs
        · exact RR_preRedactable hp ho _ (by simpa [ValOk] using hv)
        · exact RR_handled _ _ _ _ (S.handleMethods _ _ _ _ _ hp ho hv hs) (S.printValue _ _ _ _ _ _ _ hp ho hv hs)


theorem msec_of_secAt {ov0 : Override} {ms : Methods} {ty : List Byte} {sv reg nr : Bool} {ret : Nat} {sc : Script} {under : Val}
    (h : SecAt pub ov0 (.meth ms ty sv reg nr ret sc under)) : MSec pub ov0 ms ret sc := by
  cases ov0
  · simp only [SecAt, SecV] at h
    exact ⟨h.2.2.1, ⟨fun hh => (by cases hh), fun _ hm => h.2.1 hm⟩⟩
  · simp only [SecAt, AllPubV] at h
    exact ⟨h.2.1, ⟨fun _ => h.1, fun hh => by cases hh⟩⟩
  · simp only [SecAt, SecV] at h
    exact ⟨h.2.2.1, ⟨fun hh => (by cases hh), fun hh => by cases hh⟩⟩

theorem RB_mk {ov0 : Override} {b : Bool} {r1 r2 : Res} (h : RR pub ov0 r1 r2) : RB pub ov0 (b, r1) (b, r2) := ⟨rfl, h⟩

theorem rstep_handleMethods (S : RSpec pub env1 env2 n) :
    ∀ ov0 p1 p2 v verb, PRel p1 p2 → p1.override = ov0 → ValOk v → SecAt pub ov0 v →
    RB pub ov0 (handleMethods env1 (n + 1) p1 v verb) (handleMethods env2 (n + 1) p2 v verb) := by
  intro ov0 p1 p2 v verb hp ho hv hs
  prel_cases
  simp only at ho
  have hpo : PO ov0 _ _ := ⟨hp, ho⟩
  have hw : PO ov0 ({ buf := b1, override := o, f := f, erroring := e, panicking := pa, wrapErrs := false, wrappedErr := none, reordered := ro, goodArgNum := ga } : PP)
      { buf := b2, override := o, f := f, erroring := e, panicking := pa, wrapErrs := false, wrappedErr := none, reordered := ro, goodArgNum := ga } :=
    ⟨by prel_upd hp, ho⟩
  unfold handleMethods
  simp only
  split
  · exact RB_mk hpo.ok
  · split
    · rename_i ms ty sv reg nilRecv ret sc under
      have hsc : ScriptOk sc := by simp only [ValOk] at hv; exact hv.1
      have hm := msec_of_secAt hs
      split
      · split
        · exact RB_mk (S.badVerb _ _ _ _ _ _ hw.1 hw.2 hv hs)
        · have hw2 : PO ov0 ({ buf := b1, override := o, f := f, erroring := e, panicking := pa, wrapErrs := we, wrappedErr := some ret, reordered := ro, goodArgNum := ga } : PP)
              { buf := b2, override := o, f := f, erroring := e, panicking := pa, wrapErrs := we, wrappedErr := some ret, reordered := ro, goodArgNum := ga } :=
            ⟨by prel_upd hp, ho⟩
          exact S.methDispatch _ _ _ _ _ _ _ _ _ hw2.1 hw2.2 hv hsc hs hm
      · exact S.methDispatch _ _ _ _ _ _ _ _ _ hp ho hv hsc hs hm
    · split
      · exact RB_mk (S.badVerb _ _ _ _ _ _ hw.1 hw.2 hv hs)
      · exact RB_mk hpo.ok


theorem SR_raised_nil {ov0 : Override} {p1 p2 : PP} (h : PO ov0 p1 p2) : SR pub ov0 (.raised p1 .nil) (.raised p2 .nil) :=
  ⟨h.1, h.2, rfl, by simp [ValOk], by cases ov0 <;> simp [SecAt, SecV, AllPubV]⟩

theorem SR_ite_nil {ov0 : Override} {p1 p2 : PP} (h : PO ov0 p1 p2) (nr : Bool) {o1 o2 : SRes} (ho : SR pub ov0 o1 o2) :
    SR pub ov0 (if nr then .raised p1 .nil else o1) (if nr then .raised p2 .nil else o2) := by
  split
  · exact SR_raised_nil h
  · exact ho

theorem secAt_of_panic {ov0 : Override} {pl : Val} (h : SecAtS pub ov0 (.panic pl)) : SecAt pub ov0 pl := by
  cases ov0 <;> simpa [SecAtS, SecAt, SecS, AllPubS] using h

theorem SR_retOut {ov0 : Override} {p1 p2 : PP} (h : PO ov0 p1 p2) (nr : Bool) (sc : Script) {r1 r2 : Res}
    (hsc : ScriptOk sc) (hss : SecAtS pub ov0 sc) (hr : RR pub ov0 r1 r2) :
    SR pub ov0 (retOut nr p1 sc r1) (retOut nr p2 sc r2) := by
  unfold retOut
  split
  · exact SR_raised_nil h
  · split
    · exact ⟨h.1, h.2, rfl, by simpa [ScriptOk] using hsc, secAt_of_panic hss⟩
    · exact hr

theorem rstep_methDispatch (he : EnvRel pub env1 env2) (S : RSpec pub env1 env2 n) :
    ∀ ov0 p1 p2 v ms nr ret sc verb, PRel p1 p2 → p1.override = ov0 → ValOk v → ScriptOk sc → SecAt pub ov0 v →
    MSec pub ov0 ms ret sc →
    RB pub ov0 (methDispatch env1 (n + 1) p1 v ms nr ret sc verb) (methDispatch env2 (n + 1) p2 v ms nr ret sc verb) := by
  intro ov0 p1 p2 v ms nr ret sc verb hp ho hv hsc hs hm
  prel_cases
  simp only at ho
  have hpo : PO ov0 _ _ := ⟨hp, ho⟩
  unfold methDispatch
  rw [he.hook]
  simp only
  have hfs : RR pub ov0 (fmtString env1 n _ v ret verb) (fmtString env2 n _ v ret verb) :=
    S.fmtString _ _ _ _ _ _ hp ho hv (fun _ => hs) hm.2.1
  split
  · -- SafeFormatter
    exact RB_mk (S.catchPanic _ _ _ _ _ _ _ _ _ (SR_ite_nil hpo _ (S.runScript _ _ _ _ hp ho hsc hm.1)))
  · split
    · -- SafeMessager
      rename_i hcond
      refine RB_mk (S.catchPanic _ _ _ _ _ _ _ _ _ (SR_retOut hpo _ _ hsc hm.1 ?_))
      split
      · rename_i hvb
        apply RR_bracket _ startOk_safeOverride hp ho
        refine RR_from (S.fmtString _ _ _ _ _ _ (startOk_safeOverride.rel _ _ hp) (ov_if_no_safe ho) hv
          (fun hh => by rw [hvb] at hh; cases hh) ?_) (ov_if_no_safe ho).symm
        intro hov
        cases ov0
        · exact hm.2.2 rfl hcond.2
        · exact hm.2.1 rfl
        · simp at hov
      · rename_i hvb
        exact S.fmtString _ _ _ _ _ _ hp ho hv (fun _ => hs) hm.2.1
    · split
      · -- error hook
        split
        · rename_i h heq
          have hsk : ScriptOk (h ret verb) := he.hok h heq _ _
          have hss : SecAtS pub ov0 (h ret verb) := by
            have := he.hsec h heq ret verb
            cases ov0
            · exact this.1
            · exact this.2 (hm.2.1 rfl)
            · exact this.1
          exact RB_mk (S.catchPanic _ _ _ _ _ _ _ _ _ (SR_ite_nil hpo _ (S.runScript _ _ _ _ hp ho hsk hss)))
        · exact RB_mk hpo.ok
      · split
        · -- Formatter
          exact RB_mk (S.catchPanic _ _ _ _ _ _ _ _ _ (SR_ite_nil hpo _ (S.runScript _ _ _ _ hp ho hsc hm.1)))
        · split
          · split
            · -- GoStringer under %#v
              refine RB_mk (S.catchPanic _ _ _ _ _ _ _ _ _ (SR_retOut hpo _ _ hsc hm.1 ?_))
              have hq : PO ov0 ({ buf := b1, override := o, f := { f with sharpV := false, sharp := false, plusV := false, plus := false }, erroring := e, panicking := pa, wrapErrs := we, wrappedErr := wd, reordered := ro, goodArgNum := ga } : PP)
                  { buf := b2, override := o, f := { f with sharpV := false, sharp := false, plusV := false, plus := false }, erroring := e, panicking := pa, wrapErrs := we, wrappedErr := wd, reordered := ro, goodArgNum := ga } :=
                ⟨by prel_upd hp, ho⟩
              apply RR_bind (RR_leafWrite he hq.1 hq.2 _ _ _ _ hm.2.1)
              intro q1 q2 hq12 hoq
              exact RR_ok (by prel_upd hq12) hoq
            · exact RB_mk hpo.ok
          · split
            · split
              · exact RB_mk (S.catchPanic _ _ _ _ _ _ _ _ _ (SR_retOut hpo _ _ hsc hm.1 hfs))
              · split
                · exact RB_mk (S.catchPanic _ _ _ _ _ _ _ _ _ (SR_retOut hpo _ _ hsc hm.1 hfs))
                · exact RB_mk hpo.ok
            · exact RB_mk hpo.ok


theorem rstep_catchPanic (S : RSpec pub env1 env2 n) :
    ∀ p01 p02 ov0 arg verb m nr out1 out2, SR pub ov0 out1 out2 →
    RR pub ov0 (catchPanic env1 (n + 1) p01 arg verb m nr out1) (catchPanic env2 (n + 1) p02 arg verb m nr out2) := by
  intro p01 p02 ov0 arg verb m nr out1 out2 h
  unfold catchPanic
  cases out1 <;> cases out2 <;> simp only [SR] at h <;> try (exact h.elim)
  · exact h
  · rename_i p1 pl1 p2 pl2
    obtain ⟨hp, ho, hpl, hvpl, hspl⟩ := h
    subst hpl
    simp only
    have hpo : PO ov0 p1 p2 := ⟨hp, ho⟩
    split
    · exact (hpo.w _).ok
    · prel_cases
      simp only at ho
      simp only
      split
      · exact RR_panic hp.b hvpl hspl
      · have h1 : PO ov0 ({ buf := b1, override := o, f := f.clear, erroring := e, panicking := pa, wrapErrs := we, wrappedErr := wd, reordered := ro, goodArgNum := ga } : PP)
            { buf := b2, override := o, f := f.clear, erroring := e, panicking := pa, wrapErrs := we, wrappedErr := wd, reordered := ro, goodArgNum := ga } :=
          ⟨by prel_upd hp, ho⟩
        have h5 := ((((h1.w percentBang).wr verb).w ([0x28, 0x50, 0x41, 0x4E, 0x49, 0x43, 0x3D] /- "(PANIC=" -/ : List UInt8)).w m).w ([0x20, 0x6D, 0x65, 0x74, 0x68, 0x6F, 0x64, 0x3A, 0x20] /- " method: " -/ : List UInt8)
        have h6 : PO ov0 { (((((({ buf := b1, override := o, f := f.clear, erroring := e, panicking := pa, wrapErrs := we, wrappedErr := wd, reordered := ro, goodArgNum := ga } : PP).w percentBang).wr verb).w ([0x28, 0x50, 0x41, 0x4E, 0x49, 0x43, 0x3D] /- "(PANIC=" -/ : List UInt8)).w m).w ([0x20, 0x6D, 0x65, 0x74, 0x68, 0x6F, 0x64, 0x3A, 0x20] /- " method: " -/ : List UInt8)) with panicking := true }
            { (((((({ buf := b2, override := o, f := f.clear, erroring := e, panicking := pa, wrapErrs := we, wrappedErr := wd, reordered := ro, goodArgNum := ga } : PP).w percentBang).wr verb).w ([0x28, 0x50, 0x41, 0x4E, 0x49, 0x43, 0x3D] /- "(PANIC=" -/ : List UInt8)).w m).w ([0x20, 0x6D, 0x65, 0x74, 0x68, 0x6F, 0x64, 0x3A, 0x20] /- " method: " -/ : List UInt8)) with panicking := true } :=
          ⟨by prel_upd h5.1, h5.2⟩
        apply RR_bind (S.printArg _ _ _ _ _ h6.1 h6.2 hvpl hspl)
        intro q1 q2 hq hoq
        have h7 : PRel { q1 with panicking := false } { q2 with panicking := false } := by prel_upd hq
        have h8 := P_wb h7 0x29
        exact RR_ok (by prel_upd h8) hoq
  · exact h


/-- One bracketed write of the adapter, in both runs. -/
theorem PO_bracket_step {ov0 : Override} (start : PP → PP × PP.Restorer) (hs : StartOk start) {p1 p2 : PP}
    (h : PO ov0 p1 p2) (f1 f2 : PP → PP)
    (hf : PRel (f1 (start p1).1) (f2 (start p2).1)) (hfo : (f1 (start p1).1).override = (start p1).1.override) :
    PO ov0 ((f1 (start p1).1).restore (start p1).2) ((f2 (start p2).1).restore (start p2).2) := by
  have := RR_bracket (pub := fun _ => True) start hs h.1 h.2 (fun q => .ok (f1 q)) (fun q => .ok (f2 q)) ⟨hf, hfo⟩
  simp only [bracket, Res.bind, RR] at this
  exact this

theorem SR_ok {ov0 : Override} {q1 q2 : PP} (h : PO ov0 q1 q2) : SR pub ov0 (.ok q1) (.ok q2) := h

theorem secAtS_tail {ov0 : Override} {sc k : Script} (h : SecAtS pub ov0 sc)
    (hk : (AllPubS pub sc → AllPubS pub k) ∧ (SecS pub sc → SecS pub k)) : SecAtS pub ov0 k := by
  cases ov0
  · exact hk.2 h
  · exact hk.1 h
  · exact hk.2 h

theorem secAtL_of_vals {ov0 : Override} : (vs : Vals) → SecAtVs pub ov0 vs → SecAtL pub ov0 vs.toList
  | .nil, _ => by intro v hv; simp [Vals.toList] at hv
  | .cons x r, h => by
    intro v hv
    simp only [Vals.toList, List.mem_cons] at hv
    cases ov0
    · rcases hv with rfl | hv
      · exact h.1
      · exact secAtL_of_vals (ov0 := .no) r h.2 v hv
    · rcases hv with rfl | hv
      · exact h.1
      · exact secAtL_of_vals (ov0 := .ovSafe) r h.2 v hv
    · rcases hv with rfl | hv
      · exact h.1
      · exact secAtL_of_vals (ov0 := .ovUnsafe) r h.2 v hv

theorem rstep_runScript (he : EnvRel pub env1 env2) (S : RSpec pub env1 env2 n) :
    ∀ ov0 p1 p2 sc, PRel p1 p2 → p1.override = ov0 → ScriptOk sc → SecAtS pub ov0 sc →
    SR pub ov0 (runScript env1 (n + 1) p1 sc) (runScript env2 (n + 1) p2 sc) := by
  intro ov0 p1 p2 sc hp ho hsc hss
  have hpo : PO ov0 p1 p2 := ⟨hp, ho⟩
  unfold runScript
  split
  · exact SR_ok hpo
  · exact ⟨hp, ho, rfl, by simpa [ScriptOk] using hsc, secAt_of_panic hss⟩
  · exact S.runScript _ _ _ _ hp ho (by simpa [ScriptOk] using hsc) (secAtS_tail hss ⟨by simp [AllPubS], by simp [SecS]⟩)
  · -- safeString
    rename_i s k
    have g := PO_bracket_step PP.startSafeOverride startOk_safeOverride hpo (·.w s) (·.w s) (P_w (startOk_safeOverride.rel _ _ hp) s) rfl
    exact S.runScript _ _ _ _ g.1 g.2 (by simpa [ScriptOk] using hsc) (secAtS_tail hss ⟨by simp [AllPubS], by simp [SecS]⟩)
  · rename_i x k
    have g := PO_bracket_step PP.startSafeOverride startOk_safeOverride hpo (·.wr x) (·.wr x) (P_wr (startOk_safeOverride.rel _ _ hp) x) rfl
    exact S.runScript _ _ _ _ g.1 g.2 (by simpa [ScriptOk] using hsc) (secAtS_tail hss ⟨by simp [AllPubS], by simp [SecS]⟩)
  · rename_i s k
    have g := PO_bracket_step PP.startUnsafe startOk_unsafe hpo (·.w s) (·.w s) (P_w (startOk_unsafe.rel _ _ hp) s) rfl
    exact S.runScript _ _ _ _ g.1 g.2 (by simpa [ScriptOk] using hsc) (secAtS_tail hss ⟨by simp [AllPubS], by simp [SecS]⟩)
  · rename_i s k
    have g := PO_bracket_step PP.startUnsafe startOk_unsafe hpo (·.w s) (·.w s) (P_w (startOk_unsafe.rel _ _ hp) s) rfl
    exact S.runScript _ _ _ _ g.1 g.2 (by simpa [ScriptOk] using hsc) (secAtS_tail hss ⟨by simp [AllPubS], by simp [SecS]⟩)
  · -- unsafeLeaf
    rename_i id k
    have hr := he.render id [0x25, 0x73]
    cases h1 : env1.render id [0x25, 0x73] <;> cases h2 : env2.render id [0x25, 0x73] <;> rw [h1, h2] at hr <;> simp only at hr ⊢
    · exact (show SR pub ov0 (.abort .unsupported) (.abort .unsupported) from trivial)
    · rename_i a b
      have hpub : ov0 = .ovSafe → a = b := by
        intro hh; subst hh
        exact hr.2 (by simpa [SecAtS, AllPubS] using hss.1)
      have := RR_unsafeWrite (pub := pub) hp ho a b hr.1 hpub
      have g : PO ov0 ((p1.startUnsafe.1.w a).restore p1.startUnsafe.2) ((p2.startUnsafe.1.w b).restore p2.startUnsafe.2) := by
        simp only [bracket, Res.bind, RR] at this
        exact this
      exact S.runScript _ _ _ _ g.1 g.2 (by simpa [ScriptOk] using hsc) (secAtS_tail hss ⟨by simp [AllPubS], by simp [SecS]⟩)
  · -- print
    rename_i args k
    have hargs : ListOk args.toList := listOk_of_valsOk _ (by simp only [ScriptOk] at hsc; exact hsc.1)
    have hk : ScriptOk k := by simp only [ScriptOk] at hsc; exact hsc.2
    have hsa : SecAtL pub ov0 args.toList := secAtL_of_vals _ (by cases ov0 <;> exact hss.1)
    have hsk : SecAtS pub ov0 k := secAtS_tail hss ⟨by simp only [AllPubS]; exact fun h => h.2, by simp only [SecS]; exact fun h => h.2⟩
    have hnp : PRel ({ buf := p1.buf, override := p1.override } : PP) { buf := p2.buf, override := p2.override } :=
      ⟨hp.b, hp.nr, hp.ov, rfl, rfl, rfl, rfl, rfl, rfl, rfl⟩
    have hd := S.doPrint _ _ _ _ hnp ho hargs hsa
    dsimp only
    generalize doPrint env1 n { buf := p1.buf, override := p1.override } args.toList = x1 at hd ⊢
    generalize doPrint env2 n { buf := p2.buf, override := p2.override } args.toList = x2 at hd ⊢
    cases x1 <;> cases x2 <;> simp only [RR] at hd <;> try (exact hd.elim)
    · rename_i n1 n2
      have g : PO ov0 { p1 with buf := n1.buf.setMode p1.buf.mode } { p2 with buf := n2.buf.setMode p2.buf.mode } := by
        refine ⟨⟨?_, ?_, hp.ov, hp.f, hp.er, hp.pa, hp.we, hp.wd, hp.ro, hp.ga⟩, ho⟩
        · show BRel (n1.buf.setMode p1.buf.mode) (n2.buf.setMode p2.buf.mode)
          rw [hp.mode2]; exact setMode_rel _ _ _ hd.1.b
        · show (n1.buf.setMode p1.buf.mode).mode ≠ _
          rw [setMode_mode]; exact hp.nr
      exact S.runScript _ _ _ _ g.1 g.2 hk hsk
    · -- a panic left the nested printer in both runs: buffer handed back, the method has panicked
      rename_i c1 pl1 c2 pl2
      obtain ⟨hbr, rfl, hv, hsec⟩ := hd
      refine ⟨⟨?_, ?_, hp.ov, hp.f, hp.er, hp.pa, hp.we, hp.wd, hp.ro, hp.ga⟩, ho, rfl, hv, hsec⟩
      · show BRel (c1.setMode p1.buf.mode) (c2.setMode p2.buf.mode)
        rw [hp.mode2]; exact setMode_rel _ _ _ hbr
      · show (c1.setMode p1.buf.mode).mode ≠ _
        rw [setMode_mode]; exact hp.nr
    all_goals trivial
  · -- printf
    rename_i f args k
    have hargs : ListOk args.toList := listOk_of_valsOk _ (by simp only [ScriptOk] at hsc; exact hsc.1)
    have hk : ScriptOk k := by simp only [ScriptOk] at hsc; exact hsc.2
    have hsa : SecAtL pub ov0 args.toList := secAtL_of_vals _ (by cases ov0 <;> exact hss.1)
    have hsk : SecAtS pub ov0 k := secAtS_tail hss ⟨by simp only [AllPubS]; exact fun h => h.2, by simp only [SecS]; exact fun h => h.2⟩
    have hnp : PRel ({ buf := p1.buf, override := p1.override } : PP) { buf := p2.buf, override := p2.override } :=
      ⟨hp.b, hp.nr, hp.ov, rfl, rfl, rfl, rfl, rfl, rfl, rfl⟩
    have hd := S.doPrintf _ _ _ f _ hnp ho hargs hsa
    dsimp only
    generalize doPrintf env1 n { buf := p1.buf, override := p1.override } f args.toList = x1 at hd ⊢
    generalize doPrintf env2 n { buf := p2.buf, override := p2.override } f args.toList = x2 at hd ⊢
    cases x1 <;> cases x2 <;> simp only [RR] at hd <;> try (exact hd.elim)
    · rename_i n1 n2
      have g : PO ov0 { p1 with buf := n1.buf.setMode p1.buf.mode } { p2 with buf := n2.buf.setMode p2.buf.mode } := by
        refine ⟨⟨?_, ?_, hp.ov, hp.f, hp.er, hp.pa, hp.we, hp.wd, hp.ro, hp.ga⟩, ho⟩
        · show BRel (n1.buf.setMode p1.buf.mode) (n2.buf.setMode p2.buf.mode)
          rw [hp.mode2]; exact setMode_rel _ _ _ hd.1.b
        · show (n1.buf.setMode p1.buf.mode).mode ≠ _
          rw [setMode_mode]; exact hp.nr
      exact S.runScript _ _ _ _ g.1 g.2 hk hsk
    · -- a panic left the nested printer in both runs: buffer handed back, the method has panicked
      rename_i c1 pl1 c2 pl2
      obtain ⟨hbr, rfl, hv, hsec⟩ := hd
      refine ⟨⟨?_, ?_, hp.ov, hp.f, hp.er, hp.pa, hp.we, hp.wd, hp.ro, hp.ga⟩, ho, rfl, hv, hsec⟩
      · show BRel (c1.setMode p1.buf.mode) (c2.setMode p2.buf.mode)
        rw [hp.mode2]; exact setMode_rel _ _ _ hbr
      · show (c1.setMode p1.buf.mode).mode ≠ _
        rw [setMode_mode]; exact hp.nr
    all_goals trivial

theorem RR_then_wb {ov0 : Override} {r1 r2 : Res} (h : RR pub ov0 r1 r2) (c : Byte) :
    RR pub ov0 (r1.bind fun q => .ok (q.wb c)) (r2.bind fun q => .ok (q.wb c)) :=
  RR_bind h (fun _ _ hq ho => RR_ok (P_wb hq c) ho)

theorem secAt_under {ov0 : Override} {ms : Methods} {ty : List Byte} {sv reg nr : Bool} {ret : Nat} {sc : Script} {under : Val}
    (h : SecAt pub ov0 (.meth ms ty sv reg nr ret sc under)) : SecAt pub ov0 under := by
  cases ov0
  · simp only [SecAt, SecV] at h; exact h.2.2.2
  · simp only [SecAt, AllPubV] at h; exact h.2.2
  · simp only [SecAt, SecV] at h; exact h.2.2.2

theorem secAt_struct {ov0 : Override} {ty : List Byte} {reg : Bool} {fs : Fields}
    (h : SecAt pub ov0 (.struct ty reg fs)) : SecAtFs pub ov0 fs := by
  cases ov0
  · simp only [SecAt, SecV] at h; exact h.2
  · simp only [SecAt, AllPubV] at h; exact h
  · simp only [SecAt, SecV] at h; exact h.2

theorem secAt_slice {ov0 : Override} {ty : List Byte} {a b : Bool} {es : Vals}
    (h : SecAt pub ov0 (.slice ty a b es)) : SecAtVs pub ov0 es := by
  cases ov0
  · simp only [SecAt, SecV] at h; exact h
  · simp only [SecAt, AllPubV] at h; exact h
  · simp only [SecAt, SecV] at h; exact h

theorem secAt_map {ov0 : Override} {ty : List Byte} {a b c : Bool} {ks vs : Vals}
    (h : SecAt pub ov0 (.map ty a b c ks vs)) : SecAtVs pub ov0 ks ∧ SecAtVs pub ov0 vs := by
  cases ov0
  · simp only [SecAt, SecV] at h; exact h
  · simp only [SecAt, AllPubV] at h; exact h
  · simp only [SecAt, SecV] at h; exact h

theorem secAt_ptrTo {ov0 : Override} {ty : List Byte} {to : Val}
    (h : SecAt pub ov0 (.ptrTo ty to)) : SecAt pub ov0 to := by
  cases ov0
  · simpa [SecAt, SecV] using h
  · simpa [SecAt, AllPubV] using h
  · trivial

theorem rstep_printValue (he : EnvRel pub env1 env2) (S : RSpec pub env1 env2 n) :
    ∀ ov0 p1 p2 v verb d ro, PRel p1 p2 → p1.override = ov0 → ValOk v → SecAt pub ov0 v →
    RR pub ov0 (printValue env1 (n + 1) p1 v verb d ro) (printValue env2 (n + 1) p2 v verb d ro) := by
  intro ov0 p1 p2 v verb d ro hp ho hv hs
  prel_cases
  simp only at ho
  have hpo : PO ov0 _ _ := ⟨hp, ho⟩
  unfold printValue
  simp only
  split
  · exact (hpo.w _).ok
  · split
    · exact RR_leafWrite he hp ho _ _ _ _ (secAt_leaf hs)
    · exact S.badVerb _ _ _ _ _ _ hp ho hv hs
  · exact S.printValue _ _ _ _ _ _ _ hp ho (by simp only [ValOk] at hv; exact hv.2) (secAt_under hs)
  · -- struct
    rename_i ty reg fields
    have hf : FieldsOk fields := by simpa [ValOk] using hv
    have g1 := (PO.ite (c := f.sharpV = true) (hpo.w ty) hpo).wb 0x7B
    apply RR_then_wb
    exact S.printFields _ _ _ _ _ _ _ _ g1.1 g1.2 hf (secAt_struct hs)
  · -- slice
    rename_i ty isNil iface elems
    have hes : ValsOk elems := by simpa [ValOk] using hv
    split
    · split
      · exact ((hpo.w ty).w _).ok
      · have g2 := (hpo.w ty).wb 0x7B
        apply RR_then_wb
        exact S.printElems _ _ _ _ _ _ _ _ _ g2.1 g2.2 hes (secAt_slice hs)
    · have g2 := hpo.wb 0x5B
      apply RR_then_wb
      exact S.printElems _ _ _ _ _ _ _ _ _ g2.1 g2.2 hes (secAt_slice hs)
  · -- map
    rename_i ty isNil ifaceK ifaceV keys vals
    have hk : ValsOk keys ∧ ValsOk vals := by simpa [ValOk] using hv
    split
    · exact ((hpo.w ty).w _).ok
    · have g1 := PO.ite (c := f.sharpV = true) ((hpo.w ty).wb 0x7B) (hpo.w ([0x6D, 0x61, 0x70, 0x5B] /- "map[" -/ : List UInt8))
      apply RR_bind (S.printPairs _ _ _ _ _ _ _ _ _ _ _ g1.1 g1.2 hk.1 hk.2 (secAt_map hs).1 (secAt_map hs).2)
      intro q1 q2 hq hoq
      rw [hq.f]
      exact RR_ok (P_wb hq _) hoq
  · -- pointer
    split
    · have g := hpo.wb 0x26
      exact S.printSlot _ _ _ _ _ _ _ _ g.1 g.2 (by simpa [ValOk] using hv) (secAt_ptrTo hs)
    · exact RR_unsupported _
  · exact RR_unsupported _
  · exact RR_unsupported _
  · exact RR_unsupported _


theorem rstep_printSlot (S : RSpec pub env1 env2 n) :
    ∀ ov0 p1 p2 v verb d i ro, PRel p1 p2 → p1.override = ov0 → ValOk v → SecAt pub ov0 v →
    RR pub ov0 (printSlot env1 (n + 1) p1 v verb d i ro) (printSlot env2 (n + 1) p2 v verb d i ro) := by
  intro ov0 p1 p2 v verb d i ro hp ho hv hs
  have hpo : PO ov0 p1 p2 := ⟨hp, ho⟩
  unfold printSlot
  split
  · rw [hp.f]
    split
    · exact (hpo.w _).ok
    · exact (hpo.w _).ok
  · dsimp only
    -- the general prologue, for any related pair in any override context
    have noMethod : ∀ ov q1 q2, PRel q1 q2 → q1.override = ov → SecAt pub ov v → RR pub ov
        (if i = true then printSlot env1 n q1 v verb (d + 1) false ro else printValue env1 n q1 v verb d ro)
        (if i = true then printSlot env2 n q2 v verb (d + 1) false ro else printValue env2 n q2 v verb d ro) := by
      intro ov q1 q2 hq hoq hsq
      split
      · exact S.printSlot _ _ _ _ _ _ _ _ hq hoq hv hsq
      · exact S.printValue _ _ _ _ _ _ _ hq hoq hv hsq
    have afterMethods : ∀ ov q1 q2, PRel q1 q2 → q1.override = ov → SecAt pub ov v → RR pub ov
        (if (!ro) = true then
          match slotMethods env1 n q1 v verb with
          | (true, r) => r
          | (false, _) => (if i = true then printSlot env1 n q1 v verb (d + 1) false ro else printValue env1 n q1 v verb d ro)
        else (if i = true then printSlot env1 n q1 v verb (d + 1) false ro else printValue env1 n q1 v verb d ro))
        (if (!ro) = true then
          match slotMethods env2 n q2 v verb with
          | (true, r) => r
          | (false, _) => (if i = true then printSlot env2 n q2 v verb (d + 1) false ro else printValue env2 n q2 v verb d ro)
        else (if i = true then printSlot env2 n q2 v verb (d + 1) false ro else printValue env2 n q2 v verb d ro)) := by
      intro ov q1 q2 hq hoq hsq
      split
      · exact RR_handled _ _ _ _ (S.slotMethods _ _ _ _ _ hq hoq hv hsq) (noMethod _ _ _ hq hoq hsq)
      · exact noMethod _ _ _ hq hoq hsq
    have body : ∀ ov q1 q2, PRel q1 q2 → q1.override = ov → SecAt pub ov v → RR pub ov
        (if (!ro) = true ∧ isSafeValue v = true then bracket PP.startSafeOverride q1 (fun q =>
            if (!ro) = true then
              match slotMethods env1 n q v verb with
              | (true, r) => r
              | (false, _) => (if i = true then printSlot env1 n q v verb (d + 1) false ro else printValue env1 n q v verb d ro)
            else (if i = true then printSlot env1 n q v verb (d + 1) false ro else printValue env1 n q v verb d ro))
         else
            if (!ro) = true then
              match slotMethods env1 n q1 v verb with
              | (true, r) => r
              | (false, _) => (if i = true then printSlot env1 n q1 v verb (d + 1) false ro else printValue env1 n q1 v verb d ro)
            else (if i = true then printSlot env1 n q1 v verb (d + 1) false ro else printValue env1 n q1 v verb d ro))
        (if (!ro) = true ∧ isSafeValue v = true then bracket PP.startSafeOverride q2 (fun q =>
            if (!ro) = true then
              match slotMethods env2 n q v verb with
              | (true, r) => r
              | (false, _) => (if i = true then printSlot env2 n q v verb (d + 1) false ro else printValue env2 n q v verb d ro)
            else (if i = true then printSlot env2 n q v verb (d + 1) false ro else printValue env2 n q v verb d ro))
         else
            if (!ro) = true then
              match slotMethods env2 n q2 v verb with
              | (true, r) => r
              | (false, _) => (if i = true then printSlot env2 n q2 v verb (d + 1) false ro else printValue env2 n q2 v verb d ro)
            else (if i = true then printSlot env2 n q2 v verb (d + 1) false ro else printValue env2 n q2 v verb d ro)) := by
      intro ov q1 q2 hq hoq hsq
      split
      · rename_i hc
        apply RR_bracket _ startOk_safeOverride hq hoq
        exact RR_from (afterMethods _ _ _ (startOk_safeOverride.rel _ _ hq) (ov_if_no_safe hoq) (secAt_flagged hsq (Or.inr hc.2)))
          (ov_if_no_safe hoq).symm
      · exact afterMethods _ _ _ hq hoq hsq
    have general : RR pub ov0
        (if (!i) = true ∧ isRegistered v = true then bracket PP.startSafeOverride p1 (fun q0 =>
          (if (!ro) = true ∧ isSafeValue v = true then bracket PP.startSafeOverride q0 (fun q =>
            if (!ro) = true then
              match slotMethods env1 n q v verb with
              | (true, r) => r
              | (false, _) => (if i = true then printSlot env1 n q v verb (d + 1) false ro else printValue env1 n q v verb d ro)
            else (if i = true then printSlot env1 n q v verb (d + 1) false ro else printValue env1 n q v verb d ro))
         else
            if (!ro) = true then
              match slotMethods env1 n q0 v verb with
              | (true, r) => r
              | (false, _) => (if i = true then printSlot env1 n q0 v verb (d + 1) false ro else printValue env1 n q0 v verb d ro)
            else (if i = true then printSlot env1 n q0 v verb (d + 1) false ro else printValue env1 n q0 v verb d ro)))
         else (if (!ro) = true ∧ isSafeValue v = true then bracket PP.startSafeOverride p1 (fun q =>
            if (!ro) = true then
              match slotMethods env1 n q v verb with
              | (true, r) => r
              | (false, _) => (if i = true then printSlot env1 n q v verb (d + 1) false ro else printValue env1 n q v verb d ro)
            else (if i = true then printSlot env1 n q v verb (d + 1) false ro else printValue env1 n q v verb d ro))
         else
            if (!ro) = true then
              match slotMethods env1 n p1 v verb with
              | (true, r) => r
              | (false, _) => (if i = true then printSlot env1 n p1 v verb (d + 1) false ro else printValue env1 n p1 v verb d ro)
            else (if i = true then printSlot env1 n p1 v verb (d + 1) false ro else printValue env1 n p1 v verb d ro)))
        (if (!i) = true ∧ isRegistered v = true then bracket PP.startSafeOverride p2 (fun q0 =>
          (if (!ro) = true ∧ isSafeValue v = true then bracket PP.startSafeOverride q0 (fun q =>
            if (!ro) = true then
              match slotMethods env2 n q v verb with
              | (true, r) => r
              | (false, _) => (if i = true then printSlot env2 n q v verb (d + 1) false ro else printValue env2 n q v verb d ro)
            else (if i = true then printSlot env2 n q v verb (d + 1) false ro else printValue env2 n q v verb d ro))
         else
            if (!ro) = true then
              match slotMethods env2 n q0 v verb with
              | (true, r) => r
              | (false, _) => (if i = true then printSlot env2 n q0 v verb (d + 1) false ro else printValue env2 n q0 v verb d ro)
            else (if i = true then printSlot env2 n q0 v verb (d + 1) false ro else printValue env2 n q0 v verb d ro)))
         else (if (!ro) = true ∧ isSafeValue v = true then bracket PP.startSafeOverride p2 (fun q =>
            if (!ro) = true then
              match slotMethods env2 n q v verb with
              | (true, r) => r
              | (false, _) => (if i = true then printSlot env2 n q v verb (d + 1) false ro else printValue env2 n q v verb d ro)
            else (if i = true then printSlot env2 n q v verb (d + 1) false ro else printValue env2 n q v verb d ro))
         else
            if (!ro) = true then
              match slotMethods env2 n p2 v verb with
              | (true, r) => r
              | (false, _) => (if i = true then printSlot env2 n p2 v verb (d + 1) false ro else printValue env2 n p2 v verb d ro)
            else (if i = true then printSlot env2 n p2 v verb (d + 1) false ro else printValue env2 n p2 v verb d ro))) := by
      split
      · rename_i hc
        apply RR_bracket _ startOk_safeOverride hp ho
        exact RR_from (body _ _ _ (startOk_safeOverride.rel _ _ hp) (ov_if_no_safe ho) (secAt_flagged hs (Or.inl hc.2)))
          (ov_if_no_safe ho).symm
      · exact body _ _ _ hp ho hs
    cases i with
    | true =>
      simp only [Bool.not_true, Bool.false_eq_true, false_and, if_false, if_true] at general ⊢
      exact general
    | false =>
      cases v with
      | safeW inner =>
        simp only [Bool.false_eq_true, if_false]
        apply RR_bracket _ startOk_safeOverride hp ho
        exact RR_from (S.printSlot _ _ _ _ _ _ _ _ (startOk_safeOverride.rel _ _ hp) (ov_if_no_safe ho) (valOk_safeW hv) (secAt_safeW hs))
          (ov_if_no_safe ho).symm
      | unsafeW inner =>
        simp only [Bool.false_eq_true, if_false]
        apply RR_bracket _ startOk_unsafeOverride hp ho
        exact RR_from (S.printSlot _ _ _ _ _ _ _ _ (startOk_unsafeOverride.rel _ _ hp) (ov_if_no_unsafe ho) (valOk_unsafeW hv) (secAt_unsafeW hs))
          (ov_if_no_unsafe ho).symm
      | redactable content ty =>
        simp only [Bool.false_eq_true, if_false]
        exact RR_preRedactable hp ho _ (by simpa [ValOk] using hv)
      | _ =>
        simp only [Bool.not_false, Bool.false_eq_true, true_and, if_false, if_true] at general ⊢
        exact general


theorem rstep_slotMethods (S : RSpec pub env1 env2 n) :
    ∀ ov0 p1 p2 v verb, PRel p1 p2 → p1.override = ov0 → ValOk v → SecAt pub ov0 v →
    RB pub ov0 (slotMethods env1 (n + 1) p1 v verb) (slotMethods env2 (n + 1) p2 v verb) := by
  intro ov0 p1 p2 v verb hp ho hv hs
  have hpo : PO ov0 p1 p2 := ⟨hp, ho⟩
  unfold slotMethods
  rw [hp.er, hp.ov]
  split
  · exact RB_mk hpo.ok
  · split
    · rename_i c ty
      split
      · have hsc : ScriptOk (.print (.cons (.redactable c ty) .nil) .done) := by
          simp only [ScriptOk, ValsOk]; exact ⟨⟨hv, trivial⟩, trivial⟩
        have hss : SecAtS pub ov0 (.print (.cons (.redactable c ty) .nil) .done) := by
          cases ov0 <;> simp [SecAtS, SecS, SecVs, SecV, AllPubS, AllPubVs, AllPubV]
        have := S.runScript _ _ _ _ hp ho hsc hss
        refine RB_mk ?_
        generalize runScript env1 n p1 (.print (.cons (.redactable c ty) .nil) .done) = x1 at this ⊢
        generalize runScript env2 n p2 (.print (.cons (.redactable c ty) .nil) .done) = x2 at this ⊢
        cases x1 <;> cases x2 <;> simp only [SR] at this <;> try (exact this.elim)
        · exact this
        · obtain ⟨hq, _, rfl, hv', hs'⟩ := this
          exact RR_panic hq.b hv' hs'
        · exact this
      · exact RB_mk hpo.ok
    · exact RB_mk (RR_unsupported _)
    · exact RB_mk (RR_unsupported _)
    · exact S.handleMethods _ _ _ _ _ hp ho hv hs

theorem secAtFs_cons {ov0 : Override} {nm : List Byte} {ex it : Bool} {v : Val} {r : Fields}
    (h : SecAtFs pub ov0 (.cons nm ex it v r)) : SecAt pub ov0 v ∧ SecAtFs pub ov0 r := by
  cases ov0
  · simp only [SecAtFs, SecFs] at h; exact h
  · simp only [SecAtFs, AllPubFs] at h; exact h
  · simp only [SecAtFs, SecFs] at h; exact h

theorem secAtVs_cons {ov0 : Override} {v : Val} {r : Vals}
    (h : SecAtVs pub ov0 (.cons v r)) : SecAt pub ov0 v ∧ SecAtVs pub ov0 r := by
  cases ov0
  · simp only [SecAtVs, SecVs] at h; exact h
  · simp only [SecAtVs, AllPubVs] at h; exact h
  · simp only [SecAtVs, SecVs] at h; exact h

theorem rstep_printFields (S : RSpec pub env1 env2 n) :
    ∀ ov0 p1 p2 fs verb d ro f, PRel p1 p2 → p1.override = ov0 → FieldsOk fs → SecAtFs pub ov0 fs →
    RR pub ov0 (printFields env1 (n + 1) p1 fs verb d ro f) (printFields env2 (n + 1) p2 fs verb d ro f) := by
  intro ov0 p1 p2 fs verb d rdo fst hp ho hfs hss
  have hpo : PO ov0 p1 p2 := ⟨hp, ho⟩
  unfold printFields
  split
  · exact hpo.ok
  · rename_i name exported it v rest
    have hv : ValOk v ∧ FieldsOk rest := by simpa [FieldsOk] using hfs
    have hsv := secAtFs_cons hss
    dsimp only
    rw [hp.f]
    have g1 := PO.ite (c := fst = true) hpo (PO.ite (c := p1.f.sharpV = true) (hpo.w ([0x2C, 0x20] /- ", " -/ : List UInt8)) (hpo.wb 0x20))
    revert g1
    generalize (if fst = true then _ else _ : PP) = x1
    generalize (if fst = true then _ else _ : PP) = x2
    intro g1
    rw [g1.1.f]
    have g2 := PO.ite (c := x1.f.plusV = true ∨ x1.f.sharpV = true) ((g1.w name).wb 0x3A) g1
    apply RR_bind (S.printSlot _ _ _ _ _ _ _ _ g2.1 g2.2 hv.1 hsv.1)
    intro q1 q2 hq hoq
    exact S.printFields _ _ _ _ _ _ _ _ hq hoq hv.2 hsv.2

theorem rstep_printElems (S : RSpec pub env1 env2 n) :
    ∀ ov0 p1 p2 vs verb d i ro f, PRel p1 p2 → p1.override = ov0 → ValsOk vs → SecAtVs pub ov0 vs →
    RR pub ov0 (printElems env1 (n + 1) p1 vs verb d i ro f) (printElems env2 (n + 1) p2 vs verb d i ro f) := by
  intro ov0 p1 p2 vs verb d i rdo fst hp ho hvs hss
  have hpo : PO ov0 p1 p2 := ⟨hp, ho⟩
  unfold printElems
  split
  · exact hpo.ok
  · rename_i v rest
    have hv : ValOk v ∧ ValsOk rest := by simpa [ValsOk] using hvs
    have hsv := secAtVs_cons hss
    dsimp only
    rw [hp.f]
    have g1 := PO.ite (c := fst = true) hpo (PO.ite (c := p1.f.sharpV = true) (hpo.w ([0x2C, 0x20] /- ", " -/ : List UInt8)) (hpo.wb 0x20))
    apply RR_bind (S.printSlot _ _ _ _ _ _ _ _ g1.1 g1.2 hv.1 hsv.1)
    intro q1 q2 hq hoq
    exact S.printElems _ _ _ _ _ _ _ _ _ hq hoq hv.2 hsv.2

theorem rstep_printPairs (S : RSpec pub env1 env2 n) :
    ∀ ov0 p1 p2 ks vs verb d ik iv ro f, PRel p1 p2 → p1.override = ov0 → ValsOk ks → ValsOk vs →
    SecAtVs pub ov0 ks → SecAtVs pub ov0 vs →
    RR pub ov0 (printPairs env1 (n + 1) p1 ks vs verb d ik iv ro f) (printPairs env2 (n + 1) p2 ks vs verb d ik iv ro f) := by
  intro ov0 p1 p2 ks vs verb d ik iv rdo fst hp ho hks hvs hsk hsv
  have hpo : PO ov0 p1 p2 := ⟨hp, ho⟩
  unfold printPairs
  split
  · rename_i k kr v vr
    have hk : ValOk k ∧ ValsOk kr := by simpa [ValsOk] using hks
    have hv : ValOk v ∧ ValsOk vr := by simpa [ValsOk] using hvs
    have sk := secAtVs_cons hsk
    have sv := secAtVs_cons hsv
    dsimp only
    rw [hp.f]
    have g1 := PO.ite (c := fst = true) hpo (PO.ite (c := p1.f.sharpV = true) (hpo.w ([0x2C, 0x20] /- ", " -/ : List UInt8)) (hpo.wb 0x20))
    apply RR_bind (S.printSlot _ _ _ _ _ _ _ _ g1.1 g1.2 hk.1 sk.1)
    intro q1 q2 hq hoq
    have g2 := (show PO ov0 q1 q2 from ⟨hq, hoq⟩).wb 0x3A
    apply RR_bind (S.printSlot _ _ _ _ _ _ _ _ g2.1 g2.2 hv.1 sv.1)
    intro r1 r2 hr hor
    exact S.printPairs _ _ _ _ _ _ _ _ _ _ _ hr hor hk.2 hv.2 sk.2 sv.2
  · exact hpo.ok

theorem argNumber_rel {ov0 : Override} {p1 p2 : PP} (h : PO ov0 p1 p2) (argNum : Nat) (f : List Byte) (numArgs : Nat) :
    PO ov0 (argNumber p1 argNum f numArgs).1 (argNumber p2 argNum f numArgs).1 ∧
    (argNumber p1 argNum f numArgs).2 = (argNumber p2 argNum f numArgs).2 := by
  obtain ⟨hp, ho⟩ := h
  unfold argNumber
  repeat' split
  all_goals first
    | exact ⟨⟨hp, ho⟩, rfl⟩
    | exact ⟨⟨by prel_upd hp, ho⟩, rfl⟩
    | skip


theorem widthStage_rel {ov0 : Override} {p1 p2 : PP} (h : PO ov0 p1 p2) (args : List Val) (argNum : Nat) (r : List Byte) (ai : Bool) :
    PO ov0 (widthStage p1 args argNum r ai).1 (widthStage p2 args argNum r ai).1 ∧
    (widthStage p1 args argNum r ai).2 = (widthStage p2 args argNum r ai).2 := by
  obtain ⟨hp, ho⟩ := h
  prel_cases
  simp only at ho
  unfold widthStage
  split
  · dsimp only
    generalize intFromArg args argNum = ifa
    obtain ⟨num, isInt, newArg⟩ := ifa
    dsimp only
    have h1 : PO ov0 ({ buf := b1, override := o, f := { f with wid := num.toNat, widPresent := isInt }, erroring := e, panicking := pa, wrapErrs := we, wrappedErr := wd, reordered := ro, goodArgNum := ga } : PP)
        { buf := b2, override := o, f := { f with wid := num.toNat, widPresent := isInt }, erroring := e, panicking := pa, wrapErrs := we, wrappedErr := wd, reordered := ro, goodArgNum := ga } :=
      ⟨by prel_upd hp, ho⟩
    have h2 := PO.ite (c := (!isInt) = true) (h1.w ([0x25, 0x21, 0x28, 0x42, 0x41, 0x44, 0x57, 0x49, 0x44, 0x54, 0x48, 0x29] /- "%!(BADWIDTH)" -/ : List UInt8)) h1
    revert h2
    generalize (if (!isInt) = true then _ else _ : PP) = x1
    generalize (if (!isInt) = true then _ else _ : PP) = x2
    intro h2
    refine ⟨?_, rfl⟩
    rw [h2.1.f]
    split
    · exact ⟨by prel_upd h2.1, h2.2⟩
    · exact h2
  · dsimp only
    generalize parsenum r = pn
    obtain ⟨w, wp, r'⟩ := pn
    dsimp only
    refine ⟨?_, rfl⟩
    split
    · exact ⟨by prel_upd hp, ho⟩
    · exact ⟨by prel_upd hp, ho⟩

theorem precStage_rel {ov0 : Override} {p1 p2 : PP} (h : PO ov0 p1 p2) (args : List Val) (argNum : Nat) (r : List Byte) (ai : Bool) :
    PO ov0 (precStage p1 args argNum r ai).1 (precStage p2 args argNum r ai).1 ∧
    (precStage p1 args argNum r ai).2 = (precStage p2 args argNum r ai).2 := by
  unfold precStage
  split
  · rename_i c r''
    dsimp only
    have g1 : PO ov0 (if ai = true then { p1 with goodArgNum := false } else p1) (if ai = true then { p2 with goodArgNum := false } else p2) :=
      PO.ite ⟨by prel_upd h.1, h.2⟩ h
    revert g1
    generalize (if ai = true then _ else _ : PP) = x1
    generalize (if ai = true then _ else _ : PP) = x2
    intro g1
    have g2 := argNumber_rel g1 argNum (c :: r'') args.length
    revert g2
    generalize argNumber x1 argNum (c :: r'') args.length = an1
    generalize argNumber x2 argNum (c :: r'') args.length = an2
    intro g2
    obtain ⟨y1, argNum1, r1, ai1⟩ := an1
    obtain ⟨y2, argNum2, r2, ai2⟩ := an2
    obtain ⟨g2, e2⟩ := g2
    simp only [Prod.mk.injEq] at e2
    obtain ⟨rfl, rfl, rfl⟩ := e2
    dsimp only at g2 ⊢
    split
    · dsimp only
      generalize intFromArg args argNum1 = ifa
      obtain ⟨num, isInt, newArg⟩ := ifa
      dsimp only
      generalize (if num < 0 then ((0 : Nat), false) else (num.toNat, isInt)) = pp
      obtain ⟨prec, precPresent⟩ := pp
      dsimp only
      refine ⟨?_, rfl⟩
      rw [g2.1.f]
      have h3 : PO ov0 { y1 with f := { y1.f with prec := prec, precPresent := precPresent } } { y2 with f := { y1.f with prec := prec, precPresent := precPresent } } :=
        ⟨by prel_upd g2.1, g2.2⟩
      exact PO.ite (h3.w _) h3
    · dsimp only
      generalize parsenum r1 = pn
      obtain ⟨pr, ppres, r3⟩ := pn
      dsimp only
      refine ⟨?_, rfl⟩
      rw [g2.1.f]
      exact ⟨by prel_upd g2.1, g2.2⟩
  · exact ⟨h, rfl⟩


theorem PO.ite' {ov0 : Override} {c1 c2 : Prop} [Decidable c1] [Decidable c2] (hc : c1 ↔ c2) {a1 b1 a2 b2 : PP}
    (ha : PO ov0 a1 a2) (hb : PO ov0 b1 b2) : PO ov0 (if c1 then a1 else b1) (if c2 then a2 else b2) := by
  by_cases h : c1
  · rw [if_pos h, if_pos (hc.1 h)]; exact ha
  · rw [if_neg h, if_neg (fun h2 => h (hc.2 h2))]; exact hb

theorem RR_ite' {ov0 : Override} {c1 c2 : Prop} [Decidable c1] [Decidable c2] (hc : c1 ↔ c2) {a1 b1 a2 b2 : Res}
    (ha : RR pub ov0 a1 a2) (hb : RR pub ov0 b1 b2) : RR pub ov0 (if c1 then a1 else b1) (if c2 then a2 else b2) := by
  by_cases h : c1
  · rw [if_pos h, if_pos (hc.1 h)]; exact ha
  · rw [if_neg h, if_neg (fun h2 => h (hc.2 h2))]; exact hb

theorem PO_setSafe {ov0 : Override} {p1 p2 : PP} (h : PO ov0 p1 p2) :
    PO ov0 (if p1.override ≠ .ovUnsafe then { p1 with buf := p1.buf.setMode .safeEsc } else p1)
           (if p2.override ≠ .ovUnsafe then { p2 with buf := p2.buf.setMode .safeEsc } else p2) :=
  PO.ite' (by rw [h.1.ov]) ⟨P_setMode h.1 .safeEsc (by decide), h.2⟩ h

theorem secAtL_tail {ov0 : Override} {a : Val} {l : List Val} (h : SecAtL pub ov0 (a :: l)) : SecAtL pub ov0 l :=
  fun v hv => h v (by simp [hv])

theorem rstep_doPrint (S : RSpec pub env1 env2 n) :
    ∀ ov0 p1 p2 args, PRel p1 p2 → p1.override = ov0 → ListOk args → SecAtL pub ov0 args →
    RR pub ov0 (doPrint env1 (n + 1) p1 args) (doPrint env2 (n + 1) p2 args) := by
  intro ov0 p1 p2 args hp ho ha hs
  unfold doPrint
  dsimp only
  have g := PO_setSafe (show PO ov0 p1 p2 from ⟨hp, ho⟩)
  exact S.doPrintLoop _ _ _ _ _ _ g.1 g.2 ha hs

theorem rstep_doPrintLoop (S : RSpec pub env1 env2 n) :
    ∀ ov0 p1 p2 args k ps, PRel p1 p2 → p1.override = ov0 → ListOk args → SecAtL pub ov0 args →
    RR pub ov0 (doPrintLoop env1 (n + 1) p1 args k ps) (doPrintLoop env2 (n + 1) p2 args k ps) := by
  intro ov0 p1 p2 args k ps hp ho ha hs
  have hpo : PO ov0 p1 p2 := ⟨hp, ho⟩
  unfold doPrintLoop
  split
  · exact hpo.ok
  · rename_i arg rest
    dsimp only
    have g1 := PO.ite (c := k > 0 ∧ (!isStringKind arg) = true ∧ (!ps) = true) (hpo.wb 0x20) hpo
    apply RR_bind (S.printArg _ _ _ _ _ g1.1 g1.2 (ha arg (by simp)) (hs arg (by simp)))
    intro q1 q2 hq hoq
    exact S.doPrintLoop _ _ _ _ _ _ hq hoq (fun v hv => ha v (by simp [hv])) (secAtL_tail hs)

theorem rstep_doPrintf (S : RSpec pub env1 env2 n) :
    ∀ ov0 p1 p2 f args, PRel p1 p2 → p1.override = ov0 → ListOk args → SecAtL pub ov0 args →
    RR pub ov0 (doPrintf env1 (n + 1) p1 f args) (doPrintf env2 (n + 1) p2 f args) := by
  intro ov0 p1 p2 f args hp ho ha hs
  unfold doPrintf
  dsimp only
  have g := PO_setSafe (show PO ov0 p1 p2 from ⟨hp, ho⟩)
  revert g
  generalize (if p1.override ≠ .ovUnsafe then _ else _ : PP) = x1
  generalize (if p2.override ≠ .ovUnsafe then _ else _ : PP) = x2
  intro g
  have g2 : PO ov0 { x1 with reordered := false } { x2 with reordered := false } := ⟨by prel_upd g.1, g.2⟩
  apply RR_bind (S.fmtLoop _ _ _ _ _ _ _ g2.1 g2.2 ha hs)
  intro q1 q2 hq hoq
  exact RR_ok hq hoq

theorem rstep_extraLoop (S : RSpec pub env1 env2 n) :
    ∀ ov0 p1 p2 args f, PRel p1 p2 → p1.override = ov0 → ListOk args → SecAtL pub ov0 args →
    RR pub ov0 (extraLoop env1 (n + 1) p1 args f) (extraLoop env2 (n + 1) p2 args f) := by
  intro ov0 p1 p2 args fst hp ho ha hs
  have hpo : PO ov0 p1 p2 := ⟨hp, ho⟩
  unfold extraLoop
  split
  · exact hpo.ok
  · rename_i a rest
    dsimp only
    have g1 := PO.ite (c := fst = true) hpo (hpo.w ([0x2C, 0x20] /- ", " -/ : List UInt8))
    revert g1
    generalize (if fst = true then _ else _ : PP) = x1
    generalize (if fst = true then _ else _ : PP) = x2
    intro g1
    apply RR_bind (ov0 := ov0)
    · split
      · exact (g1.w _).ok
      · have g2 := (g1.w (typeName a)).wb 0x3D
        exact S.printArg _ _ _ _ _ g2.1 g2.2 (ha a (by simp)) (hs a (by simp))
    · intro q1 q2 hq hoq
      exact S.extraLoop _ _ _ _ _ hq hoq (fun v hv => ha v (by simp [hv])) (secAtL_tail hs)

theorem secAtL_drop {ov0 : Override} {l : List Val} (h : SecAtL pub ov0 l) (k : Nat) : SecAtL pub ov0 (l.drop k) :=
  fun v hv => h v (List.mem_of_mem_drop hv)

theorem rstep_finishPrintf (S : RSpec pub env1 env2 n) :
    ∀ ov0 p1 p2 args k, PRel p1 p2 → p1.override = ov0 → ListOk args → SecAtL pub ov0 args →
    RR pub ov0 (finishPrintf env1 (n + 1) p1 args k) (finishPrintf env2 (n + 1) p2 args k) := by
  intro ov0 p1 p2 args k hp ho ha hs
  have hpo : PO ov0 p1 p2 := ⟨hp, ho⟩
  unfold finishPrintf
  apply RR_ite' (by rw [hp.ro])
  · dsimp only
    have h1 : PO ov0 { p1 with f := p1.f.clear } { p2 with f := p2.f.clear } := ⟨by prel_upd hp, ho⟩
    have g2 := h1.w ([0x25, 0x21, 0x28, 0x45, 0x58, 0x54, 0x52, 0x41, 0x20] /- "%!(EXTRA " -/ : List UInt8)
    apply RR_then_wb
    exact S.extraLoop _ _ _ _ _ g2.1 g2.2 (listOk_drop ha k) (secAtL_drop hs k)
  · exact hpo.ok


theorem secAtL_get {ov0 : Override} {args : List Val} (h : SecAtL pub ov0 args) {k : Nat} {a : Val} (hk : args[k]? = some a) :
    SecAt pub ov0 a := h a (List.mem_of_getElem? hk)

theorem rstep_fmtLoop (S : RSpec pub env1 env2 n) :
    ∀ ov0 p1 p2 f args k ai, PRel p1 p2 → p1.override = ov0 → ListOk args → SecAtL pub ov0 args →
    RR pub ov0 (fmtLoop env1 (n + 1) p1 f args k ai) (fmtLoop env2 (n + 1) p2 f args k ai) := by
  intro ov0 p1 p2 fmt args k ai hp ho ha hs
  unfold fmtLoop
  dsimp only
  have h0 : PO ov0 { p1 with goodArgNum := true } { p2 with goodArgNum := true } := ⟨by prel_upd hp, ho⟩
  have g1 := PO.ite (c := (fmt.takeWhile (· ≠ 0x25)).isEmpty = true) h0 (h0.w (fmt.takeWhile (· ≠ 0x25)))
  revert g1
  generalize (if (fmt.takeWhile (· ≠ 0x25)).isEmpty = true then _ else _ : PP) = x1
  generalize (if (fmt.takeWhile (· ≠ 0x25)).isEmpty = true then _ else _ : PP) = x2
  intro g1
  split
  · exact S.finishPrintf _ _ _ _ _ g1.1 g1.2 ha hs
  · rename_i c r0 _
    generalize parseFlags true {} r0 = pf
    obtain ⟨fs, r1⟩ := pf
    dsimp only
    split
    · rename_i c2 r2
      split
      · split
        · rename_i a ha2
          refine RR_bind (S.printArg _ _ _ _ _ ?_ ?_ (listOk_get ha ha2) (secAtL_get hs ha2)) ?_
          · split <;> prel_upd g1.1
          · split <;> exact g1.2
          · intro q1 q2 hq hoq
            exact S.fmtLoop _ _ _ _ _ _ _ hq hoq ha hs
        · refine RR_ok ?_ ?_
          · split <;> prel_upd g1.1
          · split <;> exact g1.2
      · exact S.directiveTail _ _ _ _ _ _ _ (by prel_upd g1.1) g1.2 ha hs
    · exact S.directiveTail _ _ _ _ _ _ _ (by prel_upd g1.1) g1.2 ha hs


theorem rstep_directiveTail (S : RSpec pub env1 env2 n) :
    ∀ ov0 p1 p2 f args k ai, PRel p1 p2 → p1.override = ov0 → ListOk args → SecAtL pub ov0 args →
    RR pub ov0 (directiveTail env1 (n + 1) p1 f args k ai) (directiveTail env2 (n + 1) p2 f args k ai) := by
  intro ov0 p1 p2 fmt args k ai hp ho ha hs
  have hpo : PO ov0 p1 p2 := ⟨hp, ho⟩
  unfold directiveTail
  dsimp only
  -- argument index
  have g1 := argNumber_rel hpo k fmt args.length
  revert g1
  generalize argNumber p1 k fmt args.length = an1
  generalize argNumber p2 k fmt args.length = an2
  intro g1
  obtain ⟨x1, k1, r1, ai1⟩ := an1
  obtain ⟨x2, k1', r1', ai1'⟩ := an2
  obtain ⟨g1, e1⟩ := g1
  simp only [Prod.mk.injEq] at e1
  obtain ⟨rfl, rfl, rfl⟩ := e1
  dsimp only at g1 ⊢
  -- width
  have g2 := widthStage_rel g1 args k1 r1 ai1
  revert g2
  generalize widthStage x1 args k1 r1 ai1 = ws1
  generalize widthStage x2 args k1 r1 ai1 = ws2
  intro g2
  obtain ⟨y1, k2, r2, ai2⟩ := ws1
  obtain ⟨y2, k2', r2', ai2'⟩ := ws2
  obtain ⟨g2, e2⟩ := g2
  simp only [Prod.mk.injEq] at e2
  obtain ⟨rfl, rfl, rfl⟩ := e2
  dsimp only at g2 ⊢
  -- precision
  have g3 := precStage_rel g2 args k2 r2 ai2
  revert g3
  generalize precStage y1 args k2 r2 ai2 = ps1
  generalize precStage y2 args k2 r2 ai2 = ps2
  intro g3
  obtain ⟨z1, k3, r3, ai3⟩ := ps1
  obtain ⟨z2, k3', r3', ai3'⟩ := ps2
  obtain ⟨g3, e3⟩ := g3
  simp only [Prod.mk.injEq] at e3
  obtain ⟨rfl, rfl, rfl⟩ := e3
  dsimp only at g3 ⊢
  -- trailing argument index
  have g4 : PO ov0 (if (!ai3) = true then argNumber z1 k3 r3 args.length else (z1, k3, r3, ai3)).1
      (if (!ai3) = true then argNumber z2 k3 r3 args.length else (z2, k3, r3, ai3)).1 ∧
      (if (!ai3) = true then argNumber z1 k3 r3 args.length else (z1, k3, r3, ai3)).2 =
      (if (!ai3) = true then argNumber z2 k3 r3 args.length else (z2, k3, r3, ai3)).2 := by
    split
    · exact argNumber_rel g3 _ _ _
    · exact ⟨g3, rfl⟩
  revert g4
  generalize (if (!ai3) = true then argNumber z1 k3 r3 args.length else (z1, k3, r3, ai3)) = an41
  generalize (if (!ai3) = true then argNumber z2 k3 r3 args.length else (z2, k3, r3, ai3)) = an42
  intro g4
  obtain ⟨w1, k4, r4, ai4⟩ := an41
  obtain ⟨w2, k4', r4', ai4'⟩ := an42
  obtain ⟨g4, e4⟩ := g4
  simp only [Prod.mk.injEq] at e4
  obtain ⟨rfl, rfl, rfl⟩ := e4
  dsimp only at g4 ⊢
  split
  · exact (g4.w _).ok
  · rename_i verb r' _
    have wbang := (g4.w percentBang).wr verb
    rw [g4.1.ga]
    split
    · have g := g4.wb 0x25
      exact S.fmtLoop _ _ _ _ _ _ _ g.1 g.2 ha hs
    · split
      · have g := wbang.w ([0x28, 0x42, 0x41, 0x44, 0x49, 0x4E, 0x44, 0x45, 0x58, 0x29] /- "(BADINDEX)" -/ : List UInt8)
        exact S.fmtLoop _ _ _ _ _ _ _ g.1 g.2 ha hs
      · split
        · have g := wbang.w ([0x28, 0x4D, 0x49, 0x53, 0x53, 0x49, 0x4E, 0x47, 0x29] /- "(MISSING)" -/ : List UInt8)
          exact S.fmtLoop _ _ _ _ _ _ _ g.1 g.2 ha hs
        · split
          · rename_i a ha2
            refine RR_bind (S.printArg _ _ _ _ _ ?_ ?_ (listOk_get ha ha2) (secAtL_get hs ha2)) ?_
            · split <;> prel_upd g4.1
            · split <;> exact g4.2
            · intro q1 q2 hq hoq
              exact S.fmtLoop _ _ _ _ _ _ _ hq hoq ha hs
          · refine RR_ok ?_ ?_
            · split <;> prel_upd g4.1
            · split <;> exact g4.2


/-- **The relational theorem for the whole printer**, at every fuel. -/
theorem rspec_all (he : EnvRel pub env1 env2) : ∀ n, RSpec pub env1 env2 n := by
  intro n
  induction n with
  | zero => exact rspec_zero pub env1 env2
  | succ n ih =>
    exact {
      printArg := rstep_printArg ih
      printArgBody := rstep_printArgBody he ih
      badVerb := rstep_badVerb ih
      handleMethods := rstep_handleMethods ih
      methDispatch := rstep_methDispatch he ih
      fmtString := rstep_fmtString he ih
      catchPanic := rstep_catchPanic ih
      runScript := rstep_runScript he ih
      printValue := rstep_printValue he ih
      printSlot := rstep_printSlot ih
      slotMethods := rstep_slotMethods ih
      printFields := rstep_printFields ih
      printElems := rstep_printElems ih
      printPairs := rstep_printPairs ih
      doPrint := rstep_doPrint ih
      doPrintLoop := rstep_doPrintLoop ih
      doPrintf := rstep_doPrintf ih
      fmtLoop := rstep_fmtLoop ih
      directiveTail := rstep_directiveTail ih
      finishPrintf := rstep_finishPrintf ih
      extraLoop := rstep_extraLoop ih }

end Redact
