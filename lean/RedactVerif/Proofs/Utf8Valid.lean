import RedactVerif.Proofs.NI
/-
Complete UTF-8 characters (by the tables of `utf8.DecodeRune`), and buffers /
payloads that end in one: after a complete character the truncated-UTF-8 tail
test is false and no marker can be completed across the boundary.
-/
namespace Redact

/-! ### Complete UTF-8 characters -/

/-- A complete, valid UTF-8 encoding of one character, by the tables of `utf8.DecodeRune`. -/
def validRuneB : List Byte → Bool
  | [a] => a < 0x80
  | [a, b] => a ≥ 0x80 && (match leadInfo a with | some (2, lo, hi) => lo ≤ b && b ≤ hi | _ => false)
  | [a, b, c] => a ≥ 0x80 && (match leadInfo a with | some (3, lo, hi) => lo ≤ b && b ≤ hi && isCont c | _ => false)
  | [a, b, c, d] => a ≥ 0x80 && (match leadInfo a with | some (4, lo, hi) => lo ≤ b && b ≤ hi && isCont c && isCont d | _ => false)
  | _ => false

theorem byte_forall (P : Byte → Prop) (h : ∀ n : Fin 256, P (UInt8.ofNat n.val)) : ∀ a : Byte, P a := by
  intro a
  have := h ⟨a.toNat, a.toNat_lt⟩
  simpa using this

theorem runeStart_of_lead : ∀ a : Byte, a ≥ 0xC0 → runeStart a = true := by
  apply byte_forall; decide +kernel

theorem not_runeStart_of_cont : ∀ a : Byte, 0x80 ≤ a → a ≤ 0xBF → runeStart a = false := by
  apply byte_forall; decide +kernel

theorem lead_ge : ∀ a : Byte, ∀ sz lo hi, leadInfo a = some (sz, lo, hi) → a ≥ 0xC2 := by
  intro a sz lo hi h
  unfold leadInfo at h
  split at h
  · cases h
  · rename_i h1; simpa using h1

/-- What validity gives about the bytes: the first is ASCII or a lead byte; all others are continuation bytes. -/
theorem valid2 {a b : Byte} (h : validRuneB [a, b] = true) :
    a ≥ 0xC2 ∧ 0x80 ≤ b ∧ b ≤ 0xBF ∧ decodeRune [a, b] = (false, 2) := by
  simp only [validRuneB, Bool.and_eq_true, decide_eq_true_eq] at h
  obtain ⟨ha, h2⟩ := h
  split at h2
  · rename_i lo hi hl
    have hb := leadInfo_bounds hl
    have hge := lead_ge a _ _ _ hl
    simp only [Bool.and_eq_true, decide_eq_true_eq] at h2
    refine ⟨hge, Nat.le_trans hb.2.2.2 h2.1, Nat.le_trans h2.2 hb.1, ?_⟩
    have hna : ¬ a < 0x80 := by simpa using ha
    simp [decodeRune, hna, hl, h2.1, h2.2]
  · cases h2

theorem isCont_bounds {c : Byte} (h : isCont c = true) : 0x80 ≤ c ∧ c ≤ 0xBF := by
  simpa [isCont] using h

theorem valid3 {a b c : Byte} (h : validRuneB [a, b, c] = true) :
    a ≥ 0xC2 ∧ 0x80 ≤ b ∧ b ≤ 0xBF ∧ 0x80 ≤ c ∧ c ≤ 0xBF ∧ decodeRune [a, b, c] = (false, 3) := by
  simp only [validRuneB, Bool.and_eq_true, decide_eq_true_eq] at h
  obtain ⟨ha, h2⟩ := h
  split at h2
  · rename_i lo hi hl
    have hb := leadInfo_bounds hl
    have hge := lead_ge a _ _ _ hl
    simp only [Bool.and_eq_true, decide_eq_true_eq] at h2
    obtain ⟨⟨h21, h22⟩, hc⟩ := h2
    have hcb := isCont_bounds hc
    refine ⟨hge, Nat.le_trans hb.2.2.2 h21, Nat.le_trans h22 hb.1, hcb.1, hcb.2, ?_⟩
    have hna : ¬ a < 0x80 := by simpa using ha
    simp [decodeRune, hna, hl, h21, h22, hc]
  · cases h2

theorem valid4 {a b c d : Byte} (h : validRuneB [a, b, c, d] = true) :
    a ≥ 0xC2 ∧ 0x80 ≤ b ∧ b ≤ 0xBF ∧ 0x80 ≤ c ∧ c ≤ 0xBF ∧ 0x80 ≤ d ∧ d ≤ 0xBF ∧ decodeRune [a, b, c, d] = (false, 4) := by
  simp only [validRuneB, Bool.and_eq_true, decide_eq_true_eq] at h
  obtain ⟨ha, h2⟩ := h
  split at h2
  · rename_i lo hi hl
    have hb := leadInfo_bounds hl
    have hge := lead_ge a _ _ _ hl
    simp only [Bool.and_eq_true, decide_eq_true_eq] at h2
    obtain ⟨⟨⟨h21, h22⟩, hc⟩, hd⟩ := h2
    have hcb := isCont_bounds hc
    have hdb := isCont_bounds hd
    refine ⟨hge, Nat.le_trans hb.2.2.2 h21, Nat.le_trans h22 hb.1, hcb.1, hcb.2, hdb.1, hdb.2, ?_⟩
    have hna : ¬ a < 0x80 := by simpa using ha
    simp [decodeRune, hna, hl, h21, h22, hc, hd]
  · cases h2

/-- After a complete character the tail test is false, whatever precedes. -/
theorem tailBad_valid2 (x : List Byte) {a b : Byte} (h : validRuneB [a, b] = true) : tailBad (x ++ [a, b]) = false := by
  obtain ⟨ha, hb1, hb2, hd⟩ := valid2 h
  have hs := runeStart_of_lead a (Nat.le_trans (by decide) ha)
  have hnb : ¬ b < 0x80 := by simpa using hb1
  rw [tailBad_eq_tbR]
  simp only [List.reverse_append, List.reverse_cons, List.reverse_nil, List.nil_append, List.cons_append]
  have n : ¬ (x.length + 1 < 1) := by omega
  simp [tbR, hnb, backScan, hs, n, hd]

theorem tailBad_valid3 (x : List Byte) {a b c : Byte} (h : validRuneB [a, b, c] = true) : tailBad (x ++ [a, b, c]) = false := by
  obtain ⟨ha, hb1, hb2, hc1, hc2, hd⟩ := valid3 h
  have hs := runeStart_of_lead a (Nat.le_trans (by decide) ha)
  have hsb := not_runeStart_of_cont b hb1 hb2
  have hnc : ¬ c < 0x80 := by simpa using hc1
  rw [tailBad_eq_tbR]
  simp only [List.reverse_append, List.reverse_cons, List.reverse_nil, List.nil_append, List.cons_append]
  have n : ¬ (x.length + 1 + 1 < 2) := by omega
  simp [tbR, hnc, backScan, hs, hsb, n, hd]

theorem tailBad_valid4 (x : List Byte) {a b c d : Byte} (h : validRuneB [a, b, c, d] = true) : tailBad (x ++ [a, b, c, d]) = false := by
  obtain ⟨ha, hb1, hb2, hc1, hc2, hd1, hd2, hd⟩ := valid4 h
  have hs := runeStart_of_lead a (Nat.le_trans (by decide) ha)
  have hsb := not_runeStart_of_cont b hb1 hb2
  have hsc := not_runeStart_of_cont c hc1 hc2
  have hnd : ¬ d < 0x80 := by simpa using hd1
  rw [tailBad_eq_tbR]
  simp only [List.reverse_append, List.reverse_cons, List.reverse_nil, List.nil_append, List.cons_append]
  have n : ¬ (x.length + 1 + 1 + 1 < 3) := by omega
  simp [tbR, hnd, backScan, hs, hsb, hsc, n, hd]


theorem tailBad_valid1 (x : List Byte) {a : Byte} (h : validRuneB [a] = true) : tailBad (x ++ [a]) = false := by
  have ha : a < 0x80 := by simpa [validRuneB] using h
  rw [tailBad_eq_tbR]
  simp [tbR, ha]

/-- The shape of a valid character: 1 to 4 bytes. -/
theorem valid_cases {r : List Byte} (h : validRuneB r = true) :
    (∃ a, r = [a]) ∨ (∃ a b, r = [a, b]) ∨ (∃ a b c, r = [a, b, c]) ∨ (∃ a b c d, r = [a, b, c, d]) := by
  match r, h with
  | [a], _ => exact Or.inl ⟨a, rfl⟩
  | [a, b], _ => exact Or.inr (Or.inl ⟨a, b, rfl⟩)
  | [a, b, c], _ => exact Or.inr (Or.inr (Or.inl ⟨a, b, c, rfl⟩))
  | [a, b, c, d], _ => exact Or.inr (Or.inr (Or.inr ⟨a, b, c, d, rfl⟩))

theorem tailBad_valid (x r : List Byte) (h : validRuneB r = true) : tailBad (x ++ r) = false := by
  rcases valid_cases h with ⟨a, rfl⟩ | ⟨a, b, rfl⟩ | ⟨a, b, c, rfl⟩ | ⟨a, b, c, d, rfl⟩
  · exact tailBad_valid1 x h
  · exact tailBad_valid2 x h
  · exact tailBad_valid3 x h
  · exact tailBad_valid4 x h

theorem ne_of_le_BF {c : Byte} (h : c ≤ 0xBF) : c ≠ 0xE2 := by
  intro hh; subst hh; revert h; decide

theorem ne_E2_of_lt {c : Byte} (h : c < 0x80) : c ≠ 0xE2 := by
  intro hh; subst hh; revert h; decide

theorem ne_80_of_lt {c : Byte} (h : c < 0x80) : c ≠ 0x80 := by
  intro hh; subst hh; revert h; decide

/-- A complete character leaves no dangling marker prefix. -/
theorem dangB_valid (x r : List Byte) (h : validRuneB r = true) : dangB (x ++ r) = false := by
  rcases valid_cases h with ⟨a, rfl⟩ | ⟨a, b, rfl⟩ | ⟨a, b, c, rfl⟩ | ⟨a, b, c, d, rfl⟩
  · have ha : a < 0x80 := by simpa [validRuneB] using h
    unfold dangB
    simp only [List.reverse_append, List.reverse_cons, List.reverse_nil, List.nil_append, List.cons_append]
    split
    · rename_i heq; simp only [List.cons.injEq] at heq; exact absurd heq.1 (ne_E2_of_lt ha)
    · rename_i heq; simp only [List.cons.injEq] at heq; exact absurd heq.1 (ne_80_of_lt ha)
    · rfl
  · obtain ⟨ha, _, hb2, _⟩ := valid2 h
    unfold dangB
    simp only [List.reverse_append, List.reverse_cons, List.reverse_nil, List.nil_append, List.cons_append]
    split
    · rename_i heq; simp only [List.cons.injEq] at heq; exact absurd heq.1 (ne_of_le_BF hb2)
    · rename_i heq; simp only [List.cons.injEq] at heq
      have : a = 0xE2 := heq.2.1
      exact absurd h (by subst this; simp [validRuneB, leadInfo])
    · rfl
  · obtain ⟨_, _, hb2, _, hc2, _⟩ := valid3 h
    unfold dangB
    simp only [List.reverse_append, List.reverse_cons, List.reverse_nil, List.nil_append, List.cons_append]
    split
    · rename_i heq; simp only [List.cons.injEq] at heq; exact absurd heq.1 (ne_of_le_BF hc2)
    · rename_i heq; simp only [List.cons.injEq] at heq; exact absurd heq.2.1 (ne_of_le_BF hb2)
    · rfl
  · obtain ⟨_, _, _, _, hc2, _, hd2, _⟩ := valid4 h
    unfold dangB
    simp only [List.reverse_append, List.reverse_cons, List.reverse_nil, List.nil_append, List.cons_append]
    split
    · rename_i heq; simp only [List.cons.injEq] at heq; exact absurd heq.1 (ne_of_le_BF hd2)
    · rename_i heq; simp only [List.cons.injEq] at heq; exact absurd heq.2.1 (ne_of_le_BF hc2)
    · rfl

theorem straddles_of_not_dangB (a b : List Byte) (h : dangB a = false) : straddles a b = false := by
  unfold dangB at h
  unfold straddles
  split <;> first | rfl | (rename_i heq; rw [heq] at h; simp at h)

theorem tokenize_single_ne {c : Byte} (h : c ≠ 0xE2) : tokenize [c] = [.b c] := by
  rw [tokenize_plain_ne c [] h]; simp

theorem tokenize_two_ne {b c : Byte} (hb : b ≠ 0xE2) (hc : c ≠ 0xE2) : tokenize [b, c] = [.b b, .b c] := by
  rw [tokenize_plain_ne b [c] hb, tokenize_single_ne hc]

theorem tokenize_three_ne {b c d : Byte} (hb : b ≠ 0xE2) (hc : c ≠ 0xE2) (hd : d ≠ 0xE2) :
    tokenize [b, c, d] = [.b b, .b c, .b d] := by
  rw [tokenize_plain_ne b [c, d] hb, tokenize_two_ne hc hd]

/-- The tokens of one complete character: a marker, or its bytes. -/
theorem tokenize_rune {r : List Byte} (h : validRuneB r = true) :
    tokenize r = [.s] ∨ tokenize r = [.e] ∨ tokenize r = r.map .b := by
  rcases valid_cases h with ⟨a, rfl⟩ | ⟨a, b, rfl⟩ | ⟨a, b, c, rfl⟩ | ⟨a, b, c, d, rfl⟩
  · have ha : a < 0x80 := by simpa [validRuneB] using h
    exact Or.inr (Or.inr (tokenize_single_ne (ne_E2_of_lt ha)))
  · obtain ⟨_, _, hb2, _⟩ := valid2 h
    have ha : a ≠ 0xE2 := by
      intro hh; subst hh; simp [validRuneB, leadInfo] at h
    exact Or.inr (Or.inr (by rw [tokenize_plain_ne a [b] ha, tokenize_single_ne (ne_of_le_BF hb2)]; rfl))
  · obtain ⟨_, _, hb2, _, hc2, _⟩ := valid3 h
    by_cases hm : a = 0xE2 ∧ b = 0x80 ∧ (c = 0xB9 ∨ c = 0xBA)
    · obtain ⟨rfl, rfl, hc⟩ := hm
      rcases hc with rfl | rfl
      · left; simp
      · right; left; simp
    · right; right
      have hp : tokenize (a :: [b, c]) = .b a :: tokenize [b, c] := by
        apply tokenize_plain
        · intro r' ha hr; simp only [List.cons.injEq] at hr; exact hm ⟨ha, hr.1, Or.inl hr.2.1⟩
        · intro r' ha hr; simp only [List.cons.injEq] at hr; exact hm ⟨ha, hr.1, Or.inr hr.2.1⟩
      rw [hp, tokenize_two_ne (ne_of_le_BF hb2) (ne_of_le_BF hc2)]; rfl
  · obtain ⟨_, _, hb2, _, hc2, _, hd2, _⟩ := valid4 h
    have ha : a ≠ 0xE2 := by
      intro hh; subst hh; simp [validRuneB, leadInfo] at h
    right; right
    rw [tokenize_plain_ne a [b, c, d] ha, tokenize_three_ne (ne_of_le_BF hb2) (ne_of_le_BF hc2) (ne_of_le_BF hd2)]; rfl

/-- No marker straddles the boundary in front of a complete character. -/
theorem straddles_before_rune (q : List Byte) {r : List Byte} (h : validRuneB r = true) : straddles q r = false := by
  have hfirst : ∃ a t, r = a :: t ∧ (a < 0x80 ∨ a ≥ 0xC2) := by
    rcases valid_cases h with ⟨a, rfl⟩ | ⟨a, b, rfl⟩ | ⟨a, b, c, rfl⟩ | ⟨a, b, c, d, rfl⟩
    · exact ⟨a, [], rfl, Or.inl (by simpa [validRuneB] using h)⟩
    · exact ⟨a, _, rfl, Or.inr (valid2 h).1⟩
    · exact ⟨a, _, rfl, Or.inr (valid3 h).1⟩
    · exact ⟨a, _, rfl, Or.inr (valid4 h).1⟩
  obtain ⟨a, t, rfl, ha⟩ := hfirst
  have h80 : a ≠ 0x80 := by
    rcases ha with ha | ha
    · exact ne_80_of_lt ha
    · intro hh; subst hh; revert ha; decide
  have hB9 : a ≠ 0xB9 := by
    rcases ha with ha | ha <;> (intro hh; subst hh; revert ha; decide)
  have hBA : a ≠ 0xBA := by
    rcases ha with ha | ha <;> (intro hh; subst hh; revert ha; decide)
  unfold straddles
  split <;> first | rfl | (rename_i heq; simp only [List.cons.injEq] at heq; first | exact absurd heq.1 h80 | exact absurd heq.1 hB9 | exact absurd heq.1 hBA)

theorem tokenize_append_rune (q : List Byte) {r : List Byte} (h : validRuneB r = true) :
    tokenize (q ++ r) = tokenize q ++ tokenize r :=
  tokenize_append_of_not_straddles _ _ (straddles_before_rune q h)

/-! ### Token lists and byte strings that end in a complete character -/

theorem tailBad_endB (x : List Byte) : tailBad (x ++ endB) = false := by
  rw [tailBad_eq_tbR]
  simp only [List.reverse_append]
  have he : endB.reverse = [0xBA, 0x80, 0xE2] := rfl
  rw [he]
  have n : ¬ (x.length + 1 + 1 < 2) := by omega
  unfold tbR
  simp [backScan, runeStart_80, runeStart_E2, n]
  decide

theorem getLast?_append_ne_nil {α : Type} (a b : List α) (h : b ≠ []) : (a ++ b).getLast? = b.getLast? := by
  simp only [List.getLast?_append]
  cases hb : b.getLast? with
  | none => simp [List.getLast?_eq_none_iff] at hb; exact absurd hb h
  | some x => simp

def AllMarkers (m : List Tok) : Prop := ∀ x ∈ m, x.isMarker = true

/-- Trailing markers aside, the tokens end with the bytes of a complete character (or there are
only markers). -/
def RuneEnd (t : List Tok) : Prop :=
  AllMarkers t ∨ ∃ u r m, t = u ++ r.map .b ++ m ∧ validRuneB r = true ∧ AllMarkers m

theorem runeEnd_nil : RuneEnd [] := Or.inl (fun _ h => by simp at h)

theorem allMarkers_snoc {m : List Tok} {x : Tok} (hm : AllMarkers m) (hx : x.isMarker = true) : AllMarkers (m ++ [x]) := by
  intro y hy
  simp only [List.mem_append, List.mem_singleton] at hy
  rcases hy with hy | rfl
  · exact hm y hy
  · exact hx

theorem runeEnd_snoc_marker {t : List Tok} (h : RuneEnd t) {x : Tok} (hx : x.isMarker = true) : RuneEnd (t ++ [x]) := by
  rcases h with h | ⟨u, r, m, rfl, hr, hm⟩
  · exact Or.inl (allMarkers_snoc h hx)
  · exact Or.inr ⟨u, r, m ++ [x], by simp, hr, allMarkers_snoc hm hx⟩

theorem runeEnd_snoc_rune (t : List Tok) {r : List Byte} (hr : validRuneB r = true) : RuneEnd (t ++ r.map .b) :=
  Or.inr ⟨t, r, [], by simp, hr, fun _ h => by simp at h⟩

theorem allMarkers_dropLast {m : List Tok} (hm : AllMarkers m) : AllMarkers m.dropLast :=
  fun x hx => hm x (by rw [List.dropLast_eq_take] at hx; exact List.mem_of_mem_take hx)

theorem valid_ne_nil {r : List Byte} (h : validRuneB r = true) : r ≠ [] := by
  intro hh; subst hh; simp [validRuneB] at h

/-- Eliding a trailing marker keeps the property. -/
theorem runeEnd_dropLast {t : List Tok} (h : RuneEnd t) {x : Tok} (hl : t.getLast? = some x) (hx : x.isMarker = true) :
    RuneEnd t.dropLast := by
  rcases h with h | ⟨u, r, m, rfl, hr, hm⟩
  · exact Or.inl (allMarkers_dropLast h)
  · by_cases hme : m = []
    · subst hme
      exfalso
      simp only [List.append_nil] at hl
      have hne := valid_ne_nil hr
      obtain ⟨r0, c, rfl⟩ : ∃ r0 c, r = r0 ++ [c] := ⟨r.dropLast, r.getLast hne, (List.dropLast_concat_getLast hne).symm⟩
      simp [List.map_append, ← List.append_assoc] at hl
      subst hl
      simp [Tok.isMarker] at hx
    · refine Or.inr ⟨u, r, m.dropLast, ?_, hr, allMarkers_dropLast hm⟩
      rw [List.dropLast_append_of_ne_nil hme]

theorem allMarkers_append {a b : List Tok} (ha : AllMarkers a) (hb : AllMarkers b) : AllMarkers (a ++ b) := by
  intro x hx
  simp only [List.mem_append] at hx
  rcases hx with hx | hx
  · exact ha x hx
  · exact hb x hx

theorem runeEnd_append {a b : List Tok} (ha : RuneEnd a) (hb : RuneEnd b) : RuneEnd (a ++ b) := by
  rcases hb with hb | ⟨u, r, m, rfl, hr, hm⟩
  · rcases ha with ha | ⟨u, r, m, rfl, hr, hm⟩
    · exact Or.inl (allMarkers_append ha hb)
    · exact Or.inr ⟨u, r, m ++ b, by simp, hr, allMarkers_append hm hb⟩
  · exact Or.inr ⟨a ++ u, r, m, by simp, hr, hm⟩

theorem untok_map_b (r : List Byte) : untok (r.map .b) = r := by
  induction r with
  | nil => rfl
  | cons x r ih => simp [untok, Tok.bytes, ih]

/-- The tail test is false on such a buffer. -/
theorem tailBad_of_runeEnd (l : List Byte) (h : RuneEnd (tokenize l)) : tailBad l = false := by
  by_cases hne : tokenize l = []
  · have : l = [] := tokenize_eq_nil hne
    subst this; decide
  · obtain ⟨u0, x, hux⟩ : ∃ u x, tokenize l = u ++ [x] :=
      ⟨(tokenize l).dropLast, (tokenize l).getLast hne, (List.dropLast_concat_getLast hne).symm⟩
    have hl : l = untok u0 ++ x.bytes := by
      have := untok_tokenize l
      rw [hux, untok_append] at this
      simpa using this.symm
    cases x with
    | s => rw [hl]; exact tailBad_startB _
    | e => rw [hl]; exact tailBad_endB _
    | b c =>
      -- the last token is plain: no trailing markers, so the tokens end with a complete character
      rcases h with h | ⟨u, r, m, ht, hr, hm⟩
      · have := h (.b c) (by rw [hux]; simp)
        simp [Tok.isMarker] at this
      · have hme : m = [] := by
          by_cases hme : m = []
          · exact hme
          · exfalso
            have hlast : (tokenize l).getLast? = some (.b c) := by rw [hux]; simp
            rw [ht, getLast?_append_ne_nil _ _ hme] at hlast
            have := hm (.b c) (List.mem_of_getLast? hlast)
            simp [Tok.isMarker] at this
        subst hme
        have : l = untok u ++ r := by
          have := untok_tokenize l
          rw [ht, List.append_nil, untok_append, untok_map_b] at this
          exact this.symm
        rw [this]
        exact tailBad_valid _ _ hr

/-- Pending bytes: empty, or ending in a complete character. -/
def EndsRune (p : List Byte) : Prop := p = [] ∨ ∃ q r, p = q ++ r ∧ validRuneB r = true

theorem endsRune_append {a b : List Byte} (ha : EndsRune a) (hb : EndsRune b) : EndsRune (a ++ b) := by
  rcases hb with rfl | ⟨q, r, rfl, hr⟩
  · simpa using ha
  · exact Or.inr ⟨a ++ q, r, by simp, hr⟩

theorem straddles_of_endsRune (a b : List Byte) (h : EndsRune a) : straddles a b = false := by
  rcases h with rfl | ⟨q, r, rfl, hr⟩
  · unfold straddles; simp
  · exact straddles_of_not_dangB _ _ (dangB_valid q r hr)

/-- Pending tokens: empty, or ending in a marker or in the bytes of a complete character. -/
def PendRune (x : List Tok) : Prop :=
  x = [] ∨ ∃ y, x = y ++ [.s] ∨ x = y ++ [.e] ∨ ∃ r, x = y ++ r.map .b ∧ validRuneB r = true

theorem pendRune_of_bytes (p : List Byte) (h : EndsRune p) : PendRune (tokenize p) := by
  rcases h with rfl | ⟨q, r, rfl, hr⟩
  · exact Or.inl (by simp)
  · right
    rw [tokenize_append_rune q hr]
    rcases tokenize_rune hr with h1 | h1 | h1
    · exact ⟨tokenize q, Or.inl (by rw [h1])⟩
    · exact ⟨tokenize q, Or.inr (Or.inl (by rw [h1]))⟩
    · exact ⟨tokenize q, Or.inr (Or.inr ⟨r, by rw [h1], hr⟩)⟩

/-! ### `utf8.EncodeRune` always yields a complete character -/

theorem cont_or : ∀ k : Fin 64, isCont (UInt8.ofNat (0x80 ||| k.val)) = true := by decide +kernel

theorem valid2_of : ∀ x : Fin 32, 2 ≤ x.val → ∀ z : Fin 64,
    validRuneB [UInt8.ofNat (0xC0 ||| x.val), UInt8.ofNat (0x80 ||| z.val)] = true := by decide +kernel

theorem valid3_lead : ∀ x : Fin 16, ∀ y : Fin 64, (1 ≤ x.val ∨ 32 ≤ y.val) → ¬ (x.val = 13 ∧ 32 ≤ y.val) →
    validRuneB [UInt8.ofNat (0xE0 ||| x.val), UInt8.ofNat (0x80 ||| y.val), 0x80] = true := by decide +kernel

theorem valid4_lead : ∀ x : Fin 8, ∀ y : Fin 64, (1 ≤ x.val ∨ 16 ≤ y.val) → (x.val < 4 ∨ (x.val = 4 ∧ y.val < 16)) →
    validRuneB [UInt8.ofNat (0xF0 ||| x.val), UInt8.ofNat (0x80 ||| y.val), 0x80, 0x80] = true := by decide +kernel

theorem valid3_swap {a b c : Byte} (hc : isCont c = true) (h : validRuneB [a, b, 0x80] = true) : validRuneB [a, b, c] = true := by
  simp only [validRuneB, Bool.and_eq_true] at h ⊢
  refine ⟨h.1, ?_⟩
  have h2 := h.2
  split at h2
  · simp only [Bool.and_eq_true] at h2 ⊢
    exact ⟨h2.1, hc⟩
  · cases h2

theorem valid4_swap {a b c d : Byte} (hc : isCont c = true) (hd : isCont d = true) (h : validRuneB [a, b, 0x80, 0x80] = true) :
    validRuneB [a, b, c, d] = true := by
  simp only [validRuneB, Bool.and_eq_true] at h ⊢
  refine ⟨h.1, ?_⟩
  have h2 := h.2
  split at h2
  · simp only [Bool.and_eq_true] at h2 ⊢
    exact ⟨⟨h2.1.1, hc⟩, hd⟩
  · cases h2

theorem and3F (n : Nat) : n &&& 0x3F = n % 64 := by
  have := Nat.and_two_pow_sub_one_eq_mod n 6
  simpa using this


theorem runeLen_cases (r : Int) :
    (runeLen r = none) ∨
    (runeLen r = some 1 ∧ 0 ≤ r ∧ r ≤ 0x7F) ∨
    (runeLen r = some 2 ∧ 0x80 ≤ r ∧ r ≤ 0x7FF) ∨
    (runeLen r = some 3 ∧ 0x800 ≤ r ∧ r ≤ 0xFFFF ∧ ¬ (0xD800 ≤ r ∧ r ≤ 0xDFFF)) ∨
    (runeLen r = some 4 ∧ 0x10000 ≤ r ∧ r ≤ 0x10FFFF) := by
  unfold runeLen
  split
  · exact Or.inl rfl
  · split
    · exact Or.inr (Or.inl ⟨rfl, by omega, by omega⟩)
    · split
      · exact Or.inr (Or.inr (Or.inl ⟨rfl, by omega, by omega⟩))
      · split
        · exact Or.inl rfl
        · rename_i hs
          split
          · refine Or.inr (Or.inr (Or.inr (Or.inl ⟨rfl, by omega, by omega, ?_⟩)))
            intro h; apply hs; simp [h.1, h.2]
          · split
            · exact Or.inr (Or.inr (Or.inr (Or.inr ⟨rfl, by omega, by omega⟩)))
            · exact Or.inl rfl

/-- Whatever the rune (valid or not: invalid ones encode U+FFFD), its encoding is one complete character. -/
theorem valid_encodeRune (r : Int) : validRuneB (encodeRune r) = true := by
  rcases runeLen_cases r with h | ⟨h, h0, h1⟩ | ⟨h, h0, h1⟩ | ⟨h, h0, h1, hs⟩ | ⟨h, h0, h1⟩
  · simp only [encodeRune, h]; decide
  · simp only [encodeRune, h, validRuneB]
    have : r.toNat ≤ 127 := by omega
    have hlt : r.toNat < 256 := by omega
    simp only [decide_eq_true_eq]
    show UInt8.ofNat r.toNat < 128
    rw [UInt8.lt_iff_toNat_lt]
    simp [UInt8.toNat_ofNat', Nat.mod_eq_of_lt hlt]
    omega
  · simp only [encodeRune, h]
    have hn : 0x80 ≤ r.toNat ∧ r.toNat ≤ 0x7FF := by omega
    rw [Nat.shiftRight_eq_div_pow, and3F]
    have hx : r.toNat / 2 ^ 6 < 32 := by omega
    have hz : r.toNat % 64 < 64 := Nat.mod_lt _ (by decide)
    exact valid2_of ⟨r.toNat / 2 ^ 6, hx⟩ (by show 2 ≤ r.toNat / 2 ^ 6; omega) ⟨r.toNat % 64, hz⟩
  · simp only [encodeRune, h]
    have hn : 0x800 ≤ r.toNat ∧ r.toNat ≤ 0xFFFF := by omega
    have hsn : ¬ (0xD800 ≤ r.toNat ∧ r.toNat ≤ 0xDFFF) := by omega
    rw [Nat.shiftRight_eq_div_pow, Nat.shiftRight_eq_div_pow, and3F, and3F]
    have hx : r.toNat / 2 ^ 12 < 16 := by omega
    have hy : r.toNat / 2 ^ 6 % 64 < 64 := Nat.mod_lt _ (by decide)
    have hz : r.toNat % 64 < 64 := Nat.mod_lt _ (by decide)
    apply valid3_swap (cont_or ⟨r.toNat % 64, hz⟩)
    exact valid3_lead ⟨r.toNat / 2 ^ 12, hx⟩ ⟨r.toNat / 2 ^ 6 % 64, hy⟩
      (by show 1 ≤ r.toNat / 2 ^ 12 ∨ 32 ≤ r.toNat / 2 ^ 6 % 64; omega)
      (by show ¬ (r.toNat / 2 ^ 12 = 13 ∧ 32 ≤ r.toNat / 2 ^ 6 % 64); omega)
  · simp only [encodeRune, h]
    have hn : 0x10000 ≤ r.toNat ∧ r.toNat ≤ 0x10FFFF := by omega
    rw [Nat.shiftRight_eq_div_pow, Nat.shiftRight_eq_div_pow, Nat.shiftRight_eq_div_pow, and3F, and3F, and3F]
    have hx : r.toNat / 2 ^ 18 < 8 := by omega
    have hy : r.toNat / 2 ^ 12 % 64 < 64 := Nat.mod_lt _ (by decide)
    have hz1 : r.toNat / 2 ^ 6 % 64 < 64 := Nat.mod_lt _ (by decide)
    have hz2 : r.toNat % 64 < 64 := Nat.mod_lt _ (by decide)
    apply valid4_swap (cont_or ⟨r.toNat / 2 ^ 6 % 64, hz1⟩) (cont_or ⟨r.toNat % 64, hz2⟩)
    exact valid4_lead ⟨r.toNat / 2 ^ 18, hx⟩ ⟨r.toNat / 2 ^ 12 % 64, hy⟩
      (by show 1 ≤ r.toNat / 2 ^ 18 ∨ 16 ≤ r.toNat / 2 ^ 12 % 64; omega)
      (by show r.toNat / 2 ^ 18 < 4 ∨ (r.toNat / 2 ^ 18 = 4 ∧ r.toNat / 2 ^ 12 % 64 < 16); omega)


theorem endsRune_encodeRune (r : Int) : EndsRune (encodeRune r) :=
  Or.inr ⟨[], encodeRune r, by simp, valid_encodeRune r⟩

/-! ### The converse: a passing tail test means a complete last character -/


theorem leadInfo_sz {a : Byte} {sz : Nat} {lo hi : Byte} (h : leadInfo a = some (sz, lo, hi)) :
    sz = 2 ∨ sz = 3 ∨ sz = 4 := by
  unfold leadInfo at h
  repeat' split at h
  all_goals simp_all

theorem valid_of_decode2 (a b : Byte) (e : Bool) (h : decodeRune [a, b] = (e, 2)) : validRuneB [a, b] = true := by
  unfold decodeRune at h
  unfold validRuneB
  by_cases ha : a < 0x80
  · simp [ha] at h
  · have ha' : a ≥ 0x80 := by simpa using ha
    simp only [ha, if_false] at h
    cases hl : leadInfo a with
    | none => simp [hl] at h
    | some t =>
      obtain ⟨sz, lo, hi⟩ := t
      rcases leadInfo_sz hl with rfl | rfl | rfl <;> simp_all
      all_goals (repeat' split at h)
      all_goals simp_all

theorem valid_of_decode3 (a b c : Byte) (e : Bool) (h : decodeRune [a, b, c] = (e, 3)) : validRuneB [a, b, c] = true := by
  unfold decodeRune at h
  unfold validRuneB
  by_cases ha : a < 0x80
  · simp [ha] at h
  · have ha' : a ≥ 0x80 := by simpa using ha
    simp only [ha, if_false] at h
    cases hl : leadInfo a with
    | none => simp [hl] at h
    | some t =>
      obtain ⟨sz, lo, hi⟩ := t
      rcases leadInfo_sz hl with rfl | rfl | rfl <;> simp_all
      all_goals (repeat' split at h)
      all_goals simp_all

theorem valid_of_decode4 (a b c d : Byte) (e : Bool) (h : decodeRune [a, b, c, d] = (e, 4)) : validRuneB [a, b, c, d] = true := by
  unfold decodeRune at h
  unfold validRuneB
  by_cases ha : a < 0x80
  · simp [ha] at h
  · have ha' : a ≥ 0x80 := by simpa using ha
    simp only [ha, if_false] at h
    cases hl : leadInfo a with
    | none => simp [hl] at h
    | some t =>
      obtain ⟨sz, lo, hi⟩ := t
      rcases leadInfo_sz hl with rfl | rfl | rfl <;> simp_all
      all_goals (repeat' split at h)
      all_goals simp_all

theorem decode_size_le (w : List Byte) : (decodeRune w).2 ≤ 4 := by
  unfold decodeRune
  repeat' split
  all_goals simp


theorem decode_single (x : Byte) (hx : ¬ x < 0x80) : decodeRune [x] = (true, 1) := by
  unfold decodeRune
  simp only [hx, if_false]
  cases hl : leadInfo x with
  | none => rfl
  | some t =>
    obtain ⟨sz, lo, hi⟩ := t
    rcases leadInfo_sz hl with rfl | rfl | rfl <;> simp

/-- **What a good tail is**: if the tail test of `DecodeLastRune` passes, the bytes are empty or end
in a complete UTF-8 character. -/
theorem valid_of_not_tailBad (l : List Byte) (h : tailBad l = false) :
    l = [] ∨ ∃ x w, l = x ++ w ∧ validRuneB w = true := by
  rw [tailBad_eq_tbR] at h
  cases hr : l.reverse with
  | nil => left; simpa using hr
  | cons last rev =>
    right
    have hl : l = rev.reverse ++ [last] := by
      have := congrArg List.reverse hr
      simpa using this
    rw [hr] at h
    unfold tbR at h
    by_cases hlast : last < 0x80
    · exact ⟨rev.reverse, [last], hl, by simp [validRuneB, hlast]⟩
    · simp only [hlast, if_false] at h
      generalize hback : (if backScan 3 rev 0 > rev.length then rev.length else backScan 3 rev 0) = back at h
      have hsplit : l = (rev.drop back).reverse ++ ((rev.take back).reverse ++ [last]) := by
        rw [hl, ← List.append_assoc, ← List.reverse_append, List.take_append_drop]
      generalize ht : (rev.take back).reverse = t at h hsplit
      refine ⟨(rev.drop back).reverse, t ++ [last], hsplit, ?_⟩
      have hsz := decode_size_le (t ++ [last])
      cases hd : decodeRune (t ++ [last]) with
      | mk err size =>
        rw [hd] at h hsz
        simp only at h hsz
        split at h
        · cases h
        · rename_i hne
          have hsize : size = (t ++ [last]).length := by simpa using hne
          match t, hd, hsize with
          | [], hd, hsize =>
            exfalso
            simp only [List.nil_append, List.length_singleton] at hsize hd
            subst hsize
            rw [decode_single last hlast] at hd
            simp only [Prod.mk.injEq] at hd
            obtain ⟨rfl, _⟩ := hd
            simp at h
          | [a], hd, hsize =>
            simp only [List.cons_append, List.nil_append, List.length_cons, List.length_nil] at hsize hd ⊢
            subst hsize
            exact valid_of_decode2 a last err hd
          | [a, b], hd, hsize =>
            simp only [List.cons_append, List.nil_append, List.length_cons, List.length_nil] at hsize hd ⊢
            subst hsize
            exact valid_of_decode3 a b last err hd
          | [a, b, c], hd, hsize =>
            simp only [List.cons_append, List.nil_append, List.length_cons, List.length_nil] at hsize hd ⊢
            subst hsize
            exact valid_of_decode4 a b c last err hd
          | a :: b :: c :: d :: r, hd, hsize =>
            exfalso
            simp only [List.cons_append, List.length_cons, List.length_append, List.length_nil] at hsize
            omega

/-- The tail test of `InternalEscapeBytes` passes exactly on byte strings that are empty or end in a
complete UTF-8 character (`EndsRune`). -/
theorem tailBad_false_iff (l : List Byte) : tailBad l = false ↔ EndsRune l := by
  constructor
  · intro h
    rcases valid_of_not_tailBad l h with rfl | ⟨x, w, rfl, hw⟩
    · exact Or.inl rfl
    · exact Or.inr ⟨x, w, rfl, hw⟩
  · rintro (rfl | ⟨x, w, rfl, hw⟩)
    · decide
    · exact tailBad_valid x w hw

/-! ### Well-formed UTF-8 -/

/-- Well-formed UTF-8: a sequence of complete characters. -/
inductive Utf8 : List Byte → Prop
  | nil : Utf8 []
  | cons (r p : List Byte) : validRuneB r = true → Utf8 p → Utf8 (r ++ p)

/-- Every valid UTF-8 payload meets the hypothesis of the two equalities. -/
theorem endsRune_of_utf8 {p : List Byte} (h : Utf8 p) : EndsRune p := by
  induction h with
  | nil => exact Or.inl rfl
  | cons r p hr _ ih =>
    rcases ih with rfl | ⟨q, r', rfl, hr'⟩
    · exact Or.inr ⟨[], r, by simp, hr⟩
    · exact Or.inr ⟨r ++ q, r', by simp, hr'⟩

end Redact
