import RedactVerif.Proofs.PrinterBasics
/-
The frame theorem for the whole printer model (`spec_all`): every function of
`Model/Printer.lean`, at every fuel, preserves the buffer invariant and returns
with the mode and the override it was entered with (doPrint/doPrintf: with an
escaping mode and the same override). Proved by induction on the fuel, one
step lemma per function.
-/
namespace Redact

def GS (p : PP) : SRes → Prop
  | .ok q => G p q
  | .raised q pl => G p q ∧ ValOk pl
  | .abort r => GR p r

/-- doPrint/doPrintf: the invariant holds afterwards, the mode is an escaping one, the override is untouched. -/
def D (p : PP) (r : Res) : Prop :=
  (∀ q, r = .ok q → Inv q.buf ∧ q.buf.mode ≠ .raw ∧ q.override = p.override) ∧
  (∀ b pl, r = .panic b pl → Inv b ∧ ValOk pl)

theorem GR_congr {p p1 : PP} {r : Res} (hb : p1.buf = p.buf) (ho : p1.override = p.override) (h : GR p1 r) : GR p r := by
  refine ⟨fun q hq => ?_, h.2⟩
  have g := h.1 q hq
  exact ⟨g.1, by rw [g.2.1, hb], by rw [g.2.2, ho]⟩

theorem Pre_congr {p p1 : PP} (hb : p1.buf = p.buf) (hp : Pre p) : Pre p1 := by
  unfold Pre; rw [hb]; exact hp

theorem GR_fuel (p : PP) : GR p .fuel := GR_none p (fun _ h => by cases h) (fun _ _ h => by cases h)
theorem GR_unsupported (p : PP) : GR p .unsupported := GR_none p (fun _ h => by cases h) (fun _ _ h => by cases h)
theorem GR_panic (p : PP) {b : Buffer} {pl : Val} (hi : Inv b) (hv : ValOk pl) : GR p (.panic b pl) :=
  ⟨fun q hq => (by cases hq), fun b' pl' hq => (by cases hq; exact ⟨hi, hv⟩)⟩

/-- Start from a state reached by ambient writes. -/
theorem GR_from {p p1 : PP} {r : Res} (g : G p p1) (h : GR p1 r) : GR p r :=
  ⟨fun q hq => G.trans g (h.1 q hq), h.2⟩

/-- What is known about every function of the printer at fuel `n`. -/
structure Spec (env : Env) (n : Nat) : Prop where
  printArg : ∀ p v verb, Pre p → ValOk v → GR p (printArg env n p v verb)
  printArgBody : ∀ p v verb, Pre p → ValOk v → GR p (printArgBody env n p v verb)
  badVerb : ∀ p v verb via, Pre p → ValOk v → GR p (badVerb env n p v verb via)
  handleMethods : ∀ p v verb, Pre p → ValOk v → GR p (handleMethods env n p v verb).2
  methDispatch : ∀ p v ms nr ret sc verb, Pre p → ValOk v → ScriptOk sc → GR p (methDispatch env n p v ms nr ret sc verb).2
  fmtString : ∀ p v ret verb, Pre p → ValOk v → GR p (fmtString env n p v ret verb)
  catchPanic : ∀ p0 p arg verb m nr out, Pre p → GS p out → GR p (catchPanic env n p0 arg verb m nr out)
  runScript : ∀ p sc, Pre p → ScriptOk sc → GS p (runScript env n p sc)
  printValue : ∀ p v verb d ro, Pre p → ValOk v → GR p (printValue env n p v verb d ro)
  printSlot : ∀ p v verb d i ro, Pre p → ValOk v → GR p (printSlot env n p v verb d i ro)
  slotMethods : ∀ p v verb, Pre p → ValOk v → GR p (slotMethods env n p v verb).2
  printFields : ∀ p fs verb d ro f, Pre p → FieldsOk fs → GR p (printFields env n p fs verb d ro f)
  printElems : ∀ p vs verb d i ro f, Pre p → ValsOk vs → GR p (printElems env n p vs verb d i ro f)
  printPairs : ∀ p ks vs verb d ik iv ro f, Pre p → ValsOk ks → ValsOk vs → GR p (printPairs env n p ks vs verb d ik iv ro f)
  doPrint : ∀ p args, Pre p → ListOk args → D p (doPrint env n p args)
  doPrintLoop : ∀ p args k ps, Pre p → ListOk args → GR p (doPrintLoop env n p args k ps)
  doPrintf : ∀ p f args, Pre p → ListOk args → D p (doPrintf env n p f args)
  fmtLoop : ∀ p f args k ai, Pre p → ListOk args → GR p (fmtLoop env n p f args k ai)
  directiveTail : ∀ p f args k ai, Pre p → ListOk args → GR p (directiveTail env n p f args k ai)
  finishPrintf : ∀ p args k, Pre p → ListOk args → GR p (finishPrintf env n p args k)
  extraLoop : ∀ p args f, Pre p → ListOk args → GR p (extraLoop env n p args f)

theorem spec_zero (env : Env) : Spec env 0 := by
  constructor <;> intros <;> simp only [printArg, printArgBody, badVerb, handleMethods, methDispatch, fmtString, catchPanic,
    runScript, printValue, printSlot, slotMethods, printFields, printElems, printPairs, doPrint, doPrintLoop,
    doPrintf, fmtLoop, directiveTail, finishPrintf, extraLoop]
  all_goals first
    | exact GR_fuel _
    | exact ⟨fun q hq => (by cases hq), fun b pl hq => (by cases hq)⟩


theorem valOk_safeW {v : Val} (h : ValOk (.safeW v)) : ValOk v := by simpa [ValOk] using h
theorem valOk_unsafeW {v : Val} (h : ValOk (.unsafeW v)) : ValOk v := by simpa [ValOk] using h

theorem step_printArg {env : Env} {n : Nat} (S : Spec env n) :
    ∀ p v verb, Pre p → ValOk v → GR p (printArg env (n + 1) p v verb) := by
  intro p v verb hp hv
  have body1 : ∀ q, Pre q → GR q
      (if isSafeValue v then bracket PP.startSafeOverride q fun q2 => printArgBody env n q2 v verb
       else printArgBody env n q v verb) := by
    intro q hq
    split
    · exact GR_bracket _ _ _ hq (start_safeOverride hq) (S.printArgBody _ _ _ (start_safeOverride hq).1 hv)
    · exact S.printArgBody _ _ _ hq hv
  cases v with
  | safeW w =>
    simp only [printArg]
    exact GR_bracket _ _ _ hp (start_safeOverride hp) (S.printArg _ _ _ (start_safeOverride hp).1 (valOk_safeW hv))
  | unsafeW w =>
    simp only [printArg]
    exact GR_bracket _ _ _ hp (start_unsafeOverride hp) (S.printArg _ _ _ (start_unsafeOverride hp).1 (valOk_unsafeW hv))
  | _ =>
    simp only [printArg]
    split
    · exact GR_bracket _ _ _ hp (start_safeOverride hp) (body1 _ (start_safeOverride hp).1)
    · exact body1 p hp


theorem step_badVerb {env : Env} {n : Nat} (S : Spec env n) :
    ∀ p v verb via, Pre p → ValOk v → GR p (badVerb env (n + 1) p v verb via) := by
  intro p v verb via hp hv
  unfold badVerb
  -- the prefix `%!verb(`
  let p1 : PP := { p with erroring := true }
  have hp1 : Pre p1 := Pre_congr rfl hp
  have g2 : G p1 (((p1.w percentBang).wr verb).wb 0x28) :=
    G.trans (G.trans (G_w hp1 _) (G_wr (G.pre hp1 (G_w hp1 _)) _)) (G_wb (G.pre hp1 (G.trans (G_w hp1 _) (G_wr (G.pre hp1 (G_w hp1 _)) _))) _)
  have hp2 := G.pre hp1 g2
  apply GR_congr (p1 := p1) rfl rfl
  apply GR_bind (p := p1)
  · -- the operand
    split
    · exact GR_ok (G.trans g2 (G_w hp2 _))
    · have g3 : G (((p1.w percentBang).wr verb).wb 0x28) (((((p1.w percentBang).wr verb).wb 0x28).w (typeName v)).wb 0x3D) :=
        G.trans (G_w hp2 _) (G_wb (G.pre hp2 (G_w hp2 _)) 0x3D)
      have hp3 := G.pre hp2 g3
      split
      · exact GR_from (G.trans g2 g3) (S.printValue _ _ _ _ _ hp3 hv)
      · exact GR_from (G.trans g2 g3) (S.printArg _ _ _ hp3 hv)
  · intro q gq
    exact GR_ok (G.trans (G_wb (G.pre hp1 gq) _) (G_same (G.pre (G.pre hp1 gq) (G_wb (G.pre hp1 gq) _)) rfl rfl))

theorem step_fmtString {env : Env} {n : Nat} (S : Spec env n) :
    ∀ p v ret verb, Pre p → ValOk v → GR p (fmtString env (n + 1) p v ret verb) := by
  intro p v ret verb hp hv
  simp only [fmtString]
  split
  · exact GR_leafWrite env p ret verb _ _ hp
  · exact S.badVerb _ _ _ _ hp hv


theorem step_printArgBody {env : Env} {n : Nat} (S : Spec env n) :
    ∀ p v verb, Pre p → ValOk v → GR p (printArgBody env (n + 1) p v verb) := by
  intro p v verb hp hv
  unfold printArgBody
  repeat' split
  all_goals first
    | exact GR_ok (G_w hp _)
    | exact S.badVerb _ _ _ _ hp hv
    | exact GR_unsupported _
    | exact GR_leafWrite _ _ _ _ _ _ hp
    | exact GR_preRedactable _ _ hp (by simpa [ValOk] using hv)
    | exact S.badVerb _ _ _ _ (Pre_congr rfl hp) hv
    | exact S.printValue _ _ _ _ _ hp hv
    | (rename_i heq; have := S.handleMethods p v verb hp hv; rw [heq] at this; exact this)
    | skip


theorem GS_raised_nil {p : PP} (hp : Pre p) : GS p (.raised p .nil) := ⟨G.refl hp, by simp [ValOk]⟩

theorem step_handleMethods {env : Env} {n : Nat} (S : Spec env n) :
    ∀ p v verb, Pre p → ValOk v → GR p (handleMethods env (n + 1) p v verb).2 := by
  intro p v verb hp hv
  unfold handleMethods
  split
  · exact GR_ok (G.refl hp)
  · split
    · -- a value with methods
      rename_i ms ty sv reg nilRecv ret sc under
      have hsc : ScriptOk sc := by simp only [ValOk] at hv; exact hv.1
      split
      · split
        · exact S.badVerb _ _ _ _ (Pre_congr rfl hp) hv
        · exact S.methDispatch _ _ _ _ _ _ _ (Pre_congr rfl hp) hv hsc
      · exact S.methDispatch _ _ _ _ _ _ _ hp hv hsc
    · split
      · exact S.badVerb _ _ _ _ (Pre_congr rfl hp) hv
      · exact GR_ok (G.refl hp)

theorem GS_retOut {p : PP} (hp : Pre p) (nr : Bool) (sc : Script) (r : Res) (hsc : ScriptOk sc) (hr : GR p r) :
    GS p (retOut nr p sc r) := by
  unfold retOut
  split
  · exact GS_raised_nil hp
  · split
    · exact ⟨G.refl hp, by simpa [ScriptOk] using hsc⟩
    · exact hr

theorem GS_ite_nil {p : PP} (hp : Pre p) (nr : Bool) (out : SRes) (h : GS p out) :
    GS p (if nr then .raised p .nil else out) := by
  split
  · exact GS_raised_nil hp
  · exact h

theorem step_methDispatch {env : Env} {n : Nat} (he : EnvOk env) (S : Spec env n) :
    ∀ p v ms nr ret sc verb, Pre p → ValOk v → ScriptOk sc → GR p (methDispatch env (n + 1) p v ms nr ret sc verb).2 := by
  intro p v ms nr ret sc verb hp hv hsc
  unfold methDispatch
  have hfs : GR p (fmtString env n p v ret verb) := S.fmtString _ _ _ _ hp hv
  repeat' split
  all_goals first
    | exact GR_ok (G.refl hp)
    | exact S.catchPanic _ _ _ _ _ _ _ hp (GS_ite_nil hp _ _ (S.runScript _ _ hp hsc))
    | exact S.catchPanic _ _ _ _ _ _ _ hp (GS_raised_nil hp)
    | exact S.catchPanic _ _ _ _ _ _ _ hp (S.runScript _ _ hp hsc)
    | (rename_i h heq _; exact S.catchPanic _ _ _ _ _ _ _ hp (S.runScript _ _ hp (he h heq _ _)))
    | exact S.catchPanic _ _ _ _ _ _ _ hp (GS_retOut hp _ _ _ hsc hfs)
    | exact S.catchPanic _ _ _ _ _ _ _ hp (GS_retOut hp _ _ _ hsc
        (GR_bracket _ _ _ hp (start_safeOverride hp) (S.fmtString _ _ _ _ (start_safeOverride hp).1 hv)))
    | (rename_i h heq; exact S.catchPanic _ _ _ _ _ _ _ hp (GS_ite_nil hp _ _ (S.runScript _ _ hp (he h heq _ _))))
    | (apply S.catchPanic _ _ _ _ _ _ _ hp
       apply GS_retOut hp _ _ _ hsc
       apply GR_bind (p := p)
       · exact GR_congr (p1 := { p with f := { p.f with sharpV := false, sharp := false, plusV := false, plus := false } }) rfl rfl
           (GR_leafWrite _ _ _ _ _ _ (Pre_congr rfl hp))
       · intro q gq; exact GR_ok (G_same (G.pre hp gq) rfl rfl))
    | skip


theorem step_catchPanic {env : Env} {n : Nat} (S : Spec env n) :
    ∀ p0 p arg verb m nr out, Pre p → GS p out → GR p (catchPanic env (n + 1) p0 arg verb m nr out) := by
  intro p0 p arg verb m nr out hp hout
  unfold catchPanic
  split
  · exact GR_ok hout
  · exact hout
  · rename_i q payload
    obtain ⟨gq, hpl⟩ := hout
    have hq := G.pre hp gq
    split
    · exact GR_ok (G.trans gq (G_w hq _))
    · split
      · exact GR_panic _ hq.1 hpl
      · -- the panic report
        simp only
        let q1 : PP := { q with f := q.f.clear }
        have hq1 : Pre q1 := Pre_congr rfl hq
        have w1 := G_w hq1 percentBang
        have w2 := G.trans w1 (G_wr (G.pre hq1 w1) verb)
        have w3 := G.trans w2 (G_w (G.pre hq1 w2) ([0x28, 0x50, 0x41, 0x4E, 0x49, 0x43, 0x3D] /- "(PANIC=" -/ : List UInt8))
        have w4 := G.trans w3 (G_w (G.pre hq1 w3) m)
        have w5 := G.trans w4 (G_w (G.pre hq1 w4) ([0x20, 0x6D, 0x65, 0x74, 0x68, 0x6F, 0x64, 0x3A, 0x20] /- " method: " -/ : List UInt8))
        have hq5 := G.pre hq1 w5
        apply GR_bind (p := p)
        · have := S.printArg _ payload 118 (Pre_congr (p := ((((q1.w percentBang).wr verb).w ([0x28, 0x50, 0x41, 0x4E, 0x49, 0x43, 0x3D] /- "(PANIC=" -/ : List UInt8)).w m).w ([0x20, 0x6D, 0x65, 0x74, 0x68, 0x6F, 0x64, 0x3A, 0x20] /- " method: " -/ : List UInt8))
            (p1 := { ((((q1.w percentBang).wr verb).w ([0x28, 0x50, 0x41, 0x4E, 0x49, 0x43, 0x3D] /- "(PANIC=" -/ : List UInt8)).w m).w ([0x20, 0x6D, 0x65, 0x74, 0x68, 0x6F, 0x64, 0x3A, 0x20] /- " method: " -/ : List UInt8) with panicking := true }) rfl hq5) hpl
          exact ⟨fun r hr => G.trans gq (G.trans (G.trans (G_same hq rfl rfl) w5) (this.1 r hr)), this.2⟩
        · intro r gr
          have hr := G.pre hp gr
          exact GR_ok (G.trans (G_wb (Pre_congr rfl hr) 0x29) (G_same (G.pre (Pre_congr rfl hr) (G_wb (Pre_congr rfl hr) 0x29)) rfl rfl))


theorem GS_trans {p q : PP} {out : SRes} (h1 : G p q) (h2 : GS q out) : GS p out := by
  cases out with
  | ok r => exact G.trans h1 h2
  | raised r pl => exact ⟨G.trans h1 h2.1, h2.2⟩
  | abort r => exact GR_from h1 h2

/-- One bracketed write of the adapter. -/
theorem G_bracket_step (start : PP → PP × PP.Restorer) (p : PP) (f : PP → PP) (hp : Pre p)
    (hstart : Pre (start p).1 ∧ (start p).2 = ⟨p.buf.mode, p.override⟩)
    (hf : ∀ q, Pre q → G q (f q)) : G p ((f (start p).1).restore (start p).2) := by
  have := GR_bracket start p (fun q => .ok (f q)) hp hstart (GR_ok (hf _ hstart.1))
  exact this.1 _ (by simp [bracket])

theorem step_runScript {env : Env} {n : Nat} (S : Spec env n) :
    ∀ p sc, Pre p → ScriptOk sc → GS p (runScript env (n + 1) p sc) := by
  intro p sc hp hsc
  unfold runScript
  split
  · exact G.refl hp
  · exact ⟨G.refl hp, by simpa [ScriptOk] using hsc⟩
  · exact S.runScript _ _ hp (by simpa [ScriptOk] using hsc)
  · -- safeString
    rename_i s k
    have g := G_bracket_step PP.startSafeOverride p (·.w s) hp (start_safeOverride hp) (fun q hq => G_w hq s)
    exact GS_trans g (S.runScript _ _ (G.pre hp g) (by simpa [ScriptOk] using hsc))
  · rename_i x k
    have g := G_bracket_step PP.startSafeOverride p (·.wr x) hp (start_safeOverride hp) (fun q hq => G_wr hq x)
    exact GS_trans g (S.runScript _ _ (G.pre hp g) (by simpa [ScriptOk] using hsc))
  · rename_i s k
    have g := G_bracket_step PP.startUnsafe p (·.w s) hp (start_unsafe hp) (fun q hq => G_w hq s)
    exact GS_trans g (S.runScript _ _ (G.pre hp g) (by simpa [ScriptOk] using hsc))
  · rename_i s k
    have g := G_bracket_step PP.startUnsafe p (·.w s) hp (start_unsafe hp) (fun q hq => G_w hq s)
    exact GS_trans g (S.runScript _ _ (G.pre hp g) (by simpa [ScriptOk] using hsc))
  · -- unsafeLeaf
    rename_i id k
    split
    · exact GR_unsupported _
    · rename_i s _
      have g := G_bracket_step PP.startUnsafe p (·.w s) hp (start_unsafe hp) (fun q hq => G_w hq s)
      exact GS_trans g (S.runScript _ _ (G.pre hp g) (by simpa [ScriptOk] using hsc))
  · -- print
    rename_i args k
    have hargs : ListOk args.toList := listOk_of_valsOk _ (by simp only [ScriptOk] at hsc; exact hsc.1)
    have hk : ScriptOk k := by simp only [ScriptOk] at hsc; exact hsc.2
    have hnp : Pre ({ buf := p.buf, override := p.override } : PP) := hp
    have hd := S.doPrint _ _ hnp hargs
    dsimp only
    split
    · rename_i np' heq
      have ⟨i1, _, i3⟩ := hd.1 np' heq
      have g : G p { p with buf := np'.buf.setMode p.buf.mode } := ⟨inv_setMode _ _ i1, setMode_mode _ _, rfl⟩
      exact GS_trans g (S.runScript _ _ (G.pre hp g) hk)
    · -- a panic leaves the nested printer: the buffer is handed back, the method has panicked
      rename_i b pl heq
      have ⟨i1, hpl⟩ := hd.2 b pl heq
      exact ⟨⟨inv_setMode _ _ i1, setMode_mode _ _, rfl⟩, hpl⟩
    · rename_i r hne hnp2
      exact GR_none _ (fun q h => hne q h) (fun b pl h => hnp2 b pl h)
  · -- printf
    rename_i f args k
    have hargs : ListOk args.toList := listOk_of_valsOk _ (by simp only [ScriptOk] at hsc; exact hsc.1)
    have hk : ScriptOk k := by simp only [ScriptOk] at hsc; exact hsc.2
    have hnp : Pre ({ buf := p.buf, override := p.override } : PP) := hp
    have hd := S.doPrintf _ f _ hnp hargs
    dsimp only
    split
    · rename_i np' heq
      have ⟨i1, _, i3⟩ := hd.1 np' heq
      have g : G p { p with buf := np'.buf.setMode p.buf.mode } := ⟨inv_setMode _ _ i1, setMode_mode _ _, rfl⟩
      exact GS_trans g (S.runScript _ _ (G.pre hp g) hk)
    · -- a panic leaves the nested printer: the buffer is handed back, the method has panicked
      rename_i b pl heq
      have ⟨i1, hpl⟩ := hd.2 b pl heq
      exact ⟨⟨inv_setMode _ _ i1, setMode_mode _ _, rfl⟩, hpl⟩
    · rename_i r hne hnp2
      exact GR_none _ (fun q h => hne q h) (fun b pl h => hnp2 b pl h)


theorem G_ite {p : PP} {c : Prop} [Decidable c] {a b : PP} (ha : G p a) (hb : G p b) : G p (if c then a else b) := by
  split <;> assumption

theorem GR_ite {p : PP} {c : Prop} [Decidable c] {a b : Res} (ha : GR p a) (hb : GR p b) : GR p (if c then a else b) := by
  split <;> assumption

/-- `(r.bind fun q => .ok (q.wb c))`: a closing delimiter after a sub-print. -/
theorem GR_then_wb {p : PP} {r : Res} (hp : Pre p) (h : GR p r) (c : Byte) : GR p (r.bind fun q => .ok (q.wb c)) :=
  GR_bind h (fun q gq => GR_ok (G_wb (G.pre hp gq) c))


theorem step_printValue {env : Env} {n : Nat} (S : Spec env n) :
    ∀ p v verb d ro, Pre p → ValOk v → GR p (printValue env (n + 1) p v verb d ro) := by
  intro p v verb d ro hp hv
  unfold printValue
  split
  · exact GR_ok (G_w hp _)
  · split
    · exact GR_leafWrite _ _ _ _ _ _ hp
    · exact S.badVerb _ _ _ _ hp hv
  · exact S.printValue _ _ _ _ _ hp (by simp only [ValOk] at hv; exact hv.2)
  · -- struct
    rename_i ty reg fields
    have hf : FieldsOk fields := by simpa [ValOk] using hv
    have g1 : G p (if p.f.sharpV = true then p.w ty else p) := G_ite (G_w hp _) (G.refl hp)
    have g2 := G.trans g1 (G_wb (G.pre hp g1) 0x7B)
    dsimp only
    apply GR_then_wb hp _ 0x7D
    exact GR_from g2 (S.printFields _ _ _ _ _ _ (G.pre hp g2) hf)
  · -- slice
    rename_i ty isNil iface elems
    have he : ValsOk elems := by simpa [ValOk] using hv
    split
    · dsimp only
      have g1 := G_w hp ty
      split
      · exact GR_ok (G.trans g1 (G_w (G.pre hp g1) _))
      · have g2 := G.trans g1 (G_wb (G.pre hp g1) 0x7B)
        apply GR_then_wb hp _ 0x7D
        exact GR_from g2 (S.printElems _ _ _ _ _ _ _ (G.pre hp g2) he)
    · have g2 := G_wb hp 0x5B
      apply GR_then_wb hp _ 0x5D
      exact GR_from g2 (S.printElems _ _ _ _ _ _ _ (G.pre hp g2) he)
  · -- map
    rename_i ty isNil ifaceK ifaceV keys vals
    have hk : ValsOk keys ∧ ValsOk vals := by simpa [ValOk] using hv
    split
    · exact GR_ok (G.trans (G_w hp _) (G_w (G.pre hp (G_w hp _)) _))
    · dsimp only
      have g1 : G p (if p.f.sharpV = true then (p.w ty).wb 0x7B else p.w ([0x6D, 0x61, 0x70, 0x5B] /- "map[" -/ : List UInt8)) :=
        G_ite (G.trans (G_w hp _) (G_wb (G.pre hp (G_w hp _)) _)) (G_w hp _)
      apply GR_bind (GR_from g1 (S.printPairs _ _ _ _ _ _ _ _ _ (G.pre hp g1) hk.1 hk.2))
      intro q gq
      exact GR_ok (G_wb (G.pre hp gq) _)
  · -- pointer
    split
    · have g := G_wb hp 0x26
      exact GR_from g (S.printSlot _ _ _ _ _ _ (G.pre hp g) (by simpa [ValOk] using hv))
    · exact GR_unsupported _
  · exact GR_unsupported _
  · exact GR_unsupported _
  · exact GR_unsupported _


theorem step_printSlot {env : Env} {n : Nat} (S : Spec env n) :
    ∀ p v verb d i ro, Pre p → ValOk v → GR p (printSlot env (n + 1) p v verb d i ro) := by
  intro p v verb d i ro hp hv
  unfold printSlot
  split
  · split
    · exact GR_ok (G_w hp _)
    · exact GR_ok (G_w hp _)
  · dsimp only
    -- the by-type special cases
    split
    · rename_i r hspecial
      split at hspecial
      · cases hspecial
      · split at hspecial
        · rename_i inner
          injection hspecial with hs; subst hs
          exact GR_bracket _ _ _ hp (start_safeOverride hp) (S.printSlot _ _ _ _ _ _ (start_safeOverride hp).1 (valOk_safeW hv))
        · rename_i inner
          injection hspecial with hs; subst hs
          exact GR_bracket _ _ _ hp (start_unsafeOverride hp) (S.printSlot _ _ _ _ _ _ (start_unsafeOverride hp).1 (valOk_unsafeW hv))
        · injection hspecial with hs; subst hs
          exact GR_preRedactable _ _ hp (by simpa [ValOk] using hv)
        · cases hspecial
    · -- the general prologue
      have noMethod : ∀ q3, Pre q3 → GR q3 (if i = true then printSlot env n q3 v verb (d + 1) false ro else printValue env n q3 v verb d ro) := by
        intro q3 h3
        split
        · exact S.printSlot _ _ _ _ _ _ h3 hv
        · exact S.printValue _ _ _ _ _ h3 hv
      have afterMethods : ∀ q2, Pre q2 → GR q2
          (if (!ro) = true then
            match slotMethods env n q2 v verb with
            | (true, r) => r
            | (false, _) => (if i = true then printSlot env n q2 v verb (d + 1) false ro else printValue env n q2 v verb d ro)
          else (if i = true then printSlot env n q2 v verb (d + 1) false ro else printValue env n q2 v verb d ro)) := by
        intro q2 h2
        split
        · split
          · rename_i heq
            have := S.slotMethods q2 v verb h2 hv
            rw [heq] at this; exact this
          · exact noMethod q2 h2
        · exact noMethod q2 h2
      have body : ∀ q, Pre q → GR q
          (if (!ro) = true ∧ isSafeValue v = true then bracket PP.startSafeOverride q (fun q2 =>
              if (!ro) = true then
                match slotMethods env n q2 v verb with
                | (true, r) => r
                | (false, _) => (if i = true then printSlot env n q2 v verb (d + 1) false ro else printValue env n q2 v verb d ro)
              else (if i = true then printSlot env n q2 v verb (d + 1) false ro else printValue env n q2 v verb d ro))
           else
              if (!ro) = true then
                match slotMethods env n q v verb with
                | (true, r) => r
                | (false, _) => (if i = true then printSlot env n q v verb (d + 1) false ro else printValue env n q v verb d ro)
              else (if i = true then printSlot env n q v verb (d + 1) false ro else printValue env n q v verb d ro)) := by
        intro q hq
        split
        · exact GR_bracket _ _ _ hq (start_safeOverride hq) (afterMethods _ (start_safeOverride hq).1)
        · exact afterMethods q hq
      split
      · exact GR_bracket _ _ _ hp (start_safeOverride hp) (body _ (start_safeOverride hp).1)
      · exact body p hp


theorem step_slotMethods {env : Env} {n : Nat} (S : Spec env n) :
    ∀ p v verb, Pre p → ValOk v → GR p (slotMethods env (n + 1) p v verb).2 := by
  intro p v verb hp hv
  unfold slotMethods
  split
  · exact GR_ok (G.refl hp)
  · split
    · -- a redactable found through an interface: its own SafeFormat calls Print(itself)
      rename_i c ty
      split
      · have hsc : ScriptOk (.print (.cons (.redactable c ty) .nil) .done) := by
          simp only [ScriptOk, ValsOk]; exact ⟨⟨hv, trivial⟩, trivial⟩
        have := S.runScript p _ hp hsc
        dsimp only
        split
        · rename_i q heq; rw [heq] at this; exact GR_ok this
        · rename_i q pl heq; rw [heq] at this; exact GR_panic _ this.1.1 this.2
        · rename_i r heq; rw [heq] at this; exact this
      · exact GR_ok (G.refl hp)
    · exact GR_unsupported _
    · exact GR_unsupported _
    · exact S.handleMethods _ _ _ hp hv

theorem step_printFields {env : Env} {n : Nat} (S : Spec env n) :
    ∀ p fs verb d ro f, Pre p → FieldsOk fs → GR p (printFields env (n + 1) p fs verb d ro f) := by
  intro p fs verb d ro f hp hfs
  unfold printFields
  split
  · exact GR_ok (G.refl hp)
  · rename_i name exported it v rest
    have hv : ValOk v ∧ FieldsOk rest := by simpa [FieldsOk] using hfs
    dsimp only
    have g1 : G p (if f = true then p else if p.f.sharpV = true then p.w ([0x2C, 0x20] /- ", " -/ : List UInt8) else p.wb 0x20) :=
      G_ite (G.refl hp) (G_ite (G_w hp _) (G_wb hp _))
    generalize (if f = true then p else if p.f.sharpV = true then p.w ([0x2C, 0x20] /- ", " -/ : List UInt8) else p.wb 0x20) = p1 at g1 ⊢
    have h1 := G.pre hp g1
    have g2 : G p1 (if p1.f.plusV = true ∨ p1.f.sharpV = true then (p1.w name).wb 0x3A else p1) :=
      G_ite (G.trans (G_w h1 _) (G_wb (G.pre h1 (G_w h1 _)) _)) (G.refl h1)
    generalize (if p1.f.plusV = true ∨ p1.f.sharpV = true then (p1.w name).wb 0x3A else p1) = p2 at g2 ⊢
    have h2 := G.pre h1 g2
    apply GR_from (G.trans g1 g2)
    apply GR_bind (S.printSlot _ _ _ _ _ _ h2 hv.1)
    intro q gq
    exact S.printFields _ _ _ _ _ _ (G.pre h2 gq) hv.2

theorem step_printElems {env : Env} {n : Nat} (S : Spec env n) :
    ∀ p vs verb d i ro f, Pre p → ValsOk vs → GR p (printElems env (n + 1) p vs verb d i ro f) := by
  intro p vs verb d i ro f hp hvs
  unfold printElems
  split
  · exact GR_ok (G.refl hp)
  · rename_i v rest
    have hv : ValOk v ∧ ValsOk rest := by simpa [ValsOk] using hvs
    dsimp only
    have g1 : G p (if f = true then p else if p.f.sharpV = true then p.w ([0x2C, 0x20] /- ", " -/ : List UInt8) else p.wb 0x20) :=
      G_ite (G.refl hp) (G_ite (G_w hp _) (G_wb hp _))
    generalize (if f = true then p else if p.f.sharpV = true then p.w ([0x2C, 0x20] /- ", " -/ : List UInt8) else p.wb 0x20) = p1 at g1 ⊢
    have h1 := G.pre hp g1
    apply GR_from g1
    apply GR_bind (S.printSlot _ _ _ _ _ _ h1 hv.1)
    intro q gq
    exact S.printElems _ _ _ _ _ _ _ (G.pre h1 gq) hv.2

theorem step_printPairs {env : Env} {n : Nat} (S : Spec env n) :
    ∀ p ks vs verb d ik iv ro f, Pre p → ValsOk ks → ValsOk vs → GR p (printPairs env (n + 1) p ks vs verb d ik iv ro f) := by
  intro p ks vs verb d ik iv ro f hp hks hvs
  unfold printPairs
  split
  · rename_i k kr v vr
    have hk : ValOk k ∧ ValsOk kr := by simpa [ValsOk] using hks
    have hv : ValOk v ∧ ValsOk vr := by simpa [ValsOk] using hvs
    dsimp only
    have g1 : G p (if f = true then p else if p.f.sharpV = true then p.w ([0x2C, 0x20] /- ", " -/ : List UInt8) else p.wb 0x20) :=
      G_ite (G.refl hp) (G_ite (G_w hp _) (G_wb hp _))
    generalize (if f = true then p else if p.f.sharpV = true then p.w ([0x2C, 0x20] /- ", " -/ : List UInt8) else p.wb 0x20) = p1 at g1 ⊢
    have h1 := G.pre hp g1
    apply GR_from g1
    apply GR_bind (S.printSlot _ _ _ _ _ _ h1 hk.1)
    intro q gq
    have hq := G.pre h1 gq
    have g2 := G_wb hq 0x3A
    apply GR_bind (GR_from g2 (S.printSlot _ _ _ _ _ _ (G.pre hq g2) hv.1))
    intro q2 gq2
    exact S.printPairs _ _ _ _ _ _ _ _ _ (G.pre hq gq2) hk.2 hv.2
  · exact GR_ok (G.refl hp)


theorem argNumber_frame (p : PP) (argNum : Nat) (f : List Byte) (numArgs : Nat) :
    (argNumber p argNum f numArgs).1.buf = p.buf ∧ (argNumber p argNum f numArgs).1.override = p.override := by
  unfold argNumber
  repeat' split
  all_goals simp

theorem G_argNumber {p0 p : PP} (hp : Pre p) (g : G p0 p) (argNum : Nat) (f : List Byte) (numArgs : Nat) :
    G p0 (argNumber p argNum f numArgs).1 :=
  G.trans g (G_same hp (argNumber_frame p argNum f numArgs).1 (argNumber_frame p argNum f numArgs).2)

theorem widthStage_G (p : PP) (args : List Val) (argNum : Nat) (r : List Byte) (ai : Bool) (hp : Pre p) :
    G p (widthStage p args argNum r ai).1 := by
  unfold widthStage
  split
  · dsimp only
    generalize intFromArg args argNum = ifa
    obtain ⟨num, isInt, newArg⟩ := ifa
    dsimp only
    let p1 : PP := { p with f := { p.f with wid := num.toNat, widPresent := isInt } }
    have h1 : Pre p1 := Pre_congr rfl hp
    have g2 : G p1 (if (!isInt) = true then p1.w ([0x25, 0x21, 0x28, 0x42, 0x41, 0x44, 0x57, 0x49, 0x44, 0x54, 0x48, 0x29] /- "%!(BADWIDTH)" -/ : List UInt8) else p1) := G_ite (G_w h1 _) (G.refl h1)
    have h2 := G.pre h1 g2
    exact G.trans (G_same hp rfl rfl) (G.trans g2 (G_ite (G_same h2 rfl rfl) (G.refl h2)))
  · dsimp only
    generalize parsenum r = pn
    obtain ⟨w, wp, r'⟩ := pn
    dsimp only
    exact G_ite (G_same hp rfl rfl) (G_same hp rfl rfl)

theorem precStage_G (p : PP) (args : List Val) (argNum : Nat) (r : List Byte) (ai : Bool) (hp : Pre p) :
    G p (precStage p args argNum r ai).1 := by
  unfold precStage
  split
  · rename_i c r''
    dsimp only
    have g1 : G p (if ai = true then { p with goodArgNum := false } else p) := G_ite (G_same hp rfl rfl) (G.refl hp)
    generalize (if ai = true then { p with goodArgNum := false } else p) = p1 at g1 ⊢
    have h1 := G.pre hp g1
    have g2 := G_argNumber h1 g1 argNum (c :: r'') args.length
    generalize argNumber p1 argNum (c :: r'') args.length = an at g2 ⊢
    obtain ⟨p2, argNum2, r2, ai2⟩ := an
    dsimp only at g2 ⊢
    have h2 := G.pre hp g2
    split
    · dsimp only
      generalize intFromArg args argNum2 = ifa
      obtain ⟨num, isInt, newArg⟩ := ifa
      dsimp only
      generalize (if num < 0 then ((0 : Nat), false) else (num.toNat, isInt)) = pp
      obtain ⟨prec, precPresent⟩ := pp
      dsimp only
      let p3 : PP := { p2 with f := { p2.f with prec := prec, precPresent := precPresent } }
      have h3 : Pre p3 := Pre_congr rfl h2
      exact G.trans g2 (G.trans (G_same h2 rfl rfl) (G_ite (G_w h3 _) (G.refl h3)))
    · dsimp only
      generalize parsenum r2 = pn
      obtain ⟨pr, ppres, r3⟩ := pn
      dsimp only
      exact G.trans g2 (G_same h2 rfl rfl)
  · exact G.refl hp

theorem D_of_GR {p p1 : PP} {r : Res} (h1 : Pre p1) (ho : p1.override = p.override) (h : GR p1 r) : D p r := by
  refine ⟨fun q hq => ?_, h.2⟩
  have g := h.1 q hq
  exact ⟨g.1, by rw [g.2.1]; exact h1.2, by rw [g.2.2, ho]⟩

theorem Pre_setSafe {p : PP} (hp : Pre p) :
    Pre (if p.override ≠ .ovUnsafe then { p with buf := p.buf.setMode .safeEsc } else p) := by
  split
  · exact ⟨inv_setMode _ _ hp.1, by simp [setMode_mode]⟩
  · exact hp

theorem step_doPrint {env : Env} {n : Nat} (S : Spec env n) :
    ∀ p args, Pre p → ListOk args → D p (doPrint env (n + 1) p args) := by
  intro p args hp ha
  unfold doPrint
  dsimp only
  apply D_of_GR (Pre_setSafe hp) (by split <;> rfl)
  exact S.doPrintLoop _ _ _ _ (Pre_setSafe hp) ha

theorem step_doPrintLoop {env : Env} {n : Nat} (S : Spec env n) :
    ∀ p args k ps, Pre p → ListOk args → GR p (doPrintLoop env (n + 1) p args k ps) := by
  intro p args k ps hp ha
  unfold doPrintLoop
  split
  · exact GR_ok (G.refl hp)
  · rename_i arg rest
    dsimp only
    have g1 : G p (if k > 0 ∧ (!isStringKind arg) = true ∧ (!ps) = true then p.wb 0x20 else p) := G_ite (G_wb hp _) (G.refl hp)
    apply GR_from g1
    apply GR_bind (S.printArg _ _ _ (G.pre hp g1) (ha arg (by simp)))
    intro q gq
    exact S.doPrintLoop _ _ _ _ (G.pre (G.pre hp g1) gq) (fun v hv => ha v (by simp [hv]))

theorem step_doPrintf {env : Env} {n : Nat} (S : Spec env n) :
    ∀ p f args, Pre p → ListOk args → D p (doPrintf env (n + 1) p f args) := by
  intro p f args hp ha
  unfold doPrintf
  dsimp only
  have h1 := Pre_setSafe hp
  generalize hp1 : (if p.override ≠ .ovUnsafe then { p with buf := p.buf.setMode .safeEsc } else p) = p1 at h1 ⊢
  have ho : p1.override = p.override := by rw [← hp1]; split <;> rfl
  have h2 : Pre ({ p1 with reordered := false } : PP) := Pre_congr rfl h1
  apply D_of_GR (p1 := { p1 with reordered := false }) h2 ho
  apply GR_bind (p := ({ p1 with reordered := false } : PP)) (S.fmtLoop _ _ _ _ _ h2 ha)
  intro q gq
  exact GR_ok (G.refl (G.pre h2 gq))


theorem listOk_get {args : List Val} (ha : ListOk args) {k : Nat} {a : Val} (h : args[k]? = some a) : ValOk a := by
  have : a ∈ args := List.mem_of_getElem? h
  exact ha a this

theorem step_fmtLoop {env : Env} {n : Nat} (S : Spec env n) :
    ∀ p f args k ai, Pre p → ListOk args → GR p (fmtLoop env (n + 1) p f args k ai) := by
  intro p f args k ai hp ha
  unfold fmtLoop
  dsimp only
  let p0 : PP := { p with goodArgNum := true }
  have h0 : Pre p0 := Pre_congr rfl hp
  have g1 : G p0 (if (f.takeWhile (· ≠ 0x25)).isEmpty = true then p0 else p0.w (f.takeWhile (· ≠ 0x25))) :=
    G_ite (G.refl h0) (G_w h0 _)
  generalize hp1 : (if (f.takeWhile (· ≠ 0x25)).isEmpty = true then p0 else p0.w (f.takeWhile (· ≠ 0x25))) = p1 at g1 ⊢
  have h1 := G.pre h0 g1
  apply GR_congr (p1 := p0) rfl rfl
  apply GR_from g1
  split
  · exact S.finishPrintf _ _ _ h1 ha
  · rename_i c r0 _
    generalize parseFlags true {} r0 = pf
    obtain ⟨fs, r1⟩ := pf
    dsimp only
    let p2 : PP := { { p1 with f := p1.f.clear } with f := { p1.f.clear with plus := fs.plus, minus := fs.minus, sharp := fs.sharp, space := fs.space, zero := fs.zero } }
    have h2 : Pre p2 := Pre_congr rfl h1
    split
    · rename_i c2 r2
      split
      · split
        · rename_i a ha2
          have hva := listOk_get ha ha2
          refine GR_congr (p1 := (if c2 = 0x76 then ({ p2 with f := { p2.f with sharpV := p2.f.sharp, sharp := false, plusV := p2.f.plus, plus := false } } : PP) else p2)) ?_ ?_ ?_
          · split <;> rfl
          · split <;> rfl
          · have h3 : Pre (if c2 = 0x76 then ({ p2 with f := { p2.f with sharpV := p2.f.sharp, sharp := false, plusV := p2.f.plus, plus := false } } : PP) else p2) := by
              split
              · exact Pre_congr rfl h2
              · exact h2
            apply GR_bind (S.printArg _ _ _ h3 hva)
            intro q gq
            exact S.fmtLoop _ _ _ _ _ (G.pre h3 gq) ha
        · exact GR_ok (G_ite (G_same h1 rfl rfl) (G_same h1 rfl rfl))
      · exact GR_congr (p1 := p2) rfl rfl (S.directiveTail _ _ _ _ _ h2 ha)
    · exact GR_congr (p1 := p2) rfl rfl (S.directiveTail _ _ _ _ _ h2 ha)


theorem step_extraLoop {env : Env} {n : Nat} (S : Spec env n) :
    ∀ p args f, Pre p → ListOk args → GR p (extraLoop env (n + 1) p args f) := by
  intro p args f hp ha
  unfold extraLoop
  split
  · exact GR_ok (G.refl hp)
  · rename_i a rest
    dsimp only
    have g1 : G p (if f = true then p else p.w ([0x2C, 0x20] /- ", " -/ : List UInt8)) := G_ite (G.refl hp) (G_w hp _)
    generalize (if f = true then p else p.w ([0x2C, 0x20] /- ", " -/ : List UInt8)) = p1 at g1 ⊢
    have h1 := G.pre hp g1
    apply GR_from g1
    apply GR_bind (p := p1)
    · split
      · exact GR_ok (G_w h1 _)
      · have g2 := G.trans (G_w h1 (typeName a)) (G_wb (G.pre h1 (G_w h1 _)) 0x3D)
        exact GR_from g2 (S.printArg _ _ _ (G.pre h1 g2) (ha a (by simp)))
    · intro q gq
      exact S.extraLoop _ _ _ (G.pre h1 gq) (fun v hv => ha v (by simp [hv]))

theorem listOk_drop {args : List Val} (ha : ListOk args) (k : Nat) : ListOk (args.drop k) :=
  fun v hv => ha v (List.mem_of_mem_drop hv)

theorem step_finishPrintf {env : Env} {n : Nat} (S : Spec env n) :
    ∀ p args k, Pre p → ListOk args → GR p (finishPrintf env (n + 1) p args k) := by
  intro p args k hp ha
  unfold finishPrintf
  split
  · dsimp only
    let p1 : PP := { p with f := p.f.clear }
    have h1 : Pre p1 := Pre_congr rfl hp
    have g2 := G_w h1 ([0x25, 0x21, 0x28, 0x45, 0x58, 0x54, 0x52, 0x41, 0x20] /- "%!(EXTRA " -/ : List UInt8)
    apply GR_congr (p1 := p1) rfl rfl
    apply GR_then_wb h1 _ 0x29
    exact GR_from g2 (S.extraLoop _ _ _ (G.pre h1 g2) (listOk_drop ha k))
  · exact GR_ok (G.refl hp)

theorem step_directiveTail {env : Env} {n : Nat} (S : Spec env n) :
    ∀ p f args k ai, Pre p → ListOk args → GR p (directiveTail env (n + 1) p f args k ai) := by
  intro p f args k ai hp ha
  unfold directiveTail
  dsimp only
  -- argument index
  have g1 := G_argNumber hp (G.refl hp) k f args.length
  generalize argNumber p k f args.length = an at g1 ⊢
  obtain ⟨p1, k1, r1, ai1⟩ := an
  dsimp only at g1 ⊢
  have h1 := G.pre hp g1
  -- width
  have g2 := G.trans g1 (widthStage_G p1 args k1 r1 ai1 h1)
  generalize widthStage p1 args k1 r1 ai1 = ws at g2 ⊢
  obtain ⟨p2, k2, r2, ai2⟩ := ws
  dsimp only at g2 ⊢
  have h2 := G.pre hp g2
  -- precision
  have g3 := G.trans g2 (precStage_G p2 args k2 r2 ai2 h2)
  generalize precStage p2 args k2 r2 ai2 = ps at g3 ⊢
  obtain ⟨p3, k3, r3, ai3⟩ := ps
  dsimp only at g3 ⊢
  have h3 := G.pre hp g3
  -- trailing argument index
  have g4 : G p (if (!ai3) = true then argNumber p3 k3 r3 args.length else (p3, k3, r3, ai3)).1 := by
    split
    · exact G_argNumber h3 g3 _ _ _
    · exact g3
  generalize (if (!ai3) = true then argNumber p3 k3 r3 args.length else (p3, k3, r3, ai3)) = an4 at g4 ⊢
  obtain ⟨p4, k4, r4, ai4⟩ := an4
  dsimp only at g4 ⊢
  have h4 := G.pre hp g4
  apply GR_from g4
  split
  · exact GR_ok (G_w h4 _)
  · rename_i verb r' _
    have wbang : G p4 (((p4.w percentBang).wr verb)) := G.trans (G_w h4 _) (G_wr (G.pre h4 (G_w h4 _)) _)
    split
    · have g := G_wb h4 0x25
      exact GR_from g (S.fmtLoop _ _ _ _ _ (G.pre h4 g) ha)
    · split
      · have g := G.trans wbang (G_w (G.pre h4 wbang) ([0x28, 0x42, 0x41, 0x44, 0x49, 0x4E, 0x44, 0x45, 0x58, 0x29] /- "(BADINDEX)" -/ : List UInt8))
        exact GR_from g (S.fmtLoop _ _ _ _ _ (G.pre h4 g) ha)
      · split
        · have g := G.trans wbang (G_w (G.pre h4 wbang) ([0x28, 0x4D, 0x49, 0x53, 0x53, 0x49, 0x4E, 0x47, 0x29] /- "(MISSING)" -/ : List UInt8))
          exact GR_from g (S.fmtLoop _ _ _ _ _ (G.pre h4 g) ha)
        · have h5 : Pre (if verb = 118 then ({ p4 with f := { p4.f with sharpV := p4.f.sharp, sharp := false, plusV := p4.f.plus, plus := false } } : PP) else p4) := by
            split
            · exact Pre_congr rfl h4
            · exact h4
          have g5 : G p4 (if verb = 118 then ({ p4 with f := { p4.f with sharpV := p4.f.sharp, sharp := false, plusV := p4.f.plus, plus := false } } : PP) else p4) :=
            G_ite (G_same h4 rfl rfl) (G.refl h4)
          generalize (if verb = 118 then ({ p4 with f := { p4.f with sharpV := p4.f.sharp, sharp := false, plusV := p4.f.plus, plus := false } } : PP) else p4) = p5 at h5 g5 ⊢
          apply GR_from g5
          split
          · rename_i a ha2
            apply GR_bind (S.printArg _ _ _ h5 (listOk_get ha ha2))
            intro q gq
            exact S.fmtLoop _ _ _ _ _ (G.pre h5 gq) ha
          · exact GR_ok (G.refl h5)

/-- **The frame theorem for the whole printer**, at every fuel. -/
theorem spec_all (env : Env) (he : EnvOk env) : ∀ n, Spec env n := by
  intro n
  induction n with
  | zero => exact spec_zero env
  | succ n ih =>
    exact {
      printArg := step_printArg ih
      printArgBody := step_printArgBody ih
      badVerb := step_badVerb ih
      handleMethods := step_handleMethods ih
      methDispatch := step_methDispatch he ih
      fmtString := step_fmtString ih
      catchPanic := step_catchPanic ih
      runScript := step_runScript ih
      printValue := step_printValue ih
      printSlot := step_printSlot ih
      slotMethods := step_slotMethods ih
      printFields := step_printFields ih
      printElems := step_printElems ih
      printPairs := step_printPairs ih
      doPrint := step_doPrint ih
      doPrintLoop := step_doPrintLoop ih
      doPrintf := step_doPrintf ih
      fmtLoop := step_fmtLoop ih
      directiveTail := step_directiveTail ih
      finishPrintf := step_finishPrintf ih
      extraLoop := step_extraLoop ih }

end Redact
