import RedactVerif.Proofs.FuelMono
/-
The two fields a recycled printer may carry over from its previous call, `reordered` and
`goodArgNum`, are read only by the `doPrintf` family, which sets them first. Here: every function
reachable from `doPrint` (Sprint, Fprint, nested Print) computes the same — same buffer, same
everything else — whatever these two fields hold. By induction on the fuel, following the shape
shared by the two runs (as in `FuelMono.lean`).
-/
namespace Redact

/-- Equal up to `reordered` and `goodArgNum`. -/
structure Eqv (p p' : PP) : Prop where
  buf : p'.buf = p.buf
  override : p'.override = p.override
  f : p'.f = p.f
  erroring : p'.erroring = p.erroring
  panicking : p'.panicking = p.panicking
  wrapErrs : p'.wrapErrs = p.wrapErrs
  wrappedErr : p'.wrappedErr = p.wrappedErr

theorem Eqv.refl (p : PP) : Eqv p p := ⟨rfl, rfl, rfl, rfl, rfl, rfl, rfl⟩

inductive RelR : Res → Res → Prop
  | ok {q q' : PP} : Eqv q q' → RelR (.ok q) (.ok q')
  | panic (b : Buffer) (pl : Val) : RelR (.panic b pl) (.panic b pl)
  | fuel : RelR .fuel .fuel
  | unsupported : RelR .unsupported .unsupported

inductive RelS : SRes → SRes → Prop
  | ok {q q' : PP} : Eqv q q' → RelS (.ok q) (.ok q')
  | raised {q q' : PP} (pl : Val) : Eqv q q' → RelS (.raised q pl) (.raised q' pl)
  | abort {r r' : Res} : RelR r r' → RelS (.abort r) (.abort r')

structure RelH (a a' : Bool × Res) : Prop where
  fst : a'.1 = a.1
  snd : RelR a.2 a'.2

theorem RelR.refl (r : Res) : RelR r r := by
  cases r
  · exact .ok (Eqv.refl _)
  · exact .panic _ _
  · exact .fuel
  · exact .unsupported
theorem RelS.refl (r : SRes) : RelS r r := by
  cases r
  · exact .ok (Eqv.refl _)
  · exact .raised _ (Eqv.refl _)
  · exact .abort (RelR.refl _)

theorem rel_ok {q q' : PP} (h : Eqv q q') : RelR (.ok q) (.ok q') := .ok h

theorem rel_bind {a a' : Res} {k k' : PP → Res} (h : RelR a a') (hk : ∀ q q', Eqv q q' → RelR (k q) (k' q')) :
    RelR (a.bind k) (a'.bind k') := by
  cases h with
  | ok hq => exact hk _ _ hq
  | panic b pl => exact .panic b pl
  | fuel => exact .fuel
  | unsupported => exact .unsupported

theorem rel_ite {c : Prop} [Decidable c] {a b a' b' : Res} (ha : RelR a a') (hb : RelR b b') :
    RelR (if c then a else b) (if c then a' else b') := by
  split <;> assumption
theorem rel_ite_h {c : Prop} [Decidable c] {a b a' b' : Bool × Res} (ha : RelH a a') (hb : RelH b b') :
    RelH (if c then a else b) (if c then a' else b') := by
  split <;> assumption
theorem rel_ite_s {c : Prop} [Decidable c] {a b a' b' : SRes} (ha : RelS a a') (hb : RelS b b') :
    RelS (if c then a else b) (if c then a' else b') := by
  split <;> assumption
theorem eqv_ite {c : Prop} [Decidable c] {a b a' b' : PP} (ha : Eqv a a') (hb : Eqv b b') :
    Eqv (if c then a else b) (if c then a' else b') := by
  split <;> assumption

theorem Eqv.w {p p' : PP} (h : Eqv p p') (s : List Byte) : Eqv (p.w s) (p'.w s) :=
  ⟨by simp [PP.w, h.buf], h.override, h.f, h.erroring, h.panicking, h.wrapErrs, h.wrappedErr⟩
theorem Eqv.wb {p p' : PP} (h : Eqv p p') (c : Byte) : Eqv (p.wb c) (p'.wb c) :=
  ⟨by simp [PP.wb, h.buf], h.override, h.f, h.erroring, h.panicking, h.wrapErrs, h.wrappedErr⟩
theorem Eqv.wr {p p' : PP} (h : Eqv p p') (r : Int) : Eqv (p.wr r) (p'.wr r) :=
  ⟨by simp [PP.wr, h.buf], h.override, h.f, h.erroring, h.panicking, h.wrapErrs, h.wrappedErr⟩

theorem Eqv.setErroring {p p' : PP} (h : Eqv p p') (e : Bool) : Eqv { p with erroring := e } { p' with erroring := e } :=
  ⟨h.buf, h.override, h.f, rfl, h.panicking, h.wrapErrs, h.wrappedErr⟩
theorem Eqv.setF {p p' : PP} (h : Eqv p p') (g : FmtS) : Eqv { p with f := g } { p' with f := g } :=
  ⟨h.buf, h.override, rfl, h.erroring, h.panicking, h.wrapErrs, h.wrappedErr⟩
theorem Eqv.setPanicking {p p' : PP} (h : Eqv p p') (e : Bool) : Eqv { p with panicking := e } { p' with panicking := e } :=
  ⟨h.buf, h.override, h.f, h.erroring, rfl, h.wrapErrs, h.wrappedErr⟩
theorem Eqv.setWrapped {p p' : PP} (h : Eqv p p') (w : Option Nat) (e : Bool) :
    Eqv { p with wrappedErr := w, wrapErrs := e } { p' with wrappedErr := w, wrapErrs := e } :=
  ⟨h.buf, h.override, h.f, h.erroring, h.panicking, rfl, rfl⟩
theorem Eqv.setWrappedErr {p p' : PP} (h : Eqv p p') (w : Option Nat) :
    Eqv { p with wrappedErr := w } { p' with wrappedErr := w } :=
  ⟨h.buf, h.override, h.f, h.erroring, h.panicking, h.wrapErrs, rfl⟩
theorem Eqv.setBuf {p p' : PP} (h : Eqv p p') (b : Buffer) : Eqv { p with buf := b } { p' with buf := b } :=
  ⟨rfl, h.override, h.f, h.erroring, h.panicking, h.wrapErrs, h.wrappedErr⟩
/-- The nested printer of `SafePrinter.Print/Printf`: a fresh printer sharing buffer and override. -/
theorem Eqv.nested {p p' : PP} (h : Eqv p p') :
    ({ buf := p'.buf, override := p'.override } : PP) = { buf := p.buf, override := p.override } := by
  rw [h.buf, h.override]

/-- The four `start*()`: related printers give related printers and the same restorer. -/
structure StartEqv (start : PP → PP × PP.Restorer) : Prop where
  st : ∀ p p', Eqv p p' → Eqv (start p).1 (start p').1 ∧ (start p').2 = (start p).2

theorem Eqv.restore {q q' : PP} (h : Eqv q q') (r : PP.Restorer) : Eqv (q.restore r) (q'.restore r) :=
  ⟨by simp [PP.restore, h.buf], rfl, h.f, h.erroring, h.panicking, h.wrapErrs, h.wrappedErr⟩

theorem rel_bracket {start : PP → PP × PP.Restorer} (hs : StartEqv start) {p p' : PP} (h : Eqv p p')
    {body body' : PP → Res} (hb : ∀ q q', Eqv q q' → RelR (body q) (body' q')) :
    RelR (bracket start p body) (bracket start p' body') := by
  unfold bracket
  have ⟨h1, h2⟩ := hs.st p p' h
  generalize start p = sp at h1 h2
  generalize start p' = sp' at h1 h2
  obtain ⟨q0, r⟩ := sp
  obtain ⟨q0', r'⟩ := sp'
  simp only at h1 h2 ⊢
  subst h2
  have := hb q0 q0' h1
  generalize body q0 = x at this
  generalize body' q0' = x' at this
  cases this with
  | ok hq => exact .ok (hq.restore _)
  | panic b pl => exact .panic _ _
  | fuel => exact .fuel
  | unsupported => exact .unsupported

theorem startEqv_safeOverride : StartEqv PP.startSafeOverride := by
  constructor
  intro p p' h
  unfold PP.startSafeOverride
  rw [h.override, h.buf]
  refine ⟨?_, rfl⟩
  split
  · exact ⟨rfl, rfl, h.f, h.erroring, h.panicking, h.wrapErrs, h.wrappedErr⟩
  · exact h
theorem startEqv_unsafeOverride : StartEqv PP.startUnsafeOverride := by
  constructor
  intro p p' h
  unfold PP.startUnsafeOverride
  rw [h.override, h.buf]
  refine ⟨?_, rfl⟩
  split
  · exact ⟨rfl, rfl, h.f, h.erroring, h.panicking, h.wrapErrs, h.wrappedErr⟩
  · exact h
theorem startEqv_unsafe : StartEqv PP.startUnsafe := by
  constructor
  intro p p' h
  unfold PP.startUnsafe
  rw [h.override, h.buf]
  refine ⟨?_, rfl⟩
  split
  · exact ⟨rfl, rfl, h.f, h.erroring, h.panicking, h.wrapErrs, h.wrappedErr⟩
  · exact h
theorem startEqv_preRedactable : StartEqv PP.startPreRedactable := by
  constructor
  intro p p' h
  unfold PP.startPreRedactable
  rw [h.override, h.buf]
  refine ⟨?_, rfl⟩
  split
  · exact ⟨rfl, rfl, h.f, h.erroring, h.panicking, h.wrapErrs, h.wrappedErr⟩
  · exact h

theorem relH_mk {b : Bool} {r r' : Res} (h : RelR r r') : RelH (b, r) (b, r') := ⟨rfl, h⟩

theorem rel_retOut (nr : Bool) {p p' : PP} (hp : Eqv p p') (sc : Script) {r r' : Res} (h : RelR r r') :
    RelS (retOut nr p sc r) (retOut nr p' sc r') := by
  unfold retOut
  split
  · exact .raised _ hp
  · split
    · exact .raised _ hp
    · exact .abort h

/-- What is known at fuel `n` about the functions reachable from `doPrint`. -/
structure ESpec (env : Env) (n : Nat) : Prop where
  printArg : ∀ p p' v verb, Eqv p p' → RelR (printArg env n p v verb) (printArg env n p' v verb)
  printArgBody : ∀ p p' v verb, Eqv p p' → RelR (printArgBody env n p v verb) (printArgBody env n p' v verb)
  badVerb : ∀ p p' v verb via, Eqv p p' → RelR (badVerb env n p v verb via) (badVerb env n p' v verb via)
  handleMethods : ∀ p p' v verb, Eqv p p' → RelH (handleMethods env n p v verb) (handleMethods env n p' v verb)
  methDispatch : ∀ p p' v ms nr ret sc verb, Eqv p p' →
    RelH (methDispatch env n p v ms nr ret sc verb) (methDispatch env n p' v ms nr ret sc verb)
  fmtString : ∀ p p' v ret verb, Eqv p p' → RelR (fmtString env n p v ret verb) (fmtString env n p' v ret verb)
  catchPanic : ∀ (p0 p0' : PP) (arg : Val) (verb : Nat) (m : List Byte) (nr : Bool) (out out' : SRes), RelS out out' →
    RelR (catchPanic env n p0 arg verb m nr out) (catchPanic env n p0' arg verb m nr out')
  runScript : ∀ p p' sc, Eqv p p' → RelS (runScript env n p sc) (runScript env n p' sc)
  printValue : ∀ p p' v verb d ro, Eqv p p' → RelR (printValue env n p v verb d ro) (printValue env n p' v verb d ro)
  printSlot : ∀ p p' v verb d i ro, Eqv p p' → RelR (printSlot env n p v verb d i ro) (printSlot env n p' v verb d i ro)
  slotMethods : ∀ p p' v verb, Eqv p p' → RelH (slotMethods env n p v verb) (slotMethods env n p' v verb)
  printFields : ∀ p p' fs verb d ro f, Eqv p p' → RelR (printFields env n p fs verb d ro f) (printFields env n p' fs verb d ro f)
  printElems : ∀ p p' vs verb d i ro f, Eqv p p' → RelR (printElems env n p vs verb d i ro f) (printElems env n p' vs verb d i ro f)
  printPairs : ∀ p p' ks vs verb d ik iv ro f, Eqv p p' →
    RelR (printPairs env n p ks vs verb d ik iv ro f) (printPairs env n p' ks vs verb d ik iv ro f)
  doPrint : ∀ p p' args, Eqv p p' → RelR (doPrint env n p args) (doPrint env n p' args)
  doPrintLoop : ∀ p p' args k ps, Eqv p p' → RelR (doPrintLoop env n p args k ps) (doPrintLoop env n p' args k ps)

theorem espec_zero (env : Env) : ESpec env 0 := by
  constructor <;> intros <;> simp only [printArg, printArgBody, badVerb, handleMethods, methDispatch, fmtString, catchPanic,
    runScript, printValue, printSlot, slotMethods, printFields, printElems, printPairs, doPrint, doPrintLoop]
  all_goals first
    | exact .fuel
    | exact ⟨rfl, .fuel⟩
    | exact .abort .fuel

variable {env : Env} {n : Nat}

set_option hygiene false in
/-- Follow the shape shared by the two runs. -/
macro "emono" : tactic => `(tactic| repeat' (first
  | with_reducible exact Eqv.refl _
  | with_reducible exact RelR.refl _
  | with_reducible exact RelS.refl _
  | with_reducible assumption
  | with_reducible apply Eqv.w
  | with_reducible apply Eqv.wb
  | with_reducible apply Eqv.wr
  | with_reducible apply Eqv.restore
  | with_reducible apply eqv_ite
  | with_reducible apply rel_ok
  | with_reducible apply E.printArg
  | with_reducible apply E.printArgBody
  | with_reducible apply E.badVerb
  | with_reducible apply E.handleMethods
  | with_reducible apply E.methDispatch
  | with_reducible apply E.fmtString
  | with_reducible apply E.runScript
  | with_reducible apply E.printValue
  | with_reducible apply E.printSlot
  | with_reducible apply E.slotMethods
  | with_reducible apply E.printFields
  | with_reducible apply E.printElems
  | with_reducible apply E.printPairs
  | with_reducible apply E.doPrint
  | with_reducible apply E.doPrintLoop
  | with_reducible apply rel_retOut
  | with_reducible apply RelS.raised
  | with_reducible apply rel_leafWrite
  | with_reducible apply rel_ite
  | with_reducible apply rel_ite_h
  | with_reducible apply rel_ite_s
  | with_reducible apply relH_mk
  | with_reducible apply rel_bracket startEqv_safeOverride
  | with_reducible apply rel_bracket startEqv_unsafeOverride
  | with_reducible apply rel_bracket startEqv_unsafe
  | with_reducible apply rel_bracket startEqv_preRedactable
  | with_reducible apply rel_bind
  | with_reducible exact Eqv.mk rfl rfl rfl rfl rfl rfl rfl
  | with_reducible apply Eqv.setErroring
  | with_reducible apply Eqv.setF
  | with_reducible apply Eqv.setPanicking
  | with_reducible apply Eqv.setWrapped
  | with_reducible apply Eqv.setWrappedErr
  | with_reducible apply Eqv.setBuf
  | with_reducible apply Eqv.nested
  | (intro q q' hq; try simp only [hq.buf, hq.override, hq.f, hq.erroring, hq.panicking, hq.wrapErrs, hq.wrappedErr])
  | (dsimp only)))

/-- Rewrite the second printer's fields into the first's. -/
macro "eprep" h:ident : tactic => `(tactic|
  try simp only [($h).buf, ($h).override, ($h).f, ($h).erroring, ($h).panicking, ($h).wrapErrs, ($h).wrappedErr])

theorem rel_leafWrite (env : Env) {p p' : PP} (h : Eqv p p') (id verb : Nat) (k : BK) (ty : List Byte) :
    RelR (leafWrite env p id verb k ty) (leafWrite env p' id verb k ty) := by
  unfold leafWrite leafWrite1
  rw [h.f]
  split
  · exact rel_ok (h.w _)
  · split
    · exact .unsupported
    · split
      · exact .unsupported
      · exact rel_bracket startEqv_unsafe h (fun q q' hq => rel_ok (hq.w _))

theorem estep_printArg (E : ESpec env n) : ∀ p p' v verb, Eqv p p' →
    RelR (printArg env (n + 1) p v verb) (printArg env (n + 1) p' v verb) := by
  intro p p' v verb h
  cases v <;> simp only [printArg] <;> emono

theorem estep_fmtString (E : ESpec env n) : ∀ p p' v ret verb, Eqv p p' →
    RelR (fmtString env (n + 1) p v ret verb) (fmtString env (n + 1) p' v ret verb) := by
  intro p p' v ret verb h
  simp only [fmtString]
  emono

theorem relH_tt {r r' : Res} (h : RelH (true, r) (true, r')) : RelR r r' := h.snd
theorem relH_ne {b b' : Bool} {r r' : Res} (h : RelH (b, r) (b', r')) (hne : b' ≠ b) : False := hne h.fst

-- `match x with | (true, r) => r | (false, _) => k` on both sides, `RelH x x'` known as `hh`
set_option hygiene false in
macro "ehandled " e:term:max e':term:max : tactic => `(tactic| (
  generalize $e = x at hh ⊢
  generalize $e' = x' at hh ⊢
  obtain ⟨b, r⟩ := x
  obtain ⟨b', r'⟩ := x'
  cases b <;> cases b' <;> dsimp only <;>
    first | exact (relH_ne hh (by decide)).elim | exact relH_tt hh | skip))

theorem estep_badVerb (E : ESpec env n) : ∀ p p' v verb via, Eqv p p' →
    RelR (badVerb env (n + 1) p v verb via) (badVerb env (n + 1) p' v verb via) := by
  intro p p' v verb via h
  unfold badVerb
  eprep h
  apply rel_bind
  · cases v <;> simp only <;> emono
  · emono

theorem estep_printArgBody (E : ESpec env n) : ∀ p p' v verb, Eqv p p' →
    RelR (printArgBody env (n + 1) p v verb) (printArgBody env (n + 1) p' v verb) := by
  intro p p' v verb h
  have hh := E.handleMethods p p' v verb h
  unfold printArgBody
  eprep h
  cases v with
  | leaf id k ty iv sv reg => cases k <;> simp only <;> emono
  | nil => simp only; emono
  | redactable c ty => simp only; emono
  | _ =>
    simp only
    emono
    all_goals (ehandled (handleMethods env n p _ verb) (handleMethods env n p' _ verb); emono)

theorem estep_handleMethods (E : ESpec env n) : ∀ p p' v verb, Eqv p p' →
    RelH (handleMethods env (n + 1) p v verb) (handleMethods env (n + 1) p' v verb) := by
  intro p p' v verb h
  unfold handleMethods
  eprep h
  cases v <;> simp only <;> emono

theorem estep_methDispatch (E : ESpec env n) : ∀ p p' v ms nr ret sc verb, Eqv p p' →
    RelH (methDispatch env (n + 1) p v ms nr ret sc verb) (methDispatch env (n + 1) p' v ms nr ret sc verb) := by
  intro p p' v ms nr ret sc verb h
  have cp := E.catchPanic
  unfold methDispatch
  eprep h
  emono
  all_goals first
    | (apply cp; emono)
    | (split <;> emono <;> (apply cp; emono))

theorem estep_catchPanic (E : ESpec env n) : ∀ (p0 p0' : PP) (arg : Val) (verb : Nat) (m : List Byte) (nr : Bool) (out out' : SRes),
    RelS out out' → RelR (catchPanic env (n + 1) p0 arg verb m nr out) (catchPanic env (n + 1) p0' arg verb m nr out') := by
  intro p0 p0' arg verb m nr out out' h
  unfold catchPanic
  cases h with
  | ok hq => exact .ok hq
  | abort hr => exact hr
  | raised pl hq =>
    rename_i q q'
    simp only
    eprep hq
    emono

theorem estep_runScript (E : ESpec env n) : ∀ p p' sc, Eqv p p' → RelS (runScript env (n + 1) p sc) (runScript env (n + 1) p' sc) := by
  intro p p' sc h
  unfold runScript
  cases sc with
  | done => exact .ok h
  | panic pl => exact .raised _ h
  | print args k =>
    simp only
    eprep h
    generalize doPrint env n ({ buf := p.buf, override := p.override } : PP) args.toList = r
    cases r <;> simp only
    · apply E.runScript; emono
    · exact .raised _ (by emono)
    · exact .abort .fuel
    · exact .abort .unsupported
  | printf f args k =>
    simp only
    eprep h
    generalize doPrintf env n ({ buf := p.buf, override := p.override } : PP) f args.toList = r
    cases r <;> simp only
    · apply E.runScript; emono
    · exact .raised _ (by emono)
    · exact .abort .fuel
    · exact .abort .unsupported
  | unsafeLeaf id k =>
    simp only
    split
    · exact .abort .unsupported
    · apply E.runScript
      have hs := (startEqv_unsafe.st p p' h)
      rw [hs.2]
      exact (hs.1.w _).restore _
  | indep k => simp only; exact E.runScript _ _ _ h
  | safeString s k =>
    simp only
    apply E.runScript
    have hs := (startEqv_safeOverride.st p p' h)
    rw [hs.2]
    exact (hs.1.w _).restore _
  | safeRune x k =>
    simp only
    apply E.runScript
    have hs := (startEqv_safeOverride.st p p' h)
    rw [hs.2]
    exact (hs.1.wr _).restore _
  | unsafeString s k =>
    simp only
    apply E.runScript
    have hs := (startEqv_unsafe.st p p' h)
    rw [hs.2]
    exact (hs.1.w _).restore _
  | write s k =>
    simp only
    apply E.runScript
    have hs := (startEqv_unsafe.st p p' h)
    rw [hs.2]
    exact (hs.1.w _).restore _

theorem estep_printValue (E : ESpec env n) : ∀ p p' v verb d ro, Eqv p p' →
    RelR (printValue env (n + 1) p v verb d ro) (printValue env (n + 1) p' v verb d ro) := by
  intro p p' v verb d ro h
  unfold printValue
  eprep h
  cases v <;> simp only <;> emono

theorem estep_slotMethods (E : ESpec env n) : ∀ p p' v verb, Eqv p p' →
    RelH (slotMethods env (n + 1) p v verb) (slotMethods env (n + 1) p' v verb) := by
  intro p p' v verb h
  unfold slotMethods
  eprep h
  cases v with
  | redactable c ty =>
    simp only
    emono
    have hr := E.runScript p p' (.print (.cons (.redactable c ty) .nil) .done) h
    generalize runScript env n p (.print (.cons (.redactable c ty) .nil) .done) = r at hr ⊢
    generalize runScript env n p' (.print (.cons (.redactable c ty) .nil) .done) = r' at hr ⊢
    cases hr with
    | ok hq => exact .ok hq
    | raised pl hq => simp only; rw [hq.buf]; exact .panic _ _
    | abort hr => exact hr
  | _ => simp only <;> emono

theorem estep_printFields (E : ESpec env n) : ∀ p p' fs verb d ro f, Eqv p p' →
    RelR (printFields env (n + 1) p fs verb d ro f) (printFields env (n + 1) p' fs verb d ro f) := by
  intro p p' fs verb d ro f h
  unfold printFields
  eprep h
  cases fs with
  | nil => simp only; emono
  | cons name exported it v rest =>
    simp only
    have g1 : Eqv (if f = true then p else if p.f.sharpV = true then p.w ([0x2C, 0x20] /- ", " -/ : List UInt8) else p.wb 0x20)
        (if f = true then p' else if p.f.sharpV = true then p'.w ([0x2C, 0x20] /- ", " -/ : List UInt8) else p'.wb 0x20) := by emono
    generalize (if f = true then p else if p.f.sharpV = true then p.w ([0x2C, 0x20] /- ", " -/ : List UInt8) else p.wb 0x20) = p1 at g1 ⊢
    generalize (if f = true then p' else if p.f.sharpV = true then p'.w ([0x2C, 0x20] /- ", " -/ : List UInt8) else p'.wb 0x20) = p1' at g1 ⊢
    eprep g1
    emono

theorem estep_printElems (E : ESpec env n) : ∀ p p' vs verb d i ro f, Eqv p p' →
    RelR (printElems env (n + 1) p vs verb d i ro f) (printElems env (n + 1) p' vs verb d i ro f) := by
  intro p p' vs verb d i ro f h
  unfold printElems
  eprep h
  cases vs <;> simp only <;> emono

theorem estep_printPairs (E : ESpec env n) : ∀ p p' ks vs verb d ik iv ro f, Eqv p p' →
    RelR (printPairs env (n + 1) p ks vs verb d ik iv ro f) (printPairs env (n + 1) p' ks vs verb d ik iv ro f) := by
  intro p p' ks vs verb d ik iv ro f h
  unfold printPairs
  eprep h
  cases ks <;> cases vs <;> simp only <;> emono

theorem estep_doPrint (E : ESpec env n) : ∀ p p' args, Eqv p p' → RelR (doPrint env (n + 1) p args) (doPrint env (n + 1) p' args) := by
  intro p p' args h
  unfold doPrint
  eprep h
  emono

theorem estep_doPrintLoop (E : ESpec env n) : ∀ p p' args k ps, Eqv p p' →
    RelR (doPrintLoop env (n + 1) p args k ps) (doPrintLoop env (n + 1) p' args k ps) := by
  intro p p' args k ps h
  unfold doPrintLoop
  eprep h
  cases args <;> simp only <;> emono

theorem estep_printSlot (E : ESpec env n) : ∀ p p' v verb d i ro, Eqv p p' →
    RelR (printSlot env (n + 1) p v verb d i ro) (printSlot env (n + 1) p' v verb d i ro) := by
  intro p p' v verb d i ro h
  have noMethod : ∀ q3 q3', Eqv q3 q3' →
      RelR (if i = true then printSlot env n q3 v verb (d + 1) false ro else printValue env n q3 v verb d ro)
        (if i = true then printSlot env n q3' v verb (d + 1) false ro else printValue env n q3' v verb d ro) := by
    intro q3 q3' h3; emono
  have afterMethods : ∀ q2 q2', Eqv q2 q2' →
      RelR (if (!ro) = true then
        match slotMethods env n q2 v verb with
        | (true, r) => r
        | (false, _) => (if i = true then printSlot env n q2 v verb (d + 1) false ro else printValue env n q2 v verb d ro)
      else (if i = true then printSlot env n q2 v verb (d + 1) false ro else printValue env n q2 v verb d ro))
      (if (!ro) = true then
        match slotMethods env n q2' v verb with
        | (true, r) => r
        | (false, _) => (if i = true then printSlot env n q2' v verb (d + 1) false ro else printValue env n q2' v verb d ro)
      else (if i = true then printSlot env n q2' v verb (d + 1) false ro else printValue env n q2' v verb d ro)) := by
    intro q2 q2' h2
    apply rel_ite _ (noMethod q2 q2' h2)
    have hh := E.slotMethods q2 q2' v verb h2
    ehandled (slotMethods env n q2 v verb) (slotMethods env n q2' v verb)
    exact noMethod q2 q2' h2
  have body : ∀ q q', Eqv q q' →
      RelR (if (!ro) = true ∧ isSafeValue v = true then bracket PP.startSafeOverride q (fun q2 =>
          if (!ro) = true then
            match slotMethods env n q2 v verb with
            | (true, r) => r
            | (false, _) => (if i = true then printSlot env n q2 v verb (d + 1) false ro else printValue env n q2 v verb d ro)
          else (if i = true then printSlot env n q2 v verb (d + 1) false ro else printValue env n q2 v verb d ro))
       else
          if (!ro) = true then
            match slotMethods env n q v verb with
            | (true, r) => r
            | (false, _) => (if i = true then printSlot env n q v verb (d + 1) false ro else printValue env n q v verb d ro)
          else (if i = true then printSlot env n q v verb (d + 1) false ro else printValue env n q v verb d ro))
      (if (!ro) = true ∧ isSafeValue v = true then bracket PP.startSafeOverride q' (fun q2 =>
          if (!ro) = true then
            match slotMethods env n q2 v verb with
            | (true, r) => r
            | (false, _) => (if i = true then printSlot env n q2 v verb (d + 1) false ro else printValue env n q2 v verb d ro)
          else (if i = true then printSlot env n q2 v verb (d + 1) false ro else printValue env n q2 v verb d ro))
       else
          if (!ro) = true then
            match slotMethods env n q' v verb with
            | (true, r) => r
            | (false, _) => (if i = true then printSlot env n q' v verb (d + 1) false ro else printValue env n q' v verb d ro)
          else (if i = true then printSlot env n q' v verb (d + 1) false ro else printValue env n q' v verb d ro)) := by
    intro q q' hq
    exact rel_ite (rel_bracket startEqv_safeOverride hq afterMethods) (afterMethods q q' hq)
  unfold printSlot
  eprep h
  cases v with
  | nil => simp only; emono
  | safeW w =>
    cases i <;> simp only [Bool.false_eq_true, if_false, if_true]
    · emono
    · exact rel_ite (rel_bracket startEqv_safeOverride h body) (body p p' h)
  | unsafeW w =>
    cases i <;> simp only [Bool.false_eq_true, if_false, if_true]
    · emono
    · exact rel_ite (rel_bracket startEqv_safeOverride h body) (body p p' h)
  | redactable c ty =>
    cases i <;> simp only [Bool.false_eq_true, if_false, if_true]
    · emono
    · exact rel_ite (rel_bracket startEqv_safeOverride h body) (body p p' h)
  | _ =>
    simp only
    split
    · rename_i r hspecial
      split at hspecial <;> cases hspecial
    · exact rel_ite (rel_bracket startEqv_safeOverride h body) (body p p' h)

/-- **The functions reachable from `doPrint` do not depend on `reordered` and `goodArgNum`**, at every fuel. -/
theorem espec_all (env : Env) : ∀ n, ESpec env n := by
  intro n
  induction n with
  | zero => exact espec_zero env
  | succ n ih =>
    exact {
      printArg := estep_printArg ih
      printArgBody := estep_printArgBody ih
      badVerb := estep_badVerb ih
      handleMethods := estep_handleMethods ih
      methDispatch := estep_methDispatch ih
      fmtString := estep_fmtString ih
      catchPanic := estep_catchPanic ih
      runScript := estep_runScript ih
      printValue := estep_printValue ih
      printSlot := estep_printSlot ih
      slotMethods := estep_slotMethods ih
      printFields := estep_printFields ih
      printElems := estep_printElems ih
      printPairs := estep_printPairs ih
      doPrint := estep_doPrint ih
      doPrintLoop := estep_doPrintLoop ih }

end Redact
