import RedactVerif.Proofs.FuelMono
/-
`HelperForErrorf` differs from `Sprintf` in one bit of the printer, `wrapErrs` (and the error it captures,
`wrappedErr`). These two fields are read and written only where a `%w` directive is being handled. Here: every
function of the printer computes the same — same buffer, same everything else — whatever these two fields hold, as
long as the verb it is given is not `w`; the `doPrintf` family for every format that does not contain the byte `w`
(a verb `w` can only be spelled with that byte). By induction on the fuel, following the shape shared by the two runs
(as in Proofs/Equivar.lean, from which this file is derived).
-/
namespace Redact.EqW

/-- Equal up to `wrapErrs` and `wrappedErr`. -/
structure Eqv (p p' : PP) : Prop where
  buf : p'.buf = p.buf
  override : p'.override = p.override
  f : p'.f = p.f
  erroring : p'.erroring = p.erroring
  panicking : p'.panicking = p.panicking
  reordered : p'.reordered = p.reordered
  goodArgNum : p'.goodArgNum = p.goodArgNum

theorem Eqv.refl (p : PP) : Eqv p p := ⟨rfl, rfl, rfl, rfl, rfl, rfl, rfl⟩

inductive RelR : Res → Res → Prop
  | ok {q q' : PP} : Eqv q q' → RelR (.ok q) (.ok q')
  | panic (b : Buffer) (pl : Val) : RelR (.panic b pl) (.panic b pl)
  | fuel : RelR .fuel .fuel
  | unsupported : RelR .unsupported .unsupported

inductive RelS : SRes → SRes → Prop
  | ok {q q' : PP} : Eqv q q' → RelS (.ok q) (.ok q')
  | raised {q q' : PP} (pl : Val) : Eqv q q' → RelS (.raised q pl) (.raised q' pl)
  | abort {r r' : Res} : RelR r r' → RelS (.abort r) (.abort r')

structure RelH (a a' : Bool × Res) : Prop where
  fst : a'.1 = a.1
  snd : RelR a.2 a'.2

theorem RelR.refl (r : Res) : RelR r r := by
  cases r
  · exact .ok (Eqv.refl _)
  · exact .panic _ _
  · exact .fuel
  · exact .unsupported
theorem RelS.refl (r : SRes) : RelS r r := by
  cases r
  · exact .ok (Eqv.refl _)
  · exact .raised _ (Eqv.refl _)
  · exact .abort (RelR.refl _)

theorem rel_ok {q q' : PP} (h : Eqv q q') : RelR (.ok q) (.ok q') := .ok h

theorem rel_bind {a a' : Res} {k k' : PP → Res} (h : RelR a a') (hk : ∀ q q', Eqv q q' → RelR (k q) (k' q')) :
    RelR (a.bind k) (a'.bind k') := by
  cases h with
  | ok hq => exact hk _ _ hq
  | panic b pl => exact .panic b pl
  | fuel => exact .fuel
  | unsupported => exact .unsupported

theorem rel_ite {c : Prop} [Decidable c] {a b a' b' : Res} (ha : RelR a a') (hb : RelR b b') :
    RelR (if c then a else b) (if c then a' else b') := by
  split <;> assumption
theorem rel_ite_h {c : Prop} [Decidable c] {a b a' b' : Bool × Res} (ha : RelH a a') (hb : RelH b b') :
    RelH (if c then a else b) (if c then a' else b') := by
  split <;> assumption
theorem rel_ite_s {c : Prop} [Decidable c] {a b a' b' : SRes} (ha : RelS a a') (hb : RelS b b') :
    RelS (if c then a else b) (if c then a' else b') := by
  split <;> assumption
theorem eqv_ite {c : Prop} [Decidable c] {a b a' b' : PP} (ha : Eqv a a') (hb : Eqv b b') :
    Eqv (if c then a else b) (if c then a' else b') := by
  split <;> assumption

theorem Eqv.w {p p' : PP} (h : Eqv p p') (s : List Byte) : Eqv (p.w s) (p'.w s) :=
  ⟨by simp [PP.w, h.buf], h.override, h.f, h.erroring, h.panicking, h.reordered, h.goodArgNum⟩
theorem Eqv.wb {p p' : PP} (h : Eqv p p') (c : Byte) : Eqv (p.wb c) (p'.wb c) :=
  ⟨by simp [PP.wb, h.buf], h.override, h.f, h.erroring, h.panicking, h.reordered, h.goodArgNum⟩
theorem Eqv.wr {p p' : PP} (h : Eqv p p') (r : Int) : Eqv (p.wr r) (p'.wr r) :=
  ⟨by simp [PP.wr, h.buf], h.override, h.f, h.erroring, h.panicking, h.reordered, h.goodArgNum⟩

theorem Eqv.setErroring {p p' : PP} (h : Eqv p p') (e : Bool) : Eqv { p with erroring := e } { p' with erroring := e } :=
  ⟨h.buf, h.override, h.f, rfl, h.panicking, h.reordered, h.goodArgNum⟩
theorem Eqv.setF {p p' : PP} (h : Eqv p p') (g : FmtS) : Eqv { p with f := g } { p' with f := g } :=
  ⟨h.buf, h.override, rfl, h.erroring, h.panicking, h.reordered, h.goodArgNum⟩
theorem Eqv.setPanicking {p p' : PP} (h : Eqv p p') (e : Bool) : Eqv { p with panicking := e } { p' with panicking := e } :=
  ⟨h.buf, h.override, h.f, h.erroring, rfl, h.reordered, h.goodArgNum⟩
theorem Eqv.setWrapped {p p' : PP} (h : Eqv p p') (w w' : Option Nat) (e e' : Bool) :
    Eqv { p with wrappedErr := w, wrapErrs := e } { p' with wrappedErr := w', wrapErrs := e' } :=
  ⟨h.buf, h.override, h.f, h.erroring, h.panicking, h.reordered, h.goodArgNum⟩
theorem Eqv.setWrappedErr {p p' : PP} (h : Eqv p p') (w w' : Option Nat) :
    Eqv { p with wrappedErr := w } { p' with wrappedErr := w' } :=
  ⟨h.buf, h.override, h.f, h.erroring, h.panicking, h.reordered, h.goodArgNum⟩
theorem Eqv.setReordered {p p' : PP} (h : Eqv p p') (e : Bool) : Eqv { p with reordered := e } { p' with reordered := e } :=
  ⟨h.buf, h.override, h.f, h.erroring, h.panicking, rfl, h.goodArgNum⟩
theorem Eqv.setGood {p p' : PP} (h : Eqv p p') (e : Bool) : Eqv { p with goodArgNum := e } { p' with goodArgNum := e } :=
  ⟨h.buf, h.override, h.f, h.erroring, h.panicking, h.reordered, rfl⟩
theorem Eqv.setBuf {p p' : PP} (h : Eqv p p') (b : Buffer) : Eqv { p with buf := b } { p' with buf := b } :=
  ⟨rfl, h.override, h.f, h.erroring, h.panicking, h.reordered, h.goodArgNum⟩
/-- The nested printer of `SafePrinter.Print/Printf`: a fresh printer sharing buffer and override. -/
theorem Eqv.nested {p p' : PP} (h : Eqv p p') :
    ({ buf := p'.buf, override := p'.override } : PP) = { buf := p.buf, override := p.override } := by
  rw [h.buf, h.override]

/-- The four `start*()`: related printers give related printers and the same restorer. -/
structure StartEqv (start : PP → PP × PP.Restorer) : Prop where
  st : ∀ p p', Eqv p p' → Eqv (start p).1 (start p').1 ∧ (start p').2 = (start p).2

theorem Eqv.restore {q q' : PP} (h : Eqv q q') (r : PP.Restorer) : Eqv (q.restore r) (q'.restore r) :=
  ⟨by simp [PP.restore, h.buf], rfl, h.f, h.erroring, h.panicking, h.reordered, h.goodArgNum⟩

theorem rel_bracket {start : PP → PP × PP.Restorer} (hs : StartEqv start) {p p' : PP} (h : Eqv p p')
    {body body' : PP → Res} (hb : ∀ q q', Eqv q q' → RelR (body q) (body' q')) :
    RelR (bracket start p body) (bracket start p' body') := by
  unfold bracket
  have ⟨h1, h2⟩ := hs.st p p' h
  generalize start p = sp at h1 h2
  generalize start p' = sp' at h1 h2
  obtain ⟨q0, r⟩ := sp
  obtain ⟨q0', r'⟩ := sp'
  simp only at h1 h2 ⊢
  subst h2
  have := hb q0 q0' h1
  generalize body q0 = x at this
  generalize body' q0' = x' at this
  cases this with
  | ok hq => exact .ok (hq.restore _)
  | panic b pl => exact .panic _ _
  | fuel => exact .fuel
  | unsupported => exact .unsupported

theorem startEqv_safeOverride : StartEqv PP.startSafeOverride := by
  constructor
  intro p p' h
  unfold PP.startSafeOverride
  rw [h.override, h.buf]
  refine ⟨?_, rfl⟩
  split
  · exact ⟨rfl, rfl, h.f, h.erroring, h.panicking, h.reordered, h.goodArgNum⟩
  · exact h
theorem startEqv_unsafeOverride : StartEqv PP.startUnsafeOverride := by
  constructor
  intro p p' h
  unfold PP.startUnsafeOverride
  rw [h.override, h.buf]
  refine ⟨?_, rfl⟩
  split
  · exact ⟨rfl, rfl, h.f, h.erroring, h.panicking, h.reordered, h.goodArgNum⟩
  · exact h
theorem startEqv_unsafe : StartEqv PP.startUnsafe := by
  constructor
  intro p p' h
  unfold PP.startUnsafe
  rw [h.override, h.buf]
  refine ⟨?_, rfl⟩
  split
  · exact ⟨rfl, rfl, h.f, h.erroring, h.panicking, h.reordered, h.goodArgNum⟩
  · exact h
theorem startEqv_preRedactable : StartEqv PP.startPreRedactable := by
  constructor
  intro p p' h
  unfold PP.startPreRedactable
  rw [h.override, h.buf]
  refine ⟨?_, rfl⟩
  split
  · exact ⟨rfl, rfl, h.f, h.erroring, h.panicking, h.reordered, h.goodArgNum⟩
  · exact h

theorem relH_mk {b : Bool} {r r' : Res} (h : RelR r r') : RelH (b, r) (b, r') := ⟨rfl, h⟩

theorem rel_retOut (nr : Bool) {p p' : PP} (hp : Eqv p p') (sc : Script) {r r' : Res} (h : RelR r r') :
    RelS (retOut nr p sc r) (retOut nr p' sc r') := by
  unfold retOut
  split
  · exact .raised _ hp
  · split
    · exact .raised _ hp
    · exact .abort h

/-! ### The `doPrintf` family -/

/-- The printer with the two fields set. -/
def setW (p : PP) (a : Bool) (b : Option Nat) : PP := { p with wrapErrs := a, wrappedErr := b }

theorem eqv_setW (p : PP) (a : Bool) (b : Option Nat) : Eqv p (setW p a b) := ⟨rfl, rfl, rfl, rfl, rfl, rfl, rfl⟩

theorem eq_setW {p p' : PP} (h : Eqv p p') : p' = setW p p'.wrapErrs p'.wrappedErr := by
  obtain ⟨b, o, f, e, pa, w, we, r, g⟩ := p
  obtain ⟨b', o', f', e', pa', w', we', r', g'⟩ := p'
  obtain ⟨h1, h2, h3, h4, h5, h6, h7⟩ := h
  simp only at h1 h2 h3 h4 h5 h6 h7
  subst h1 h2 h3 h4 h5 h6 h7
  rfl

theorem argNumber_setW (p : PP) (a : Bool) (b : Option Nat) (k : Nat) (f : List Byte) (n : Nat) :
    argNumber (setW p a b) k f n = (setW (argNumber p k f n).1 a b, (argNumber p k f n).2) := by
  unfold argNumber
  split
  · dsimp only
    repeat' split
    all_goals rfl
  · rfl

theorem widthStage_setW (p : PP) (a : Bool) (b : Option Nat) (args : List Val) (k : Nat) (r : List Byte) (ai : Bool) :
    widthStage (setW p a b) args k r ai = (setW (widthStage p args k r ai).1 a b, (widthStage p args k r ai).2) := by
  unfold widthStage
  split
  · dsimp only
    rcases intFromArg args k with ⟨num, isInt, newArg⟩
    dsimp only
    cases isInt <;> by_cases hn : num < 0 <;>
      simp only [hn, if_true, if_false, Bool.not_false, Bool.not_true, Bool.false_eq_true] <;> rfl
  · dsimp only
    rcases parsenum r with ⟨w, wp, r'⟩
    dsimp only
    cases ai <;> cases wp <;> rfl

theorem precStage_setW (p : PP) (a : Bool) (b : Option Nat) (args : List Val) (k : Nat) (r : List Byte) (ai : Bool) :
    precStage (setW p a b) args k r ai = (setW (precStage p args k r ai).1 a b, (precStage p args k r ai).2) := by
  unfold precStage
  split
  · dsimp only
    have hs : (if ai = true then { setW p a b with goodArgNum := false } else setW p a b) =
        setW (if ai = true then { p with goodArgNum := false } else p) a b := by
      cases ai <;> rfl
    rw [hs, argNumber_setW]
    rcases argNumber (if ai = true then { p with goodArgNum := false } else p) k _ args.length with ⟨p1, k1, r1, ai1⟩
    dsimp only
    split
    · dsimp only
      rcases intFromArg args k1 with ⟨num, isInt, newArg⟩
      dsimp only
      by_cases hn : num < 0
      · simp only [hn, if_true, Bool.not_false]; rfl
      · cases isInt <;> simp only [hn, if_false, Bool.not_false, Bool.not_true, if_true, Bool.false_eq_true] <;> rfl
    · dsimp only
      rcases parsenum r1 with ⟨pr, pp, r3⟩
      rfl
  · rfl

/-- No directive of the format has the verb `w`: wherever the parser can stand in the format, the verb it decodes
there is not `w`. (Implied by: the format does not contain the byte `w` — `noW_of_not_mem`.) -/
def NoW (f : List Byte) : Prop := ∀ r v r', r <:+ f → decodeVerb r = some (v, r') → v ≠ 119

theorem NoW.suffix {f r : List Byte} (h : NoW f) (hr : r <:+ f) : NoW r :=
  fun r1 v r' h1 hd => h r1 v r' (h1.trans hr) hd

theorem parseFlags_suffix (fk : Bool) : ∀ (st : FState) (r : List Byte), (parseFlags fk st r).2 <:+ r := by
  intro st r
  induction r generalizing st with
  | nil => simp [parseFlags]
  | cons c r ih =>
    unfold parseFlags
    repeat' split
    all_goals first
      | exact (ih _).trans (List.suffix_cons _ _)
      | exact List.suffix_refl _

theorem parsenumAux_suffix : ∀ (r : List Byte) (n : Nat) (b : Bool), (parsenumAux n b r).2.2 <:+ r := by
  intro r
  induction r with
  | nil => intro n b; simp [parsenumAux]
  | cons c r ih =>
    intro n b
    unfold parsenumAux
    split
    · split
      · exact List.nil_suffix
      · exact (ih _ _).trans (List.suffix_cons _ _)
    · exact List.suffix_refl _

theorem parsenum_suffix (r : List Byte) : (parsenum r).2.2 <:+ r := parsenumAux_suffix r 0 false

theorem argNumber_suffix (p : PP) (k : Nat) (f : List Byte) (n : Nat) : (argNumber p k f n).2.2.1 <:+ f := by
  unfold argNumber
  split
  · dsimp only
    repeat' split
    all_goals (try dsimp only); all_goals exact List.drop_suffix _ _
  · exact List.suffix_refl _

theorem widthStage_suffix (p : PP) (args : List Val) (k : Nat) (r : List Byte) (ai : Bool) :
    (widthStage p args k r ai).2.2.1 <:+ r := by
  unfold widthStage
  split
  · dsimp only
    rcases intFromArg args k with ⟨num, isInt, newArg⟩
    try dsimp only
    exact List.suffix_cons _ _
  · dsimp only
    have := parsenum_suffix r
    rcases hp : parsenum r with ⟨w, wp, r'⟩
    rw [hp] at this
    exact this

theorem precStage_suffix (p : PP) (args : List Val) (k : Nat) (r : List Byte) (ai : Bool) :
    (precStage p args k r ai).2.2.1 <:+ r := by
  unfold precStage
  split
  · rename_i c r''
    dsimp only
    have h1 := argNumber_suffix (if ai = true then { p with goodArgNum := false } else p) k (c :: r'') args.length
    rcases han : argNumber (if ai = true then { p with goodArgNum := false } else p) k (c :: r'') args.length with ⟨p1, k1, r1, ai1⟩
    rw [han] at h1
    dsimp only at h1 ⊢
    have h2 : r1 <:+ 0x2E :: c :: r'' := h1.trans (List.suffix_cons _ _)
    split
    · rename_i r3
      dsimp only
      rcases intFromArg args k1 with ⟨num, isInt, newArg⟩
      try dsimp only
      exact (List.suffix_cons _ _).trans h2
    · dsimp only
      have := parsenum_suffix r1
      rcases hp : parsenum r1 with ⟨pr, pp, r3⟩
      rw [hp] at this
      exact this.trans h2
  · exact List.suffix_refl _

theorem decodeVerb_suffix {r : List Byte} {v : Nat} {r' : List Byte} (h : decodeVerb r = some (v, r')) : r' <:+ r := by
  unfold decodeVerb at h
  split at h
  · cases h
  · rename_i c rest
    split at h
    · cases h; exact List.suffix_cons _ _
    · split at h
      all_goals (try split at h)
      all_goals (cases h <;> first
        | exact List.suffix_cons _ _
        | exact (List.suffix_cons _ _).trans (List.suffix_cons _ _)
        | exact ((List.suffix_cons _ _).trans (List.suffix_cons _ _)).trans (List.suffix_cons _ _)
        | exact (((List.suffix_cons _ _).trans (List.suffix_cons _ _)).trans (List.suffix_cons _ _)).trans (List.suffix_cons _ _))

/-- What is known at fuel `n` about the functions reachable from `doPrint`. -/
structure ESpec (env : Env) (n : Nat) : Prop where
  printArg : ∀ p p' v verb, Eqv p p' → verb ≠ 119 → RelR (printArg env n p v verb) (printArg env n p' v verb)
  printArgBody : ∀ p p' v verb, Eqv p p' → verb ≠ 119 → RelR (printArgBody env n p v verb) (printArgBody env n p' v verb)
  badVerb : ∀ p p' v verb via, Eqv p p' → verb ≠ 119 → RelR (badVerb env n p v verb via) (badVerb env n p' v verb via)
  handleMethods : ∀ p p' v verb, Eqv p p' → verb ≠ 119 → RelH (handleMethods env n p v verb) (handleMethods env n p' v verb)
  methDispatch : ∀ p p' v ms nr ret sc verb, Eqv p p' → verb ≠ 119 →
    RelH (methDispatch env n p v ms nr ret sc verb) (methDispatch env n p' v ms nr ret sc verb)
  fmtString : ∀ p p' v ret verb, Eqv p p' → verb ≠ 119 → RelR (fmtString env n p v ret verb) (fmtString env n p' v ret verb)
  catchPanic : ∀ (p0 p0' : PP) (arg : Val) (verb : Nat) (m : List Byte) (nr : Bool) (out out' : SRes), RelS out out' → verb ≠ 119 →
    RelR (catchPanic env n p0 arg verb m nr out) (catchPanic env n p0' arg verb m nr out')
  runScript : ∀ p p' sc, Eqv p p' → RelS (runScript env n p sc) (runScript env n p' sc)
  printValue : ∀ p p' v verb d ro, Eqv p p' → verb ≠ 119 → RelR (printValue env n p v verb d ro) (printValue env n p' v verb d ro)
  printSlot : ∀ p p' v verb d i ro, Eqv p p' → verb ≠ 119 → RelR (printSlot env n p v verb d i ro) (printSlot env n p' v verb d i ro)
  slotMethods : ∀ p p' v verb, Eqv p p' → verb ≠ 119 → RelH (slotMethods env n p v verb) (slotMethods env n p' v verb)
  printFields : ∀ p p' fs verb d ro f, Eqv p p' → verb ≠ 119 → RelR (printFields env n p fs verb d ro f) (printFields env n p' fs verb d ro f)
  printElems : ∀ p p' vs verb d i ro f, Eqv p p' → verb ≠ 119 → RelR (printElems env n p vs verb d i ro f) (printElems env n p' vs verb d i ro f)
  printPairs : ∀ p p' ks vs verb d ik iv ro f, Eqv p p' → verb ≠ 119 →
    RelR (printPairs env n p ks vs verb d ik iv ro f) (printPairs env n p' ks vs verb d ik iv ro f)
  doPrint : ∀ p p' args, Eqv p p' → RelR (doPrint env n p args) (doPrint env n p' args)
  doPrintLoop : ∀ p p' args k ps, Eqv p p' → RelR (doPrintLoop env n p args k ps) (doPrintLoop env n p' args k ps)
  doPrintf : ∀ p p' f args, Eqv p p' → NoW f → RelR (doPrintf env n p f args) (doPrintf env n p' f args)
  fmtLoop : ∀ p p' f args k ai, Eqv p p' → NoW f → RelR (fmtLoop env n p f args k ai) (fmtLoop env n p' f args k ai)
  directiveTail : ∀ p p' f args k ai, Eqv p p' → NoW f →
    RelR (directiveTail env n p f args k ai) (directiveTail env n p' f args k ai)
  finishPrintf : ∀ p p' args k, Eqv p p' → RelR (finishPrintf env n p args k) (finishPrintf env n p' args k)
  extraLoop : ∀ p p' args f, Eqv p p' → RelR (extraLoop env n p args f) (extraLoop env n p' args f)

theorem espec_zero (env : Env) : ESpec env 0 := by
  constructor <;> intros <;> simp only [printArg, printArgBody, badVerb, handleMethods, methDispatch, fmtString, catchPanic,
    runScript, printValue, printSlot, slotMethods, printFields, printElems, printPairs, doPrint, doPrintLoop,
    doPrintf, fmtLoop, directiveTail, finishPrintf, extraLoop]
  all_goals first
    | exact .fuel
    | exact ⟨rfl, .fuel⟩
    | exact .abort .fuel

variable {env : Env} {n : Nat}

set_option hygiene false in
/-- Follow the shape shared by the two runs. -/
macro "emono" : tactic => `(tactic| repeat' (first
  | with_reducible exact Eqv.refl _
  | with_reducible exact RelR.refl _
  | with_reducible exact RelS.refl _
  | with_reducible assumption
  | with_reducible apply Eqv.w
  | with_reducible apply Eqv.wb
  | with_reducible apply Eqv.wr
  | with_reducible apply Eqv.restore
  | with_reducible apply eqv_ite
  | with_reducible apply rel_ok
  | with_reducible apply E.printArg
  | with_reducible apply E.printArgBody
  | with_reducible apply E.badVerb
  | with_reducible apply E.handleMethods
  | with_reducible apply E.methDispatch
  | with_reducible apply E.fmtString
  | with_reducible apply E.runScript
  | with_reducible apply E.printValue
  | with_reducible apply E.printSlot
  | with_reducible apply E.slotMethods
  | with_reducible apply E.printFields
  | with_reducible apply E.printElems
  | with_reducible apply E.printPairs
  | with_reducible apply E.doPrint
  | with_reducible apply E.doPrintLoop
  | with_reducible apply E.doPrintf
  | with_reducible apply E.fmtLoop
  | with_reducible apply E.directiveTail
  | with_reducible apply E.finishPrintf
  | with_reducible apply E.extraLoop
  | with_reducible apply rel_retOut
  | with_reducible apply RelS.raised
  | with_reducible apply rel_leafWrite
  | with_reducible apply rel_ite
  | with_reducible apply rel_ite_h
  | with_reducible apply rel_ite_s
  | with_reducible apply relH_mk
  | with_reducible apply rel_bracket startEqv_safeOverride
  | with_reducible apply rel_bracket startEqv_unsafeOverride
  | with_reducible apply rel_bracket startEqv_unsafe
  | with_reducible apply rel_bracket startEqv_preRedactable
  | with_reducible apply rel_bind
  | with_reducible exact Eqv.mk rfl rfl rfl rfl rfl rfl rfl
  | (show (_ : Nat) ≠ 119; decide)
  | with_reducible apply Eqv.setReordered
  | with_reducible apply Eqv.setGood
  | with_reducible apply Eqv.setErroring
  | with_reducible apply Eqv.setF
  | with_reducible apply Eqv.setPanicking
  | with_reducible apply Eqv.setWrapped
  | with_reducible apply Eqv.setWrappedErr
  | with_reducible apply Eqv.setBuf
  | with_reducible apply Eqv.nested
  | (intro q q' hq; try simp only [hq.buf, hq.override, hq.f, hq.erroring, hq.panicking, hq.reordered, hq.goodArgNum])
  | (dsimp only)))

/-- Rewrite the second printer's fields into the first's. -/
macro "eprep" h:ident : tactic => `(tactic|
  try simp only [($h).buf, ($h).override, ($h).f, ($h).erroring, ($h).panicking, ($h).reordered, ($h).goodArgNum])

theorem rel_leafWrite (env : Env) {p p' : PP} (h : Eqv p p') (id verb : Nat) (k : BK) (ty : List Byte) :
    RelR (leafWrite env p id verb k ty) (leafWrite env p' id verb k ty) := by
  unfold leafWrite leafWrite1
  rw [h.f]
  split
  · exact rel_ok (h.w _)
  · split
    · exact .unsupported
    · split
      · exact .unsupported
      · exact rel_bracket startEqv_unsafe h (fun q q' hq => rel_ok (hq.w _))

theorem estep_printArg (E : ESpec env n) : ∀ p p' v verb, Eqv p p' → verb ≠ 119 →
    RelR (printArg env (n + 1) p v verb) (printArg env (n + 1) p' v verb) := by
  intro p p' v verb h hv
  cases v <;> simp only [printArg] <;> emono

theorem estep_fmtString (E : ESpec env n) : ∀ p p' v ret verb, Eqv p p' → verb ≠ 119 →
    RelR (fmtString env (n + 1) p v ret verb) (fmtString env (n + 1) p' v ret verb) := by
  intro p p' v ret verb h hv
  simp only [fmtString]
  emono

theorem relH_tt {r r' : Res} (h : RelH (true, r) (true, r')) : RelR r r' := h.snd
theorem relH_ne {b b' : Bool} {r r' : Res} (h : RelH (b, r) (b', r')) (hne : b' ≠ b) : False := hne h.fst

-- `match x with | (true, r) => r | (false, _) => k` on both sides, `RelH x x'` known as `hh`
set_option hygiene false in
macro "ehandled " e:term:max e':term:max : tactic => `(tactic| (
  generalize $e = x at hh ⊢
  generalize $e' = x' at hh ⊢
  obtain ⟨b, r⟩ := x
  obtain ⟨b', r'⟩ := x'
  cases b <;> cases b' <;> dsimp only <;>
    first | exact (relH_ne hh (by decide)).elim | exact relH_tt hh | skip))

theorem estep_badVerb (E : ESpec env n) : ∀ p p' v verb via, Eqv p p' → verb ≠ 119 →
    RelR (badVerb env (n + 1) p v verb via) (badVerb env (n + 1) p' v verb via) := by
  intro p p' v verb via h hv
  unfold badVerb
  eprep h
  apply rel_bind
  · cases v <;> simp only <;> emono
  · emono

theorem estep_printArgBody (E : ESpec env n) : ∀ p p' v verb, Eqv p p' → verb ≠ 119 →
    RelR (printArgBody env (n + 1) p v verb) (printArgBody env (n + 1) p' v verb) := by
  intro p p' v verb h hv
  have hh := E.handleMethods p p' v verb h hv
  unfold printArgBody
  eprep h
  cases v with
  | leaf id k ty iv sv reg => cases k <;> simp only <;> emono
  | nil => simp only; emono
  | redactable c ty => simp only; emono
  | _ =>
    simp only
    emono
    all_goals (ehandled (handleMethods env n p _ verb) (handleMethods env n p' _ verb); emono)

theorem estep_handleMethods (E : ESpec env n) : ∀ p p' v verb, Eqv p p' → verb ≠ 119 →
    RelH (handleMethods env (n + 1) p v verb) (handleMethods env (n + 1) p' v verb) := by
  intro p p' v verb h hv
  unfold handleMethods
  eprep h
  cases v <;> simp only [hv, if_false] <;> emono

theorem estep_methDispatch (E : ESpec env n) : ∀ p p' v ms nr ret sc verb, Eqv p p' → verb ≠ 119 →
    RelH (methDispatch env (n + 1) p v ms nr ret sc verb) (methDispatch env (n + 1) p' v ms nr ret sc verb) := by
  intro p p' v ms nr ret sc verb h hv
  have cp := E.catchPanic
  unfold methDispatch
  eprep h
  emono
  all_goals first
    | (apply cp; emono)
    | (split <;> emono <;> (apply cp; emono))

theorem estep_catchPanic (E : ESpec env n) : ∀ (p0 p0' : PP) (arg : Val) (verb : Nat) (m : List Byte) (nr : Bool) (out out' : SRes),
    RelS out out' → verb ≠ 119 → RelR (catchPanic env (n + 1) p0 arg verb m nr out) (catchPanic env (n + 1) p0' arg verb m nr out') := by
  intro p0 p0' arg verb m nr out out' h hv
  unfold catchPanic
  cases h with
  | ok hq => exact .ok hq
  | abort hr => exact hr
  | raised pl hq =>
    rename_i q q'
    simp only
    eprep hq
    emono

theorem estep_runScript (E : ESpec env n) : ∀ p p' sc, Eqv p p' → RelS (runScript env (n + 1) p sc) (runScript env (n + 1) p' sc) := by
  intro p p' sc h
  unfold runScript
  cases sc with
  | done => exact .ok h
  | panic pl => exact .raised _ h
  | print args k =>
    simp only
    eprep h
    generalize doPrint env n ({ buf := p.buf, override := p.override } : PP) args.toList = r
    cases r <;> simp only
    · apply E.runScript; emono
    · exact .raised _ (by emono)
    · exact .abort .fuel
    · exact .abort .unsupported
  | printf f args k =>
    simp only
    eprep h
    generalize doPrintf env n ({ buf := p.buf, override := p.override } : PP) f args.toList = r
    cases r <;> simp only
    · apply E.runScript; emono
    · exact .raised _ (by emono)
    · exact .abort .fuel
    · exact .abort .unsupported
  | unsafeLeaf id k =>
    simp only
    split
    · exact .abort .unsupported
    · apply E.runScript
      have hs := (startEqv_unsafe.st p p' h)
      rw [hs.2]
      exact (hs.1.w _).restore _
  | indep k => simp only; exact E.runScript _ _ _ h
  | safeString s k =>
    simp only
    apply E.runScript
    have hs := (startEqv_safeOverride.st p p' h)
    rw [hs.2]
    exact (hs.1.w _).restore _
  | safeRune x k =>
    simp only
    apply E.runScript
    have hs := (startEqv_safeOverride.st p p' h)
    rw [hs.2]
    exact (hs.1.wr _).restore _
  | unsafeString s k =>
    simp only
    apply E.runScript
    have hs := (startEqv_unsafe.st p p' h)
    rw [hs.2]
    exact (hs.1.w _).restore _
  | write s k =>
    simp only
    apply E.runScript
    have hs := (startEqv_unsafe.st p p' h)
    rw [hs.2]
    exact (hs.1.w _).restore _

theorem estep_printValue (E : ESpec env n) : ∀ p p' v verb d ro, Eqv p p' → verb ≠ 119 →
    RelR (printValue env (n + 1) p v verb d ro) (printValue env (n + 1) p' v verb d ro) := by
  intro p p' v verb d ro h hv
  unfold printValue
  eprep h
  cases v <;> simp only <;> emono

theorem estep_slotMethods (E : ESpec env n) : ∀ p p' v verb, Eqv p p' → verb ≠ 119 →
    RelH (slotMethods env (n + 1) p v verb) (slotMethods env (n + 1) p' v verb) := by
  intro p p' v verb h hv
  unfold slotMethods
  eprep h
  cases v with
  | redactable c ty =>
    simp only
    emono
    have hr := E.runScript p p' (.print (.cons (.redactable c ty) .nil) .done) h
    generalize runScript env n p (.print (.cons (.redactable c ty) .nil) .done) = r at hr ⊢
    generalize runScript env n p' (.print (.cons (.redactable c ty) .nil) .done) = r' at hr ⊢
    cases hr with
    | ok hq => exact .ok hq
    | raised pl hq => simp only; rw [hq.buf]; exact .panic _ _
    | abort hr => exact hr
  | _ => simp only <;> emono

theorem estep_printFields (E : ESpec env n) : ∀ p p' fs verb d ro f, Eqv p p' → verb ≠ 119 →
    RelR (printFields env (n + 1) p fs verb d ro f) (printFields env (n + 1) p' fs verb d ro f) := by
  intro p p' fs verb d ro f h hv
  unfold printFields
  eprep h
  cases fs with
  | nil => simp only; emono
  | cons name exported it v rest =>
    simp only
    have g1 : Eqv (if f = true then p else if p.f.sharpV = true then p.w ([0x2C, 0x20] /- ", " -/ : List UInt8) else p.wb 0x20)
        (if f = true then p' else if p.f.sharpV = true then p'.w ([0x2C, 0x20] /- ", " -/ : List UInt8) else p'.wb 0x20) := by emono
    generalize (if f = true then p else if p.f.sharpV = true then p.w ([0x2C, 0x20] /- ", " -/ : List UInt8) else p.wb 0x20) = p1 at g1 ⊢
    generalize (if f = true then p' else if p.f.sharpV = true then p'.w ([0x2C, 0x20] /- ", " -/ : List UInt8) else p'.wb 0x20) = p1' at g1 ⊢
    eprep g1
    emono

theorem estep_printElems (E : ESpec env n) : ∀ p p' vs verb d i ro f, Eqv p p' → verb ≠ 119 →
    RelR (printElems env (n + 1) p vs verb d i ro f) (printElems env (n + 1) p' vs verb d i ro f) := by
  intro p p' vs verb d i ro f h hv
  unfold printElems
  eprep h
  cases vs <;> simp only <;> emono

theorem estep_printPairs (E : ESpec env n) : ∀ p p' ks vs verb d ik iv ro f, Eqv p p' → verb ≠ 119 →
    RelR (printPairs env (n + 1) p ks vs verb d ik iv ro f) (printPairs env (n + 1) p' ks vs verb d ik iv ro f) := by
  intro p p' ks vs verb d ik iv ro f h hv
  unfold printPairs
  eprep h
  cases ks <;> cases vs <;> simp only <;> emono

theorem estep_doPrint (E : ESpec env n) : ∀ p p' args, Eqv p p' → RelR (doPrint env (n + 1) p args) (doPrint env (n + 1) p' args) := by
  intro p p' args h
  unfold doPrint
  eprep h
  emono

theorem estep_doPrintLoop (E : ESpec env n) : ∀ p p' args k ps, Eqv p p' →
    RelR (doPrintLoop env (n + 1) p args k ps) (doPrintLoop env (n + 1) p' args k ps) := by
  intro p p' args k ps h
  unfold doPrintLoop
  eprep h
  cases args <;> simp only <;> emono

theorem estep_printSlot (E : ESpec env n) : ∀ p p' v verb d i ro, Eqv p p' → verb ≠ 119 →
    RelR (printSlot env (n + 1) p v verb d i ro) (printSlot env (n + 1) p' v verb d i ro) := by
  intro p p' v verb d i ro h hv
  have noMethod : ∀ q3 q3', Eqv q3 q3' →
      RelR (if i = true then printSlot env n q3 v verb (d + 1) false ro else printValue env n q3 v verb d ro)
        (if i = true then printSlot env n q3' v verb (d + 1) false ro else printValue env n q3' v verb d ro) := by
    intro q3 q3' h3; emono
  have afterMethods : ∀ q2 q2', Eqv q2 q2' →
      RelR (if (!ro) = true then
        match slotMethods env n q2 v verb with
        | (true, r) => r
        | (false, _) => (if i = true then printSlot env n q2 v verb (d + 1) false ro else printValue env n q2 v verb d ro)
      else (if i = true then printSlot env n q2 v verb (d + 1) false ro else printValue env n q2 v verb d ro))
      (if (!ro) = true then
        match slotMethods env n q2' v verb with
        | (true, r) => r
        | (false, _) => (if i = true then printSlot env n q2' v verb (d + 1) false ro else printValue env n q2' v verb d ro)
      else (if i = true then printSlot env n q2' v verb (d + 1) false ro else printValue env n q2' v verb d ro)) := by
    intro q2 q2' h2
    apply rel_ite _ (noMethod q2 q2' h2)
    have hh := E.slotMethods q2 q2' v verb h2 hv
    ehandled (slotMethods env n q2 v verb) (slotMethods env n q2' v verb)
    exact noMethod q2 q2' h2
  have body : ∀ q q', Eqv q q' →
      RelR (if (!ro) = true ∧ isSafeValue v = true then bracket PP.startSafeOverride q (fun q2 =>
          if (!ro) = true then
            match slotMethods env n q2 v verb with
            | (true, r) => r
            | (false, _) => (if i = true then printSlot env n q2 v verb (d + 1) false ro else printValue env n q2 v verb d ro)
          else (if i = true then printSlot env n q2 v verb (d + 1) false ro else printValue env n q2 v verb d ro))
       else
          if (!ro) = true then
            match slotMethods env n q v verb with
            | (true, r) => r
            | (false, _) => (if i = true then printSlot env n q v verb (d + 1) false ro else printValue env n q v verb d ro)
          else (if i = true then printSlot env n q v verb (d + 1) false ro else printValue env n q v verb d ro))
      (if (!ro) = true ∧ isSafeValue v = true then bracket PP.startSafeOverride q' (fun q2 =>
          if (!ro) = true then
            match slotMethods env n q2 v verb with
            | (true, r) => r
            | (false, _) => (if i = true then printSlot env n q2 v verb (d + 1) false ro else printValue env n q2 v verb d ro)
          else (if i = true then printSlot env n q2 v verb (d + 1) false ro else printValue env n q2 v verb d ro))
       else
          if (!ro) = true then
            match slotMethods env n q' v verb with
            | (true, r) => r
            | (false, _) => (if i = true then printSlot env n q' v verb (d + 1) false ro else printValue env n q' v verb d ro)
          else (if i = true then printSlot env n q' v verb (d + 1) false ro else printValue env n q' v verb d ro)) := by
    intro q q' hq
    exact rel_ite (rel_bracket startEqv_safeOverride hq afterMethods) (afterMethods q q' hq)
  unfold printSlot
  eprep h
  cases v with
  | nil => simp only; emono
  | safeW w =>
    cases i <;> simp only [Bool.false_eq_true, if_false, if_true]
    · emono
    · exact rel_ite (rel_bracket startEqv_safeOverride h body) (body p p' h)
  | unsafeW w =>
    cases i <;> simp only [Bool.false_eq_true, if_false, if_true]
    · emono
    · exact rel_ite (rel_bracket startEqv_safeOverride h body) (body p p' h)
  | redactable c ty =>
    cases i <;> simp only [Bool.false_eq_true, if_false, if_true]
    · emono
    · exact rel_ite (rel_bracket startEqv_safeOverride h body) (body p p' h)
  | _ =>
    simp only
    split
    · rename_i r hspecial
      split at hspecial <;> cases hspecial
    · exact rel_ite (rel_bracket startEqv_safeOverride h body) (body p p' h)

theorem verb_of_ascii {r1 : List Byte} (h : NoW r1) {c : Byte} {r2 : List Byte} (hr : r1 = c :: r2) (hc : c ≤ 0x7A) :
    c.toNat ≠ 119 := by
  subst hr
  refine h (c :: r2) c.toNat r2 (List.suffix_refl _) ?_
  unfold decodeVerb
  have : c < 0x80 := Nat.lt_of_le_of_lt (show c.toNat ≤ 0x7A from hc) (by decide)
  simp [this]

theorem estep_doPrintf (E : ESpec env n) : ∀ p p' f args, Eqv p p' → NoW f →
    RelR (doPrintf env (n + 1) p f args) (doPrintf env (n + 1) p' f args) := by
  intro p p' f args h hf
  unfold doPrintf
  eprep h
  emono

theorem estep_finishPrintf (E : ESpec env n) : ∀ p p' args k, Eqv p p' →
    RelR (finishPrintf env (n + 1) p args k) (finishPrintf env (n + 1) p' args k) := by
  intro p p' args k h
  unfold finishPrintf
  eprep h
  emono

theorem estep_extraLoop (E : ESpec env n) : ∀ p p' args f, Eqv p p' →
    RelR (extraLoop env (n + 1) p args f) (extraLoop env (n + 1) p' args f) := by
  intro p p' args f h
  unfold extraLoop
  cases args with
  | nil => exact rel_ok h
  | cons a rest =>
    simp only
    apply rel_bind _ (fun q q' hq => E.extraLoop _ _ _ _ hq)
    cases a <;> simp only <;> emono

theorem estep_fmtLoop (E : ESpec env n) : ∀ p p' f args k ai, Eqv p p' → NoW f →
    RelR (fmtLoop env (n + 1) p f args k ai) (fmtLoop env (n + 1) p' f args k ai) := by
  intro p p' f args k ai h hf
  unfold fmtLoop
  dsimp only
  eprep h
  have hrest : (f.dropWhile (· ≠ 0x25)) <:+ f := List.dropWhile_suffix _
  by_cases hl : (List.takeWhile (fun x => decide (x ≠ 37)) f).isEmpty = true
  all_goals simp only [hl, if_true, if_false, Bool.false_eq_true]
  all_goals split
  all_goals first
    | (emono; done)
    | (rename_i c r0 heq
       have hr0 : NoW r0 := hf.suffix ((List.suffix_cons _ _).trans (heq ▸ hrest))
       have hpf := parseFlags_suffix true {} r0
       generalize parseFlags true {} r0 = pf at hpf
       obtain ⟨fs, r1⟩ := pf
       dsimp only at hpf ⊢
       have hr1 : NoW r1 := hr0.suffix hpf
       split
       · rename_i c2 r2
         have hr2 : NoW r2 := hr1.suffix (List.suffix_cons _ _)
         split
         · rename_i hcond
           have hv : c2.toNat ≠ 119 := verb_of_ascii hr1 rfl hcond.2.1
           emono
           split <;> emono
         · emono
       · emono)

theorem estep_directiveTail (E : ESpec env n) : ∀ p p' f args k ai, Eqv p p' → NoW f →
    RelR (directiveTail env (n + 1) p f args k ai) (directiveTail env (n + 1) p' f args k ai) := by
  intro p p' f args k ai h hf
  rw [eq_setW h]
  generalize p'.wrapErrs = a
  generalize p'.wrappedErr = b
  unfold directiveTail
  dsimp only
  rw [argNumber_setW]
  have s1 := argNumber_suffix p k f args.length
  rcases han : argNumber p k f args.length with ⟨p1, k1, r1, ai1⟩
  rw [han] at s1
  dsimp only at s1 ⊢
  rw [widthStage_setW]
  have s2 := widthStage_suffix p1 args k1 r1 ai1
  rcases hws : widthStage p1 args k1 r1 ai1 with ⟨p2, k2, r2, ai2⟩
  rw [hws] at s2
  dsimp only at s2 ⊢
  rw [precStage_setW]
  have s3 := precStage_suffix p2 args k2 r2 ai2
  rcases hps : precStage p2 args k2 r2 ai2 with ⟨p3, k3, r3, ai3⟩
  rw [hps] at s3
  dsimp only at s3 ⊢
  have h4 : (if (!ai3) = true then argNumber (setW p3 a b) k3 r3 args.length else (setW p3 a b, k3, r3, ai3)) =
      (setW (if (!ai3) = true then argNumber p3 k3 r3 args.length else (p3, k3, r3, ai3)).1 a b,
        (if (!ai3) = true then argNumber p3 k3 r3 args.length else (p3, k3, r3, ai3)).2) := by
    cases ai3
    · simp only [Bool.not_false, if_true]; exact argNumber_setW _ _ _ _ _ _
    · rfl
  rw [h4]
  have s4 : (if (!ai3) = true then argNumber p3 k3 r3 args.length else (p3, k3, r3, ai3)).2.2.1 <:+ r3 := by
    cases ai3
    · simp only [Bool.not_false, if_true]; exact argNumber_suffix _ _ _ _
    · exact List.suffix_refl _
  rcases h5 : (if (!ai3) = true then argNumber p3 k3 r3 args.length else (p3, k3, r3, ai3)) with ⟨p4, k4, r4, ai4⟩
  rw [h5] at s4
  dsimp only at s4 ⊢
  have hr4 : NoW r4 := hf.suffix (((s4.trans s3).trans s2).trans s1)
  have hq : Eqv p4 (setW p4 a b) := eqv_setW p4 a b
  generalize setW p4 a b = p4' at hq
  eprep hq
  split
  · emono
  · rename_i verb r' hd
    have hv : verb ≠ 119 := hr4 r4 verb r' (List.suffix_refl _) hd
    have hr' : NoW r' := hr4.suffix (decodeVerb_suffix hd)
    emono
    split <;> emono

/-- **No function of the printer depends on `wrapErrs` and `wrappedErr` unless it is given the verb `w`**, at every fuel. -/
theorem espec_all (env : Env) : ∀ n, ESpec env n := by
  intro n
  induction n with
  | zero => exact espec_zero env
  | succ n ih =>
    exact {
      printArg := estep_printArg ih
      printArgBody := estep_printArgBody ih
      badVerb := estep_badVerb ih
      handleMethods := estep_handleMethods ih
      methDispatch := estep_methDispatch ih
      fmtString := estep_fmtString ih
      catchPanic := estep_catchPanic ih
      runScript := estep_runScript ih
      printValue := estep_printValue ih
      printSlot := estep_printSlot ih
      slotMethods := estep_slotMethods ih
      printFields := estep_printFields ih
      printElems := estep_printElems ih
      printPairs := estep_printPairs ih
      doPrint := estep_doPrint ih
      doPrintLoop := estep_doPrintLoop ih
      doPrintf := estep_doPrintf ih
      fmtLoop := estep_fmtLoop ih
      directiveTail := estep_directiveTail ih
      finishPrintf := estep_finishPrintf ih
      extraLoop := estep_extraLoop ih }

end Redact.EqW

namespace Redact.EqW

/-- A format of ASCII bytes without the letter `w` has no `%w` directive (the parser's ASCII fast path reads the verb
byte as it is). -/
theorem noW_of_ascii (f : List Byte) (h : ∀ x ∈ f, x < 0x80 ∧ x ≠ 0x77) : NoW f := by
  intro r v r' hr hd
  unfold decodeVerb at hd
  split at hd
  · cases hd
  · rename_i c rest
    have hc := h c (hr.subset (List.mem_cons_self ..))
    rw [if_pos hc.1] at hd
    cases hd
    intro h119
    apply hc.2
    have : c.toNat = (0x77 : UInt8).toNat := h119
    exact UInt8.toNat.inj this |> fun e => e

/-- `HelperForErrorf` and `Sprintf` print the same — return the same bytes, or propagate the same panic — for every
format without a `%w` directive, whatever the operands (their methods may use `%w` in nested `Printf` calls). -/
theorem errorf_rel_sprintf (env : Env) (f : List Byte) (args : List Val) (hf : NoW f) :
    RelR (sprintf env f args) (helperForErrorf env f args) :=
  (espec_all env defaultFuel).doPrintf newPP { newPP with wrapErrs := true } f args ⟨rfl, rfl, rfl, rfl, rfl, rfl, rfl⟩ hf

end Redact.EqW

/-! ### The byte-level criterion: a decoded multi-byte verb is at least 0x80 -/

namespace Redact.EqW

/-- The `first` table, read back: what a lead byte announces. -/
def leadFact (k : Nat) : Bool :=
  match leadInfo (UInt8.ofNat k) with
  | none => true
  | some (sz, lo, hi) =>
    (sz == 2 && decide (2 ≤ k &&& 0x1F)) ||
    (sz == 3 && (decide (1 ≤ k &&& 0x0F) || (lo == 0xA0 && hi == 0xBF))) ||
    (sz == 4 && (decide (1 ≤ k &&& 0x07) || (lo == 0x90 && hi == 0xBF)))

theorem leadFact_all : ∀ k : Fin 256, leadFact k.val = true := by decide +kernel

theorem lo_and (k : Nat) (h1 : 0xA0 ≤ k) (h2 : k ≤ 0xBF) : 0x20 ≤ k &&& 0x3F := by
  have : ∀ j : Fin 256, 0xA0 ≤ j.val → j.val ≤ 0xBF → 0x20 ≤ j.val &&& 0x3F := by decide +kernel
  exact this ⟨k, by omega⟩ h1 h2

theorem lo_and4 (k : Nat) (h1 : 0x90 ≤ k) (h2 : k ≤ 0xBF) : 0x10 ≤ k &&& 0x3F := by
  have : ∀ j : Fin 256, 0x90 ≤ j.val → j.val ≤ 0xBF → 0x10 ≤ j.val &&& 0x3F := by decide +kernel
  exact this ⟨k, by omega⟩ h1 h2

/-- What `decodeRune` accepted, read back. -/
theorem decodeRune_ok {c : Byte} {rest : List Byte} {n : Nat} (hc : ¬ c < 0x80) (h : decodeRune (c :: rest) = (false, n)) :
    ∃ sz lo hi b1 r', leadInfo c = some (sz, lo, hi) ∧ rest = b1 :: r' ∧ lo ≤ b1 ∧ b1 ≤ hi ∧
      (n = 2 → sz ≤ 2) ∧ (n = 3 → ¬ sz ≤ 2 ∧ sz ≤ 3) ∧ (n = 4 → ¬ sz ≤ 3) := by
  unfold decodeRune at h
  simp only [hc, if_false] at h
  cases hl : leadInfo c with
  | none => simp [hl] at h
  | some t =>
    obtain ⟨sz, lo, hi⟩ := t
    simp only [hl] at h
    split at h
    · simp at h
    · cases rest with
      | nil => simp at h
      | cons b1 rest2 =>
        simp only at h
        split at h
        · simp at h
        · rename_i hb
          have hb' : lo ≤ b1 ∧ b1 ≤ hi := by
            simp only [Bool.or_eq_true, decide_eq_true_eq, not_or, UInt8.not_lt] at hb
            exact hb
          refine ⟨sz, lo, hi, b1, rest2, rfl, rfl, hb'.1, hb'.2, ?_⟩
          split at h
          · rename_i h2
            simp only [Prod.mk.injEq, true_and] at h
            exact ⟨fun _ => h2, fun h' => by omega, fun h' => by omega⟩
          · rename_i h2
            cases rest2 with
            | nil => simp at h
            | cons b2 rest3 =>
              simp only at h
              split at h
              · simp at h
              · split at h
                · rename_i h3
                  simp only [Prod.mk.injEq, true_and] at h
                  exact ⟨fun h' => by omega, fun _ => ⟨h2, h3⟩, fun h' => by omega⟩
                · rename_i h3
                  cases rest3 with
                  | nil => simp at h
                  | cons b3 rest4 =>
                    simp only at h
                    split at h
                    · simp at h
                    · simp only [Prod.mk.injEq, true_and] at h
                      exact ⟨fun h' => by omega, fun h' => by omega, fun _ => h3⟩


theorem leadFact_of (c : Byte) : leadFact c.toNat = true := leadFact_all ⟨c.toNat, c.toNat_lt⟩

/-- A verb decoded as `w` was spelled with the byte `w`. -/
theorem decodeVerb_w {r : List Byte} {v : Nat} {r' : List Byte} (h : decodeVerb r = some (v, r')) (hv : v = 119) :
    ∃ t, r = 0x77 :: t := by
  unfold decodeVerb at h
  cases r with
  | nil => simp at h
  | cons c rest =>
    simp only at h
    by_cases hc : c < 0x80
    · simp only [hc, if_true, Option.some.injEq, Prod.mk.injEq] at h
      refine ⟨rest, ?_⟩
      have : c.toNat = (0x77 : UInt8).toNat := by rw [h.1, hv]; rfl
      rw [UInt8.toNat.inj this]
    · exfalso
      simp only [hc, if_false] at h
      have lf := leadFact_of c
      unfold leadFact at lf
      simp only [UInt8.ofNat_toNat] at lf
      split at h
      · -- two bytes
        rename_i hd
        obtain ⟨sz, lo, hi, b1, r1, hl, hr, h1, h2, k2, _, _⟩ := decodeRune_ok hc hd
        subst hr
        simp only [Option.some.injEq, Prod.mk.injEq] at h
        rw [hl] at lf
        have hsz := k2 rfl
        have : 2 ≤ c.toNat &&& 0x1F := by
          simp only [Bool.or_eq_true, Bool.and_eq_true, beq_iff_eq, decide_eq_true_eq] at lf
          rcases lf with (⟨_, h⟩ | ⟨h, _⟩) | ⟨h, _⟩ <;> first | exact h | omega
        have hge : (c.toNat &&& 0x1F) <<< 6 ≤ v := by rw [← h.1]; exact Nat.left_le_or
        rw [Nat.shiftLeft_eq] at hge
        omega
      · -- three bytes
        rename_i hd
        obtain ⟨sz, lo, hi, b1, r1, hl, hr, h1, h2, _, k3, _⟩ := decodeRune_ok hc hd
        subst hr
        cases r1 with
        | nil => simp at h
        | cons b2 r2 =>
          simp only [Option.some.injEq, Prod.mk.injEq] at h
          rw [hl] at lf
          have hsz := k3 rfl
          simp only [Bool.or_eq_true, Bool.and_eq_true, beq_iff_eq, decide_eq_true_eq] at lf
          have hA : (c.toNat &&& 0x0F) <<< 12 ≤ v := by
            rw [← h.1]; exact Nat.le_trans Nat.left_le_or Nat.left_le_or
          have hB : (b1.toNat &&& 0x3F) <<< 6 ≤ v := by
            rw [← h.1]; exact Nat.le_trans Nat.right_le_or Nat.left_le_or
          rw [Nat.shiftLeft_eq] at hA hB
          rcases lf with (⟨h', _⟩ | ⟨_, h' | ⟨hlo, hhi⟩⟩) | ⟨h', _⟩
          · omega
          · omega
          · subst hlo hhi
            have := lo_and b1.toNat h1 h2
            omega
          · omega
      · -- four bytes
        rename_i hd
        obtain ⟨sz, lo, hi, b1, r1, hl, hr, h1, h2, _, _, k4⟩ := decodeRune_ok hc hd
        subst hr
        cases r1 with
        | nil => simp at h
        | cons b2 r2 =>
          cases r2 with
          | nil => simp at h
          | cons b3 r3 =>
            simp only [Option.some.injEq, Prod.mk.injEq] at h
            rw [hl] at lf
            have hsz := k4 rfl
            simp only [Bool.or_eq_true, Bool.and_eq_true, beq_iff_eq, decide_eq_true_eq] at lf
            have hA : (c.toNat &&& 0x07) <<< 18 ≤ v := by
              rw [← h.1]; exact Nat.le_trans (Nat.le_trans Nat.left_le_or Nat.left_le_or) Nat.left_le_or
            have hB : (b1.toNat &&& 0x3F) <<< 12 ≤ v := by
              rw [← h.1]; exact Nat.le_trans (Nat.le_trans Nat.right_le_or Nat.left_le_or) Nat.left_le_or
            rw [Nat.shiftLeft_eq] at hA hB
            rcases lf with (⟨h', _⟩ | ⟨h', _⟩) | ⟨_, h' | ⟨hlo, hhi⟩⟩
            · omega
            · omega
            · omega
            · subst hlo hhi
              have := lo_and4 b1.toNat h1 h2
              omega
      · simp only [Option.some.injEq, Prod.mk.injEq] at h
        omega

/-- **A format that does not contain the byte `w` has no `%w` directive.** -/
theorem noW_of_not_mem (f : List Byte) (h : (0x77 : Byte) ∉ f) : NoW f := by
  intro r v r' hr hd hv
  obtain ⟨t, rfl⟩ := decodeVerb_w hd hv
  exact h (hr.subset (List.mem_cons_self ..))

end Redact.EqW
