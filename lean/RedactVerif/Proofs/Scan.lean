import RedactVerif.Model.Escape
import RedactVerif.Model.Markers
/-
Token-level lemmas about the well-formedness scanner `scanFrom` and the
escape specification `escTok`.
-/
namespace Redact

theorem scanFrom_append (o : Bool) (a b : List Tok) :
    scanFrom o (a ++ b) = (scanFrom o a).bind (fun o' => scanFrom o' b) := by
  induction a generalizing o with
  | nil => simp [scanFrom]
  | cons t r ih =>
    cases t with
    | s => cases o <;> simp [scanFrom, ih]
    | e => cases o <;> simp [scanFrom, ih]
    | b x =>
      cases o
      · simp [scanFrom, ih]
      · simp only [List.cons_append, scanFrom]
        split <;> simp [ih]

theorem scan_append (a b : List Tok) :
    scan (a ++ b) = (scan a).bind (fun o' => scanFrom o' b) := scanFrom_append false a b

/-- If `t ++ [s]` scans to "open", then `t` scans to "closed". -/
theorem scan_of_snoc_s {t : List Tok} (h : scan (t ++ [.s]) = some true) : scan t = some false := by
  rw [scan_append] at h
  cases hs : scan t with
  | none => simp [hs] at h
  | some o => cases o <;> simp_all [scanFrom]

theorem scan_of_snoc_e {t : List Tok} (h : scan (t ++ [.e]) = some false) : scan t = some true := by
  rw [scan_append] at h
  cases hs : scan t with
  | none => simp [hs] at h
  | some o => cases o <;> simp_all [scanFrom]

theorem eq_dropLast_append_of_getLast {t : List Tok} {x : Tok} (h : t.getLast? = some x) :
    t = t.dropLast ++ [x] := by
  cases ht : t.reverse with
  | nil => simp [List.getLast?_eq_head?_reverse, ht] at h
  | cons y ys =>
    rw [List.getLast?_eq_head?_reverse, ht] at h
    simp at h
    have := congrArg List.reverse ht
    simp at this
    rw [this, h]
    simp

/-- Escaping the pending bytes of an open envelope keeps the envelope open and
the prefix well-formed and line-safe, whatever the bytes are. -/
theorem scan_escTok_open (out rest : List Tok) (h : scan out = some true) :
    scan (escTok true out rest) = some true := by
  induction rest generalizing out with
  | nil => simpa [escTok]
  | cons t r ih =>
    cases t with
    | s => simp only [escTok]; apply ih; rw [scan_append, h]; simp [scanFrom, LF]
    | e => simp only [escTok]; apply ih; rw [scan_append, h]; simp [scanFrom, LF]
    | b x =>
      simp only [escTok, Bool.true_and]
      by_cases hx : (x == LF) = true
      · simp only [hx, if_true]
        apply ih
        by_cases hl : out.getLast? = some .s
        · simp only [hl, if_true]
          have ho := eq_dropLast_append_of_getLast hl
          have : scan out.dropLast = some false := scan_of_snoc_s (by rw [← ho]; exact h)
          rw [scan_append, this]; simp [scanFrom]
        · simp only [hl, if_false]
          rw [scan_append, scan_append, h]; simp [scanFrom]
      · simp only [hx, if_false, Bool.false_eq_true]
        apply ih
        rw [scan_append, h]
        have : x ≠ LF := by simpa using hx
        simp [scanFrom, this]

/-- Escaping in safe mode keeps a closed prefix closed. -/
theorem scan_escTok_closed (out rest : List Tok) (h : scan out = some false) :
    scan (escTok false out rest) = some false := by
  induction rest generalizing out with
  | nil => simpa [escTok]
  | cons t r ih =>
    cases t with
    | s => simp only [escTok]; apply ih; rw [scan_append, h]; simp [scanFrom]
    | e => simp only [escTok]; apply ih; rw [scan_append, h]; simp [scanFrom]
    | b x =>
      simp only [escTok, Bool.false_and, Bool.false_eq_true, if_false]
      apply ih; rw [scan_append, h]; simp [scanFrom]

/-- No marker token of the input survives safe-mode escaping. -/
theorem escTok_false_eq (out rest : List Tok) : escTok false out rest = out ++ escT rest := by
  induction rest generalizing out with
  | nil => simp [escTok, escT]
  | cons t r ih => cases t <;> simp [escTok, escT, ih]

theorem stripT_append (a c : List Tok) : stripT (a ++ c) = stripT a ++ stripT c := by
  induction a with
  | nil => simp [stripT]
  | cons t r ih => cases t <;> simp [stripT, ih]

end Redact
