import RedactVerif.Model.Utf8
/-
Facts about the transcription of utf8.DecodeRune / DecodeLastRune: the tail test
of the escape routine fires whenever the buffer ends in a proper prefix of a marker (T1).
-/
namespace Redact

theorem leadInfo_bounds {p0 : Byte} {sz : Nat} {lo hi : Byte} (h : leadInfo p0 = some (sz, lo, hi)) :
    hi ≤ 0xBF ∧ 2 ≤ sz ∧ sz ≤ 4 ∧ 0x80 ≤ lo := by
  unfold leadInfo at h
  repeat' split at h
  all_goals first | (simp at h; obtain ⟨rfl, rfl, rfl⟩ := h; decide) | simp at h

/-- `decodeRune` reports an error only with size 0 (empty input) or 1. -/
theorem decodeRune_err_size (w : List Byte) {n : Nat} (h : decodeRune w = (true, n)) : n ≤ 1 := by
  unfold decodeRune at h
  repeat' split at h
  all_goals simp_all
  all_goals omega

theorem decodeRune_size_le (w : List Byte) : (decodeRune w).2 ≤ 4 := by
  unfold decodeRune
  repeat' split
  all_goals simp


theorem not_isCont_E2 : isCont 0xE2 = false := by decide

/-- A successfully decoded rune filling a whole window cannot end with `E2`. -/
theorem decodeRune_snoc_E2 (w : List Byte) (n : Nat) (h : decodeRune (w ++ [0xE2]) = (false, n)) :
    n ≠ (w ++ [0xE2]).length := by
  match w, h with
  | [], h => simp [decodeRune, leadInfo] at h
  | [a], h =>
    simp only [List.cons_append, List.nil_append, decodeRune] at h
    split at h
    · simp at h; subst h; simp
    · split at h
      · simp at h
      · rename_i sz lo hi hl
        have hb := leadInfo_bounds hl
        split at h
        · simp at h
        · have : hi < 0xE2 := by
            have := hb.1
            exact Nat.lt_of_le_of_lt (UInt8.le_iff_toNat_le.mp this) (by decide)
          simp [this] at h
  | [a, b], h =>
    simp only [List.cons_append, List.nil_append, decodeRune] at h
    repeat' split at h
    all_goals simp_all [not_isCont_E2]
    all_goals omega
  | [a, b, c], h =>
    simp only [List.cons_append, List.nil_append, decodeRune] at h
    repeat' split at h
    all_goals simp_all [not_isCont_E2]
    all_goals omega
  | a :: b :: c :: d :: rest, h =>
    have := decodeRune_size_le (a :: b :: c :: d :: rest ++ [0xE2])
    rw [h] at this
    simp at this ⊢
    omega


theorem runeStart_E2 : runeStart 0xE2 = true := by decide
theorem decodeRune_E2_80 : decodeRune [0xE2, 0x80] = (true, 1) := by decide

/-- (T1) A buffer ending in a proper prefix of a marker is reported by the
tail test of `InternalEscapeBytes`, so `?` is appended after it. -/
theorem tailBad_of_dangB (l : List Byte) (h : dangB l = true) : tailBad l = true := by
  unfold dangB at h
  unfold tailBad
  split at h
  · -- last byte E2
    rename_i rev hrev
    rw [hrev]
    simp only
    have hlt : ¬ ((0xE2 : Byte) < 0x80) := by decide
    rw [if_neg hlt]
    generalize hb : (if backScan 3 rev 0 > rev.length then rev.length else backScan 3 rev 0) = back
    generalize hw : (List.take back rev).reverse = w
    cases hd : decodeRune (w ++ [0xE2]) with
    | mk err size =>
      simp only
      by_cases hsz : size = (w ++ [0xE2]).length
      · cases err with
        | false => exact absurd hsz (decodeRune_snoc_E2 w size hd)
        | true =>
          have := decodeRune_err_size _ hd
          have h1 : size = 1 := by simp at hsz; omega
          have hne : (size != (w ++ [0xE2]).length) = false := by simp [hsz]
          simp only [hne]
          simp [h1]
      · have hne : (size != (w ++ [0xE2]).length) = true := by simpa using hsz
        simp only [hne]
        simp
  · -- last bytes E2 80
    rename_i rev hrev
    rw [hrev]
    simp only
    have h80 : ¬ ((0x80 : Byte) < 0x80) := by decide
    rw [if_neg h80]
    simp only [backScan, runeStart_E2, if_true]
    have hlen : ¬ (0 + 1 > (0xE2 :: rev).length) := by simp
    rw [if_neg hlen]
    simp [decodeRune_E2_80]
  · simp at h

end Redact
