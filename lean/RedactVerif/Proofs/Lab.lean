import RedactVerif.Proofs.Plain
/-
The labelled reading of a redactable: its bytes in order, each with the side it is on
(inside an envelope or outside). Two redactables have the same labelled reading exactly when
they differ by merging adjacent envelopes (`›‹` removed) and by empty envelopes — the notion of
agreement between the implementations in C09 and between the print routes in C16.
It determines the two readings of `Plain.lean` (stripped; outside envelopes).
-/
namespace Redact

abbrev LB := Byte × Bool   -- a byte and whether it is inside an envelope

def labFrom : Bool → List Tok → List LB
  | _, [] => []
  | _, .s :: r => labFrom true r
  | _, .e :: r => labFrom false r
  | o, .b x :: r => (x, o) :: labFrom o r

def labT (t : List Tok) : List LB := labFrom false t

/-- The envelope state after a token list (no well-formedness needed). -/
def openAfter : Bool → List Tok → Bool
  | o, [] => o
  | _, .s :: r => openAfter true r
  | _, .e :: r => openAfter false r
  | o, .b _ :: r => openAfter o r

theorem labFrom_append (o : Bool) (a b : List Tok) :
    labFrom o (a ++ b) = labFrom o a ++ labFrom (openAfter o a) b := by
  induction a generalizing o with
  | nil => rfl
  | cons t r ih => cases t <;> simp [labFrom, openAfter, ih]

theorem openAfter_of_scanFrom (o : Bool) (t : List Tok) (o' : Bool) (h : scanFrom o t = some o') : openAfter o t = o' := by
  induction t generalizing o with
  | nil => simpa [scanFrom, openAfter] using h
  | cons x r ih =>
    cases x with
    | s => cases o <;> simp_all [scanFrom, openAfter]
    | e => cases o <;> simp_all [scanFrom, openAfter]
    | b y =>
      cases o with
      | false => simp only [scanFrom] at h; simpa [openAfter] using ih _ h
      | true =>
        simp only [scanFrom] at h
        split at h
        · cases h
        · simpa [openAfter] using ih _ h

theorem openAfter_of_scan {t : List Tok} {o : Bool} (h : scan t = some o) : openAfter false t = o :=
  openAfter_of_scanFrom false t o h

/-- Appending to a well-formed prefix. -/
theorem labT_append {t : List Tok} {o : Bool} (h : scan t = some o) (x : List Tok) :
    labT (t ++ x) = labT t ++ labFrom o x := by
  unfold labT; rw [labFrom_append, openAfter_of_scan h]

theorem labT_snoc_s (t : List Tok) : labT (t ++ [.s]) = labT t := by
  unfold labT; rw [labFrom_append]; simp [labFrom]
theorem labT_snoc_e (t : List Tok) : labT (t ++ [.e]) = labT t := by
  unfold labT; rw [labFrom_append]; simp [labFrom]

/-- **Merging adjacent envelopes does not change the labelled reading.** -/
theorem labT_merge (a b : List Tok) (h : openAfter false a = true) : labT (a ++ [.e, .s] ++ b) = labT (a ++ b) := by
  unfold labT
  rw [List.append_assoc, labFrom_append, labFrom_append false a b, h]
  simp [labFrom]

/-- An empty envelope does not change it either. -/
theorem labT_empty_env (a b : List Tok) (h : openAfter false a = false) : labT (a ++ [.s, .e] ++ b) = labT (a ++ b) := by
  unfold labT
  rw [List.append_assoc, labFrom_append, labFrom_append false a b, h]
  simp [labFrom]

/-- The labelled reading determines the stripped one… -/
theorem stripT_of_lab (o : Bool) (t : List Tok) : stripT t = (labFrom o t).map (fun p => .b p.1) := by
  induction t generalizing o with
  | nil => rfl
  | cons x r ih => cases x <;> simp only [stripT, labFrom, List.map_cons] <;> first | exact ih _ | (congr 1; exact ih _)

/-- …and the text outside envelopes. -/
theorem safeText_of_lab (t : List Tok) :
    safeText (abs .closed t) = ((labFrom false t).filter (fun p => !p.2)).map (fun p => .b p.1) ∧
    safeText (abs .openEmpty t) = ((labFrom true t).filter (fun p => !p.2)).map (fun p => .b p.1) ∧
    safeText (abs .openFull t) = ((labFrom true t).filter (fun p => !p.2)).map (fun p => .b p.1) := by
  induction t with
  | nil => simp [abs, safeText, labFrom]
  | cons x r ih =>
    obtain ⟨i1, i2, i3⟩ := ih
    cases x with
    | s => simp [abs, absTok, stStep, safeText, labFrom, safeText_append, i2]
    | e => simp [abs, absTok, stStep, safeText, labFrom, safeText_append, i1]
    | b y => simp [abs, absTok, stStep, safeText, labFrom, safeText_append, i1, i3]

/-! ### What the unsafe-mode escape does to pending tokens, labelled -/

/-- Pending tokens in unsafe mode: markers become `?` inside, line feeds go outside, the rest inside. -/
def pendLabU : List Tok → List LB
  | [] => []
  | .s :: r => (0x3F, true) :: pendLabU r
  | .e :: r => (0x3F, true) :: pendLabU r
  | .b x :: r => (if x == LF then (LF, false) else (x, true)) :: pendLabU r

theorem pendLabU_append (a b : List Tok) : pendLabU (a ++ b) = pendLabU a ++ pendLabU b := by
  induction a with
  | nil => rfl
  | cons x r ih => cases x <;> simp [pendLabU, ih]

theorem labT_snoc_open (t : List Tok) (x : Byte) (h : scan t = some true) : labT (t ++ [.b x]) = labT t ++ [(x, true)] := by
  rw [labT_append h]; rfl

theorem lab_lf_step {out : List Tok} (h : scan out = some true) :
    labT ((if out.getLast? = some .s then out.dropLast else out ++ [.e]) ++ [.b LF, .s]) = labT out ++ [(LF, false)] := by
  split
  · rename_i hl
    have hsn := snoc_of_getLast hl
    have h2 : scan out.dropLast = some false := scan_of_snoc_s (by rw [← hsn]; exact h)
    have e1 : labT out = labT out.dropLast := by
      conv => lhs; rw [hsn]
      exact labT_snoc_s _
    rw [labT_append h2, e1]
    simp [labFrom]
  · have h2 : scan (out ++ [.e]) = some false := by rw [scan_append, h]; simp [scanFrom]
    rw [labT_append h2, labT_snoc_e]
    simp [labFrom]

theorem labT_escTok_open (out rest : List Tok) (h : scan out = some true) :
    labT (escTok true out rest) = labT out ++ pendLabU rest := by
  induction rest generalizing out with
  | nil => simp [escTok, pendLabU]
  | cons t r ih =>
    cases t with
    | s =>
      simp only [escTok, pendLabU]
      rw [ih _ (scan_snoc_content h (by decide)), labT_snoc_open _ _ h]; simp
    | e =>
      simp only [escTok, pendLabU]
      rw [ih _ (scan_snoc_content h (by decide)), labT_snoc_open _ _ h]; simp
    | b x =>
      by_cases hx : x = LF
      · subst hx
        simp only [escTok, pendLabU, Bool.true_and, beq_self_eq_true, if_true]
        rw [ih _ (scan_lf_step h), lab_lf_step h]
        simp
      · have hb : (x == LF) = false := by simpa using hx
        simp only [escTok, pendLabU, hb, Bool.and_false, Bool.false_eq_true, if_false]
        rw [ih _ (scan_snoc_content h hx), labT_snoc_open _ _ h]; simp

/-- Marker-free tokens keep the state. -/
theorem openAfter_plain (o : Bool) (t : List Tok) (h : ∀ x ∈ t, x.isMarker = false) : openAfter o t = o := by
  induction t with
  | nil => rfl
  | cons x r ih =>
    cases x with
    | s => have := h .s (by simp); simp [Tok.isMarker] at this
    | e => have := h .e (by simp); simp [Tok.isMarker] at this
    | b y => simpa [openAfter] using ih (fun x hx => h x (by simp [hx]))

theorem labFrom_escT_append (a b : List Tok) : labFrom false (escT (a ++ b)) = labFrom false (escT a) ++ labFrom false (escT b) := by
  rw [escT_append, labFrom_append, openAfter_plain _ _ (escT_no_marker a)]

/-! ### The buffer operations, labelled -/


/-- What pending bytes will read as, labelled, once flushed in mode `m`. -/
def pendLab (m : Mode) (s : List Byte) : List LB :=
  if m = .raw then labT (tokenize s) else if m = .unsafeEsc then pendLabU (tokenize s) else labT (escT (tokenize s))

/-- The buffer reads, labelled, as `lacc`. -/
def LR (b : Buffer) (lacc : List LB) : Prop := labT (tokenize b.pre) ++ pendLab b.mode b.suf = lacc

theorem pendLab_nil (m : Mode) : pendLab m [] = [] := by
  unfold pendLab; cases m <;> simp [labT, labFrom, pendLabU, escT]

theorem escapeToEnd_L (b : Buffer) (acc dacc : List Tok) (lacc : List LB) (k : KInv b acc dacc) (hm : b.mode ≠ .raw)
    (l : LR b lacc) : labT (tokenize (b.escapeToEnd (decide (b.mode = .unsafeEsc))).buf) = lacc := by
  have hspec := (escapeBytesAt_spec b.buf b.validUntil (decide (b.mode = .unsafeEsc)) k.inv.good).1
  rw [k.tail] at hspec
  simp only [Bool.false_eq_true, if_false] at hspec
  have hbuf : (b.escapeToEnd (decide (b.mode = .unsafeEsc))).buf = escapeBytesAt b.buf b.validUntil (decide (b.mode = .unsafeEsc)) false := rfl
  have htok : tokenize (b.escapeToEnd (decide (b.mode = .unsafeEsc))).buf =
      escTok (decide (b.mode = .unsafeEsc)) (tokenize b.pre) (tokenize b.suf) := by rw [hbuf]; exact hspec
  rw [htok]
  have hsc := k.inv.sc
  change scan (tokenize b.pre) = _ at hsc
  unfold LR at l
  by_cases hu : b.mode = .unsafeEsc
  · simp only [hu, decide_true]
    cases ho : b.markerOpen with
    | true =>
      rw [ho] at hsc
      rw [labT_escTok_open _ _ hsc]
      simpa [pendLab, hu] using l
    | false =>
      have he := k.inv.closedEmpty hu ho
      rw [he]
      simp only [tokenize_nil, escTok]
      simpa [pendLab, hu, he, pendLabU] using l
  · simp only [hu, decide_false]
    have ho : b.markerOpen = false := by
      cases h : b.markerOpen with
      | false => rfl
      | true => exact absurd (k.inv.openMode h) hu
    rw [ho] at hsc
    rw [escTok_false_eq, labT_append hsc]
    simpa [pendLab, hu, hm, labT] using l

theorem endRedactable_L (b : Buffer) (F : FullOK b true) : labT (tokenize b.endRedactable.buf) = labT (tokenize b.buf) := by
  have hne : tokenize b.buf ≠ [] := tokens_ne_nil_of_scan_true F.sc
  have hb : b.buf.isEmpty = false := by
    cases hbb : b.buf with
    | nil => rw [hbb] at hne; simp at hne
    | cons _ _ => rfl
  by_cases hs : hasSuffix b.buf startB = true
  · have hs' := (hasSuffix_iff _ _).1 hs
    have e1 : b.endRedactable.buf = dropLast 3 b.buf := by simp [Buffer.endRedactable, hb, hs]
    have hl := (getLast_tokenize_start b.buf).2 hs'
    have hsn := snoc_of_getLast hl
    rw [e1, tokenize_dropLast_start _ hs']
    conv => rhs; rw [hsn, labT_snoc_s]
  · have hs1 : hasSuffix b.buf startB = false := by simpa using hs
    have e1 : b.endRedactable.buf = b.buf ++ endB := by simp [Buffer.endRedactable, hb, hs1]
    rw [e1, tokenize_append_endB, labT_snoc_e]

theorem startRedactable_L (b : Buffer) : labT (tokenize b.startRedactable.buf) = labT (tokenize b.buf) := by
  by_cases hs : hasSuffix b.buf endB = true
  · have hs' := (hasSuffix_iff _ _).1 hs
    have e1 : b.startRedactable.buf = dropLast 3 b.buf := by simp [Buffer.startRedactable, hs]
    have hl := (getLast_tokenize_end b.buf).2 hs'
    have hsn := snoc_of_getLast hl
    rw [e1, tokenize_dropLast_end _ hs']
    conv => rhs; rw [hsn, labT_snoc_e]
  · have hs1 : hasSuffix b.buf endB = false := by simpa using hs
    have e1 : b.startRedactable.buf = b.buf ++ startB := by simp [Buffer.startRedactable, hs1]
    rw [e1, tokenize_append_startB, labT_snoc_s]

theorem raw_L (b : Buffer) (acc dacc : List Tok) (lacc : List LB) (k : KInv b acc dacc) (hm : b.mode = .raw) (l : LR b lacc) :
    labT (tokenize b.buf) = lacc := by
  have ⟨_, ho⟩ := full_of_raw b k.inv hm
  have hsc := k.inv.sc
  rw [ho] at hsc
  change scan (tokenize b.pre) = _ at hsc
  rw [tokenize_buf b k.inv, labT_append hsc]
  unfold LR at l
  simpa [pendLab, hm, labT] using l

/-- What `finalize` hands out reads, labelled, as `lacc`. -/
theorem finalize_L (b : Buffer) (acc dacc : List Tok) (lacc : List LB) (k : KInv b acc dacc) (l : LR b lacc) :
    labT (tokenize b.finalize.buf) = lacc := by
  by_cases hm : b.mode = .raw
  · have ⟨_, ho⟩ := full_of_raw b k.inv hm
    rw [finalize_raw b hm ho]
    exact raw_L b acc dacc lacc k hm l
  · have e := escapeToEnd_L b acc dacc lacc k hm l
    cases ho : b.markerOpen with
    | false =>
      rw [finalize_esc_closed b hm ho]; exact e
    | true =>
      rw [finalize_esc_open b hm ho]
      have ⟨hf, _, _⟩ := escapeToEnd_full b k.inv
      rw [ho] at hf
      show labT (tokenize (b.escapeToEnd (decide (b.mode = .unsafeEsc))).endRedactable.buf) = _
      rw [endRedactable_L _ hf]; exact e

theorem lr_of_full (b : Buffer) (lacc : List LB) (hf : b.validUntil = b.buf.length) (h : labT (tokenize b.buf) = lacc) : LR b lacc := by
  unfold LR
  rw [pre_of_full hf, suf_of_full hf, pendLab_nil]
  simpa using h

theorem setMode_L (b : Buffer) (m : Mode) (acc dacc : List Tok) (lacc : List LB) (k : KInv b acc dacc) (l : LR b lacc) :
    LR (b.setMode m) lacc := by
  by_cases hsame : b.mode = m
  · rw [setMode_same b m hsame]; exact l
  · have ⟨e1, v1, _⟩ := setMode_buf b m k.inv hsame
    exact lr_of_full _ lacc v1 (by rw [e1]; exact finalize_L b acc dacc lacc k l)

theorem startWrite_L (b : Buffer) (acc dacc : List Tok) (lacc : List LB) (k : KInv b acc dacc) (l : LR b lacc) :
    LR b.startWrite lacc := by
  by_cases hc : b.mode = .unsafeEsc ∧ b.markerOpen = false
  · have hfull := full_of_suf_nil k.inv.le (k.inv.closedEmpty hc.1 hc.2)
    have e : b.startWrite = { b.startRedactable with validUntil := b.startRedactable.buf.length } := startWrite_open b hc
    have hl : labT (tokenize b.buf) = lacc := by
      unfold LR at l
      rw [pre_of_full hfull, suf_of_full hfull, pendLab_nil] at l
      simpa using l
    rw [e]
    apply lr_of_full _ lacc rfl
    show labT (tokenize b.startRedactable.buf) = lacc
    rw [startRedactable_L]; exact hl
  · rw [startWrite_noop b hc]; exact l

theorem pendLab_append (b : Buffer) (p : List Byte) (acc dacc : List Tok) (k : KInv b acc dacc) :
    pendLab b.mode (b.suf ++ p) = pendLab b.mode b.suf ++ pendLab b.mode p := by
  have htok : tokenize (b.suf ++ p) = tokenize b.suf ++ tokenize p := by
    by_cases hm : b.mode = .raw
    · exact tokenize_append_of_not_straddles _ _ (not_straddles_of_goodT _ _ (k.inv.raw hm).1)
    · exact tokenize_append_of_not_straddles _ _ (straddles_of_endsRune _ _ (k.pe hm))
  unfold pendLab
  rw [htok]
  split
  · rename_i hm
    exact labT_append (k.inv.raw hm).2 _
  · split
    · exact pendLabU_append _ _
    · exact labFrom_escT_append _ _

theorem append_L (b : Buffer) (p : List Byte) (acc dacc : List Tok) (lacc : List LB) (k : KInv b acc dacc) (l : LR b lacc) :
    LR (b.append p) (lacc ++ pendLab b.mode p) := by
  have hpre : (b.append p).pre = b.pre := by
    simp [Buffer.append, Buffer.pre, List.take_append_of_le_length k.inv.le]
  have hsuf : (b.append p).suf = b.suf ++ p := by
    simp [Buffer.append, Buffer.suf, List.drop_append_of_le_length k.inv.le]
  have hmode : (b.append p).mode = b.mode := rfl
  unfold LR at l ⊢
  rw [hpre, hsuf, hmode, pendLab_append b p acc dacc k, ← l, List.append_assoc]

theorem write_L (b : Buffer) (p : List Byte) (acc dacc : List Tok) (lacc : List LB) (k : KInv b acc dacc) (l : LR b lacc) :
    LR (b.write p) (lacc ++ pendLab b.mode p) := by
  have ⟨_, m1, _, _⟩ := inv_startWrite b k.inv
  have := append_L b.startWrite p acc dacc lacc (startWrite_K b acc dacc k) (startWrite_L b acc dacc lacc k l)
  rw [m1] at this
  exact this

end Redact
