import RedactVerif.Props.C10
import RedactVerif.Props.C01
import RedactVerif.Proofs.Utf8Valid
/-
What the buffer's output reads as with markers stripped, and with envelopes
deleted (C09's two equalities): lemmas. The development tracks buffers whose
bytes, trailing markers aside, end in a complete UTF-8 character (`RuneEnd`,
Proofs/Utf8Valid.lean) — so that the truncated-UTF-8 tail test never fires —
which is what payloads that are empty or end in a complete character produce.
-/
namespace Redact

theorem escTok_append (nl : Bool) (out x y : List Tok) : escTok nl out (x ++ y) = escTok nl (escTok nl out x) y := by
  induction x generalizing out with
  | nil => simp [escTok]
  | cons t r ih =>
    cases t with
    | s => simp [escTok, ih]
    | e => simp [escTok, ih]
    | b c =>
      simp only [List.cons_append, escTok]
      split <;> exact ih _

/-- Plain tokens without a line feed (or with line splitting off) are appended as they are. -/
theorem escTok_plain (nl : Bool) (out : List Tok) (r : List Byte) (h : ∀ c ∈ r, ¬ (nl = true ∧ c = LF)) :
    escTok nl out (r.map .b) = out ++ r.map .b := by
  induction r generalizing out with
  | nil => simp [escTok]
  | cons c t ih =>
    have hc : (nl && c == LF) = false := by
      have := h c (by simp)
      cases nl <;> simp_all
    simp only [List.map_cons, escTok, hc, Bool.false_eq_true, if_false]
    rw [ih _ (fun c' hc' => h c' (by simp [hc']))]
    simp

theorem valid_no_LF {r : List Byte} (h : validRuneB r = true) (hne : r ≠ [LF]) : ∀ c ∈ r, c ≠ LF := by
  have big : ∀ c : Byte, 0x80 ≤ c → c ≠ LF := by
    intro c hc hh; subst hh; revert hc; decide
  rcases valid_cases h with ⟨a, rfl⟩ | ⟨a, b, rfl⟩ | ⟨a, b, c, rfl⟩ | ⟨a, b, c, d, rfl⟩
  · intro c hc; simp at hc; subst hc; intro hh; subst hh; exact hne rfl
  · obtain ⟨ha, hb, _, _⟩ := valid2 h
    intro x hx; simp at hx
    rcases hx with rfl | rfl
    · exact big _ (Nat.le_trans (by decide) ha)
    · exact big _ hb
  · obtain ⟨ha, hb, _, hc, _, _⟩ := valid3 h
    intro x hx; simp at hx
    rcases hx with rfl | rfl | rfl
    · exact big _ (Nat.le_trans (by decide) ha)
    · exact big _ hb
    · exact big _ hc
  · obtain ⟨ha, hb, _, hc, _, hd, _, _⟩ := valid4 h
    intro x hx; simp at hx
    rcases hx with rfl | rfl | rfl | rfl
    · exact big _ (Nat.le_trans (by decide) ha)
    · exact big _ hb
    · exact big _ hc
    · exact big _ hd

theorem valid_q : validRuneB [0x3F] = true := by decide
theorem valid_LF : validRuneB [LF] = true := by decide

/-- The escape of pending tokens that end in a complete character ends (markers aside) in one. -/
theorem runeEnd_escTok (nl : Bool) (out x : List Tok) (ho : RuneEnd out) (hx : PendRune x) :
    RuneEnd (escTok nl out x) := by
  rcases hx with rfl | ⟨y, h | h | ⟨r, h, hr⟩⟩
  · simpa [escTok] using ho
  · subst h
    rw [escTok_append]
    simp only [escTok]
    exact runeEnd_snoc_rune _ valid_q
  · subst h
    rw [escTok_append]
    simp only [escTok]
    exact runeEnd_snoc_rune _ valid_q
  · subst h
    rw [escTok_append]
    by_cases hl : r = [LF] ∧ nl = true
    · obtain ⟨rfl, rfl⟩ := hl
      simp only [List.map_cons, List.map_nil, escTok, Bool.true_and, beq_self_eq_true, if_true]
      have : ∀ (l : List Tok), l ++ [Tok.b LF, Tok.s] = (l ++ [LF].map .b) ++ [.s] := fun l => by simp
      rw [this]
      exact runeEnd_snoc_marker (runeEnd_snoc_rune _ valid_LF) rfl
    · rw [escTok_plain]
      · exact runeEnd_snoc_rune _ hr
      · intro c hc ⟨hnl, hcl⟩
        by_cases hr1 : r = [LF]
        · exact hl ⟨hr1, hnl⟩
        · exact valid_no_LF hr hr1 c hc hcl

/-! ### The text outside envelopes after the unsafe-mode escape -/

/-- The line feeds among pending tokens. -/
def lfT : List Tok → List Tok
  | [] => []
  | .b x :: r => if x == LF then .b LF :: lfT r else lfT r
  | _ :: r => lfT r

theorem lfT_append (a b : List Tok) : lfT (a ++ b) = lfT a ++ lfT b := by
  induction a with
  | nil => rfl
  | cons x r ih =>
    cases x with
    | s => simpa [lfT] using ih
    | e => simpa [lfT] using ih
    | b y => simp only [List.cons_append, lfT]; split <;> simp [ih]

theorem safeText_append (a b : List Ev) : safeText (a ++ b) = safeText a ++ safeText b := by
  induction a with
  | nil => rfl
  | cons x r ih => cases x <;> simp [safeText, ih]

theorem safeText_evT_snoc_open (t : List Tok) (x : Byte) (h : scan t = some true) :
    safeText (evT (t ++ [.b x])) = safeText (evT t) := by
  rw [evT_snoc_open _ _ h]
  unfold gEv
  split
  · simp [safeText_append, safeText]
  · rfl

theorem safeText_lf_step {out : List Tok} (h : scan out = some true) :
    safeText (evT ((if out.getLast? = some .s then out.dropLast else out ++ [.e]) ++ [.b LF, .s])) =
      safeText (evT out) ++ [.b LF] := by
  have hne : out ≠ [] := tokens_ne_nil_of_scan_true h
  split
  · rename_i hl
    have hsn := snoc_of_getLast hl
    have h2 : scan out.dropLast = some false := scan_of_snoc_s (by rw [← hsn]; exact h)
    have e1 : evT out = evT out.dropLast ++ [.opn] := by
      conv => lhs; rw [hsn]
      exact evT_snoc_s _
    have : out.dropLast ++ [Tok.b LF, .s] = (out.dropLast ++ [.b LF]) ++ [.s] := by simp
    rw [this, evT_snoc_s, evT_snoc_content, closed_of_scan_false h2, e1]
    simp [safeText_append, safeText, absTok]
  · have : out ++ [.e] ++ [Tok.b LF, .s] = ((out ++ [.e]) ++ [.b LF]) ++ [.s] := by simp
    rw [this, evT_snoc_s, evT_snoc_content, evT_snoc_e]
    have h2 : scan (out ++ [.e]) = some false := by rw [scan_append, h]; simp [scanFrom]
    rw [closed_of_scan_false h2]
    simp [safeText_append, safeText, absTok]

theorem safeText_escTok_open (out rest : List Tok) (h : scan out = some true) :
    safeText (evT (escTok true out rest)) = safeText (evT out) ++ lfT rest := by
  induction rest generalizing out with
  | nil => simp [escTok, lfT]
  | cons t r ih =>
    cases t with
    | s =>
      simp only [escTok, lfT]
      rw [ih _ (scan_snoc_content h (by decide)), safeText_evT_snoc_open _ _ h]
    | e =>
      simp only [escTok, lfT]
      rw [ih _ (scan_snoc_content h (by decide)), safeText_evT_snoc_open _ _ h]
    | b x =>
      by_cases hx : x = LF
      · subst hx
        simp only [escTok, lfT, Bool.true_and, beq_self_eq_true, if_true]
        rw [ih _ (scan_lf_step h), safeText_lf_step h]
        simp
      · have hb : (x == LF) = false := by simpa using hx
        simp only [escTok, lfT, hb, Bool.and_false, Bool.false_eq_true, if_false]
        rw [ih _ (scan_snoc_content h hx), safeText_evT_snoc_open _ _ h]

theorem safeText_outEv_plain (r : List Tok) (h : ∀ x ∈ r, x.isMarker = false) : safeText (outEv r) = r := by
  induction r with
  | nil => rfl
  | cons x r ih =>
    cases x with
    | s => have := h .s (by simp); simp [Tok.isMarker] at this
    | e => have := h .e (by simp); simp [Tok.isMarker] at this
    | b y => simp only [outEv, safeText]; rw [ih (fun x hx => h x (by simp [hx]))]

/-- Safe text appended to a closed prefix is visible as written (markers escaped). -/
theorem safeText_closed_escT (t x : List Tok) (h : scan t = some false) :
    safeText (evT (t ++ escT x)) = safeText (evT t) ++ escT x := by
  unfold evT
  rw [abs_append, closed_of_scan_false h, abs_closed_plain _ (escT_no_marker x), safeText_append,
    safeText_outEv_plain _ (escT_no_marker x)]

/-- A finished redactable appended to a closed prefix contributes its own outside text. -/
theorem safeText_closed_raw (t s : List Tok) (h : scan t = some false) (hs : scan s = some false) :
    safeText (evT (t ++ s)) = safeText (evT t) ++ dropEnvT s := by
  unfold evT
  rw [abs_append, closed_of_scan_false h, safeText_append]
  unfold dropEnvT
  rw [(dropEnv_eq_safeText s).1 (scanWF_of_scan _ _ _ hs)]

/-! ### What the buffer reads as: stripped, and outside envelopes -/

def pendPlainT (m : Mode) (s : List Byte) : List Tok :=
  if m = .raw then stripT (tokenize s) else escT (tokenize s)

def pendSafeT (m : Mode) (s : List Byte) : List Tok :=
  if m = .raw then dropEnvT (tokenize s) else if m = .unsafeEsc then lfT (tokenize s) else escT (tokenize s)

/-- The buffer holds `acc` (as read with markers stripped) and `dacc` (as read outside
envelopes), and its bytes end, markers aside, in a complete character. -/
structure KInv (b : Buffer) (acc dacc : List Tok) : Prop where
  inv : Inv b
  cl : RuneEnd (tokenize b.pre)
  pr : b.mode = .raw → RuneEnd (tokenize b.suf)
  pe : b.mode ≠ .raw → EndsRune b.suf
  plain : stripT (tokenize b.pre) ++ pendPlainT b.mode b.suf = acc
  safe : safeText (evT (tokenize b.pre)) ++ pendSafeT b.mode b.suf = dacc

/-- The tokens of the whole buffer: validated prefix then pending bytes. -/
theorem tokenize_buf (b : Buffer) (hi : Inv b) : tokenize b.buf = tokenize b.pre ++ tokenize b.suf := by
  rw [buf_eq_pre_suf b]
  exact tokenize_append_of_not_straddles _ _ (not_straddles_of_goodT _ _ hi.good)

/-- Under the invariant the tail test never fires. -/
theorem KInv.tail {b : Buffer} {acc dacc : List Tok} (k : KInv b acc dacc) : tailBad b.buf = false := by
  by_cases hm : b.mode = .raw
  · apply tailBad_of_runeEnd
    rw [tokenize_buf b k.inv]
    exact runeEnd_append k.cl (k.pr hm)
  · rcases k.pe hm with hs | ⟨q, r, hs, hr⟩
    · apply tailBad_of_runeEnd
      rw [tokenize_buf b k.inv, hs]
      simpa using k.cl
    · rw [buf_eq_pre_suf b, hs, ← List.append_assoc]
      exact tailBad_valid _ _ hr

/-- A fully validated, closed state. -/
structure KFull (b : Buffer) (o : Bool) (acc dacc : List Tok) : Prop where
  full : FullOK b o
  cl : RuneEnd (tokenize b.buf)
  plain : stripT (tokenize b.buf) = acc
  safe : safeText (evT (tokenize b.buf)) = dacc

/-- (A) `escapeToEnd` under the invariant: no `?` is added, the reading is unchanged. -/
theorem escapeToEnd_K (b : Buffer) (acc dacc : List Tok) (k : KInv b acc dacc) (hm : b.mode ≠ .raw) :
    KFull (b.escapeToEnd (decide (b.mode = .unsafeEsc))) b.markerOpen acc dacc := by
  have ⟨hf, _, _⟩ := escapeToEnd_full b k.inv
  have hspec := (escapeBytesAt_spec b.buf b.validUntil (decide (b.mode = .unsafeEsc)) k.inv.good).1
  rw [k.tail] at hspec
  simp only [Bool.false_eq_true, if_false] at hspec
  have hbuf : (b.escapeToEnd (decide (b.mode = .unsafeEsc))).buf = escapeBytesAt b.buf b.validUntil (decide (b.mode = .unsafeEsc)) false := rfl
  have htok : tokenize (b.escapeToEnd (decide (b.mode = .unsafeEsc))).buf =
      escTok (decide (b.mode = .unsafeEsc)) (tokenize b.pre) (tokenize b.suf) := by rw [hbuf]; exact hspec
  have hpend := pendRune_of_bytes _ (k.pe hm)
  refine ⟨hf, ?_, ?_, ?_⟩
  · rw [htok]; exact runeEnd_escTok _ _ _ k.cl hpend
  · rw [htok, stripT_escTok]
    have := k.plain
    simpa [pendPlainT, hm] using this
  · rw [htok]
    have hs := k.safe
    have hsc := k.inv.sc
    change scan (tokenize b.pre) = _ at hsc
    by_cases hu : b.mode = .unsafeEsc
    · simp only [hu, decide_true]
      cases ho : b.markerOpen with
      | true =>
        rw [ho] at hsc
        rw [safeText_escTok_open _ _ hsc]
        simpa [pendSafeT, hu] using hs
      | false =>
        have he := k.inv.closedEmpty hu ho
        rw [he]
        simp only [tokenize_nil, escTok]
        simpa [pendSafeT, hu, he, lfT] using hs
    · simp only [hu, decide_false]
      have ho : b.markerOpen = false := by
        cases h : b.markerOpen with
        | false => rfl
        | true => exact absurd (k.inv.openMode h) hu
      rw [ho] at hsc
      rw [escTok_false_eq, safeText_closed_escT _ _ hsc]
      simpa [pendSafeT, hu, hm] using hs


theorem safeText_evT_snoc_s (t : List Tok) : safeText (evT (t ++ [.s])) = safeText (evT t) := by
  rw [evT_snoc_s, safeText_append]; simp [safeText]
theorem safeText_evT_snoc_e (t : List Tok) : safeText (evT (t ++ [.e])) = safeText (evT t) := by
  rw [evT_snoc_e, safeText_append]; simp [safeText]
theorem stripT_snoc_s (t : List Tok) : stripT (t ++ [.s]) = stripT t := by simp [stripT_append, stripT]
theorem stripT_snoc_e (t : List Tok) : stripT (t ++ [.e]) = stripT t := by simp [stripT_append, stripT]

/-- (B) closing the envelope changes neither reading. -/
theorem endRedactable_K (b : Buffer) (acc dacc : List Tok) (k : KFull b true acc dacc) :
    RuneEnd (tokenize b.endRedactable.buf) ∧ stripT (tokenize b.endRedactable.buf) = acc ∧
      safeText (evT (tokenize b.endRedactable.buf)) = dacc := by
  have hne : tokenize b.buf ≠ [] := tokens_ne_nil_of_scan_true k.full.sc
  have hb : b.buf.isEmpty = false := by
    cases hbb : b.buf with
    | nil => rw [hbb] at hne; simp at hne
    | cons _ _ => rfl
  by_cases hs : hasSuffix b.buf startB = true
  · have hs' := (hasSuffix_iff _ _).1 hs
    have e1 : b.endRedactable.buf = dropLast 3 b.buf := by simp [Buffer.endRedactable, hb, hs]
    have hl := (getLast_tokenize_start b.buf).2 hs'
    have hsn := snoc_of_getLast hl
    rw [e1, tokenize_dropLast_start _ hs']
    refine ⟨runeEnd_dropLast k.cl hl rfl, ?_, ?_⟩
    · have := k.plain; rw [hsn, stripT_snoc_s] at this; exact this
    · have := k.safe; rw [hsn, safeText_evT_snoc_s] at this; exact this
  · have hs1 : hasSuffix b.buf startB = false := by simpa using hs
    have e1 : b.endRedactable.buf = b.buf ++ endB := by simp [Buffer.endRedactable, hb, hs1]
    rw [e1, tokenize_append_endB]
    exact ⟨runeEnd_snoc_marker k.cl rfl, by rw [stripT_snoc_e]; exact k.plain,
      by rw [safeText_evT_snoc_e]; exact k.safe⟩

/-- (C) opening an envelope changes neither reading. -/
theorem startRedactable_K (b : Buffer) (acc dacc : List Tok) (k : KFull b false acc dacc) :
    RuneEnd (tokenize b.startRedactable.buf) ∧ stripT (tokenize b.startRedactable.buf) = acc ∧
      safeText (evT (tokenize b.startRedactable.buf)) = dacc := by
  by_cases hs : hasSuffix b.buf endB = true
  · have hs' := (hasSuffix_iff _ _).1 hs
    have e1 : b.startRedactable.buf = dropLast 3 b.buf := by simp [Buffer.startRedactable, hs]
    have hl := (getLast_tokenize_end b.buf).2 hs'
    have hsn := snoc_of_getLast hl
    rw [e1, tokenize_dropLast_end _ hs']
    refine ⟨runeEnd_dropLast k.cl hl rfl, ?_, ?_⟩
    · have := k.plain; rw [hsn, stripT_snoc_e] at this; exact this
    · have := k.safe; rw [hsn, safeText_evT_snoc_e] at this; exact this
  · have hs1 : hasSuffix b.buf endB = false := by simpa using hs
    have e1 : b.startRedactable.buf = b.buf ++ startB := by simp [Buffer.startRedactable, hs1]
    rw [e1, tokenize_append_startB]
    exact ⟨runeEnd_snoc_marker k.cl rfl, by rw [stripT_snoc_s]; exact k.plain,
      by rw [safeText_evT_snoc_s]; exact k.safe⟩

/-- Leaving raw mode: the pending fragments are read as they are. -/
theorem raw_K (b : Buffer) (acc dacc : List Tok) (k : KInv b acc dacc) (hm : b.mode = .raw) :
    RuneEnd (tokenize b.buf) ∧ stripT (tokenize b.buf) = acc ∧ safeText (evT (tokenize b.buf)) = dacc := by
  have ⟨_, ho⟩ := full_of_raw b k.inv hm
  have hob := k.inv.raw hm
  have hsc := k.inv.sc
  rw [ho] at hsc
  change scan (tokenize b.pre) = _ at hsc
  rw [tokenize_buf b k.inv]
  refine ⟨runeEnd_append k.cl (k.pr hm), ?_, ?_⟩
  · rw [stripT_append]; have := k.plain; simpa [pendPlainT, hm] using this
  · rw [safeText_closed_raw _ _ hsc hob.2]; have := k.safe; simpa [pendSafeT, hm] using this

/-- What `finalize` hands out reads as `acc` / `dacc`. -/
theorem finalize_K (b : Buffer) (acc dacc : List Tok) (k : KInv b acc dacc) :
    RuneEnd (tokenize b.finalize.buf) ∧ stripT (tokenize b.finalize.buf) = acc ∧
      safeText (evT (tokenize b.finalize.buf)) = dacc := by
  by_cases hm : b.mode = .raw
  · have ⟨_, ho⟩ := full_of_raw b k.inv hm
    rw [finalize_raw b hm ho]
    exact raw_K b acc dacc k hm
  · have kf := escapeToEnd_K b acc dacc k hm
    cases ho : b.markerOpen with
    | false =>
      rw [finalize_esc_closed b hm ho]
      exact ⟨kf.cl, kf.plain, kf.safe⟩
    | true =>
      rw [finalize_esc_open b hm ho]
      rw [ho] at kf
      exact endRedactable_K _ acc dacc kf

theorem kinv_of_full (b : Buffer) (acc dacc : List Tok) (hf : FullOK b false) (ho : b.markerOpen = false)
    (hc : RuneEnd (tokenize b.buf)) (hp : stripT (tokenize b.buf) = acc)
    (hs : safeText (evT (tokenize b.buf)) = dacc) : KInv b acc dacc := by
  have hpre := pre_of_full hf.full
  have hsuf := suf_of_full hf.full
  refine ⟨inv_of_full_closed _ hf ho, by rw [hpre]; exact hc, fun _ => (by rw [hsuf]; exact runeEnd_nil), fun _ => (by rw [hsuf]; exact Or.inl rfl), ?_, ?_⟩
  · rw [hpre, hsuf]; simp [pendPlainT, stripT, escT, hp]
  · rw [hpre, hsuf]; simp [pendSafeT, dropEnvT, dropEnvAux, lfT, escT, hs]

theorem setMode_K (b : Buffer) (m : Mode) (acc dacc : List Tok) (k : KInv b acc dacc) :
    KInv (b.setMode m) acc dacc := by
  by_cases hsame : b.mode = m
  · rw [setMode_same b m hsame]; exact k
  · have ⟨e1, v1, o1⟩ := setMode_buf b m k.inv hsame
    have ⟨f1, _, _⟩ := finalize_full b k.inv
    have ⟨c, p, s⟩ := finalize_K b acc dacc k
    exact kinv_of_full _ acc dacc ⟨v1, by rw [e1]; exact f1.good, by rw [e1]; exact f1.sc⟩ o1
      (by rw [e1]; exact c) (by rw [e1]; exact p) (by rw [e1]; exact s)


theorem startWrite_K (b : Buffer) (acc dacc : List Tok) (k : KInv b acc dacc) : KInv b.startWrite acc dacc := by
  by_cases hc : b.mode = .unsafeEsc ∧ b.markerOpen = false
  · have ⟨j1, m1, _, _⟩ := inv_startWrite b k.inv
    have hfull := full_of_suf_nil k.inv.le (k.inv.closedEmpty hc.1 hc.2)
    have hpre := pre_of_full hfull
    have hsuf := suf_of_full hfull
    have F : FullOK b false := ⟨hfull, by have := k.inv.good; rwa [hpre] at this,
      by have := k.inv.sc; rwa [hpre, hc.2] at this⟩
    have kf : KFull b false acc dacc := ⟨F, by have := k.cl; rwa [hpre] at this,
      by have := k.plain; rw [hpre, hsuf] at this; simpa [pendPlainT, hc.1, escT] using this,
      by have := k.safe; rw [hpre, hsuf] at this; simpa [pendSafeT, hc.1, lfT] using this⟩
    have ⟨c, p, s⟩ := startRedactable_K b acc dacc kf
    have hu : b.startWrite.mode = .unsafeEsc := by rw [m1]; exact hc.1
    have e : b.startWrite = { b.startRedactable with validUntil := b.startRedactable.buf.length } := startWrite_open b hc
    have hpre' : b.startWrite.pre = b.startRedactable.buf := by rw [e]; simp [Buffer.pre]
    have hsuf' : b.startWrite.suf = [] := by rw [e]; simp [Buffer.suf]
    refine ⟨j1, by rw [hpre']; exact c, fun h => (by rw [hu] at h; cases h), fun _ => (by rw [hsuf']; exact Or.inl rfl), ?_, ?_⟩
    · rw [hpre', hsuf']; simp [pendPlainT, hu, escT, p]
    · rw [hpre', hsuf']; simp [pendSafeT, hu, lfT, s]
  · rw [startWrite_noop b hc]; exact k

theorem escT_append (a b : List Tok) : escT (a ++ b) = escT a ++ escT b := by
  induction a with
  | nil => rfl
  | cons x r ih => cases x <;> simp [escT, ih]

theorem dropEnvT_append_closed (a b : List Tok) (ha : scan a = some false) (hb : scan b = some false) :
    dropEnvT (a ++ b) = dropEnvT a ++ dropEnvT b := by
  have hab : scan (a ++ b) = some false := by rw [scan_append, ha]; exact hb
  unfold dropEnvT
  rw [(dropEnv_eq_safeText _).1 (scanWF_of_scan _ _ _ hab), (dropEnv_eq_safeText _).1 (scanWF_of_scan _ _ _ ha),
    (dropEnv_eq_safeText _).1 (scanWF_of_scan _ _ _ hb), abs_append, closed_of_scan_false ha, safeText_append]

/-- Appending pending bytes: both readings grow by the payload's reading in the current mode. -/
theorem append_K (b : Buffer) (p : List Byte) (acc dacc : List Tok) (k : KInv b acc dacc)
    (hc : ¬ (b.mode = .unsafeEsc ∧ b.markerOpen = false))
    (hr : b.mode = .raw → Obtainable p ∧ RuneEnd (tokenize p))
    (he : b.mode ≠ .raw → EndsRune p) :
    KInv (b.append p) (acc ++ pendPlainT b.mode p) (dacc ++ pendSafeT b.mode p) := by
  have j := inv_append b p k.inv hc (fun h => (hr h).1)
  have hpre : (b.append p).pre = b.pre := by
    simp [Buffer.append, Buffer.pre, List.take_append_of_le_length k.inv.le]
  have hsuf : (b.append p).suf = b.suf ++ p := by
    simp [Buffer.append, Buffer.suf, List.drop_append_of_le_length k.inv.le]
  have hmode : (b.append p).mode = b.mode := rfl
  have htok : tokenize (b.suf ++ p) = tokenize b.suf ++ tokenize p := by
    by_cases hm : b.mode = .raw
    · exact tokenize_append_of_not_straddles _ _ (not_straddles_of_goodT _ _ (k.inv.raw hm).1)
    · exact tokenize_append_of_not_straddles _ _ (straddles_of_endsRune _ _ (k.pe hm))
  refine ⟨j, by rw [hpre]; exact k.cl, ?_, ?_, ?_, ?_⟩
  · intro h; rw [hmode] at h; rw [hsuf, htok]; exact runeEnd_append (k.pr h) (hr h).2
  · intro h; rw [hmode] at h; rw [hsuf]; exact endsRune_append (k.pe h) (he h)
  · rw [hpre, hsuf, hmode, ← k.plain, List.append_assoc]
    congr 1
    unfold pendPlainT
    rw [htok]
    split
    · exact stripT_append _ _
    · exact escT_append _ _
  · rw [hpre, hsuf, hmode, ← k.safe, List.append_assoc]
    congr 1
    unfold pendSafeT
    rw [htok]
    split
    · rename_i hm
      exact dropEnvT_append_closed _ _ (k.inv.raw hm).2 (hr hm).1.2
    · split
      · exact lfT_append _ _
      · exact escT_append _ _

theorem write_K (b : Buffer) (p : List Byte) (acc dacc : List Tok) (k : KInv b acc dacc)
    (hr : b.mode = .raw → Obtainable p ∧ RuneEnd (tokenize p))
    (he : b.mode ≠ .raw → EndsRune p) :
    KInv (b.write p) (acc ++ pendPlainT b.mode p) (dacc ++ pendSafeT b.mode p) := by
  have ⟨_, m1, hc, _⟩ := inv_startWrite b k.inv
  have := append_K b.startWrite p acc dacc (startWrite_K b acc dacc k) hc (fun h => hr (m1 ▸ h)) (fun h => he (m1 ▸ h))
  rw [m1] at this
  exact this

end Redact
