import RedactVerif.Model.Printer
/-
Basic vocabulary for proofs about the printer model: `ValOk` (embedded redactables are
obtainable), `Pre`/`G` (buffer invariant + frame), and the bracket (restorer) lemmas.
-/
import RedactVerif.Proofs.BufferInv
namespace Redact

/- `ValOk`: every RedactableString/Bytes reachable in the value (also through user
methods' arguments and panic payloads) is an obtainable redactable. -/
mutual
def ValOk : Val → Prop
  | .nil => True
  | .leaf _ _ _ _ _ _ => True
  | .safeW v => ValOk v
  | .unsafeW v => ValOk v
  | .redactable c _ => Obtainable c
  | .meth _ _ _ _ _ _ sc under => ScriptOk sc ∧ ValOk under
  | .slice _ _ _ es => ValsOk es
  | .map _ _ _ _ ks vs => ValsOk ks ∧ ValsOk vs
  | .struct _ _ fs => FieldsOk fs
  | .ptrTo _ v => ValOk v
def ValsOk : Vals → Prop
  | .nil => True
  | .cons v r => ValOk v ∧ ValsOk r
def FieldsOk : Fields → Prop
  | .nil => True
  | .cons _ _ _ v r => ValOk v ∧ FieldsOk r
def ScriptOk : Script → Prop
  | .done => True
  | .safeString _ k => ScriptOk k
  | .unsafeString _ k => ScriptOk k
  | .safeRune _ k => ScriptOk k
  | .write _ k => ScriptOk k
  | .unsafeLeaf _ k => ScriptOk k
  | .print args k => ValsOk args ∧ ScriptOk k
  | .printf _ args k => ValsOk args ∧ ScriptOk k
  | .indep k => ScriptOk k
  | .panic payload => ValOk payload
end

def ListOk (l : List Val) : Prop := ∀ v ∈ l, ValOk v

theorem listOk_of_valsOk : (vs : Vals) → ValsOk vs → ListOk vs.toList
  | .nil, _ => by intro v hv; simp [Vals.toList] at hv
  | .cons x r, h => by
    intro v hv
    simp only [Vals.toList, List.mem_cons] at hv
    rcases hv with rfl | hv
    · exact h.1
    · exact listOk_of_valsOk r h.2 v hv

def EnvOk (env : Env) : Prop := ∀ h, env.hook = some h → ∀ r v, ScriptOk (h r v)

/-- Precondition: the buffer satisfies its invariant and is in an escaping mode. -/
def Pre (p : PP) : Prop := Inv p.buf ∧ p.buf.mode ≠ .raw

/-- Frame: the invariant still holds, and mode and override are what they were. -/
def G (p q : PP) : Prop := Inv q.buf ∧ q.buf.mode = p.buf.mode ∧ q.override = p.override

theorem G.refl {p : PP} (h : Pre p) : G p p := ⟨h.1, rfl, rfl⟩
theorem G.trans {p q r : PP} (h1 : G p q) (h2 : G q r) : G p r :=
  ⟨h2.1, h2.2.1.trans h1.2.1, h2.2.2.trans h1.2.2⟩
theorem G.pre {p q : PP} (hp : Pre p) (h : G p q) : Pre q := ⟨h.1, by rw [h.2.1]; exact hp.2⟩

def GR (p : PP) (r : Res) : Prop := ∀ q, r = .ok q → G p q

theorem G_w {p : PP} (hp : Pre p) (s : List Byte) : G p (p.w s) :=
  ⟨inv_write_nr _ _ hp.1 hp.2, write_mode _ _, rfl⟩
theorem G_wb {p : PP} (hp : Pre p) (c : Byte) : G p (p.wb c) :=
  ⟨inv_writeByte_nr _ _ hp.1 hp.2, writeByte_mode _ _, rfl⟩
theorem G_wr {p : PP} (hp : Pre p) (r : Int) : G p (p.wr r) :=
  ⟨inv_writeRune_nr _ _ hp.1 hp.2, writeRune_mode _ _, rfl⟩

/-- Changing only flags / bookkeeping keeps the frame. -/
theorem G_same {p q : PP} (hp : Pre p) (hb : q.buf = p.buf) (ho : q.override = p.override) : G p q :=
  ⟨by rw [hb]; exact hp.1, by rw [hb], ho⟩

theorem GR_bind {p : PP} {r : Res} {f : PP → Res} (h1 : GR p r) (h2 : ∀ q, G p q → GR q (f q)) : GR p (r.bind f) := by
  intro q hq
  cases r with
  | ok q1 => exact G.trans (h1 q1 rfl) (h2 q1 (h1 q1 rfl) q hq)
  | panic => simp [Res.bind] at hq
  | fuel => simp [Res.bind] at hq
  | unsupported => simp [Res.bind] at hq

/-- `defer p.startX().restore()` around a body that keeps the frame. -/
theorem GR_bracket (start : PP → PP × PP.Restorer) (p : PP) (body : PP → Res) (hp : Pre p)
    (hstart : Pre (start p).1 ∧ (start p).2 = ⟨p.buf.mode, p.override⟩)
    (hbody : GR (start p).1 (body (start p).1)) : GR p (bracket start p body) := by
  intro q hq
  unfold bracket at hq
  generalize hs : start p = sp at hq hstart hbody
  obtain ⟨q0, r⟩ := sp
  simp only at hq hstart hbody
  cases hb : body q0 with
  | ok q1 =>
    rw [hb] at hq
    simp only [Res.bind, Res.ok.injEq] at hq
    subst hq
    have g := hbody q1 hb
    rw [hstart.2]
    exact ⟨inv_setMode _ _ g.1, setMode_mode _ _, rfl⟩
  | panic => rw [hb] at hq; simp [Res.bind] at hq
  | fuel => rw [hb] at hq; simp [Res.bind] at hq
  | unsupported => rw [hb] at hq; simp [Res.bind] at hq

theorem start_safeOverride {p : PP} (hp : Pre p) :
    Pre p.startSafeOverride.1 ∧ p.startSafeOverride.2 = ⟨p.buf.mode, p.override⟩ := by
  unfold PP.startSafeOverride
  split
  · exact ⟨⟨inv_setMode _ _ hp.1, by simp [setMode_mode]⟩, rfl⟩
  · exact ⟨hp, rfl⟩

theorem start_unsafeOverride {p : PP} (hp : Pre p) :
    Pre p.startUnsafeOverride.1 ∧ p.startUnsafeOverride.2 = ⟨p.buf.mode, p.override⟩ := by
  unfold PP.startUnsafeOverride
  split
  · exact ⟨⟨inv_setMode _ _ hp.1, by simp [setMode_mode]⟩, rfl⟩
  · exact ⟨hp, rfl⟩

theorem start_unsafe {p : PP} (hp : Pre p) :
    Pre p.startUnsafe.1 ∧ p.startUnsafe.2 = ⟨p.buf.mode, p.override⟩ := by
  unfold PP.startUnsafe
  split
  · exact ⟨⟨inv_setMode _ _ hp.1, by simp [setMode_mode]⟩, rfl⟩
  · exact ⟨hp, rfl⟩

/-- Writing a finished redactable under `startPreRedactable`. -/
theorem GR_preRedactable (p : PP) (content : List Byte) (hp : Pre p) (hc : Obtainable content) :
    GR p (bracket PP.startPreRedactable p fun q => .ok (q.w content)) := by
  intro q hq
  unfold bracket PP.startPreRedactable at hq
  by_cases ho : p.override ≠ .ovUnsafe
  · rw [if_pos ho] at hq
    simp only [Res.bind, Res.ok.injEq] at hq
    subst hq
    have i1 := inv_setMode p.buf .raw hp.1
    have i2 := inv_write _ content i1 (fun _ => hc)
    exact ⟨inv_setMode _ _ i2, setMode_mode _ _, rfl⟩
  · rw [if_neg ho] at hq
    simp only [Res.bind, Res.ok.injEq] at hq
    subst hq
    have i2 := inv_write_nr _ content hp.1 hp.2
    exact ⟨inv_setMode _ _ i2, setMode_mode _ _, rfl⟩

theorem GR_leafWrite (env : Env) (p : PP) (id verb : Nat) (k : BK) (ty : List Byte) (hp : Pre p) :
    GR p (leafWrite env p id verb k ty) := by
  unfold leafWrite
  split
  · intro q hq; simp only [Res.ok.injEq] at hq; subst hq; exact G_w hp _
  · unfold leafWrite1
    split
    · intro q hq; cases hq
    · split
      · intro q hq; cases hq
      · apply GR_bracket _ _ _ hp (start_unsafe hp)
        intro q hq; simp only [Res.ok.injEq] at hq; subst hq
        exact G_w (start_unsafe hp).1 _

end Redact
