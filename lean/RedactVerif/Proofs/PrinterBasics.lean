import RedactVerif.Model.Printer
/-
Basic vocabulary for proofs about the printer model: `ValOk` (embedded redactables are
obtainable), `Pre`/`G` (buffer invariant + frame), and the bracket (restorer) lemmas.
-/
import RedactVerif.Proofs.BufferInv
namespace Redact

/- `ValOk`: every RedactableString/Bytes reachable in the value (also through user
methods' arguments and panic payloads) is an obtainable redactable. -/
mutual
def ValOk : Val → Prop
  | .nil => True
  | .leaf _ _ _ _ _ _ => True
  | .safeW v => ValOk v
  | .unsafeW v => ValOk v
  | .redactable c _ => Obtainable c
  | .meth _ _ _ _ _ _ sc under => ScriptOk sc ∧ ValOk under
  | .slice _ _ _ es => ValsOk es
  | .map _ _ _ _ ks vs => ValsOk ks ∧ ValsOk vs
  | .struct _ _ fs => FieldsOk fs
  | .ptrTo _ v => ValOk v
def ValsOk : Vals → Prop
  | .nil => True
  | .cons v r => ValOk v ∧ ValsOk r
def FieldsOk : Fields → Prop
  | .nil => True
  | .cons _ _ _ v r => ValOk v ∧ FieldsOk r
def ScriptOk : Script → Prop
  | .done => True
  | .safeString _ k => ScriptOk k
  | .unsafeString _ k => ScriptOk k
  | .safeRune _ k => ScriptOk k
  | .write _ k => ScriptOk k
  | .unsafeLeaf _ k => ScriptOk k
  | .print args k => ValsOk args ∧ ScriptOk k
  | .printf _ args k => ValsOk args ∧ ScriptOk k
  | .indep k => ScriptOk k
  | .panic payload => ValOk payload
end

def ListOk (l : List Val) : Prop := ∀ v ∈ l, ValOk v

theorem listOk_of_valsOk : (vs : Vals) → ValsOk vs → ListOk vs.toList
  | .nil, _ => by intro v hv; simp [Vals.toList] at hv
  | .cons x r, h => by
    intro v hv
    simp only [Vals.toList, List.mem_cons] at hv
    rcases hv with rfl | hv
    · exact h.1
    · exact listOk_of_valsOk r h.2 v hv

def EnvOk (env : Env) : Prop := ∀ h, env.hook = some h → ∀ r v, ScriptOk (h r v)

/-- Precondition: the buffer satisfies its invariant and is in an escaping mode. -/
def Pre (p : PP) : Prop := Inv p.buf ∧ p.buf.mode ≠ .raw

/-- Frame: the invariant still holds, and mode and override are what they were. -/
def G (p q : PP) : Prop := Inv q.buf ∧ q.buf.mode = p.buf.mode ∧ q.override = p.override

theorem G.refl {p : PP} (h : Pre p) : G p p := ⟨h.1, rfl, rfl⟩
theorem G.trans {p q r : PP} (h1 : G p q) (h2 : G q r) : G p r :=
  ⟨h2.1, h2.2.1.trans h1.2.1, h2.2.2.trans h1.2.2⟩
theorem G.pre {p q : PP} (hp : Pre p) (h : G p q) : Pre q := ⟨h.1, by rw [h.2.1]; exact hp.2⟩

/-- What is known about a result: on success the frame `G`; when a panic propagates, the buffer it
carries still satisfies the invariant and the payload is well-formed. -/
def GR (p : PP) (r : Res) : Prop :=
  (∀ q, r = .ok q → G p q) ∧ (∀ b pl, r = .panic b pl → Inv b ∧ ValOk pl)

theorem G_w {p : PP} (hp : Pre p) (s : List Byte) : G p (p.w s) :=
  ⟨inv_write_nr _ _ hp.1 hp.2, write_mode _ _, rfl⟩
theorem G_wb {p : PP} (hp : Pre p) (c : Byte) : G p (p.wb c) :=
  ⟨inv_writeByte_nr _ _ hp.1 hp.2, writeByte_mode _ _, rfl⟩
theorem G_wr {p : PP} (hp : Pre p) (r : Int) : G p (p.wr r) :=
  ⟨inv_writeRune_nr _ _ hp.1 hp.2, writeRune_mode _ _, rfl⟩

/-- Changing only flags / bookkeeping keeps the frame. -/
theorem G_same {p q : PP} (hp : Pre p) (hb : q.buf = p.buf) (ho : q.override = p.override) : G p q :=
  ⟨by rw [hb]; exact hp.1, by rw [hb], ho⟩

theorem GR_bind {p : PP} {r : Res} {f : PP → Res} (h1 : GR p r) (h2 : ∀ q, G p q → GR q (f q)) : GR p (r.bind f) := by
  cases r with
  | ok q1 =>
    have g1 := h1.1 q1 rfl
    exact ⟨fun q hq => G.trans g1 ((h2 q1 g1).1 q hq), fun b pl hq => (h2 q1 g1).2 b pl hq⟩
  | panic b pl => exact ⟨fun q hq => (by simp [Res.bind] at hq), fun b' pl' hq => (by
      simp only [Res.bind, Res.panic.injEq] at hq; obtain ⟨rfl, rfl⟩ := hq; exact h1.2 _ _ rfl)⟩
  | fuel => exact ⟨fun q hq => (by simp [Res.bind] at hq), fun b pl hq => (by simp [Res.bind] at hq)⟩
  | unsupported => exact ⟨fun q hq => (by simp [Res.bind] at hq), fun b pl hq => (by simp [Res.bind] at hq)⟩

/-- `defer p.startX().restore()` around a body that keeps the frame. -/
theorem GR_bracket (start : PP → PP × PP.Restorer) (p : PP) (body : PP → Res) (hp : Pre p)
    (hstart : Pre (start p).1 ∧ (start p).2 = ⟨p.buf.mode, p.override⟩)
    (hbody : GR (start p).1 (body (start p).1)) : GR p (bracket start p body) := by
  have _ := hp
  unfold bracket
  generalize hs : start p = sp at hstart hbody
  obtain ⟨q0, r⟩ := sp
  simp only at hstart hbody ⊢
  cases hb : body q0 with
  | ok q1 =>
    rw [hb] at hbody
    have g := hbody.1 q1 rfl
    refine ⟨fun q hq => ?_, fun b pl hq => (by cases hq)⟩
    simp only [Res.ok.injEq] at hq
    subst hq
    rw [hstart.2]
    exact ⟨inv_setMode _ _ g.1, setMode_mode _ _, rfl⟩
  | panic b pl =>
    rw [hb] at hbody
    have g := hbody.2 b pl rfl
    refine ⟨fun q hq => (by cases hq), fun b' pl' hq => ?_⟩
    simp only [Res.panic.injEq] at hq
    obtain ⟨rfl, rfl⟩ := hq
    exact ⟨inv_setMode _ _ g.1, g.2⟩
  | fuel => exact ⟨fun q hq => (by cases hq), fun b pl hq => (by cases hq)⟩
  | unsupported => exact ⟨fun q hq => (by cases hq), fun b pl hq => (by cases hq)⟩

theorem start_safeOverride {p : PP} (hp : Pre p) :
    Pre p.startSafeOverride.1 ∧ p.startSafeOverride.2 = ⟨p.buf.mode, p.override⟩ := by
  unfold PP.startSafeOverride
  split
  · exact ⟨⟨inv_setMode _ _ hp.1, by simp [setMode_mode]⟩, rfl⟩
  · exact ⟨hp, rfl⟩

theorem start_unsafeOverride {p : PP} (hp : Pre p) :
    Pre p.startUnsafeOverride.1 ∧ p.startUnsafeOverride.2 = ⟨p.buf.mode, p.override⟩ := by
  unfold PP.startUnsafeOverride
  split
  · exact ⟨⟨inv_setMode _ _ hp.1, by simp [setMode_mode]⟩, rfl⟩
  · exact ⟨hp, rfl⟩

theorem start_unsafe {p : PP} (hp : Pre p) :
    Pre p.startUnsafe.1 ∧ p.startUnsafe.2 = ⟨p.buf.mode, p.override⟩ := by
  unfold PP.startUnsafe
  split
  · exact ⟨⟨inv_setMode _ _ hp.1, by simp [setMode_mode]⟩, rfl⟩
  · exact ⟨hp, rfl⟩

/-- Writing a finished redactable under `startPreRedactable`. -/
theorem GR_ok {p q : PP} (h : G p q) : GR p (.ok q) :=
  ⟨fun q' hq => (by cases hq; exact h), fun b pl hq => (by cases hq)⟩

theorem GR_preRedactable (p : PP) (content : List Byte) (hp : Pre p) (hc : Obtainable content) :
    GR p (bracket PP.startPreRedactable p fun q => .ok (q.w content)) := by
  unfold bracket PP.startPreRedactable
  by_cases ho : p.override ≠ .ovUnsafe
  · rw [if_pos ho]
    apply GR_ok
    have i1 := inv_setMode p.buf .raw hp.1
    have i2 := inv_write _ content i1 (fun _ => hc)
    exact ⟨inv_setMode _ _ i2, setMode_mode _ _, rfl⟩
  · rw [if_neg ho]
    apply GR_ok
    have i2 := inv_write_nr _ content hp.1 hp.2
    exact ⟨inv_setMode _ _ i2, setMode_mode _ _, rfl⟩

theorem GR_none (p : PP) {r : Res} (h1 : ∀ q, r ≠ .ok q) (h2 : ∀ b pl, r ≠ .panic b pl) : GR p r :=
  ⟨fun q hq => absurd hq (h1 q), fun b pl hq => absurd hq (h2 b pl)⟩

theorem GR_leafWrite (env : Env) (p : PP) (id verb : Nat) (k : BK) (ty : List Byte) (hp : Pre p) :
    GR p (leafWrite env p id verb k ty) := by
  unfold leafWrite
  split
  · exact GR_ok (G_w hp _)
  · unfold leafWrite1
    split
    · exact GR_none _ (fun _ h => by cases h) (fun _ _ h => by cases h)
    · split
      · exact GR_none _ (fun _ h => by cases h) (fun _ _ h => by cases h)
      · apply GR_bracket _ _ _ hp (start_unsafe hp)
        exact GR_ok (G_w (start_unsafe hp).1 _)

end Redact
