import RedactVerif.Proofs.EqW
/-
The `erroring` flag between operands. `badVerb` sets it while it re-prints the operand of a bad verb (so that method
dispatch is skipped there) and clears it before returning; `handleMethods` declines while it is set. Here: every
function of the printer entered with `erroring = false` returns — when it returns — with `erroring = false`, for every
operand, verb and format: so every operand of a call, not only the first, meets method dispatch (the error hook, `%w`,
SafeFormatter…) with the flag clear, which is the hypothesis `p.erroring = false` of the theorems of C15 and C17.
Derived from Proofs/EqW.lean: the same shape-following induction over all 21 functions, run on the diagonal (two equal
printers) with the invariant carried as a field of the relation.
-/
namespace Redact.EqE
open Redact.EqW (parseFlags_suffix parsenum_suffix argNumber_suffix widthStage_suffix precStage_suffix decodeVerb_suffix)

/-- (no condition on the format: kept so that the derivation from EqW.lean goes through unchanged) -/
def NoW (_ : List Byte) : Prop := True
theorem NoW.suffix {f r : List Byte} (_ : NoW f) (_ : r <:+ f) : NoW r := trivial


/-- Two equal printers whose `erroring` flag is clear. -/
structure Eqv (p p' : PP) : Prop where
  buf : p'.buf = p.buf
  override : p'.override = p.override
  f : p'.f = p.f
  erroring : p'.erroring = p.erroring
  panicking : p'.panicking = p.panicking
  reordered : p'.reordered = p.reordered
  goodArgNum : p'.goodArgNum = p.goodArgNum
  wrapErrs : p'.wrapErrs = p.wrapErrs
  wrappedErr : p'.wrappedErr = p.wrappedErr
  ne : p.erroring = false

inductive RelR : Res → Res → Prop
  | ok {q q' : PP} : Eqv q q' → RelR (.ok q) (.ok q')
  | panic (b : Buffer) (pl : Val) : RelR (.panic b pl) (.panic b pl)
  | fuel : RelR .fuel .fuel
  | unsupported : RelR .unsupported .unsupported

inductive RelS : SRes → SRes → Prop
  | ok {q q' : PP} : Eqv q q' → RelS (.ok q) (.ok q')
  | raised {q q' : PP} (pl : Val) : Eqv q q' → RelS (.raised q pl) (.raised q' pl)
  | abort {r r' : Res} : RelR r r' → RelS (.abort r) (.abort r')

structure RelH (a a' : Bool × Res) : Prop where
  fst : a'.1 = a.1
  snd : RelR a.2 a'.2

theorem rel_ok {q q' : PP} (h : Eqv q q') : RelR (.ok q) (.ok q') := .ok h

theorem rel_bind {a a' : Res} {k k' : PP → Res} (h : RelR a a') (hk : ∀ q q', Eqv q q' → RelR (k q) (k' q')) :
    RelR (a.bind k) (a'.bind k') := by
  cases h with
  | ok hq => exact hk _ _ hq
  | panic b pl => exact .panic b pl
  | fuel => exact .fuel
  | unsupported => exact .unsupported

theorem rel_ite {c : Prop} [Decidable c] {a b a' b' : Res} (ha : RelR a a') (hb : RelR b b') :
    RelR (if c then a else b) (if c then a' else b') := by
  split <;> assumption
theorem rel_ite_h {c : Prop} [Decidable c] {a b a' b' : Bool × Res} (ha : RelH a a') (hb : RelH b b') :
    RelH (if c then a else b) (if c then a' else b') := by
  split <;> assumption
theorem rel_ite_s {c : Prop} [Decidable c] {a b a' b' : SRes} (ha : RelS a a') (hb : RelS b b') :
    RelS (if c then a else b) (if c then a' else b') := by
  split <;> assumption
theorem eqv_ite {c : Prop} [Decidable c] {a b a' b' : PP} (ha : Eqv a a') (hb : Eqv b b') :
    Eqv (if c then a else b) (if c then a' else b') := by
  split <;> assumption

theorem Eqv.w {p p' : PP} (h : Eqv p p') (s : List Byte) : Eqv (p.w s) (p'.w s) :=
  ⟨by simp [PP.w, h.buf], h.override, h.f, h.erroring, h.panicking, h.reordered, h.goodArgNum, h.wrapErrs, h.wrappedErr, h.ne⟩
theorem Eqv.wb {p p' : PP} (h : Eqv p p') (c : Byte) : Eqv (p.wb c) (p'.wb c) :=
  ⟨by simp [PP.wb, h.buf], h.override, h.f, h.erroring, h.panicking, h.reordered, h.goodArgNum, h.wrapErrs, h.wrappedErr, h.ne⟩
theorem Eqv.wr {p p' : PP} (h : Eqv p p') (r : Int) : Eqv (p.wr r) (p'.wr r) :=
  ⟨by simp [PP.wr, h.buf], h.override, h.f, h.erroring, h.panicking, h.reordered, h.goodArgNum, h.wrapErrs, h.wrappedErr, h.ne⟩

theorem Eqv.setErroring {p p' : PP} (h : Eqv p p') : Eqv { p with erroring := false } { p' with erroring := false } :=
  ⟨h.buf, h.override, h.f, rfl, h.panicking, h.reordered, h.goodArgNum, h.wrapErrs, h.wrappedErr, rfl⟩
theorem Eqv.setF {p p' : PP} (h : Eqv p p') (g : FmtS) : Eqv { p with f := g } { p' with f := g } :=
  ⟨h.buf, h.override, rfl, h.erroring, h.panicking, h.reordered, h.goodArgNum, h.wrapErrs, h.wrappedErr, h.ne⟩
theorem Eqv.setPanicking {p p' : PP} (h : Eqv p p') (e : Bool) : Eqv { p with panicking := e } { p' with panicking := e } :=
  ⟨h.buf, h.override, h.f, h.erroring, rfl, h.reordered, h.goodArgNum, h.wrapErrs, h.wrappedErr, h.ne⟩
theorem Eqv.setWrapped {p p' : PP} (h : Eqv p p') (w : Option Nat) (e : Bool) :
    Eqv { p with wrappedErr := w, wrapErrs := e } { p' with wrappedErr := w, wrapErrs := e } :=
  ⟨h.buf, h.override, h.f, h.erroring, h.panicking, h.reordered, h.goodArgNum, rfl, rfl, h.ne⟩
theorem Eqv.setWrappedErr {p p' : PP} (h : Eqv p p') (w : Option Nat) :
    Eqv { p with wrappedErr := w } { p' with wrappedErr := w } :=
  ⟨h.buf, h.override, h.f, h.erroring, h.panicking, h.reordered, h.goodArgNum, h.wrapErrs, rfl, h.ne⟩
theorem Eqv.setReordered {p p' : PP} (h : Eqv p p') (e : Bool) : Eqv { p with reordered := e } { p' with reordered := e } :=
  ⟨h.buf, h.override, h.f, h.erroring, h.panicking, rfl, h.goodArgNum, h.wrapErrs, h.wrappedErr, h.ne⟩
theorem Eqv.setGood {p p' : PP} (h : Eqv p p') (e : Bool) : Eqv { p with goodArgNum := e } { p' with goodArgNum := e } :=
  ⟨h.buf, h.override, h.f, h.erroring, h.panicking, h.reordered, rfl, h.wrapErrs, h.wrappedErr, h.ne⟩
theorem Eqv.setBuf {p p' : PP} (h : Eqv p p') (b : Buffer) : Eqv { p with buf := b } { p' with buf := b } :=
  ⟨rfl, h.override, h.f, h.erroring, h.panicking, h.reordered, h.goodArgNum, h.wrapErrs, h.wrappedErr, h.ne⟩
/-- The nested printer of `SafePrinter.Print/Printf`: a fresh printer sharing buffer and override. -/
theorem Eqv.nested {p p' : PP} (h : Eqv p p') :
    ({ buf := p'.buf, override := p'.override } : PP) = { buf := p.buf, override := p.override } := by
  rw [h.buf, h.override]

/-- The four `start*()`: related printers give related printers and the same restorer. -/
structure StartEqv (start : PP → PP × PP.Restorer) : Prop where
  st : ∀ p p', Eqv p p' → Eqv (start p).1 (start p').1 ∧ (start p').2 = (start p).2

theorem Eqv.restore {q q' : PP} (h : Eqv q q') (r : PP.Restorer) : Eqv (q.restore r) (q'.restore r) :=
  ⟨by simp [PP.restore, h.buf], rfl, h.f, h.erroring, h.panicking, h.reordered, h.goodArgNum, h.wrapErrs, h.wrappedErr, h.ne⟩

theorem rel_bracket {start : PP → PP × PP.Restorer} (hs : StartEqv start) {p p' : PP} (h : Eqv p p')
    {body body' : PP → Res} (hb : ∀ q q', Eqv q q' → RelR (body q) (body' q')) :
    RelR (bracket start p body) (bracket start p' body') := by
  unfold bracket
  have ⟨h1, h2⟩ := hs.st p p' h
  generalize start p = sp at h1 h2
  generalize start p' = sp' at h1 h2
  obtain ⟨q0, r⟩ := sp
  obtain ⟨q0', r'⟩ := sp'
  simp only at h1 h2 ⊢
  subst h2
  have := hb q0 q0' h1
  generalize body q0 = x at this
  generalize body' q0' = x' at this
  cases this with
  | ok hq => exact .ok (hq.restore _)
  | panic b pl => exact .panic _ _
  | fuel => exact .fuel
  | unsupported => exact .unsupported

theorem startEqv_safeOverride : StartEqv PP.startSafeOverride := by
  constructor
  intro p p' h
  unfold PP.startSafeOverride
  rw [h.override, h.buf]
  refine ⟨?_, rfl⟩
  split
  · exact ⟨rfl, rfl, h.f, h.erroring, h.panicking, h.reordered, h.goodArgNum, h.wrapErrs, h.wrappedErr, h.ne⟩
  · exact h
theorem startEqv_unsafeOverride : StartEqv PP.startUnsafeOverride := by
  constructor
  intro p p' h
  unfold PP.startUnsafeOverride
  rw [h.override, h.buf]
  refine ⟨?_, rfl⟩
  split
  · exact ⟨rfl, rfl, h.f, h.erroring, h.panicking, h.reordered, h.goodArgNum, h.wrapErrs, h.wrappedErr, h.ne⟩
  · exact h
theorem startEqv_unsafe : StartEqv PP.startUnsafe := by
  constructor
  intro p p' h
  unfold PP.startUnsafe
  rw [h.override, h.buf]
  refine ⟨?_, rfl⟩
  split
  · exact ⟨rfl, rfl, h.f, h.erroring, h.panicking, h.reordered, h.goodArgNum, h.wrapErrs, h.wrappedErr, h.ne⟩
  · exact h
theorem startEqv_preRedactable : StartEqv PP.startPreRedactable := by
  constructor
  intro p p' h
  unfold PP.startPreRedactable
  rw [h.override, h.buf]
  refine ⟨?_, rfl⟩
  split
  · exact ⟨rfl, rfl, h.f, h.erroring, h.panicking, h.reordered, h.goodArgNum, h.wrapErrs, h.wrappedErr, h.ne⟩
  · exact h

theorem relH_mk {b : Bool} {r r' : Res} (h : RelR r r') : RelH (b, r) (b, r') := ⟨rfl, h⟩

theorem rel_retOut (nr : Bool) {p p' : PP} (hp : Eqv p p') (sc : Script) {r r' : Res} (h : RelR r r') :
    RelS (retOut nr p sc r) (retOut nr p' sc r') := by
  unfold retOut
  split
  · exact .raised _ hp
  · split
    · exact .raised _ hp
    · exact .abort h

theorem eq_of_eqv {p p' : PP} (h : Eqv p p') : p' = p := by
  obtain ⟨b, o, f, e, pa, w, we, r, g⟩ := p
  obtain ⟨b', o', f', e', pa', w', we', r', g'⟩ := p'
  obtain ⟨h1, h2, h3, h4, h5, h6, h7, h8, h9, _⟩ := h
  simp only at h1 h2 h3 h4 h5 h6 h7 h8 h9
  subst h1 h2 h3 h4 h5 h6 h7 h8 h9
  rfl

theorem eqv_diag (p : PP) (h : p.erroring = false) : Eqv p p := ⟨rfl, rfl, rfl, rfl, rfl, rfl, rfl, rfl, rfl, h⟩

theorem rel_bind_same (a : Res) (k : PP → Res) (hk : ∀ q, RelR (k q) (k q)) : RelR (a.bind k) (a.bind k) := by
  cases a <;> simp only [Res.bind]
  · exact hk _
  · exact .panic _ _
  · exact .fuel
  · exact .unsupported

theorem argNumber_erroring (p : PP) (k : Nat) (f : List Byte) (n : Nat) : (argNumber p k f n).1.erroring = p.erroring := by
  unfold argNumber
  split
  · dsimp only
    repeat' split
    all_goals rfl
  · rfl

theorem widthStage_erroring (p : PP) (args : List Val) (k : Nat) (r : List Byte) (ai : Bool) :
    (widthStage p args k r ai).1.erroring = p.erroring := by
  unfold widthStage
  split
  · dsimp only
    rcases intFromArg args k with ⟨num, isInt, newArg⟩
    dsimp only
    cases isInt <;> by_cases hn : num < 0 <;>
      simp only [hn, if_true, if_false, Bool.not_false, Bool.not_true, Bool.false_eq_true] <;> rfl
  · dsimp only
    rcases parsenum r with ⟨w, wp, r'⟩
    dsimp only
    cases ai <;> cases wp <;> rfl

theorem precStage_erroring (p : PP) (args : List Val) (k : Nat) (r : List Byte) (ai : Bool) :
    (precStage p args k r ai).1.erroring = p.erroring := by
  unfold precStage
  split
  · rename_i c r''
    dsimp only
    have h0 : (if ai = true then { p with goodArgNum := false } else p).erroring = p.erroring := by cases ai <;> rfl
    have h1 := argNumber_erroring (if ai = true then { p with goodArgNum := false } else p) k (c :: r'') args.length
    rcases han : argNumber (if ai = true then { p with goodArgNum := false } else p) k (c :: r'') args.length with ⟨p1, k1, r1, ai1⟩
    rw [han] at h1
    dsimp only at h1 ⊢
    split
    · dsimp only
      rcases intFromArg args k1 with ⟨num, isInt, newArg⟩
      dsimp only
      by_cases hn : num < 0
      · simp only [hn, if_true, Bool.not_false]; exact h1.trans h0
      · cases isInt <;> simp only [hn, if_false, Bool.not_false, Bool.not_true, if_true, Bool.false_eq_true] <;> exact h1.trans h0
    · dsimp only
      rcases parsenum r1 with ⟨pr, pp, r3⟩
      exact h1.trans h0
  · rfl

/-- What is known at fuel `n` about the functions reachable from `doPrint`. -/
structure ESpec (env : Env) (n : Nat) : Prop where
  printArg : ∀ p p' v verb, Eqv p p' → verb = verb → RelR (printArg env n p v verb) (printArg env n p' v verb)
  printArgBody : ∀ p p' v verb, Eqv p p' → verb = verb → RelR (printArgBody env n p v verb) (printArgBody env n p' v verb)
  badVerb : ∀ p p' v verb via, Eqv p p' → verb = verb → RelR (badVerb env n p v verb via) (badVerb env n p' v verb via)
  handleMethods : ∀ p p' v verb, Eqv p p' → verb = verb → RelH (handleMethods env n p v verb) (handleMethods env n p' v verb)
  methDispatch : ∀ p p' v ms nr ret sc verb, Eqv p p' → verb = verb →
    RelH (methDispatch env n p v ms nr ret sc verb) (methDispatch env n p' v ms nr ret sc verb)
  fmtString : ∀ p p' v ret verb, Eqv p p' → verb = verb → RelR (fmtString env n p v ret verb) (fmtString env n p' v ret verb)
  catchPanic : ∀ (p0 p0' : PP) (arg : Val) (verb : Nat) (m : List Byte) (nr : Bool) (out out' : SRes), RelS out out' → verb = verb →
    RelR (catchPanic env n p0 arg verb m nr out) (catchPanic env n p0' arg verb m nr out')
  runScript : ∀ p p' sc, Eqv p p' → RelS (runScript env n p sc) (runScript env n p' sc)
  printValue : ∀ p p' v verb d ro, Eqv p p' → verb = verb → RelR (printValue env n p v verb d ro) (printValue env n p' v verb d ro)
  printSlot : ∀ p p' v verb d i ro, Eqv p p' → verb = verb → RelR (printSlot env n p v verb d i ro) (printSlot env n p' v verb d i ro)
  slotMethods : ∀ p p' v verb, Eqv p p' → verb = verb → RelH (slotMethods env n p v verb) (slotMethods env n p' v verb)
  printFields : ∀ p p' fs verb d ro f, Eqv p p' → verb = verb → RelR (printFields env n p fs verb d ro f) (printFields env n p' fs verb d ro f)
  printElems : ∀ p p' vs verb d i ro f, Eqv p p' → verb = verb → RelR (printElems env n p vs verb d i ro f) (printElems env n p' vs verb d i ro f)
  printPairs : ∀ p p' ks vs verb d ik iv ro f, Eqv p p' → verb = verb →
    RelR (printPairs env n p ks vs verb d ik iv ro f) (printPairs env n p' ks vs verb d ik iv ro f)
  doPrint : ∀ p p' args, Eqv p p' → RelR (doPrint env n p args) (doPrint env n p' args)
  doPrintLoop : ∀ p p' args k ps, Eqv p p' → RelR (doPrintLoop env n p args k ps) (doPrintLoop env n p' args k ps)
  doPrintf : ∀ p p' f args, Eqv p p' → NoW f → RelR (doPrintf env n p f args) (doPrintf env n p' f args)
  fmtLoop : ∀ p p' f args k ai, Eqv p p' → NoW f → RelR (fmtLoop env n p f args k ai) (fmtLoop env n p' f args k ai)
  directiveTail : ∀ p p' f args k ai, Eqv p p' → NoW f →
    RelR (directiveTail env n p f args k ai) (directiveTail env n p' f args k ai)
  finishPrintf : ∀ p p' args k, Eqv p p' → RelR (finishPrintf env n p args k) (finishPrintf env n p' args k)
  extraLoop : ∀ p p' args f, Eqv p p' → RelR (extraLoop env n p args f) (extraLoop env n p' args f)

theorem espec_zero (env : Env) : ESpec env 0 := by
  constructor <;> intros <;> simp only [printArg, printArgBody, badVerb, handleMethods, methDispatch, fmtString, catchPanic,
    runScript, printValue, printSlot, slotMethods, printFields, printElems, printPairs, doPrint, doPrintLoop,
    doPrintf, fmtLoop, directiveTail, finishPrintf, extraLoop]
  all_goals first
    | exact .fuel
    | exact ⟨rfl, .fuel⟩
    | exact .abort .fuel

variable {env : Env} {n : Nat}

set_option hygiene false in
/-- Follow the shape shared by the two runs. -/
macro "emono" : tactic => `(tactic| repeat' (first
  | with_reducible assumption
  | with_reducible exact RelR.unsupported
  | with_reducible exact RelR.fuel
  | with_reducible exact RelR.panic _ _
  | with_reducible apply Eqv.w
  | with_reducible apply Eqv.wb
  | with_reducible apply Eqv.wr
  | with_reducible apply Eqv.restore
  | with_reducible apply eqv_ite
  | with_reducible apply rel_ok
  | with_reducible apply E.printArg
  | with_reducible apply E.printArgBody
  | with_reducible apply E.badVerb
  | with_reducible apply E.handleMethods
  | with_reducible apply E.methDispatch
  | with_reducible apply E.fmtString
  | with_reducible apply E.runScript
  | with_reducible apply E.printValue
  | with_reducible apply E.printSlot
  | with_reducible apply E.slotMethods
  | with_reducible apply E.printFields
  | with_reducible apply E.printElems
  | with_reducible apply E.printPairs
  | with_reducible apply E.doPrint
  | with_reducible apply E.doPrintLoop
  | with_reducible apply E.doPrintf
  | with_reducible apply E.fmtLoop
  | with_reducible apply E.directiveTail
  | with_reducible apply E.finishPrintf
  | with_reducible apply E.extraLoop
  | with_reducible apply rel_retOut
  | with_reducible apply RelS.raised
  | with_reducible apply rel_leafWrite
  | with_reducible apply rel_ite
  | with_reducible apply rel_ite_h
  | with_reducible apply rel_ite_s
  | with_reducible apply relH_mk
  | with_reducible apply rel_bracket startEqv_safeOverride
  | with_reducible apply rel_bracket startEqv_unsafeOverride
  | with_reducible apply rel_bracket startEqv_unsafe
  | with_reducible apply rel_bracket startEqv_preRedactable
  | with_reducible apply rel_bind
  | with_reducible exact Eqv.mk rfl rfl rfl rfl rfl rfl rfl rfl rfl rfl
  | (show (_ : Nat) = _; rfl)
  | with_reducible apply Eqv.setReordered
  | with_reducible apply Eqv.setGood
  | with_reducible apply Eqv.setErroring
  | with_reducible apply Eqv.setF
  | with_reducible apply Eqv.setPanicking
  | with_reducible apply Eqv.setWrapped
  | with_reducible apply Eqv.setWrappedErr
  | with_reducible apply Eqv.setBuf
  | with_reducible apply Eqv.nested
  | (intro q q' hq; try simp only [hq.buf, hq.override, hq.f, hq.erroring, hq.panicking, hq.reordered, hq.goodArgNum, hq.wrapErrs, hq.wrappedErr, hq.ne])
  | (dsimp only)))

/-- Rewrite the second printer's fields into the first's. -/
macro "eprep" h:ident : tactic => `(tactic|
  try simp only [($h).buf, ($h).override, ($h).f, ($h).erroring, ($h).panicking, ($h).reordered, ($h).goodArgNum, ($h).wrapErrs, ($h).wrappedErr, ($h).ne])

theorem rel_leafWrite (env : Env) {p p' : PP} (h : Eqv p p') (id verb : Nat) (k : BK) (ty : List Byte) :
    RelR (leafWrite env p id verb k ty) (leafWrite env p' id verb k ty) := by
  unfold leafWrite leafWrite1
  rw [h.f]
  split
  · exact rel_ok (h.w _)
  · split
    · exact .unsupported
    · split
      · exact .unsupported
      · exact rel_bracket startEqv_unsafe h (fun q q' hq => rel_ok (hq.w _))

theorem estep_printArg (E : ESpec env n) : ∀ p p' v verb, Eqv p p' → verb = verb →
    RelR (printArg env (n + 1) p v verb) (printArg env (n + 1) p' v verb) := by
  intro p p' v verb h hv
  cases v <;> simp only [printArg] <;> emono

theorem estep_fmtString (E : ESpec env n) : ∀ p p' v ret verb, Eqv p p' → verb = verb →
    RelR (fmtString env (n + 1) p v ret verb) (fmtString env (n + 1) p' v ret verb) := by
  intro p p' v ret verb h hv
  simp only [fmtString]
  emono

theorem relH_tt {r r' : Res} (h : RelH (true, r) (true, r')) : RelR r r' := h.snd
theorem relH_ne {b b' : Bool} {r r' : Res} (h : RelH (b, r) (b', r')) (hne : b' ≠ b) : False := hne h.fst

-- `match x with | (true, r) => r | (false, _) => k` on both sides, `RelH x x'` known as `hh`
set_option hygiene false in
macro "ehandled " e:term:max e':term:max : tactic => `(tactic| (
  generalize $e = x at hh ⊢
  generalize $e' = x' at hh ⊢
  obtain ⟨b, r⟩ := x
  obtain ⟨b', r'⟩ := x'
  cases b <;> cases b' <;> dsimp only <;>
    first | exact (relH_ne hh (by decide)).elim | exact relH_tt hh | skip))

theorem estep_badVerb (E : ESpec env n) : ∀ p p' v verb via, Eqv p p' → verb = verb →
    RelR (badVerb env (n + 1) p v verb via) (badVerb env (n + 1) p' v verb via) := by
  intro p p' v verb via h hv
  have hpp : p = p' := (eq_of_eqv h).symm
  subst hpp
  unfold badVerb
  dsimp only
  -- whatever the re-print of the operand does (it runs with the flag set), the flag is cleared before returning
  exact rel_bind_same _ _ (fun q => .ok ⟨rfl, rfl, rfl, rfl, rfl, rfl, rfl, rfl, rfl, rfl⟩)

theorem estep_printArgBody (E : ESpec env n) : ∀ p p' v verb, Eqv p p' → verb = verb →
    RelR (printArgBody env (n + 1) p v verb) (printArgBody env (n + 1) p' v verb) := by
  intro p p' v verb h hv
  have hh := E.handleMethods p p' v verb h hv
  unfold printArgBody
  eprep h
  cases v with
  | leaf id k ty iv sv reg => cases k <;> simp only <;> emono
  | nil => simp only; emono
  | redactable c ty => simp only; emono
  | _ =>
    simp only
    emono
    all_goals (ehandled (handleMethods env n p _ verb) (handleMethods env n p' _ verb); emono)

theorem estep_handleMethods (E : ESpec env n) : ∀ p p' v verb, Eqv p p' → verb = verb →
    RelH (handleMethods env (n + 1) p v verb) (handleMethods env (n + 1) p' v verb) := by
  intro p p' v verb h hv
  unfold handleMethods
  eprep h
  cases v <;> simp only [hv, if_false] <;> emono

theorem estep_methDispatch (E : ESpec env n) : ∀ p p' v ms nr ret sc verb, Eqv p p' → verb = verb →
    RelH (methDispatch env (n + 1) p v ms nr ret sc verb) (methDispatch env (n + 1) p' v ms nr ret sc verb) := by
  intro p p' v ms nr ret sc verb h hv
  have cp := E.catchPanic
  unfold methDispatch
  eprep h
  emono
  all_goals first
    | (apply cp; emono)
    | (split <;> emono <;> (apply cp; emono))

theorem estep_catchPanic (E : ESpec env n) : ∀ (p0 p0' : PP) (arg : Val) (verb : Nat) (m : List Byte) (nr : Bool) (out out' : SRes),
    RelS out out' → verb = verb → RelR (catchPanic env (n + 1) p0 arg verb m nr out) (catchPanic env (n + 1) p0' arg verb m nr out') := by
  intro p0 p0' arg verb m nr out out' h hv
  unfold catchPanic
  cases h with
  | ok hq => exact .ok hq
  | abort hr => exact hr
  | raised pl hq =>
    rename_i q q'
    simp only
    eprep hq
    emono

theorem estep_runScript (E : ESpec env n) : ∀ p p' sc, Eqv p p' → RelS (runScript env (n + 1) p sc) (runScript env (n + 1) p' sc) := by
  intro p p' sc h
  unfold runScript
  cases sc with
  | done => exact .ok h
  | panic pl => exact .raised _ h
  | print args k =>
    simp only
    eprep h
    generalize doPrint env n ({ buf := p.buf, override := p.override } : PP) args.toList = r
    cases r <;> simp only
    · apply E.runScript; emono
    · exact .raised _ (by emono)
    · exact .abort .fuel
    · exact .abort .unsupported
  | printf f args k =>
    simp only
    eprep h
    generalize doPrintf env n ({ buf := p.buf, override := p.override } : PP) f args.toList = r
    cases r <;> simp only
    · apply E.runScript; emono
    · exact .raised _ (by emono)
    · exact .abort .fuel
    · exact .abort .unsupported
  | unsafeLeaf id k =>
    simp only
    split
    · exact .abort .unsupported
    · apply E.runScript
      have hs := (startEqv_unsafe.st p p' h)
      rw [hs.2]
      exact (hs.1.w _).restore _
  | indep k => simp only; exact E.runScript _ _ _ h
  | safeString s k =>
    simp only
    apply E.runScript
    have hs := (startEqv_safeOverride.st p p' h)
    rw [hs.2]
    exact (hs.1.w _).restore _
  | safeRune x k =>
    simp only
    apply E.runScript
    have hs := (startEqv_safeOverride.st p p' h)
    rw [hs.2]
    exact (hs.1.wr _).restore _
  | unsafeString s k =>
    simp only
    apply E.runScript
    have hs := (startEqv_unsafe.st p p' h)
    rw [hs.2]
    exact (hs.1.w _).restore _
  | write s k =>
    simp only
    apply E.runScript
    have hs := (startEqv_unsafe.st p p' h)
    rw [hs.2]
    exact (hs.1.w _).restore _

theorem estep_printValue (E : ESpec env n) : ∀ p p' v verb d ro, Eqv p p' → verb = verb →
    RelR (printValue env (n + 1) p v verb d ro) (printValue env (n + 1) p' v verb d ro) := by
  intro p p' v verb d ro h hv
  unfold printValue
  eprep h
  cases v <;> simp only <;> emono

theorem estep_slotMethods (E : ESpec env n) : ∀ p p' v verb, Eqv p p' → verb = verb →
    RelH (slotMethods env (n + 1) p v verb) (slotMethods env (n + 1) p' v verb) := by
  intro p p' v verb h hv
  unfold slotMethods
  eprep h
  cases v with
  | redactable c ty =>
    simp only
    emono
    have hr := E.runScript p p' (.print (.cons (.redactable c ty) .nil) .done) h
    generalize runScript env n p (.print (.cons (.redactable c ty) .nil) .done) = r at hr ⊢
    generalize runScript env n p' (.print (.cons (.redactable c ty) .nil) .done) = r' at hr ⊢
    cases hr with
    | ok hq => exact .ok hq
    | raised pl hq => simp only; rw [hq.buf]; exact .panic _ _
    | abort hr => exact hr
  | _ => simp only <;> emono

theorem estep_printFields (E : ESpec env n) : ∀ p p' fs verb d ro f, Eqv p p' → verb = verb →
    RelR (printFields env (n + 1) p fs verb d ro f) (printFields env (n + 1) p' fs verb d ro f) := by
  intro p p' fs verb d ro f h hv
  unfold printFields
  eprep h
  cases fs with
  | nil => simp only; emono
  | cons name exported it v rest =>
    simp only
    have g1 : Eqv (if f = true then p else if p.f.sharpV = true then p.w ([0x2C, 0x20] /- ", " -/ : List UInt8) else p.wb 0x20)
        (if f = true then p' else if p.f.sharpV = true then p'.w ([0x2C, 0x20] /- ", " -/ : List UInt8) else p'.wb 0x20) := by emono
    generalize (if f = true then p else if p.f.sharpV = true then p.w ([0x2C, 0x20] /- ", " -/ : List UInt8) else p.wb 0x20) = p1 at g1 ⊢
    generalize (if f = true then p' else if p.f.sharpV = true then p'.w ([0x2C, 0x20] /- ", " -/ : List UInt8) else p'.wb 0x20) = p1' at g1 ⊢
    eprep g1
    emono

theorem estep_printElems (E : ESpec env n) : ∀ p p' vs verb d i ro f, Eqv p p' → verb = verb →
    RelR (printElems env (n + 1) p vs verb d i ro f) (printElems env (n + 1) p' vs verb d i ro f) := by
  intro p p' vs verb d i ro f h hv
  unfold printElems
  eprep h
  cases vs <;> simp only <;> emono

theorem estep_printPairs (E : ESpec env n) : ∀ p p' ks vs verb d ik iv ro f, Eqv p p' → verb = verb →
    RelR (printPairs env (n + 1) p ks vs verb d ik iv ro f) (printPairs env (n + 1) p' ks vs verb d ik iv ro f) := by
  intro p p' ks vs verb d ik iv ro f h hv
  unfold printPairs
  eprep h
  cases ks <;> cases vs <;> simp only <;> emono

theorem estep_doPrint (E : ESpec env n) : ∀ p p' args, Eqv p p' → RelR (doPrint env (n + 1) p args) (doPrint env (n + 1) p' args) := by
  intro p p' args h
  unfold doPrint
  eprep h
  emono

theorem estep_doPrintLoop (E : ESpec env n) : ∀ p p' args k ps, Eqv p p' →
    RelR (doPrintLoop env (n + 1) p args k ps) (doPrintLoop env (n + 1) p' args k ps) := by
  intro p p' args k ps h
  unfold doPrintLoop
  eprep h
  cases args <;> simp only <;> emono

theorem estep_printSlot (E : ESpec env n) : ∀ p p' v verb d i ro, Eqv p p' → verb = verb →
    RelR (printSlot env (n + 1) p v verb d i ro) (printSlot env (n + 1) p' v verb d i ro) := by
  intro p p' v verb d i ro h hv
  have noMethod : ∀ q3 q3', Eqv q3 q3' →
      RelR (if i = true then printSlot env n q3 v verb (d + 1) false ro else printValue env n q3 v verb d ro)
        (if i = true then printSlot env n q3' v verb (d + 1) false ro else printValue env n q3' v verb d ro) := by
    intro q3 q3' h3; emono
  have afterMethods : ∀ q2 q2', Eqv q2 q2' →
      RelR (if (!ro) = true then
        match slotMethods env n q2 v verb with
        | (true, r) => r
        | (false, _) => (if i = true then printSlot env n q2 v verb (d + 1) false ro else printValue env n q2 v verb d ro)
      else (if i = true then printSlot env n q2 v verb (d + 1) false ro else printValue env n q2 v verb d ro))
      (if (!ro) = true then
        match slotMethods env n q2' v verb with
        | (true, r) => r
        | (false, _) => (if i = true then printSlot env n q2' v verb (d + 1) false ro else printValue env n q2' v verb d ro)
      else (if i = true then printSlot env n q2' v verb (d + 1) false ro else printValue env n q2' v verb d ro)) := by
    intro q2 q2' h2
    apply rel_ite _ (noMethod q2 q2' h2)
    have hh := E.slotMethods q2 q2' v verb h2 hv
    ehandled (slotMethods env n q2 v verb) (slotMethods env n q2' v verb)
    exact noMethod q2 q2' h2
  have body : ∀ q q', Eqv q q' →
      RelR (if (!ro) = true ∧ isSafeValue v = true then bracket PP.startSafeOverride q (fun q2 =>
          if (!ro) = true then
            match slotMethods env n q2 v verb with
            | (true, r) => r
            | (false, _) => (if i = true then printSlot env n q2 v verb (d + 1) false ro else printValue env n q2 v verb d ro)
          else (if i = true then printSlot env n q2 v verb (d + 1) false ro else printValue env n q2 v verb d ro))
       else
          if (!ro) = true then
            match slotMethods env n q v verb with
            | (true, r) => r
            | (false, _) => (if i = true then printSlot env n q v verb (d + 1) false ro else printValue env n q v verb d ro)
          else (if i = true then printSlot env n q v verb (d + 1) false ro else printValue env n q v verb d ro))
      (if (!ro) = true ∧ isSafeValue v = true then bracket PP.startSafeOverride q' (fun q2 =>
          if (!ro) = true then
            match slotMethods env n q2 v verb with
            | (true, r) => r
            | (false, _) => (if i = true then printSlot env n q2 v verb (d + 1) false ro else printValue env n q2 v verb d ro)
          else (if i = true then printSlot env n q2 v verb (d + 1) false ro else printValue env n q2 v verb d ro))
       else
          if (!ro) = true then
            match slotMethods env n q' v verb with
            | (true, r) => r
            | (false, _) => (if i = true then printSlot env n q' v verb (d + 1) false ro else printValue env n q' v verb d ro)
          else (if i = true then printSlot env n q' v verb (d + 1) false ro else printValue env n q' v verb d ro)) := by
    intro q q' hq
    exact rel_ite (rel_bracket startEqv_safeOverride hq afterMethods) (afterMethods q q' hq)
  unfold printSlot
  eprep h
  cases v with
  | nil => simp only; emono
  | safeW w =>
    cases i <;> simp only [Bool.false_eq_true, if_false, if_true]
    · emono
    · exact rel_ite (rel_bracket startEqv_safeOverride h body) (body p p' h)
  | unsafeW w =>
    cases i <;> simp only [Bool.false_eq_true, if_false, if_true]
    · emono
    · exact rel_ite (rel_bracket startEqv_safeOverride h body) (body p p' h)
  | redactable c ty =>
    cases i <;> simp only [Bool.false_eq_true, if_false, if_true]
    · emono
    · exact rel_ite (rel_bracket startEqv_safeOverride h body) (body p p' h)
  | _ =>
    simp only
    split
    · rename_i r hspecial
      split at hspecial <;> cases hspecial
    · exact rel_ite (rel_bracket startEqv_safeOverride h body) (body p p' h)

theorem estep_doPrintf (E : ESpec env n) : ∀ p p' f args, Eqv p p' → NoW f →
    RelR (doPrintf env (n + 1) p f args) (doPrintf env (n + 1) p' f args) := by
  intro p p' f args h hf
  unfold doPrintf
  eprep h
  emono

theorem estep_finishPrintf (E : ESpec env n) : ∀ p p' args k, Eqv p p' →
    RelR (finishPrintf env (n + 1) p args k) (finishPrintf env (n + 1) p' args k) := by
  intro p p' args k h
  unfold finishPrintf
  eprep h
  emono

theorem estep_extraLoop (E : ESpec env n) : ∀ p p' args f, Eqv p p' →
    RelR (extraLoop env (n + 1) p args f) (extraLoop env (n + 1) p' args f) := by
  intro p p' args f h
  unfold extraLoop
  cases args with
  | nil => exact rel_ok h
  | cons a rest =>
    simp only
    apply rel_bind _ (fun q q' hq => E.extraLoop _ _ _ _ hq)
    cases a <;> simp only <;> emono

theorem estep_fmtLoop (E : ESpec env n) : ∀ p p' f args k ai, Eqv p p' → NoW f →
    RelR (fmtLoop env (n + 1) p f args k ai) (fmtLoop env (n + 1) p' f args k ai) := by
  intro p p' f args k ai h hf
  unfold fmtLoop
  dsimp only
  eprep h
  have hrest : (f.dropWhile (· ≠ 0x25)) <:+ f := List.dropWhile_suffix _
  by_cases hl : (List.takeWhile (fun x => decide (x ≠ 37)) f).isEmpty = true
  all_goals simp only [hl, if_true, if_false, Bool.false_eq_true]
  all_goals split
  all_goals first
    | (emono; done)
    | (rename_i c r0 heq
       have hr0 : NoW r0 := hf.suffix ((List.suffix_cons _ _).trans (heq ▸ hrest))
       have hpf := parseFlags_suffix true {} r0
       generalize parseFlags true {} r0 = pf at hpf
       obtain ⟨fs, r1⟩ := pf
       dsimp only at hpf ⊢
       have hr1 : NoW r1 := hr0.suffix hpf
       split
       · rename_i c2 r2
         have hr2 : NoW r2 := hr1.suffix (List.suffix_cons _ _)
         split
         · rename_i hcond
           have hv : c2.toNat = c2.toNat := rfl
           emono
           split <;> emono
         · emono
       · emono)

theorem estep_directiveTail (E : ESpec env n) : ∀ p p' f args k ai, Eqv p p' → NoW f →
    RelR (directiveTail env (n + 1) p f args k ai) (directiveTail env (n + 1) p' f args k ai) := by
  intro p p' f args k ai h hf
  have hne := h.ne
  have hpp : p = p' := (eq_of_eqv h).symm
  subst hpp
  unfold directiveTail
  dsimp only
  have e1 := argNumber_erroring p k f args.length
  rcases h1 : argNumber p k f args.length with ⟨p1, k1, r1, ai1⟩
  rw [h1] at e1
  dsimp only at e1 ⊢
  have e2 := widthStage_erroring p1 args k1 r1 ai1
  rcases h2 : widthStage p1 args k1 r1 ai1 with ⟨p2, k2, r2, ai2⟩
  rw [h2] at e2
  dsimp only at e2 ⊢
  have e3 := precStage_erroring p2 args k2 r2 ai2
  rcases h3 : precStage p2 args k2 r2 ai2 with ⟨p3, k3, r3, ai3⟩
  rw [h3] at e3
  dsimp only at e3 ⊢
  have e4 : (if (!ai3) = true then argNumber p3 k3 r3 args.length else (p3, k3, r3, ai3)).1.erroring = p3.erroring := by
    cases ai3
    · simp only [Bool.not_false, if_true]; exact argNumber_erroring _ _ _ _
    · rfl
  rcases h4 : (if (!ai3) = true then argNumber p3 k3 r3 args.length else (p3, k3, r3, ai3)) with ⟨p4, k4, r4, ai4⟩
  rw [h4] at e4
  dsimp only at e4 ⊢
  have hq : Eqv p4 p4 := eqv_diag p4 (by rw [e4, e3, e2, e1]; exact hne)
  split
  · emono
  · rename_i verb r' hd
    have hv : verb = verb := rfl
    have hr' : NoW r' := trivial
    emono
    split <;> emono

/-- **Every function of the printer, entered with `erroring = false`, returns with `erroring = false`**, at every fuel. -/
theorem espec_all (env : Env) : ∀ n, ESpec env n := by
  intro n
  induction n with
  | zero => exact espec_zero env
  | succ n ih =>
    exact {
      printArg := estep_printArg ih
      printArgBody := estep_printArgBody ih
      badVerb := estep_badVerb ih
      handleMethods := estep_handleMethods ih
      methDispatch := estep_methDispatch ih
      fmtString := estep_fmtString ih
      catchPanic := estep_catchPanic ih
      runScript := estep_runScript ih
      printValue := estep_printValue ih
      printSlot := estep_printSlot ih
      slotMethods := estep_slotMethods ih
      printFields := estep_printFields ih
      printElems := estep_printElems ih
      printPairs := estep_printPairs ih
      doPrint := estep_doPrint ih
      doPrintLoop := estep_doPrintLoop ih
      doPrintf := estep_doPrintf ih
      fmtLoop := estep_fmtLoop ih
      directiveTail := estep_directiveTail ih
      finishPrintf := estep_finishPrintf ih
      extraLoop := estep_extraLoop ih }

theorem ok_of_rel {r : Res} {q : PP} (h : RelR r r) (hr : r = .ok q) : q.erroring = false := by
  subst hr
  cases h with
  | ok hq => exact hq.ne

/-- An operand printed with the flag clear leaves it clear — whatever the operand, its methods and the verb (a bad
verb sets it while the operand is printed again, and clears it). -/
theorem printArg_clear (env : Env) (n : Nat) (p : PP) (v : Val) (verb : Nat) (hp : p.erroring = false) (q : PP)
    (h : printArg env n p v verb = .ok q) : q.erroring = false :=
  ok_of_rel ((espec_all env n).printArg p p v verb (eqv_diag p hp) rfl) h

theorem doPrint_clear (env : Env) (n : Nat) (p : PP) (args : List Val) (hp : p.erroring = false) (q : PP)
    (h : doPrint env n p args = .ok q) : q.erroring = false :=
  ok_of_rel ((espec_all env n).doPrint p p args (eqv_diag p hp)) h

theorem doPrintf_clear (env : Env) (n : Nat) (p : PP) (f : List Byte) (args : List Val) (hp : p.erroring = false) (q : PP)
    (h : doPrintf env n p f args = .ok q) : q.erroring = false :=
  ok_of_rel ((espec_all env n).doPrintf p p f args (eqv_diag p hp) trivial) h

/-- The loop of `doPrintf` from any position: the operands of the rest of the format are all reached with the flag clear
when the position is (`fmtLoop` is what runs after each operand). -/
theorem fmtLoop_clear (env : Env) (n : Nat) (p : PP) (f : List Byte) (args : List Val) (k : Nat) (ai : Bool)
    (hp : p.erroring = false) (q : PP) (h : fmtLoop env n p f args k ai = .ok q) : q.erroring = false :=
  ok_of_rel ((espec_all env n).fmtLoop p p f args k ai (eqv_diag p hp) trivial) h

end Redact.EqE
