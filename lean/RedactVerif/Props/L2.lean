import RedactVerif.Proofs.PrinterInv
/-
Property-level consequences of the printer frame theorem (`spec_all`), shared
by the per-property files.
-/
namespace Redact

theorem pre_newPP : Pre newPP := ⟨inv_init, by decide⟩

/-- The state a top-level entry point starts from, with any values of the
bookkeeping fields (`wrapErrs` for HelperForErrorf). -/
theorem pre_entry (p : PP) (hb : p.buf = Buffer.init) : Pre p := by
  unfold Pre; rw [hb]; exact ⟨inv_init, by decide⟩

/-- Sprintf/Fprintf/HelperForErrorf: if the call returns (no propagating panic),
its output is an obtainable redactable and the printer's override is untouched. -/
theorem doPrintf_out (env : Env) (he : EnvOk env) (n : Nat) (p : PP) (hp : Pre p) (f : List Byte) (args : List Val)
    (ha : ListOk args) (q : PP) (h : doPrintf env n p f args = .ok q) :
    Obtainable q.buf.redactableBytes ∧ q.override = p.override := by
  have ⟨i, _, o⟩ := ((spec_all env he n).doPrintf p f args hp ha).1 q h
  exact ⟨obtainable_finalize _ i, o⟩

theorem doPrint_out (env : Env) (he : EnvOk env) (n : Nat) (p : PP) (hp : Pre p) (args : List Val)
    (ha : ListOk args) (q : PP) (h : doPrint env n p args = .ok q) :
    Obtainable q.buf.redactableBytes ∧ q.override = p.override := by
  have ⟨i, _, o⟩ := ((spec_all env he n).doPrint p args hp ha).1 q h
  exact ⟨obtainable_finalize _ i, o⟩

end Redact
