import RedactVerif.Generated.Trans
import RedactVerif.Proofs.Escape
import RedactVerif.Props.TransBuffer
/-
The tie for `internal/escape/escape.go` by translation. `Generated/Trans.lean` holds
`InternalEscapeBytes` — its three loops, the lazy-copy bookkeeping (`res`, `copied`, `k`), the index
arithmetic (`i += ls - 1`, `i = lastNewLine - 1`, look-ahead bounds) — as the translator reads it off
/repo on every run, every index and slice expression guarded by its definedness. Here it is proved,
for every byte string, every start offset within it and both flags, to return — without panicking
and within its fuel — what the model's `escapeBytesAt` returns: the function that `escGo_refines`
(Proofs/Escape.lean) relates to the token-level specification, and on which C01/C03/C10 rest.

Structure: `scanIdx` is the main loop on natural-number indexes; `loop2_eq_scanIdx` shows the
translated loop computes it (unfolding the generated code); `scanIdx_spec` relates it to `escGo`
(the mathematical content: the loop invariant "output so far = res ++ b[k:i]").
-/
namespace Redact

/-- Length of the run of line feeds at the head. -/
def lfRun : List Byte → Nat
  | 0x0A :: r => lfRun r + 1
  | _ => 0

theorem lfRun_le (l : List Byte) : lfRun l ≤ l.length := by
  fun_induction lfRun l <;> simp <;> omega

/-- The head run is line feeds, and what follows does not start with one. -/
theorem lfRun_split (l : List Byte) :
    l = List.replicate (lfRun l) LF ++ l.drop (lfRun l) ∧ (l.drop (lfRun l)).head? ≠ some LF := by
  fun_induction lfRun l with
  | case1 r ih =>
    constructor
    · simp only [List.replicate_succ, List.cons_append, List.drop_succ_cons]
      have := ih.1
      exact congrArg (LF :: ·) this
    · simpa using ih.2
  | case2 l h =>
    refine ⟨by simp, ?_⟩
    simp only [List.drop_zero]
    intro hh
    cases l with
    | nil => simp at hh
    | cons x r =>
      simp only [List.head?_cons, Option.some.injEq] at hh
      exact h r (by rw [hh]; rfl)

/-- What the scanner does at a line feed: close the envelope, or drop a start marker just written. -/
def closeOrElide (out : List Byte) : List Byte :=
  if hasSuffix out startB then dropLast 3 out else out ++ endB

/-- A whole run of line feeds at once (the Go code) is the same as one at a time (`escGo`). -/
theorem escGo_lf_run (n : Nat) (out rest : List Byte) :
    escGo true out (List.replicate (n + 1) LF ++ rest) =
      escGo true (closeOrElide out ++ List.replicate (n + 1) LF ++ startB) rest := by
  induction n generalizing out with
  | zero =>
    show escGo true out (LF :: rest) = _
    rw [escGo.eq_4]
    · simp [closeOrElide, LF]
    · intro r h; simp [LF] at h
    · intro r h; simp [LF] at h
  | succ n ih =>
    rw [List.replicate_succ, List.cons_append]
    rw [escGo.eq_4]
    · simp only [Bool.true_and, beq_self_eq_true, if_true]
      rw [ih]
      congr 1
      have h1 : closeOrElide ((if hasSuffix out startB = true then dropLast 3 out else out ++ endB) ++ [LF] ++ startB) =
          (if hasSuffix out startB = true then dropLast 3 out else out ++ endB) ++ [LF] := by
        unfold closeOrElide
        have : hasSuffix ((if hasSuffix out startB = true then dropLast 3 out else out ++ endB) ++ [LF] ++ startB) startB = true := by
          rw [hasSuffix_iff]; exact ⟨_, rfl⟩
        rw [if_pos this]
        generalize (if hasSuffix out startB = true then dropLast 3 out else out ++ endB) = o
        have : o ++ [LF] ++ startB = (o ++ [LF]) ++ [0xE2, 0x80, 0xB9] := by simp [startB]
        rw [this, dropLast_append_three]
      rw [h1]
      simp [closeOrElide, List.replicate_succ]
    · intro r h; simp [LF] at h
    · intro r h; simp [LF] at h

/-- `res` once the lazy copy has been made (`if !copied { res = make([]byte, 0, …) }`). -/
def matRes (copied : Bool) (res : List Byte) : List Byte := if copied then res else []

/-- `b[i:j]`. -/
def sl (b : List Byte) (i j : Nat) : List Byte := (b.take j).drop i

/-- The scanner's main loop on natural-number indexes. -/
def scanIdx (b : List Byte) (nl : Bool) : Nat → Nat → Nat → Bool → List Byte → Option (Nat × Bool × List Byte)
  | 0, _, _, _, _ => none
  | fuel + 1, i, k, copied, res =>
    if i < b.length then
      if nl && b.getD i 0 == LF then
        let j := i + lfRun (b.drop i)
        scanIdx b nl fuel j j true (closeOrElide (matRes copied res ++ sl b k i) ++ sl b i j ++ startB)
      else if decide (i + 3 ≤ b.length) && sl b i (i + 3) == startB then
        scanIdx b nl fuel (i + 3) (i + 3) true (matRes copied res ++ sl b k i ++ escB)
      else if decide (i + 3 ≤ b.length) && sl b i (i + 3) == endB then
        scanIdx b nl fuel (i + 3) (i + 3) true (matRes copied res ++ sl b k i ++ escB)
      else scanIdx b nl fuel (i + 1) k copied res
    else some (k, copied, res)

/-- The output so far: `res ++ b[k:i]` once copied, `b[:i]` before. -/
def accOf (b : List Byte) (i k : Nat) (copied : Bool) (res : List Byte) : List Byte :=
  if copied then res ++ sl b k i else b.take i

theorem sl_self (b : List Byte) (i : Nat) : sl b i i = [] := by
  unfold sl; simp

theorem sl_eq_take_drop (b : List Byte) (i n : Nat) : sl b i (i + n) = (b.drop i).take n := by
  unfold sl
  rw [List.drop_take]
  simp

theorem sl_snoc (b : List Byte) (k i : Nat) (hk : k ≤ i) (hi : i < b.length) :
    sl b k (i + 1) = sl b k i ++ [b.getD i 0] := by
  unfold sl
  have : b.take (i + 1) = b.take i ++ [b.getD i 0] := by
    rw [List.take_succ]
    simp [List.getD, List.getElem?_eq_getElem hi]
  rw [this, List.drop_append_of_le_length (by simp; omega)]

theorem drop_cons_getD (b : List Byte) (i : Nat) (hi : i < b.length) : b.drop i = b.getD i 0 :: b.drop (i + 1) := by
  rw [List.drop_eq_getElem_cons hi]
  simp [List.getD, List.getElem?_eq_getElem hi]

theorem accOf_zero_take (b : List Byte) (i k : Nat) (res : List Byte) (hk : k = 0) :
    matRes false res ++ sl b k i = b.take i := by
  subst hk; simp [matRes, sl]

theorem mat_acc (b : List Byte) (i k : Nat) (copied : Bool) (res : List Byte) (h0 : copied = false → k = 0) :
    matRes copied res ++ sl b k i = accOf b i k copied res := by
  unfold accOf
  cases copied with
  | true => simp [matRes]
  | false => simp only [Bool.false_eq_true, if_false]; exact accOf_zero_take b i k res (h0 rfl)

theorem take3_eq {l : List Byte} {a b c : Byte} (h : l.take 3 = [a, b, c]) : l = a :: b :: c :: l.drop 3 := by
  match l, h with
  | x :: y :: z :: r, h => simp at h; obtain ⟨rfl, rfl, rfl⟩ := h; simp

/-- One plain byte: neither a line feed to split at nor the start of a marker. -/
theorem escGo_plain (nl : Bool) (out : List Byte) (x : Byte) (r : List Byte)
    (hlf : (nl && x == LF) = false)
    (h1 : (x :: r).take 3 ≠ startB) (h2 : (x :: r).take 3 ≠ endB) :
    escGo nl out (x :: r) = escGo nl (out ++ [x]) r := by
  rw [escGo.eq_4]
  · simp [hlf]
  · intro r' hx hr; subst hx hr; exact h1 (by simp [startB])
  · intro r' hx hr; subst hx hr; exact h2 (by simp [endB])

/-- **The loop invariant**: the index-level loop computes `escGo` on what is left of the input,
starting from the output so far. -/
theorem scanIdx_spec (b : List Byte) (nl : Bool) : ∀ (fuel i k : Nat) (copied : Bool) (res : List Byte),
    k ≤ i → i ≤ b.length → (copied = false → k = 0) → b.length - i < fuel →
    ∃ k' c' res', scanIdx b nl fuel i k copied res = some (k', c', res') ∧ k' ≤ b.length ∧ (c' = false → k' = 0) ∧
      accOf b b.length k' c' res' = escGo nl (accOf b i k copied res) (b.drop i) := by
  intro fuel
  induction fuel with
  | zero => intro i k copied res _ _ _ hf; omega
  | succ fuel ih =>
    intro i k copied res hk hi h0 hf
    unfold scanIdx
    by_cases hlt : i < b.length
    · rw [if_pos hlt]
      have hdrop := drop_cons_getD b i hlt
      by_cases hlf : (nl && b.getD i 0 == LF) = true
      · -- a run of line feeds
        rw [if_pos hlf]
        simp only [Bool.and_eq_true, beq_iff_eq] at hlf
        obtain ⟨hnl, hx⟩ := hlf
        subst hnl
        have hsplit := lfRun_split (b.drop i)
        have hn : 1 ≤ lfRun (b.drop i) := by
          rw [hdrop, hx]; simp [lfRun, LF]
        have hle := lfRun_le (b.drop i)
        simp only [List.length_drop] at hle
        obtain ⟨n, hn'⟩ : ∃ n, lfRun (b.drop i) = n + 1 := ⟨lfRun (b.drop i) - 1, by omega⟩
        have hj : i + lfRun (b.drop i) ≤ b.length := by omega
        obtain ⟨k', c', res', e, hk', hc', hacc⟩ := ih (i + lfRun (b.drop i)) (i + lfRun (b.drop i)) true
          (closeOrElide (matRes copied res ++ sl b k i) ++ sl b i (i + lfRun (b.drop i)) ++ startB)
          (Nat.le_refl _) hj (by simp) (by omega)
        refine ⟨k', c', res', e, hk', hc', ?_⟩
        rw [hacc]
        have hrun : sl b i (i + lfRun (b.drop i)) = List.replicate (lfRun (b.drop i)) LF := by
          rw [sl_eq_take_drop]
          have h1 := hsplit.1
          generalize lfRun (b.drop i) = m at h1 ⊢
          generalize b.drop i = d at h1 ⊢
          rw [h1]
          exact List.take_left' (by simp)
        have hrest : b.drop (i + lfRun (b.drop i)) = (b.drop i).drop (lfRun (b.drop i)) := by
          rw [List.drop_drop]
        conv => rhs; rw [hsplit.1, hn', escGo_lf_run]
        simp only [accOf, if_true, sl_self, List.append_nil]
        rw [hrun, hrest, hn', mat_acc b i k copied res h0]
        rfl
      · rw [if_neg hlf]
        have hlf' : (nl && b.getD i 0 == LF) = false := by simpa using hlf
        by_cases hs : (decide (i + 3 ≤ b.length) && sl b i (i + 3) == startB) = true
        · -- a start marker in the data
          rw [if_pos hs]
          simp only [Bool.and_eq_true, decide_eq_true_eq, beq_iff_eq] at hs
          obtain ⟨hb3, hm⟩ := hs
          rw [sl_eq_take_drop] at hm
          have hd := take3_eq (l := b.drop i) (by rw [hm]; rfl)
          obtain ⟨k', c', res', e, hk', hc', hacc⟩ := ih (i + 3) (i + 3) true (matRes copied res ++ sl b k i ++ escB)
            (Nat.le_refl _) hb3 (by simp) (by omega)
          refine ⟨k', c', res', e, hk', hc', ?_⟩
          rw [hacc]
          conv => rhs; rw [hd, escGo.eq_2]
          simp only [accOf, if_true, sl_self, List.append_nil, List.drop_drop]
          rw [mat_acc b i k copied res h0]
          rfl
        · rw [if_neg hs]
          by_cases he : (decide (i + 3 ≤ b.length) && sl b i (i + 3) == endB) = true
          · rw [if_pos he]
            simp only [Bool.and_eq_true, decide_eq_true_eq, beq_iff_eq] at he
            obtain ⟨hb3, hm⟩ := he
            rw [sl_eq_take_drop] at hm
            have hd := take3_eq (l := b.drop i) (by rw [hm]; rfl)
            obtain ⟨k', c', res', e, hk', hc', hacc⟩ := ih (i + 3) (i + 3) true (matRes copied res ++ sl b k i ++ escB)
              (Nat.le_refl _) hb3 (by simp) (by omega)
            refine ⟨k', c', res', e, hk', hc', ?_⟩
            rw [hacc]
            conv => rhs; rw [hd, escGo.eq_3]
            simp only [accOf, if_true, sl_self, List.append_nil, List.drop_drop]
            rw [mat_acc b i k copied res h0]
            rfl
          · -- an ordinary byte
            rw [if_neg he]
            obtain ⟨k', c', res', e, hk', hc', hacc⟩ := ih (i + 1) k copied res (by omega) hlt h0 (by omega)
            refine ⟨k', c', res', e, hk', hc', ?_⟩
            rw [hacc]
            have hnots : (b.drop i).take 3 ≠ startB := by
              intro hm
              apply hs
              have hlen : 3 ≤ (b.drop i).length := by
                have := congrArg List.length hm
                simp only [List.length_take, startB] at this
                simp only [List.length_cons, List.length_nil] at this
                omega
              simp only [List.length_drop] at hlen
              simp only [Bool.and_eq_true, decide_eq_true_eq, beq_iff_eq]
              exact ⟨by omega, by rw [sl_eq_take_drop]; exact hm⟩
            have hnote : (b.drop i).take 3 ≠ endB := by
              intro hm
              apply he
              have hlen : 3 ≤ (b.drop i).length := by
                have := congrArg List.length hm
                simp only [List.length_take, endB] at this
                simp only [List.length_cons, List.length_nil] at this
                omega
              simp only [List.length_drop] at hlen
              simp only [Bool.and_eq_true, decide_eq_true_eq, beq_iff_eq]
              exact ⟨by omega, by rw [sl_eq_take_drop]; exact hm⟩
            rw [hdrop] at hnots hnote
            conv => rhs; rw [hdrop, escGo_plain nl _ _ _ hlf' hnots hnote]
            congr 1
            unfold accOf
            cases copied with
            | true => simp only [if_true]; rw [sl_snoc b k i hk hlt]; simp
            | false =>
              simp only [Bool.false_eq_true, if_false]
              rw [List.take_succ]
              simp [List.getD, List.getElem?_eq_getElem hlt]
    · rw [if_neg hlt]
      have hi' : i = b.length := by omega
      subst hi'
      refine ⟨k, copied, res, rfl, by omega, h0, ?_⟩
      simp [escGo]

/-! ### The translated loops compute the index-level functions -/

open Trans in
/-- The translated function's variables during the main loop. -/
def mkV (b : List Byte) (sl0 : Int) (nl st : Bool) (e1 i0 : Int) (copied : Bool) (res : List Byte) (k i : Nat) (ln r0 s0 : Int) :
    InternalEscapeBytes.Vars :=
  { b := b, startLoc := sl0, breakNewLines := nl, strip := st, res := res, start := startB, ls := 3, end' := endB, le := 3,
    escape := escB, end'_1 := e1, i := i0, copied := copied, k := (k : Int), i_1 := (i : Int), lastNewLine := ln, r := r0, s := s0 }

theorem goIndex_nat (l : List Byte) (i : Nat) : goIndex l (i : Int) = l.getD i 0 := by
  simp [goIndex]

theorem goInRange_nat (l : List Byte) (i : Nat) : goInRange l (i : Int) = decide (i < l.length) := by
  simp [goInRange]

theorem goSlice_nat (l : List Byte) (a c : Nat) (h : a ≤ c) (hc : c ≤ l.length) : goSlice l (a : Int) (c : Int) = sl l a c := by
  unfold goSlice sl
  have : (0 : Int) ≤ (a : Int) ∧ (a : Int) ≤ (c : Int) ∧ (c : Int).toNat ≤ l.length := ⟨by omega, by omega, by simpa using hc⟩
  rw [if_pos this]; simp

theorem goSliceOK_nat (l : List Byte) (a c : Nat) (h : a ≤ c) (hc : c ≤ l.length) : goSliceOK l (a : Int) (c : Int) = true := by
  unfold goSliceOK
  simp; omega

theorem goSliceFrom_nat (l : List Byte) (a : Nat) (h : a ≤ l.length) : goSliceFrom l (a : Int) = l.drop a := by
  unfold goSliceFrom
  have : (0 : Int) ≤ (a : Int) ∧ (a : Int).toNat ≤ l.length := ⟨by omega, by simpa using h⟩
  rw [if_pos this]; simp

/-- The inner loop: advance `lastNewLine` over the run of line feeds. -/
theorem loop3_spec (b : List Byte) : ∀ (fuel : Nat) (v : Trans.InternalEscapeBytes.Vars) (j : Nat),
    v.b = b → v.lastNewLine = (j : Int) → j ≤ b.length → b.length - j < fuel →
    Trans.InternalEscapeBytes.loop3 fuel v = some { v with lastNewLine := ((j + lfRun (b.drop j) : Nat) : Int) } := by
  intro fuel
  induction fuel with
  | zero => intro v j _ _ _ hf; omega
  | succ fuel ih =>
    intro v j hb hl hj hf
    rcases v with ⟨vb, f2, f3, f4, f5, f6, f7, f8, f9, f10, f11, f12, f13, f14, f15, ln, f17, f18⟩
    simp only at hb hl
    subst hb hl
    unfold Trans.InternalEscapeBytes.loop3
    simp only [goLen, goInRange_nat, goIndex_nat]
    by_cases hlt : j < vb.length
    · have hc : (j : Int) < (vb.length : Int) := by omega
      have hd := drop_cons_getD vb j hlt
      by_cases hx : vb.getD j 0 = 10
      · have hrun : lfRun (vb.drop j) = lfRun (vb.drop (j + 1)) + 1 := by
          rw [hd, hx]; rfl
        have := ih ⟨vb, f2, f3, f4, f5, f6, f7, f8, f9, f10, f11, f12, f13, f14, f15, (j : Int) + 1, f17, f18⟩ (j + 1) rfl
          (by simp) (by omega) (by omega)
        simp only [goGuard, hc, hlt, hx, decide_true, Bool.not_true, Bool.false_or, Bool.true_and, if_true, beq_self_eq_true,
          Bool.false_eq_true, if_false, Option.pure_def, Option.bind_eq_bind, Option.bind_some, Bool.and_self, Bool.or_self]
        rw [this, hrun]
        simp only [Option.some.injEq, Trans.InternalEscapeBytes.Vars.mk.injEq, true_and, and_true]
        omega
      · have hrun : lfRun (vb.drop j) = 0 := by
          rw [hd]
          unfold lfRun
          split
          · rename_i r heq
            simp only [List.cons.injEq] at heq
            exact absurd heq.1 hx
          · rfl
        have hx' : (vb.getD j 0 == 10) = false := by simpa using hx
        simp only [goGuard, hc, hlt, hx', decide_true, Bool.not_true, Bool.false_or, Bool.true_and, if_true,
          Bool.false_eq_true, if_false, Option.pure_def, Option.bind_eq_bind, Option.bind_some, Bool.and_false, Bool.not_false, hrun,
          Nat.add_zero]
    · have hc : ¬ (j : Int) < (vb.length : Int) := by omega
      have hrun : lfRun (vb.drop j) = 0 := by
        have : vb.drop j = [] := List.drop_eq_nil_of_le (by omega)
        rw [this]; rfl
      simp only [goGuard, hc, decide_false, Bool.not_false, Bool.true_or, if_true, Bool.false_and, Option.pure_def,
        Option.bind_eq_bind, Option.bind_some, hrun, Nat.add_zero]

open Trans

theorem goSlice_nat3 (l : List Byte) (i : Nat) (h : i + 3 ≤ l.length) : goSlice l (i : Int) ((i : Int) + 3) = sl l i (i + 3) := by
  have := goSlice_nat l i (i + 3) (by omega) h
  simpa using this

theorem goSliceOK_nat3 (l : List Byte) (i : Nat) (h : i + 3 ≤ l.length) : goSliceOK l (i : Int) ((i : Int) + 3) = true := by
  have := goSliceOK_nat l i (i + 3) (by omega) h
  simpa using this

/-- The guard and the test of a 3-byte look-ahead, on naturals. -/
theorem look3 (b : List Byte) (i : Nat) (m : List Byte) :
    ((!decide ((i : Int) + 3 ≤ (b.length : Int)) || goSliceOK b (i : Int) ((i : Int) + 3)) = true) ∧
    ((decide ((i : Int) + 3 ≤ (b.length : Int)) && goSlice b (i : Int) ((i : Int) + 3) == m) =
      (decide (i + 3 ≤ b.length) && sl b i (i + 3) == m)) := by
  by_cases h : i + 3 ≤ b.length
  · have hc : (i : Int) + 3 ≤ (b.length : Int) := by omega
    simp [hc, h, goSlice_nat3 b i h, goSliceOK_nat3 b i h]
  · have hc : ¬ (i : Int) + 3 ≤ (b.length : Int) := by omega
    simp [hc, h]

theorem step_plain (b : List Byte) (sl0 : Int) (nl st : Bool) (e1 i0 r0 s0 : Int) (fuel : Nat) (copied : Bool) (res : List Byte)
    (k i : Nat) (ln : Int) (hlt : i < b.length)
    (hlf : (nl && b.getD i 0 == LF) = false)
    (hs : (decide (i + 3 ≤ b.length) && sl b i (i + 3) == startB) = false)
    (he : (decide (i + 3 ≤ b.length) && sl b i (i + 3) == endB) = false) :
    InternalEscapeBytes.loop2 (fuel + 1) (mkV b sl0 nl st e1 i0 copied res k i ln r0 s0) =
      InternalEscapeBytes.loop2 fuel (mkV b sl0 nl st e1 i0 copied res k (i + 1) ln r0 s0) := by
  have hc : (i : Int) < (b.length : Int) := by omega
  have hlf' := hlf
  simp [LF, hlt] at hlf'
  conv => lhs; unfold InternalEscapeBytes.loop2
  by_cases h3 : i + 3 ≤ b.length
  · have hc3 : (i : Int) + 3 ≤ (b.length : Int) := by omega
    simp only [h3, decide_true, Bool.true_and] at hs he
    simp [mkV, goLen, goInRange_nat, goIndex_nat, hc, hlt, hlf', goGuard, hc3, goSlice_nat3 b i h3, goSliceOK_nat3 b i h3, hs, he]
    intro h1 h2; exact absurd h2 (hlf' h1)
  · have hc3 : ¬ (i : Int) + 3 ≤ (b.length : Int) := by omega
    simp [mkV, goLen, goInRange_nat, goIndex_nat, hc, hlt, hlf', goGuard, hc3]
    intro h1 h2; exact absurd h2 (hlf' h1)

theorem step_marker (b : List Byte) (sl0 : Int) (nl st : Bool) (e1 i0 r0 s0 : Int) (fuel : Nat) (copied : Bool) (res : List Byte)
    (k i : Nat) (ln : Int) (hk : k ≤ i) (h3 : i + 3 ≤ b.length)
    (hlf : (nl && b.getD i 0 == LF) = false)
    (hm : sl b i (i + 3) = startB ∨ (sl b i (i + 3) ≠ startB ∧ sl b i (i + 3) = endB)) :
    InternalEscapeBytes.loop2 (fuel + 1) (mkV b sl0 nl st e1 i0 copied res k i ln r0 s0) =
      InternalEscapeBytes.loop2 fuel (mkV b sl0 nl st e1 i0 true (matRes copied res ++ sl b k i ++ escB) (i + 3) (i + 3) ln r0 s0) := by
  have hlt : i < b.length := by omega
  have hc : (i : Int) < (b.length : Int) := by omega
  have hc3 : (i : Int) + 3 ≤ (b.length : Int) := by omega
  have ea : (i : Int) + 2 + 1 = (i : Int) + 3 := by omega
  have hlf' := hlf
  simp [LF, hlt] at hlf'
  have hnot : ¬ (nl = true ∧ b[i] = 10) := fun ⟨h1, h2⟩ => hlf' h1 h2
  have hok := goSliceOK_nat b k i hk (by omega)
  have hsl := goSlice_nat b k i hk (by omega)
  conv => lhs; unfold InternalEscapeBytes.loop2
  rcases hm with hm | ⟨hne, hm⟩
  · cases copied <;>
      simp [mkV, goLen, goInRange_nat, goIndex_nat, hc, hlt, goGuard, hc3, goSlice_nat3 b i h3, goSliceOK_nat3 b i h3, hm, hok, hsl,
        matRes, ea, hnot]
  · have hne' : (sl b i (i + 3) == startB) = false := by simpa using hne
    cases copied <;>
      simp [mkV, goLen, goInRange_nat, goIndex_nat, hc, hlt, goGuard, hc3, goSlice_nat3 b i h3, goSliceOK_nat3 b i h3, hm, hok, hsl,
        matRes, ea, hnot]

theorem goSliceOK_dropLast {l s : List Byte} (h : hasSuffix l s = true) (hs : s.length = 3) :
    goSliceOK l 0 ((l.length : Int) - 3) = true := by
  have hl := length_of_hasSuffix h
  unfold goSliceOK
  have : ((l.length : Int) - 3).toNat ≤ l.length := by omega
  simp [this]; omega

theorem step_lf (b : List Byte) (sl0 : Int) (st : Bool) (e1 i0 r0 s0 : Int) (fuel : Nat) (copied : Bool) (res : List Byte)
    (k i : Nat) (ln : Int) (hk : k ≤ i) (hlt : i < b.length) (hx : b.getD i 0 = LF) :
    InternalEscapeBytes.loop2 (fuel + 1) (mkV b sl0 true st e1 i0 copied res k i ln r0 s0) =
      InternalEscapeBytes.loop2 fuel (mkV b sl0 true st e1 i0 true
        (closeOrElide (matRes copied res ++ sl b k i) ++ sl b i (i + lfRun (b.drop i)) ++ startB)
        (i + lfRun (b.drop i)) (i + lfRun (b.drop i)) ((i + lfRun (b.drop i) : Nat) : Int) r0 s0) := by
  have hc : (i : Int) < (b.length : Int) := by omega
  have hle := lfRun_le (b.drop i)
  simp only [List.length_drop] at hle
  have hj : i + lfRun (b.drop i) ≤ b.length := by omega
  have hx' : b[i] = 10 := by simpa [List.getD, hlt, LF] using hx
  have hok := goSliceOK_nat b k i hk (by omega)
  have hsl := goSlice_nat b k i hk (by omega)
  have hok2 := goSliceOK_nat b i (i + lfRun (b.drop i)) (by omega) hj
  have hsl2 := goSlice_nat b i (i + lfRun (b.drop i)) (by omega) hj
  simp only [Int.natCast_add] at hok2 hsl2
  have hl3 : ∀ R : List Byte, InternalEscapeBytes.loop3 (b.length + 1)
      ⟨b, sl0, true, st, R, startB, 3, endB, 3, escB, e1, i0, true, (k : Int), (i : Int), (i : Int), r0, s0⟩ =
      some ⟨b, sl0, true, st, R, startB, 3, endB, 3, escB, e1, i0, true, (k : Int), (i : Int), ((i + lfRun (b.drop i) : Nat) : Int), r0, s0⟩ :=
    fun R => loop3_spec b _ _ i rfl rfl (by omega) (by omega)
  have ej : ((i + lfRun (b.drop i) : Nat) : Int) - 1 + 1 = ((i + lfRun (b.drop i) : Nat) : Int) := by omega
  conv => lhs; unfold InternalEscapeBytes.loop2
  generalize hres1 : matRes copied res ++ sl b k i = res1
  by_cases hsuf : hasSuffix res1 startB = true
  · have h1 := goSliceTo_dropLast hsuf (by decide)
    have h2 := goSliceOK_dropLast hsuf (by decide)
    simp only [goLen] at h1
    have hce : closeOrElide res1 = dropLast 3 res1 := by unfold closeOrElide; rw [if_pos hsuf]
    cases copied
    · simp only [matRes, Bool.false_eq_true, if_false, List.nil_append] at hres1
      subst hres1
      simp [mkV, goLen, goInRange_nat, goIndex_nat, hc, hlt, goGuard, hx', hok, hsl, goHasSuffix, hsuf, h1, h2, hl3, hok2, hsl2, hce, ej]
    · simp only [matRes, if_true] at hres1
      subst hres1
      simp only [List.length_append, Int.natCast_add] at h1 h2
      simp [mkV, goLen, goInRange_nat, goIndex_nat, hc, hlt, goGuard, hx', hok, hsl, goHasSuffix, hsuf, h1, h2, hl3, hok2, hsl2, hce, ej]
  · have hce : closeOrElide res1 = res1 ++ endB := by unfold closeOrElide; rw [if_neg hsuf]
    cases copied
    · simp only [matRes, Bool.false_eq_true, if_false, List.nil_append] at hres1
      subst hres1
      simp [mkV, goLen, goInRange_nat, goIndex_nat, hc, hlt, goGuard, hx', hok, hsl, goHasSuffix, hsuf, hl3, hok2, hsl2, hce, ej]
    · simp only [matRes, if_true] at hres1
      subst hres1
      simp [mkV, goLen, goInRange_nat, goIndex_nat, hc, hlt, goGuard, hx', hok, hsl, goHasSuffix, hsuf, hl3, hok2, hsl2, hce, ej]

theorem step_exit (b : List Byte) (sl0 : Int) (nl st : Bool) (e1 i0 r0 s0 : Int) (fuel : Nat) (copied : Bool) (res : List Byte)
    (k i : Nat) (ln : Int) (hge : ¬ i < b.length) :
    InternalEscapeBytes.loop2 (fuel + 1) (mkV b sl0 nl st e1 i0 copied res k i ln r0 s0) =
      some (mkV b sl0 nl st e1 i0 copied res k i ln r0 s0) := by
  have hc : ¬ (i : Int) < (b.length : Int) := by omega
  conv => lhs; unfold InternalEscapeBytes.loop2
  simp [mkV, goLen, hc]

/-- **The translated main loop computes the index-level loop.** -/
theorem loop2_spec (b : List Byte) (sl0 : Int) (nl st : Bool) (e1 i0 r0 s0 : Int) :
    ∀ (fuel : Nat) (copied : Bool) (res : List Byte) (k i : Nat) (ln : Int), k ≤ i → i ≤ b.length →
    ∀ k' c' res', scanIdx b nl fuel i k copied res = some (k', c', res') →
    ∃ i' ln', InternalEscapeBytes.loop2 fuel (mkV b sl0 nl st e1 i0 copied res k i ln r0 s0) =
      some (mkV b sl0 nl st e1 i0 c' res' k' i' ln' r0 s0) := by
  intro fuel
  induction fuel with
  | zero => intro copied res k i ln _ _ k' c' res' h; simp [scanIdx] at h
  | succ fuel ih =>
    intro copied res k i ln hk hi k' c' res' h
    unfold scanIdx at h
    by_cases hlt : i < b.length
    · rw [if_pos hlt] at h
      by_cases hlf : (nl && b.getD i 0 == LF) = true
      · rw [if_pos hlf] at h
        simp only [Bool.and_eq_true, beq_iff_eq] at hlf
        obtain ⟨rfl, hx⟩ := hlf
        have hle := lfRun_le (b.drop i)
        simp only [List.length_drop] at hle
        rw [step_lf b sl0 st e1 i0 r0 s0 fuel copied res k i ln hk hlt hx]
        exact ih true _ _ _ _ (Nat.le_refl _) (by omega) k' c' res' h
      · rw [if_neg hlf] at h
        have hlf' : (nl && b.getD i 0 == LF) = false := by simpa using hlf
        by_cases hs : (decide (i + 3 ≤ b.length) && sl b i (i + 3) == startB) = true
        · rw [if_pos hs] at h
          simp only [Bool.and_eq_true, decide_eq_true_eq, beq_iff_eq] at hs
          rw [step_marker b sl0 nl st e1 i0 r0 s0 fuel copied res k i ln hk hs.1 hlf' (Or.inl hs.2)]
          exact ih true _ _ _ _ (Nat.le_refl _) hs.1 k' c' res' h
        · rw [if_neg hs] at h
          have hs' : (decide (i + 3 ≤ b.length) && sl b i (i + 3) == startB) = false := by simpa using hs
          by_cases he : (decide (i + 3 ≤ b.length) && sl b i (i + 3) == endB) = true
          · rw [if_pos he] at h
            simp only [Bool.and_eq_true, decide_eq_true_eq, beq_iff_eq] at he
            have hne : sl b i (i + 3) ≠ startB := by
              intro hh; apply hs; simp [he.1, hh]
            rw [step_marker b sl0 nl st e1 i0 r0 s0 fuel copied res k i ln hk he.1 hlf' (Or.inr ⟨hne, he.2⟩)]
            exact ih true _ _ _ _ (Nat.le_refl _) he.1 k' c' res' h
          · rw [if_neg he] at h
            have he' : (decide (i + 3 ≤ b.length) && sl b i (i + 3) == endB) = false := by simpa using he
            rw [step_plain b sl0 nl st e1 i0 r0 s0 fuel copied res k i ln hlt hlf' hs' he']
            exact ih copied res k (i + 1) ln (by omega) hlt k' c' res' h
    · rw [if_neg hlt] at h
      simp only [Option.some.injEq, Prod.mk.injEq] at h
      obtain ⟨rfl, rfl, rfl⟩ := h
      exact ⟨i, ln, step_exit b sl0 nl st e1 i0 r0 s0 fuel copied res k i ln hlt⟩

/-! ### The trimming loop -/

def isTrim (x : Byte) : Bool := x == LF || x == 0x20

/-- Where the trimming loop leaves `end`: the scan from `e` down to `lo`. -/
def trimIdx (b : List Byte) (lo : Nat) : Nat → Nat
  | 0 => 0
  | e + 1 => if lo ≤ e ∧ isTrim (b.getD e 0) = true then trimIdx b lo e else e + 1

theorem trimIdx_ge (b : List Byte) (lo : Nat) : ∀ e, lo ≤ e → lo ≤ trimIdx b lo e := by
  intro e
  induction e with
  | zero => intro h; simpa [trimIdx] using h
  | succ e ih =>
    intro h
    unfold trimIdx
    split
    · rename_i hc; exact ih hc.1
    · exact h

theorem trimIdx_le (b : List Byte) (lo : Nat) : ∀ e, trimIdx b lo e ≤ e := by
  intro e
  induction e with
  | zero => simp [trimIdx]
  | succ e ih =>
    unfold trimIdx
    split
    · omega
    · omega

theorem take_trimIdx (b : List Byte) (lo : Nat) : ∀ e, lo ≤ e → e ≤ b.length →
    b.take (trimIdx b lo e) = b.take lo ++ ((sl b lo e).reverse.dropWhile (fun x => x == LF || x == 0x20)).reverse := by
  intro e
  induction e with
  | zero =>
    intro h _
    have : lo = 0 := by omega
    subst this
    simp [trimIdx, sl]
  | succ e ih =>
    intro h he
    by_cases hlo : lo ≤ e
    · have hlt : e < b.length := by omega
      have hsn := sl_snoc b lo e hlo hlt
      rw [hsn, List.reverse_append, List.reverse_singleton, List.singleton_append, List.dropWhile_cons]
      unfold trimIdx
      by_cases ht : isTrim (b.getD e 0) = true
      · have ht' : (b.getD e 0 == LF || b.getD e 0 == 0x20) = true := ht
        rw [if_pos ⟨hlo, ht⟩, if_pos ht']
        exact ih hlo (by omega)
      · have ht' : ¬ (b.getD e 0 == LF || b.getD e 0 == 0x20) = true := ht
        rw [if_neg (fun hh => ht hh.2), if_neg ht']
        simp only [List.reverse_cons, List.reverse_reverse]
        rw [← hsn]
        unfold sl
        have h1 := List.take_append_drop lo (b.take (e + 1))
        rw [List.take_take, Nat.min_eq_left (by omega)] at h1
        exact h1.symm
    · have : lo = e + 1 := by omega
      subst this
      unfold trimIdx
      rw [if_neg (fun hh => hlo hh.1)]
      simp [sl]

theorem take_trimIdx_eq_trimTail (b : List Byte) (lo : Nat) (h : lo ≤ b.length) :
    b.take (trimIdx b lo b.length) = trimTail b lo := by
  rw [take_trimIdx b lo b.length h (Nat.le_refl _)]
  unfold trimTail sl
  simp

/-- The translated trimming loop leaves `end` at `trimIdx`. -/
theorem loop1_spec (b : List Byte) (lo : Nat) : ∀ (fuel : Nat) (v : InternalEscapeBytes.Vars) (e : Nat),
    v.b = b → v.startLoc = (lo : Int) → v.end'_1 = (e : Int) → v.i = (e : Int) - 1 → e ≤ b.length → e < fuel →
    ∃ i', InternalEscapeBytes.loop1 fuel v = some { v with end'_1 := ((trimIdx b lo e : Nat) : Int), i := i' } := by
  intro fuel
  induction fuel with
  | zero => intro v e _ _ _ _ _ hf; omega
  | succ fuel ih =>
    intro v e hb hs he hi hle hf
    rcases v with ⟨vb, vsl, f3, f4, f5, f6, f7, f8, f9, f10, ve, vi, f13, f14, f15, f16, f17, f18⟩
    simp only at hb hs he hi
    subst hb hs he hi
    unfold InternalEscapeBytes.loop1
    cases e with
    | zero =>
      have hneg : ¬ (lo : Int) ≤ -1 := by omega
      refine ⟨-1, ?_⟩
      simp [hneg, trimIdx]
    | succ e' =>
      by_cases hlo : lo ≤ e'
      · have hlt : e' < vb.length := by omega
        by_cases ht : isTrim (vb.getD e' 0) = true
        · obtain ⟨i', hrec⟩ := ih ⟨vb, (lo : Int), f3, f4, f5, f6, f7, f8, f9, f10, (e' : Int), (e' : Int) - 1, f13, f14, f15, f16, f17, f18⟩ e'
            rfl rfl rfl rfl (by omega) (by omega)
          refine ⟨i', ?_⟩
          have hg : vb.getD e' 0 = vb[e'] := by simp [List.getD, hlt]
          have ht' : vb[e'] = 10 ∨ vb[e'] = 32 := by
            have := ht; rw [hg] at this; simpa [isTrim, LF] using this
          have hti : trimIdx vb lo (e' + 1) = trimIdx vb lo e' := by
            conv => lhs; unfold trimIdx
            rw [if_pos ⟨hlo, ht⟩]
          simp [hlo, hlt, goInRange_nat, goIndex_nat, goGuard, ht', hti, hrec]
        · refine ⟨(e' : Int), ?_⟩
          have hg : vb.getD e' 0 = vb[e'] := by simp [List.getD, hlt]
          have ht' : ¬ (vb[e'] = 10 ∨ vb[e'] = 32) := by
            have := ht; rw [hg] at this; simpa [isTrim, LF] using this
          have hti : trimIdx vb lo (e' + 1) = e' + 1 := by
            conv => lhs; unfold trimIdx
            rw [if_neg (fun hh => ht hh.2)]
          simp [hlo, hlt, goInRange_nat, goIndex_nat, goGuard, ht', hti]
      · refine ⟨(e' : Int), ?_⟩
        have hti : trimIdx vb lo (e' + 1) = e' + 1 := by
          conv => lhs; unfold trimIdx
          rw [if_neg (fun hh => hlo hh.1)]
        simp [hlo, hti]


/-- A pass that never had to copy leaves `res` alone. -/
theorem scanIdx_not_copied (b : List Byte) (nl : Bool) : ∀ (fuel i k : Nat) (copied : Bool) (res : List Byte) (k' : Nat) (res' : List Byte),
    scanIdx b nl fuel i k copied res = some (k', false, res') → copied = false ∧ res' = res := by
  intro fuel
  induction fuel with
  | zero => intro i k copied res k' res' h; simp [scanIdx] at h
  | succ fuel ih =>
    intro i k copied res k' res' h
    unfold scanIdx at h
    split at h
    · split at h
      · exact absurd (ih _ _ _ _ _ _ h).1 (by simp)
      · split at h
        · exact absurd (ih _ _ _ _ _ _ h).1 (by simp)
        · split at h
          · exact absurd (ih _ _ _ _ _ _ h).1 (by simp)
          · exact ih _ _ _ _ _ _ h
    · simp only [Option.some.injEq, Prod.mk.injEq] at h
      exact ⟨h.2.1, h.2.2.symm⟩

theorem tail_test (l : List Byte) :
    ((goDecodeLastRune l).snd == 1 && (goDecodeLastRune l).fst == 65533) = tailBad l := by
  unfold goDecodeLastRune
  cases l with
  | nil => simp [tailBad]
  | cons x r =>
    simp only [List.isEmpty_cons, Bool.false_eq_true, if_false]
    cases tailBad (x :: r) <;> simp

theorem sl_to_end (b : List Byte) (k : Nat) : sl b k b.length = b.drop k := by
  unfold sl; simp


/-- What the epilogue (truncated-UTF-8 guard, final copy) returns, as a function of the loop's result. -/
def finRes (b : List Byte) (c : Bool) (res : List Byte) (k : Nat) : List Byte :=
  if tailBad b then matRes c res ++ b.drop k ++ escB else if c then res ++ b.drop k else res

/-- From the main loop on: whatever the epilogue `T` is, if on the loop's possible results it returns
`finRes`, the whole returns the model's answer for the (already trimmed) input `b`. -/
theorem core (b : List Byte) (lo : Nat) (nl st : Bool) (e1 i0 r0 s0 ln0 : Int) (hlo : lo ≤ b.length)
    (T : InternalEscapeBytes.Vars → Option InternalEscapeBytes.Vars)
    (hT : ∀ (c' : Bool) (res' : List Byte) (k' : Nat) (i' : Nat) (ln' : Int), k' ≤ b.length →
      (T (mkV b (lo : Int) nl st e1 i0 c' res' k' i' ln' r0 s0)).map (·.res) = some (finRes b c' res' k')) :
    ((InternalEscapeBytes.loop2 (b.length + 1) (mkV b (lo : Int) nl st e1 i0 false b 0 lo ln0 r0 s0)).bind T).map (·.res) =
      some (let out := escGo nl (b.take lo) (b.drop lo); if tailBad b then out ++ escB else out) := by
  obtain ⟨k', c', res', hscan, hk', hc', hacc⟩ := scanIdx_spec b nl (b.length + 1) lo 0 false b (Nat.zero_le _) hlo (fun _ => rfl) (by omega)
  obtain ⟨i', ln', hloop⟩ := loop2_spec b (lo : Int) nl st e1 i0 r0 s0 (b.length + 1) false b 0 lo ln0 (Nat.zero_le _) hlo k' c' res' hscan
  rw [hloop, Option.bind_some, hT c' res' k' i' ln' hk']
  congr 1
  have hstart : accOf b lo 0 false b = b.take lo := by simp [accOf]
  rw [hstart] at hacc
  simp only
  rw [← hacc]
  unfold finRes accOf
  cases c' with
  | true => simp [matRes, sl_to_end]
  | false =>
    have hk0 := hc' rfl
    have hres := (scanIdx_not_copied b nl _ _ _ _ _ _ _ hscan).2
    subst hk0 hres
    simp [matRes]


theorem goSliceTo_nat (l : List Byte) (a : Nat) (h : a ≤ l.length) : goSliceTo l (a : Int) = l.take a := by
  unfold goSliceTo
  have : (0 : Int) ≤ (a : Int) ∧ (a : Int).toNat ≤ l.length := ⟨by omega, by simpa using h⟩
  rw [if_pos this]; simp

theorem goSliceOK_to_end (l : List Byte) (k : Nat) (h : k ≤ l.length) : goSliceOK l (k : Int) (l.length : Int) = true :=
  goSliceOK_nat l k l.length h (Nat.le_refl _)

/-- The epilogue on a concrete loop result. -/
macro "epilogue " bb:term:max : tactic => `(tactic| (
  intro c' res' k' i' ln' hk'
  have h1 := goSliceOK_to_end $bb k' hk'
  have h2 := goSliceOK_to_end $bb _ (Nat.le_refl _)
  have h3 := goSliceFrom_nat $bb k' hk'
  have h4 := goSliceFrom_nat $bb _ (Nat.le_refl _)
  unfold finRes
  cases c' <;> simp [mkV, tail_test, goGuard, goLen, h1, h2, h3, h4, matRes, escB] <;> split <;> simp_all))

/-- **The translated `InternalEscapeBytes` is the model's `escapeBytesAt`**: for every byte string,
every start offset inside it and both flags it returns — no index or slice out of range, every loop
within its fuel — exactly what the model returns. -/
theorem internalEscapeBytes_translated (b : List Byte) (lo : Nat) (nl strip : Bool) (h : lo ≤ b.length) :
    Trans.InternalEscapeBytes b (lo : Int) nl strip = some (escapeBytesAt b lo nl strip) := by
  unfold Trans.InternalEscapeBytes InternalEscapeBytes.run escapeBytesAt
  cases strip with
  | false =>
    simp only [Bool.false_eq_true, if_false, goLen, Option.pure_def, Option.bind_eq_bind, Option.bind_some, Int.toNat_natCast]
    refine core b lo nl false 0 0 0 0 0 h _ ?_
    epilogue b
  | true =>
    simp only [if_true, goLen, Option.pure_def, Option.bind_eq_bind, Option.bind_some, Int.toNat_natCast]
    obtain ⟨i', hl1⟩ := loop1_spec b lo (b.length + 1)
      { b := b, startLoc := (lo : Int), breakNewLines := nl, strip := true, start := [226, 128, 185],
        ls := (([226, 128, 185] : List Byte).length : Int), end' := [226, 128, 186], le := (([226, 128, 186] : List Byte).length : Int),
        escape := [63], end'_1 := (b.length : Int), i := (b.length : Int) - 1 } b.length rfl rfl rfl rfl (Nat.le_refl _) (by omega)
    rw [hl1]
    have ht1 := trimIdx_le b lo b.length
    have ht2 := trimIdx_ge b lo b.length h
    have htk := goSliceTo_nat b (trimIdx b lo b.length) ht1
    have hok : goSliceOK b 0 ((trimIdx b lo b.length : Nat) : Int) = true := by
      simpa using goSliceOK_nat b 0 (trimIdx b lo b.length) (Nat.zero_le _) ht1
    have htt := take_trimIdx_eq_trimTail b lo h
    simp only [Option.bind_some, goGuard, hok, if_true, htk, htt, Int.toNat_natCast]
    have hlo' : lo ≤ (trimTail b lo).length := by
      rw [← htt, List.length_take]; omega
    refine core (trimTail b lo) lo nl true _ _ 0 0 0 hlo' _ ?_
    epilogue (trimTail b lo)


/-- The buffer's use of the scanner (`escapeToEnd`): on every state whose validated prefix lies within
the buffer (part of the buffer invariant `Inv`), the translated scanner returns what the model's
`escapeToEnd` stores. This is what justifies reading `escape.InternalEscapeBytes` as the model's
`escapeBytesAt` in the translation of `buffer.go` (Model/GoPrelude.lean: `goInternalEscapeBytes`). -/
theorem escapeToEnd_scanner (b : Buffer) (nl : Bool) (h : b.validUntil ≤ b.buf.length) :
    Trans.InternalEscapeBytes b.buf (b.validUntil : Int) nl false = some (b.escapeToEnd nl).buf :=
  internalEscapeBytes_translated b.buf b.validUntil nl false h

end Redact
