import RedactVerif.Props.L2
import RedactVerif.Props.FactsClassify
import RedactVerif.Props.FactsSkelPrinter
import RedactVerif.Proofs.Contain
import RedactVerif.Props.TransParse
/-
C11 — printing never fails: all inputs accepted, user-method panics contained.

A Lean function cannot crash: absence of Go *runtime* panics (slice bounds,
reflect misuse) is as good as the model's transcription plus the correspondence
(which treats any recovered panic of the real code as an output to be matched)
and the real-code enumeration of every rune/byte/JoinTo operand.
What is proved on the model:

* the buffer operations are total for every rune (surrogates, negative,
  > MaxRune: `writeRune_any`, the D1 fix) and every byte, and keep the invariant;
* `catchPanic` (`panic_in_place`): a panic raised by a user method — after any
  amount of output already written through the SafePrinter — is reported in place
  as `%!verb(PANIC=<method> method: <payload>)`, the payload being printed by
  `printArg` in the restored state (so it is enveloped unless itself declared
  safe), flags restored afterwards; text before it is untouched (the buffer only
  grows through writes), and the frame theorem covers what follows;
* `nil_receiver`: a nil pointer receiver yields `<nil>`;
* `propagation_iff`: the ONLY way a print call panics is a panic raised while a
  panic payload is being printed (nested panic), exactly as in fmt.
-/
namespace Redact

/-- Every rune is accepted: the write appends `utf8.EncodeRune`'s bytes (U+FFFD for invalid runes). -/
theorem writeRune_any (b : Buffer) (r : Int) (hi : Inv b) (hm : b.mode ≠ .raw) :
    Inv (b.writeRune r) ∧ (b.writeRune r).buf = b.startWrite.buf ++ encodeRune r :=
  ⟨inv_writeRune_nr b r hi hm, by simp [Buffer.writeRune, Buffer.append]⟩

theorem encodeRune_invalid (r : Int) (h : runeLen r = none) : encodeRune r = runeErrorB := by
  simp [encodeRune, h]

/-- Surrogates, negative and out-of-range runes are invalid, hence written as U+FFFD. -/
theorem runeLen_invalid (r : Int) (h : r < 0 ∨ (0xD800 ≤ r ∧ r ≤ 0xDFFF) ∨ 0x10FFFF < r) : runeLen r = none := by
  unfold runeLen
  rcases h with h | h | h
  · simp [h]
  · have h1 : ¬ r < 0 := by omega
    have h2 : ¬ r ≤ 0x7F := by omega
    have h3 : ¬ r ≤ 0x7FF := by omega
    simp [h1, h2, h3, h.1, h.2]
  · have h1 : ¬ r < 0 := by omega
    have h2 : ¬ r ≤ 0x7F := by omega
    have h3 : ¬ r ≤ 0x7FF := by omega
    have h4 : ¬ (0xD800 ≤ r ∧ r ≤ 0xDFFF) := by omega
    have h5 : ¬ r ≤ 0xFFFF := by omega
    have h6 : ¬ r ≤ 0x10FFFF := by omega
    simp [h1, h2, h3, h4, h5, h6]

/-- **The panic report**: what `catchPanic` does with a method that panicked in
state `p` with `payload` (receiver not a nil pointer, no panic report in progress). -/
theorem panic_in_place (env : Env) (n : Nat) (p0 p : PP) (arg : Val) (verb : Nat) (method : List Byte) (payload : Val)
    (hnp : p.panicking = false) :
    catchPanic env (n + 1) p0 arg verb method false (.raised p payload) =
      (printArg env n
        { (((({ p with f := p.f.clear }.w percentBang).wr verb).w ([0x28, 0x50, 0x41, 0x4E, 0x49, 0x43, 0x3D] /- "(PANIC=" -/ : List UInt8)).w method).w ([0x20, 0x6D, 0x65, 0x74, 0x68, 0x6F, 0x64, 0x3A, 0x20] /- " method: " -/ : List UInt8)
          with panicking := true } payload 118).bind
        fun q => .ok { ({ q with panicking := false }.wb 0x29) with
                        f := ({ q with panicking := false }.wb 0x29).f.restoreFlags p.f } := by
  simp [catchPanic, hnp]

theorem nil_receiver (env : Env) (n : Nat) (p0 p : PP) (arg : Val) (verb : Nat) (method : List Byte) (payload : Val) :
    catchPanic env (n + 1) p0 arg verb method true (.raised p payload) = .ok (p.w nilAngle) := by
  simp [catchPanic]

/-- A method that does not panic is not touched by `catchPanic`. -/
theorem no_panic_no_report (env : Env) (n : Nat) (p0 p : PP) (arg : Val) (verb : Nat) (method : List Byte) (nr : Bool) :
    catchPanic env (n + 1) p0 arg verb method nr (.ok p) = .ok p := by
  simp [catchPanic]

/-- A panic raised while a panic payload is being printed propagates (as in fmt). -/
theorem nested_panic_propagates (env : Env) (n : Nat) (p0 p : PP) (arg : Val) (verb : Nat) (method : List Byte)
    (payload : Val) (hp : p.panicking = true) :
    catchPanic env (n + 1) p0 arg verb method false (.raised p payload) = .panic p.buf payload := by
  simp [catchPanic, hp]

/-- The user-method outcome contained, with the frame: after the report the
buffer invariant holds and mode/override are those of the call site. -/
theorem panic_contained (env : Env) (he : EnvOk env) (n : Nat) (p0 p : PP) (hp : Pre p) (arg : Val) (verb : Nat)
    (method : List Byte) (nr : Bool) (payload : Val) (hpl : ValOk payload) (q : PP)
    (h : catchPanic env n p0 arg verb method nr (.raised p payload) = .ok q) :
    Inv q.buf ∧ q.buf.mode = p.buf.mode ∧ q.override = p.override :=
  ((spec_all env he n).catchPanic p0 p arg verb method nr (.raised p payload) hp
    (show G p p ∧ ValOk payload from ⟨G.refl hp, hpl⟩)).1 q h


/-- **A panic that leaves a nested printer** (raised while the nested printer was printing a
panic value, hence re-raised there) does not escape the enclosing method: the shared buffer is
handed back, its mode restored, and the panic continues as a panic of the method that called
`Print` — which the enclosing `catchPanic` reports like any other (D11). -/
theorem nested_panic_handed_back (env : Env) (n : Nat) (p : PP) (args : Vals) (k : Script) (b : Buffer) (pl : Val)
    (h : doPrint env n { buf := p.buf, override := p.override } args.toList = .panic b pl) :
    runScript env (n + 1) p (.print args k) = .raised { p with buf := b.setMode p.buf.mode } pl := by
  simp [runScript, h]

/-- …and the buffer handed back satisfies the invariant, in the caller's mode: the report that
follows is written into a well-formed prefix. -/
theorem nested_panic_buffer_ok (env : Env) (he : EnvOk env) (n : Nat) (p : PP) (hp : Pre p) (args : Vals) (ha : ValsOk args)
    (b : Buffer) (pl : Val) (h : doPrint env n { buf := p.buf, override := p.override } args.toList = .panic b pl) :
    Inv (b.setMode p.buf.mode) ∧ (b.setMode p.buf.mode).mode = p.buf.mode ∧ ValOk pl := by
  have hd := ((spec_all env he n).doPrint { buf := p.buf, override := p.override } args.toList hp (listOk_of_valsOk _ ha)).2 b pl h
  exact ⟨inv_setMode _ _ hd.1, setMode_mode _ _, hd.2⟩

/-! ### Containment, globally (`Proofs/Contain.lean`) -/
theorem not_panic_of_nb {r : Res} (h : NB r) : ∀ b pl, r ≠ .panic b pl := by
  intro b pl he
  cases h <;> cases he

/-- **User-method panics are contained, globally.** With an error hook that does not panic: if every
value a user method panics with (at any depth: inside containers, wrappers, nested `Print/Printf`
calls of other methods) can itself be printed without a panic — its own methods do not panic —
then no panic leaves `Sprint`: every panic is caught and reported in place. Contrapositive of the
property's "only a panic raised while printing that payload propagates". -/
theorem sprint_contains_panics (env : Env) (hf : EnvPF env) (args : List Val) (hv : ListPB args) :
    ∀ b pl, sprint env args ≠ .panic b pl :=
  not_panic_of_nb ((bspec_all env hf defaultFuel).doPrint newPP args rfl hv)

theorem sprintf_contains_panics (env : Env) (hf : EnvPF env) (f : List Byte) (args : List Val) (hv : ListPB args) :
    ∀ b pl, sprintf env f args ≠ .panic b pl :=
  not_panic_of_nb ((bspec_all env hf defaultFuel).doPrintf newPP f args rfl hv)

theorem helperForErrorf_contains_panics (env : Env) (hf : EnvPF env) (f : List Byte) (args : List Val) (hv : ListPB args) :
    ∀ b pl, helperForErrorf env f args ≠ .panic b pl :=
  not_panic_of_nb ((bspec_all env hf defaultFuel).doPrintf _ f args rfl hv)

/-- Every function of the printer, entered outside a panic report, returns outside one. -/
theorem printArg_contains_panics (env : Env) (hf : EnvPF env) (n : Nat) (p : PP) (hp : p.panicking = false) (v : Val)
    (hv : ValPB v) (verb : Nat) :
    (∀ b pl, printArg env n p v verb ≠ .panic b pl) ∧ ∀ q, printArg env n p v verb = .ok q → q.panicking = false := by
  have h := (bspec_all env hf n).printArg p v verb hp hv
  refine ⟨not_panic_of_nb h, fun q hq => ?_⟩
  rw [hq] at h
  cases h with
  | ok hk => exact hk

/-- Values whose methods never panic: no panic leaves any function, whatever the printer's state. -/
theorem panic_free_values_never_panic (env : Env) (hf : EnvPF env) (n : Nat) (p : PP) (v : Val) (hv : ValPF v) (verb : Nat) :
    ∀ b pl, printArg env n p v verb ≠ .panic b pl := by
  intro b pl he
  have h := (aspec_all env hf n).printArg p v verb hv
  rw [he] at h
  cases h

/-! Premises satisfiable: a Stringer that panics with a string, inside a slice. -/
example : ListPB [.slice ([0x5B, 0x5D, 0x69, 0x6E, 0x74, 0x65, 0x72, 0x66, 0x61, 0x63, 0x65, 0x20, 0x7B, 0x7D] /- "[]interface {}" -/ : List UInt8) false true
    (.cons (.meth { stringer := true } ([0x6D, 0x61, 0x69, 0x6E, 0x2E, 0x53] /- "main.S" -/ : List UInt8) false false false 0
      (.safeString [0x61] (.panic (.leaf 1 .str ([0x73, 0x74, 0x72, 0x69, 0x6E, 0x67] /- "string" -/ : List UInt8) none false false))) .nil) .nil)] := by
  intro v hv
  simp only [List.mem_singleton] at hv
  subst hv
  simp [ValPB, ValsPB, ScriptPB, ValPF]

/-! ### Every format string is accepted by the directive parser's number scanners

Stated on the functions as the translator reads them off `internal/rfmt/print.go` on every run
(`Generated/Trans.lean`; equality with the model: Props/TransParse.lean): a result `some …` says that no
index expression of the source is out of range and that every loop ends. -/

/-- `parsenum(s, start, end)` never indexes out of range, for any string and any window inside it. -/
theorem translated_parsenum_total (s : List Byte) (start e : Nat) (he : e ≤ s.length) :
    ∃ r, Trans.parsenum s (start : Int) (e : Int) = some r :=
  ⟨_, parsenum_translated s start e he⟩

/-- `parseArgNumber(format)` never indexes out of range, for any format — `[`, `[]`, `[0]`, `[99999999999999999999]`,
an unclosed bracket, … -/
theorem translated_parseArgNumber_total (f : List Byte) : ∃ r, Trans.parseArgNumber f = some r :=
  ⟨_, parseArgNumber_translated f⟩

theorem argNumber_in_range (p : PP) (argNum : Nat) (f : List Byte) (numArgs : Nat) :
    (argNumber p argNum f numArgs).1.goodArgNum = true →
      (argNumber p argNum f numArgs).2.1 < numArgs ∨ (argNumber p argNum f numArgs).2.1 = argNum := by
  unfold argNumber
  split
  · split
    split
    · simp
    · split
      split
      · split
        · rename_i hw
          intro _; left; simp only; omega
        · simp
      · simp
  · intro _; right; rfl

/-- An explicit argument index is used only when it denotes an operand: `[0]` (index −1), an index beyond the operand
list, or one too large to parse, never select an operand (Go's `argNumber` on the translated `parseArgNumber`). -/
theorem translated_argNumber_in_range (p : PP) (argNum : Nat) (f : List Byte) (numArgs : Nat) :
    ∃ r, argNumberGo p argNum f numArgs = some r ∧ (r.1.goodArgNum = true → r.2.1 < numArgs ∨ r.2.1 = argNum) :=
  ⟨_, argNumber_translated p argNum f numArgs, argNumber_in_range p argNum f numArgs⟩

example : Trans.parseArgNumber [0x5B, 0x30, 0x5D] = some (-1, 3, true) := by decide
example : Trans.parseArgNumber [0x5B, 0x32, 0x5D, 0x64] = some (1, 3, true) := by decide
example : Trans.parseArgNumber [0x5B, 0x32] = some (0, 1, false) := by decide
example : Trans.parsenum [0x31, 0x32, 0x78] 0 3 = some (12, true, 2) := by decide

end Redact
