import RedactVerif.Props.C01
import RedactVerif.Props.FactsReset
import RedactVerif.Props.FactsSkelBuffer
import RedactVerif.Props.TransBuffer
/-
C13 — buffer accessors are pure; Reset and Take return to a pristine buffer.

In the model the accessors are functions of the state that return the state
unchanged; that the Go accessors (value receivers finalising a struct copy
that shares the backing array; copy-on-write escaping) behave like that is
what the correspondence check establishes (hidden state compared through the
`verif` hook before and after every accessor, histories with and without
accessor calls compared on the real code). What is proved here are the
statements about all histories that follow in the model.
-/
namespace Redact

def Op.isAccessor : Op → Bool
  | .accLen => true
  | .accString => true
  | .accRedactable => true
  | .accMode => true
  | .grow _ => true
  | _ => false

theorem accessor_pure (b : Buffer) (op : Op) (h : op.isAccessor = true) : (b.step op).1 = b := by
  cases op <;> simp_all [Op.isAccessor, Buffer.step]

/-- Inserting accessor calls (or `Grow`) anywhere in a history changes no later state or result. -/
theorem run_filter_accessors (b : Buffer) (ops : List Op) :
    b.run (ops.filter (fun o => !o.isAccessor)) = b.run ops := by
  induction ops generalizing b with
  | nil => rfl
  | cons op r ih =>
    by_cases h : op.isAccessor = true
    · simp only [List.filter, h, Bool.not_true]
      rw [ih]
      simp only [Buffer.run, List.foldl_cons, accessor_pure b op h]
    · have h' : op.isAccessor = false := by simpa using h
      simp only [List.filter, h', Bool.not_false]
      simp only [Buffer.run, List.foldl_cons]
      exact ih _

/-- `Len` is the length of what `RedactableString` returns. -/
theorem len_eq (b : Buffer) : b.len = b.redactableBytes.length := rfl

theorem reset_fresh (b : Buffer) : (b.step .reset).1 = Buffer.init := rfl

/-- After `TakeRedactableString/Bytes` the buffer is exactly a new one — also
when an envelope was open and unescaped bytes were pending. -/
theorem take_fresh (b : Buffer) (hi : Inv b) : (b.step .take).1 = Buffer.init := by
  have ⟨_, ho, _⟩ := finalize_full b hi
  simp only [Buffer.step, Buffer.take]
  rw [ho]; rfl

/-- What `Take` returns is what `RedactableString` would have returned. -/
theorem take_result (b : Buffer) : (b.step .take).2 = b.redactableBytes := rfl

/-- For all histories: after `Reset` or `Take` anywhere, the continuation
behaves exactly as on a new object. -/
theorem after_reset_like_new (ops₁ ops₂ : List Op) :
    Buffer.init.run (ops₁ ++ [.reset] ++ ops₂) = Buffer.init.run ops₂ := by
  simp [Buffer.run, Buffer.step, Buffer.reset]

theorem after_take_like_new (ops₁ ops₂ : List Op) (h : RunOk Buffer.init ops₁) :
    Buffer.init.run (ops₁ ++ [.take] ++ ops₂) = Buffer.init.run ops₂ := by
  have hi := inv_run _ ops₁ inv_init h
  rw [run_append, run_append]
  have : (Buffer.init.run ops₁).run [.take] = Buffer.init := by
    simp only [Buffer.run, List.foldl_cons, List.foldl_nil]
    exact take_fresh _ hi
  rw [this]

/-! Non-vacuity: an accessor in the middle of an open envelope with pending bytes. -/
example : (Buffer.init.run [.write [0x61, 0xE2], .accRedactable, .accLen, .write [0x80, 0xB9]]).redactableBytes
    = (Buffer.init.run [.write [0x61, 0xE2], .write [0x80, 0xB9]]).redactableBytes := by decide

end Redact
