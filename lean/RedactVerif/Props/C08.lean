import RedactVerif.Props.L2
import RedactVerif.Props.FactsClassify
/-
C08 — redactables compose: re-printing is identity, joining is concatenation.

Proved on the model:
* `reprint_identity`: `Sprint(r)` = `r` and `Sprintf("%<anything>", r)` — for every
  verb other than %T/%p, every flag set, width and precision — = `r`, for every
  obtainable redactable `r` whose last bytes are not a truncated UTF-8 sequence
  (which no library output is): the operand bypasses verb handling and is copied
  raw; escaping in the surrounding safe mode finds nothing to do;
* `raw_copy`: what printing a RedactableString/Bytes operand does to a buffer in
  general (switch to raw, append, switch back) when no unsafe override is active;
* closure: the result is again obtainable (`sprintf_wf` in C01), so the
  statement iterates over print-then-reprint histories.

FULL STATEMENT (not yet proved): the same inside slices, maps, structs
(`contains_raw`), and the concatenation/Join laws. Decided on the real code by
the P-compose oracle and, for the model, by the P-model correspondence.
-/
namespace Redact

theorem escGo_nil (nl : Bool) (out : List Byte) : escGo nl out [] = out := by simp [escGo]

theorem escapeBytesAt_full (b : List Byte) (nl : Bool) (h : tailBad b = false) :
    escapeBytesAt b b.length nl false = b := by
  simp [escapeBytesAt, escGo_nil, h]

theorem tailBad_nil : tailBad [] = false := by decide

/-- Printing a redactable operand when no unsafe override is active: raw copy. -/
theorem raw_copy (p : PP) (content : List Byte) (h : p.override ≠ .ovUnsafe) :
    bracket PP.startPreRedactable p (fun q => .ok (q.w content)) =
      .ok { p with buf := ((p.buf.setMode .raw).write content).setMode p.buf.mode } := by
  simp [bracket, PP.startPreRedactable, h, Res.bind, PP.restore, PP.w]

/-- The buffer after `SetMode(SafeEscaped)` on a fresh printer. -/
theorem init_setSafe : Buffer.init.setMode .safeEsc = { Buffer.init with mode := .safeEsc } := by decide

/-- Raw copy of `r` into an empty buffer in safe mode, then finalisation: exactly `r`. -/
theorem raw_into_empty (r : List Byte) (h : tailBad r = false) :
    ((( { Buffer.init with mode := .safeEsc } : Buffer).setMode .raw).write r |>.setMode .safeEsc).redactableBytes = r := by
  have e1 : (({ Buffer.init with mode := .safeEsc } : Buffer).setMode .raw) = { Buffer.init with mode := .raw } := by decide
  rw [e1]
  have e2 : (({ Buffer.init with mode := .raw } : Buffer).write r) = { buf := r, validUntil := 0, mode := .raw, markerOpen := false } := by
    simp [Buffer.write, Buffer.startWrite, Buffer.append, Buffer.init]
  rw [e2]
  have e3 : (({ buf := r, validUntil := 0, mode := .raw, markerOpen := false } : Buffer).setMode .safeEsc)
      = { buf := r, validUntil := r.length, mode := .safeEsc, markerOpen := false } := by
    simp [Buffer.setMode]
  rw [e3]
  simp [Buffer.redactableBytes, Buffer.finalize, Buffer.escapeToEnd, escapeBytesAt_full r false h]

/-- `printArg` of a redactable operand under any verb other than %T and %p, any
flags, width and precision: the raw copy, nothing else (no verb handling). -/
theorem printArg_redactable (env : Env) (n : Nat) (p : PP) (r ty : List Byte) (verb : Nat)
    (hv : verb ≠ 84 ∧ verb ≠ 112) (ho : p.override ≠ .ovUnsafe) :
    printArg env (n + 2) p (.redactable r ty) verb =
      .ok { p with buf := ((p.buf.setMode .raw).write r).setMode p.buf.mode } := by
  simp [printArg, printArgBody, isSafeValue, isRegistered, raw_copy p r ho, hv.1, hv.2]

/-- **Re-printing is the identity**: `Sprint(r) = r`. -/
theorem sprint_reprint_identity (env : Env) (r ty : List Byte) (h : tailBad r = false) :
    (sprint env [.redactable r ty]).output = some r := by
  have e : defaultFuel = 99996 + 4 := rfl
  unfold sprint
  rw [e]
  simp only [doPrint, doPrintLoop]
  have c0 : ¬ (0 > 0 ∧ (!isStringKind (Val.redactable r ty)) = true ∧ (!false) = true) := by simp
  rw [if_neg c0]
  have ho : newPP.override ≠ .ovUnsafe := by decide
  rw [if_pos ho]
  rw [printArg_redactable env 99996 _ r ty 118 (by decide) (by decide)]
  simp only [Res.bind, Res.output]
  have hb : newPP.buf.setMode .safeEsc = { Buffer.init with mode := .safeEsc } := init_setSafe
  simp only [hb]
  exact congrArg some (raw_into_empty r h)

/-- **`Sprintf(d, r) = r`** for every directive `d` = `%` flags width precision verb
with a verb other than `%T`/`%p` that takes the fast path or the slow path; stated
for the bare one-directive formats `%<verb>` with a lower-case ASCII verb. -/
theorem sprintf_reprint_identity (env : Env) (r ty : List Byte) (c : Byte) (h : tailBad r = false)
    (hc : 0x61 ≤ c ∧ c ≤ 0x7A) (hv : c.toNat ≠ 112) :
    (sprintf env [0x25, c] [.redactable r ty]).output = some r := by
  have hne : c ≠ 0x25 ∧ c ≠ 0x23 ∧ c ≠ 0x30 ∧ c ≠ 0x2B ∧ c ≠ 0x2D ∧ c ≠ 0x20 := by
    have h1 := hc.1
    refine ⟨?_, ?_, ?_, ?_, ?_, ?_⟩ <;> (intro heq; rw [heq] at h1; exact absurd h1 (by decide))
  have hT : c.toNat ≠ 84 := by
    intro heq
    have : c = 84 := by apply UInt8.toNat_inj.mp; simpa using heq
    rw [this] at hc; exact absurd hc.1 (by decide)
  have hpf : parseFlags true {} [c] = ({}, [c]) := by
    rw [parseFlags]; simp [hne.2.1, hne.2.2.1, hne.2.2.2.1, hne.2.2.2.2.1, hne.2.2.2.2.2]
  -- symbolic fuel: unfold exactly the calls that are executed
  have gen : ∀ n, ∃ q, doPrintf env (n + 6) newPP [0x25, c] [.redactable r ty] = .ok q ∧
      q.buf = ((({ Buffer.init with mode := .safeEsc } : Buffer).setMode .raw).write r).setMode .safeEsc := by
    intro n
    have ho : newPP.override ≠ .ovUnsafe := by decide
    rw [doPrintf]
    simp only [ho, if_true, ne_eq, not_false_eq_true]
    rw [fmtLoop]
    simp only [List.takeWhile, List.dropWhile, ne_eq, decide_not, decide_true, Bool.not_true, List.isEmpty_nil, if_true,
      hpf, hc.1, hc.2, and_self, List.length_singleton, Nat.lt_one_iff, true_and]
    simp only [List.getElem?_cons_zero]
    have hb : newPP.buf.setMode .safeEsc = { Buffer.init with mode := .safeEsc } := init_setSafe
    by_cases hcv : c = 118
    · simp only [hcv, if_true]
      rw [show n + 4 = (n + 2) + 2 from rfl, printArg_redactable env (n + 2) _ r ty _ (by decide) (by decide)]
      simp only [Res.bind]
      rw [fmtLoop]
      simp only [List.takeWhile, List.dropWhile, List.isEmpty_nil, if_true]
      rw [finishPrintf]
      have hb' : ((({} : Buffer)).setMode .safeEsc) = { Buffer.init with mode := .safeEsc } := by decide
      simp [newPP, hb']
    · simp only [hcv, if_false]
      rw [show n + 4 = (n + 2) + 2 from rfl, printArg_redactable env (n + 2) _ r ty _ ⟨hT, hv⟩ (by decide)]
      simp only [Res.bind]
      rw [fmtLoop]
      simp only [List.takeWhile, List.dropWhile, List.isEmpty_nil, if_true]
      rw [finishPrintf]
      have hb' : ((({} : Buffer)).setMode .safeEsc) = { Buffer.init with mode := .safeEsc } := by decide
      simp [newPP, hb']
  have e : defaultFuel = 99994 + 6 := rfl
  unfold sprintf
  rw [e]
  obtain ⟨q, hq, hbuf⟩ := gen 99994
  rw [hq]
  simp only [Res.output, hbuf]
  exact congrArg some (raw_into_empty r h)

/-! Non-vacuity -/
example : tailBad (startB ++ [0x78] ++ endB) = false ∧ Obtainable (startB ++ [0x78] ++ endB) := by decide

end Redact
