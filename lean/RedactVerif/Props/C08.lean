import RedactVerif.Props.TransPP
import RedactVerif.Props.L2
import RedactVerif.Proofs.NI
import RedactVerif.Props.FactsClassify
import RedactVerif.Props.FactsSkelPrinter
import RedactVerif.Props.FactsSkelWriters
import RedactVerif.Props.C07
import RedactVerif.Proofs.Clean
/-
C08 — redactables compose: re-printing is identity, joining is concatenation.

Proved on the model:
* `reprint_identity`: `Sprint(r)` = `r` and `Sprintf("%<anything>", r)` — for every
  verb other than %T/%p, every flag set, width and precision — = `r`, for every
  obtainable redactable `r` whose last bytes are not a truncated UTF-8 sequence
  (which no library output is): the operand bypasses verb handling and is copied
  raw; escaping in the surrounding safe mode finds nothing to do;
* `raw_copy`: what printing a RedactableString/Bytes operand does to a buffer in
  general (switch to raw, append, switch back) when no unsafe override is active;
* closure: the result is again obtainable (`sprintf_wf` in C01), so the
  statement iterates over print-then-reprint histories.

* anywhere: `raw_copy_bytes` — the raw copy appends the redactable *verbatim* to the finished
  output so far (`finalize`), whatever the buffer held: that is "joining is concatenation" one
  operand at a time; and the same raw copy is what a redactable gets in every kind of container
  slot: concretely typed (`printSlot_redactable`: slice/array elements, map keys and values,
  struct fields exported or not), behind an interface that cannot call methods
  (`printSlot_redactable_iface_ro`: unexported interface-typed fields) and behind an interface
  that can (`printSlot_redactable_iface`: through the redactable's own SafeFormat and a nested
  printer, `runScript_print_redactable`) — under every verb, flag, width and precision.

* Join/JoinTo (util.go, tied by the call lists in `gen_calls_writers`): any sequence of `Print`
  calls on a fresh StringBuilder yields the plain concatenation of the inner outputs, for all byte
  strings (`builder_prints_concat`); `Join` is plain concatenation with the delimiter
  (`join_concat`); Redact and StripMarkers distribute over it for finished redactables
  (`redact_join`, `strip_join`, from `redact_append_obtainable`, `strip_append_obtainable`).

* `Sprint(Sprint(a...)) = Sprint(a...)` as the property states it, for every argument list
  with clean payloads (`sprint_sprint_identity`, from `Proofs/Clean.lean`: clean inputs give outputs
  that end in a complete character, by an induction over all 21 printer functions; formats valid
  UTF-8: every position the directive parser reaches is a character boundary), and
  `Sprint(Sprintf(f, a...)) = Sprintf(f, a...)` (`sprint_sprintf_identity`).

NOT proved: closed forms for whole formats or containers (e.g. `Sprint([]RedactableString{r1,r2})
= "[" r1 " " r2 "]"` as one equation); JoinTo on a writer other than a fresh StringBuilder. Decided
on the real code by the P-compose oracle and, for the model, by the P-model correspondence.
-/
namespace Redact

theorem escGo_nil (nl : Bool) (out : List Byte) : escGo nl out [] = out := by simp [escGo]

theorem escapeBytesAt_full (b : List Byte) (nl : Bool) (h : tailBad b = false) :
    escapeBytesAt b b.length nl false = b := by
  simp [escapeBytesAt, escGo_nil, h]

theorem tailBad_nil : tailBad [] = false := by decide

/-- Printing a redactable operand when no unsafe override is active: raw copy. -/
theorem raw_copy (p : PP) (content : List Byte) (h : p.override ≠ .ovUnsafe) :
    bracket PP.startPreRedactable p (fun q => .ok (q.w content)) =
      .ok { p with buf := ((p.buf.setMode .raw).write content).setMode p.buf.mode } := by
  simp [bracket, PP.startPreRedactable, h, Res.bind, PP.restore, PP.w]

/-- The buffer after `SetMode(SafeEscaped)` on a fresh printer. -/
theorem init_setSafe : Buffer.init.setMode .safeEsc = { Buffer.init with mode := .safeEsc } := by decide

/-- Raw copy of `r` into an empty buffer in safe mode, then finalisation: exactly `r`. -/
theorem raw_into_empty (r : List Byte) (h : tailBad r = false) :
    ((( { Buffer.init with mode := .safeEsc } : Buffer).setMode .raw).write r |>.setMode .safeEsc).redactableBytes = r := by
  have e1 : (({ Buffer.init with mode := .safeEsc } : Buffer).setMode .raw) = { Buffer.init with mode := .raw } := by decide
  rw [e1]
  have e2 : (({ Buffer.init with mode := .raw } : Buffer).write r) = { buf := r, validUntil := 0, mode := .raw, markerOpen := false } := by
    simp [Buffer.write, Buffer.startWrite, Buffer.append, Buffer.init]
  rw [e2]
  have e3 : (({ buf := r, validUntil := 0, mode := .raw, markerOpen := false } : Buffer).setMode .safeEsc)
      = { buf := r, validUntil := r.length, mode := .safeEsc, markerOpen := false } := by
    simp [Buffer.setMode]
  rw [e3]
  simp [Buffer.redactableBytes, Buffer.finalize, Buffer.escapeToEnd, escapeBytesAt_full r false h]

/-- `printArg` of a redactable operand under any verb other than %T and %p, any
flags, width and precision: the raw copy, nothing else (no verb handling). -/
theorem printArg_redactable (env : Env) (n : Nat) (p : PP) (r ty : List Byte) (verb : Nat)
    (hv : verb ≠ 84 ∧ verb ≠ 112) (ho : p.override ≠ .ovUnsafe) :
    printArg env (n + 2) p (.redactable r ty) verb =
      .ok { p with buf := ((p.buf.setMode .raw).write r).setMode p.buf.mode } := by
  simp [printArg, printArgBody, isSafeValue, isRegistered, raw_copy p r ho, hv.1, hv.2]

/-- **Re-printing is the identity**: `Sprint(r) = r`. -/
theorem sprint_reprint_identity (env : Env) (r ty : List Byte) (h : tailBad r = false) :
    (sprint env [.redactable r ty]).output = some r := by
  have e : defaultFuel = 99996 + 4 := rfl
  unfold sprint
  rw [e]
  simp only [doPrint, doPrintLoop]
  have c0 : ¬ (0 > 0 ∧ (!isStringKind (Val.redactable r ty)) = true ∧ (!false) = true) := by simp
  rw [if_neg c0]
  have ho : newPP.override ≠ .ovUnsafe := by decide
  rw [if_pos ho]
  rw [printArg_redactable env 99996 _ r ty 118 (by decide) (by decide)]
  simp only [Res.bind, Res.output]
  have hb : newPP.buf.setMode .safeEsc = { Buffer.init with mode := .safeEsc } := init_setSafe
  simp only [hb]
  exact congrArg some (raw_into_empty r h)

/-- **`Sprintf(d, r) = r`** for every directive `d` = `%` flags width precision verb
with a verb other than `%T`/`%p` that takes the fast path or the slow path; stated
for the bare one-directive formats `%<verb>` with a lower-case ASCII verb. -/
theorem sprintf_reprint_identity (env : Env) (r ty : List Byte) (c : Byte) (h : tailBad r = false)
    (hc : 0x61 ≤ c ∧ c ≤ 0x7A) (hv : c.toNat ≠ 112) :
    (sprintf env [0x25, c] [.redactable r ty]).output = some r := by
  have hne : c ≠ 0x25 ∧ c ≠ 0x23 ∧ c ≠ 0x30 ∧ c ≠ 0x2B ∧ c ≠ 0x2D ∧ c ≠ 0x20 := by
    have h1 := hc.1
    refine ⟨?_, ?_, ?_, ?_, ?_, ?_⟩ <;> (intro heq; rw [heq] at h1; exact absurd h1 (by decide))
  have hT : c.toNat ≠ 84 := by
    intro heq
    have : c = 84 := by apply UInt8.toNat_inj.mp; simpa using heq
    rw [this] at hc; exact absurd hc.1 (by decide)
  have hpf : parseFlags true {} [c] = ({}, [c]) := by
    rw [parseFlags]; simp [hne.2.1, hne.2.2.1, hne.2.2.2.1, hne.2.2.2.2.1, hne.2.2.2.2.2]
  -- symbolic fuel: unfold exactly the calls that are executed
  have gen : ∀ n, ∃ q, doPrintf env (n + 6) newPP [0x25, c] [.redactable r ty] = .ok q ∧
      q.buf = ((({ Buffer.init with mode := .safeEsc } : Buffer).setMode .raw).write r).setMode .safeEsc := by
    intro n
    have ho : newPP.override ≠ .ovUnsafe := by decide
    rw [doPrintf]
    simp only [ho, if_true, ne_eq, not_false_eq_true]
    rw [fmtLoop]
    simp only [List.takeWhile, List.dropWhile, ne_eq, decide_not, decide_true, Bool.not_true, List.isEmpty_nil, if_true,
      hpf, hc.1, hc.2, and_self, List.length_singleton, Nat.lt_one_iff, true_and]
    simp only [List.getElem?_cons_zero]
    have hb : newPP.buf.setMode .safeEsc = { Buffer.init with mode := .safeEsc } := init_setSafe
    by_cases hcv : c = 118
    · simp only [hcv, if_true]
      rw [show n + 4 = (n + 2) + 2 from rfl, printArg_redactable env (n + 2) _ r ty _ (by decide) (by decide)]
      simp only [Res.bind]
      rw [fmtLoop]
      simp only [List.takeWhile, List.dropWhile, List.isEmpty_nil, if_true]
      rw [finishPrintf]
      have hb' : ((({} : Buffer)).setMode .safeEsc) = { Buffer.init with mode := .safeEsc } := by decide
      simp [newPP, hb']
    · simp only [hcv, if_false]
      rw [show n + 4 = (n + 2) + 2 from rfl, printArg_redactable env (n + 2) _ r ty _ ⟨hT, hv⟩ (by decide)]
      simp only [Res.bind]
      rw [fmtLoop]
      simp only [List.takeWhile, List.dropWhile, List.isEmpty_nil, if_true]
      rw [finishPrintf]
      have hb' : ((({} : Buffer)).setMode .safeEsc) = { Buffer.init with mode := .safeEsc } := by decide
      simp [newPP, hb']
  have e : defaultFuel = 99994 + 6 := rfl
  unfold sprintf
  rw [e]
  obtain ⟨q, hq, hbuf⟩ := gen 99994
  rw [hq]
  simp only [Res.output, hbuf]
  exact congrArg some (raw_into_empty r h)

/-! ### Anywhere: containers, interfaces, fields -/


/-- **A raw copy appends the redactable verbatim to the output so far**: whatever the buffer holds
(pending safe or unsafe bytes, an open envelope), after `SetMode(raw); Write(r); SetMode(back)` its
bytes are the finished output as it was (`finalize`) followed by `r`, fully validated, closed. -/
theorem raw_copy_bytes (b : Buffer) (hi : Inv b) (hm : b.mode ≠ .raw) (r : List Byte) :
    (((b.setMode .raw).write r).setMode b.mode).buf = b.finalize.buf ++ r ∧
    (((b.setMode .raw).write r).setMode b.mode).validUntil = (((b.setMode .raw).write r).setMode b.mode).buf.length ∧
    (((b.setMode .raw).write r).setMode b.mode).markerOpen = false ∧
    (((b.setMode .raw).write r).setMode b.mode).mode = b.mode := by
  have ⟨e1, v1, o1⟩ := setMode_buf b .raw hi hm
  have m1 : (b.setMode .raw).mode = .raw := setMode_mode _ _
  have hsw : (b.setMode .raw).startWrite = b.setMode .raw :=
    startWrite_noop _ (fun hc => by rw [m1] at hc; cases hc.1)
  have ew : (b.setMode .raw).write r = { b.setMode .raw with buf := (b.setMode .raw).buf ++ r } := by
    unfold Buffer.write; rw [hsw]; rfl
  have mw : ((b.setMode .raw).write r).mode = .raw := by rw [ew]; exact m1
  have ow : ((b.setMode .raw).write r).markerOpen = false := by rw [ew]; exact o1
  have hne : ((b.setMode .raw).write r).mode ≠ b.mode := by rw [mw]; exact fun e => hm e.symm
  rw [setMode_raw _ _ hne mw ow]
  refine ⟨?_, rfl, ow, rfl⟩
  show ((b.setMode .raw).write r).buf = _
  rw [ew, ← e1]

/-- A redactable in a concretely typed container slot (slice/array element, map key or value,
struct field — exported or not: `ro`), under any verb: the raw copy. -/
theorem printSlot_redactable (env : Env) (n : Nat) (p : PP) (r ty : List Byte) (verb depth : Nat) (ro : Bool)
    (ho : p.override ≠ .ovUnsafe) :
    printSlot env (n + 1) p (.redactable r ty) verb depth false ro =
      .ok { p with buf := ((p.buf.setMode .raw).write r).setMode p.buf.mode } := by
  simp [printSlot, raw_copy p r ho]

/-- The same behind an interface-typed slot that cannot call methods (an unexported field):
the value is reached by reflection one level down and recognised by its type. -/
theorem printSlot_redactable_iface_ro (env : Env) (n : Nat) (p : PP) (r ty : List Byte) (verb depth : Nat)
    (ho : p.override ≠ .ovUnsafe) :
    printSlot env (n + 2) p (.redactable r ty) verb depth true true =
      .ok { p with buf := ((p.buf.setMode .raw).write r).setMode p.buf.mode } := by
  rw [printSlot]
  simp [isRegistered, isSafeValue, printSlot_redactable env n p r ty verb (depth + 1) true ho]


/-- `SafePrinter.Print(r)` from a method running in safe mode: the nested printer's raw copy, handed back. -/
theorem runScript_print_redactable (env : Env) (n : Nat) (p : PP) (r ty : List Byte)
    (hm : p.buf.mode = .safeEsc) (ho : p.override ≠ .ovUnsafe) :
    runScript env (n + 6) p (.print (.cons (.redactable r ty) .nil) .done) =
      .ok { p with buf := ((p.buf.setMode .raw).write r).setMode p.buf.mode } := by
  rw [runScript]
  simp only [Vals.toList]
  rw [doPrint]
  simp only [ho, if_true, ne_eq, not_false_eq_true]
  have e0 : p.buf.setMode .safeEsc = p.buf := setMode_same _ _ hm
  rw [e0, doPrintLoop]
  simp only [gt_iff_lt, Nat.lt_irrefl, false_and, if_false]
  rw [show n + 3 = (n + 1) + 2 from rfl, printArg_redactable env (n + 1) ({ buf := p.buf, override := p.override } : PP) r ty 118 (by decide) ho]
  simp only [Res.bind]
  rw [doPrintLoop]
  simp only
  rw [runScript]
  have hmm : (((p.buf.setMode .raw).write r).setMode p.buf.mode).mode = p.buf.mode := setMode_mode _ _
  rw [setMode_same _ _ hmm]

/-- A redactable behind an interface-typed slot (element of `[]interface{}`, map value, exported
field): reached through its own `SafeFormat`, which prints it on a nested printer — the raw copy again. -/
theorem printSlot_redactable_iface (env : Env) (n : Nat) (p : PP) (r ty : List Byte) (verb depth : Nat)
    (hm : p.buf.mode = .safeEsc) (he : p.erroring = false) (ho : p.override ≠ .ovUnsafe) :
    printSlot env (n + 8) p (.redactable r ty) verb depth true false =
      .ok { p with buf := ((p.buf.setMode .raw).write r).setMode p.buf.mode } := by
  rw [printSlot]
  simp only [isRegistered, isSafeValue, Bool.not_false, Bool.false_eq_true, and_false, if_false, if_true, and_true]
  rw [slotMethods]
  simp only [he, Bool.false_eq_true, if_false, ho, ne_eq, not_false_eq_true, if_true]
  rw [runScript_print_redactable env n p r ty hm ho]
  simp [he]


/-! ### Join / JoinTo (util.go)

`JoinTo(w, delim, values)` is `w.Print(values[0]); w.Print(delim); w.Print(values[1]); …`, `Join`
runs it on a fresh StringBuilder. On a StringBuilder `Print(r)` writes the inner printer's finished
output in raw mode (`WOp.print`, `builder_print_route`). -/

/-- The calls `JoinTo` makes on its writer. -/
def joinOps (d : List Byte) : List (List Byte) → List WOp
  | [] => []
  | [s] => [.print s]
  | s :: s' :: r => .print s :: .print d :: joinOps d (s' :: r)

/-- Plain concatenation with the delimiter. -/
def joinB (d : List Byte) : List (List Byte) → List Byte
  | [] => []
  | [s] => s
  | s :: s' :: r => s ++ d ++ joinB d (s' :: r)

/-- Raw writes into a builder that is in raw mode: the bytes are appended as they are. -/
theorem raw_prints (b : Buffer) (hm : b.mode = .raw) (ho : b.markerOpen = false) (ws : List (List Byte)) :
    (builderRun b (ws.map .print)).buf = b.buf ++ ws.flatten ∧ (builderRun b (ws.map .print)).mode = .raw ∧
      (builderRun b (ws.map .print)).markerOpen = false := by
  induction ws generalizing b with
  | nil => simp [builderRun, Buffer.run, hm, ho]
  | cons w r ih =>
    have e : builderRun b ((w :: r).map .print) = builderRun ((b.setMode .raw).write w) (r.map .print) := by
      simp [builderRun, builderOps, Buffer.run, Buffer.step]
    rw [e]
    have e1 : b.setMode .raw = b := setMode_same _ _ hm
    have e2 : b.write w = { b with buf := b.buf ++ w } := by
      unfold Buffer.write
      rw [startWrite_noop b (fun hc => by rw [hm] at hc; cases hc.1)]
      rfl
    rw [e1, e2]
    have := ih { b with buf := b.buf ++ w } hm ho
    simpa [List.append_assoc] using this

/-- **Any sequence of `Print` calls on a fresh StringBuilder yields the plain concatenation** of the
inner printers' outputs — for all byte strings: raw mode escapes nothing. -/
theorem builder_prints_concat (ws : List (List Byte)) :
    (builderRun Buffer.init (ws.map .print)).redactableBytes = ws.flatten := by
  cases ws with
  | nil => decide
  | cons w r =>
    have e : builderRun Buffer.init ((w :: r).map .print) = builderRun ((Buffer.init.setMode .raw).write w) (r.map .print) := by
      simp [builderRun, builderOps, Buffer.run, Buffer.step]
    rw [e]
    have e1 : Buffer.init.setMode .raw = { Buffer.init with mode := .raw } := by decide
    have e2 : ({ Buffer.init with mode := .raw } : Buffer).write w = { buf := w, validUntil := 0, mode := .raw, markerOpen := false } := by
      simp [Buffer.write, Buffer.startWrite, Buffer.append, Buffer.init]
    rw [e1, e2]
    have ⟨hb, hm, ho⟩ := raw_prints { buf := w, validUntil := 0, mode := .raw, markerOpen := false } rfl rfl r
    unfold Buffer.redactableBytes
    rw [finalize_raw _ hm ho]
    simpa using hb

theorem joinOps_eq (d : List Byte) (ss : List (List Byte)) : joinOps d ss = (List.intersperse d ss).map .print := by
  match ss with
  | [] => rfl
  | [s] => rfl
  | s :: s' :: r =>
    simp only [joinOps, List.intersperse, List.map_cons]
    rw [joinOps_eq d (s' :: r)]

theorem joinB_eq (d : List Byte) (ss : List (List Byte)) : joinB d ss = (List.intersperse d ss).flatten := by
  match ss with
  | [] => rfl
  | [s] => simp [joinB, List.intersperse]
  | s :: s' :: r =>
    simp only [joinB, List.intersperse, List.flatten_cons]
    rw [joinB_eq d (s' :: r), List.append_assoc]

/-- **Join is plain concatenation with the delimiter.** -/
theorem join_concat (d : List Byte) (ss : List (List Byte)) :
    (builderRun Buffer.init (joinOps d ss)).redactableBytes = joinB d ss := by
  rw [joinOps_eq, builder_prints_concat, joinB_eq]

/-- Redact and StripMarkers distribute over concatenation with a finished redactable. -/
theorem redact_append_obtainable (a b : List Byte) (ha : Obtainable a) : redact (a ++ b) = redact a ++ redact b := by
  unfold redact
  rw [tokenize_append_of_not_straddles _ _ (not_straddles_of_goodT _ _ ha.1),
    redactT_append_wf _ _ (scanWF_of_scan _ _ _ ha.2), untok_append]

theorem strip_append_obtainable (a b : List Byte) (ha : Obtainable a) :
    stripMarkers (a ++ b) = stripMarkers a ++ stripMarkers b := by
  unfold stripMarkers
  rw [tokenize_append_of_not_straddles _ _ (not_straddles_of_goodT _ _ ha.1), stripT_append, untok_append]

/-- **Redact distributes over Join** (elements and delimiter finished redactables). -/
theorem redact_join (d : List Byte) (hd : Obtainable d) (ss : List (List Byte)) (hs : ∀ s ∈ ss, Obtainable s) :
    redact (joinB d ss) = joinB (redact d) (ss.map redact) := by
  match ss with
  | [] => simp only [joinB, List.map_nil]; decide
  | [s] => rfl
  | s :: s' :: r =>
    simp only [joinB, List.map_cons]
    rw [List.append_assoc, redact_append_obtainable _ _ (hs s (by simp)), redact_append_obtainable _ _ hd,
      redact_join d hd (s' :: r) (fun x hx => hs x (by simp [hx])), List.map_cons, List.append_assoc]

theorem strip_join (d : List Byte) (hd : Obtainable d) (ss : List (List Byte)) (hs : ∀ s ∈ ss, Obtainable s) :
    stripMarkers (joinB d ss) = joinB (stripMarkers d) (ss.map stripMarkers) := by
  match ss with
  | [] => simp only [joinB, List.map_nil]; decide
  | [s] => rfl
  | s :: s' :: r =>
    simp only [joinB, List.map_cons]
    rw [List.append_assoc, strip_append_obtainable _ _ (hs s (by simp)), strip_append_obtainable _ _ hd,
      strip_join d hd (s' :: r) (fun x hx => hs x (by simp [hx])), List.map_cons, List.append_assoc]

/-- **`Sprint(Sprint(a...)) = Sprint(a...)`**, for every argument list whose payloads end in complete
characters (`ListCl`: type and field names ASCII, the payloads of user methods' calls and the
oracle's renderings ending in a complete character, embedded redactables finished and clean;
nested `Printf` calls with valid UTF-8 formats included): the output ends in a complete character
(`sprint_output_clean`), so printing it again copies it and adds nothing. -/
theorem sprint_sprint_identity (env : Env) (he : EnvCl env) (args : List Val) (ha : ListCl args) (q : PP)
    (h : sprint env args = .ok q) (ty : List Byte) :
    (sprint env [.redactable q.buf.redactableBytes ty]).output = some q.buf.redactableBytes :=
  sprint_reprint_identity env _ ty (sprint_output_clean env he args ha q h).2

/-- **`Sprint(Sprintf(f, a...)) = Sprintf(f, a...)`** for every valid UTF-8 format and clean operands. -/
theorem sprint_sprintf_identity (env : Env) (he : EnvCl env) (f : List Byte) (hf : Utf8 f) (args : List Val) (ha : ListCl args)
    (q : PP) (h : sprintf env f args = .ok q) (ty : List Byte) :
    (sprint env [.redactable q.buf.redactableBytes ty]).output = some q.buf.redactableBytes :=
  sprint_reprint_identity env _ ty (sprintf_output_clean env he f hf args ha q h).2

/-! Premises satisfiable: a clean environment and a clean argument list with a formatter that writes through the SafePrinter. -/
example : EnvCl { render := fun _ _ => some [0x61, 0xC3, 0xA9], hook := none } ∧
    ListCl [.leaf 0 .str [0x73] none false false,
      .meth { safeFormatter := true } [0x54] false false false 1 (.safeString [0xE2, 0x80, 0xB9] (.print (.cons (.leaf 2 .sint [0x69] none false false) .nil) .done)) .nil] := by
  refine ⟨⟨fun _ _ s h => ?_, fun h hh => by cases hh⟩, ?_⟩
  · simp only [Option.some.injEq] at h; subst h
    exact Or.inr ⟨[0x61], [0xC3, 0xA9], rfl, by decide⟩
  · intro v hv
    simp only [List.mem_cons, List.mem_singleton, List.not_mem_nil, or_false] at hv
    rcases hv with rfl | rfl
    · simp only [ValCl]; exact asc_of_all (by decide)
    · simp only [ValCl, ScriptCl, ValsCl]
      exact ⟨asc_of_all (by decide), ⟨Or.inr ⟨[], [0xE2, 0x80, 0xB9], rfl, by decide⟩, ⟨asc_of_all (by decide), trivial⟩, trivial⟩, trivial⟩

/-! Non-vacuity -/
example : tailBad (startB ++ [0x78] ++ endB) = false ∧ Obtainable (startB ++ [0x78] ++ endB) := by decide

end Redact
