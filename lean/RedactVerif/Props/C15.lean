import RedactVerif.Props.L2
import RedactVerif.Props.FactsReset
import RedactVerif.Props.FactsSkelPrinter
/-
C15 — HelperForErrorf returns the %w operand and the Sprintf text.

The `%w` logic of `handleMethods` stated outright on the model (the model's
`wrappedErr` is compared with the error the real `HelperForErrorf` returns by
the P-model correspondence, route `errorf`):

* a `%w` whose operand is an error, with capture enabled and nothing captured
  yet, captures it and renders like `%v` (`w_capture`);
* a second `%w`, a `%w` on a non-error value with methods, on a value without
  methods that reaches method dispatch, or a `%w` outside HelperForErrorf, is a
  bad verb and cancels the capture for good (`w_misuse_*`);
* known finding D8 as a theorem: a `%w` whose operand is of a predeclared basic
  type never reaches method dispatch — it is reported as a bad verb but a
  capture made earlier survives (`w_basic_does_not_cancel`).

FULL STATEMENT (not yet proved): the text equals Sprintf's / fmt.Errorf's for
every format. Decided on the real code by the P-errorf oracle.
-/
namespace Redact

theorem w_capture (env : Env) (n : Nat) (p : PP) (ms : Methods) (ty : List Byte) (sv reg nr : Bool) (ret : Nat)
    (sc : Script) (under : Val) (hne : p.erroring = false) (hwe : p.wrapErrs = true) (hnone : p.wrappedErr = none)
    (he : ms.isError = true) :
    handleMethods env (n + 1) p (.meth ms ty sv reg nr ret sc under) 119 =
      methDispatch env n { p with wrappedErr := some ret } (.meth ms ty sv reg nr ret sc under) ms nr ret sc 118 := by
  simp [handleMethods, hwe, hnone, he, hne]

theorem w_misuse_second (env : Env) (n : Nat) (p : PP) (ms : Methods) (ty : List Byte) (sv reg nr : Bool) (ret : Nat)
    (sc : Script) (under : Val) (hne : p.erroring = false) (e : Nat) (hsome : p.wrappedErr = some e) :
    handleMethods env (n + 1) p (.meth ms ty sv reg nr ret sc under) 119 =
      (true, badVerb env n { p with wrappedErr := none, wrapErrs := false } (.meth ms ty sv reg nr ret sc under) 119) := by
  simp [handleMethods, hsome, hne]

theorem w_misuse_non_error (env : Env) (n : Nat) (p : PP) (ms : Methods) (ty : List Byte) (sv reg nr : Bool) (ret : Nat)
    (sc : Script) (under : Val) (hne : p.erroring = false) (he : ms.isError = false) :
    handleMethods env (n + 1) p (.meth ms ty sv reg nr ret sc under) 119 =
      (true, badVerb env n { p with wrappedErr := none, wrapErrs := false } (.meth ms ty sv reg nr ret sc under) 119) := by
  simp [handleMethods, he, hne]

theorem w_misuse_outside_errorf (env : Env) (n : Nat) (p : PP) (ms : Methods) (ty : List Byte) (sv reg nr : Bool) (ret : Nat)
    (sc : Script) (under : Val) (hne : p.erroring = false) (hwe : p.wrapErrs = false) :
    handleMethods env (n + 1) p (.meth ms ty sv reg nr ret sc under) 119 =
      (true, badVerb env n { p with wrappedErr := none, wrapErrs := false } (.meth ms ty sv reg nr ret sc under) 119) := by
  simp [handleMethods, hwe, hne]

/-- Containers, structs, pointers: `%w` reaches `handleMethods`, the operand is not an error. -/
theorem w_misuse_no_methods (env : Env) (n : Nat) (p : PP) (ty : List Byte) (reg : Bool) (fs : Fields)
    (hne : p.erroring = false) :
    handleMethods env (n + 1) p (.struct ty reg fs) 119 =
      (true, badVerb env n { p with wrappedErr := none, wrapErrs := false } (.struct ty reg fs) 119) := by
  unfold handleMethods
  rw [if_neg (by simp [hne])]
  rfl

/-- Known finding D8: a `%w` on an operand of a predeclared basic type is reported
as a bad verb *without* touching the capture state. -/
theorem w_basic_does_not_cancel (env : Env) (n : Nat) (p : PP) (id : Nat) (k : BK) (ty : List Byte) (iv : Option Int)
    (hpre : isPredeclared ty = true) (hk : verbOkFor k 119 = false) :
    printArgBody env (n + 1) p (.leaf id k ty iv false false) 119 =
      badVerb env n p (.leaf id k ty iv false false) 119 false := by
  unfold printArgBody
  simp [hpre, hk]

/-- The frame of `badVerb`: it never changes `wrappedErr`/`wrapErrs` by itself
beyond what its caller set — stated for the bookkeeping of the report prefix. -/
theorem helper_starts_capturing : (({ newPP with wrapErrs := true } : PP)).wrapErrs = true ∧
    (({ newPP with wrapErrs := true } : PP)).wrappedErr = none := by decide

end Redact
