import RedactVerif.Props.L2
import RedactVerif.Props.FactsReset
import RedactVerif.Props.FactsSkelPrinter
import RedactVerif.Proofs.EqW
import RedactVerif.Proofs.EqF
/-
C15 — HelperForErrorf returns the %w operand and the Sprintf text.

The `%w` logic of `handleMethods` stated outright on the model (the model's
`wrappedErr` is compared with the error the real `HelperForErrorf` returns by
the P-model correspondence, route `errorf`):

* a `%w` whose operand is an error, with capture enabled and nothing captured
  yet, captures it and renders like `%v` (`w_capture`);
* a second `%w`, a `%w` on a non-error value with methods, on a value without
  methods that reaches method dispatch, or a `%w` outside HelperForErrorf, is a
  bad verb and cancels the capture for good (`w_misuse_*`);
* known finding D8 as a theorem: a `%w` whose operand is of a predeclared basic
  type never reaches method dispatch — it is reported as a bad verb but a
  capture made earlier survives (`w_basic_does_not_cancel`).

"The text is otherwise identical to Sprintf's": proved for every format without a `%w`
directive (`errorf_text_eq_sprintf`, over Proofs/EqW.lean: no function of the printer reads or
writes `wrapErrs`/`wrappedErr` unless it is handed the verb `w` — a two-run induction over all 21
functions). FULL STATEMENT (not yet proved): for formats *with* `%w`, the text is Sprintf's with
the correctly used `%w` spelled `%v`. Decided on the real code by the P-errorf oracle.
-/
namespace Redact

theorem w_capture (env : Env) (n : Nat) (p : PP) (ms : Methods) (ty : List Byte) (sv reg nr : Bool) (ret : Nat)
    (sc : Script) (under : Val) (hne : p.erroring = false) (hwe : p.wrapErrs = true) (hnone : p.wrappedErr = none)
    (he : ms.isError = true) :
    handleMethods env (n + 1) p (.meth ms ty sv reg nr ret sc under) 119 =
      methDispatch env n { p with wrappedErr := some ret } (.meth ms ty sv reg nr ret sc under) ms nr ret sc 118 := by
  simp [handleMethods, hwe, hnone, he, hne]

theorem w_misuse_second (env : Env) (n : Nat) (p : PP) (ms : Methods) (ty : List Byte) (sv reg nr : Bool) (ret : Nat)
    (sc : Script) (under : Val) (hne : p.erroring = false) (e : Nat) (hsome : p.wrappedErr = some e) :
    handleMethods env (n + 1) p (.meth ms ty sv reg nr ret sc under) 119 =
      (true, badVerb env n { p with wrappedErr := none, wrapErrs := false } (.meth ms ty sv reg nr ret sc under) 119) := by
  simp [handleMethods, hsome, hne]

theorem w_misuse_non_error (env : Env) (n : Nat) (p : PP) (ms : Methods) (ty : List Byte) (sv reg nr : Bool) (ret : Nat)
    (sc : Script) (under : Val) (hne : p.erroring = false) (he : ms.isError = false) :
    handleMethods env (n + 1) p (.meth ms ty sv reg nr ret sc under) 119 =
      (true, badVerb env n { p with wrappedErr := none, wrapErrs := false } (.meth ms ty sv reg nr ret sc under) 119) := by
  simp [handleMethods, he, hne]

theorem w_misuse_outside_errorf (env : Env) (n : Nat) (p : PP) (ms : Methods) (ty : List Byte) (sv reg nr : Bool) (ret : Nat)
    (sc : Script) (under : Val) (hne : p.erroring = false) (hwe : p.wrapErrs = false) :
    handleMethods env (n + 1) p (.meth ms ty sv reg nr ret sc under) 119 =
      (true, badVerb env n { p with wrappedErr := none, wrapErrs := false } (.meth ms ty sv reg nr ret sc under) 119) := by
  simp [handleMethods, hwe, hne]

/-- Containers, structs, pointers: `%w` reaches `handleMethods`, the operand is not an error. -/
theorem w_misuse_no_methods (env : Env) (n : Nat) (p : PP) (ty : List Byte) (reg : Bool) (fs : Fields)
    (hne : p.erroring = false) :
    handleMethods env (n + 1) p (.struct ty reg fs) 119 =
      (true, badVerb env n { p with wrappedErr := none, wrapErrs := false } (.struct ty reg fs) 119) := by
  unfold handleMethods
  rw [if_neg (by simp [hne])]
  rfl

/-- Known finding D8: a `%w` on an operand of a predeclared basic type is reported
as a bad verb *without* touching the capture state. -/
theorem w_basic_does_not_cancel (env : Env) (n : Nat) (p : PP) (id : Nat) (k : BK) (ty : List Byte) (iv : Option Int)
    (hpre : isPredeclared ty = true) (hk : verbOkFor k 119 = false) :
    printArgBody env (n + 1) p (.leaf id k ty iv false false) 119 =
      badVerb env n p (.leaf id k ty iv false false) 119 false := by
  unfold printArgBody
  simp [hpre, hk]

/-- The frame of `badVerb`: it never changes `wrappedErr`/`wrapErrs` by itself
beyond what its caller set — stated for the bookkeeping of the report prefix. -/
theorem helper_starts_capturing : (({ newPP with wrapErrs := true } : PP)).wrapErrs = true ∧
    (({ newPP with wrapErrs := true } : PP)).wrappedErr = none := by decide

/-! ### The text is Sprintf's (formats without a `%w` directive) -/

/-- **For every format none of whose directives has the verb `w`, `HelperForErrorf` prints exactly what `Sprintf`
prints**: the same bytes, or the same propagating panic — for all operands, whose methods may themselves use `%w`
in nested `Printf` calls (a nested printer never captures). -/
theorem errorf_text_eq_sprintf (env : Env) (f : List Byte) (args : List Val) (hf : EqW.NoW f) :
    (helperForErrorf env f args).output = (sprintf env f args).output := by
  have h := EqW.errorf_rel_sprintf env f args hf
  generalize sprintf env f args = a at h
  generalize helperForErrorf env f args = b at h
  cases h with
  | ok hq => simp only [Res.output]; rw [hq.buf]
  | panic b pl => rfl
  | fuel => rfl
  | unsupported => rfl

/-- … in particular for every format that does not contain the byte `w` (0x77): a verb `w` can only be spelled
with that byte — a verb decoded from a multi-byte sequence is at least 0x80 (`EqW.decodeVerb_w`). -/
theorem errorf_text_eq_sprintf_no_w_byte (env : Env) (f : List Byte) (args : List Val) (h : (0x77 : Byte) ∉ f) :
    (helperForErrorf env f args).output = (sprintf env f args).output :=
  errorf_text_eq_sprintf env f args (EqW.noW_of_not_mem f h)

/-- … and for ASCII formats without the letter `w` (the parser's fast path). -/
theorem errorf_text_eq_sprintf_ascii (env : Env) (f : List Byte) (args : List Val) (h : ∀ x ∈ f, x < 0x80 ∧ x ≠ 0x77) :
    (helperForErrorf env f args).output = (sprintf env f args).output :=
  errorf_text_eq_sprintf env f args (EqW.noW_of_ascii f h)

/-- **For a format without a `%w` directive `HelperForErrorf` returns no error** ("nil in every other case", for the
case of no `%w` at all): the capture field is still empty when the call returns (Proofs/EqF.lean: under a verb other
than `w` every function of the printer leaves `wrapErrs` and `wrappedErr` as it found them). -/
theorem errorf_returns_nil_without_w (env : Env) (f : List Byte) (args : List Val) (hf : EqW.NoW f) (q : PP)
    (h : helperForErrorf env f args = .ok q) : q.wrappedErr = none :=
  (EqF.doPrintf_keeps_capture env defaultFuel { newPP with wrapErrs := true } f args hf q h).2

/-- An operand printed under a verb other than `w` neither captures nor cancels a capture. -/
theorem printArg_keeps_capture (env : Env) (n : Nat) (p : PP) (v : Val) (verb : Nat) (hv : verb ≠ 119) (q : PP)
    (h : printArg env n p v verb = .ok q) : q.wrapErrs = p.wrapErrs ∧ q.wrappedErr = p.wrappedErr :=
  EqF.printArg_keeps_capture env n p v verb hv q h

/-- Every operand printed under a verb other than `w` is printed the same with and without capture enabled, whatever
has been captured so far (the operand-level statement behind the theorem above). -/
theorem printArg_ignores_capture (env : Env) (n : Nat) (p : PP) (a : Bool) (b : Option Nat) (v : Val) (verb : Nat)
    (hv : verb ≠ 119) :
    (printArg env n { p with wrapErrs := a, wrappedErr := b } v verb).output = (printArg env n p v verb).output := by
  have h := (EqW.espec_all env n).printArg p { p with wrapErrs := a, wrappedErr := b } v verb (EqW.eqv_setW p a b) hv
  generalize printArg env n p v verb = x at h
  generalize printArg env n { p with wrapErrs := a, wrappedErr := b } v verb = y at h
  cases h with
  | ok hq => simp only [Res.output]; rw [hq.buf]
  | panic b pl => rfl
  | fuel => rfl
  | unsupported => rfl

example : (0x77 : Byte) ∉ ([0xE2, 0x80, 0xB9, 0x25, 0x76, 0x20, 0x25, 0xE4, 0xB8, 0x96] : List Byte) := by decide

/-! Premises satisfiable: "x=%v %5d\n" is an ASCII format without `w`. -/
example : ∀ x ∈ ([0x78, 0x3D, 0x25, 0x76, 0x20, 0x25, 0x35, 0x64, 0x0A] : List Byte), x < 0x80 ∧ x ≠ 0x77 := by decide

end Redact
