import RedactVerif.Generated.Facts
/-
Regenerated facts, part 3: what the resetting functions assign (C12, C13, C15).
-/
namespace Redact

/-- `Buffer.Reset` assigns every field of `Buffer`. -/
theorem gen_reset_all : ∀ f ∈ Gen.bufferFields, f ∈ Gen.bufferResetAssigns := by decide

/-- `clearflags` forgets flags, width and precision (D7). -/
theorem gen_clearflags : ∀ f ∈ ["fmtFlags", "wid", "prec"], f ∈ Gen.clearflagsAssigns := by decide

/-- `free` drops the operand, its reflection and the wrapped error before pooling the printer. -/
theorem gen_free : ∀ f ∈ ["arg", "value", "wrappedErr"], f ∈ Gen.freeAssigns := by decide

/-- The printer state the model tracks is the printer state there is. -/
theorem gen_ppFields : Gen.ppFields = ["buf", "override", "arg", "value", "fmt", "reordered", "goodArgNum",
    "panicking", "erroring", "wrapErrs", "wrappedErr"] ∧
    Gen.bufferFields = ["buf", "validUntil", "mode", "markerOpen"] := by decide

/-- The two fields a recycled printer may carry over from its previous call (`reordered`,
`goodArgNum`: `newPrinter`/`free` do not reset them) are mentioned by `doPrintf` and `argNumber` only,
and `argNumber` is called from `doPrintf` only — which assigns both before reading them
(`doPrintf_ignores_stale`). No other function of the package, `doPrint` and everything it reaches
included, can depend on them. -/
theorem gen_stale_field_users :
    Gen.reorderedUsers = ["pp.argNumber", "pp.doPrintf"] ∧ Gen.goodArgNumUsers = ["pp.argNumber", "pp.doPrintf"] ∧
    Gen.argNumberCallers = ["pp.doPrintf"] := by decide

end Redact
