import RedactVerif.Props.L2
import RedactVerif.Proofs.Equivar
import RedactVerif.Props.FactsReset
import RedactVerif.Props.FactsSkelPrinter
/-
C12 — a print call's result depends only on its own arguments.

Histories. The pool hands out recycled printers; what a recycled printer still
carries is modelled by `freeP`/`newPrinterP` (print.go `free`, `newPrinter`).
Proved:
* every entry point returns the printer with the override it started with
  (`override_restored`, from the frame theorem) — so a printer that went in with
  `noOverride` is recycled with `noOverride`, whatever user methods, nested
  printers, wrappers and caught panics the call involved;
* a recycled printer equals a fresh one except for the fields `reordered` and
  `goodArgNum` (`recycled_eq_fresh`), and `doPrintf` overwrites both before
  reading them (`doPrintf_ignores_stale`): Sprintf/Fprintf/HelperForErrorf on a
  recycled printer compute exactly what they compute on a fresh one.

* the same for `doPrint`: none of the 16 functions reachable from it depends on the two fields
  (`Proofs/Equivar.lean`, `espec_all`: two runs from printers equal up to these fields end in
  printers equal up to them, at every fuel) — hence `sprint_on_recycled`,
  `sprint_history_independent` and the mixed histories (`sprint_after_sprintf_independent`,
  `sprintf_after_sprint_independent`). The regenerated fact `gen_stale_field_users` says the
  same of the Go code syntactically.

Not a theorem: everything about schedules (sync.Pool, the Go memory model, data races); the
harness explores it (histories followed by probes compared with a fresh process,
pooled printers inspected through the verif hook, 16 goroutines).
-/
namespace Redact

theorem override_restored_printf (env : Env) (he : EnvOk env) (n : Nat) (p : PP) (hp : Pre p) (f : List Byte)
    (args : List Val) (ha : ListOk args) (q : PP) (h : doPrintf env n p f args = .ok q) : q.override = p.override :=
  (doPrintf_out env he n p hp f args ha q h).2

theorem override_restored_print (env : Env) (he : EnvOk env) (n : Nat) (p : PP) (hp : Pre p)
    (args : List Val) (ha : ListOk args) (q : PP) (h : doPrint env n p args = .ok q) : q.override = p.override :=
  (doPrint_out env he n p hp args ha q h).2

/-- `free` after `Take…`: the buffer is reset, the captured error is dropped. -/
def freeP (q : PP) : PP := { q with buf := Buffer.init, wrappedErr := none }

/-- `newPrinter` on a pooled printer: panicking, erroring, wrapErrs and the fmt flags are re-initialised. -/
def newPrinterP (q : PP) : PP := { q with panicking := false, erroring := false, wrapErrs := false, f := {} }

/-- A printer that finished a call with `noOverride` is, once recycled, a fresh
printer up to the two fields that `doPrintf` sets before reading. -/
theorem recycled_eq_fresh (q : PP) (ho : q.override = .no) :
    newPrinterP (freeP q) = { newPP with reordered := q.reordered, goodArgNum := q.goodArgNum } := by
  cases q
  simp_all [newPrinterP, freeP, newPP, Buffer.init]

/-- `doPrintf` does not depend on stale `reordered` / `goodArgNum`. -/
theorem doPrintf_ignores_stale (env : Env) (n : Nat) (p : PP) (x y : Bool) (f : List Byte) (args : List Val) :
    doPrintf env (n + 2) { p with reordered := x, goodArgNum := y } f args = doPrintf env (n + 2) p f args := by
  by_cases h : p.override = .ovUnsafe <;> simp [doPrintf, fmtLoop, h]

/-- **Sprintf on a recycled printer = Sprintf on a fresh printer**, for every
previous call that ended with `noOverride` (which the frame theorem guarantees). -/
theorem sprintf_on_recycled (env : Env) (q : PP) (ho : q.override = .no) (f : List Byte) (args : List Val) :
    doPrintf env defaultFuel (newPrinterP (freeP q)) f args = sprintf env f args := by
  rw [recycled_eq_fresh q ho]
  exact doPrintf_ignores_stale env _ newPP _ _ f args

/-- End-to-end: after ANY Sprintf call that returned, recycling its printer
and calling Sprintf again gives what a fresh printer gives. -/
theorem sprintf_history_independent (env : Env) (he : EnvOk env) (f₁ : List Byte) (args₁ : List Val)
    (ha : ListOk args₁) (q : PP) (h : sprintf env f₁ args₁ = .ok q) (f₂ : List Byte) (args₂ : List Val) :
    doPrintf env defaultFuel (newPrinterP (freeP q)) f₂ args₂ = sprintf env f₂ args₂ := by
  have ho : q.override = .no := (doPrintf_out env he _ newPP pre_newPP f₁ args₁ ha q h).2
  exact sprintf_on_recycled env q ho f₂ args₂

theorem output_of_relR {r r' : Res} (h : RelR r r') : r'.output = r.output := by
  cases h with
  | ok hq => simp only [Res.output]; rw [hq.buf]
  | panic b pl => rfl
  | fuel => rfl
  | unsupported => rfl

/-- **Sprint on a recycled printer = Sprint on a fresh printer**: `doPrint` and everything it reaches
compute the same whatever the two fields a recycled printer carries over hold (`Proofs/Equivar.lean`:
`espec_all`, for the 16 functions reachable from `doPrint`, at every fuel). -/
theorem sprint_on_recycled (env : Env) (q : PP) (ho : q.override = .no) (args : List Val) :
    (doPrint env defaultFuel (newPrinterP (freeP q)) args).output = (sprint env args).output := by
  rw [recycled_eq_fresh q ho]
  exact output_of_relR ((espec_all env defaultFuel).doPrint newPP _ args ⟨rfl, rfl, rfl, rfl, rfl, rfl, rfl⟩)

/-- End to end: after ANY Sprint or Sprintf call that returned, recycling its printer and calling
Sprint gives what a fresh printer gives. -/
theorem sprint_history_independent (env : Env) (he : EnvOk env) (args₁ : List Val) (ha : ListOk args₁) (q : PP)
    (h : sprint env args₁ = .ok q) (args₂ : List Val) :
    (doPrint env defaultFuel (newPrinterP (freeP q)) args₂).output = (sprint env args₂).output := by
  have ho : q.override = .no := (doPrint_out env he _ newPP pre_newPP args₁ ha q h).2
  exact sprint_on_recycled env q ho args₂

theorem sprint_after_sprintf_independent (env : Env) (he : EnvOk env) (f₁ : List Byte) (args₁ : List Val) (ha : ListOk args₁)
    (q : PP) (h : sprintf env f₁ args₁ = .ok q) (args₂ : List Val) :
    (doPrint env defaultFuel (newPrinterP (freeP q)) args₂).output = (sprint env args₂).output := by
  have ho : q.override = .no := (doPrintf_out env he _ newPP pre_newPP f₁ args₁ ha q h).2
  exact sprint_on_recycled env q ho args₂

/-- And Sprintf after any Sprint call. -/
theorem sprintf_after_sprint_independent (env : Env) (he : EnvOk env) (args₁ : List Val) (ha : ListOk args₁)
    (q : PP) (h : sprint env args₁ = .ok q) (f₂ : List Byte) (args₂ : List Val) :
    doPrintf env defaultFuel (newPrinterP (freeP q)) f₂ args₂ = sprintf env f₂ args₂ := by
  have ho : q.override = .no := (doPrint_out env he _ newPP pre_newPP args₁ ha q h).2
  exact sprintf_on_recycled env q ho f₂ args₂

end Redact
