import RedactVerif.Props.TransPP
import RedactVerif.Proofs.Plain
import RedactVerif.Proofs.Lab
import RedactVerif.Props.C02
import RedactVerif.Props.FactsSkelBuffer
import RedactVerif.Props.TransBuffer
import RedactVerif.Props.TransBuilder
import RedactVerif.Props.FactsSkelWriters
/-
C09 — SafeWriter contract: each payload lands once, in order, on its own side.

Well-formedness and line safety of every call sequence is C01 (`builder_wf`,
`adapter_wf`, `buffer_wf`). Here the two equalities, for `builder.StringBuilder`
(through it the buffer) and the printer's SafeWriter adapter, and every sequence
of SafeWriter calls whose payloads are empty or end in a complete UTF-8
character (every valid-UTF-8 payload does; before its last character a payload
may hold anything: markers, partial markers, invalid sequences, line feeds):

* `builder_strip`: with markers stripped, the result is the concatenation, in
  call order, of the payloads with marker characters replaced by `?`;
* `builder_dropEnv`: with envelopes deleted, it is the concatenation of the
  safe payloads (markers replaced by `?`), the line feeds of the unsafe ones,
  and the outside text of inner print results.

The hypothesis on the payloads' end keeps the truncated-UTF-8 tail fix from
firing (it appends one `?` after a payload that ends in the middle of a
multi-byte sequence when the mode is switched there, and nothing otherwise —
which is why the property restricts these two equalities to valid UTF-8;
`tail_fix_visible`). Runes need no hypothesis: `utf8.EncodeRune` always yields a
complete character (`valid_encodeRune`, invalid runes encode U+FFFD). Single
bytes (`SafeByte`, `UnsafeByte`) are taken ASCII:
an unsafe non-ASCII byte is replaced by `?` (C11). The theorems keep the suffix
`_partial` for that restriction and because `Print/Printf` on the adapter
(nested printers) belong to the printer model, not to this call alphabet.
-/
namespace Redact

/-- Payloads that are empty or end in a complete character; inner print results are finished redactables. -/
def CleanW : WOp → Prop
  | .safeString p => EndsRune p
  | .safeNum p => EndsRune p
  | .unsafeString p => EndsRune p
  | .safeByte x => x < 0x80
  | .unsafeByte x => x < 0x80
  | .safeRune _ => True
  | .unsafeRune _ => True
  | .print r => Obtainable r ∧ RuneEnd (tokenize r)

/-- What a call contributes to the stripped reading. -/
def plainW : WOp → List Tok
  | .safeString p => escT (tokenize p)
  | .safeNum p => escT (tokenize p)
  | .unsafeString p => escT (tokenize p)
  | .safeByte x => [.b x]
  | .unsafeByte x => [.b x]
  | .safeRune r => escT (tokenize (encodeRune r))
  | .unsafeRune r => escT (tokenize (encodeRune r))
  | .print r => stripT (tokenize r)

/-- What a call contributes outside envelopes. -/
def safeW : WOp → List Tok
  | .safeString p => escT (tokenize p)
  | .safeNum p => escT (tokenize p)
  | .unsafeString p => lfT (tokenize p)
  | .safeByte x => [.b x]
  | .unsafeByte x => lfT [.b x]
  | .safeRune r => escT (tokenize (encodeRune r))
  | .unsafeRune r => lfT (tokenize (encodeRune r))
  | .print r => dropEnvT (tokenize r)

theorem kinv_init : KInv Buffer.init [] [] :=
  ⟨inv_init, runeEnd_nil, fun _ => runeEnd_nil, fun _ => Or.inl rfl, rfl, rfl⟩

theorem writeByte_ascii (b : Buffer) (x : Byte) (hi : Inv b) (hx : x < 0x80) : b.writeByte x = b.write [x] := by
  rw [writeByte_eq b x hi]
  have : byteEff b.mode x = [x] := by
    unfold byteEff
    have : ¬ x ≥ 0x80 := by
      intro h; exact absurd hx (by simpa using h)
    simp [this]
  rw [this]; rfl

theorem tokenize_ascii (x : Byte) (hx : x < 0x80) : tokenize [x] = [.b x] := by
  have : x ≠ 0xE2 := by intro h; subst h; revert hx; decide
  rw [tokenize_plain_ne x [] this]; simp

theorem builderOps_K (b : Buffer) (w : WOp) (acc dacc : List Tok) (k : KInv b acc dacc) (hw : CleanW w) :
    KInv (b.run (builderOps w)) (acc ++ plainW w) (dacc ++ safeW w) := by
  have sm : ∀ m, KInv (b.setMode m) acc dacc := fun m => setMode_K b m acc dacc k
  have md : ∀ m, (b.setMode m).mode = m := setMode_mode b
  cases w with
  | safeString p =>
    have := write_K _ p acc dacc (sm .safeEsc) (fun h => by rw [md] at h; cases h) (fun _ => hw)
    simpa [builderOps, Buffer.run, Buffer.step, md, pendPlainT, pendSafeT, plainW, safeW] using this
  | safeNum p =>
    have := write_K _ p acc dacc (sm .safeEsc) (fun h => by rw [md] at h; cases h) (fun _ => hw)
    simpa [builderOps, Buffer.run, Buffer.step, md, pendPlainT, pendSafeT, plainW, safeW] using this
  | unsafeString p =>
    have := write_K _ p acc dacc (sm .unsafeEsc) (fun h => by rw [md] at h; cases h) (fun _ => hw)
    simpa [builderOps, Buffer.run, Buffer.step, md, pendPlainT, pendSafeT, plainW, safeW] using this
  | safeByte x =>
    have hx : x < 0x80 := hw
    have he : EndsRune [x] := Or.inr ⟨[], [x], rfl, by simpa [validRuneB] using hx⟩
    have := write_K _ [x] acc dacc (sm .safeEsc) (fun h => by rw [md] at h; cases h) (fun _ => he)
    simp only [builderOps, Buffer.run, List.foldl_cons, List.foldl_nil, Buffer.step]
    rw [writeByte_ascii _ x (sm .safeEsc).inv hx]
    simpa [md, pendPlainT, pendSafeT, plainW, safeW, tokenize_ascii x hx, escT] using this
  | unsafeByte x =>
    have hx : x < 0x80 := hw
    have he : EndsRune [x] := Or.inr ⟨[], [x], rfl, by simpa [validRuneB] using hx⟩
    have := write_K _ [x] acc dacc (sm .unsafeEsc) (fun h => by rw [md] at h; cases h) (fun _ => he)
    simp only [builderOps, Buffer.run, List.foldl_cons, List.foldl_nil, Buffer.step]
    rw [writeByte_ascii _ x (sm .unsafeEsc).inv hx]
    simpa [md, pendPlainT, pendSafeT, plainW, safeW, tokenize_ascii x hx, escT] using this
  | safeRune r =>
    have := write_K _ (encodeRune r) acc dacc (sm .safeEsc) (fun h => by rw [md] at h; cases h) (fun _ => endsRune_encodeRune r)
    simpa [builderOps, Buffer.run, Buffer.step, Buffer.writeRune, Buffer.write, md, pendPlainT, pendSafeT, plainW, safeW] using this
  | unsafeRune r =>
    have := write_K _ (encodeRune r) acc dacc (sm .unsafeEsc) (fun h => by rw [md] at h; cases h) (fun _ => endsRune_encodeRune r)
    simpa [builderOps, Buffer.run, Buffer.step, Buffer.writeRune, Buffer.write, md, pendPlainT, pendSafeT, plainW, safeW] using this
  | print r =>
    have := write_K _ r acc dacc (sm .raw) (fun _ => hw) (fun h => by rw [md] at h; exact absurd rfl h)
    simpa [builderOps, Buffer.run, Buffer.step, md, pendPlainT, pendSafeT, plainW, safeW] using this

theorem builderRun_K (b : Buffer) (ws : List WOp) (acc dacc : List Tok) (k : KInv b acc dacc) (hw : ∀ w ∈ ws, CleanW w) :
    KInv (builderRun b ws) (acc ++ ws.flatMap plainW) (dacc ++ ws.flatMap safeW) := by
  induction ws generalizing b acc dacc with
  | nil => simpa [builderRun, Buffer.run] using k
  | cons w r ih =>
    have e : builderRun b (w :: r) = builderRun (b.run (builderOps w)) r := by simp [builderRun, run_append]
    rw [e]
    have := ih _ _ _ (builderOps_K b w acc dacc k (hw w (by simp))) (fun w' hw' => hw w' (by simp [hw']))
    simpa [List.flatMap_cons, List.append_assoc] using this

/-- **C09, stripped reading (partial: single bytes ASCII).** -/
theorem builder_strip_partial (ws : List WOp) (hw : ∀ w ∈ ws, CleanW w) :
    stripMarkers (builderRun Buffer.init ws).redactableBytes = untok (ws.flatMap plainW) := by
  have k := builderRun_K Buffer.init ws [] [] kinv_init hw
  have ⟨_, p, _⟩ := finalize_K _ _ _ k
  unfold stripMarkers Buffer.redactableBytes
  rw [p]; simp

/-- **C09, reading outside envelopes (partial: single bytes ASCII).** -/
theorem builder_dropEnv_partial (ws : List WOp) (hw : ∀ w ∈ ws, CleanW w) :
    dropEnv (builderRun Buffer.init ws).redactableBytes = untok (ws.flatMap safeW) := by
  have k := builderRun_K Buffer.init ws [] [] kinv_init hw
  have ⟨_, _, s⟩ := finalize_K _ _ _ k
  have ⟨f, _, _⟩ := finalize_full _ k.inv
  unfold dropEnv Buffer.redactableBytes dropEnvT
  rw [(dropEnv_eq_safeText _).1 (scanWF_of_scan _ _ _ f.sc)]
  unfold evT at s
  rw [s]; simp

/-- One bracketed write of the adapter under no override: switch, write, switch back. -/
theorem bracket_K (b : Buffer) (m : Mode) (hm : m ≠ .raw) (f : Buffer → Buffer) (acc dacc pa sa : List Tok)
    (k : KInv b acc dacc)
    (hf : ∀ c, KInv c acc dacc → c.mode = m → KInv (f c) (acc ++ pa) (dacc ++ sa)) :
    KInv ((f (b.setMode m)).setMode b.mode) (acc ++ pa) (dacc ++ sa) :=
  setMode_K _ _ _ _ (hf _ (setMode_K b m acc dacc k) (setMode_mode b m))

/-- The printer's SafeWriter adapter under no override: the same two readings. -/
theorem adapterStep_K (p : PPB) (w : WOp) (acc dacc : List Tok) (k : KInv p.buf acc dacc) (ho : p.override = .no)
    (hw : CleanW w) (hnp : ∀ r, w ≠ .print r) :
    KInv (adapterStep p w).buf (acc ++ plainW w) (dacc ++ safeW w) ∧ (adapterStep p w).override = .no := by
  have wr : ∀ (m : Mode) (hm : m ≠ .raw) (s : List Byte), EndsRune s → ∀ c, KInv c acc dacc → c.mode = m →
      KInv (c.write s) (acc ++ pendPlainT m s) (dacc ++ pendSafeT m s) := by
    intro m hm s hs c kc hcm
    have := write_K c s acc dacc kc (fun h => by rw [hcm] at h; exact absurd h hm) (fun _ => hs)
    rw [hcm] at this; exact this
  cases w with
  | print r => exact absurd rfl (hnp r)
  | safeString s =>
    have := bracket_K p.buf .safeEsc (by decide) (·.write s) acc dacc _ _ k (wr .safeEsc (by decide) s hw)
    simpa [adapterStep, PPB.startSafeOverride, PPB.restore, PPB.onBuf, ho, pendPlainT, pendSafeT, plainW, safeW] using this
  | safeNum s =>
    have := bracket_K p.buf .safeEsc (by decide) (·.write s) acc dacc _ _ k (wr .safeEsc (by decide) s hw)
    refine ⟨?_, by simp [adapterStep, PPB.startSafeOverride, PPB.startUnsafe, PPB.restore, PPB.onBuf, ho]⟩
    have e : (adapterStep p (.safeNum s)).buf = (((p.buf.setMode .safeEsc).write s).setMode .safeEsc).setMode p.buf.mode := by
      simp [adapterStep, PPB.startSafeOverride, PPB.startUnsafe, PPB.restore, PPB.onBuf, ho, setMode_mode]
    rw [e]
    have k2 := wr .safeEsc (by decide) s hw _ (setMode_K p.buf .safeEsc acc dacc k) (setMode_mode _ _)
    have := setMode_K _ p.buf.mode _ _ (setMode_K _ .safeEsc _ _ k2)
    simpa [pendPlainT, pendSafeT, plainW, safeW] using this
  | unsafeString s =>
    have := bracket_K p.buf .unsafeEsc (by decide) (·.write s) acc dacc _ _ k (wr .unsafeEsc (by decide) s hw)
    simpa [adapterStep, PPB.startUnsafe, PPB.restore, PPB.onBuf, ho, pendPlainT, pendSafeT, plainW, safeW] using this
  | safeByte x =>
    have hx : x < 0x80 := hw
    have he : EndsRune [x] := Or.inr ⟨[], [x], rfl, by simpa [validRuneB] using hx⟩
    have := bracket_K p.buf .safeEsc (by decide) (·.writeByte x) acc dacc _ _ k
      (fun c kc hcm => by rw [writeByte_ascii c x kc.inv hx]; exact wr .safeEsc (by decide) [x] he c kc hcm)
    simpa [adapterStep, PPB.startSafeOverride, PPB.restore, PPB.onBuf, ho, pendPlainT, pendSafeT, plainW, safeW,
      tokenize_ascii x hx, escT] using this
  | unsafeByte x =>
    have hx : x < 0x80 := hw
    have he : EndsRune [x] := Or.inr ⟨[], [x], rfl, by simpa [validRuneB] using hx⟩
    have := bracket_K p.buf .unsafeEsc (by decide) (·.writeByte x) acc dacc _ _ k
      (fun c kc hcm => by rw [writeByte_ascii c x kc.inv hx]; exact wr .unsafeEsc (by decide) [x] he c kc hcm)
    simpa [adapterStep, PPB.startUnsafe, PPB.restore, PPB.onBuf, ho, pendPlainT, pendSafeT, plainW, safeW,
      tokenize_ascii x hx, escT] using this
  | safeRune r =>
    have := bracket_K p.buf .safeEsc (by decide) (·.writeRune r) acc dacc _ _ k (wr .safeEsc (by decide) (encodeRune r) (endsRune_encodeRune r))
    simpa [adapterStep, PPB.startSafeOverride, PPB.restore, PPB.onBuf, ho, pendPlainT, pendSafeT, plainW, safeW] using this
  | unsafeRune r =>
    have := bracket_K p.buf .unsafeEsc (by decide) (·.writeRune r) acc dacc _ _ k (wr .unsafeEsc (by decide) (encodeRune r) (endsRune_encodeRune r))
    simpa [adapterStep, PPB.startUnsafe, PPB.restore, PPB.onBuf, ho, pendPlainT, pendSafeT, plainW, safeW] using this


theorem adapterRun_K (p : PPB) (ws : List WOp) (acc dacc : List Tok) (k : KInv p.buf acc dacc) (ho : p.override = .no)
    (hw : ∀ w ∈ ws, CleanW w ∧ ∀ r, w ≠ .print r) :
    KInv (adapterRun p ws).buf (acc ++ ws.flatMap plainW) (dacc ++ ws.flatMap safeW) := by
  induction ws generalizing p acc dacc with
  | nil => simpa [adapterRun] using k
  | cons w r ih =>
    have ⟨k1, o1⟩ := adapterStep_K p w acc dacc k ho (hw w (by simp)).1 (hw w (by simp)).2
    have := ih (adapterStep p w) _ _ k1 o1 (fun w' hw' => hw w' (by simp [hw']))
    simpa [adapterRun, List.flatMap_cons, List.append_assoc] using this

/-- **C09 on the printer's SafeWriter adapter** (the SafePrinter handed to `SafeFormat` / `Sprintfn`,
no enclosing Safe/Unsafe wrapper): the same two readings as on the StringBuilder. -/
theorem adapter_strip_partial (ws : List WOp) (hw : ∀ w ∈ ws, CleanW w ∧ ∀ r, w ≠ .print r) :
    stripMarkers (adapterRun {} ws).buf.redactableBytes = untok (ws.flatMap plainW) := by
  have k := adapterRun_K {} ws [] [] kinv_init rfl hw
  have ⟨_, p, _⟩ := finalize_K _ _ _ k
  unfold stripMarkers Buffer.redactableBytes
  rw [p]; simp

theorem adapter_dropEnv_partial (ws : List WOp) (hw : ∀ w ∈ ws, CleanW w ∧ ∀ r, w ≠ .print r) :
    dropEnv (adapterRun {} ws).buf.redactableBytes = untok (ws.flatMap safeW) := by
  have k := adapterRun_K {} ws [] [] kinv_init rfl hw
  have ⟨_, _, s⟩ := finalize_K _ _ _ k
  have ⟨f, _, _⟩ := finalize_full _ k.inv
  unfold dropEnv Buffer.redactableBytes dropEnvT
  rw [(dropEnv_eq_safeText _).1 (scanWF_of_scan _ _ _ f.sc)]
  unfold evT at s
  rw [s]; simp

/-- Hence the two implementations agree on both readings for every such call sequence. -/
theorem builder_adapter_agree_partial (ws : List WOp) (hw : ∀ w ∈ ws, CleanW w ∧ ∀ r, w ≠ .print r) :
    stripMarkers (adapterRun {} ws).buf.redactableBytes = stripMarkers (builderRun Buffer.init ws).redactableBytes ∧
    dropEnv (adapterRun {} ws).buf.redactableBytes = dropEnv (builderRun Buffer.init ws).redactableBytes := by
  rw [adapter_strip_partial ws hw, adapter_dropEnv_partial ws hw,
    builder_strip_partial ws (fun w h => (hw w h).1), builder_dropEnv_partial ws (fun w h => (hw w h).1)]
  exact ⟨rfl, rfl⟩

/-- The hypothesis matters: a payload ending inside a multi-byte sequence gets a `?` when the
mode is switched right after it. -/
theorem tail_fix_visible :
    stripMarkers (builderRun Buffer.init [.unsafeString [0x61, 0xC3], .safeString [0x62]]).redactableBytes
      = [0x61, 0xC3, 0x3F, 0x62] := by decide

theorem endsRune_snoc_ascii (q : List Byte) (c : Byte) (hc : c < 0x80) : EndsRune (q ++ [c]) :=
  Or.inr ⟨q, [c], rfl, by simpa [validRuneB] using hc⟩

/-! Non-vacuity: payloads with markers, partial markers and line feeds inside; a payload ending in a
multi-byte character. -/
def exWs : List WOp :=
  [.unsafeString ([0x61] ++ startB ++ [0x0A, 0xE2, 0x62]), .safeString (endB ++ [0x63]), .unsafeByte 0x0A, .safeByte 0x64]

theorem exWs_clean : ∀ w ∈ exWs, CleanW w := by
  intro w hw
  simp only [exWs, List.mem_cons, List.not_mem_nil, or_false] at hw
  rcases hw with rfl | rfl | rfl | rfl
  · exact endsRune_snoc_ascii ([0x61] ++ startB ++ [0x0A, 0xE2]) 0x62 (by decide)
  · exact endsRune_snoc_ascii endB 0x63 (by decide)
  · show (0x0A : Byte) < 0x80; decide
  · show (0x64 : Byte) < 0x80; decide

example : stripMarkers (builderRun Buffer.init exWs).redactableBytes
    = [0x61, 0x3F, 0x0A, 0xE2, 0x62, 0x3F, 0x63, 0x0A, 0x64] := by
  rw [builder_strip_partial _ exWs_clean]; decide

example : dropEnv (builderRun Buffer.init exWs).redactableBytes = [0x0A, 0x3F, 0x63, 0x0A, 0x64] := by
  rw [builder_dropEnv_partial _ exWs_clean]; decide

example : EndsRune ([0x61, 0xE2, 0x80] ++ [0xC3, 0xA9]) := Or.inr ⟨_, [0xC3, 0xA9], rfl, by decide⟩

/-- The hypothesis of the partial theorems, read on the code's own test: a payload "ends in a
complete character" exactly when `InternalEscapeBytes`' tail test (`DecodeLastRune`) passes on it. -/
theorem endsRune_iff_tail_test (p : List Byte) : EndsRune p ↔ tailBad p = false := (tailBad_false_iff p).symm

/-! ### The labelled reading: agreement up to merging of adjacent envelopes

`Proofs/Lab.lean`: `labT` reads a redactable as its bytes in order, each with its side (inside an
envelope or outside). Merging adjacent envelopes and dropping empty ones are exactly what it
ignores (`labT_merge`, `labT_empty_env`), and it determines both readings above
(`stripT_of_lab`, `safeText_of_lab`). -/


/-- What a call contributes to the labelled reading: its payload on its own side — safe calls
outside (markers replaced by `?`), unsafe calls inside (markers replaced by `?`) except their line
feeds, inner print results as they are. -/
def labW : WOp → List LB
  | .safeString p => pendLab .safeEsc p
  | .safeNum p => pendLab .safeEsc p
  | .unsafeString p => pendLab .unsafeEsc p
  | .safeByte x => pendLab .safeEsc [x]
  | .unsafeByte x => pendLab .unsafeEsc [x]
  | .safeRune r => pendLab .safeEsc (encodeRune r)
  | .unsafeRune r => pendLab .unsafeEsc (encodeRune r)
  | .print r => pendLab .raw r

theorem lr_init : LR Buffer.init [] := by
  unfold LR; simp [Buffer.init, Buffer.pre, Buffer.suf, pendLab_nil, labT, labFrom]

theorem builderOps_L (b : Buffer) (w : WOp) (acc dacc : List Tok) (lacc : List LB) (k : KInv b acc dacc) (l : LR b lacc)
    (hw : CleanW w) : LR (b.run (builderOps w)) (lacc ++ labW w) := by
  have sm : ∀ m, KInv (b.setMode m) acc dacc := fun m => setMode_K b m acc dacc k
  have sl : ∀ m, LR (b.setMode m) lacc := fun m => setMode_L b m acc dacc lacc k l
  have md : ∀ m, (b.setMode m).mode = m := setMode_mode b
  cases w with
  | safeString p =>
    have := write_L _ p acc dacc lacc (sm .safeEsc) (sl .safeEsc)
    simpa [builderOps, Buffer.run, Buffer.step, md, labW] using this
  | safeNum p =>
    have := write_L _ p acc dacc lacc (sm .safeEsc) (sl .safeEsc)
    simpa [builderOps, Buffer.run, Buffer.step, md, labW] using this
  | unsafeString p =>
    have := write_L _ p acc dacc lacc (sm .unsafeEsc) (sl .unsafeEsc)
    simpa [builderOps, Buffer.run, Buffer.step, md, labW] using this
  | safeByte x =>
    have hx : x < 0x80 := hw
    have := write_L _ [x] acc dacc lacc (sm .safeEsc) (sl .safeEsc)
    simp only [builderOps, Buffer.run, List.foldl_cons, List.foldl_nil, Buffer.step]
    rw [writeByte_ascii _ x (sm .safeEsc).inv hx]
    simpa [md, labW] using this
  | unsafeByte x =>
    have hx : x < 0x80 := hw
    have := write_L _ [x] acc dacc lacc (sm .unsafeEsc) (sl .unsafeEsc)
    simp only [builderOps, Buffer.run, List.foldl_cons, List.foldl_nil, Buffer.step]
    rw [writeByte_ascii _ x (sm .unsafeEsc).inv hx]
    simpa [md, labW] using this
  | safeRune r =>
    have := write_L _ (encodeRune r) acc dacc lacc (sm .safeEsc) (sl .safeEsc)
    simpa [builderOps, Buffer.run, Buffer.step, Buffer.writeRune, Buffer.write, md, labW] using this
  | unsafeRune r =>
    have := write_L _ (encodeRune r) acc dacc lacc (sm .unsafeEsc) (sl .unsafeEsc)
    simpa [builderOps, Buffer.run, Buffer.step, Buffer.writeRune, Buffer.write, md, labW] using this
  | print r =>
    have := write_L _ r acc dacc lacc (sm .raw) (sl .raw)
    simpa [builderOps, Buffer.run, Buffer.step, md, labW] using this

theorem builderRun_L (b : Buffer) (ws : List WOp) (acc dacc : List Tok) (lacc : List LB) (k : KInv b acc dacc) (l : LR b lacc)
    (hw : ∀ w ∈ ws, CleanW w) : LR (builderRun b ws) (lacc ++ ws.flatMap labW) := by
  induction ws generalizing b acc dacc lacc with
  | nil => simpa [builderRun, Buffer.run] using l
  | cons w r ih =>
    have e : builderRun b (w :: r) = builderRun (b.run (builderOps w)) r := by simp [builderRun, run_append]
    rw [e]
    have := ih _ _ _ _ (builderOps_K b w acc dacc k (hw w (by simp))) (builderOps_L b w acc dacc lacc k l (hw w (by simp)))
      (fun w' hw' => hw w' (by simp [hw']))
    simpa [List.flatMap_cons, List.append_assoc] using this

/-- **C09, labelled reading of the StringBuilder**: the result's bytes, each with its side, are the
concatenation in call order of the payloads on their own sides. -/
theorem builder_lab_partial (ws : List WOp) (hw : ∀ w ∈ ws, CleanW w) :
    labT (tokenize (builderRun Buffer.init ws).redactableBytes) = ws.flatMap labW := by
  have k := builderRun_K Buffer.init ws [] [] kinv_init hw
  have l := builderRun_L Buffer.init ws [] [] [] kinv_init lr_init hw
  have := finalize_L _ _ _ _ k l
  simpa [Buffer.redactableBytes] using this


theorem bracket_L (b : Buffer) (m : Mode) (f : Buffer → Buffer) (acc dacc pa sa : List Tok) (lacc la : List LB)
    (k : KInv b acc dacc) (l : LR b lacc)
    (hk : ∀ c, KInv c acc dacc → c.mode = m → KInv (f c) (acc ++ pa) (dacc ++ sa))
    (hl : ∀ c, KInv c acc dacc → LR c lacc → c.mode = m → LR (f c) (lacc ++ la)) :
    LR ((f (b.setMode m)).setMode b.mode) (lacc ++ la) :=
  setMode_L _ _ _ _ _ (hk _ (setMode_K b m acc dacc k) (setMode_mode b m))
    (hl _ (setMode_K b m acc dacc k) (setMode_L b m acc dacc lacc k l) (setMode_mode b m))

theorem adapterStep_L (p : PPB) (w : WOp) (acc dacc : List Tok) (lacc : List LB) (k : KInv p.buf acc dacc) (l : LR p.buf lacc)
    (ho : p.override = .no) (hw : CleanW w) (hnp : ∀ r, w ≠ .print r) :
    LR (adapterStep p w).buf (lacc ++ labW w) := by
  have wk : ∀ (m : Mode) (hm : m ≠ .raw) (s : List Byte), EndsRune s → ∀ c, KInv c acc dacc → c.mode = m →
      KInv (c.write s) (acc ++ pendPlainT m s) (dacc ++ pendSafeT m s) := by
    intro m hm s hs c kc hcm
    have := write_K c s acc dacc kc (fun h => by rw [hcm] at h; exact absurd h hm) (fun _ => hs)
    rw [hcm] at this; exact this
  have wl : ∀ (m : Mode) (s : List Byte), ∀ c, KInv c acc dacc → LR c lacc → c.mode = m →
      LR (c.write s) (lacc ++ pendLab m s) := by
    intro m s c kc lc hcm
    have := write_L c s acc dacc lacc kc lc
    rw [hcm] at this; exact this
  cases w with
  | print r => exact absurd rfl (hnp r)
  | safeString s =>
    have := bracket_L p.buf .safeEsc (·.write s) acc dacc _ _ lacc _ k l (wk .safeEsc (by decide) s hw) (wl .safeEsc s)
    simpa [adapterStep, PPB.startSafeOverride, PPB.restore, PPB.onBuf, ho, labW] using this
  | safeNum s =>
    have e : (adapterStep p (.safeNum s)).buf = (((p.buf.setMode .safeEsc).write s).setMode .safeEsc).setMode p.buf.mode := by
      simp [adapterStep, PPB.startSafeOverride, PPB.startUnsafe, PPB.restore, PPB.onBuf, ho, setMode_mode]
    rw [e]
    have k1 := setMode_K p.buf .safeEsc acc dacc k
    have l1 := setMode_L p.buf .safeEsc acc dacc lacc k l
    have k2 := wk .safeEsc (by decide) s hw _ k1 (setMode_mode _ _)
    have l2 := wl .safeEsc s _ k1 l1 (setMode_mode _ _)
    have k3 := setMode_K _ .safeEsc _ _ k2
    have l3 := setMode_L _ .safeEsc _ _ _ k2 l2
    have := setMode_L _ p.buf.mode _ _ _ k3 l3
    simpa [labW] using this
  | unsafeString s =>
    have := bracket_L p.buf .unsafeEsc (·.write s) acc dacc _ _ lacc _ k l (wk .unsafeEsc (by decide) s hw) (wl .unsafeEsc s)
    simpa [adapterStep, PPB.startUnsafe, PPB.restore, PPB.onBuf, ho, labW] using this
  | safeByte x =>
    have hx : x < 0x80 := hw
    have he : EndsRune [x] := Or.inr ⟨[], [x], rfl, by simpa [validRuneB] using hx⟩
    have := bracket_L p.buf .safeEsc (·.writeByte x) acc dacc _ _ lacc _ k l
      (fun c kc hcm => by rw [writeByte_ascii c x kc.inv hx]; exact wk .safeEsc (by decide) [x] he c kc hcm)
      (fun c kc lc hcm => by rw [writeByte_ascii c x kc.inv hx]; exact wl .safeEsc [x] c kc lc hcm)
    simpa [adapterStep, PPB.startSafeOverride, PPB.restore, PPB.onBuf, ho, labW] using this
  | unsafeByte x =>
    have hx : x < 0x80 := hw
    have he : EndsRune [x] := Or.inr ⟨[], [x], rfl, by simpa [validRuneB] using hx⟩
    have := bracket_L p.buf .unsafeEsc (·.writeByte x) acc dacc _ _ lacc _ k l
      (fun c kc hcm => by rw [writeByte_ascii c x kc.inv hx]; exact wk .unsafeEsc (by decide) [x] he c kc hcm)
      (fun c kc lc hcm => by rw [writeByte_ascii c x kc.inv hx]; exact wl .unsafeEsc [x] c kc lc hcm)
    simpa [adapterStep, PPB.startUnsafe, PPB.restore, PPB.onBuf, ho, labW] using this
  | safeRune r =>
    have := bracket_L p.buf .safeEsc (·.writeRune r) acc dacc _ _ lacc _ k l
      (wk .safeEsc (by decide) (encodeRune r) (endsRune_encodeRune r)) (wl .safeEsc (encodeRune r))
    simpa [adapterStep, PPB.startSafeOverride, PPB.restore, PPB.onBuf, ho, labW] using this
  | unsafeRune r =>
    have := bracket_L p.buf .unsafeEsc (·.writeRune r) acc dacc _ _ lacc _ k l
      (wk .unsafeEsc (by decide) (encodeRune r) (endsRune_encodeRune r)) (wl .unsafeEsc (encodeRune r))
    simpa [adapterStep, PPB.startUnsafe, PPB.restore, PPB.onBuf, ho, labW] using this

theorem adapterRun_L (p : PPB) (ws : List WOp) (acc dacc : List Tok) (lacc : List LB) (k : KInv p.buf acc dacc)
    (l : LR p.buf lacc) (ho : p.override = .no) (hw : ∀ w ∈ ws, CleanW w ∧ ∀ r, w ≠ .print r) :
    LR (adapterRun p ws).buf (lacc ++ ws.flatMap labW) := by
  induction ws generalizing p acc dacc lacc with
  | nil => simpa [adapterRun] using l
  | cons w r ih =>
    have ⟨k1, o1⟩ := adapterStep_K p w acc dacc k ho (hw w (by simp)).1 (hw w (by simp)).2
    have l1 := adapterStep_L p w acc dacc lacc k l ho (hw w (by simp)).1 (hw w (by simp)).2
    have := ih (adapterStep p w) _ _ _ k1 l1 o1 (fun w' hw' => hw w' (by simp [hw']))
    simpa [adapterRun, List.flatMap_cons, List.append_assoc] using this

/-- The same labelled reading on the printer's SafeWriter adapter. -/
theorem adapter_lab_partial (ws : List WOp) (hw : ∀ w ∈ ws, CleanW w ∧ ∀ r, w ≠ .print r) :
    labT (tokenize (adapterRun {} ws).buf.redactableBytes) = ws.flatMap labW := by
  have k := adapterRun_K {} ws [] [] kinv_init rfl hw
  have l := adapterRun_L {} ws [] [] [] kinv_init lr_init rfl hw
  have := finalize_L _ _ _ _ k l
  simpa [Buffer.redactableBytes] using this

/-- **The implementations agree up to merging of adjacent envelopes**: the StringBuilder and the
printer's SafeWriter adapter produce, for every such call sequence, redactables with the same bytes
on the same sides (`labT_merge`, `labT_empty_env`: that is what merging `›‹` and dropping `‹›` preserve). -/
theorem builder_adapter_same_lab_partial (ws : List WOp) (hw : ∀ w ∈ ws, CleanW w ∧ ∀ r, w ≠ .print r) :
    labT (tokenize (adapterRun {} ws).buf.redactableBytes) = labT (tokenize (builderRun Buffer.init ws).redactableBytes) := by
  rw [adapter_lab_partial ws hw, builder_lab_partial ws (fun w h => (hw w h).1)]


/-! ### ManualBuffer: any sequence of `SetMode` and writes -/

def opMode (m : Mode) : Op → Mode
  | .setMode m' => m'
  | _ => m

def opLab (m : Mode) : Op → List LB
  | .write p => pendLab m p
  | .writeByte x => pendLab m [x]
  | .writeRune r => pendLab m (encodeRune r)
  | _ => []

/-- The labelled reading an operation sequence should produce, from the mode it starts in. -/
def runLab : Mode → List Op → List LB
  | _, [] => []
  | m, op :: r => opLab m op ++ runLab (opMode m op) r

/-- Payloads: in raw mode finished redactables, otherwise anything ending in a complete character;
single bytes ASCII and runes outside raw mode. -/
def OpClean (m : Mode) : Op → Prop
  | .setMode _ => True
  | .write p => (m = .raw → Obtainable p ∧ RuneEnd (tokenize p)) ∧ (m ≠ .raw → EndsRune p)
  | .writeByte x => x < 0x80 ∧ m ≠ .raw
  | .writeRune _ => m ≠ .raw
  | _ => False

def OpsClean : Mode → List Op → Prop
  | _, [] => True
  | m, op :: r => OpClean m op ∧ OpsClean (opMode m op) r

theorem step_KL (b : Buffer) (op : Op) (acc dacc : List Tok) (lacc : List LB) (k : KInv b acc dacc) (l : LR b lacc)
    (h : OpClean b.mode op) :
    (∃ acc' dacc', KInv (b.step op).1 acc' dacc') ∧ LR (b.step op).1 (lacc ++ opLab b.mode op) ∧ (b.step op).1.mode = opMode b.mode op := by
  cases op with
  | setMode m =>
    exact ⟨⟨_, _, setMode_K b m acc dacc k⟩, by simpa [Buffer.step, opLab] using setMode_L b m acc dacc lacc k l, setMode_mode b m⟩
  | write p =>
    exact ⟨⟨_, _, write_K b p acc dacc k h.1 h.2⟩, write_L b p acc dacc lacc k l, write_mode b p⟩
  | writeByte x =>
    have he : EndsRune [x] := Or.inr ⟨[], [x], rfl, by simpa [validRuneB] using h.1⟩
    simp only [Buffer.step]
    rw [writeByte_ascii b x k.inv h.1]
    exact ⟨⟨_, _, write_K b [x] acc dacc k (fun hr => absurd hr h.2) (fun _ => he)⟩, write_L b [x] acc dacc lacc k l, write_mode b _⟩
  | writeRune r =>
    exact ⟨⟨_, _, write_K b (encodeRune r) acc dacc k (fun hr => absurd hr h) (fun _ => endsRune_encodeRune r)⟩,
      write_L b (encodeRune r) acc dacc lacc k l, write_mode b _⟩
  | reset => exact h.elim
  | take => exact h.elim
  | grow n => exact h.elim
  | accLen => exact h.elim
  | accString => exact h.elim
  | accRedactable => exact h.elim
  | accMode => exact h.elim

theorem run_KL (b : Buffer) (ops : List Op) (acc dacc : List Tok) (lacc : List LB) (k : KInv b acc dacc) (l : LR b lacc)
    (h : OpsClean b.mode ops) :
    (∃ acc' dacc', KInv (b.run ops) acc' dacc') ∧ LR (b.run ops) (lacc ++ runLab b.mode ops) := by
  induction ops generalizing b acc dacc lacc with
  | nil => exact ⟨⟨acc, dacc, by simpa [Buffer.run] using k⟩, by simpa [Buffer.run, runLab] using l⟩
  | cons op r ih =>
    obtain ⟨⟨a1, d1, k1⟩, l1, m1⟩ := step_KL b op acc dacc lacc k l h.1
    have := ih (b.step op).1 a1 d1 _ k1 l1 (by rw [m1]; exact h.2)
    rw [m1] at this
    simpa [Buffer.run, runLab, List.append_assoc] using this

/-- **ManualBuffer** (the buffer itself, with explicit `SetMode` and raw writes of finished
redactables): every such operation sequence yields the labelled concatenation of its payloads. -/
theorem buffer_lab_partial (ops : List Op) (h : OpsClean .unsafeEsc ops) :
    labT (tokenize (Buffer.init.run ops).redactableBytes) = runLab .unsafeEsc ops := by
  obtain ⟨⟨a, d, k⟩, l⟩ := run_KL Buffer.init ops [] [] [] kinv_init lr_init h
  have := finalize_L _ _ _ _ k l
  have hm : Buffer.init.mode = .unsafeEsc := rfl
  rw [hm] at this
  simpa [Buffer.redactableBytes] using this


/-! Non-vacuity: a sequence with a line feed inside an unsafe payload and a marker inside a safe one. -/
example : labT (tokenize (builderRun Buffer.init
      [.safeString [0x61], .unsafeString [0x62, 0x0A, 0x63], .safeString ([0x64] ++ startB)]).redactableBytes)
    = [(0x61, false), (0x62, true), (0x0A, false), (0x63, true), (0x64, false), (0x3F, false)] := by decide

end Redact
