import RedactVerif.Proofs.NI
import RedactVerif.Props.C01
/-
C02 — redacted output is independent of unsafe data (non-interference), and
C05's counting half as a corollary. Buffer level: for every pair of operation
sequences on `internal/buffer` (and through it `builder.StringBuilder`, the
printer's SafeWriter adapter) that agree on everything public — the operations,
the mode switches, every safe and every pre-redactable payload — and whose
unsafe payloads merely have the same shape (same line-feed structure, same
emptiness of the segments between line feeds), `Redact()` of the two results is
byte-for-byte the same.
-/
namespace Redact

/-- Relation between the operations of two runs, in mode `m`: everything public is equal;
unsafe payloads may differ but have the same shape. -/
def OpRel (m : Mode) : Op → Op → Prop
  | .write p1, .write p2 => PendRel m p1 p2
  | .writeByte x1, .writeByte x2 => if m = .unsafeEsc then (x1 = LF ↔ x2 = LF) else x1 = x2
  | .writeRune r1, .writeRune r2 => if m = .unsafeEsc then (r1 = 10 ↔ r2 = 10) else r1 = r2
  | .setMode m1, .setMode m2 => m1 = m2
  | .reset, .reset => True
  | .take, .take => True
  | .grow _, .grow _ => True
  | .accLen, .accLen => True
  | .accString, .accString => True
  | .accRedactable, .accRedactable => True
  | .accMode, .accMode => True
  | _, _ => False

theorem brel_init : BRel Buffer.init Buffer.init :=
  ⟨inv_init, inv_init, rfl, rfl, rfl, pendRel_nil _⟩

theorem step_rel (b1 b2 : Buffer) (o1 o2 : Op) (h : BRel b1 b2) (hr : OpRel b1.mode o1 o2)
    (k1 : OpOk b1 o1) (k2 : OpOk b2 o2) : BRel (b1.step o1).1 (b2.step o2).1 := by
  cases o1 <;> cases o2 <;> simp only [OpRel] at hr <;> try (exact hr.elim)
  · subst hr; exact setMode_rel _ _ _ h
  · exact write_rel _ _ _ _ h hr k1 (fun hh => k2 (h.mode ▸ hh))
  · exact writeByte_rel _ _ _ _ h hr k1 (fun hh => k2 (h.mode ▸ hh))
  · exact writeRune_rel _ _ _ _ h hr k1 (fun hh => k2 (h.mode ▸ hh))
  · exact brel_init
  · show BRel b1.take.2 b2.take.2
    have ⟨_, o1, _⟩ := finalize_full b1 h.i1
    have ⟨_, o2, _⟩ := finalize_full b2 h.i2
    simp only [Buffer.take]
    rw [o1, o2]
    exact brel_init
  all_goals exact h

/-- Two related runs. -/
def RunRel : Buffer → Buffer → List Op → List Op → Prop
  | _, _, [], [] => True
  | b1, b2, o1 :: r1, o2 :: r2 => OpRel b1.mode o1 o2 ∧ RunRel (b1.step o1).1 (b2.step o2).1 r1 r2
  | _, _, _, _ => False

theorem run_rel (b1 b2 : Buffer) (ops1 ops2 : List Op) (h : BRel b1 b2) (hr : RunRel b1 b2 ops1 ops2)
    (k1 : RunOk b1 ops1) (k2 : RunOk b2 ops2) : BRel (b1.run ops1) (b2.run ops2) := by
  induction ops1 generalizing b1 b2 ops2 with
  | nil =>
    cases ops2 with
    | nil => simpa [Buffer.run] using h
    | cons _ _ => exact hr.elim
  | cons o1 r1 ih =>
    cases ops2 with
    | nil => exact hr.elim
    | cons o2 r2 =>
      simp only [Buffer.run, List.foldl_cons]
      exact ih _ _ r2 (step_rel b1 b2 o1 o2 h hr.1 k1.1 k2.1) hr.2 k1.2 k2.2

/-- What `Redact()` returns for the bytes of two related buffers is the same. -/
theorem redact_eq_of_brel (b1 b2 : Buffer) (h : BRel b1 b2) :
    redact b1.redactableBytes = redact b2.redactableBytes := by
  have ⟨f1, _, _⟩ := finalize_full b1 h.i1
  have ⟨f2, _, _⟩ := finalize_full b2 h.i2
  unfold redact Buffer.redactableBytes
  rw [redactT_eq_of_abs _ _ f1.sc f2.sc (finalize_rel b1 b2 h)]


/-- The public events of two related runs coincide (the skeleton a low observer sees). -/
theorem buffer_events_eq (ops1 ops2 : List Op) (hr : RunRel Buffer.init Buffer.init ops1 ops2)
    (k1 : RunOk Buffer.init ops1) (k2 : RunOk Buffer.init ops2) :
    evB (Buffer.init.run ops1).redactableBytes = evB (Buffer.init.run ops2).redactableBytes :=
  finalize_rel _ _ (run_rel _ _ _ _ brel_init hr k1 k2)

/-- **C02, buffer level.** Two operation sequences that agree on everything public and
whose unsafe payloads have the same shape give byte-identical `Redact()` results. -/
theorem buffer_noninterference (ops1 ops2 : List Op) (hr : RunRel Buffer.init Buffer.init ops1 ops2)
    (k1 : RunOk Buffer.init ops1) (k2 : RunOk Buffer.init ops2) :
    redact (Buffer.init.run ops1).redactableBytes = redact (Buffer.init.run ops2).redactableBytes :=
  redact_eq_of_brel _ _ (run_rel _ _ _ _ brel_init hr k1 k2)

/-! ### StringBuilder -/

/-- Public parts equal, unsafe parts of the same shape, inner print results with the same events. -/
def WOpRel : WOp → WOp → Prop
  | .safeString p1, .safeString p2 => p1 = p2
  | .safeByte x1, .safeByte x2 => x1 = x2
  | .safeRune r1, .safeRune r2 => r1 = r2
  | .safeNum p1, .safeNum p2 => p1 = p2
  | .unsafeString p1, .unsafeString p2 => canonB p1 = canonB p2
  | .unsafeByte x1, .unsafeByte x2 => (x1 = LF ↔ x2 = LF)
  | .unsafeRune r1, .unsafeRune r2 => (r1 = 10 ↔ r2 = 10)
  | .print r1, .print r2 => Obtainable r1 ∧ Obtainable r2 ∧ evB r1 = evB r2
  | _, _ => False

theorem run_two (b : Buffer) (o1 o2 : Op) : b.run [o1, o2] = ((b.step o1).1.step o2).1 := rfl

theorem builderOps_rel (b1 b2 : Buffer) (w1 w2 : WOp) (h : BRel b1 b2) (hw : WOpRel w1 w2) :
    BRel (b1.run (builderOps w1)) (b2.run (builderOps w2)) := by
  have sm : ∀ m, BRel (b1.setMode m) (b2.setMode m) := fun m => setMode_rel _ _ m h
  have md : ∀ (b : Buffer) m, (b.setMode m).mode = m := setMode_mode
  cases w1 <;> cases w2 <;> simp only [WOpRel] at hw <;> try (exact hw.elim)
  all_goals simp only [builderOps, run_two]
  · subst hw
    exact step_rel _ _ (.write _) (.write _) (sm _) (by simp [OpRel, PendRel, Buffer.step, md])
      (by simp [OpOk, Buffer.step, md]) (by simp [OpOk, Buffer.step, md])
  · subst hw
    exact step_rel _ _ (.writeByte _) (.writeByte _) (sm _) (by simp [OpRel, Buffer.step, md])
      (by simp [OpOk, Buffer.step, md]) (by simp [OpOk, Buffer.step, md])
  · subst hw
    exact step_rel _ _ (.writeRune _) (.writeRune _) (sm _) (by simp [OpRel, Buffer.step, md])
      (by simp [OpOk, Buffer.step, md]) (by simp [OpOk, Buffer.step, md])
  · subst hw
    exact step_rel _ _ (.write _) (.write _) (sm _) (by simp [OpRel, PendRel, Buffer.step, md])
      (by simp [OpOk, Buffer.step, md]) (by simp [OpOk, Buffer.step, md])
  · exact step_rel _ _ (.write _) (.write _) (sm _) (by simpa [OpRel, PendRel, Buffer.step, md] using hw)
      (by simp [OpOk, Buffer.step, md]) (by simp [OpOk, Buffer.step, md])
  · exact step_rel _ _ (.writeByte _) (.writeByte _) (sm _) (by simpa [OpRel, Buffer.step, md] using hw)
      (by simp [OpOk, Buffer.step, md]) (by simp [OpOk, Buffer.step, md])
  · exact step_rel _ _ (.writeRune _) (.writeRune _) (sm _) (by simpa [OpRel, Buffer.step, md] using hw)
      (by simp [OpOk, Buffer.step, md]) (by simp [OpOk, Buffer.step, md])
  · exact step_rel _ _ (.write _) (.write _) (sm _) (by simpa [OpRel, PendRel, Buffer.step, md] using hw.2.2)
      (by simpa [OpOk, Buffer.step, md] using hw.1) (by simpa [OpOk, Buffer.step, md] using hw.2.1)

/-- Pointwise relation of two call sequences. -/
def WRunRel : List WOp → List WOp → Prop
  | [], [] => True
  | w1 :: r1, w2 :: r2 => WOpRel w1 w2 ∧ WRunRel r1 r2
  | _, _ => False

theorem builderRun_rel (b1 b2 : Buffer) (ws1 ws2 : List WOp) (h : BRel b1 b2)
    (hw : WRunRel ws1 ws2) : BRel (builderRun b1 ws1) (builderRun b2 ws2) := by
  induction ws1 generalizing b1 b2 ws2 with
  | nil =>
    cases ws2 with
    | nil => simpa [builderRun, Buffer.run] using h
    | cons _ _ => exact hw.elim
  | cons w1 r1 ih =>
    cases ws2 with
    | nil => exact hw.elim
    | cons w2 r2 =>
      have e1 : builderRun b1 (w1 :: r1) = builderRun (b1.run (builderOps w1)) r1 := by
        simp [builderRun, run_append]
      have e2 : builderRun b2 (w2 :: r2) = builderRun (b2.run (builderOps w2)) r2 := by
        simp [builderRun, run_append]
      rw [e1, e2]
      exact ih _ _ r2 (builderOps_rel b1 b2 w1 w2 h hw.1) hw.2

/-- **C02, StringBuilder.** Two call sequences with equal safe payloads, unsafe payloads of
the same shape and inner print results with the same public events redact identically. -/
theorem builder_noninterference (ws1 ws2 : List WOp) (hw : WRunRel ws1 ws2) :
    redact (builderRun Buffer.init ws1).redactableBytes = redact (builderRun Buffer.init ws2).redactableBytes :=
  redact_eq_of_brel _ _ (builderRun_rel _ _ _ _ brel_init hw)

/-- Outputs with the same events can stand for each other as inner print results:
the relation composes through `Print`/`Printf` on a StringBuilder (histories of prints). -/
theorem builder_events_eq (ws1 ws2 : List WOp) (hw : WRunRel ws1 ws2) :
    evB (builderRun Buffer.init ws1).redactableBytes = evB (builderRun Buffer.init ws2).redactableBytes :=
  finalize_rel _ _ (builderRun_rel _ _ _ _ brel_init hw)

/-! Non-vacuity: two concrete runs with different secrets (`al`/`bobby`, `p‹\nx`/`?\n››`). -/

def exOps (secret1 secret2 : List Byte) : List Op :=
  [.write secret1, .setMode .safeEsc, .write [0x75, 0x3D], .setMode .unsafeEsc, .write secret2, .writeByte 0x21]

example : redact (Buffer.init.run (exOps [0x61, 0x6C] ([0x70] ++ startB ++ [0x0A, 0x78]))).redactableBytes
    = redact (Buffer.init.run (exOps [0x62, 0x6F, 0x62, 0x62, 0x79] ([0x3F, 0x0A] ++ endB ++ endB))).redactableBytes := by
  apply buffer_noninterference
  · simp [exOps, RunRel, OpRel, PendRel, Buffer.step, write_mode, setMode_mode, Buffer.init, canonB, cF, LF, startB, endB]
  · simp [exOps, RunOk, OpOk, Buffer.step, write_mode, setMode_mode, Buffer.init]
  · simp [exOps, RunOk, OpOk, Buffer.step, write_mode, setMode_mode, Buffer.init]

example : redact (Buffer.init.run (exOps [0x61, 0x6C] ([0x70] ++ startB ++ [0x0A, 0x78]))).redactableBytes
    = startB ++ crossB ++ endB ++ [0x75, 0x3D] ++ startB ++ crossB ++ endB ++ [0x0A] ++ startB ++ crossB ++ endB := by decide

end Redact
