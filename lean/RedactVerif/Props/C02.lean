import RedactVerif.Proofs.NI
import RedactVerif.Proofs.PrinterNI
import RedactVerif.Props.C01
import RedactVerif.Props.FactsClassify
import RedactVerif.Props.FactsSkelPrinter
/-
C02 — redacted output is independent of unsafe data (non-interference), and
C05's counting half as a corollary. Buffer level: for every pair of operation
sequences on `internal/buffer` (and through it `builder.StringBuilder`, the
printer's SafeWriter adapter) that agree on everything public — the operations,
the mode switches, every safe and every pre-redactable payload — and whose
unsafe payloads merely have the same shape (same line-feed structure, same
emptiness of the segments between line feeds), `Redact()` of the two results is
byte-for-byte the same.
-/
namespace Redact

/-- Relation between the operations of two runs, in mode `m`: everything public is equal;
unsafe payloads may differ but have the same shape. -/
def OpRel (m : Mode) : Op → Op → Prop
  | .write p1, .write p2 => PendRel m p1 p2
  | .writeByte x1, .writeByte x2 => if m = .unsafeEsc then (x1 = LF ↔ x2 = LF) else x1 = x2
  | .writeRune r1, .writeRune r2 => if m = .unsafeEsc then (r1 = 10 ↔ r2 = 10) else r1 = r2
  | .setMode m1, .setMode m2 => m1 = m2
  | .reset, .reset => True
  | .take, .take => True
  | .grow _, .grow _ => True
  | .accLen, .accLen => True
  | .accString, .accString => True
  | .accRedactable, .accRedactable => True
  | .accMode, .accMode => True
  | _, _ => False

theorem step_rel (b1 b2 : Buffer) (o1 o2 : Op) (h : BRel b1 b2) (hr : OpRel b1.mode o1 o2)
    (k1 : OpOk b1 o1) (k2 : OpOk b2 o2) : BRel (b1.step o1).1 (b2.step o2).1 := by
  cases o1 <;> cases o2 <;> simp only [OpRel] at hr <;> try (exact hr.elim)
  · subst hr; exact setMode_rel _ _ _ h
  · exact write_rel _ _ _ _ h hr k1 (fun hh => k2 (h.mode ▸ hh))
  · exact writeByte_rel _ _ _ _ h hr k1 (fun hh => k2 (h.mode ▸ hh))
  · exact writeRune_rel _ _ _ _ h hr k1 (fun hh => k2 (h.mode ▸ hh))
  · exact brel_init
  · show BRel b1.take.2 b2.take.2
    have ⟨_, o1, _⟩ := finalize_full b1 h.i1
    have ⟨_, o2, _⟩ := finalize_full b2 h.i2
    simp only [Buffer.take]
    rw [o1, o2]
    exact brel_init
  all_goals exact h

/-- Two related runs. -/
def RunRel : Buffer → Buffer → List Op → List Op → Prop
  | _, _, [], [] => True
  | b1, b2, o1 :: r1, o2 :: r2 => OpRel b1.mode o1 o2 ∧ RunRel (b1.step o1).1 (b2.step o2).1 r1 r2
  | _, _, _, _ => False

theorem run_rel (b1 b2 : Buffer) (ops1 ops2 : List Op) (h : BRel b1 b2) (hr : RunRel b1 b2 ops1 ops2)
    (k1 : RunOk b1 ops1) (k2 : RunOk b2 ops2) : BRel (b1.run ops1) (b2.run ops2) := by
  induction ops1 generalizing b1 b2 ops2 with
  | nil =>
    cases ops2 with
    | nil => simpa [Buffer.run] using h
    | cons _ _ => exact hr.elim
  | cons o1 r1 ih =>
    cases ops2 with
    | nil => exact hr.elim
    | cons o2 r2 =>
      simp only [Buffer.run, List.foldl_cons]
      exact ih _ _ r2 (step_rel b1 b2 o1 o2 h hr.1 k1.1 k2.1) hr.2 k1.2 k2.2

/-- What `Redact()` returns for the bytes of two related buffers is the same. -/
theorem redact_eq_of_brel (b1 b2 : Buffer) (h : BRel b1 b2) :
    redact b1.redactableBytes = redact b2.redactableBytes := by
  have ⟨f1, _, _⟩ := finalize_full b1 h.i1
  have ⟨f2, _, _⟩ := finalize_full b2 h.i2
  unfold redact Buffer.redactableBytes
  rw [redactT_eq_of_abs _ _ f1.sc f2.sc (finalize_rel b1 b2 h)]


/-- The public events of two related runs coincide (the skeleton a low observer sees). -/
theorem buffer_events_eq (ops1 ops2 : List Op) (hr : RunRel Buffer.init Buffer.init ops1 ops2)
    (k1 : RunOk Buffer.init ops1) (k2 : RunOk Buffer.init ops2) :
    evB (Buffer.init.run ops1).redactableBytes = evB (Buffer.init.run ops2).redactableBytes :=
  finalize_rel _ _ (run_rel _ _ _ _ brel_init hr k1 k2)

/-- **C02, buffer level.** Two operation sequences that agree on everything public and
whose unsafe payloads have the same shape give byte-identical `Redact()` results. -/
theorem buffer_noninterference (ops1 ops2 : List Op) (hr : RunRel Buffer.init Buffer.init ops1 ops2)
    (k1 : RunOk Buffer.init ops1) (k2 : RunOk Buffer.init ops2) :
    redact (Buffer.init.run ops1).redactableBytes = redact (Buffer.init.run ops2).redactableBytes :=
  redact_eq_of_brel _ _ (run_rel _ _ _ _ brel_init hr k1 k2)

/-! ### StringBuilder -/

/-- Public parts equal, unsafe parts of the same shape, inner print results with the same events. -/
def WOpRel : WOp → WOp → Prop
  | .safeString p1, .safeString p2 => p1 = p2
  | .safeByte x1, .safeByte x2 => x1 = x2
  | .safeRune r1, .safeRune r2 => r1 = r2
  | .safeNum p1, .safeNum p2 => p1 = p2
  | .unsafeString p1, .unsafeString p2 => canonB p1 = canonB p2
  | .unsafeByte x1, .unsafeByte x2 => (x1 = LF ↔ x2 = LF)
  | .unsafeRune r1, .unsafeRune r2 => (r1 = 10 ↔ r2 = 10)
  | .print r1, .print r2 => Obtainable r1 ∧ Obtainable r2 ∧ evB r1 = evB r2
  | _, _ => False

theorem run_two (b : Buffer) (o1 o2 : Op) : b.run [o1, o2] = ((b.step o1).1.step o2).1 := rfl

theorem builderOps_rel (b1 b2 : Buffer) (w1 w2 : WOp) (h : BRel b1 b2) (hw : WOpRel w1 w2) :
    BRel (b1.run (builderOps w1)) (b2.run (builderOps w2)) := by
  have sm : ∀ m, BRel (b1.setMode m) (b2.setMode m) := fun m => setMode_rel _ _ m h
  have md : ∀ (b : Buffer) m, (b.setMode m).mode = m := setMode_mode
  cases w1 <;> cases w2 <;> simp only [WOpRel] at hw <;> try (exact hw.elim)
  all_goals simp only [builderOps, run_two]
  · subst hw
    exact step_rel _ _ (.write _) (.write _) (sm _) (by simp [OpRel, PendRel, Buffer.step, md])
      (by simp [OpOk, Buffer.step, md]) (by simp [OpOk, Buffer.step, md])
  · subst hw
    exact step_rel _ _ (.writeByte _) (.writeByte _) (sm _) (by simp [OpRel, Buffer.step, md])
      (by simp [OpOk, Buffer.step, md]) (by simp [OpOk, Buffer.step, md])
  · subst hw
    exact step_rel _ _ (.writeRune _) (.writeRune _) (sm _) (by simp [OpRel, Buffer.step, md])
      (by simp [OpOk, Buffer.step, md]) (by simp [OpOk, Buffer.step, md])
  · subst hw
    exact step_rel _ _ (.write _) (.write _) (sm _) (by simp [OpRel, PendRel, Buffer.step, md])
      (by simp [OpOk, Buffer.step, md]) (by simp [OpOk, Buffer.step, md])
  · exact step_rel _ _ (.write _) (.write _) (sm _) (by simpa [OpRel, PendRel, Buffer.step, md] using hw)
      (by simp [OpOk, Buffer.step, md]) (by simp [OpOk, Buffer.step, md])
  · exact step_rel _ _ (.writeByte _) (.writeByte _) (sm _) (by simpa [OpRel, Buffer.step, md] using hw)
      (by simp [OpOk, Buffer.step, md]) (by simp [OpOk, Buffer.step, md])
  · exact step_rel _ _ (.writeRune _) (.writeRune _) (sm _) (by simpa [OpRel, Buffer.step, md] using hw)
      (by simp [OpOk, Buffer.step, md]) (by simp [OpOk, Buffer.step, md])
  · exact step_rel _ _ (.write _) (.write _) (sm _) (by simpa [OpRel, PendRel, Buffer.step, md] using hw.2.2)
      (by simpa [OpOk, Buffer.step, md] using hw.1) (by simpa [OpOk, Buffer.step, md] using hw.2.1)

/-- Pointwise relation of two call sequences. -/
def WRunRel : List WOp → List WOp → Prop
  | [], [] => True
  | w1 :: r1, w2 :: r2 => WOpRel w1 w2 ∧ WRunRel r1 r2
  | _, _ => False

theorem builderRun_rel (b1 b2 : Buffer) (ws1 ws2 : List WOp) (h : BRel b1 b2)
    (hw : WRunRel ws1 ws2) : BRel (builderRun b1 ws1) (builderRun b2 ws2) := by
  induction ws1 generalizing b1 b2 ws2 with
  | nil =>
    cases ws2 with
    | nil => simpa [builderRun, Buffer.run] using h
    | cons _ _ => exact hw.elim
  | cons w1 r1 ih =>
    cases ws2 with
    | nil => exact hw.elim
    | cons w2 r2 =>
      have e1 : builderRun b1 (w1 :: r1) = builderRun (b1.run (builderOps w1)) r1 := by
        simp [builderRun, run_append]
      have e2 : builderRun b2 (w2 :: r2) = builderRun (b2.run (builderOps w2)) r2 := by
        simp [builderRun, run_append]
      rw [e1, e2]
      exact ih _ _ r2 (builderOps_rel b1 b2 w1 w2 h hw.1) hw.2

/-- **C02, StringBuilder.** Two call sequences with equal safe payloads, unsafe payloads of
the same shape and inner print results with the same public events redact identically. -/
theorem builder_noninterference (ws1 ws2 : List WOp) (hw : WRunRel ws1 ws2) :
    redact (builderRun Buffer.init ws1).redactableBytes = redact (builderRun Buffer.init ws2).redactableBytes :=
  redact_eq_of_brel _ _ (builderRun_rel _ _ _ _ brel_init hw)

/-- Outputs with the same events can stand for each other as inner print results:
the relation composes through `Print`/`Printf` on a StringBuilder (histories of prints). -/
theorem builder_events_eq (ws1 ws2 : List WOp) (hw : WRunRel ws1 ws2) :
    evB (builderRun Buffer.init ws1).redactableBytes = evB (builderRun Buffer.init ws2).redactableBytes :=
  finalize_rel _ _ (builderRun_rel _ _ _ _ brel_init hw)

/-! Non-vacuity: two concrete runs with different secrets (`al`/`bobby`, `p‹\nx`/`?\n››`). -/

def exOps (secret1 secret2 : List Byte) : List Op :=
  [.write secret1, .setMode .safeEsc, .write [0x75, 0x3D], .setMode .unsafeEsc, .write secret2, .writeByte 0x21]

example : redact (Buffer.init.run (exOps [0x61, 0x6C] ([0x70] ++ startB ++ [0x0A, 0x78]))).redactableBytes
    = redact (Buffer.init.run (exOps [0x62, 0x6F, 0x62, 0x62, 0x79] ([0x3F, 0x0A] ++ endB ++ endB))).redactableBytes := by
  apply buffer_noninterference
  · simp [exOps, RunRel, OpRel, PendRel, Buffer.step, write_mode, setMode_mode, Buffer.init, canonB, cF, LF, startB, endB]
  · simp [exOps, RunOk, OpOk, Buffer.step, write_mode, setMode_mode, Buffer.init]
  · simp [exOps, RunOk, OpOk, Buffer.step, write_mode, setMode_mode, Buffer.init]

example : redact (Buffer.init.run (exOps [0x61, 0x6C] ([0x70] ++ startB ++ [0x0A, 0x78]))).redactableBytes
    = startB ++ crossB ++ endB ++ [0x75, 0x3D] ++ startB ++ crossB ++ endB ++ [0x0A] ++ startB ++ crossB ++ endB := by decide


/-! ### The printer: Sprint, Sprintf, HelperForErrorf -/

/-- What a low observer sees of a print call: how it ended and, on success, `Redact()` of the result. -/
def Res.redacted : Res → Option (Option (List Byte))
  | .ok p => some (some (redact p.buf.redactableBytes))
  | .panic _ _ => some none
  | .fuel => none
  | .unsupported => none

theorem redacted_eq_of_RR {pub : Nat → Prop} {ov0 : Override} {r1 r2 : Res} (h : RR pub ov0 r1 r2) : r1.redacted = r2.redacted := by
  cases r1 <;> cases r2 <;> simp only [RR] at h <;> try (exact h.elim)
  · simp only [Res.redacted]
    rw [redact_eq_of_brel _ _ h.1.b]
  all_goals rfl

theorem prel_newPP (we : Bool) : PRel { newPP with wrapErrs := we } { newPP with wrapErrs := we } :=
  ⟨brel_init, by show Buffer.init.mode ≠ .raw; decide, rfl, rfl, rfl, rfl, rfl, rfl, rfl, rfl⟩

/-- The security hypothesis on an argument list: what is declared safe is public (`SecV`),
and embedded redactables are finished redactables (`ValOk`). -/
def ArgsOk (pub : Nat → Prop) (args : List Val) : Prop := ListOk args ∧ ∀ v ∈ args, SecV pub v

/-- **C02, printer level.** For every format (every verb, flag, width, precision, `*` and
argument-index form, well-formed or not) and every argument list of the modelled universe,
two runs whose leaf renderings agree on every leaf declared safe and have the same shape
(same emptiness, same line-feed structure) on every other leaf end the same way (both return,
or both panic), and `Redact()` of the two results is byte-for-byte identical. -/
theorem sprintf_noninterference (pub : Nat → Prop) (env1 env2 : Env) (he : EnvRel pub env1 env2)
    (format : List Byte) (args : List Val) (ha : ArgsOk pub args) :
    (sprintf env1 format args).redacted = (sprintf env2 format args).redacted :=
  redacted_eq_of_RR ((rspec_all he defaultFuel).doPrintf .no _ _ format args (prel_newPP false) rfl ha.1 ha.2)

theorem sprint_noninterference (pub : Nat → Prop) (env1 env2 : Env) (he : EnvRel pub env1 env2)
    (args : List Val) (ha : ArgsOk pub args) :
    (sprint env1 args).redacted = (sprint env2 args).redacted :=
  redacted_eq_of_RR ((rspec_all he defaultFuel).doPrint .no _ _ args (prel_newPP false) rfl ha.1 ha.2)

theorem helperForErrorf_noninterference (pub : Nat → Prop) (env1 env2 : Env) (he : EnvRel pub env1 env2)
    (format : List Byte) (args : List Val) (ha : ArgsOk pub args) :
    (helperForErrorf env1 format args).redacted = (helperForErrorf env2 format args).redacted :=
  redacted_eq_of_RR ((rspec_all he defaultFuel).doPrintf .no _ _ format args (prel_newPP true) rfl ha.1 ha.2)

/-- The same for any user method script run on a SafePrinter (`SafeFormat`, `Format`, error hook). -/
theorem script_noninterference (pub : Nat → Prop) (env1 env2 : Env) (he : EnvRel pub env1 env2)
    (sc : Script) (hok : ScriptOk sc) (hs : SecS pub sc) (fuel : Nat) :
    SR pub .no (runScript env1 fuel newPP sc) (runScript env2 fuel newPP sc) :=
  (rspec_all he fuel).runScript .no _ _ sc (prel_newPP false) rfl hok hs

/-! Non-vacuity: the hypotheses are met by two oracles that differ on an unsafe leaf. -/

def exPub : Nat → Prop := fun id => id = 1
def exEnv (secret : List Byte) : Env :=
  { render := fun id _ => if id = 0 then some secret else if id = 1 then some [0x37] else none, hook := none }
def exArgs : List Val :=
  [.leaf 0 .str ([0x73, 0x74, 0x72, 0x69, 0x6E, 0x67] /- "string" -/ : List UInt8) none false false,
   .safeW (.leaf 1 .sint ([0x69, 0x6E, 0x74] /- "int" -/ : List UInt8) (some 7) false false)]

example : EnvRel exPub (exEnv [0x61, 0x62]) (exEnv [0x7A]) ∧ ArgsOk exPub exArgs ∧
    (exEnv [0x61, 0x62]).render 0 [] ≠ (exEnv [0x7A]).render 0 [] := by
  refine ⟨⟨rfl, ?_, ?_, ?_⟩, ⟨?_, ?_⟩, by simp [exEnv]⟩
  · intro id d
    simp only [exEnv]
    by_cases h0 : id = 0
    · simp [h0, canonB, cF, LF, exPub]
    · by_cases h1 : id = 1
      · simp [h1, exPub]
      · simp [h0, h1]
  · intro f hf; simp [exEnv] at hf
  · intro h hh; simp [exEnv] at hh
  · intro v hv; simp [exArgs] at hv; rcases hv with rfl | rfl <;> simp [ValOk]
  · intro v hv; simp [exArgs] at hv; rcases hv with rfl | rfl <;> simp [SecV, AllPubV, exPub]

/-- Known finding D12 as a theorem about the model: left padding in front of an unsafe value that
starts with a line feed is an envelope of its own. `%6s` of the short value `"\nab"` renders as
three spaces, a line feed, `ab`; of the long value `"\nabcdef"` as itself. Same line-feed positions
in the values, different redacted outputs — the renderings are not shape-equal (the first has a
non-empty segment before the line feed), which is the hypothesis the two-run theorems need. -/
theorem pad_before_leading_lf_shows :
    redact (Buffer.init.run [.write [0x20, 0x20, 0x20, 0x0A, 0x61, 0x62]]).redactableBytes
      = startB ++ crossB ++ endB ++ [0x0A] ++ startB ++ crossB ++ endB ∧
    redact (Buffer.init.run [.write [0x0A, 0x61, 0x62, 0x63, 0x64, 0x65, 0x66]]).redactableBytes
      = [0x0A] ++ startB ++ crossB ++ endB ∧
    canonB [0x20, 0x20, 0x20, 0x0A, 0x61, 0x62] ≠ canonB [0x0A, 0x61, 0x62, 0x63, 0x64, 0x65, 0x66] := by
  refine ⟨by decide, by decide, by decide⟩

end Redact
