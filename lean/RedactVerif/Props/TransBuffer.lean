import RedactVerif.Generated.Trans
import RedactVerif.Proofs.Escape
import RedactVerif.Proofs.Utf8Valid
/-
The tie for `internal/buffer/buffer.go` by translation. `Generated/Trans.lean` holds every method of
`buffer.Buffer` except the capacity management, as the translator reads them off /repo on every
run; here each is proved to compute what the hand-written model (`Model/Buffer.lean`, the one
`Inv`, `KInv`, `BRel`, C01/C02/C03/C09/C13 are about) computes, on every model state.

Not translated (and so tied by the B-stream correspondence only): `tryGrowByReslice`, `grow`,
`Grow`, `Cap`, `clone`, `makeSlice` — the idiom `m, ok := b.tryGrowByReslice(n); if !ok { m = b.grow(n) }`
is read as "extend by n bytes, m = old length" (`goExtend`); `TakeRedactableString` (the same body as
`TakeRedactableBytes` but for an `unsafe.Pointer` conversion); aliasing between a by-value copy and
the original's backing array (C13's accessor purity: hidden state compared by the correspondence).
-/
namespace Redact

def modeInt : Mode → Int
  | .unsafeEsc => 0
  | .safeEsc => 1
  | .raw => 2

/-- A model state as the Go struct. -/
@[reducible] def conc (b : Buffer) : GoBuffer :=
  { buf := b.buf, validUntil := (b.validUntil : Int), mode := modeInt b.mode, markerOpen := b.markerOpen }

theorem modeInt_eq_zero (m : Mode) : (modeInt m == 0) = decide (m = .unsafeEsc) := by cases m <;> decide
theorem modeInt_eq_one (m : Mode) : (modeInt m == 1) = decide (m = .safeEsc) := by cases m <;> decide
theorem modeInt_eq_two (m : Mode) : (modeInt m == 2) = decide (m = .raw) := by cases m <;> decide
theorem modeInt_inj (a b : Mode) : (modeInt a == modeInt b) = decide (a = b) := by cases a <;> cases b <;> decide

theorem length_of_hasSuffix {l s : List Byte} (h : hasSuffix l s = true) : s.length ≤ l.length := by
  rw [hasSuffix_iff] at h
  exact h.length_le

theorem goSliceTo_dropLast {l : List Byte} {s : List Byte} (h : hasSuffix l s = true) (hs : s.length = 3) :
    goSliceTo l (goLen l - 3) = dropLast 3 l := by
  have hl := length_of_hasSuffix h
  unfold goSliceTo goLen dropLast
  have h1 : (0 : Int) ≤ (l.length : Int) - 3 := by omega
  have h2 : ((l.length : Int) - 3).toNat = l.length - 3 := by omega
  rw [h2]
  simp only [h1, true_and]
  have h3 : l.length - 3 ≤ l.length := by omega
  simp [h3]

/-- The grow-and-copy idiom appends. -/
theorem copy_extend (l src : List Byte) : goCopyAt (goExtend l (goLen src)) (goLen l) src = l ++ src := by
  unfold goCopyAt goExtend goLen
  simp only [Int.toNat_natCast, List.length_append, List.length_replicate]
  have h1 : (0 : Int) ≤ (l.length : Int) ∧ l.length ≤ l.length + src.length := ⟨by omega, by omega⟩
  rw [if_pos h1]
  simp

theorem copy_extend' (l src : List Byte) (n : Int) (hn : n.toNat = src.length) :
    goCopyAt (goExtend l n) (goLen l) src = l ++ src := by
  unfold goCopyAt goExtend goLen
  simp only [Int.toNat_natCast, List.length_append, List.length_replicate, hn]
  have h1 : (0 : Int) ≤ (l.length : Int) ∧ l.length ≤ l.length + src.length := ⟨by omega, by omega⟩
  rw [if_pos h1]
  simp

theorem copyN_extend (l src : List Byte) : goCopyN (goExtend l (goLen src)) (goLen l) src = (src.length : Int) := by
  unfold goCopyN goExtend goLen
  simp

theorem setAt_extend (l : List Byte) (x : Byte) : goSetAt (goExtend l 1) (goLen l) x = l ++ [x] := by
  unfold goSetAt goExtend goLen
  simp

theorem escapeToEnd_translated (b : Buffer) (nl : Bool) :
    Trans.escapeToEnd (conc b) nl = conc (b.escapeToEnd nl) := by
  simp [Trans.escapeToEnd, Id.run, conc, Buffer.escapeToEnd, goInternalEscapeBytes, goLen]
  rfl

theorem endRedactable_translated (b : Buffer) : Trans.endRedactable (conc b) = conc b.endRedactable := by
  unfold Trans.endRedactable Buffer.endRedactable
  by_cases h0 : b.buf = []
  · simp [Id.run, conc, goLen, h0]
    rfl
  · have hne : ¬ ((b.buf.length : Int) = 0) := by
      intro h; apply h0; exact List.length_eq_zero_iff.mp (by omega)
    have hne' : b.buf.isEmpty = false := by simpa using h0
    by_cases hs : hasSuffix b.buf startB = true
    · have h3 := goSliceTo_dropLast hs (by decide)
      simp only [goLen] at h3
      have hs' : hasSuffix b.buf [226, 128, 185] = true := hs
      simp only [Id.run, conc, goLen, goHasSuffix, hne, hne', hs', hs, h3, beq_iff_eq, if_false, if_true, Bool.false_eq_true]
      rfl
    · have hs' : ¬ hasSuffix b.buf [226, 128, 185] = true := hs
      have hc := copy_extend' b.buf endB 3 (by decide)
      simp only [goLen, endB] at hc
      simp only [Id.run, conc, goLen, goHasSuffix, hne, hne', hs', hs, hc, endB, beq_iff_eq, if_false, if_true, Bool.false_eq_true]
      rfl

theorem startRedactable_translated (b : Buffer) : Trans.startRedactable (conc b) = conc b.startRedactable := by
  unfold Trans.startRedactable Buffer.startRedactable
  by_cases hs : hasSuffix b.buf endB = true
  · have h3 := goSliceTo_dropLast hs (by decide)
    simp only [goLen] at h3
    have hs' : hasSuffix b.buf [226, 128, 186] = true := hs
    simp only [Id.run, conc, goLen, goHasSuffix, hs', hs, h3, if_true]
    rfl
  · have hs' : ¬ hasSuffix b.buf [226, 128, 186] = true := hs
    have hc := copy_extend b.buf startB
    simp only [goLen, startB] at hc
    simp only [Id.run, conc, goLen, goHasSuffix, hs', hs, hc, startB, if_false, Bool.false_eq_true]
    rfl

theorem startWrite_translated (b : Buffer) : Trans.startWrite (conc b) = conc b.startWrite := by
  unfold Trans.startWrite Buffer.startWrite
  by_cases hc : b.mode = .unsafeEsc ∧ b.markerOpen = false
  · have e1 : ((conc b).mode == (0 : Int)) = true := by rw [show (conc b).mode = modeInt b.mode from rfl, modeInt_eq_zero]; simp [hc.1]
    have e2 : (conc b).markerOpen = false := hc.2
    simp only [Id.run, e1, e2, Bool.not_false, Bool.and_self, if_true, hc, and_self, startRedactable_translated]
    rfl
  · have e : (((conc b).mode == (0 : Int)) && !(conc b).markerOpen) = false := by
      rw [show (conc b).mode = modeInt b.mode from rfl, modeInt_eq_zero]
      show (decide (b.mode = .unsafeEsc) && !b.markerOpen) = false
      cases hm : b.markerOpen <;> simp_all
    simp only [Id.run, e, hc, if_false, Bool.false_eq_true]
    rfl

/-! The same statements on explicit constructors (the form in which callers meet them). -/
theorem escapeToEnd_translated' (buf : List Byte) (vu : Nat) (m : Mode) (mo nl : Bool) :
    Trans.escapeToEnd { buf := buf, validUntil := (vu : Int), mode := modeInt m, markerOpen := mo } nl =
      conc (Buffer.escapeToEnd ⟨buf, vu, m, mo⟩ nl) := escapeToEnd_translated ⟨buf, vu, m, mo⟩ nl
theorem endRedactable_translated' (buf : List Byte) (vu : Nat) (m : Mode) (mo : Bool) :
    Trans.endRedactable { buf := buf, validUntil := (vu : Int), mode := modeInt m, markerOpen := mo } =
      conc (Buffer.endRedactable ⟨buf, vu, m, mo⟩) := endRedactable_translated ⟨buf, vu, m, mo⟩
theorem startRedactable_translated' (buf : List Byte) (vu : Nat) (m : Mode) (mo : Bool) :
    Trans.startRedactable { buf := buf, validUntil := (vu : Int), mode := modeInt m, markerOpen := mo } =
      conc (Buffer.startRedactable ⟨buf, vu, m, mo⟩) := startRedactable_translated ⟨buf, vu, m, mo⟩
theorem startWrite_translated' (buf : List Byte) (vu : Nat) (m : Mode) (mo : Bool) :
    Trans.startWrite { buf := buf, validUntil := (vu : Int), mode := modeInt m, markerOpen := mo } =
      conc (Buffer.startWrite ⟨buf, vu, m, mo⟩) := startWrite_translated ⟨buf, vu, m, mo⟩

theorem finalize_translated (b : Buffer) : Trans.finalize (conc b) = conc b.finalize := by
  obtain ⟨buf, vu, m, mo⟩ := b
  cases m <;> cases mo <;>
    simp [Trans.finalize, Buffer.finalize, Id.run, modeInt_eq_two, modeInt_eq_zero, escapeToEnd_translated',
      endRedactable_translated', goLen] <;> rfl

theorem finalize_translated' (buf : List Byte) (vu : Nat) (m : Mode) (mo : Bool) :
    Trans.finalize { buf := buf, validUntil := (vu : Int), mode := modeInt m, markerOpen := mo } =
      conc (Buffer.finalize ⟨buf, vu, m, mo⟩) := finalize_translated ⟨buf, vu, m, mo⟩

theorem setMode_translated (b : Buffer) (m' : Mode) : Trans.SetMode (conc b) (modeInt m') = conc (b.setMode m') := by
  obtain ⟨buf, vu, m, mo⟩ := b
  cases m <;> cases m' <;> cases mo <;>
    simp [Trans.SetMode, Buffer.setMode, Id.run, modeInt_inj, modeInt_eq_one, modeInt_eq_zero, escapeToEnd_translated',
      endRedactable_translated', goLen] <;> rfl

theorem reset_translated (b : Buffer) : Trans.Reset (conc b) = conc b.reset := by
  simp [Trans.Reset, Buffer.reset, Buffer.init, Id.run, goSliceTo, modeInt]
  rfl

theorem write_translated (b : Buffer) (p : List Byte) :
    Trans.Write (conc b) p = (conc (b.write p), ((p.length : Int), ())) := by
  obtain ⟨buf, vu, m, mo⟩ := b
  simp only [Trans.Write, Id.run, startWrite_translated', Buffer.write, Buffer.append]
  generalize Buffer.startWrite ⟨buf, vu, m, mo⟩ = b1
  simp only [copy_extend, copyN_extend]
  rfl

theorem writeString_translated (b : Buffer) (p : List Byte) :
    Trans.WriteString (conc b) p = (conc (b.write p), ((p.length : Int), ())) := by
  obtain ⟨buf, vu, m, mo⟩ := b
  simp only [Trans.WriteString, Id.run, startWrite_translated', Buffer.write, Buffer.append]
  generalize Buffer.startWrite ⟨buf, vu, m, mo⟩ = b1
  simp only [copy_extend, copyN_extend]
  rfl

theorem writeByte_cond : ∀ s : Byte,
    (((decide (s ≥ (128 : UInt8))) || (s == goIndex ([0xE2, 0x80, 0xB9] : List UInt8) (0 : Int))) ||
      (s == goIndex ([0xE2, 0x80, 0xBA] : List UInt8) (0 : Int))) = decide (s ≥ 0x80) := by
  apply byte_forall; decide +kernel

theorem writeByte_translated (b : Buffer) (x : Byte) :
    Trans.WriteByte (conc b) x = (conc (b.writeByte x), ()) := by
  obtain ⟨buf, vu, m, mo⟩ := b
  simp only [Trans.WriteByte, Id.run, startWrite_translated', Buffer.writeByte, writeByte_cond]
  generalize Buffer.startWrite ⟨buf, vu, m, mo⟩ = b1
  obtain ⟨buf1, vu1, m1, mo1⟩ := b1
  by_cases hc : m1 = .unsafeEsc ∧ x ≥ 0x80
  · obtain ⟨rfl, hx⟩ := hc
    have hw := writeString_translated ⟨buf1, vu1, .unsafeEsc, mo1⟩ escB
    simp only [escB] at hw
    have e : ((modeInt Mode.unsafeEsc == (0 : Int)) && decide (x ≥ 0x80)) = true := by
      rw [modeInt_eq_zero]; simp [hx]
    simp only [e, hx, and_self, if_true, hw]
    rfl
  · have e : ((modeInt m1 == (0 : Int)) && decide (x ≥ 0x80)) = false := by
      rw [modeInt_eq_zero]
      by_cases h1 : m1 = .unsafeEsc
      · have : ¬ x ≥ 0x80 := fun h => hc ⟨h1, h⟩
        simp [h1, this]
      · simp [h1]
    simp only [e, hc, if_false, Bool.false_eq_true, setAt_extend, Buffer.append]
    rfl

theorem goRuneLen_eq (r : Int) :
    goRuneLen r = (match runeLen r with | none => -1 | some k => (k : Int)) := by
  unfold goRuneLen runeLen
  by_cases a : r < 0
  · simp [a]
  · by_cases b : r < 0x80
    · have b' : r ≤ 0x7F := by omega
      simp [a, b, b']
    · have b' : ¬ r ≤ 0x7F := by omega
      by_cases c : r < 0x800
      · have c' : r ≤ 0x7FF := by omega
        simp [a, b, b', c, c']
      · have c' : ¬ r ≤ 0x7FF := by omega
        by_cases d : 0xD800 ≤ r ∧ r ≤ 0xDFFF
        · simp [a, b, b', c, c', d.1, d.2]
        · by_cases e : r < 0x10000
          · have e' : r ≤ 0xFFFF := by omega
            simp [a, b, b', c, c', d, e, e']
          · have e' : ¬ r ≤ 0xFFFF := by omega
            by_cases f : r ≤ 0x10FFFF <;> simp [a, b, b', c, c', d, e, e', f]

/-- `utf8.RuneLen` (with `RuneError`'s length for invalid runes, as `WriteRune` computes it) is the
length of what `utf8.EncodeRune` writes. -/
theorem encodeRune_length (r : Int) :
    (if goRuneLen r < 0 then goRuneLen 65533 else goRuneLen r).toNat = (encodeRune r).length := by
  have h65533 : goRuneLen 65533 = 3 := by decide
  rw [h65533, goRuneLen_eq]
  rcases runeLen_cases r with h | ⟨h, _⟩ | ⟨h, _⟩ | ⟨h, _⟩ | ⟨h, _⟩ <;> simp [encodeRune, h, runeErrorB]

theorem writeRune_translated (b : Buffer) (r : Int) :
    Trans.WriteRune (conc b) r = (conc (b.writeRune r), ()) := by
  obtain ⟨buf, vu, m, mo⟩ := b
  simp only [Trans.WriteRune, Id.run, startWrite_translated', Buffer.writeRune, Buffer.append]
  generalize Buffer.startWrite ⟨buf, vu, m, mo⟩ = b1
  have hl := encodeRune_length r
  have hc := copy_extend' b1.buf (encodeRune r) (if goRuneLen r < 0 then goRuneLen 65533 else goRuneLen r) hl
  by_cases hneg : goRuneLen r < 0
  · simp only [hneg, if_true, decide_true] at hc ⊢
    simp only [goEncodeRune, hc]
    rfl
  · simp only [hneg, if_false, decide_false, Bool.false_eq_true] at hc ⊢
    simp only [goEncodeRune, hc]
    rfl

theorem redactableBytes_translated (b : Buffer) : Trans.RedactableBytes (conc b) = b.redactableBytes := by
  simp only [Trans.RedactableBytes, Id.run, finalize_translated, Buffer.redactableBytes]
  rfl

theorem redactableString_translated (b : Buffer) : Trans.RedactableString (conc b) = b.redactableBytes := by
  simp only [Trans.RedactableString, Id.run, finalize_translated, Buffer.redactableBytes]
  rfl

theorem string_translated (b : Buffer) : Trans.String (conc b) = b.string := by
  simp only [Trans.String, Id.run, finalize_translated, Buffer.string, goStripMarkers]
  rfl

theorem take_translated (b : Buffer) : Trans.TakeRedactableBytes (conc b) = (conc b.take.2, b.take.1) := by
  simp only [Trans.TakeRedactableBytes, Id.run, finalize_translated, Buffer.take]
  rfl

theorem len_translated (b : Buffer) : Trans.Len (conc b) = (conc b, (b.len : Int)) := by
  simp only [Trans.Len, Id.run, finalize_translated, Buffer.len, goLen]
  rfl

theorem getMode_translated (b : Buffer) : Trans.GetMode (conc b) = (conc b, modeInt b.mode) := rfl

/-! ### Sequences of translated calls -/

/-- One call of the translated code, per operation of the model's alphabet (`Grow` and `Cap` are
capacity management, not translated: identity on what is observed). -/
def transStep (g : GoBuffer) : Op → GoBuffer
  | .setMode m => Trans.SetMode g (modeInt m)
  | .write p => (Trans.Write g p).1
  | .writeByte x => (Trans.WriteByte g x).1
  | .writeRune r => (Trans.WriteRune g r).1
  | .reset => Trans.Reset g
  | .take => (Trans.TakeRedactableBytes g).1
  | .grow _ => g
  | .accLen => (Trans.Len g).1
  | .accString => g
  | .accRedactable => g
  | .accMode => (Trans.GetMode g).1

def transRun (g : GoBuffer) (ops : List Op) : GoBuffer := ops.foldl transStep g

theorem transStep_conc (b : Buffer) (op : Op) : transStep (conc b) op = conc (b.step op).1 := by
  cases op <;> simp only [transStep, Buffer.step, setMode_translated, write_translated, writeByte_translated,
    writeRune_translated, reset_translated, take_translated, len_translated, getMode_translated]

/-- **Every sequence of calls of the translated methods computes the model's run.** -/
theorem transRun_conc (b : Buffer) (ops : List Op) : transRun (conc b) ops = conc (b.run ops) := by
  induction ops generalizing b with
  | nil => rfl
  | cons op r ih =>
    show transRun (transStep (conc b) op) r = conc (Buffer.run (b.step op).1 r)
    rw [transStep_conc]; exact ih _

end Redact
