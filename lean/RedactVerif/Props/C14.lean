import RedactVerif.Model.Format
import RedactVerif.Props.TransFormat
import RedactVerif.Props.TransParse
/-
C14 — format forwarding reproduces the active directive exactly.

`makeFormat` is `internal/fmtforward/make_format.go`; `parseDirective rule` is
the directive parser of `doPrintf` (rule = true: redact's fork; rule = false:
Go ≥ 1.22's treatment of the `0` flag). The round-trip theorem is proved for
all flag subsets, all widths ≥ 1 and precisions the parser can produce, and
all ASCII-letter verbs, with no enumeration.

FULL STATEMENT (not proved in full): the same for every verb rune the parser
can hand to a formatter, i.e. also multi-byte verbs. The UTF-8
encode/decode round trip over `Nat` bit operations is not proved; the three
multi-byte verbs the property names are checked by `decide` below
(`multibyte_examples`), and the harness sweeps them on the real code.
The theorem is therefore named `…_partial`.

Known finding D9 (`width_zero_not_reproduced`): an explicit width 0 (only
reachable through `*`) is emitted as `%0d`, which re-parses as the zero flag.
-/
namespace Redact

def digitByte (k : Nat) : Byte := UInt8.ofNat (48 + k)

theorem digitByte_isDigit (k : Nat) (h : k < 10) : isDigit (digitByte k) = true := by
  have : ∀ k : Fin 10, isDigit (digitByte k.val) = true := by decide
  exact this ⟨k, h⟩

theorem digitByte_val (k : Nat) (h : k < 10) : (digitByte k).toNat - 48 = k := by
  have : ∀ k : Fin 10, (digitByte k.val).toNat - 48 = k.val := by decide
  exact this ⟨k, h⟩

/-- Re-parsing the digits `digitsAux` produces. -/
theorem parsenum_digitsAux (fuel n : Nat) (acc rest : List Byte) (hf : n < fuel) (hn : n / 10 ≤ 1000000) :
    parsenumAux 0 false (digitsAux fuel n acc ++ rest) = parsenumAux n true (acc ++ rest) := by
  induction fuel generalizing n acc with
  | zero => omega
  | succ f ih =>
    unfold digitsAux
    simp only
    by_cases h10 : n < 10
    · simp only [h10, if_true, List.cons_append]
      rw [parsenumAux]
      have hd : n % 10 = n := Nat.mod_eq_of_lt h10
      rw [hd]
      simp [digitByte_isDigit n h10, tooLarge, show (UInt8.ofNat (48 + n)) = digitByte n from rfl, digitByte_val n h10]
    · simp only [h10, if_false]
      rw [ih (n / 10) _ (by omega) (by omega)]
      simp only [List.cons_append]
      rw [parsenumAux]
      have hlt : n % 10 < 10 := Nat.mod_lt _ (by decide)
      have htl : tooLarge (n / 10) = false := by simp [tooLarge]; omega
      simp [show (UInt8.ofNat (48 + n % 10)) = digitByte (n % 10) from rfl, digitByte_isDigit _ hlt, htl, digitByte_val _ hlt]
      congr 1
      omega

theorem parsenum_itoa (n : Nat) (rest : List Byte) (hn : n ≤ 10000009)
    (hr : ∀ c r, rest = c :: r → isDigit c = false) :
    parsenum (itoa n ++ rest) = (n, true, rest) := by
  unfold parsenum itoa
  rw [parsenum_digitsAux (n + 1) n [] rest (by omega) (by omega)]
  simp only [List.nil_append]
  cases rest with
  | nil => simp [parsenumAux]
  | cons c r => simp [parsenumAux, hr c r rfl]


def isFlagByte (c : Byte) : Bool := c == 0x23 || c == 0x30 || c == 0x2B || c == 0x2D || c == 0x20

theorem parseFlags_stop (rule : Bool) (st : FState) (c : Byte) (r : List Byte) (h : isFlagByte c = false) :
    parseFlags rule st (c :: r) = (st, c :: r) := by
  simp only [isFlagByte, Bool.or_eq_false_iff, beq_eq_false_iff_ne] at h
  rw [parseFlags]
  simp [h.1.1.1.1, h.1.1.1.2, h.1.1.2, h.1.2, h.2]

def flagBytes (s : FState) : List Byte :=
  (if s.plus then [0x2B] else []) ++ (if s.minus then [0x2D] else []) ++ (if s.sharp then [0x23] else [])
  ++ (if s.space then [0x20] else []) ++ (if s.zero then [0x30] else [])

def widBytes (s : FState) : List Byte := match s.wid with | some w => itoa w | none => []
def precBytes (s : FState) : List Byte := match s.prec with | some p => 0x2E :: itoa p | none => []

/-- The fast paths of `MakeFormat` produce the same bytes as the general path. -/
theorem makeFormat_bytes (s : FState) :
    (makeFormat s).2 = 0x25 :: (flagBytes s ++ (widBytes s ++ (precBytes s ++ runeBytes s.verb))) := by
  unfold makeFormat
  by_cases hn : noFlags s = true
  · have : s.plus = false ∧ s.minus = false ∧ s.sharp = false ∧ s.space = false ∧ s.zero = false ∧ s.wid = none ∧ s.prec = none := by
      simp [noFlags] at hn
      obtain ⟨⟨⟨⟨⟨⟨h1, h2⟩, h3⟩, h4⟩, h5⟩, h6⟩, h7⟩ := hn
      exact ⟨h1, h2, h3, h4, h5, h6, h7⟩
    obtain ⟨h1, h2, h3, h4, h5, h6, h7⟩ := this
    simp only [hn, Bool.true_and]
    split
    · rename_i hv; simp at hv; simp [flagBytes, widBytes, precBytes, h1, h2, h3, h4, h5, h6, h7, hv]; decide
    · split
      · rename_i hv; simp at hv; simp [flagBytes, widBytes, precBytes, h1, h2, h3, h4, h5, h6, h7, hv]; decide
      · split
        · rename_i hv; simp at hv; simp [flagBytes, widBytes, precBytes, h1, h2, h3, h4, h5, h6, h7, hv]; decide
        · simp [flagBytes, widBytes, precBytes, h1, h2, h3, h4, h5, h6, h7]
  · have hn' : noFlags s = false := by simpa using hn
    simp [hn', flagBytes, widBytes, precBytes]
    cases s.wid <;> cases s.prec <;> simp


/-- Parsing the flag bytes written by `MakeFormat` recovers the flags; with the
fork's rule for `0` this needs the state not to have both `-` and `0` (the
fork's own parser never produces that). -/
theorem parseFlags_flagBytes (rule : Bool) (s : FState) (rest : List Byte)
    (hr : ∀ c r, rest = c :: r → isFlagByte c = false)
    (hz : rule = true → ¬ (s.minus = true ∧ s.zero = true)) :
    parseFlags rule {} (flagBytes s ++ rest) =
      ({ plus := s.plus, minus := s.minus, sharp := s.sharp, space := s.space, zero := s.zero }, rest) := by
  have stop : ∀ st, parseFlags rule st rest = (st, rest) := by
    intro st
    cases rest with
    | nil => simp [parseFlags]
    | cons c r => exact parseFlags_stop rule st c r (hr c r rfl)
  obtain ⟨plus, minus, sharp, space, zero, wid, prec, verb⟩ := s
  simp only at hz
  cases rule <;> cases plus <;> cases minus <;> cases sharp <;> cases space <;> cases zero <;>
    simp_all [flagBytes, parseFlags]

/-- First byte of the decimal rendering of a positive number: a digit 1–9. -/
theorem digitsAux_head (fuel n : Nat) (acc : List Byte) (hf : n < fuel) (hn : 1 ≤ n) :
    ∃ d r, digitsAux fuel n acc = digitByte d :: r ∧ 1 ≤ d ∧ d ≤ 9 := by
  induction fuel generalizing n acc with
  | zero => omega
  | succ f ih =>
    unfold digitsAux
    simp only
    by_cases h10 : n < 10
    · simp only [h10, if_true]
      exact ⟨n % 10, acc, rfl, by rw [Nat.mod_eq_of_lt h10]; exact hn, by omega⟩
    · simp only [h10, if_false]
      exact ih (n / 10) _ (by omega) (by omega)

theorem digitByte_notFlag (d : Nat) (h1 : 1 ≤ d) (h9 : d ≤ 9) : isFlagByte (digitByte d) = false ∧ isDigit (digitByte d) = true := by
  have : ∀ k : Fin 10, 1 ≤ k.val → isFlagByte (digitByte k.val) = false ∧ isDigit (digitByte k.val) = true := by decide
  exact this ⟨d, by omega⟩ h1

def VerbOk (v : Nat) : Prop := (65 ≤ v ∧ v ≤ 90) ∨ (97 ≤ v ∧ v ≤ 122)

theorem runeBytes_ascii (v : Nat) (h : VerbOk v) : runeBytes v = [UInt8.ofNat v] := by
  have key : ∀ k : Fin 128, runeBytes k.val = [UInt8.ofNat k.val] := by decide
  have hv : v < 128 := by rcases h with h | h <;> omega
  exact key ⟨v, hv⟩

theorem verbByte_props (v : Nat) (h : VerbOk v) :
    isFlagByte (UInt8.ofNat v) = false ∧ isDigit (UInt8.ofNat v) = false ∧ UInt8.ofNat v ≠ 0x2E ∧
    UInt8.ofNat v < 0x80 ∧ (UInt8.ofNat v).toNat = v := by
  have key : ∀ k : Fin 128, VerbOk k.val →
      isFlagByte (UInt8.ofNat k.val) = false ∧ isDigit (UInt8.ofNat k.val) = false ∧ UInt8.ofNat k.val ≠ 0x2E ∧
      UInt8.ofNat k.val < 0x80 ∧ (UInt8.ofNat k.val).toNat = k.val := by
    unfold VerbOk; decide
  have hv : v < 128 := by rcases h with h | h <;> omega
  exact key ⟨v, hv⟩ h


theorem itoa_head (w : Nat) (hw : 1 ≤ w) : ∃ d r, itoa w = digitByte d :: r ∧ 1 ≤ d ∧ d ≤ 9 :=
  digitsAux_head (w + 1) w [] (by omega) hw

theorem itoa_ne_nil (w : Nat) : ∃ c r, itoa w = c :: r ∧ isDigit c = true := by
  by_cases hw : 1 ≤ w
  · obtain ⟨d, r, h, h1, h9⟩ := itoa_head w hw
    exact ⟨_, r, h, (digitByte_notFlag d h1 h9).2⟩
  · have : w = 0 := by omega
    subst this
    exact ⟨0x30, [], by decide, by decide⟩

/-- **C14, round trip (ASCII-letter verbs).** For every state a `fmt.State`
can report — any subset of the five flags, any width ≥ 1 and any precision the
parser can have produced (≤ 10 000 009), any ASCII-letter verb — the format
string `MakeFormat` returns, parsed again by the directive parser (the fork's
or Go ≥ 1.22's rule for `0`), re-creates exactly that state. -/
theorem makeFormat_roundtrip_partial (rule : Bool) (s : FState)
    (hv : VerbOk s.verb)
    (hw : ∀ w, s.wid = some w → 1 ≤ w ∧ w ≤ 10000009)
    (hp : ∀ p, s.prec = some p → p ≤ 10000009)
    (hz : rule = true → ¬ (s.minus = true ∧ s.zero = true)) :
    parseDirective rule (makeFormat s).2 = some s := by
  have ⟨vf, vd, vdot, vlt, vnat⟩ := verbByte_props s.verb hv
  rw [makeFormat_bytes, runeBytes_ascii _ hv]
  unfold parseDirective
  simp only
  -- flags
  have hrest : ∀ c r, widBytes s ++ (precBytes s ++ [UInt8.ofNat s.verb]) = c :: r → isFlagByte c = false := by
    intro c r h
    unfold widBytes precBytes at h
    cases hwid : s.wid with
    | some w =>
      obtain ⟨d, r', hd, h1, h9⟩ := itoa_head w (hw w hwid).1
      simp only [hwid, hd, List.cons_append] at h
      have := (List.cons.inj h).1
      rw [← this]; exact (digitByte_notFlag d h1 h9).1
    | none =>
      cases hprec : s.prec with
      | some p => simp only [hwid, hprec, List.nil_append, List.cons_append] at h; rw [← (List.cons.inj h).1]; decide
      | none => simp only [hwid, hprec, List.nil_append] at h; rw [← (List.cons.inj h).1]; exact vf
  rw [parseFlags_flagBytes rule s _ hrest hz]
  simp only
  -- width
  have hwidparse : parsenum (widBytes s ++ (precBytes s ++ [UInt8.ofNat s.verb])) =
      ((s.wid.getD 0), s.wid.isSome, precBytes s ++ [UInt8.ofNat s.verb]) := by
    have hnd : ∀ c r, precBytes s ++ [UInt8.ofNat s.verb] = c :: r → isDigit c = false := by
      intro c r h
      unfold precBytes at h
      cases hprec : s.prec with
      | some p => simp only [hprec, List.cons_append] at h; rw [← (List.cons.inj h).1]; decide
      | none => simp only [hprec, List.nil_append] at h; rw [← (List.cons.inj h).1]; exact vd
    unfold widBytes
    cases hwid : s.wid with
    | some w => simp only [Option.getD, Option.isSome]; exact parsenum_itoa w _ (hw w hwid).2 hnd
    | none =>
      simp only [List.nil_append, Option.getD, Option.isSome]
      unfold parsenum
      cases hpb : precBytes s ++ [UInt8.ofNat s.verb] with
      | nil => simp [parsenumAux]
      | cons c r => simp [parsenumAux, hnd c r hpb]
  rw [hwidparse]
  simp only
  -- precision and verb
  unfold precBytes
  cases hprec : s.prec with
  | some p =>
    obtain ⟨c, r, hc, _⟩ := itoa_ne_nil p
    simp only [List.cons_append, hc, parsePrec]
    rw [← List.cons_append, ← hc, parsenum_itoa p _ (hp p hprec) (by intro c' r' h; rw [← (List.cons.inj h).1]; exact vd)]
    simp only [decodeVerb, vlt, if_true]
    cases s with
    | mk plus minus sharp space zero wid prec verb =>
      simp only at hprec vnat ⊢
      cases wid <;> simp_all
  | none =>
    simp only [List.nil_append]
    have hpp : ∀ st : FState, parsePrec st [UInt8.ofNat s.verb] = (st, [UInt8.ofNat s.verb]) := by
      intro st; unfold parsePrec; split
      · rename_i heq; simp at heq
      · rfl
    rw [hpp]
    simp only [decodeVerb, vlt, if_true]
    cases s with
    | mk plus minus sharp space zero wid prec verb =>
      simp only at hprec vnat ⊢
      cases wid <;> simp_all

/-- `justV` is reported exactly for the bare `%v`. -/
theorem justV_iff (s : FState) : (makeFormat s).1 = true ↔ (noFlags s = true ∧ s.verb = 118) := by
  unfold makeFormat
  by_cases hn : noFlags s = true <;> by_cases hv : s.verb = 118 <;> simp [hn, hv]
  all_goals (try (split <;> (try split) <;> simp_all))

/-- Known finding D9: a reported width of 0 is written as `0`, which the parser reads as the zero flag. -/
theorem width_zero_not_reproduced :
    parseDirective true (makeFormat { wid := some 0, verb := 100 }).2 = some { zero := true, verb := 100 } := by
  decide

/-- The multi-byte verbs of the property's quantifier (`世`, `é`, `‹`), with flags, width and precision. -/
theorem multibyte_examples :
    parseDirective true (makeFormat { plus := true, sharp := true, wid := some 12, prec := some 5, verb := 0x4E16 }).2
      = some { plus := true, sharp := true, wid := some 12, prec := some 5, verb := 0x4E16 } ∧
    parseDirective false (makeFormat { minus := true, zero := true, wid := some 1000, verb := 0xE9 }).2
      = some { minus := true, zero := true, wid := some 1000, verb := 0xE9 } ∧
    parseDirective true (makeFormat { space := true, prec := some 0, verb := 0x2039 }).2
      = some { space := true, prec := some 0, verb := 0x2039 } := by
  decide

/-! Non-vacuity of the round-trip hypotheses. -/
example : VerbOk 120 ∧ (∀ w, (some 12 : Option Nat) = some w → 1 ≤ w ∧ w ≤ 10000009) := by
  constructor
  · unfold VerbOk; omega
  · intro w h; cases h; omega

/-- **C14 on the function as translated from the source**: the round trip holds of
`Trans.MakeFormat` — what /verif/extract reads off `internal/fmtforward/make_format.go` on every
run — because that function is the model's (`makeFormat_translated`, Props/TransFormat.lean). -/
theorem translated_makeFormat_roundtrip (rule : Bool) (s : FState)
    (hv : VerbOk s.verb)
    (hw : ∀ w, s.wid = some w → 1 ≤ w ∧ w ≤ 10000009)
    (hp : ∀ p, s.prec = some p → p ≤ 10000009)
    (hz : rule = true → ¬ (s.minus = true ∧ s.zero = true)) :
    parseDirective rule (Trans.MakeFormat (stateOf s) (s.verb : Int)).2 = some s := by
  rw [makeFormat_translated]
  exact makeFormat_roundtrip_partial rule s hv hw hp hz

end Redact
