import RedactVerif.Props.L2
import RedactVerif.Props.FactsClassify
import RedactVerif.Proofs.U.Top
import RedactVerif.Proofs.S.Top
import RedactVerif.Props.FactsSkelPrinter
/-
C06 — Unsafe(x) envelopes all of x; Safe(x) envelopes none; outermost wins.

Proved, as statements about the dispatch logic of the model (which is tied to
print.go / helpers.go byte for byte by the P-model correspondence):
* outermost wins: once an override is active, `startSafeOverride` /
  `startUnsafeOverride` change nothing (`outermost_wins`), so an inner wrapper
  has no effect (`inner_wrapper_inert`);
* under `Unsafe(..)` the redact-specific dispatch is skipped — SafeFormatter,
  SafeMessager and the error hook are not called (`unsafe_skips_redact_dispatch`) —
  and a RedactableString/Bytes is written as ordinary unsafe data, not raw
  (`unsafe_redactable_not_raw`);
* nested printers inherit the override (`nested_inherits`, the D3 fix) and
  `doPrint/doPrintf` do not leave unsafe mode under it (`doPrint_keeps_unsafe`).

END TO END (proved, for every value of the model's universe, every user method script,
every verb, every fuel — `Proofs/U`, `Proofs/S`: the induction of the frame theorem over the 21
functions of the printer, repeated under each override):
* `unsafe_operand_enveloped` / `sprint_unsafe_all_enveloped`: printing `Unsafe(x)` adds nothing
  but line feeds outside envelopes — also when `x` contains safe values, `Safe(…)`,
  redactable strings, SafeFormatters, formatters, errors, panicking methods;
* `safe_operand_no_envelope` / `sprint_safe_no_marker`: printing `Safe(x)`, for `x` without a
  redactable operand, opens no envelope and leaves every earlier envelope as it was; the
  output of `Sprint(Safe(x))` contains no marker at all.
NOT proved here: "the characters are those fmt prints for x" — the model writes what the
fork of fmt writes by construction; that the fork agrees with fmt is decided by the real-code
oracle P-wrappers (and C04's differential check) on generated cases.
-/
namespace Redact

theorem outermost_wins (p : PP) (h : p.override ≠ .no) :
    p.startSafeOverride.1 = p ∧ p.startUnsafeOverride.1 = p := by
  simp [PP.startSafeOverride, PP.startUnsafeOverride, h]

/-- What a deferred `restore()` does to a result: on return the mode and override are put back;
while a panic unwinds, the mode is. -/
def Res.restored (r : Res) (m : Mode) (ov : Override) : Res :=
  match r with
  | .ok q => .ok (q.restore ⟨m, ov⟩)
  | .panic b pl => .panic (b.setMode m) pl
  | x => x

/-- Under an active override, `Safe(v)` / `Unsafe(v)` print exactly like `v`
(the restorer re-sets the mode it found, which is a no-op on the result's frame). -/
theorem inner_wrapper_inert (env : Env) (n : Nat) (p : PP) (v : Val) (verb : Nat) (h : p.override ≠ .no) :
    printArg env (n + 1) p (.safeW v) verb = (printArg env n p v verb).restored p.buf.mode p.override ∧
    printArg env (n + 1) p (.unsafeW v) verb = (printArg env n p v verb).restored p.buf.mode p.override := by
  simp only [printArg, bracket, PP.startSafeOverride, PP.startUnsafeOverride, h, Res.restored, if_false]
  constructor <;> (cases printArg env n p v verb <;> rfl)

/-- Under `overrideUnsafe`, whether the value is a SafeFormatter or a SafeMessager
is irrelevant: those dispatches are skipped (the error hook likewise, see C17). -/
theorem unsafe_skips_redact_dispatch (env : Env) (n : Nat) (p : PP) (arg : Val) (ms : Methods) (nr : Bool)
    (ret : Nat) (sc : Script) (verb : Nat) (h : p.override = .ovUnsafe) :
    methDispatch env (n + 1) p arg ms nr ret sc verb =
      methDispatch env (n + 1) p arg { ms with safeFormatter := false, safeMessager := false } nr ret sc verb := by
  simp [methDispatch, h]

/-- Under `overrideUnsafe` a RedactableString/Bytes operand is *not* copied raw:
it is written like any other unsafe data (and so escaped and enveloped). -/
theorem unsafe_redactable_not_raw (p : PP) (content : List Byte) (h : p.override = .ovUnsafe) :
    bracket PP.startPreRedactable p (fun q => .ok (q.w content)) =
      .ok ((p.w content).restore ⟨p.buf.mode, p.override⟩) := by
  simp [bracket, PP.startPreRedactable, h]

/-- `doPrint`/`doPrintf` leave the mode alone under `overrideUnsafe` (D3 fix). -/
theorem doPrint_keeps_unsafe (env : Env) (n : Nat) (p : PP) (args : List Val) (h : p.override = .ovUnsafe) :
    doPrint env (n + 1) p args = doPrintLoop env n p args 0 false := by
  simp [doPrint, h]

/-! ### End to end -/

/-- **`Unsafe(x)` as an operand**: from a printer without override, in safe mode, whose text so
far does not end in a truncated character, printing `Unsafe(x)` returns with the buffer closed
and fully validated, and outside envelopes only line feeds were added (`fT` reads the text outside
envelopes of a fully validated buffer; `finalize` is what the output would have been without the operand). -/
theorem unsafe_operand_enveloped (env : Env) (he : EnvOk env) (n : Nat) (p : PP) (v : Val) (verb : Nat)
    (hp : Pre p) (ho : p.override = .no) (hm : p.buf.mode ≠ .unsafeEsc)
    (hT : tailBad p.buf.finalize.buf = false) (hv : ValOk v) (q : PP)
    (h : printArg env (n + 1) p (.unsafeW v) verb = .ok q) :
    q.buf.validUntil = q.buf.buf.length ∧ q.buf.markerOpen = false ∧
      ∃ l, OnlyLFs l ∧ U.fT q.buf = U.fT p.buf.finalize ++ l :=
  (U.unsafe_operand env he n p v verb hp ho hm hT hv q h).2.2.2

/-- **`Sprint(Unsafe(x))`: dropping the envelopes of the output leaves line feeds only.** -/
theorem sprint_unsafe_all_enveloped (env : Env) (he : EnvOk env) (v : Val) (hv : ValOk v) (q : PP)
    (h : sprint env [.unsafeW v] = .ok q) :
    ∀ t ∈ dropEnvT (tokenize q.buf.redactableBytes), t = .b LF := by
  have h1 := U.sprint_unsafe_enveloped env he v hv defaultFuel q h
  have ⟨ob, _⟩ := doPrint_out env he defaultFuel newPP pre_newPP [.unsafeW v]
    (fun x hx => by simp only [List.mem_singleton] at hx; subst hx; simpa [ValOk] using hv) q h
  unfold dropEnvT
  rw [(dropEnv_eq_safeText _).1 (scanWF_of_scan _ _ _ ob.2)]
  exact h1

/-- **`Safe(x)` as an operand** (`x` without a redactable operand, `S.ValOk`): the validated prefix
of the buffer — every envelope written so far — is untouched, and the printer is back in safe mode. -/
theorem safe_operand_no_envelope (env : Env) (he : S.EnvOk env) (n : Nat) (p : PP) (v : Val) (verb : Nat)
    (hp : Pre p) (ho : p.override = .no) (hm : p.buf.mode = .safeEsc) (hv : S.ValOk v) (q : PP)
    (h : printArg env (n + 1) p (.safeW v) verb = .ok q) :
    q.buf.mode = .safeEsc ∧ q.override = .no ∧ q.buf.pre = p.buf.pre :=
  (S.safe_operand env he n p v verb hp ho hm hv q h).2

/-- **`Sprint(Safe(x))` contains no marker.** -/
theorem sprint_safe_no_marker (env : Env) (he : S.EnvOk env) (v : Val) (hv : S.ValOk v) (q : PP)
    (h : sprint env [.safeW v] = .ok q) :
    ∀ t ∈ tokenize q.buf.redactableBytes, t.isMarker = false :=
  S.sprint_safe_no_envelope env he v hv defaultFuel q h

/-! Premises satisfiable: a `Safe(string)` inside `Unsafe(…)`, and an `Unsafe(Safe(string))` inside `Safe(…)`.
(The model prints `Unsafe(Safe("a\nb"))` as `‹a›\n‹b›` and `Safe(Unsafe(Safe("a\nb")))` as `a\nb`: `#eval` in the driver.) -/
def exEnv6 : Env := { render := fun _ _ => some [0x61, 0x0A, 0x62], hook := none }
def exV6 : Val := .safeW (.leaf 0 .str "string".toUTF8.toList none false false)
example : EnvOk exEnv6 ∧ S.EnvOk exEnv6 ∧ ValOk exV6 ∧ S.ValOk (.unsafeW exV6) := by
  refine ⟨?_, ?_, ?_, ?_⟩
  · intro h hh; cases hh
  · intro h hh; cases hh
  · simp [exV6, ValOk]
  · simp [exV6, S.ValOk]

end Redact
