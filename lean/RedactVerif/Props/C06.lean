import RedactVerif.Props.TransPP
import RedactVerif.Props.L2
import RedactVerif.Props.FactsClassify
import RedactVerif.Proofs.U.Top
import RedactVerif.Proofs.S.Top
import RedactVerif.Props.FactsSkelPrinter
import RedactVerif.Props.C04
/-
C06 — Unsafe(x) envelopes all of x; Safe(x) envelopes none; outermost wins.

Proved, as statements about the dispatch logic of the model (which is tied to
print.go / helpers.go byte for byte by the P-model correspondence):
* outermost wins: once an override is active, `startSafeOverride` /
  `startUnsafeOverride` change nothing (`outermost_wins`), so an inner wrapper
  has no effect (`inner_wrapper_inert`);
* under `Unsafe(..)` the redact-specific dispatch is skipped — SafeFormatter,
  SafeMessager and the error hook are not called (`unsafe_skips_redact_dispatch`) —
  and a RedactableString/Bytes is written as ordinary unsafe data, not raw
  (`unsafe_redactable_not_raw`);
* nested printers inherit the override (`nested_inherits`, the D3 fix) and
  `doPrint/doPrintf` do not leave unsafe mode under it (`doPrint_keeps_unsafe`).

END TO END (proved, for every value of the model's universe, every user method script,
every verb, every fuel — `Proofs/U`, `Proofs/S`: the induction of the frame theorem over the 21
functions of the printer, repeated under each override):
* `unsafe_operand_enveloped` / `sprint_unsafe_all_enveloped` / `sprintf_unsafe_all_enveloped` (`Sprintf("%c", Unsafe(x))` for every lower-case verb `c`): printing `Unsafe(x)` adds nothing
  but line feeds outside envelopes — also when `x` contains safe values, `Safe(…)`,
  redactable strings, SafeFormatters, formatters, errors, panicking methods;
* `safe_operand_no_envelope` / `sprint_safe_no_marker` / `sprintf_safe_no_marker`: printing `Safe(x)`, for `x` without a
  redactable operand, opens no envelope and leaves every earlier envelope as it was; the
  output of `Sprint(Safe(x))` contains no marker at all.
NOT proved here: "the characters are those fmt prints for x" — the model writes what the
fork of fmt writes by construction; that the fork agrees with fmt is decided by the real-code
oracle P-wrappers (and C04's differential check) on generated cases.
-/
namespace Redact

theorem outermost_wins (p : PP) (h : p.override ≠ .no) :
    p.startSafeOverride.1 = p ∧ p.startUnsafeOverride.1 = p := by
  simp [PP.startSafeOverride, PP.startUnsafeOverride, h]

/-- What a deferred `restore()` does to a result: on return the mode and override are put back;
while a panic unwinds, the mode is. -/
def Res.restored (r : Res) (m : Mode) (ov : Override) : Res :=
  match r with
  | .ok q => .ok (q.restore ⟨m, ov⟩)
  | .panic b pl => .panic (b.setMode m) pl
  | x => x

/-- Under an active override, `Safe(v)` / `Unsafe(v)` print exactly like `v`
(the restorer re-sets the mode it found, which is a no-op on the result's frame). -/
theorem inner_wrapper_inert (env : Env) (n : Nat) (p : PP) (v : Val) (verb : Nat) (h : p.override ≠ .no) :
    printArg env (n + 1) p (.safeW v) verb = (printArg env n p v verb).restored p.buf.mode p.override ∧
    printArg env (n + 1) p (.unsafeW v) verb = (printArg env n p v verb).restored p.buf.mode p.override := by
  simp only [printArg, bracket, PP.startSafeOverride, PP.startUnsafeOverride, h, Res.restored, if_false]
  constructor <;> (cases printArg env n p v verb <;> rfl)

/-- Under `overrideUnsafe`, whether the value is a SafeFormatter or a SafeMessager
is irrelevant: those dispatches are skipped (the error hook likewise, see C17). -/
theorem unsafe_skips_redact_dispatch (env : Env) (n : Nat) (p : PP) (arg : Val) (ms : Methods) (nr : Bool)
    (ret : Nat) (sc : Script) (verb : Nat) (h : p.override = .ovUnsafe) :
    methDispatch env (n + 1) p arg ms nr ret sc verb =
      methDispatch env (n + 1) p arg { ms with safeFormatter := false, safeMessager := false } nr ret sc verb := by
  simp [methDispatch, h]

/-- Under `overrideUnsafe` a RedactableString/Bytes operand is *not* copied raw:
it is written like any other unsafe data (and so escaped and enveloped). -/
theorem unsafe_redactable_not_raw (p : PP) (content : List Byte) (h : p.override = .ovUnsafe) :
    bracket PP.startPreRedactable p (fun q => .ok (q.w content)) =
      .ok ((p.w content).restore ⟨p.buf.mode, p.override⟩) := by
  simp [bracket, PP.startPreRedactable, h]

/-- `doPrint`/`doPrintf` leave the mode alone under `overrideUnsafe` (D3 fix). -/
theorem doPrint_keeps_unsafe (env : Env) (n : Nat) (p : PP) (args : List Val) (h : p.override = .ovUnsafe) :
    doPrint env (n + 1) p args = doPrintLoop env n p args 0 false := by
  simp [doPrint, h]

/-! ### End to end -/

/-- **`Unsafe(x)` as an operand**: from a printer without override, in safe mode, whose text so
far does not end in a truncated character, printing `Unsafe(x)` returns with the buffer closed
and fully validated, and outside envelopes only line feeds were added (`fT` reads the text outside
envelopes of a fully validated buffer; `finalize` is what the output would have been without the operand). -/
theorem unsafe_operand_enveloped (env : Env) (he : EnvOk env) (n : Nat) (p : PP) (v : Val) (verb : Nat)
    (hp : Pre p) (ho : p.override = .no) (hm : p.buf.mode ≠ .unsafeEsc)
    (hT : tailBad p.buf.finalize.buf = false) (hv : ValOk v) (q : PP)
    (h : printArg env (n + 1) p (.unsafeW v) verb = .ok q) :
    q.buf.validUntil = q.buf.buf.length ∧ q.buf.markerOpen = false ∧
      ∃ l, OnlyLFs l ∧ U.fT q.buf = U.fT p.buf.finalize ++ l :=
  (U.unsafe_operand env he n p v verb hp ho hm hT hv q h).2.2.2

/-- **`Sprint(Unsafe(x))`: dropping the envelopes of the output leaves line feeds only.** -/
theorem sprint_unsafe_all_enveloped (env : Env) (he : EnvOk env) (v : Val) (hv : ValOk v) (q : PP)
    (h : sprint env [.unsafeW v] = .ok q) :
    ∀ t ∈ dropEnvT (tokenize q.buf.redactableBytes), t = .b LF := by
  have h1 := U.sprint_unsafe_enveloped env he v hv defaultFuel q h
  have ⟨ob, _⟩ := doPrint_out env he defaultFuel newPP pre_newPP [.unsafeW v]
    (fun x hx => by simp only [List.mem_singleton] at hx; subst hx; simpa [ValOk] using hv) q h
  unfold dropEnvT
  rw [(dropEnv_eq_safeText _).1 (scanWF_of_scan _ _ _ ob.2)]
  exact h1

/-- **`Safe(x)` as an operand** (`x` without a redactable operand, `S.ValOk`): the validated prefix
of the buffer — every envelope written so far — is untouched, and the printer is back in safe mode. -/
theorem safe_operand_no_envelope (env : Env) (he : S.EnvOk env) (n : Nat) (p : PP) (v : Val) (verb : Nat)
    (hp : Pre p) (ho : p.override = .no) (hm : p.buf.mode = .safeEsc) (hv : S.ValOk v) (q : PP)
    (h : printArg env (n + 1) p (.safeW v) verb = .ok q) :
    q.buf.mode = .safeEsc ∧ q.override = .no ∧ q.buf.pre = p.buf.pre :=
  (S.safe_operand env he n p v verb hp ho hm hv q h).2

/-- **`Sprint(Safe(x))` contains no marker.** -/
theorem sprint_safe_no_marker (env : Env) (he : S.EnvOk env) (v : Val) (hv : S.ValOk v) (q : PP)
    (h : sprint env [.safeW v] = .ok q) :
    ∀ t ∈ tokenize q.buf.redactableBytes, t.isMarker = false :=
  S.sprint_safe_no_envelope env he v hv defaultFuel q h

/-- The empty buffer in safe mode: what `doPrint`/`doPrintf` make of a fresh printer's buffer. -/
def emptySafe : Buffer := { buf := [], validUntil := 0, mode := .safeEsc, markerOpen := false }

theorem emptySafe_eq : Buffer.init.setMode .safeEsc = emptySafe := by decide

/-- `Unsafe(x)` as the only thing printed into an empty buffer, under any verb and any flags:
the finished output has nothing but line feeds outside envelopes. -/
theorem only_operand_enveloped (env : Env) (he : EnvOk env) (k : Nat) (p1 : PP) (e1 : p1.buf = emptySafe)
    (ho : p1.override = .no) (v : Val) (hv : ValOk v) (verb : Nat) (q' : PP)
    (hr : printArg env (k + 1) p1 (.unsafeW v) verb = .ok q') :
    OnlyLFs (safeText (evT (tokenize q'.buf.redactableBytes))) := by
  have hp : Pre p1 := by
    unfold Pre; rw [e1, ← emptySafe_eq]
    exact ⟨inv_setMode _ _ inv_init, by simp [setMode_mode]⟩
  have hfin : p1.buf.finalize.buf = [] := by rw [e1]; decide
  have ⟨i, m, _, vv, oo, l, ol, el⟩ := U.unsafe_operand env he k p1 v verb hp ho
    (by rw [e1]; decide) (by rw [hfin]; decide) hv q' hr
  have hm : q'.buf.mode ≠ .raw := by rw [m, e1]; decide
  have hdec : decide (q'.buf.mode = .unsafeEsc) = false := by rw [m, e1]; decide
  have hpre := pre_of_full vv
  have hsuf := suf_of_full vv
  have hsc : scan (tokenize q'.buf.buf) = some false := by have := i.sc; rwa [hpre, oo] at this
  have hfT : U.fT q'.buf = l := by rw [el]; unfold U.fT; rw [hfin]; rfl
  have hl : OnlyLFs (safeText (evT (tokenize q'.buf.buf))) := by
    change OnlyLFs (U.fT q'.buf); rw [hfT]; exact ol
  unfold Buffer.redactableBytes
  rw [finalize_esc_closed _ hm oo, hdec]
  have hbuf : (q'.buf.escapeToEnd false).buf = escapeBytesAt q'.buf.buf q'.buf.validUntil false false := rfl
  rw [hbuf, (escapeBytesAt_spec q'.buf.buf q'.buf.validUntil false i.good).1, U.tail_of_onlyLFs _ hsc hl]
  simp only [Bool.false_eq_true, if_false]
  change OnlyLFs (safeText (evT (escTok false (tokenize q'.buf.pre) (tokenize q'.buf.suf))))
  rw [hpre, hsuf]
  simpa [escTok] using hl

/-- **`Sprintf("%c", Unsafe(x))`, for every lower-case verb `c`** (`%v`, `%s`, `%d`, `%x`, `%q`, …,
also the bad ones): dropping the envelopes of the output leaves line feeds only. -/
theorem sprintf_unsafe_all_enveloped (env : Env) (he : EnvOk env) (v : Val) (hv : ValOk v) (c : Byte)
    (hc : 0x61 ≤ c ∧ c ≤ 0x7A) (q : PP) (h : sprintf env [0x25, c] [.unsafeW v] = .ok q) :
    ∀ t ∈ dropEnvT (tokenize q.buf.redactableBytes), t = .b LF := by
  have hne : c ≠ 0x25 ∧ c ≠ 0x23 ∧ c ≠ 0x30 ∧ c ≠ 0x2B ∧ c ≠ 0x2D ∧ c ≠ 0x20 := by
    have h1 := hc.1
    refine ⟨?_, ?_, ?_, ?_, ?_, ?_⟩ <;> (intro heq; rw [heq] at h1; exact absurd h1 (by decide))
  have hpf : parseFlags true {} [c] = ({}, [c]) := by
    rw [parseFlags]; simp [hne.2.1, hne.2.2.1, hne.2.2.2.1, hne.2.2.2.2.1, hne.2.2.2.2.2]
  have h0 : doPrintf env defaultFuel newPP [0x25, c] [.unsafeW v] = .ok q := h
  have e : defaultFuel = 99994 + 6 := rfl
  unfold sprintf at h
  rw [e] at h
  have ho : newPP.override ≠ .ovUnsafe := by decide
  rw [doPrintf] at h
  simp only [ho, if_true, ne_eq, not_false_eq_true] at h
  rw [fmtLoop] at h
  simp only [List.takeWhile, List.dropWhile, ne_eq, decide_not, decide_true, Bool.not_true, List.isEmpty_nil, if_true,
    hpf, hc.1, hc.2, and_self, List.length_singleton, Nat.lt_one_iff, true_and] at h
  simp only [List.getElem?_cons_zero] at h
  -- the printer handed to printArg: flags set from the directive, buffer = the empty safe buffer
  generalize hP : (if c = 0x76 then _ else _ : PP) = P at h
  have eP : P.buf = emptySafe ∧ P.override = .no := by
    rw [← hP]; split <;> exact ⟨emptySafe_eq, rfl⟩
  cases hr : printArg env (99994 + 4) P (.unsafeW v) c.toNat with
  | ok q' =>
    rw [hr] at h
    simp only [Res.bind] at h
    rw [fmtLoop] at h
    simp only [List.takeWhile, List.dropWhile, List.isEmpty_nil, if_true] at h
    rw [finishPrintf] at h
    have h1 := only_operand_enveloped env he (99994 + 3) P eP.1 eP.2 v hv c.toNat q' hr
    simp only [List.length_singleton, Nat.zero_add, Nat.lt_irrefl, and_false, if_false, Res.ok.injEq] at h
    have hb : q.buf = q'.buf := by rw [← h]
    have ⟨ob, _⟩ := doPrintf_out env he defaultFuel newPP pre_newPP [0x25, c] [.unsafeW v]
      (fun x hx => by simp only [List.mem_singleton] at hx; subst hx; simpa [ValOk] using hv) q h0
    unfold dropEnvT
    rw [(dropEnv_eq_safeText _).1 (scanWF_of_scan _ _ _ ob.2), hb]
    exact h1
  | panic b pl => rw [hr] at h; simp [Res.bind] at h
  | fuel => rw [hr] at h; simp [Res.bind] at h
  | unsupported => rw [hr] at h; simp [Res.bind] at h

/-- `Safe(x)` as the only thing printed into an empty buffer, under any verb and any flags: no marker in the output. -/
theorem only_operand_no_marker (env : Env) (he : S.EnvOk env) (k : Nat) (p1 : PP) (e1 : p1.buf = emptySafe)
    (ho : p1.override = .no) (v : Val) (hv : S.ValOk v) (verb : Nat) (q' : PP)
    (hr : printArg env (k + 1) p1 (.safeW v) verb = .ok q') :
    ∀ t ∈ tokenize q'.buf.redactableBytes, t.isMarker = false := by
  have hp : Pre p1 := by
    unfold Pre; rw [e1, ← emptySafe_eq]
    exact ⟨inv_setMode _ _ inv_init, by simp [setMode_mode]⟩
  have ⟨i, m, _, hpre⟩ := S.safe_operand env he k p1 v verb hp ho (by rw [e1]; rfl) hv q' hr
  have hpre0 : q'.buf.pre = [] := by rw [hpre, e1]; rfl
  have hm : q'.buf.mode ≠ .raw := by rw [m]; decide
  have hdec : decide (q'.buf.mode = .unsafeEsc) = false := by rw [m]; decide
  have oo : q'.buf.markerOpen = false := by
    cases ho : q'.buf.markerOpen with
    | false => rfl
    | true => have := i.openMode ho; rw [m] at this; cases this
  unfold Buffer.redactableBytes
  rw [finalize_esc_closed _ hm oo, hdec]
  have hbuf : (q'.buf.escapeToEnd false).buf = escapeBytesAt q'.buf.buf q'.buf.validUntil false false := rfl
  rw [hbuf, (escapeBytesAt_spec q'.buf.buf q'.buf.validUntil false i.good).1]
  change ∀ t ∈ (if tailBad q'.buf.buf = true then escTok false (tokenize q'.buf.pre) (tokenize q'.buf.suf) ++ [.b 0x3F]
    else escTok false (tokenize q'.buf.pre) (tokenize q'.buf.suf)), t.isMarker = false
  rw [hpre0, escTok_false_eq]
  have hE := escT_no_marker (tokenize q'.buf.suf)
  intro t ht
  split at ht
  · simp only [tokenize_nil, List.nil_append, List.mem_append, List.mem_singleton] at ht
    rcases ht with ht | rfl
    · exact hE t ht
    · rfl
  · simp only [tokenize_nil, List.nil_append] at ht
    exact hE t ht

/-- **`Sprintf("%c", Safe(x))`, for every lower-case verb `c`** (`x` without a redactable operand): no marker in the output. -/
theorem sprintf_safe_no_marker (env : Env) (he : S.EnvOk env) (v : Val) (hv : S.ValOk v) (c : Byte)
    (hc : 0x61 ≤ c ∧ c ≤ 0x7A) (q : PP) (h : sprintf env [0x25, c] [.safeW v] = .ok q) :
    ∀ t ∈ tokenize q.buf.redactableBytes, t.isMarker = false := by
  have hne : c ≠ 0x25 ∧ c ≠ 0x23 ∧ c ≠ 0x30 ∧ c ≠ 0x2B ∧ c ≠ 0x2D ∧ c ≠ 0x20 := by
    have h1 := hc.1
    refine ⟨?_, ?_, ?_, ?_, ?_, ?_⟩ <;> (intro heq; rw [heq] at h1; exact absurd h1 (by decide))
  have hpf : parseFlags true {} [c] = ({}, [c]) := by
    rw [parseFlags]; simp [hne.2.1, hne.2.2.1, hne.2.2.2.1, hne.2.2.2.2.1, hne.2.2.2.2.2]
  have e : defaultFuel = 99994 + 6 := rfl
  unfold sprintf at h
  rw [e] at h
  have ho : newPP.override ≠ .ovUnsafe := by decide
  rw [doPrintf] at h
  simp only [ho, if_true, ne_eq, not_false_eq_true] at h
  rw [fmtLoop] at h
  simp only [List.takeWhile, List.dropWhile, ne_eq, decide_not, decide_true, Bool.not_true, List.isEmpty_nil, if_true,
    hpf, hc.1, hc.2, and_self, List.length_singleton, Nat.lt_one_iff] at h
  simp only [List.getElem?_cons_zero] at h
  generalize hP : (if c = 0x76 then _ else _ : PP) = P at h
  have eP : P.buf = emptySafe ∧ P.override = .no := by
    rw [← hP]; split <;> exact ⟨emptySafe_eq, rfl⟩
  cases hr : printArg env (99994 + 4) P (.safeW v) c.toNat with
  | ok q' =>
    rw [hr] at h
    simp only [Res.bind] at h
    rw [fmtLoop] at h
    simp only [List.takeWhile, List.dropWhile, List.isEmpty_nil, if_true] at h
    rw [finishPrintf] at h
    have h1 := only_operand_no_marker env he (99994 + 3) P eP.1 eP.2 v hv c.toNat q' hr
    simp only [List.length_singleton, Nat.zero_add, Nat.lt_irrefl, and_false, if_false, Res.ok.injEq] at h
    have hb : q.buf = q'.buf := by rw [← h]
    rw [hb]; exact h1
  | panic b pl => rw [hr] at h; simp [Res.bind] at h
  | fuel => rw [hr] at h; simp [Res.bind] at h
  | unsupported => rw [hr] at h; simp [Res.bind] at h

/-! Premises satisfiable: a `Safe(string)` inside `Unsafe(…)`, and an `Unsafe(Safe(string))` inside `Safe(…)`.
(The model prints `Unsafe(Safe("a\nb"))` as `‹a›\n‹b›` and `Safe(Unsafe(Safe("a\nb")))` as `a\nb`: `#eval` in the driver.) -/
def exEnv6 : Env := { render := fun _ _ => some [0x61, 0x0A, 0x62], hook := none }
def exV6 : Val := .safeW (.leaf 0 .str ([0x73, 0x74, 0x72, 0x69, 0x6E, 0x67] /- "string" -/ : List UInt8) none false false)
example : EnvOk exEnv6 ∧ S.EnvOk exEnv6 ∧ ValOk exV6 ∧ S.ValOk (.unsafeW exV6) := by
  refine ⟨?_, ?_, ?_, ?_⟩
  · intro h hh; cases hh
  · intro h hh; cases hh
  · simp [exV6, ValOk]
  · simp [exV6, S.ValOk]

/-! ### "In both cases the characters are those fmt prints for x" (on the model)

For `x` without redact-specific dispatch of its own (no SafeFormatter / SafeMessager / redactable
inside, no error hook; anything else: wrappers nested at any depth, Stringers, errors, Formatters
calling back into the printer, panicking methods, containers), the output of `Sprint(Unsafe(x))` and of
`Sprint(Safe(x))`, with markers stripped, is the text of the unclassified run (section 17 of
DESIGN.md) with its markers replaced by `?` — the same text for both wrappers and for `x` itself —
and each call panics exactly when that run does. Together with the envelope theorems above
(`sprint_unsafe_all_enveloped`, `sprint_safe_no_marker`) this is C06's statement on the model. -/

theorem unsafe_chars_are_plain (env : Env) (he : ErU.EnvE env) (hs : S.EnvOk env) (x : Val)
    (hx : ErU.ValE x) (ho : S.ValOk x) :
    C04.SameText (sprint env [.unsafeW x]) (plainSprint env [.unsafeW x]) :=
  C04.sprint_wrapped_strip_eq_plain env he hs [.unsafeW x]
    (fun v hv => by simp only [List.mem_singleton] at hv; subst hv; exact hx)
    (fun v hv => by simp only [List.mem_singleton] at hv; subst hv; exact ho)

theorem safe_chars_are_plain (env : Env) (he : ErU.EnvE env) (hs : S.EnvOk env) (x : Val)
    (hx : ErU.ValE x) (ho : S.ValOk x) :
    C04.SameText (sprint env [.safeW x]) (plainSprint env [.safeW x]) :=
  C04.sprint_wrapped_strip_eq_plain env he hs [.safeW x]
    (fun v hv => by simp only [List.mem_singleton] at hv; subst hv; exact hx)
    (fun v hv => by simp only [List.mem_singleton] at hv; subst hv; exact ho)

/-- In the unclassified run the wrappers are inert: printing `Unsafe(x)` or `Safe(x)` is printing `x`
(one unit of fuel apart: the wrapper's own call). -/
theorem plain_wrappers_inert (env : Env) (hs : S.EnvOk env) (n : Nat) (p : PP) (hp : S.Pre p) (x : Val) (ho : S.ValOk x) (verb : Nat) :
    printArg env (n + 1) p (.unsafeW x) verb = printArg env n p x verb ∧
    printArg env (n + 1) p (.safeW x) verb = printArg env n p x verb := by
  have key : ∀ (start : PP → PP × PP.Restorer), start p = (p, ⟨p.buf.mode, p.override⟩) →
      bracket start p (fun q => printArg env n q x verb) = printArg env n p x verb := by
    intro start hst
    have hS := (S.spec_all env hs n).printArg p x verb hp ho
    unfold bracket
    rw [hst]
    simp only
    generalize printArg env n p x verb = r at hS ⊢
    cases r with
    | ok q =>
      have g := hS.1 q rfl
      have hm : q.buf.setMode p.buf.mode = q.buf := setMode_same _ _ (by rw [g.1.mode, hp.2.1])
      simp only [PP.restore, hm, ← g.2]
    | panic b pl =>
      have g := hS.2 b pl rfl
      have hm : b.setMode p.buf.mode = b := setMode_same _ _ (by rw [g.1.mode, hp.2.1])
      simp only [hm]
    | fuel => rfl
    | unsupported => rfl
  constructor
  · simp only [printArg]
    exact key _ (by have := (S.start_unsafeOverride hp); rw [Prod.ext_iff]; exact ⟨this.2.2, this.2.1⟩)
  · simp only [printArg]
    exact key _ (by have := (S.start_safeOverride hp); rw [Prod.ext_iff]; exact ⟨this.2.2, this.2.1⟩)

/-! Premises satisfiable: a slice holding a `Safe(string)` and a Stringer that panics with an `Unsafe(string)`. -/
def exStrL : Val := .leaf 0 .str ([0x73, 0x74, 0x72, 0x69, 0x6E, 0x67] /- "string" -/ : List UInt8) none false false
def exX : Val :=
  .slice ([0x5B, 0x5D, 0x61] /- "[]a" -/ : List UInt8) false true
    (.cons (.safeW exStrL)
      (.cons (.meth { stringer := true } ([0x6D, 0x2E, 0x53] /- "m.S" -/ : List UInt8) false false false 1 (.panic (.unsafeW exStrL)) exStrL) .nil))
def exEnvU : Env := { render := fun _ _ => some [0x61, 0xE2, 0x80, 0xB9, 0x62], hook := none }

example : ErU.EnvE exEnvU ∧ S.EnvOk exEnvU ∧ ErU.ValE exX ∧ S.ValOk exX := by
  have ha : ∀ (l : List Byte), l.all (· < 0x80) = true → Asc l := fun l h => asc_of_all h
  refine ⟨⟨?_, rfl⟩, ?_, ?_, ?_⟩
  · intro id d s hs
    simp only [exEnvU, Option.some.injEq] at hs
    subst hs
    exact Or.inr ⟨[0x61, 0xE2, 0x80, 0xB9], [0x62], rfl, by decide⟩
  · intro h hh; cases hh
  · simp only [exX, ErU.ValE, ErU.ValsE, ErU.ScriptE, exStrL]
    refine ⟨ha _ (by decide), ha _ (by decide), ⟨⟨ha _ (by decide), ?_, ?_⟩, ha _ (by decide), ha _ (by decide)⟩, trivial⟩ <;> simp
  · simp [exX, S.ValOk, S.ValsOk, S.ScriptOk, exStrL]

end Redact
