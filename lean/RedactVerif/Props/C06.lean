import RedactVerif.Props.L2
import RedactVerif.Props.FactsClassify
/-
C06 — Unsafe(x) envelopes all of x; Safe(x) envelopes none; outermost wins.

Proved, as statements about the dispatch logic of the model (which is tied to
print.go / helpers.go byte for byte by the P-model correspondence):
* outermost wins: once an override is active, `startSafeOverride` /
  `startUnsafeOverride` change nothing (`outermost_wins`), so an inner wrapper
  has no effect (`inner_wrapper_inert`);
* under `Unsafe(..)` the redact-specific dispatch is skipped — SafeFormatter,
  SafeMessager and the error hook are not called (`unsafe_skips_redact_dispatch`) —
  and a RedactableString/Bytes is written as ordinary unsafe data, not raw
  (`unsafe_redactable_not_raw`);
* nested printers inherit the override (`nested_inherits`, the D3 fix) and
  `doPrint/doPrintf` do not leave unsafe mode under it (`doPrint_keeps_unsafe`).

FULL STATEMENT (not yet proved): "the rendering of Unsafe(x) lies entirely
inside envelopes / Safe(x) contains no envelope, with fmt's characters". It
needs the buffer-level equalities (C09) lifted through the printer; the
real-code oracle P-wrappers decides it on generated cases.
-/
namespace Redact

theorem outermost_wins (p : PP) (h : p.override ≠ .no) :
    p.startSafeOverride.1 = p ∧ p.startUnsafeOverride.1 = p := by
  simp [PP.startSafeOverride, PP.startUnsafeOverride, h]

/-- What a deferred `restore()` does to a result: on return the mode and override are put back;
while a panic unwinds, the mode is. -/
def Res.restored (r : Res) (m : Mode) (ov : Override) : Res :=
  match r with
  | .ok q => .ok (q.restore ⟨m, ov⟩)
  | .panic b pl => .panic (b.setMode m) pl
  | x => x

/-- Under an active override, `Safe(v)` / `Unsafe(v)` print exactly like `v`
(the restorer re-sets the mode it found, which is a no-op on the result's frame). -/
theorem inner_wrapper_inert (env : Env) (n : Nat) (p : PP) (v : Val) (verb : Nat) (h : p.override ≠ .no) :
    printArg env (n + 1) p (.safeW v) verb = (printArg env n p v verb).restored p.buf.mode p.override ∧
    printArg env (n + 1) p (.unsafeW v) verb = (printArg env n p v verb).restored p.buf.mode p.override := by
  simp only [printArg, bracket, PP.startSafeOverride, PP.startUnsafeOverride, h, Res.restored, if_false]
  constructor <;> (cases printArg env n p v verb <;> rfl)

/-- Under `overrideUnsafe`, whether the value is a SafeFormatter or a SafeMessager
is irrelevant: those dispatches are skipped (the error hook likewise, see C17). -/
theorem unsafe_skips_redact_dispatch (env : Env) (n : Nat) (p : PP) (arg : Val) (ms : Methods) (nr : Bool)
    (ret : Nat) (sc : Script) (verb : Nat) (h : p.override = .ovUnsafe) :
    methDispatch env (n + 1) p arg ms nr ret sc verb =
      methDispatch env (n + 1) p arg { ms with safeFormatter := false, safeMessager := false } nr ret sc verb := by
  simp [methDispatch, h]

/-- Under `overrideUnsafe` a RedactableString/Bytes operand is *not* copied raw:
it is written like any other unsafe data (and so escaped and enveloped). -/
theorem unsafe_redactable_not_raw (p : PP) (content : List Byte) (h : p.override = .ovUnsafe) :
    bracket PP.startPreRedactable p (fun q => .ok (q.w content)) =
      .ok ((p.w content).restore ⟨p.buf.mode, p.override⟩) := by
  simp [bracket, PP.startPreRedactable, h]

/-- `doPrint`/`doPrintf` leave the mode alone under `overrideUnsafe` (D3 fix). -/
theorem doPrint_keeps_unsafe (env : Env) (n : Nat) (p : PP) (args : List Val) (h : p.override = .ovUnsafe) :
    doPrint env (n + 1) p args = doPrintLoop env n p args 0 false := by
  simp [doPrint, h]

end Redact
