import RedactVerif.Generated.Trans
import RedactVerif.Model.Printer
import RedactVerif.Props.TransEscape
/-
The tie for the number parsers of `doPrintf`'s directive parser (`internal/rfmt/print.go`:
`tooLarge`, `parsenum`, `parseArgNumber`) by translation. `Generated/Trans.lean` holds them as
the translator reads them off /repo on every run — `parsenum` with its loop over `s[newi]`, its
overflow exit from inside the loop and its three named results; `parseArgNumber` with its search
for the closing bracket and its call of `parsenum` on `format[1:i]` — every index guarded by its
definedness. Here they are proved, for every format, to return (no index out of range, fuel
sufficient) what the model's list-level `parsenum` / `parseArgNumber` return, and the model's
`argNumber` is proved to be Go's `argNumber` evaluated on the translated `parseArgNumber`.
-/
namespace Redact
open _root_.Redact.Trans

theorem tooLarge_translated (x : Nat) : Trans.tooLarge (x : Int) = tooLarge x := by
  unfold Trans.tooLarge tooLarge
  simp only [Id.run, pure]
  by_cases h : x > 1000000
  · have : (x : Int) > 1000000 := by omega
    simp [h, this]
  · have h1 : ¬ (x : Int) > 1000000 := by omega
    have h2 : ¬ (x : Int) < -1000000 := by omega
    simp [h, h1, h2]

theorem sl_cons (s : List Byte) (j e : Nat) (hj : j < e) (he : e ≤ s.length) :
    sl s j e = s.getD j 0 :: sl s (j + 1) e := by
  unfold sl
  have hl : j < (s.take e).length := by simp; omega
  rw [List.drop_eq_getElem_cons hl]
  congr 1
  simp [List.getD, List.getElem?_eq_getElem (show j < s.length by omega)]

theorem sl_length (s : List Byte) (j e : Nat) (he : e ≤ s.length) : (sl s j e).length = e - j := by
  unfold sl; simp; omega

theorem sl_nil_of_ge (s : List Byte) (j e : Nat) (h : e ≤ j) : sl s j e = [] := by
  unfold sl
  apply List.drop_eq_nil_of_le
  simp; omega

theorem parsenumAux_rest_le (l : List Byte) : ∀ n b, (parsenumAux n b l).2.2.length ≤ l.length := by
  induction l with
  | nil => intro n b; simp [parsenumAux]
  | cons c r ih =>
    intro n b
    unfold parsenumAux
    split
    · split
      · simp
      · have := ih (n * 10 + (c.toNat - 48)) true
        simp only [List.length_cons]; omega
    · simp

theorem u8_sub48 (c : UInt8) (h : (48 : UInt8) ≤ c) : (c - 48).toNat = c.toNat - 48 := by
  have h' : (48 : UInt8).toNat ≤ c.toNat := h
  rw [UInt8.toNat_sub_of_le c 48 h]
  rfl

/-- The loop of `parsenum`, from position `j` with accumulator `n`, `b`. -/
theorem parsenum_loop1_spec (s : List Byte) (e : Nat) (he : e ≤ s.length) :
    ∀ (fuel : Nat) (v : parsenum.Vars) (j n : Nat) (b : Bool),
      v.s = s → v.end' = (e : Int) → v.newi = (j : Int) → v.num = (n : Int) → v.isnum = b → j ≤ e → e - j < fuel →
      ∃ v', parsenum.loop1 fuel v = some v' ∧
        v'.num = ((parsenumAux n b (sl s j e)).1 : Int) ∧ v'.isnum = (parsenumAux n b (sl s j e)).2.1 ∧
        v'.newi = ((e - (parsenumAux n b (sl s j e)).2.2.length : Nat) : Int) := by
  intro fuel
  induction fuel with
  | zero => intro v j n b _ _ _ _ _ _ hf; omega
  | succ fuel ih =>
    intro v j n b hs hee hj hn hb hje hf
    rcases v with ⟨vs, vstart, vend, vnum, visnum, vnewi, vret⟩
    simp only at hs hee hj hn hb
    subst hs hee hj hn hb
    unfold parsenum.loop1
    simp only [goInRange_nat, goIndex_nat]
    by_cases hlt : j < e
    · have hc : (j : Int) < (e : Int) := by omega
      have hin : j < vs.length := by omega
      rw [sl_cons vs j e hlt he]
      by_cases hd : isDigit (vs.getD j 0) = true
      · have hd' := hd
        unfold isDigit at hd'
        simp only [Bool.and_eq_true, decide_eq_true_eq] at hd'
        obtain ⟨h1, h2⟩ := hd'
        rw [parsenumAux, if_pos hd]
        rw [tooLarge_translated]
        by_cases htl : tooLarge n = true
        · simp only [goGuard, hc, hin, h1, h2, htl, decide_true, Bool.not_true, Bool.false_or, Bool.true_and, Bool.and_self,
            if_true, Bool.false_eq_true, if_false, Option.pure_def, Option.bind_eq_bind, Option.bind_some, Bool.or_self]
          refine ⟨_, rfl, ?_, ?_, ?_⟩ <;> simp
        · have htl' : tooLarge n = false := by simpa using htl
          simp only [goGuard, hc, hin, h1, h2, htl', decide_true, Bool.not_true, Bool.false_or, Bool.true_and, Bool.and_self,
            if_true, Bool.false_eq_true, if_false, Option.pure_def, Option.bind_eq_bind, Option.bind_some, Bool.or_self]
          have := ih ⟨vs, vstart, (e : Int), (n : Int) * 10 + Int.ofNat (vs.getD j 0 - 48).toNat, true, (j : Int) + 1, vret⟩
            (j + 1) (n * 10 + ((vs.getD j 0).toNat - 48)) true rfl rfl (by simp) (by
              simp only [u8_sub48 _ h1]; push_cast; rfl) rfl (by omega) (by omega)
          exact this
      · have hd0 : isDigit (vs.getD j 0) = false := by simpa using hd
        rw [parsenumAux, if_neg hd]
        have hlen := sl_length vs (j + 1) e he
        by_cases h1 : (48 : UInt8) ≤ vs.getD j 0
        · have h2 : ¬ vs.getD j 0 ≤ (57 : UInt8) := by
            intro h2; exact hd (by unfold isDigit; simp only [Bool.and_eq_true, decide_eq_true_eq]; exact ⟨h1, h2⟩)
          simp only [goGuard, hc, hin, h1, h2, decide_true, decide_false, Bool.not_true, Bool.false_or, Bool.true_and, Bool.and_self,
            if_true, Bool.false_eq_true, if_false, Option.pure_def, Option.bind_eq_bind, Option.bind_some, Bool.or_self,
            Bool.and_false, Bool.not_false]
          refine ⟨_, rfl, rfl, rfl, ?_⟩
          simp only [List.length_cons, hlen]; omega
        · simp only [goGuard, hc, hin, h1, decide_true, decide_false, Bool.not_true, Bool.false_or, Bool.true_and, Bool.and_self,
            if_true, Bool.false_eq_true, if_false, Option.pure_def, Option.bind_eq_bind, Option.bind_some, Bool.or_self,
            Bool.and_false, Bool.false_and, Bool.not_false, Bool.or_true, Bool.true_or]
          refine ⟨_, rfl, rfl, rfl, ?_⟩
          simp only [List.length_cons, hlen]; omega
    · have hc : ¬ (j : Int) < (e : Int) := by omega
      have hje' : j = e := by omega
      subst hje'
      rw [sl_self]
      simp only [goGuard, hc, decide_false, Bool.not_false, Bool.true_or, Bool.false_and, Bool.true_and, if_true,
        Option.pure_def, Option.bind_eq_bind, Option.bind_some, Bool.and_self]
      exact ⟨_, rfl, rfl, rfl, by simp [parsenumAux]⟩

/-- **The translated `parsenum` is the model's**: on `s[start:end]` it returns the model's number and flag, and the
index at which the model's remaining input begins (`end` itself on overflow); no index is out of range. -/
theorem parsenum_translated (s : List Byte) (start e : Nat) (he : e ≤ s.length) :
    Trans.parsenum s (start : Int) (e : Int) =
      some (((parsenum (sl s start e)).1 : Int), (parsenum (sl s start e)).2.1,
            ((e - (parsenum (sl s start e)).2.2.length : Nat) : Int)) := by
  unfold Trans.parsenum Trans.parsenum.run
  by_cases hge : start ≥ e
  · have hc : (start : Int) ≥ (e : Int) := by omega
    rw [sl_nil_of_ge s start e hge]
    simp [hc, parsenum, parsenumAux]
  · have hc : ¬ (start : Int) ≥ (e : Int) := by omega
    obtain ⟨v', hv, h1, h2, h3⟩ := parsenum_loop1_spec s e he (s.length + 1)
      { s := s, start := (start : Int), end' := (e : Int), newi := (start : Int) } start 0 false rfl rfl rfl rfl rfl (by omega) (by omega)
    simp only [hc, decide_false, Bool.false_eq_true, if_false, Option.pure_def, Option.bind_eq_bind, goLen, Int.toNat_natCast]
    simp only [hv, Option.bind_some, ite_self, Option.map_some, h1, h2, h3, parsenum]

/-! ### `parseArgNumber` -/

/-- First index `i ≥ j` with `f[i] = ']'`. -/
def closeIdx (f : List Byte) : Nat → Nat → Option Nat
  | 0, _ => none
  | fuel + 1, j =>
    if j < f.length then (if f.getD j 0 = 0x5D then some j else closeIdx f fuel (j + 1)) else none

theorem closeIdx_bounds (f : List Byte) : ∀ fuel j i, closeIdx f fuel j = some i → j ≤ i ∧ i < f.length := by
  intro fuel
  induction fuel with
  | zero => intro j i h; simp [closeIdx] at h
  | succ fuel ih =>
    intro j i h
    unfold closeIdx at h
    split at h
    · split at h
      · simp only [Option.some.injEq] at h; omega
      · have := ih _ _ h; omega
    · simp at h

/-- The model's bracket scan, on indexes. -/
theorem scanBracket_closeIdx (f : List Byte) : ∀ fuel j n, f.length - j < fuel →
    scanBracket (f.drop j) n = (closeIdx f fuel j).map (fun i => (sl f j i, n + (i - j) + 1)) := by
  intro fuel
  induction fuel with
  | zero => intro j n h; omega
  | succ fuel ih =>
    intro j n h
    unfold closeIdx
    by_cases hj : j < f.length
    · rw [if_pos hj, drop_cons_getD f j hj, scanBracket]
      by_cases hx : f.getD j 0 = 0x5D
      · rw [if_pos hx, if_pos hx]; simp [sl_self]
      · rw [if_neg hx, if_neg hx, ih (j + 1) (n + 1) (by omega)]
        cases hc : closeIdx f fuel (j + 1) with
        | none => simp
        | some i =>
          have hb := closeIdx_bounds f fuel (j + 1) i hc
          simp only [Option.map_some]
          rw [sl_cons f j i (by omega) (by omega)]
          congr 2
          omega
    · rw [if_neg hj, List.drop_eq_nil_of_le (by omega)]
      simp [scanBracket]

/-- What `parseArgNumber` returns, with Go's `int` results (the index is −1 for `[0]`). -/
def parseArgNumberZ (f : List Byte) : Int × Int × Bool :=
  if f.length < 3 then (0, 1, false)
  else match scanBracket (f.drop 1) 1 with
    | none => (0, 1, false)
    | some (inner, consumed) =>
      if !(parsenum inner).2.1 || !(parsenum inner).2.2.isEmpty then (0, (consumed : Int), false)
      else (((parsenum inner).1 : Int) - 1, (consumed : Int), true)

/-- The model's `parseArgNumber` is `parseArgNumberZ` with the index truncated at 0 (the caller tests `0 ≤ index`
through `1 ≤ width`). -/
theorem parseArgNumber_eq_Z (f : List Byte) :
    parseArgNumber f = ((parseArgNumberZ f).1.toNat, (parseArgNumberZ f).2.1.toNat, (parseArgNumberZ f).2.2) := by
  unfold parseArgNumber parseArgNumberZ
  by_cases h : f.length < 3
  · simp [h]
  · rw [if_neg h, if_neg h]
    cases f with
    | nil => simp at h
    | cons c rest =>
      simp only [List.drop_succ_cons, List.drop_zero]
      cases hs : scanBracket rest 1 with
      | none => simp
      | some ic =>
        obtain ⟨inner, consumed⟩ := ic
        simp only
        by_cases hc : (!(parsenum inner).2.1 || !(parsenum inner).2.2.isEmpty) = true
        · simp [hc]
        · simp [hc]

/-- The search loop of `parseArgNumber`. -/
theorem parseArgNumber_loop1_spec (f : List Byte) :
    ∀ (fuel : Nat) (v : parseArgNumber.Vars) (j : Nat),
      v.format = f → v.i = (j : Int) → v.ret_ = false → 1 ≤ j → f.length - j < fuel →
      ∃ v', parseArgNumber.loop1 fuel v = some v' ∧
        match closeIdx f fuel j with
        | none => v'.ret_ = false
        | some i => v'.ret_ = true ∧ v'.wid = (i : Int) + 1 ∧
            (v'.index, v'.ok) =
              (if !(parsenum (sl f 1 i)).2.1 || !(parsenum (sl f 1 i)).2.2.isEmpty then ((0 : Int), false)
               else (((parsenum (sl f 1 i)).1 : Int) - 1, true)) := by
  intro fuel
  induction fuel with
  | zero => intro v j _ _ _ _ hf; omega
  | succ fuel ih =>
    intro v j hfmt hi hr hj hf
    rcases v with ⟨vf, vindex, vwid, vok, vret, vi, vwidth, vok1, vnewi⟩
    simp only at hfmt hi hr
    subst hfmt hi hr
    unfold parseArgNumber.loop1 closeIdx
    simp only [goInRange_nat, goIndex_nat, goLen]
    by_cases hlt : j < vf.length
    · have hc : (j : Int) < (vf.length : Int) := by omega
      rw [if_pos hlt]
      by_cases hx : vf.getD j 0 = 0x5D
      · rw [if_pos hx]
        have hx' : (vf.getD j 0 == (93 : UInt8)) = true := by rw [hx]; rfl
        have hpn := parsenum_translated vf 1 j (by omega)
        have hpn' : Trans.parsenum vf (1 : Int) (j : Int) = _ := hpn
        have hrl := parsenumAux_rest_le (sl vf 1 j) 0 false
        rw [sl_length vf 1 j (by omega)] at hrl
        simp only [goGuard, hc, hlt, hx', hpn', decide_true, Bool.not_true, if_true, Bool.false_eq_true, if_false, Option.pure_def,
          Option.bind_eq_bind, Option.bind_some]
        by_cases hbad : (!(parsenum (sl vf 1 j)).2.1 || !(parsenum (sl vf 1 j)).2.2.isEmpty) = true
        · have hcond : (!(parsenum (sl vf 1 j)).2.1 || ((((j - (parsenum (sl vf 1 j)).2.2.length : Nat) : Int)) != (j : Int))) = true := by
            simp only [Bool.or_eq_true, Bool.not_eq_true', bne_iff_ne, ne_eq] at hbad ⊢
            rcases hbad with h | h
            · exact Or.inl h
            · right
              have : (parsenum (sl vf 1 j)).2.2.length ≠ 0 := by
                intro h0; rw [List.length_eq_zero_iff] at h0; rw [h0] at h; simp at h
              unfold parsenum at this ⊢
              omega
          rw [if_pos hcond, if_pos hbad]
          exact ⟨_, rfl, rfl, rfl, rfl⟩
        · have hcond : ¬ (!(parsenum (sl vf 1 j)).2.1 || ((((j - (parsenum (sl vf 1 j)).2.2.length : Nat) : Int)) != (j : Int))) = true := by
            simp only [Bool.or_eq_true, Bool.not_eq_true', bne_iff_ne, ne_eq, not_or, Bool.not_eq_false, Decidable.not_not] at hbad ⊢
            refine ⟨hbad.1, ?_⟩
            have : (parsenum (sl vf 1 j)).2.2.length = 0 := by
              have := hbad.2; rw [List.isEmpty_iff] at this; rw [this]; rfl
            rw [this]; simp
          rw [if_neg hcond, if_neg hbad]
          exact ⟨_, rfl, rfl, rfl, rfl⟩
      · rw [if_neg hx]
        have hx' : (vf.getD j 0 == (93 : UInt8)) = false := by rw [beq_eq_false_iff_ne]; exact hx
        simp only [goGuard, hc, hlt, hx', decide_true, Bool.not_true, if_true, Bool.false_eq_true, if_false, Option.pure_def,
          Option.bind_eq_bind, Option.bind_some]
        exact ih ⟨vf, vindex, vwid, vok, false, (j : Int) + 1, vwidth, vok1, vnewi⟩ (j + 1) rfl (by simp) rfl (by omega) (by omega)
    · have hc : ¬ (j : Int) < (vf.length : Int) := by omega
      rw [if_neg hlt]
      simp only [hc, decide_false, Bool.not_false, if_true, Option.pure_def]
      exact ⟨_, rfl, rfl⟩

/-- **The translated `parseArgNumber`** returns, for every format, without an index out of range, what the model's
bracket scan and number parser give. -/
theorem parseArgNumber_translated (f : List Byte) :
    Trans.parseArgNumber f = some (parseArgNumberZ f) := by
  unfold Trans.parseArgNumber Trans.parseArgNumber.run parseArgNumberZ
  by_cases h : f.length < 3
  · have hc : (goLen f) < (3 : Int) := by unfold goLen; omega
    simp [h, hc]
  · have hc : ¬ ((f.length : Int) < (3 : Int)) := by omega
    obtain ⟨v', hv, hm⟩ := parseArgNumber_loop1_spec f (f.length + 1) { format := f, i := 1 } 1 rfl rfl rfl (by omega) (by omega)
    rw [if_neg h, scanBracket_closeIdx f (f.length + 1) 1 1 (by omega)]
    simp only [goLen, hc, decide_false, Bool.false_eq_true, if_false, Option.pure_def, Option.bind_eq_bind, Int.toNat_natCast]
    simp only [hv, Option.bind_some]
    cases hci : closeIdx f (f.length + 1) 1 with
    | none =>
      rw [hci] at hm
      simp only at hm
      simp [hm]
    | some i =>
      rw [hci] at hm
      obtain ⟨hr, hw, hio⟩ := hm
      have hb := closeIdx_bounds f _ 1 i hci
      have h1 : v'.index = (v'.index, v'.ok).1 := rfl
      have h2 : v'.ok = (v'.index, v'.ok).2 := rfl
      simp only [hr, if_true, Option.map_some, Option.some.injEq]
      rw [h1, h2, hio, hw]
      split <;> simp <;> omega

/-- Go's `argNumber` (print.go), transcribed over the translated `parseArgNumber`. -/
def argNumberGo (p : PP) (argNum : Nat) (f : List Byte) (numArgs : Nat) : Option (PP × Nat × List Byte × Bool) :=
  match f with
  | 0x5B :: _ => do
    let p := { p with reordered := true }
    let (index, wid, ok) ← Trans.parseArgNumber f
    if ok && decide (0 ≤ index) && decide (index < (numArgs : Int)) then some (p, index.toNat, f.drop wid.toNat, true)
    else some ({ p with goodArgNum := false }, argNum, f.drop wid.toNat, ok)
  | _ => some (p, argNum, f, false)

/-- **The model's `argNumber` is Go's `argNumber` on the translated `parseArgNumber`**: explicit argument indexes
(`[n]`, also `[0]`, out-of-range and unparsable ones) are decided as the source decides them. -/
theorem argNumber_translated (p : PP) (argNum : Nat) (f : List Byte) (numArgs : Nat) :
    argNumberGo p argNum f numArgs = some (argNumber p argNum f numArgs) := by
  unfold argNumberGo argNumber
  split
  · rename_i rest
    rw [parseArgNumber_translated]
    simp only [Option.bind_eq_bind, Option.bind_some]
    by_cases h : (0x5B :: rest : List Byte).length < 3
    · have hz : parseArgNumberZ (0x5B :: rest) = (0, 1, false) := by unfold parseArgNumberZ; rw [if_pos h]
      rw [hz, if_pos h]
      simp
    · cases hs : scanBracket ((0x5B :: rest : List Byte).drop 1) 1 with
      | none =>
        have hz : parseArgNumberZ (0x5B :: rest) = (0, 1, false) := by unfold parseArgNumberZ; rw [if_neg h, hs]
        rw [hz, if_neg h]
        simp
      | some ic =>
        obtain ⟨inner, consumed⟩ := ic
        rcases hp : parsenum inner with ⟨w, ok, rem⟩
        have hz : parseArgNumberZ (0x5B :: rest) =
            if (!ok || !rem.isEmpty) = true then ((0 : Int), (consumed : Int), false) else ((w : Int) - 1, (consumed : Int), true) := by
          unfold parseArgNumberZ; rw [if_neg h, hs]; simp only [hp]
        rw [hz, if_neg h]
        simp only [hp]
        cases ok <;> cases hre : rem.isEmpty <;> simp
        by_cases hw : 1 ≤ w ∧ w - 1 < numArgs
        · have : (0 : Int) ≤ (w : Int) - 1 ∧ (w : Int) - 1 < (numArgs : Int) := by omega
          simp [hw, this]
          omega
        · have : ¬ ((0 : Int) ≤ (w : Int) - 1 ∧ (w : Int) - 1 < (numArgs : Int)) := by omega
          simp [hw]
          intro h1 h2; exfalso; omega
  · rename_i hne
    split
    · rename_i tail; exact (hne tail rfl).elim
    · rfl

end Redact
